/-
  Preservation of the lot relation by a user energy update
  (`update_global_amounts_for_current_week` after the weekly shift): the user's old lot is
  removed — or left behind as an ORPHAN when its remaining energy is exactly 0 while it still
  sits in the first bucket — and the new lot is added.
-/
import MxModel.Lemmas.WeeklyGlobal

namespace Mx.Weekly

/-! ### what `reallocate`, `updateTotalTokens`, `updateTotalEnergy` do, in additive form -/

/-- everything but the buckets is untouched -/
structure FrameB (g' g : St) : Prop where
  fb : g'.firstBucketId = g.firstBucketId
  progress : g'.progress = g.progress
  users : g'.users = g.users
  totalEnergy : g'.totalEnergy = g.totalEnergy
  totalLocked : g'.totalLocked = g.totalLocked
  totalRewards : g'.totalRewards = g.totalRewards
  lgw : g'.lastGlobalUpdateWeek = g.lastGlobalUpdateWeek

theorem FrameB.refl (g : St) : FrameB g g := ⟨rfl, rfl, rfl, rfl, rfl, rfl, rfl⟩

theorem FrameB.trans {a b c : St} (h1 : FrameB a b) (h2 : FrameB b c) : FrameB a c :=
  ⟨h1.fb.trans h2.fb, h1.progress.trans h2.progress, h1.users.trans h2.users,
   h1.totalEnergy.trans h2.totalEnergy, h1.totalLocked.trans h2.totalLocked,
   h1.totalRewards.trans h2.totalRewards, h1.lgw.trans h2.lgw⟩

theorem bucketRemove_spec {g g1 : St} {id0 : Nat} {prev : Energy}
    (h : bucketRemove g id0 prev = some g1) :
    FrameB g1 g ∧ ∀ id,
      (g1.buckets id).tokens + (if id0 = id then prev.totalLocked else 0) = (g.buckets id).tokens ∧
      (g1.buckets id).surplus + (if id0 = id then surplusFor prev else 0) = (g.buckets id).surplus := by
  simp only [bucketRemove, Option.bind_eq_bind, Option.bind_eq_some_iff, sub?_eq_some,
    Option.pure_def, Option.some.injEq] at h
  obtain ⟨tk, ⟨hle1, rfl⟩, su, ⟨hle2, rfl⟩, rfl⟩ := h
  refine ⟨⟨rfl, rfl, rfl, rfl, rfl, rfl, rfl⟩, ?_⟩
  intro id
  by_cases hid : id = id0
  · subst hid
    simp only [upd_same, if_true]
    omega
  · have : ¬ (id0 = id) := fun h => hid h.symm
    simp only [upd_other _ _ hid, this, if_false]
    omega

theorem addOpt_spec (a : St) (o : Option Nat) (cur : Energy) (g2 : St)
    (hg2 : (match o with | some id => bucketAdd a id cur | none => a) = g2) :
    FrameB g2 a ∧ ∀ id,
      (g2.buckets id).tokens =
        (a.buckets id).tokens + (if o = some id then cur.totalLocked else 0) ∧
      (g2.buckets id).surplus =
        (a.buckets id).surplus + (if o = some id then surplusFor cur else 0) := by
  subst hg2
  cases o with
  | none => exact ⟨FrameB.refl a, fun id => by simp⟩
  | some id1 =>
    refine ⟨⟨rfl, rfl, rfl, rfl, rfl, rfl, rfl⟩, ?_⟩
    intro id
    simp only [bucketAdd]
    by_cases hid : id = id1
    · subst hid
      simp
    · have hne : ¬ (id1 = id) := fun h => hid h.symm
      simp [upd_other _ _ hid, hne]

theorem reallocate_spec {g g' : St} {prev depPrev cur : Energy} {bp : BucketPair}
    (h : reallocate g prev depPrev cur = some (g', bp)) :
    bp.prev = bucketIdFor g.firstBucketId depPrev ∧ bp.cur = bucketIdFor g.firstBucketId cur ∧
    FrameB g' g ∧
    ∀ id,
      (g'.buckets id).tokens + (if bp.prev = some id then prev.totalLocked else 0) =
        (g.buckets id).tokens + (if bp.cur = some id then cur.totalLocked else 0) ∧
      (g'.buckets id).surplus + (if bp.prev = some id then surplusFor prev else 0) =
        (g.buckets id).surplus + (if bp.cur = some id then surplusFor cur else 0) := by
  unfold reallocate at h
  cases hb : bucketIdFor g.firstBucketId depPrev with
  | none =>
    simp only [hb, Option.bind_eq_bind, Option.pure_def, Option.bind_some, Option.some.injEq,
      Prod.mk.injEq] at h
    obtain ⟨hg', rfl⟩ := h
    obtain ⟨hf, hb2⟩ := addOpt_spec g (bucketIdFor g.firstBucketId cur) cur g' hg'
    refine ⟨rfl, rfl, hf, ?_⟩
    intro id
    have := hb2 id
    simp only [reduceCtorEq, if_false, Nat.add_zero]
    exact this
  | some id0 =>
    simp only [hb, Option.bind_eq_bind, Option.pure_def, Option.bind_eq_some_iff,
      Option.some.injEq, Prod.mk.injEq] at h
    obtain ⟨a, hrem, hg', rfl⟩ := h
    obtain ⟨hf1, hb1⟩ := bucketRemove_spec hrem
    obtain ⟨hf2, hb2⟩ := addOpt_spec a (bucketIdFor a.firstBucketId cur) cur g' hg'
    rw [hf1.fb] at hb2 ⊢
    refine ⟨rfl, rfl, hf2.trans hf1, ?_⟩
    intro id
    have h1 := hb1 id
    have h2 := hb2 id
    simp only [Option.some.injEq]
    omega

theorem updateTotalTokens_spec {g g' : St} {W : Nat} {bp : BucketPair} {depPrev cur : Energy}
    (h : updateTotalTokens g W bp depPrev cur = some g') :
    g'.firstBucketId = g.firstBucketId ∧ g'.progress = g.progress ∧ g'.users = g.users ∧
    g'.totalEnergy = g.totalEnergy ∧ g'.buckets = g.buckets ∧
    g'.totalRewards = g.totalRewards ∧ g'.lastGlobalUpdateWeek = g.lastGlobalUpdateWeek ∧
    (∀ w, w ≠ W → g'.totalLocked w = g.totalLocked w) ∧
    g'.totalLocked W + (if bp.prev.isSome then depPrev.totalLocked else 0) =
      g.totalLocked W + (if bp.cur.isSome then cur.totalLocked else 0) := by
  unfold updateTotalTokens at h
  split at h
  · simp only [Option.bind_eq_bind, Option.bind_eq_some_iff, sub?_eq_some, Option.pure_def,
      Option.some.injEq] at h
    obtain ⟨v, ⟨hle, rfl⟩, rfl⟩ := h
    rename_i h1 h2
    refine ⟨rfl, rfl, rfl, rfl, rfl, rfl, rfl, fun w hw => upd_other _ _ hw, ?_⟩
    simp only [h1, h2, Option.isSome_some, if_true, upd_same]
    omega
  · simp only [Option.bind_eq_bind, Option.bind_eq_some_iff, sub?_eq_some, Option.pure_def,
      Option.some.injEq] at h
    obtain ⟨v, ⟨hle, rfl⟩, rfl⟩ := h
    rename_i h1 h2
    refine ⟨rfl, rfl, rfl, rfl, rfl, rfl, rfl, fun w hw => upd_other _ _ hw, ?_⟩
    simp only [h1, h2, Option.isSome_some, Option.isSome_none, if_true, upd_same]
    simp
    omega
  · simp only [Option.some.injEq] at h
    subst h
    rename_i h1 h2
    refine ⟨rfl, rfl, rfl, rfl, rfl, rfl, rfl, fun w hw => upd_other _ _ hw, ?_⟩
    simp [h1, h2]
  · simp only [Option.some.injEq] at h
    subst h
    rename_i h1 h2
    refine ⟨rfl, rfl, rfl, rfl, rfl, rfl, rfl, fun _ _ => rfl, ?_⟩
    simp [h1, h2]

theorem updateTotalEnergy_spec {g g' : St} {W : Nat} {depPrev cur : Energy}
    (h : updateTotalEnergy g W depPrev cur = some g') :
    g'.firstBucketId = g.firstBucketId ∧ g'.progress = g.progress ∧ g'.users = g.users ∧
    g'.totalLocked = g.totalLocked ∧ g'.buckets = g.buckets ∧
    g'.totalRewards = g.totalRewards ∧ g'.lastGlobalUpdateWeek = g.lastGlobalUpdateWeek ∧
    (∀ w, w ≠ W → g'.totalEnergy w = g.totalEnergy w) ∧
    g'.totalEnergy W + depPrev.getEnergyAmount = g.totalEnergy W + cur.getEnergyAmount := by
  simp only [updateTotalEnergy, Option.bind_eq_bind, Option.bind_eq_some_iff, sub?_eq_some,
    Option.pure_def, Option.some.injEq] at h
  obtain ⟨v, ⟨hle, rfl⟩, rfl⟩ := h
  refine ⟨rfl, rfl, rfl, rfl, rfl, rfl, rfl, fun w hw => upd_other _ _ hw, ?_⟩
  simp only [upd_same]
  omega

/-! ### bridges between the code's energies and lots -/

/-- the previous energy the code passes for a progress entry (none ⇒ week 0, `Energy::default()`) -/
def prevOf (o : Option ClaimProgress) : Nat × Energy :=
  match o with
  | some p => (p.week, p.energy)
  | none => (0, Energy.zero)

theorem updateUserEnergyForCurrentWeek_eq (g : St) (W : Nat) (cur : Energy)
    (o : Option ClaimProgress) :
    updateUserEnergyForCurrentWeek g W cur o = updateGlobal g W (prevOf o).1 (prevOf o).2 cur := by
  cases o <;> rfl

theorem toNat_sub_nat (x : Int) (n : Nat) : (x - (n : Int)).toNat = x.toNat - n := by omega

theorem prev_bridge (o : Option ClaimProgress) (W : Nat) (hw : ∀ p, o = some p → p.week ≤ W) :
    let prev := (prevOf o).2
    let dep := depletedPrev prev W (prevOf o).1
    let l := lotAt o W
    dep.getEnergyAmount = l.contrib ∧ dep.totalLocked = l.T ∧ prev.totalLocked = l.T ∧
    (0 < l.T → surplusFor prev = l.sur) := by
  cases o with
  | none =>
    simp only [prevOf, lotAt, depletedPrev_eq]
    refine ⟨?_, ?_, ?_, ?_⟩
    · rw [Energy.after_getEnergyAmount]; simp [Energy.zero, Lot.contrib]
    · simp [Energy.zero]
    · simp [Energy.zero]
    · intro h; simp at h
  | some p =>
    simp only [prevOf, lotAt, depletedPrev_eq]
    refine ⟨?_, ?_, trivial, ?_⟩
    · rw [Energy.after_getEnergyAmount, toNat_sub_nat]
      rfl
    · simp
    · intro h
      unfold surplusFor Lot.sur
      have : p.energy.totalLocked ≠ 0 := by omega
      simp [this, EPOCHS_IN_WEEK]

/-- the new progress entry `claim_multi` / `update_energy_and_progress` store for `cur` -/
def newOf (cur : Energy) (W : Nat) : Option ClaimProgress :=
  if 0 < cur.getEnergyAmount then some ⟨cur, W⟩ else none

theorem cur_bridge (cur : Energy) (W F : Nat) :
    let l := lotAt (newOf cur W) W
    cur.getEnergyAmount = l.contrib ∧
    bucketIdFor F cur = (if l.Live then some (F + l.off) else none) ∧
    (l.Live → cur.totalLocked = l.T ∧ surplusFor cur = l.sur) := by
  unfold newOf
  by_cases ha : 0 < cur.getEnergyAmount
  · simp only [ha, if_true, lotAt, Nat.sub_self]
    refine ⟨by simp [Lot.contrib], ?_, ?_⟩
    · unfold bucketIdFor Lot.Live Lot.off
      by_cases hT : cur.totalLocked = 0
      · simp [hT]
      · have h0 : cur.getEnergyAmount ≠ 0 := by omega
        have hT' : 0 < cur.totalLocked := by omega
        simp only [hT, h0, if_false, EPOCHS_IN_WEEK, hT', ha, Nat.mul_zero, Nat.zero_le, and_self,
          if_true, Nat.sub_zero, Option.some.injEq]
        omega
    · intro hl
      have hT : cur.totalLocked ≠ 0 := by have := hl.1; simp only at this; omega
      simp [surplusFor, Lot.sur, hT, EPOCHS_IN_WEEK]
  · have h0 : cur.getEnergyAmount = 0 := by omega
    simp only [ha, if_false, lotAt]
    have hnl : ¬ (Lot.Live ⟨0, 0, W⟩) := fun h => by have := h.1; simp at this
    refine ⟨by simp [Lot.contrib, h0], ?_, fun h => absurd h hnl⟩
    simp only [hnl, if_false]
    unfold bucketIdFor
    by_cases hT : cur.totalLocked = 0 <;> simp [hT, h0]

/-- user list after a progress write -/
def usersAfter (users : List Nat) (u0 : Nat) (new : Option ClaimProgress) : List Nat :=
  if new.isSome ∧ u0 ∉ users then users ++ [u0] else users

theorem setProgress_users (g : St) (u0 : Nat) (new : Option ClaimProgress) :
    (setProgress g u0 new).users = usersAfter g.users u0 new := rfl

/-- replacing one user's entry changes a sum of lot quantities by (new − old); the quantity must
    vanish on empty lots -/
theorem usum_replace {prog : Nat → Option ClaimProgress} {users : List Nat} {W : Nat}
    (hP : PRel prog users W) (u0 : Nat) (new : Option ClaimProgress) (f : Lot → Nat)
    (hf : f ⟨0, 0, W⟩ = 0) :
    usum (usersAfter users u0 new) (fun u => f (lotAt (upd prog u0 new u) W)) + f (lotAt (prog u0) W) =
      usum users (fun u => f (lotAt (prog u) W)) + f (lotAt new W) := by
  by_cases hmem : u0 ∈ users
  · have hua : usersAfter users u0 new = users := by simp [usersAfter, hmem]
    rw [hua]
    have := usum_update hP.nodup hmem (f := fun u => f (lotAt (prog u) W))
      (g := fun u => f (lotAt (upd prog u0 new u) W))
      (fun u _ hne => by simp only [upd_other _ _ hne])
    simp only [upd_same] at this
    exact this
  · have hnone : prog u0 = none := by
      by_contra hc; exact hmem (hP.mem u0 hc)
    have hsame : usum users (fun u => f (lotAt (upd prog u0 new u) W)) =
        usum users (fun u => f (lotAt (prog u) W)) :=
      usum_congr (fun u hu => by
        have : u ≠ u0 := by rintro rfl; exact hmem hu
        simp only [upd_other _ _ this])
    have hz : f (lotAt none W) = 0 := hf
    rw [hnone, hz, Nat.add_zero]
    cases new with
    | none =>
      have hua : usersAfter users u0 none = users := by simp [usersAfter]
      rw [hua, hsame, hz, Nat.add_zero]
    | some p =>
      have hua : usersAfter users u0 (some p) = users ++ [u0] := by simp [usersAfter, hmem]
      rw [hua, usum_append, hsame]
      simp

theorem PRel.replace {prog : Nat → Option ClaimProgress} {users : List Nat} {W : Nat}
    (hP : PRel prog users W) (u0 : Nat) (cur : Energy) :
    PRel (upd prog u0 (newOf cur W)) (usersAfter users u0 (newOf cur W)) W := by
  refine ⟨?_, ?_, ?_⟩
  · unfold usersAfter
    split
    · rename_i h
      exact List.nodup_append.mpr ⟨hP.nodup, (List.nodup_cons.mpr ⟨by simp, List.nodup_nil⟩), by
        intro a ha b hb; simp only [List.mem_singleton] at hb; subst hb
        rintro rfl; exact h.2 ha⟩
    · exact hP.nodup
  · intro u hu
    by_cases hu0 : u = u0
    · subst hu0
      simp only [upd_same] at hu
      unfold usersAfter
      by_cases hm : u ∈ users
      · split
        · exact List.mem_append_left _ hm
        · exact hm
      · have : (newOf cur W).isSome := by
          cases h : newOf cur W with
          | none => exact absurd h hu
          | some _ => rfl
        simp [this, hm]
    · simp only [upd_other _ _ hu0] at hu
      have := hP.mem u hu
      unfold usersAfter
      split
      · exact List.mem_append_left _ this
      · exact this
  · intro u p hp
    by_cases hu0 : u = u0
    · subst hu0
      simp only [upd_same, newOf] at hp
      split at hp
      · rename_i ha
        simp only [Option.some.injEq] at hp
        subst hp
        simp only [Energy.getEnergyAmount] at ha
        exact ⟨by show 0 < cur.amount; omega, Nat.le_refl _⟩
      · cases hp
    · simp only [upd_other _ _ hu0] at hp
      exact hP.pos u p hp

/-- case analysis of the user's OLD lot as the code sees it -/
theorem old_lot_cases (l : Lot) (F : Nat) :
    let opt := if l.T = 0 then none else if l.contrib = 0 then none else some (l.contrib / l.T / 7 + F)
    ∃ rT oT : Nat, l.tok = rT + oT ∧
      (opt.isSome → rT = l.T ∧ oT = 0) ∧ (opt = none → rT = 0) ∧
      (∀ d, l.bTok d = (if opt = some (F + d) then l.T else 0) + (if d = 0 then oT else 0)) ∧
      (∀ d, l.bSur d = (if opt = some (F + d) then l.sur else 0)) := by
  intro opt
  by_cases hT : l.T = 0
  · have hnl : ¬ l.Live := fun h => by have := h.1; omega
    refine ⟨0, 0, by simp [Lot.tok, hnl], ?_, fun _ => rfl, ?_, ?_⟩
    · simp [opt, hT]
    · intro d; simp [Lot.bTok, hnl, opt, hT]
    · intro d; simp [Lot.bSur, hnl, opt, hT]
  have hT' : 0 < l.T := by omega
  by_cases hc : l.contrib = 0
  · by_cases hl : l.Live
    · -- orphan corner: live, zero remaining energy
      have ha : 0 < l.a := hl.2.1
      have hk := (Lot.live_iff l hT' ha).mp hl
      have hd := l.decomp
      have hs := l.sur_lt hT'
      have hoff : l.off = 0 ∧ l.sur = 0 := by
        unfold Lot.contrib at hc
        unfold Lot.off
        have hj := hl.2.2
        generalize l.a / l.T / 7 = k at *
        have h7 : 7 * l.T * l.j ≤ 7 * l.T * k := Nat.mul_le_mul_left _ hk
        have heq : l.a = 7 * l.T * l.j := by omega
        by_cases hkj : k = l.j
        · subst hkj; constructor <;> omega
        · have : l.j + 1 ≤ k := by omega
          have : 7 * l.T * (l.j + 1) ≤ 7 * l.T * k := Nat.mul_le_mul_left _ this
          have e : 7 * l.T * (l.j + 1) = 7 * l.T * l.j + 7 * l.T := by ring
          omega
      refine ⟨0, l.T, by simp [Lot.tok, hl], ?_, fun _ => rfl, ?_, ?_⟩
      · simp [opt, hT, hc]
      · intro d
        simp only [Lot.bTok, hl, hoff.1, true_and, opt, hT, hc, if_false, if_true, reduceCtorEq,
          Nat.zero_add]
        by_cases hd0 : d = 0
        · simp [hd0]
        · have : ¬ (0 = d) := fun h => hd0 h.symm
          simp [hd0, this]
      · intro d
        simp only [Lot.bSur, hl, hoff.1, hoff.2, true_and, opt, hT, hc, if_false, if_true,
          reduceCtorEq]
        simp
    · refine ⟨0, 0, by simp [Lot.tok, hl], ?_, fun _ => rfl, ?_, ?_⟩
      · simp [opt, hT, hc]
      · intro d; simp [Lot.bTok, hl, opt, hT, hc]
      · intro d; simp [Lot.bSur, hl, opt, hT, hc]
  · have hc' : 0 < l.contrib := by omega
    have hl : l.Live := Lot.contrib_pos_live l hT' hc'
    have hdiv := Lot.contrib_div l hl
    refine ⟨l.T, 0, by simp [Lot.tok, hl], ?_, ?_, ?_, ?_⟩
    · intro _; exact ⟨rfl, rfl⟩
    · intro h; simp [opt, hT, hc] at h
    · intro d
      simp only [Lot.bTok, hl, true_and, opt, hT, hc, if_false, hdiv, Option.some.injEq]
      by_cases hd : l.off = d
      · subst hd
        have : l.off + F = F + l.off := by omega
        simp [this]
      · have : ¬ (l.off + F = F + d) := by omega
        simp [hd, this]
    · intro d
      simp only [Lot.bSur, hl, true_and, opt, hT, hc, if_false, hdiv, Option.some.injEq]
      by_cases hd : l.off = d
      · subst hd
        have : l.off + F = F + l.off := by omega
        simp [this]
      · have : ¬ (l.off + F = F + d) := by omega
        simp [hd, this]

end Mx.Weekly

namespace Mx.Weekly

theorem bucketIdFor_dep (F : Nat) (dep : Energy) (l : Lot) (h1 : dep.getEnergyAmount = l.contrib)
    (h2 : dep.totalLocked = l.T) :
    bucketIdFor F dep =
      if l.T = 0 then none else if l.contrib = 0 then none else some (l.contrib / l.T / 7 + F) := by
  unfold bucketIdFor
  rw [h1, h2]
  rfl

/-- **user update keeps the lot relation.**  After `update_user_energy_for_current_week` for
    user `u0` with current energy `cur`, the global structure matches the progress table in
    which `u0`'s entry is already replaced by `(cur, W)` (or removed when `cur` has no energy). -/
theorem updateUser_GRel {g g' : St} {W u0 : Nat} {cur : Energy} (hW : 1 ≤ W) (hI : GInv g)
    (h : updateUserEnergyForCurrentWeek g W cur (g.progress u0) = some g') :
    (∃ orph, GRel (upd g.progress u0 (newOf cur W)) (usersAfter g.users u0 (newOf cur W)) g' orph) ∧
    g'.lastGlobalUpdateWeek = W ∧ g'.progress = g.progress ∧ g'.users = g.users := by
  rw [updateUserEnergyForCurrentWeek_eq] at h
  simp only [updateGlobal, Option.bind_eq_bind, Option.bind_eq_some_iff, req_eq_some] at h
  obtain ⟨g1, h1, _, _, ⟨g2, bp⟩, hre, g3, htk, hen⟩ := h
  dsimp only at htk hen
  obtain ⟨⟨o, hR⟩, hlgw, hprog, husers⟩ := performWeeklyUpdate_GRel hW hI h1
  have hP : PRel g.progress g.users W := hlgw ▸ hR.p
  have hL : LRel g.progress g.users g1.firstBucketId g1.buckets W (g1.totalEnergy W)
      (g1.totalLocked W) o := by have := hR.l; rw [hlgw] at this; exact this
  obtain ⟨hb1, hb2, hb3, hb4⟩ := prev_bridge (g.progress u0) W (fun p hp => (hP.pos u0 p hp).2)
  obtain ⟨hbp, hbc, hfr, hbk⟩ := reallocate_spec hre
  obtain ⟨t1, t2, t3, t4, t5, t6, t7, t8, t9⟩ := updateTotalTokens_spec htk
  obtain ⟨n1, n2, n3, n4, n5, n6, n7, n8, n9⟩ := updateTotalEnergy_spec hen
  obtain ⟨c1, c2, c3⟩ := cur_bridge cur W g1.firstBucketId
  -- abbreviations
  generalize hl0 : lotAt (g.progress u0) W = l0 at hb1 hb2 hb3 hb4
  generalize hl1 : lotAt (newOf cur W) W = l1 at c1 c2 c3
  generalize hprev : (prevOf (g.progress u0)).2 = prev at *
  generalize hdep : depletedPrev prev W (prevOf (g.progress u0)).1 = dep at *
  have hopt := bucketIdFor_dep g1.firstBucketId dep l0 hb1 hb2
  obtain ⟨rT, oT, k1, k2, k3, k4, k5⟩ := old_lot_cases l0 g1.firstBucketId
  rw [← hopt] at k2 k3 k4 k5
  rw [← hbp] at k2 k3 k4 k5
  rw [← hbc] at c2
  have hz : ∀ (f : Lot → Nat), f ⟨0, 0, W⟩ = 0 →
      usum (usersAfter g.users u0 (newOf cur W))
        (fun u => f (lotAt (upd g.progress u0 (newOf cur W) u) W)) + f l0 =
      usum g.users (fun u => f (lotAt (g.progress u) W)) + f l1 := by
    intro f hf
    have := usum_replace hP u0 (newOf cur W) f hf
    rw [hl0, hl1] at this
    exact this
  have nl0 : ¬ (Lot.Live ⟨0, 0, W⟩) := fun h => by have := h.1; simp at this
  have zc := hz Lot.contrib (by simp [Lot.contrib])
  have zt := hz Lot.tok (by simp [Lot.tok, nl0])
  refine ⟨⟨o + oT, ?_⟩, by rw [n7, t7, hfr.lgw, hlgw], by rw [n2, t2, hfr.progress, hprog],
    by rw [n3, t3, hfr.users, husers]⟩
  have hlgw' : g'.lastGlobalUpdateWeek = W := by rw [n7, t7, hfr.lgw, hlgw]
  refine ⟨by rw [hlgw']; exact hW, by rw [hlgw']; exact hP.replace u0 cur, ?_, ?_⟩
  · rw [hlgw']
    refine ⟨?_, ?_, ?_, ?_⟩
    · -- energy
      have e1 : g3.totalEnergy W = g1.totalEnergy W := by rw [t4, hfr.totalEnergy]
      have := hL.energy
      omega
    · -- tokens
      have e1 : g2.totalLocked W = g1.totalLocked W := by rw [hfr.totalLocked]
      have e2 : g'.totalLocked W = g3.totalLocked W := by rw [n4]
      have := hL.tokens
      have hA : (if bp.prev.isSome then dep.totalLocked else 0) = rT := by
        cases hq : bp.prev with
        | none => simp [k3 hq]
        | some id => simp [hb2, (k2 (by simp [hq])).1]
      have hB : (if bp.cur.isSome then cur.totalLocked else 0) = l1.tok := by
        unfold Lot.tok
        by_cases hlive : l1.Live
        · simp [c2, hlive, (c3 hlive).1]
        · simp [c2, hlive]
      rw [hA, hB] at t9
      omega
    · intro d
      rw [n1, t1, hfr.fb, n5, t5]
      have zb := hz (fun l => l.bTok d) (by simp [Lot.bTok, nl0])
      have hk := (hbk (g1.firstBucketId + d)).1
      have hq := hL.bTok d
      have h4 := k4 d
      have hB : (if bp.cur = some (g1.firstBucketId + d) then cur.totalLocked else 0) = l1.bTok d := by
        unfold Lot.bTok
        by_cases hlive : l1.Live
        · by_cases ho : l1.off = d
          · simp [c2, hlive, ho, (c3 hlive).1]
          · have : ¬ (g1.firstBucketId + l1.off = g1.firstBucketId + d) := by omega
            simp [c2, hlive, ho, this]
        · simp [c2, hlive]
      rw [hB, hb3] at hk
      by_cases hd0 : d = 0
      · simp only [hd0, if_true] at *
        omega
      · simp only [hd0, if_false] at *
        omega
    · intro d
      rw [n1, t1, hfr.fb, n5, t5]
      have zb := hz (fun l => l.bSur d) (by simp [Lot.bSur, nl0])
      have hk := (hbk (g1.firstBucketId + d)).2
      have hq := hL.bSur d
      have h5 := k5 d
      have hB : (if bp.cur = some (g1.firstBucketId + d) then surplusFor cur else 0) = l1.bSur d := by
        unfold Lot.bSur
        by_cases hlive : l1.Live
        · by_cases ho : l1.off = d
          · simp [c2, hlive, ho, (c3 hlive).2]
          · have : ¬ (g1.firstBucketId + l1.off = g1.firstBucketId + d) := by omega
            simp [c2, hlive, ho, this]
        · simp [c2, hlive]
      have hA : (if bp.prev = some (g1.firstBucketId + d) then surplusFor prev else 0) =
          (if bp.prev = some (g1.firstBucketId + d) then l0.sur else 0) := by
        by_cases hq : bp.prev = some (g1.firstBucketId + d)
        · have hT : 0 < l0.T := by
            by_contra hc
            have : l0.T = 0 := by omega
            rw [hbp, hopt] at hq
            simp [this] at hq
          simp [hq, hb4 hT]
        · simp [hq]
      rw [hB, hA] at hk
      omega
  · intro w hw
    rw [hlgw'] at hw
    have hne : w ≠ W := by omega
    rw [n8 w hne, t4, hfr.totalEnergy, n4, t8 w hne, hfr.totalLocked]
    exact hR.fut w (by rw [hlgw]; exact hw)

end Mx.Weekly
