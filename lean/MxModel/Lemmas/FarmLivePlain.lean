/-
  Liveness of the user endpoints of the farm beyond `exitFarm` (C05, last clause): in a state that
  satisfies the invariants (`Acct`, `PosInv`, `PotInv`, `PoolInv`, `XInv`, `PM`, `WInv`, `WeekPos` — bundled as
  `Good`) every guard and every checked subtraction of

    * `claimRewards` / `compoundRewards` with ANY list of payments the caller can pay (`claimCore_ok`),
    * `enterFarm` with any non-zero amount and any list of additional position payments (`enterCore_ok`),
    * `mergeFarmTokens` (`mergeFarmTokens_ok`),
    * `claimBoostedRewards` (`claimBoostedRewards_ok`)

  is discharged.  What remains are conditions on the CALL: `payable` (amounts non-zero and covered, in
  order, by what the caller holds), the contract is active, the entered amount is non-zero, the caller
  of `claimBoostedRewards` has a recorded farm position, `compoundRewards` only in a minting farm whose
  farming token is the reward token.

  Building blocks: Lemmas/FarmLive.lean (`generate_ok`, `payReward_ok`, …), FarmWeekLive.lean
  (`claimBoostedYields_ok`, `weekly_update_ok`), FarmCover.lean (`reward_le_reserve`, `boosted_le_reserve`,
  `boosted_le_of_cov`).
-/
import MxModel.Lemmas.FarmWeekLive

namespace Mx.Farm
namespace Plain   -- own sub-namespace: several session-4 lemma files define short local names (LV, lv, …)

open Mx.Weekly (upd upd_same upd_other Energy)

/-! ### what the caller can pay -/

/-- the farm-token payments `(nonce, amount)` can be debited, in order, from an account whose holdings
    are `h`: every amount is non-zero and covered by what is left of that nonce -/
def payable (h : Nat → Nat) : List (Nat × Nat) → Bool
  | [] => true
  | (n, a) :: rest => (a != 0) && (decide (a ≤ h n) && payable (upd h n (h n - a)) rest)

theorem payable_cons {h : Nat → Nat} {n a : Nat} {rest : List (Nat × Nat)} :
    payable h ((n, a) :: rest) = true ↔ a ≠ 0 ∧ a ≤ h n ∧ payable (upd h n (h n - a)) rest = true := by
  simp [payable]

/-- **the payments of a legitimate call are accepted**: if every nonce the caller holds something of
    has attributes (`PosInv.dom`), a `payable` list is debited without failure -/
theorem takePayments_ok : ∀ (l : List (Nat × Nat)) {s : St} {c : Nat},
    (∀ n, s.hold c n ≠ 0 → (s.attrs n).isSome) → payable (s.hold c) l = true →
    ∃ s0, takePayments s c l = some s0 := by
  intro l
  induction l with
  | nil => intro s c _ _; exact ⟨s, rfl⟩
  | cons p rest ih =>
    intro s c hdom hp
    obtain ⟨n, a⟩ := p
    obtain ⟨ha, hle, hrest⟩ := payable_cons.mp hp
    have hs : (s.attrs n).isSome := hdom n (by omega)
    have hnext : ∃ s0, takePayments
        { s with hold := upd s.hold c (upd (s.hold c) n (s.hold c n - a)) } c rest = some s0 := by
      apply ih
      · intro m hm
        apply hdom m
        intro h0
        apply hm
        show upd s.hold c (upd (s.hold c) n (s.hold c n - a)) c m = 0
        rw [upd_same]
        by_cases hmn : m = n
        · subst hmn; rw [upd_same]; omega
        · rw [upd_other _ _ hmn]; exact h0
      · show payable (upd s.hold c (upd (s.hold c) n (s.hold c n - a)) c) rest = true
        rw [upd_same]; exact hrest
    obtain ⟨s0, h0⟩ := hnext
    refine ⟨s0, ?_⟩
    simp only [takePayments, req, ha, ne_eq, not_false_eq_true, if_true, hs, sub?, hle,
      Option.bind_eq_bind, Option.bind_some]
    exact h0

/-- every accepted payment has a non-zero amount and a nonce with attributes -/
theorem takePayments_mem : ∀ (l : List (Nat × Nat)) {s s0 : St} {c : Nat},
    takePayments s c l = some s0 → ∀ p ∈ l, p.2 ≠ 0 ∧ (s.attrs p.1).isSome := by
  intro l
  induction l with
  | nil => intro s s0 c _ p hp; cases hp
  | cons q rest ih =>
    intro s s0 c h p hp
    obtain ⟨n, a⟩ := q
    simp only [takePayments, Option.bind_eq_bind, Option.bind_eq_some_iff, req_eq_some,
      sub?_eq_some] at h
    obtain ⟨_, h1, _, h2, _, _, h3⟩ := h
    rcases List.mem_cons.mp hp with rfl | hp'
    · exact ⟨h1, h2⟩
    · exact ih h3 p hp'

theorem checkAndUpdate_ok_p : ∀ (l : List (Nat × Nat)) {s : St} (u : Nat),
    (∀ p ∈ l, (s.attrs p.1).isSome) → ∃ s', checkAndUpdate s u l = some s' := by
  intro l
  induction l with
  | nil => intro s u _; exact ⟨s, rfl⟩
  | cons p rest ih =>
    intro s u hall
    obtain ⟨n, a⟩ := p
    obtain ⟨att, hat⟩ := Option.isSome_iff_exists.mp (hall (n, a) (List.mem_cons_self ..))
    simp only [checkAndUpdate, hat, Option.bind_eq_bind, Option.bind_some]
    apply ih
    intro q hq
    have := hall q (List.mem_cons_of_mem _ hq)
    split <;> exact this

theorem mergeParts_ok_p : ∀ (l : List (Nat × Nat)) {s : St} (base : Attr),
    (∀ p ∈ l, p.2 ≠ 0 ∧ ∃ att, s.attrs p.1 = some att ∧ att.amt ≠ 0) →
    ∃ m, mergeParts s base l = some m := by
  intro l
  induction l with
  | nil => intro s base _; exact ⟨base, rfl⟩
  | cons p rest ih =>
    intro s base hall
    obtain ⟨n, a⟩ := p
    obtain ⟨ha, att, hat, hamt⟩ := hall (n, a) (List.mem_cons_self ..)
    obtain ⟨part, hpart⟩ := intoPart_ok a hamt
    have hpa : part.amt = a := intoPart_amt hpart
    have hne : base.amt + part.amt ≠ 0 := by rw [hpa]; omega
    simp only [mergeParts, hat, hpart, Attr.mergeWith, req, hne, ne_eq, not_false_eq_true, if_true,
      Option.bind_eq_bind, Option.bind_some, Option.pure_def]
    exact ih _ (fun q hq => hall q (List.mem_cons_of_mem _ hq))

theorem mergeAll_ok {s : St} {l : List (Nat × Nat)} (hne : l ≠ [])
    (hall : ∀ p ∈ l, p.2 ≠ 0 ∧ ∃ att, s.attrs p.1 = some att ∧ att.amt ≠ 0) :
    ∃ m, mergeAll s l = some m := by
  cases l with
  | nil => exact absurd rfl hne
  | cons p rest =>
    obtain ⟨n, a⟩ := p
    obtain ⟨ha, att, hat, hamt⟩ := hall (n, a) (List.mem_cons_self ..)
    obtain ⟨part, hpart⟩ := intoPart_ok a hamt
    simp only [mergeAll, hat, hpart, Option.bind_eq_bind, Option.bind_some]
    exact mergeParts_ok_p rest part (fun q hq => hall q (List.mem_cons_of_mem _ hq))

theorem paySum_pos {l : List (Nat × Nat)} (hne : l ≠ []) (hall : ∀ p ∈ l, p.2 ≠ 0) : paySum l ≠ 0 := by
  cases l with
  | nil => exact absurd rfl hne
  | cons p rest =>
    obtain ⟨n, a⟩ := p
    have := hall (n, a) (List.mem_cons_self ..)
    simp only [paySum]
    simp only at this
    omega

theorem createToken_ok {s : St} (dst : Nat) {a : Attr} (h : a.amt ≠ 0) :
    ∃ r : St × Nat, createToken s dst a = some r := by
  simp only [createToken, req, h, ne_eq, not_false_eq_true, if_true, Option.bind_eq_bind,
    Option.bind_some, Option.pure_def]
  exact ⟨_, rfl⟩

/-! ### the configuration cells no helper touches -/

structure LV where
  kind : Kind
  sameTok : Bool
  active : Bool
  pct : Nat
  epoch : Nat
  fws : Nat
  users : List Nat

def lv (s : St) : LV := ⟨s.kind, s.sameTok, s.active, s.pct, s.epoch, s.firstWeekStart, s.users⟩

theorem takePayments_lv {l : List (Nat × Nat)} {s s' : St} {c : Nat} (h : takePayments s c l = some s') :
    lv s' = lv s := by obtain ⟨_, rfl⟩ := takePayments_spec l h; rfl
theorem checkAndUpdate_lv {l : List (Nat × Nat)} {s s' : St} {c : Nat} (h : checkAndUpdate s c l = some s') :
    lv s' = lv s := by obtain ⟨_, rfl⟩ := checkAndUpdate_spec l h; rfl
theorem claimBoostedYields_lv {s s' : St} {u r : Nat} (h : claimBoostedYields s u = some (s', r)) :
    lv s' = lv s := by obtain ⟨_, _, rfl⟩ := claimBoostedYields_struct h; rfl
theorem setFarmSupplyWeek_lv {s s' : St} {v : Nat} (h : setFarmSupplyWeek s v = some s') :
    lv s' = lv s := by obtain ⟨_, _, rfl⟩ := setFarmSupplyWeek_spec h; rfl
theorem createToken_lv {s s' : St} {d n : Nat} {a : Attr} (h : createToken s d a = some (s', n)) :
    lv s' = lv s := by obtain ⟨_, _, rfl⟩ := createToken_spec h; rfl
theorem generate_lv {s s' : St} {c c' : Cache} (h : generate s c = some (s', c')) :
    lv s' = lv s := by obtain ⟨_, rfl, _⟩ := generate_spec h; rfl
theorem payReward_lv {s s' : St} {u b bo : Nat} (h : payReward s u b bo = some s') :
    lv s' = lv s := by obtain ⟨_, _, rfl, _⟩ := payReward_spec h; rfl
theorem payRewardIf_lv {s s' : St} {k : Kind} {u b bo : Nat} (h : payRewardIf s k u b bo = some s') :
    lv s' = lv s := by
  unfold payRewardIf at h
  split at h
  · exact payReward_lv h
  · simp only [Option.some.injEq] at h; rw [← h]
theorem claimOnlyBoostedPayment_lv {s s' : St} {u r : Nat} (h : claimOnlyBoostedPayment s u = some (s', r)) :
    lv s' = lv s := by
  simp only [claimOnlyBoostedPayment, Option.bind_eq_bind, Option.bind_eq_some_iff, Option.pure_def] at h
  obtain ⟨⟨s1, r1⟩, h1, h⟩ := h
  have k1 := claimBoostedYields_lv h1
  split at h
  · simp only [Option.some.injEq, Prod.mk.injEq] at h
    obtain ⟨rfl, _⟩ := h; exact k1
  · simp only [Option.bind_eq_some_iff, sub?_eq_some, Option.some.injEq, Prod.mk.injEq] at h
    obtain ⟨_, _, rfl, _⟩ := h; exact k1
theorem compoundMove_lv {s s' : St} {b bo : Nat} (h : compoundMove s b bo = some s') : lv s' = lv s := by
  simp only [compoundMove, Option.bind_eq_bind, Option.bind_eq_some_iff, sub?_eq_some, Option.pure_def,
    Option.some.injEq] at h
  obtain ⟨_, _, rfl⟩ := h; rfl

theorem week_of_lv {s s' : St} (h : lv s' = lv s) : s'.week = s.week := by
  have he : s'.epoch = s.epoch := congrArg LV.epoch h
  have hf : s'.firstWeekStart = s.firstWeekStart := congrArg LV.fws h
  unfold St.week; rw [he, hf]

theorem setFarmSupplyWeek_ok' {s : St} {W : Nat} (v : Nat) (hW : s.week = some W) :
    ∃ s', setFarmSupplyWeek s v = some s' := by
  simp only [setFarmSupplyWeek, hW, Option.bind_eq_bind, Option.bind_some, Option.pure_def]
  exact ⟨_, rfl⟩

theorem generate_ok_lv {s t : St} (c : Cache) (hI : PoolInv s) (h : lv t = lv s) :
    ∃ r : St × Cache, generate t c = some r := by
  have he : t.epoch = s.epoch := congrArg LV.epoch h
  have hf : t.firstWeekStart = s.firstWeekStart := congrArg LV.fws h
  have hp : t.pct = s.pct := congrArg LV.pct h
  obtain ⟨s1, c1, h1⟩ := generate_ok (s := t) c (by rw [he, hf]; exact hI.time) (by rw [hp]; exact hI.pct)
  exact ⟨(s1, c1), h1⟩

/-- `update_energy_and_progress(user)` cannot abort in a state satisfying the invariants -/
theorem updateEnergyAndProgress_ok {s : St} {W : Nat} (hP : PM s W) (hWI : WInv s) (u : Nat) :
    ∃ s', updateEnergyAndProgress s u = some s' := by
  have hWk : s.week = some W := hP.week
  obtain ⟨g1, hg1⟩ := Option.isSome_iff_exists.mp
    (weekly_update_ok hP hWI u (Energy.queried (s.energy u) s.epoch))
  simp only [updateEnergyAndProgress, hWk, Weekly.updateEnergyAndProgress, hg1, Option.bind_eq_bind,
    Option.bind_some, Option.pure_def]
  exact ⟨_, rfl⟩

/-- `claim_only_boosted_payment` (enter, merge) cannot abort: the boosted claim succeeds and
    `reward_reserve −= boosted` does not underflow (the reserve obeys the decomposition) -/
theorem claimOnly_ok {s : St} {W : Nat} (hI : PoolInv s) (hres : s.reserve + s.paid = s.generated)
    (hsplit : s.paid = s.paidBase + s.paidBoosted) (hpb : s.paidBase ≤ s.baseBudget)
    (hP : PM s W) (hWI : WInv s) (hWP : WeekPos s) (u : Nat) :
    ∃ r : St × Nat, claimOnlyBoostedPayment s u = some r := by
  obtain ⟨⟨s1, r⟩, hb⟩ := Option.isSome_iff_exists.mp (claimBoostedYields_ok hP hWI hWP u)
  have hle : r ≤ s.reserve := boosted_le_of_cov hI (cov_of_gen hI hres hsplit) hpb hb
  have e1 : av s1 = av s := claimBoostedYields_av hb
  have hr1 : s1.reserve = s.reserve := congrArg AV.reserve e1
  simp only [claimOnlyBoostedPayment, hb, Option.bind_eq_bind, Option.bind_some, Option.pure_def]
  split
  · exact ⟨_, rfl⟩
  · have : sub? s1.reserve r = some (s1.reserve - r) := by simp [sub?, hr1, hle]
    simp only [this, Option.bind_some]
    exact ⟨_, rfl⟩

/-! ### the invariants, bundled -/

/-- all state invariants of the farm model (every reachable state satisfies them, `reachable_good` in
    Props/C05Live.lean) -/
structure Good (s : St) (W : Nat) : Prop where
  acct : Acct s
  pos : PosInv s
  pot : PotInv s
  pool : PoolInv s
  x : XInv s
  dsc : s.dsc ≠ 0
  pm : PM s W
  wi : WInv s
  wp : WeekPos s

theorem isSome_bind' {α β : Type} {x : Option α} {f : α → Option β}
    (hx : ∃ a, x = some a) (hf : ∀ a, x = some a → (f a).isSome = true) : (x >>= f).isSome = true := by
  obtain ⟨a, rfl⟩ := hx; exact hf a rfl

theorem req_ok {c : Prop} [Decidable c] (h : c) : req c = some () := (req_eq_some ()).mpr h

theorem sub?_ok {a b : Nat} (h : b ≤ a) : ∃ c, sub? a b = some c := ⟨a - b, by simp [sub?, h]⟩

theorem Good.dom {s : St} {W : Nat} (hG : Good s W) (u : Nat) :
    ∀ m, s.hold u m ≠ 0 → (s.attrs m).isSome := fun m hm => (hG.pos.dom u m hm).2.2

/-! ### `claimBoostedRewards` -/

/-- **`claimBoostedRewards` by a user with a recorded farm position succeeds** in an active farm -/
theorem claimBoostedRewards_ok {s : St} {W u : Nat} (hG : Good s W) (hact : s.active = true)
    (htot : s.userTotal u ≠ 0) : (claimBoostedRewards s u none).isSome = true := by
  unfold claimBoostedRewards
  refine isSome_bind (a := ()) (req_ok rfl) ?_
  refine isSome_bind (a := ()) (req_ok htot) ?_
  refine isSome_bind (a := ()) (req_ok hact) ?_
  refine isSome_bind' (generate_ok_lv (Cache.read s) hG.pool rfl) (fun r h1 => ?_)
  obtain ⟨s1, c1⟩ := r
  have p1 : PM s1 W := hG.pm.of_view (generate_pmv h1)
  have wi1 := hG.wi.of_w (generate_w h1)
  have wp1 := hG.wp.of_wv (generate_wv h1).1
  refine isSome_bind' (Option.isSome_iff_exists.mp (claimBoostedYields_ok p1 wi1 wp1 u)) (fun r h2 => ?_)
  obtain ⟨s2, boosted⟩ := r
  have hres := boosted_le_reserve hG.acct hG.pos hG.pot hG.pool hG.dsc h1 h2
  refine isSome_bind' (sub?_ok hres) (fun res _ => ?_)
  have l2 : lv s2 = lv s := (claimBoostedYields_lv h2).trans (generate_lv h1)
  have x2 : xv s2 = xv s := (claimBoostedYields_xv h2).trans (generate_xv h1)
  refine isSome_bind' (setFarmSupplyWeek_ok' (s := s2) _ ((week_of_lv l2).trans hG.pm.week)) (fun s3 h3 => ?_)
  have l3 : lv s3 = lv s := (setFarmSupplyWeek_lv h3).trans l2
  have x3 : xv s3 = xv s := (setFarmSupplyWeek_xv h3).trans x2
  have v1 := (generate_av h1).1
  have hc1 : c1.reserve = s.reserve + minted s := by rw [(generate_av h1).2]; rfl
  have v3 : av s3 = av s1 := (setFarmSupplyWeek_av h3).trans (claimBoostedYields_av h2)
  have k3 : s3.kind = s.kind := congrArg LV.kind l3
  refine isSome_bind' (payReward_ok (s := s3) u 0 boosted (fun hk => ?_) ((congrArg XV.lockEpochs x3).trans hG.x.2.2))
    (fun s4 _ => rfl)
  rw [k3] at hk
  have hb' := hG.acct.bal hk
  have q2 := congrArg AV.balReward v3
  have q3 := congrArg AV.balReward v1
  simp only [av, hk, if_true] at q2 q3
  omega

/-! ### facts about the payments that survive the helpers -/

theorem pays_attrs {s t : St} (hX : XInv s) (hx : xv t = xv s) {l : List (Nat × Nat)}
    (hmem : ∀ p ∈ l, p.2 ≠ 0 ∧ (s.attrs p.1).isSome) :
    ∀ p ∈ l, p.2 ≠ 0 ∧ ∃ att, t.attrs p.1 = some att ∧ att.amt ≠ 0 := by
  intro p hp
  obtain ⟨h1, h2⟩ := hmem p hp
  obtain ⟨att, hat⟩ := Option.isSome_iff_exists.mp h2
  have : t.attrs = s.attrs := congrArg XV.attrs hx
  exact ⟨h1, att, by rw [this]; exact hat, (hX.1 _ att hat).1⟩

theorem pays_some {s t : St} (hx : xv t = xv s) {l : List (Nat × Nat)}
    (hmem : ∀ p ∈ l, p.2 ≠ 0 ∧ (s.attrs p.1).isSome) : ∀ p ∈ l, (t.attrs p.1).isSome := by
  intro p hp
  have : t.attrs = s.attrs := congrArg XV.attrs hx
  rw [this]; exact (hmem p hp).2

theorem payRewardIf_ok_p {s : St} (k : Kind) (u base boosted : Nat)
    (hbal : s.kind = .mint → s.kind = k → base + boosted ≤ s.balReward) (hl : s.lockEpochs = 360) :
    ∃ s', payRewardIf s k u base boosted = some s' := by
  unfold payRewardIf
  split
  · rename_i hk
    exact payReward_ok u base boosted (fun hm => hbal hm hk) hl
  · exact ⟨s, rfl⟩

/-! ### `mergeFarmTokens` -/

/-- **`mergeFarmTokens` with a non-empty list of payments the caller can pay succeeds** in an active farm -/
theorem mergeFarmTokens_ok {s : St} {W u : Nat} {pays : List (Nat × Nat)} (hG : Good s W)
    (hact : s.active = true) (hne : pays ≠ []) (hpay : payable (s.hold u) pays = true) :
    (mergeFarmTokens s u none pays).isSome = true := by
  unfold mergeFarmTokens
  refine isSome_bind (a := ()) (req_ok hact) ?_
  refine isSome_bind (a := u) rfl ?_
  refine isSome_bind (a := ()) (req_ok hne) ?_
  refine isSome_bind' (takePayments_ok _ (hG.dom u) hpay) (fun s0 h0 => ?_)
  have hmem := takePayments_mem _ h0
  have x0 : xv s0 = xv s := takePayments_xv h0
  have l0 : lv s0 = lv s := takePayments_lv h0
  have v0 : av s0 = av s := takePayments_av h0
  have pl0 : poolView s0 = poolView s := takePayments_plv h0
  have pm0 : PM s0 W := hG.pm.of_view (takePayments_pmv h0)
  have wi0 : WInv s0 := hG.wi.of_w (takePayments_w h0)
  have wp0 : WeekPos s0 := hG.wp.of_wv (takePayments_wv h0)
  have i0 : PoolInv s0 := hG.pool.of_view pl0
  have hbb : s0.baseBudget = s.baseBudget := congrArg PoolView.baseBudget pl0
  have hA := hG.acct
  have hpb := hG.pot.paidBase_le hG.dsc
  simp only [av, AV.mk.injEq] at v0
  obtain ⟨a1, a2, a3, a4, a5, a6, a7, a8⟩ := v0
  refine isSome_bind' (claimOnly_ok i0 (by have := hA.res; omega) (by have := hA.split; omega)
    (by omega) pm0 wi0 wp0 u) (fun r h1 => ?_)
  obtain ⟨s1, boosted⟩ := r
  obtain ⟨hle1, v1⟩ := claimOnlyBoostedPayment_av h1
  have x1 : xv s1 = xv s := (claimOnlyBoostedPayment_xv h1).trans x0
  have l1 : lv s1 = lv s := (claimOnlyBoostedPayment_lv h1).trans l0
  refine isSome_bind' (checkAndUpdate_ok_p pays u (pays_some x1 hmem)) (fun s2 h2 => ?_)
  have x2 : xv s2 = xv s := (checkAndUpdate_xv h2).trans x1
  have l2 : lv s2 = lv s := (checkAndUpdate_lv h2).trans l1
  have v2 : av s2 = av s1 := checkAndUpdate_av h2
  refine isSome_bind' (mergeAll_ok hne (pays_attrs hG.x x2 hmem)) (fun merged hm => ?_)
  have hma : merged.amt ≠ 0 := by
    rw [mergeAll_amt hm]; exact paySum_pos hne (fun p hp => (hmem p hp).1)
  refine isSome_bind' (createToken_ok (s := s2) u (a := { merged with owner := u }) hma) (fun r h3 => ?_)
  obtain ⟨s3, n3⟩ := r
  have x3l : s3.lockEpochs = s.lockEpochs := by
    obtain ⟨_, _, rfl⟩ := createToken_spec h3
    exact congrArg XV.lockEpochs x2
  have l3 : lv s3 = lv s := (createToken_lv h3).trans l2
  have v3 : av s3 = av s1 := (createToken_av h3).trans v2
  have k3 : s3.kind = s.kind := congrArg LV.kind l3
  refine isSome_bind' (payReward_ok (s := s3) u 0 boosted (fun hk => ?_) (x3l.trans hG.x.2.2))
    (fun s4 _ => rfl)
  rw [k3] at hk
  have hb' := hA.bal hk
  have q3 := congrArg AV.balReward (v3.trans v1)
  simp only [av] at q3
  omega

/-! ### `enterFarm` -/

/-- **`enterFarm` with a non-zero amount of the farming token and any additional position payments the
    caller can pay succeeds** in an active farm -/
theorem enterCore_ok {s : St} {W u amt : Nat} {extra : List (Nat × Nat)} (hG : Good s W)
    (hact : s.active = true) (hamt : amt ≠ 0) (hpay : payable (s.hold u) extra = true) :
    (enterCore s u u u amt extra).isSome = true := by
  unfold enterCore
  refine isSome_bind (a := ()) (req_ok hamt) ?_
  refine isSome_bind' (takePayments_ok _ (hG.dom u) hpay) (fun s0 h0 => ?_)
  have hmem := takePayments_mem _ h0
  have x0 : xv s0 = xv s := takePayments_xv h0
  have l0 : lv s0 = lv s := takePayments_lv h0
  have v0 : av s0 = av s := takePayments_av h0
  have pl0 : poolView s0 = poolView s := takePayments_plv h0
  have pm0 : PM (addFarming s0 amt) W := (hG.pm.of_view (takePayments_pmv h0)).of_view rfl
  have wi0 : WInv (addFarming s0 amt) := (hG.wi.of_w (takePayments_w h0)).of_w rfl
  have wp0 : WeekPos (addFarming s0 amt) := (hG.wp.of_wv (takePayments_wv h0)).of_wv rfl
  have i0 : PoolInv (addFarming s0 amt) := (hG.pool.of_view pl0).of_view rfl
  have hbb : s0.baseBudget = s.baseBudget := congrArg PoolView.baseBudget pl0
  have hA := hG.acct
  have hpb := hG.pot.paidBase_le hG.dsc
  simp only [av, AV.mk.injEq] at v0
  obtain ⟨a1, a2, a3, a4, a5, a6, a7, a8⟩ := v0
  refine isSome_bind' (claimOnly_ok i0
    (show s0.reserve + s0.paid = s0.generated by have := hA.res; omega)
    (show s0.paid = s0.paidBase + s0.paidBoosted by have := hA.split; omega)
    (show s0.paidBase ≤ s0.baseBudget by omega) pm0 wi0 wp0 u) (fun r h1 => ?_)
  obtain ⟨s1, boosted⟩ := r
  obtain ⟨hle1, v1⟩ := claimOnlyBoostedPayment_av h1
  have hle1' : boosted ≤ s0.reserve := hle1
  have x1 : xv s1 = xv s := (claimOnlyBoostedPayment_xv h1).trans (x0 : xv (addFarming s0 amt) = xv s)
  have l1 : lv s1 = lv s := (claimOnlyBoostedPayment_lv h1).trans (l0 : lv (addFarming s0 amt) = lv s)
  obtain ⟨pm1, st1⟩ := claimOnlyBoostedPayment_pm pm0 wi0 wp0 h1
  have wi1 := claimOnlyBoostedPayment_winv wi0 h1
  refine isSome_bind' (payRewardIf_ok_p (s := s1) .noMint u 0 boosted
    (fun hm hk => by rw [hm] at hk; cases hk) ((congrArg XV.lockEpochs x1).trans hG.x.2.2)) (fun s1' h1' => ?_)
  have x1' : xv s1' = xv s := (payRewardIf_xv h1').trans x1
  have l1' : lv s1' = lv s := (payRewardIf_lv h1').trans l1
  have pm1' := pm1.of_view (payRewardIf_pmv h1')
  have st1' := st1.of_view (payRewardIf_pmv h1')
  have wi1' := wi1.of_w (payRewardIf_w h1')
  refine isSome_bind (a := ()) (req_ok ((congrArg LV.active l1').trans hact)) ?_
  refine isSome_bind' (checkAndUpdate_ok_p extra u (pays_some x1' hmem)) (fun s2 h2 => ?_)
  have x2 : xv s2 = xv s := (checkAndUpdate_xv h2).trans x1'
  have l2 : lv s2 = lv s := (checkAndUpdate_lv h2).trans l1'
  have v2 : av s2 = av s1' := checkAndUpdate_av h2
  obtain ⟨pm2, st2⟩ := checkAndUpdate_pm pm1' st1' h2
  have wi2 := wi1'.of_w (checkAndUpdate_w h2)
  have pm3 : PM (increaseUser s2 u amt) W :=
    pm2.bump st2 (fun x hx => by
      show upd s2.userTotal u _ x ≤ _
      rw [upd_other _ _ hx])
  refine isSome_bind' (generate_ok_lv (t := increaseUser s2 u amt) (Cache.read s1') hG.pool l2)
    (fun r h4 => ?_)
  obtain ⟨s4, c1⟩ := r
  have x4 : xv s4 = xv s := (generate_xv h4).trans (x2 : xv (increaseUser s2 u amt) = xv s)
  have l4 : lv s4 = lv s := (generate_lv h4).trans (l2 : lv (increaseUser s2 u amt) = lv s)
  have pm4 : PM s4 W := pm3.of_view (generate_pmv h4)
  have wi4 : WInv s4 := (wi2.of_w (s' := increaseUser s2 u amt) rfl).of_w (generate_w h4)
  refine isSome_bind' (mergeParts_ok_p extra _ (pays_attrs hG.x x4 hmem)) (fun merged hm => ?_)
  have hma : merged.amt ≠ 0 := by
    rw [(mergeParts_amt extra hm).1]
    show amt + paySum extra ≠ 0
    omega
  refine isSome_bind' (createToken_ok (s := s4) u hma) (fun r h5 => ?_)
  obtain ⟨s5, n5⟩ := r
  have l5 : lv s5 = lv s := (createToken_lv h5).trans l4
  have lk5 : s5.lockEpochs = s.lockEpochs := by
    obtain ⟨_, _, rfl⟩ := createToken_spec h5
    exact congrArg XV.lockEpochs x4
  have pm5 : PM s5 W := pm4.of_view (createToken_pmv h5)
  have wi5 : WInv s5 := wi4.of_w (createToken_w h5)
  refine isSome_bind' (setFarmSupplyWeek_ok' (s := s5) _ ((week_of_lv l5).trans hG.pm.week)) (fun s6 h6 => ?_)
  have l6 : lv s6 = lv s := (setFarmSupplyWeek_lv h6).trans l5
  have lk6 : s6.lockEpochs = s.lockEpochs := by
    obtain ⟨_, _, rfl⟩ := setFarmSupplyWeek_spec h6
    exact lk5
  have pm6 := setFarmSupplyWeek_pm pm5 h6
  have wi6 : WInv s6 := wi5.of_w (setFarmSupplyWeek_w h6)
  have v6 : av s6 = av s4 := (setFarmSupplyWeek_av h6).trans (createToken_av h5)
  have v4 := (generate_av h4).1
  obtain ⟨xx, br, hxx, v1', hm1, hn1⟩ := payRewardIf_av h1'
  refine isSome_bind' (payRewardIf_ok_p (s := Cache.drop s6 _) .mint u 0 boosted (fun hk _ => ?_)
    (lk6.trans hG.x.2.2)) (fun s8 h8 => ?_)
  · have hk' : s6.kind = .mint := hk
    have hks : s.kind = .mint := (congrArg LV.kind l6).symm.trans hk'
    have hk1 : s1.kind = .mint := (congrArg LV.kind l1).trans hks
    have hk2 : s2.kind = .mint := (congrArg LV.kind l2).trans hks
    have hb' := hA.bal hks
    obtain ⟨_, hbr⟩ := hm1 hk1
    have q6 := congrArg AV.balReward v6
    have q4 := congrArg AV.balReward v4
    have q2 := congrArg AV.balReward v2
    have q1' := congrArg AV.balReward v1'
    have q1 := congrArg AV.balReward v1
    have hx0 : xx = 0 := by
      rcases hxx with ⟨_, hk⟩ | ⟨h, _⟩
      · rw [hk1] at hk; cases hk
      · exact h
    simp only [av, addFarming] at q6 q4 q2 q1' q1
    have hk2' : (increaseUser s2 u amt).kind = .mint := hk2
    rw [if_pos hk2'] at q4
    show 0 + boosted ≤ s6.balReward
    have : (increaseUser s2 u amt).balReward = s2.balReward := rfl
    omega
  · have pm8 : PM s8 W := (pm6.of_view (s' := Cache.drop s6 _) rfl).of_view (payRewardIf_pmv h8)
    have wi8 : WInv s8 := (wi6.of_w (s' := Cache.drop s6 _) rfl).of_w (payRewardIf_w h8)
    refine isSome_bind' (updateEnergyAndProgress_ok pm8 wi8 u) (fun s9 _ => rfl)

/-! ### `claimRewards` / `compoundRewards` with any list of payments -/

theorem compoundMove_ok {s : St} {b bo : Nat} (h : b + bo ≤ s.balReward) :
    ∃ s', compoundMove s b bo = some s' := by
  have : sub? s.balReward (b + bo) = some (s.balReward - (b + bo)) := by simp [sub?, h]
  simp only [compoundMove, this, Option.bind_eq_bind, Option.bind_some, Option.pure_def]
  exact ⟨_, rfl⟩

/-- the common end of `claim_rewards_base` / `compound_rewards_base`: mint the new position, record the
    week's farm supply, write the cache back, pay (or compound) the reward -/
theorem claim_finish {s s4 : St} {W u base boosted : Nat} {merged : Attr} (c2 : Cache) {cmp : Bool}
    (hG : Good s W) (l4 : lv s4 = lv s) (lk4 : s4.lockEpochs = 360) (pm4 : PM s4 W) (wi4 : WInv s4)
    (hma : merged.amt ≠ 0) (hbal : s.kind = .mint → base + boosted ≤ s4.balReward)
    (hcmp : cmp = true → s.kind = .mint) :
    ∃ r : St × Nat, createToken s4 u merged = some r ∧
      ∃ s6, setFarmSupplyWeek r.1 c2.supply = some s6 ∧
        ∃ s8, claimTail (Cache.drop s6 c2) cmp u base boosted = some s8 := by
  obtain ⟨⟨s5, n5⟩, h5⟩ := createToken_ok (s := s4) u hma
  have l5 : lv s5 = lv s := (createToken_lv h5).trans l4
  have lk5 : s5.lockEpochs = 360 := by
    obtain ⟨_, _, rfl⟩ := createToken_spec h5
    exact lk4
  have pm5 : PM s5 W := pm4.of_view (createToken_pmv h5)
  have wi5 : WInv s5 := wi4.of_w (createToken_w h5)
  obtain ⟨s6, h6⟩ := setFarmSupplyWeek_ok' (s := s5) c2.supply ((week_of_lv l5).trans hG.pm.week)
  have l6 : lv s6 = lv s := (setFarmSupplyWeek_lv h6).trans l5
  have lk6 : s6.lockEpochs = 360 := by
    obtain ⟨_, _, rfl⟩ := setFarmSupplyWeek_spec h6
    exact lk5
  have pm6 := setFarmSupplyWeek_pm pm5 h6
  have wi6 : WInv s6 := wi5.of_w (setFarmSupplyWeek_w h6)
  have v6 : av s6 = av s4 := (setFarmSupplyWeek_av h6).trans (createToken_av h5)
  have b6 : s6.balReward = s4.balReward := congrArg AV.balReward v6
  have k6 : s6.kind = s.kind := congrArg LV.kind l6
  refine ⟨(s5, n5), h5, s6, h6, ?_⟩
  cases cmp with
  | false =>
    exact payReward_ok (s := Cache.drop s6 c2) u base boosted
      (fun hk => by
        have hk' : s6.kind = .mint := hk
        show base + boosted ≤ s6.balReward
        rw [b6]; exact hbal (k6.symm.trans hk'))
      lk6
  | true =>
    have hks := hcmp rfl
    obtain ⟨s7, h7⟩ := compoundMove_ok (s := Cache.drop s6 c2) (b := base) (bo := boosted)
      (by show base + boosted ≤ s6.balReward; rw [b6]; exact hbal hks)
    have pm7 : PM s7 W := (pm6.of_view (s' := Cache.drop s6 c2) rfl).of_view (compoundMove_pmv h7)
    have wi7 : WInv s7 := (wi6.of_w (s' := Cache.drop s6 c2) rfl).of_w (compoundMove_w h7)
    obtain ⟨s8, h8⟩ := updateEnergyAndProgress_ok pm7 wi7 u
    refine ⟨s8, ?_⟩
    show (compoundMove (Cache.drop s6 c2) base boosted).bind (fun s1 => updateEnergyAndProgress s1 u) = some s8
    rw [h7]; exact h8

/-- **`claimRewards` (`cmp = false`) / `compoundRewards` (`cmp = true`) with a non-empty list of payments the
    caller can pay succeeds** in an active farm; compounding only in a minting farm whose farming token
    is the reward token (the contract's own `require!`) -/
theorem claimCore_ok {s : St} {W u n a : Nat} {rest : List (Nat × Nat)} {cmp : Bool} (hG : Good s W)
    (hact : s.active = true) (hpay : payable (s.hold u) ((n, a) :: rest) = true)
    (hcmp : cmp = true → s.sameTok = true ∧ s.kind = .mint) :
    (claimCore s u u ((n, a) :: rest) cmp).isSome = true := by
  unfold claimCore
  refine isSome_bind (a := (n, a)) rfl ?_
  refine isSome_bind' (takePayments_ok _ (hG.dom u) hpay) (fun s0 h0 => ?_)
  have hmem := takePayments_mem _ h0
  obtain ⟨ha, hsome, hle⟩ := takePayments_cons h0
  obtain ⟨att, hat⟩ := Option.isSome_iff_exists.mp hsome
  have x0 : xv s0 = xv s := takePayments_xv h0
  have l0 : lv s0 = lv s := takePayments_lv h0
  have v0 : av s0 = av s := takePayments_av h0
  have hat0 : s0.attrs n = some att := by
    have : s0.attrs = s.attrs := congrArg XV.attrs x0
    rw [this]; exact hat
  refine isSome_bind (a := ()) (req_ok ((congrArg LV.active l0).trans hact)) ?_
  refine isSome_bind (a := ()) (req_ok (fun hc => (congrArg LV.sameTok l0).trans (hcmp hc).1)) ?_
  refine isSome_bind hat0 ?_
  refine isSome_bind' (generate_ok_lv (Cache.read s0) hG.pool l0) (fun r h1 => ?_)
  obtain ⟨s1, c1⟩ := r
  obtain ⟨hamt, _⟩ := hG.x.1 n att hat
  refine isSome_bind' (intoPart_ok a hamt) (fun part hpart => ?_)
  obtain ⟨p1, p2, _⟩ := intoPart_spec hpart
  have pm1 : PM s1 W := (hG.pm.of_view (takePayments_pmv h0)).of_view (generate_pmv h1)
  have wi1 : WInv s1 := (hG.wi.of_w (takePayments_w h0)).of_w (generate_w h1)
  have wp1 : WeekPos s1 := (hG.wp.of_wv (takePayments_wv h0)).of_wv (generate_wv h1).1
  refine isSome_bind' (Option.isSome_iff_exists.mp (claimBoostedYields_ok pm1 wi1 wp1 u)) (fun r h2 => ?_)
  obtain ⟨s2, boosted⟩ := r
  have hres := reward_le_reserve hG.acct hG.pos hG.pot hG.pool hG.dsc h0 h1 hat h2
  rw [← p2] at hres
  generalize baseReward s1.dsc c1.rps a part.rps = B at hres ⊢
  refine isSome_bind' (sub?_ok hres) (fun res _ => ?_)
  obtain ⟨pm2, st2⟩ := claimBoostedYields_pm pm1 wi1 wp1 h2
  have wi2 := claimBoostedYields_winv wi1 h2
  have x2 : xv s2 = xv s := (claimBoostedYields_xv h2).trans ((generate_xv h1).trans x0)
  have l2 : lv s2 = lv s := (claimBoostedYields_lv h2).trans ((generate_lv h1).trans l0)
  refine isSome_bind' (checkAndUpdate_ok_p _ u (pays_some x2 hmem)) (fun s3 h3 => ?_)
  obtain ⟨pm3, st3⟩ := checkAndUpdate_pm pm2 st2 h3
  have wi3 : WInv s3 := wi2.of_w (checkAndUpdate_w h3)
  have x3 : xv s3 = xv s := (checkAndUpdate_xv h3).trans x2
  have l3 : lv s3 = lv s := (checkAndUpdate_lv h3).trans l2
  have lk3 : s3.lockEpochs = 360 := (congrArg XV.lockEpochs x3).trans hG.x.2.2
  have hmem' : ∀ p ∈ rest, p.2 ≠ 0 ∧ (s.attrs p.1).isSome :=
    fun p hp => hmem p (List.mem_cons_of_mem _ hp)
  -- the reward tokens are there (minting farm)
  have v1 := (generate_av h1).1
  have hc1 : c1.reserve = s0.reserve + minted s0 := by rw [(generate_av h1).2]; rfl
  have v3 : av s3 = av s1 := (checkAndUpdate_av h3).trans (claimBoostedYields_av h2)
  have hbal : s.kind = .mint → B + boosted ≤ s3.balReward := by
    intro hk
    have hk0 : s0.kind = .mint := (congrArg LV.kind l0).trans hk
    have hb' := hG.acct.bal hk
    have q3 := congrArg AV.balReward v3
    have q1 := congrArg AV.balReward v1
    have q0 := congrArg AV.balReward v0
    have r0 := congrArg AV.reserve v0
    simp only [av, hk0, if_true] at q3 q1 q0 r0
    omega
  refine isSome_bind' (mergeParts_ok_p rest _ (pays_attrs hG.x x3 hmem')) (fun merged hm => ?_)
  have hma := (mergeParts_amt rest hm).1
  cases cmp with
  | false =>
    have hma' : merged.amt ≠ 0 := by
      rw [hma]; show part.amt + paySum rest ≠ 0; omega
    obtain ⟨⟨s5, n5⟩, h5, s6, h6, s8, h8⟩ := claim_finish (s4 := s3) (u := u) (base := B) (boosted := boosted)
      (cmp := false) ⟨res, c1.rps, c1.supply⟩ hG l3 lk3 pm3 wi3 hma' hbal (fun hc => by cases hc)
    refine isSome_bind h5 ?_
    refine isSome_bind h6 ?_
    refine isSome_bind h8 ?_
    rfl
  | true =>
    have hma' : merged.amt ≠ 0 := by
      rw [hma]; show part.amt + (B + boosted) + paySum rest ≠ 0; omega
    have pm4 : PM (increaseUser s3 u (B + boosted)) W :=
      pm3.bump st3 (fun x hx => by
        show upd s3.userTotal u _ x ≤ _
        rw [upd_other _ _ hx])
    obtain ⟨⟨s5, n5⟩, h5, s6, h6, s8, h8⟩ := claim_finish (s4 := increaseUser s3 u (B + boosted)) (u := u)
      (base := B) (boosted := boosted) (cmp := true) ⟨res, c1.rps, c1.supply + (B + boosted)⟩ hG l3 lk3 pm4
      (wi3.of_w rfl) hma' hbal (fun _ => (hcmp rfl).2)
    refine isSome_bind h5 ?_
    refine isSome_bind h6 ?_
    refine isSome_bind h8 ?_
    rfl

/-! ### the converse: a call that succeeds met the call-side guards (any state) -/

theorem payable_of_takePayments : ∀ (l : List (Nat × Nat)) {s s0 : St} {c : Nat},
    takePayments s c l = some s0 → payable (s.hold c) l = true := by
  intro l
  induction l with
  | nil => intro s s0 c _; rfl
  | cons p rest ih =>
    intro s s0 c h
    obtain ⟨n, a⟩ := p
    simp only [takePayments, Option.bind_eq_bind, Option.bind_eq_some_iff, req_eq_some,
      sub?_eq_some] at h
    obtain ⟨_, h1, _, _, _, ⟨h3, rfl⟩, h4⟩ := h
    have := ih h4
    simp only [upd_same] at this
    exact payable_cons.mpr ⟨h1, h3, this⟩

theorem enterCore_guards_p {s : St} {c o t amt : Nat} {extra : List (Nat × Nat)} {r : St × Out}
    (h : enterCore s c o t amt extra = some r) :
    amt ≠ 0 ∧ payable (s.hold c) extra = true ∧ s.active = true := by
  unfold enterCore at h
  replace h := bpeel h; obtain ⟨_, hamt, h⟩ := h
  replace h := bpeel h; obtain ⟨s0, h0, h⟩ := h
  replace h := bpeel h; obtain ⟨⟨s1, boosted⟩, h1, h⟩ := h
  replace h := bpeel h; obtain ⟨s1', h1', h⟩ := h
  replace h := bpeel h; obtain ⟨_, hact, _⟩ := h
  have l0 : lv (addFarming s0 amt) = lv s := (takePayments_lv h0 : lv s0 = lv s)
  have l1' : lv s1' = lv s :=
    (payRewardIf_lv h1').trans ((claimOnlyBoostedPayment_lv h1).trans l0)
  exact ⟨(req_eq_some _).mp hamt, payable_of_takePayments _ h0,
    (congrArg LV.active l1').symm.trans ((req_eq_some _).mp hact)⟩

theorem claimCore_guards {s : St} {c o : Nat} {pays : List (Nat × Nat)} {cmp : Bool} {r : St × Out}
    (h : claimCore s c o pays cmp = some r) :
    pays ≠ [] ∧ payable (s.hold c) pays = true ∧ s.active = true ∧ (cmp = true → s.sameTok = true) := by
  unfold claimCore at h
  replace h := bpeel h; obtain ⟨⟨n1, a1⟩, hhead, h⟩ := h
  replace h := bpeel h; obtain ⟨s0, h0, h⟩ := h
  replace h := bpeel h; obtain ⟨_, hact, h⟩ := h
  replace h := bpeel h; obtain ⟨_, hst, _⟩ := h
  have l0 : lv s0 = lv s := takePayments_lv h0
  have hne : pays ≠ [] := by
    intro hn
    rw [hn] at hhead
    cases hhead
  refine ⟨hne, payable_of_takePayments _ h0,
    (congrArg LV.active l0).symm.trans ((req_eq_some _).mp hact), fun hc => ?_⟩
  exact (congrArg LV.sameTok l0).symm.trans ((req_eq_some _).mp hst hc)

theorem exitFarm_guards_p {s : St} {c n a : Nat} {opt : Option Nat} {r : St × Out}
    (h : exitFarm s c opt n a = some r) : payable (s.hold c) [(n, a)] = true ∧ s.active = true := by
  unfold exitFarm at h
  replace h := bpeel h; obtain ⟨orig, _, h⟩ := h
  replace h := bpeel h; obtain ⟨s0, h0, h⟩ := h
  replace h := bpeel h; obtain ⟨_, hact, _⟩ := h
  exact ⟨payable_of_takePayments _ h0,
    (congrArg LV.active (takePayments_lv h0)).symm.trans ((req_eq_some _).mp hact)⟩

theorem mergeFarmTokens_guards {s : St} {c : Nat} {opt : Option Nat} {pays : List (Nat × Nat)}
    {r : St × Out} (h : mergeFarmTokens s c opt pays = some r) :
    s.active = true ∧ pays ≠ [] ∧ payable (s.hold c) pays = true := by
  unfold mergeFarmTokens at h
  replace h := bpeel h; obtain ⟨_, hact, h⟩ := h
  replace h := bpeel h; obtain ⟨orig, _, h⟩ := h
  replace h := bpeel h; obtain ⟨_, hne, h⟩ := h
  replace h := bpeel h; obtain ⟨s0, h0, _⟩ := h
  exact ⟨(req_eq_some _).mp hact, (req_eq_some _).mp hne, payable_of_takePayments _ h0⟩

theorem claimBoostedRewards_guards_p {s : St} {c : Nat} {opt : Option Nat} {r : St × Out}
    (h : claimBoostedRewards s c opt = some r) :
    opt.getD c = c ∧ s.userTotal c ≠ 0 ∧ s.active = true := by
  unfold claimBoostedRewards at h
  replace h := bpeel h; obtain ⟨_, hu, h⟩ := h
  replace h := bpeel h; obtain ⟨_, htot, h⟩ := h
  replace h := bpeel h; obtain ⟨_, hact, _⟩ := h
  have hu' : opt.getD c = c := (req_eq_some _).mp hu
  have htot' := (req_eq_some _).mp htot
  rw [hu'] at htot'
  exact ⟨hu', htot', (req_eq_some _).mp hact⟩

end Plain
end Mx.Farm
