/-
  The POSITION half of the week budget (Lemmas/FarmWeekSafe.lean `WeekBudget`, finding F6):

      for every completed week w:   farmSupplyForWeek(w) = 0
                                  ∨ Σ_{v : progress(v).week ≤ w} userTotalFarmPosition(v) ≤ farmSupplyForWeek(w)

  i.e. the users who can still claim week `w`, with their CURRENT total farm positions, fit into the
  farm supply recorded for that week — in every reachable state of the (repaired) farm.  It is the
  counterpart of `Weekly.EB` (Lemmas/WeeklyHist.lean, the ENERGY half `Σ e ≤ E`).

  Why it is inductive (and why it was not before the repair of F6):
    * `farmSupplyForWeek(w)` of a completed week is never written again (`set_farm_supply_for_current_week`);
    * every call into the weekly-rewards module for a user (`claim_multi`, `update_energy_and_progress`,
      `updateEnergyForUser`, `clear_user_energy`) sets that user's progress to the CURRENT week or clears
      it: the set of claimers of a completed week only shrinks;
    * `userTotalFarmPosition(v)` of a user `v ≠ orig` only decreases (`decrease_user_farm_position`), and
      every increase of `userTotalFarmPosition(orig)` (enter, claim / merge of a received position,
      compound) happens AFTER `claim_boosted_yields_rewards(orig)` in the same transaction — which,
      since the repair, moves `orig`'s progress to the current week also when no boosted-yields config
      exists (`claimBoostedYields_wv` has no config hypothesis);
    * for the running week `W`: `farmSupplyForWeek(W) = 0 ∨ farmSupplyForWeek(W) = farm_token_supply`
      (every endpoint that changes the supply records it), later weeks are 0; when the week ends,
      `Σ_{v} userTotal(v) ≤ supply` (position invariant `PosInv`, C07) gives the bound for `W`.

  Technique as in FarmPos / FarmPool: everything is done on a small VIEW `wv s` of the state.
-/
import MxModel.Lemmas.FarmPool
import MxModel.Lemmas.FarmPos

namespace Mx.Weekly

/-- `update_user_energy_for_current_week` never touches the progress table or the key list
    (no invariant needed) -/
theorem updateUser_frame {g g1 : St} {W : Nat} {cur : Energy} {o : Option ClaimProgress}
    (h : updateUserEnergyForCurrentWeek g W cur o = some g1) :
    g1.progress = g.progress ∧ g1.users = g.users := by
  rw [updateUserEnergyForCurrentWeek_eq] at h
  simp only [updateGlobal, Option.bind_eq_bind, Option.bind_eq_some_iff, req_eq_some] at h
  obtain ⟨ga, ha1, _, _, ⟨gb, bp⟩, hre, gc, htk, hen⟩ := h
  dsimp only at htk hen
  have e1 : ga.progress = g.progress ∧ ga.users = g.users := by
    unfold performWeeklyUpdate at ha1
    split at ha1
    · simp only [Option.some.injEq] at ha1; subst ha1; exact ⟨rfl, rfl⟩
    split at ha1
    · simp only [Option.some.injEq] at ha1; subst ha1; exact ⟨rfl, rfl⟩
    · simp only [Option.bind_eq_bind, Option.bind_eq_some_iff, req_eq_some] at ha1
      obtain ⟨_, _, ⟨g2, t2⟩, hs, hfin⟩ := ha1
      have hsp : ∀ (n : Nat) (x y : St) (t t' : Totals), shiftN n x t = some (y, t') →
          y.progress = x.progress ∧ y.users = x.users := by
        intro n
        induction n with
        | zero =>
          intro x y t t' hh
          simp only [shiftN, Option.some.injEq, Prod.mk.injEq] at hh
          rw [← hh.1]; exact ⟨rfl, rfl⟩
        | succ n ih =>
          intro x y t t' hh
          simp only [shiftN, Option.bind_eq_some_iff] at hh
          obtain ⟨⟨x1, t1⟩, hh1, hh2⟩ := hh
          have := ih _ _ _ _ hh2
          simp only [shiftOnce, Option.bind_eq_bind, Option.bind_eq_some_iff, sub?_eq_some,
            Option.pure_def, Option.some.injEq, Prod.mk.injEq] at hh1
          obtain ⟨_, _, rfl, _⟩ := hh1
          exact this
      have e := hsp _ _ _ _ _ hs
      split at hfin <;>
        (simp only [Option.pure_def, Option.some.injEq] at hfin; subst hfin; exact e)
  have a1 := updateTotalEnergy_spec hen
  have a2 := updateTotalTokens_spec htk
  have a3 := (reallocate_spec hre).2.2.1
  exact ⟨by rw [a1.2.1, a2.2.1, a3.progress, e1.1], by rw [a1.2.2.1, a2.2.2.1, a3.users, e1.2]⟩

theorem newOf_week {cur : Energy} {W : Nat} : ∀ p, newOf cur W = some p → p.week = W := by
  intro p hp
  unfold newOf at hp
  split at hp
  · simp only [Option.some.injEq] at hp; subst hp; rfl
  · cases hp

theorem usersAfter_nodup {users : List Nat} (hnd : users.Nodup) (u : Nat) (o : Option ClaimProgress) :
    (usersAfter users u o).Nodup := by
  unfold usersAfter
  split
  · rename_i hc
    rw [List.nodup_append]
    refine ⟨hnd, List.nodup_cons.mpr ⟨by simp, List.nodup_nil⟩, ?_⟩
    intro a ha b hb
    simp only [List.mem_singleton] at hb
    subst hb
    intro e; subst e; exact hc.2 ha
  · exact hnd

/-- over a duplicate-free list at most one index matches -/
theorem usum_indicator_le : ∀ (L : List Nat), L.Nodup → ∀ (c : Option Nat) (x : Nat),
    usum L (fun o => if c = some o then x else 0) ≤ x := by
  intro L
  induction L with
  | nil => intro _ c x; simp
  | cons a L ih =>
    intro hnd c x
    rw [List.nodup_cons] at hnd
    rw [usum_cons]
    by_cases hc : c = some a
    · have hz : usum L (fun o => if c = some o then x else 0) = 0 := by
        apply usum_zero
        intro o ho
        have : c ≠ some o := by
          rw [hc]; intro e
          simp only [Option.some.injEq] at e
          subst e; exact hnd.1 ho
        simp [this]
      simp only [hc, if_true] at hz ⊢
      omega
    · have := ih hnd.2 c x
      simp only [hc, if_false]
      omega

end Mx.Weekly

namespace Mx.Farm

open Mx.Weekly (upd upd_same upd_other Energy ClaimProgress usum usum_nil usum_cons usum_append usum_le
  usum_zero usum_add usersAfter newOf)

/-! ## Σ over owners of `userTotal` is within the supply -/

theorem usum_owned_le (s : St) (L : List Nat) (hnd : L.Nodup) : ∀ (N : List Nat),
    usum L (fun o => (N.map fun n => if ownerOf s n = some o then heldBy s n else 0).sum) ≤
      (N.map (heldBy s)).sum := by
  intro N
  induction N with
  | nil =>
    simp only [List.map_nil, List.sum_nil]
    exact Nat.le_of_eq (usum_zero (fun _ _ => rfl))
  | cons n N ih =>
    simp only [List.map_cons, List.sum_cons]
    rw [usum_add]
    have := Weekly.usum_indicator_le L hnd (ownerOf s n) (heldBy s n)
    omega

/-- C07 consequence: the recorded totals of any set of distinct addresses fit into the farm-token supply -/
theorem PosInv.usum_total_le {s : St} (hP : PosInv s) {L : List Nat} (hnd : L.Nodup) :
    usum L s.userTotal ≤ s.supply := by
  rw [hP.sup]
  have e : usum L s.userTotal = usum L (ownedBy s) := Weekly.usum_congr (fun u _ => hP.own u)
  rw [e]
  exact usum_owned_le s L hnd (nonceList s)

/-! ## the view -/

/-- the cells the week-position invariant reads -/
structure WV where
  progress : Nat → Option ClaimProgress
  wusers : List Nat
  total : Nat → Nat
  fsw : Nat → Nat
  supply : Nat
  epoch : Nat
  fws : Nat

def wv (s : St) : WV :=
  ⟨s.w.progress, s.w.users, s.userTotal, s.b.farmSupplyWeek, s.supply, s.epoch, s.firstWeekStart⟩

/-- the position user `u` can still claim week `w` with: its current total if its claim progress has
    not passed `w`, else nothing -/
def fFor (prog : Nat → Option ClaimProgress) (tot : Nat → Nat) (u w : Nat) : Nat :=
  match prog u with
  | some p => if p.week ≤ w then tot u else 0
  | none => 0

namespace WV

def week (v : WV) : Option Nat := Weekly.weekOf v.epoch v.fws

/-- Σ of the current total positions of the users that can still claim week `w` -/
def psum (v : WV) (w : Nat) : Nat := usum v.wusers (fun u => fFor v.progress v.total u w)

/-- a weekly-module call for `u`: progress entry replaced, key list extended -/
def move (v : WV) (u : Nat) (o : Option ClaimProgress) : WV :=
  { v with progress := upd v.progress u o, wusers := usersAfter v.wusers u o }
def setTotal (v : WV) (t : Nat → Nat) : WV := { v with total := t }
def setFsw (v : WV) (W x : Nat) : WV := { v with fsw := upd v.fsw W x }
def setSupply (v : WV) (x : Nat) : WV := { v with supply := x }

@[simp] theorem move_fsw (v : WV) (u : Nat) (o : Option ClaimProgress) : (v.move u o).fsw = v.fsw := rfl
@[simp] theorem move_supply (v : WV) (u : Nat) (o : Option ClaimProgress) : (v.move u o).supply = v.supply := rfl
@[simp] theorem move_week (v : WV) (u : Nat) (o : Option ClaimProgress) : (v.move u o).week = v.week := rfl
@[simp] theorem setTotal_fsw (v : WV) (t : Nat → Nat) : (v.setTotal t).fsw = v.fsw := rfl
@[simp] theorem setTotal_supply (v : WV) (t : Nat → Nat) : (v.setTotal t).supply = v.supply := rfl
@[simp] theorem setTotal_week (v : WV) (t : Nat → Nat) : (v.setTotal t).week = v.week := rfl
@[simp] theorem setTotal_total (v : WV) (t : Nat → Nat) : (v.setTotal t).total = t := rfl
@[simp] theorem setTotal_progress (v : WV) (t : Nat → Nat) : (v.setTotal t).progress = v.progress := rfl
@[simp] theorem setFsw_fsw (v : WV) (W x : Nat) : (v.setFsw W x).fsw = upd v.fsw W x := rfl
@[simp] theorem setFsw_supply (v : WV) (W x : Nat) : (v.setFsw W x).supply = v.supply := rfl
@[simp] theorem setFsw_week (v : WV) (W x : Nat) : (v.setFsw W x).week = v.week := rfl
@[simp] theorem setSupply_fsw (v : WV) (x : Nat) : (v.setSupply x).fsw = v.fsw := rfl
@[simp] theorem setSupply_supply (v : WV) (x : Nat) : (v.setSupply x).supply = x := rfl
@[simp] theorem setSupply_week (v : WV) (x : Nat) : (v.setSupply x).week = v.week := rfl
@[simp] theorem move_progress_same (v : WV) (u : Nat) (o : Option ClaimProgress) :
    (v.move u o).progress u = o := upd_same _ _ _

/-- **the week-position invariant** on the view -/
structure Inv (v : WV) : Prop where
  time : v.fws ≤ v.epoch
  nodup : v.wusers.Nodup
  /-- completed weeks: the remaining claimers' current totals fit into the recorded supply -/
  past : ∀ W, v.week = some W → ∀ w, w < W → v.fsw w = 0 ∨ v.psum w ≤ v.fsw w
  /-- the running week: nothing recorded yet, or the current farm-token supply -/
  cur : ∀ W, v.week = some W → v.fsw W = 0 ∨ v.fsw W = v.supply
  /-- later weeks: nothing recorded -/
  fut : ∀ W, v.week = some W → ∀ w, W < w → v.fsw w = 0

/-- the invariant inside an endpoint running in week `W` (the `cur` clause is re-established at the end) -/
structure Mid (v : WV) (W : Nat) : Prop where
  time : v.fws ≤ v.epoch
  week : v.week = some W
  nodup : v.wusers.Nodup
  past : ∀ w, w < W → v.fsw w = 0 ∨ v.psum w ≤ v.fsw w
  fut : ∀ w, W < w → v.fsw w = 0

theorem Inv.toMid {v : WV} (h : v.Inv) {W : Nat} (hW : v.week = some W) : v.Mid W :=
  ⟨h.time, hW, h.nodup, h.past W hW, h.fut W hW⟩

theorem Mid.toInv {v : WV} {W : Nat} (h : v.Mid W) (hc : v.fsw W = 0 ∨ v.fsw W = v.supply) : v.Inv := by
  refine ⟨h.time, h.nodup, fun W' hW' => ?_, fun W' hW' => ?_, fun W' hW' => ?_⟩ <;>
  · rw [h.week] at hW'
    simp only [Option.some.injEq] at hW'
    subst hW'
    first | exact h.past | exact hc | exact h.fut

theorem Mid.of_eq {v v' : WV} {W : Nat} (h : v.Mid W) (e : v' = v) : v'.Mid W := e ▸ h

/-- a user whose progress entry is cleared or at week `≥ W` does not count for weeks before `W` -/
theorem fFor_settled {prog : Nat → Option ClaimProgress} {tot : Nat → Nat} {u w W : Nat}
    (hs : ∀ p, prog u = some p → W ≤ p.week) (hw : w < W) : fFor prog tot u w = 0 := by
  unfold fFor
  cases hp : prog u with
  | none => rfl
  | some p =>
    have := hs p hp
    have hn : ¬ p.week ≤ w := by omega
    simp only [hn, if_false]

/-- a weekly-module call in week `W` for `u` keeps the invariant: `u` leaves the claimers of every
    completed week, nobody joins them -/
theorem Mid.move {v : WV} {W : Nat} (h : v.Mid W) (u : Nat) {o : Option ClaimProgress}
    (ho : ∀ p, o = some p → W ≤ p.week) : (v.move u o).Mid W := by
  refine ⟨h.time, h.week, Weekly.usersAfter_nodup h.nodup u o, fun w hw => ?_, h.fut⟩
  rcases h.past w hw with hz | hb
  · exact Or.inl hz
  · right
    refine Nat.le_trans ?_ hb
    have hu0 : fFor (upd v.progress u o) v.total u w = 0 :=
      fFor_settled (fun p hp => ho p (by rw [upd_same] at hp; exact hp)) hw
    have hle : ∀ x, fFor (upd v.progress u o) v.total x w ≤ fFor v.progress v.total x w := by
      intro x
      by_cases hx : x = u
      · subst hx; rw [hu0]; exact Nat.zero_le _
      · unfold fFor; rw [upd_other _ _ hx]
    show usum (usersAfter v.wusers u o) (fun x => fFor (upd v.progress u o) v.total x w) ≤ v.psum w
    unfold usersAfter
    split
    · rw [usum_append, usum_cons, usum_nil, hu0]
      have : usum v.wusers (fun x => fFor (upd v.progress u o) v.total x w) ≤ v.psum w :=
        usum_le (fun x _ => hle x)
      omega
    · exact usum_le (fun x _ => hle x)

/-- rewriting the totals keeps the invariant when only users whose progress is at the current week
    (or cleared) grow -/
theorem Mid.setTotal {v : WV} {W : Nat} (h : v.Mid W) {t : Nat → Nat}
    (ht : ∀ x, t x ≤ v.total x ∨ ∀ p, v.progress x = some p → W ≤ p.week) : (v.setTotal t).Mid W := by
  refine ⟨h.time, h.week, h.nodup, fun w hw => ?_, h.fut⟩
  rcases h.past w hw with hz | hb
  · exact Or.inl hz
  · right
    refine Nat.le_trans ?_ hb
    show usum v.wusers (fun x => fFor v.progress t x w) ≤ v.psum w
    apply usum_le
    intro x _
    rcases ht x with hle | hs
    · unfold fFor
      cases v.progress x with
      | none => exact Nat.le_refl _
      | some p =>
        simp only
        split
        · exact hle
        · exact Nat.le_refl _
    · rw [fFor_settled hs hw]; exact Nat.zero_le _

/-- `set_farm_supply_for_current_week` only writes the running week -/
theorem Mid.setFsw {v : WV} {W : Nat} (h : v.Mid W) (x : Nat) : (v.setFsw W x).Mid W := by
  refine ⟨h.time, h.week, h.nodup, fun w hw => ?_, fun w hw => ?_⟩
  · have hne : w ≠ W := by omega
    show upd v.fsw W x w = 0 ∨ v.psum w ≤ upd v.fsw W x w
    rw [upd_other _ _ hne]; exact h.past w hw
  · have hne : w ≠ W := by omega
    show upd v.fsw W x w = 0
    rw [upd_other _ _ hne]; exact h.fut w hw

theorem Mid.setSupply {v : WV} {W : Nat} (h : v.Mid W) (x : Nat) : (v.setSupply x).Mid W :=
  ⟨h.time, h.week, h.nodup, h.past, h.fut⟩

theorem weekOf_mono {e e' f W W' : Nat} (he : e ≤ e') (h : Weekly.weekOf e f = some W)
    (h' : Weekly.weekOf e' f = some W') : W ≤ W' := by
  unfold Weekly.weekOf at h h'
  simp only [Option.bind_eq_bind, Option.bind_eq_some_iff, req_eq_some, Option.pure_def,
    Option.some.injEq] at h h'
  obtain ⟨_, h1, rfl⟩ := h
  obtain ⟨_, h2, rfl⟩ := h'
  have : (e - f) / Weekly.EPOCHS_IN_WEEK ≤ (e' - f) / Weekly.EPOCHS_IN_WEEK :=
    Nat.div_le_div_right (by omega)
  omega

/-- time passes: the running week becomes a completed week (bounded by the supply, which bounds the
    totals of any set of users), the weeks in between have nothing recorded -/
theorem Inv.advance {v : WV} (h : v.Inv) (hsum : usum v.wusers v.total ≤ v.supply) {e : Nat}
    (he : v.epoch ≤ e) : ({ v with epoch := e } : WV).Inv := by
  have ht : v.fws ≤ e := Nat.le_trans h.time he
  obtain ⟨W, hW⟩ : ∃ W, v.week = some W := by
    refine ⟨(v.epoch - v.fws) / Weekly.EPOCHS_IN_WEEK + 1, ?_⟩
    simp [week, Weekly.weekOf, req, h.time]
  refine ⟨ht, h.nodup, fun W' hW' w hw => ?_, fun W' hW' => ?_, fun W' hW' w hw => ?_⟩
  all_goals have hmono : W ≤ W' := weekOf_mono he hW hW'
  · rcases Nat.lt_trichotomy w W with hlt | heq | hgt
    · exact h.past W hW w hlt
    · subst heq
      rcases h.cur w hW with hz | hs
      · exact Or.inl hz
      · right
        show v.psum w ≤ v.fsw w
        rw [hs]
        refine Nat.le_trans ?_ hsum
        apply usum_le
        intro x _
        unfold fFor
        cases v.progress x with
        | none => exact Nat.zero_le _
        | some p => simp only; split <;> omega
    · exact Or.inl (h.fut W hW w hgt)
  · rcases Nat.eq_or_lt_of_le hmono with heq | hlt
    · subst heq; exact h.cur W hW
    · exact Or.inl (h.fut W hW W' hlt)
  · exact h.fut W hW w (by omega)

end WV

/-- **the week-position invariant** of a farm state -/
def WeekPos (s : St) : Prop := (wv s).Inv

/-! ## the weekly module's calls on the progress table -/

theorem weekly_updateEnergyAndProgress_move {g g' : Weekly.St} {u W : Nat} {cur : Energy}
    (h : Weekly.updateEnergyAndProgress g u W cur = some g') :
    g'.progress = upd g.progress u (newOf cur W) ∧ g'.users = usersAfter g.users u (newOf cur W) := by
  simp only [Weekly.updateEnergyAndProgress, Option.bind_eq_bind, Option.bind_eq_some_iff,
    Option.pure_def, Option.some.injEq] at h
  obtain ⟨g1, h1, rfl⟩ := h
  obtain ⟨hp, hu⟩ := Weekly.updateUser_frame h1
  constructor
  · show upd g1.progress u (newOf cur W) = _
    rw [hp]
  · show usersAfter g1.users u (newOf cur W) = _
    rw [hu]

theorem weekly_claimMulti_move {σ : Type} {rw : Weekly.RewardFn σ} (hrw : Weekly.RwFrame rw)
    {g g' : Weekly.St} {c c' : σ} {u W : Nat} {cur : Energy} {r : List (Weekly.Tok × Nat)}
    (h : Weekly.claimMulti rw g c u W cur = some (g', c', r)) :
    g'.progress = upd g.progress u (newOf cur W) ∧ g'.users = usersAfter g.users u (newOf cur W) := by
  obtain ⟨g1, a, h1, _, ha, rfl, _, _⟩ := Weekly.claimMulti_spec h
  obtain ⟨fr, _⟩ := Weekly.claimLoop_frame hrw _ ha
  simp only at fr
  obtain ⟨hp, hu⟩ := Weekly.updateUser_frame h1
  constructor
  · show upd a.g.progress u (newOf cur W) = _
    rw [fr.progress, hp]
  · show usersAfter a.g.users u (newOf cur W) = _
    rw [fr.users, hu]

theorem weekly_clearUserEnergy_move {g g' : Weekly.St} {u W epoch rem minF : Nat}
    (h : Weekly.clearUserEnergy g u W epoch rem minF = some g') :
    (g'.progress = g.progress ∧ g'.users = g.users) ∨
    (g'.progress = upd g.progress u none ∧ g'.users = usersAfter g.users u none) := by
  unfold Weekly.clearUserEnergy at h
  split at h
  · simp only [Option.some.injEq] at h; subst h; exact Or.inl ⟨rfl, rfl⟩
  · simp only [Option.bind_eq_bind, Option.bind_eq_some_iff, Option.pure_def, Option.some.injEq] at h
    obtain ⟨g1, h1, rfl⟩ := h
    obtain ⟨hp, hu⟩ := Weekly.updateUser_frame h1
    right
    constructor
    · show upd g1.progress u none = _
      rw [hp]
    · show usersAfter g1.users u none = _
      rw [hu]

/-! ## helpers on the view -/

theorem takePayments_wv {l : List (Nat × Nat)} {s s' : St} {c : Nat} (h : takePayments s c l = some s') :
    wv s' = wv s := by obtain ⟨_, rfl⟩ := takePayments_spec l h; rfl
theorem createToken_wv {s s' : St} {d n : Nat} {a : Attr} (h : createToken s d a = some (s', n)) :
    wv s' = wv s := by obtain ⟨_, _, rfl⟩ := createToken_spec h; rfl
theorem generate_wv {s s' : St} {c c' : Cache} (h : generate s c = some (s', c')) :
    wv s' = wv s ∧ c'.supply = c.supply := by
  obtain ⟨b', rfl, _, rfl, hb⟩ := generate_spec h
  refine ⟨?_, rfl⟩
  rcases hb with ⟨_, rfl⟩ | ⟨_, W, _, rfl⟩ <;> rfl
theorem payReward_wv {s s' : St} {u b bo : Nat} (h : payReward s u b bo = some s') :
    wv s' = wv s := by obtain ⟨_, _, rfl, _⟩ := payReward_spec h; rfl
theorem payRewardIf_wv {s s' : St} {k : Kind} {u b bo : Nat} (h : payRewardIf s k u b bo = some s') :
    wv s' = wv s := by
  unfold payRewardIf at h
  split at h
  · exact payReward_wv h
  · simp only [Option.some.injEq] at h; rw [← h]
theorem removeFarming_wv {s s' : St} {a p : Nat} (h : removeFarming s a p = some s') : wv s' = wv s := by
  simp only [removeFarming, Option.bind_eq_bind, Option.bind_eq_some_iff, sub?_eq_some, Option.pure_def,
    Option.some.injEq] at h
  obtain ⟨_, _, rfl⟩ := h; rfl
theorem compoundMove_wv {s s' : St} {b bo : Nat} (h : compoundMove s b bo = some s') : wv s' = wv s := by
  simp only [compoundMove, Option.bind_eq_bind, Option.bind_eq_some_iff, sub?_eq_some, Option.pure_def,
    Option.some.injEq] at h
  obtain ⟨_, _, rfl⟩ := h; rfl
theorem setFarmSupplyWeek_wv {s s' : St} {x : Nat} (h : setFarmSupplyWeek s x = some s') :
    ∃ W, s.week = some W ∧ wv s' = (wv s).setFsw W x := by
  obtain ⟨W, hW, rfl⟩ := setFarmSupplyWeek_spec h
  exact ⟨W, hW, rfl⟩

/-- `update_energy_and_progress(u)`: `u`'s progress goes to the current week (or is cleared) -/
theorem updateEnergyAndProgress_wv {s s' : St} {u : Nat} (h : updateEnergyAndProgress s u = some s') :
    ∃ W o, s.week = some W ∧ (∀ p, o = some p → p.week = W) ∧ wv s' = (wv s).move u o := by
  simp only [updateEnergyAndProgress, Option.bind_eq_bind, Option.bind_eq_some_iff, Option.pure_def,
    Option.some.injEq] at h
  obtain ⟨W, hW, g, hg, rfl⟩ := h
  obtain ⟨hp, hu⟩ := weekly_updateEnergyAndProgress_move hg
  refine ⟨W, newOf (Energy.queried (s.energy u) s.epoch) W, hW, Weekly.newOf_week, ?_⟩
  show (⟨g.progress, g.users, s.userTotal, s.b.farmSupplyWeek, s.supply, s.epoch, s.firstWeekStart⟩ : WV) = _
  rw [hp, hu]; rfl

/-- **the boosted claim moves the user's progress to the current week — with or without a boosted-yields
    config** (the repaired `None` branch of `claim_boosted_yields_rewards`; before the repair of F6 the
    view was left unchanged when `cfg = none`, and the invariant below was not inductive) -/
theorem claimBoostedYields_wv {s s' : St} {u r : Nat} (h : claimBoostedYields s u = some (s', r)) :
    ∃ W o, s.week = some W ∧ (∀ p, o = some p → p.week = W) ∧ wv s' = (wv s).move u o := by
  have h0 := h
  have hfsw := (claimBoostedYields_spec h0).fsw
  unfold claimBoostedYields at h
  split at h
  · rename_i hc
    exact updateEnergyAndProgress_wv (claimBoostedYields_none_spec hc h0).2
  · simp only [Option.bind_eq_bind, Option.bind_eq_some_iff, Option.pure_def, Option.some.injEq,
      Prod.mk.injEq] at h
    obtain ⟨W, hW, mem, _, ⟨g', c', rl⟩, hx, hs', _⟩ := h
    obtain ⟨hp, hu⟩ := weekly_claimMulti_move (boostedRewards_frame _ _) hx
    refine ⟨W, newOf (Energy.queried (s.energy u) s.epoch) W, hW, Weekly.newOf_week, ?_⟩
    subst hs'
    show (⟨g'.progress, g'.users, s.userTotal, c'.farmSupplyWeek, s.supply, s.epoch, s.firstWeekStart⟩ : WV) = _
    have hf : c'.farmSupplyWeek = s.b.farmSupplyWeek := hfsw
    rw [hp, hu, hf]; rfl

theorem claimOnlyBoostedPayment_wv {s s' : St} {u r : Nat}
    (h : claimOnlyBoostedPayment s u = some (s', r)) :
    ∃ W o, s.week = some W ∧ (∀ p, o = some p → p.week = W) ∧ wv s' = (wv s).move u o := by
  simp only [claimOnlyBoostedPayment, Option.bind_eq_bind, Option.bind_eq_some_iff, Option.pure_def] at h
  obtain ⟨⟨s1, r1⟩, h1, h⟩ := h
  obtain ⟨W, o, hW, ho, e⟩ := claimBoostedYields_wv h1
  refine ⟨W, o, hW, ho, ?_⟩
  split at h
  · simp only [Option.some.injEq, Prod.mk.injEq] at h
    obtain ⟨rfl, _⟩ := h; exact e
  · simp only [Option.bind_eq_some_iff, sub?_eq_some, Option.some.injEq, Prod.mk.injEq] at h
    obtain ⟨_, _, rfl, _⟩ := h; exact e

theorem clearUserEnergyIfNeeded_wv {s s' : St} {u : Nat} (h : clearUserEnergyIfNeeded s u = some s') :
    wv s' = wv s ∨ wv s' = (wv s).move u none := by
  unfold clearUserEnergyIfNeeded at h
  split at h
  · simp only [Option.some.injEq] at h; subst h; exact Or.inl rfl
  · simp only [Option.bind_eq_bind, Option.bind_eq_some_iff, Option.pure_def, Option.some.injEq] at h
    obtain ⟨W, hW, mem, _, g, hg, rfl⟩ := h
    rcases weekly_clearUserEnergy_move hg with ⟨hp, hu⟩ | ⟨hp, hu⟩
    · left
      show (⟨g.progress, g.users, s.userTotal, s.b.farmSupplyWeek, s.supply, s.epoch, s.firstWeekStart⟩ : WV) = _
      rw [hp, hu]; rfl
    · right
      show (⟨g.progress, g.users, s.userTotal, s.b.farmSupplyWeek, s.supply, s.epoch, s.firstWeekStart⟩ : WV) = _
      rw [hp, hu]; rfl

theorem updateEnergyForUser_wv {s s' : St} {u : Nat} (h : updateEnergyForUser s u = some s') :
    ∃ W o, s.week = some W ∧ (∀ p, o = some p → p.week = W) ∧ wv s' = (wv s).move u o := by
  simp only [updateEnergyForUser, Option.bind_eq_bind, Option.bind_eq_some_iff, Option.pure_def,
    Option.some.injEq] at h
  obtain ⟨W, hW, g, hg, rfl⟩ := h
  have hg2 : Weekly.updateEnergyAndProgress s.w u W (Energy.queried (s.energy u) s.epoch) = some g := by
    unfold Weekly.updateEnergyForUser at hg
    cases hq : s.w.progress u with
    | none =>
      simp only [hq, Option.bind_eq_bind, Option.pure_def, Option.bind_some] at hg
      exact hg
    | some p =>
      simp only [hq, Option.bind_eq_bind, Option.bind_eq_some_iff] at hg
      obtain ⟨_, _, h2⟩ := hg
      exact h2
  obtain ⟨hp, hu⟩ := weekly_updateEnergyAndProgress_move hg2
  refine ⟨W, newOf (Energy.queried (s.energy u) s.epoch) W, hW, Weekly.newOf_week, ?_⟩
  show (⟨g.progress, g.users, s.userTotal, s.b.farmSupplyWeek, s.supply, s.epoch, s.firstWeekStart⟩ : WV) = _
  rw [hp, hu]; rfl

/-- `check_and_update_user_farm_position(u, payments)`: only `u`'s total can grow -/
theorem checkAndUpdate_wv : ∀ (l : List (Nat × Nat)) {s s' : St} {u : Nat},
    checkAndUpdate s u l = some s' →
    ∃ t, wv s' = (wv s).setTotal t ∧ ∀ x, x ≠ u → t x ≤ s.userTotal x := by
  intro l
  induction l with
  | nil =>
    intro s s' u h
    simp only [checkAndUpdate, Option.some.injEq] at h
    subst h
    exact ⟨s.userTotal, rfl, fun _ _ => Nat.le_refl _⟩
  | cons p rest ih =>
    intro s s' u h
    obtain ⟨n, a⟩ := p
    simp only [checkAndUpdate, Option.bind_eq_bind, Option.bind_eq_some_iff] at h
    obtain ⟨att, _, h2⟩ := h
    by_cases ho : att.owner ≠ u
    · simp only [ho, ne_eq, not_false_eq_true, if_true] at h2
      obtain ⟨t, e, ht⟩ := ih h2
      refine ⟨t, e, fun x hx => Nat.le_trans (ht x hx) ?_⟩
      show upd (upd s.userTotal att.owner (s.userTotal att.owner - a)) u _ x ≤ s.userTotal x
      rw [upd_other _ _ hx]
      by_cases hxo : x = att.owner
      · subst hxo; rw [upd_same]; exact Nat.sub_le _ _
      · rw [upd_other _ _ hxo]
    · simp only [ho, if_false] at h2
      exact ih h2

theorem claimTail_wv {s s' : St} {c : Bool} {u b bo : Nat} (h : claimTail s c u b bo = some s') :
    wv s' = wv s ∨ ∃ W o, s.week = some W ∧ (∀ p, o = some p → p.week = W) ∧ wv s' = (wv s).move u o := by
  unfold claimTail at h
  split at h
  · simp only [Option.bind_eq_some_iff] at h
    obtain ⟨s1, h1, h2⟩ := h
    obtain ⟨W, o, hW, ho, e⟩ := updateEnergyAndProgress_wv h2
    have e1 := compoundMove_wv h1
    right
    refine ⟨W, o, ?_, ho, by rw [e, e1]⟩
    have : s1.week = s.week := by
      have := congrArg WV.week e1
      exact this
    rw [← this]; exact hW
  · exact Or.inl (payReward_wv h)

/-! ## endpoints -/

namespace WV

/-- `u`'s progress entry is cleared or at week `≥ W` -/
def Settled (v : WV) (W u : Nat) : Prop := ∀ p, v.progress u = some p → W ≤ p.week

theorem settled_move (v : WV) {W u : Nat} {o : Option ClaimProgress} (ho : ∀ p, o = some p → p.week = W) :
    (v.move u o).Settled W u := by
  intro p hp
  rw [move_progress_same] at hp
  exact Nat.le_of_eq (ho p hp).symm

theorem Settled.of_eq {v v' : WV} {W u : Nat} (h : v.Settled W u) (e : v'.progress = v.progress) :
    v'.Settled W u := by unfold Settled; rw [e]; exact h

theorem Mid.move' {v : WV} {W : Nat} (h : v.Mid W) (u : Nat) {o : Option ClaimProgress}
    (ho : ∀ p, o = some p → p.week = W) : (v.move u o).Mid W :=
  h.move u (fun p hp => Nat.le_of_eq (ho p hp).symm)

/-- the totals are rewritten, only the settled user `u` may grow -/
theorem Mid.bump {v : WV} {W u : Nat} (h : v.Mid W) (hs : v.Settled W u) {t : Nat → Nat}
    (ht : ∀ x, x ≠ u → t x ≤ v.total x) : (v.setTotal t).Mid W := by
  apply h.setTotal
  intro x
  by_cases hx : x = u
  · subst hx; exact Or.inr hs
  · exact Or.inl (ht x hx)

theorem Mid.week_eq {v : WV} {W W' : Nat} (h : v.Mid W) (h' : v.week = some W') : W' = W := by
  rw [h.week] at h'
  simp only [Option.some.injEq] at h'
  exact h'.symm

end WV

theorem WeekPos.of_wv {s s' : St} (hI : WeekPos s) (h : wv s' = wv s) : WeekPos s' := by
  unfold WeekPos; rw [h]; exact hI

theorem enterCore_weekPos {s s' : St} {caller orig tokenTo amt : Nat} {extra : List (Nat × Nat)} {o : Out}
    (hI : WeekPos s) (h : enterCore s caller orig tokenTo amt extra = some (s', o)) : WeekPos s' := by
  simp only [enterCore, Option.bind_eq_bind, Option.bind_eq_some_iff, req_eq_some, Option.pure_def,
    Option.some.injEq, Prod.mk.injEq] at h
  obtain ⟨_, _, s0, h0, ⟨s1, boosted⟩, h1, s1', h1', _, hact, s2, h2, ⟨s4, c1⟩, h4, merged, hm,
    ⟨s5, n⟩, h5, s6, h6, s8, h8, s9, h9, rfl, rfl⟩ := h
  have e0 : wv (addFarming s0 amt) = wv s := (takePayments_wv h0 : wv s0 = wv s)
  obtain ⟨W, o1, hW, ho1, e1⟩ := claimOnlyBoostedPayment_wv (s := addFarming s0 amt) h1
  have e1' := payRewardIf_wv h1'
  obtain ⟨t, e2, ht⟩ := checkAndUpdate_wv extra h2
  obtain ⟨e4, _⟩ := generate_wv h4
  have e5 := createToken_wv h5
  obtain ⟨W6, hW6, e6⟩ := setFarmSupplyWeek_wv h6
  have e8 := payRewardIf_wv h8
  obtain ⟨W9, o9, hW9, ho9, e9⟩ := updateEnergyAndProgress_wv h9
  clear h0 h1 h1' h2 h4 hm h5 h6 h8 h9
  rw [e0] at e1
  have hW0 : (wv s).week = some W := by rw [← e0]; exact hW
  have m0 := WV.Inv.toMid hI hW0
  have m1 : (wv s1).Mid W := by rw [e1]; exact m0.move' orig ho1
  have st1 : (wv s1).Settled W orig := by rw [e1]; exact WV.settled_move _ ho1
  have m1' : (wv s1').Mid W := m1.of_eq e1'
  have st1' : (wv s1').Settled W orig := st1.of_eq (by rw [e1'])
  have m2 : (wv s2).Mid W := by rw [e2]; exact m1'.bump st1' ht
  have st2 : (wv s2).Settled W orig := st1'.of_eq (by rw [e2]; rfl)
  have m3 : (wv (increaseUser s2 orig amt)).Mid W := by
    show ((wv s2).setTotal (upd s2.userTotal orig (s2.userTotal orig + amt))).Mid W
    refine m2.bump st2 (fun x hx => ?_)
    rw [upd_other _ _ hx]; exact Nat.le_refl _
  have m5 : (wv s5).Mid W := (m3.of_eq e4).of_eq e5
  have hw6 := m5.week_eq hW6
  subst hw6
  have m7 : (wv (Cache.drop s6 { c1 with supply := c1.supply + amt })).Mid W6 := by
    show ((wv s6).setSupply (c1.supply + amt)).Mid W6
    rw [e6]; exact (m5.setFsw _).setSupply _
  have m8 : (wv s8).Mid W6 := m7.of_eq e8
  have hw9 := m8.week_eq hW9
  subst hw9
  have m9 : (wv s9).Mid W9 := by rw [e9]; exact m8.move' orig ho9
  refine m9.toInv (Or.inr ?_)
  rw [e9, WV.move_fsw, WV.move_supply, e8]
  show ((wv s6).setSupply (c1.supply + amt)).fsw W9 = c1.supply + amt
  rw [WV.setSupply_fsw, e6, WV.setFsw_fsw, upd_same]

theorem claimCore_weekPos {s s' : St} {caller orig : Nat} {pays : List (Nat × Nat)} {cmp : Bool} {o : Out}
    (hI : WeekPos s) (h : claimCore s caller orig pays cmp = some (s', o)) : WeekPos s' := by
  unfold claimCore at h
  replace h := bpeel h; obtain ⟨⟨n1, a1⟩, hhead, h⟩ := h
  replace h := bpeel h; obtain ⟨s0, h0, h⟩ := h
  replace h := bpeel h; obtain ⟨_, _, h⟩ := h
  replace h := bpeel h; obtain ⟨_, _, h⟩ := h
  replace h := bpeel h; obtain ⟨at1, hat, h⟩ := h
  replace h := bpeel h; obtain ⟨⟨s1, c1⟩, h1, h⟩ := h
  replace h := bpeel h; obtain ⟨part, hpart, h⟩ := h
  replace h := bpeel h; obtain ⟨⟨s2, boosted⟩, h2, h⟩ := h
  replace h := bpeel h; obtain ⟨res, _, h⟩ := h
  replace h := bpeel h; obtain ⟨s3, h3, h⟩ := h
  replace h := bpeel h; obtain ⟨merged, hm, h⟩ := h
  replace h := bpeel h; obtain ⟨⟨s5, n⟩, h5, h⟩ := h
  replace h := bpeel h; obtain ⟨s6, h6, h⟩ := h
  replace h := bpeel h; obtain ⟨s8, h8, h⟩ := h
  simp only [Option.pure_def, Option.some.injEq, Prod.mk.injEq] at h
  obtain ⟨rfl, _⟩ := h
  have e0 := takePayments_wv h0
  obtain ⟨e1, _⟩ := generate_wv h1
  obtain ⟨W, o2, hW, ho2, e2⟩ := claimBoostedYields_wv h2
  obtain ⟨t, e3, ht⟩ := checkAndUpdate_wv pays h3
  have e5 := createToken_wv h5
  obtain ⟨W6, hW6, e6⟩ := setFarmSupplyWeek_wv h6
  have e8 := claimTail_wv h8
  clear h0 h1 h2 h3 hm h5 h6 h8 hat hpart hhead
  dsimp only at e5 e6 e8 hW6
  generalize baseReward s1.dsc c1.rps a1 part.rps = B at *
  rw [e1, e0] at e2
  have hW0 : (wv s).week = some W := by rw [← e0, ← e1]; exact hW
  have m0 := WV.Inv.toMid hI hW0
  have m2 : (wv s2).Mid W := by rw [e2]; exact m0.move' orig ho2
  have st2 : (wv s2).Settled W orig := by rw [e2]; exact WV.settled_move _ ho2
  have m3 : (wv s3).Mid W := by rw [e3]; exact m2.bump st2 ht
  have st3 : (wv s3).Settled W orig := st2.of_eq (by rw [e3]; rfl)
  have m4 : (wv (if cmp = true then increaseUser s3 orig (B + boosted) else s3)).Mid W := by
    cases cmp
    · exact m3
    · show ((wv s3).setTotal (upd s3.userTotal orig (s3.userTotal orig + (B + boosted)))).Mid W
      refine m3.bump st3 (fun x hx => ?_)
      rw [upd_other _ _ hx]; exact Nat.le_refl _
  have m5 : (wv s5).Mid W := m4.of_eq e5
  have hw6 := m5.week_eq hW6
  subst hw6
  generalize hX : (if cmp = true then c1.supply + (B + boosted) else c1.supply) = X at *
  have m7 : (wv (Cache.drop s6 { c1 with reserve := res, supply := X })).Mid W6 := by
    show ((wv s6).setSupply X).Mid W6
    rw [e6]; exact (m5.setFsw _).setSupply _
  have hf7 : (wv (Cache.drop s6 { c1 with reserve := res, supply := X })).fsw W6 = X := by
    show ((wv s6).setSupply X).fsw W6 = X
    rw [WV.setSupply_fsw, e6, WV.setFsw_fsw, upd_same]
  rcases e8 with e8 | ⟨W8, o8, hW8, ho8, e8⟩
  · refine (m7.of_eq e8).toInv (Or.inr ?_)
    rw [e8, hf7]; rfl
  · have hw8 := m7.week_eq hW8
    subst hw8
    have m8 : (wv s8).Mid W8 := by rw [e8]; exact m7.move' orig ho8
    refine m8.toInv (Or.inr ?_)
    rw [e8, WV.move_fsw, WV.move_supply, hf7]; rfl

theorem exitFarm_weekPos {s s' : St} {caller : Nat} {opt : Option Nat} {n a : Nat} {o : Out}
    (hI : WeekPos s) (h : exitFarm s caller opt n a = some (s', o)) : WeekPos s' := by
  unfold exitFarm at h
  replace h := bpeel h; obtain ⟨orig, _, h⟩ := h
  replace h := bpeel h; obtain ⟨s0, h0, h⟩ := h
  replace h := bpeel h; obtain ⟨_, _, h⟩ := h
  replace h := bpeel h; obtain ⟨att, hat, h⟩ := h
  replace h := bpeel h; obtain ⟨⟨s1, c1⟩, h1, h⟩ := h
  replace h := bpeel h; obtain ⟨part, hpart, h⟩ := h
  replace h := bpeel h; obtain ⟨⟨s2, boosted⟩, h2, h⟩ := h
  replace h := bpeel h; obtain ⟨res, _, h⟩ := h
  replace h := bpeel h; obtain ⟨sup, hsup, h⟩ := h
  replace h := bpeel h; obtain ⟨s4, h4, h⟩ := h
  replace h := bpeel h; obtain ⟨pen, hpen, h⟩ := h
  replace h := bpeel h; obtain ⟨out, _, h⟩ := h
  replace h := bpeel h; obtain ⟨s6, h6, h⟩ := h
  replace h := bpeel h; obtain ⟨s7, h7, h⟩ := h
  replace h := bpeel h; obtain ⟨s8, h8, h⟩ := h
  simp only [Option.pure_def, Option.some.injEq, Prod.mk.injEq] at h
  obtain ⟨rfl, _⟩ := h
  have e0 := takePayments_wv h0
  obtain ⟨e1, _⟩ := generate_wv h1
  obtain ⟨W, o2, hW, ho2, e2⟩ := claimBoostedYields_wv h2
  obtain ⟨W4, hW4, e4⟩ := setFarmSupplyWeek_wv (s := decreaseOwner s2 att.owner a) h4
  have e6 := removeFarming_wv (s := Cache.drop s4 { c1 with reserve := res, supply := sup }) h6
  have e7 := payReward_wv h7
  have e8 := clearUserEnergyIfNeeded_wv h8
  clear h0 h1 h2 h4 h6 h7 h8 hat hpart hpen hsup
  dsimp only at e4 hW4
  rw [e1, e0] at e2
  have hW0 : (wv s).week = some W := by rw [← e0, ← e1]; exact hW
  have m0 := WV.Inv.toMid hI hW0
  have m2 : (wv s2).Mid W := by rw [e2]; exact m0.move' orig ho2
  have m3 : (wv (decreaseOwner s2 att.owner a)).Mid W := by
    show ((wv s2).setTotal (upd s2.userTotal att.owner (s2.userTotal att.owner - a))).Mid W
    apply m2.setTotal
    intro x
    left
    by_cases hx : x = att.owner
    · subst hx; rw [upd_same]; exact Nat.sub_le _ _
    · rw [upd_other _ _ hx]; exact Nat.le_refl _
  have hw4 := m3.week_eq hW4
  subst hw4
  have m5 : (wv (Cache.drop s4 { c1 with reserve := res, supply := sup })).Mid W4 := by
    show ((wv s4).setSupply sup).Mid W4
    rw [e4]; exact (m3.setFsw _).setSupply _
  have hf5 : (wv (Cache.drop s4 { c1 with reserve := res, supply := sup })).fsw W4 = sup := by
    show ((wv s4).setSupply sup).fsw W4 = sup
    rw [WV.setSupply_fsw, e4, WV.setFsw_fsw, upd_same]
  have m7 : (wv s7).Mid W4 := (m5.of_eq e6).of_eq e7
  have hf7 : (wv s7).fsw W4 = (wv s7).supply := by rw [e7, e6, hf5]; rfl
  rcases e8 with e8 | e8
  · exact (m7.of_eq e8).toInv (Or.inr (by rw [e8]; exact hf7))
  · have m8 : (wv s8).Mid W4 := by
      rw [e8]; exact m7.move orig (fun p hp => by cases hp)
    exact m8.toInv (Or.inr (by rw [e8, WV.move_fsw, WV.move_supply]; exact hf7))

theorem mergeFarmTokens_weekPos {s s' : St} {caller : Nat} {opt : Option Nat} {pays : List (Nat × Nat)}
    {o : Out} (hI : WeekPos s) (h : mergeFarmTokens s caller opt pays = some (s', o)) : WeekPos s' := by
  simp only [mergeFarmTokens, Option.bind_eq_bind, Option.bind_eq_some_iff, req_eq_some, Option.pure_def,
    Option.some.injEq, Prod.mk.injEq] at h
  obtain ⟨_, hact, orig, _, _, _, s0, h0, ⟨s1, boosted⟩, h1, s2, h2, merged, hm, ⟨s3, n⟩, h3, s4, h4, rfl, rfl⟩ := h
  have e0 := takePayments_wv h0
  obtain ⟨W, o1, hW, ho1, e1⟩ := claimOnlyBoostedPayment_wv h1
  obtain ⟨t, e2, ht⟩ := checkAndUpdate_wv pays h2
  have e3 := createToken_wv h3
  have e4 := payReward_wv h4
  clear h0 h1 h2 h3 h4 hm
  rw [e0] at e1
  have hW0 : (wv s).week = some W := by rw [← e0]; exact hW
  have m0 := WV.Inv.toMid hI hW0
  have m1 : (wv s1).Mid W := by rw [e1]; exact m0.move' orig ho1
  have st1 : (wv s1).Settled W orig := by rw [e1]; exact WV.settled_move _ ho1
  have m2 : (wv s2).Mid W := by rw [e2]; exact m1.bump st1 ht
  have m4 : (wv s4).Mid W := (m2.of_eq e3).of_eq e4
  refine m4.toInv ?_
  rw [e4, e3, e2, WV.setTotal_fsw, WV.setTotal_supply, e1, WV.move_fsw, WV.move_supply]
  exact hI.cur W hW0

theorem claimBoostedRewards_weekPos {s s' : St} {caller : Nat} {optUser : Option Nat} {o : Out}
    (hI : WeekPos s) (h : claimBoostedRewards s caller optUser = some (s', o)) : WeekPos s' := by
  simp only [claimBoostedRewards, Option.bind_eq_bind, Option.bind_eq_some_iff, req_eq_some, Option.pure_def,
    Option.some.injEq, Prod.mk.injEq, sub?_eq_some] at h
  obtain ⟨_, _, _, _, _, hact, ⟨s1, c1⟩, h1, ⟨s2, boosted⟩, h2, res, ⟨hle, rfl⟩, s3, h3, s4, h4, rfl, rfl⟩ := h
  obtain ⟨e1, _⟩ := generate_wv h1
  obtain ⟨W, o2, hW, ho2, e2⟩ := claimBoostedYields_wv h2
  obtain ⟨W3, hW3, e3⟩ := setFarmSupplyWeek_wv h3
  have e4 := payReward_wv h4
  clear h1 h2 h3 h4
  dsimp only at e3 hW3
  rw [e1] at e2
  have hW0 : (wv s).week = some W := by rw [← e1]; exact hW
  have m0 := WV.Inv.toMid hI hW0
  have m2 : (wv s2).Mid W := by rw [e2]; exact m0.move' _ ho2
  have hw3 := m2.week_eq hW3
  subst hw3
  have m4 : (wv s4).Mid W3 := by rw [e4, e3]; exact m2.setFsw _
  have m5 : (wv (Cache.drop s4 { c1 with reserve := c1.reserve - boosted })).Mid W3 := by
    show ((wv s4).setSupply c1.supply).Mid W3
    exact m4.setSupply _
  refine m5.toInv (Or.inr ?_)
  show ((wv s4).setSupply c1.supply).fsw W3 = c1.supply
  rw [WV.setSupply_fsw, e4, e3, WV.setFsw_fsw, upd_same]

theorem settle_wv {s s' : St} (h : settle s = some s') : wv s' = wv s := by
  simp only [settle, Option.bind_eq_bind, Option.bind_eq_some_iff, Option.pure_def, Option.some.injEq] at h
  obtain ⟨⟨s1, c1⟩, h1, rfl⟩ := h
  obtain ⟨e1, hc1⟩ := generate_wv h1
  have hs : c1.supply = (wv s).supply := hc1
  show ((wv s1).setSupply c1.supply) = _
  rw [e1, hs]; rfl

theorem init_weekPos (kind : Kind) (sameTok : Bool) (dsc perBlock : Nat) (produce : Bool) (users : List Nat)
    (e0 : Nat) : WeekPos (init kind sameTok dsc perBlock produce users e0) :=
  ⟨Nat.le_refl _, List.nodup_nil, fun _ _ _ _ => Or.inl rfl, fun _ _ => Or.inl rfl, fun _ _ _ _ => rfl⟩

/-! ## every operation -/

/-- every operation of the farm preserves the week-position invariant (`PosInv`, C07, is used when
    time passes: the totals of the claimers fit into the supply) -/
theorem step_weekPos {s s' : St} {op : Op} {o : Out} (hP : PosInv s) (hI : WeekPos s)
    (h : step s op = some (s', o)) : WeekPos s' := by
  cases op <;> simp only [step, known] at h
  case enter c oo a e =>
    split at h <;> [skip; exact absurd h (by simp)]
    simp only [enterFarm, Option.bind_eq_bind, Option.bind_eq_some_iff] at h
    obtain ⟨_, _, h⟩ := h
    exact enterCore_weekPos hI h
  case enterOB c u a e =>
    split at h <;> [skip; exact absurd h (by simp)]
    simp only [enterFarmOnBehalf, Option.bind_eq_bind, Option.bind_eq_some_iff] at h
    obtain ⟨_, _, _, _, h⟩ := h
    exact enterCore_weekPos hI h
  case claim c oo p =>
    split at h <;> [skip; exact absurd h (by simp)]
    simp only [claimRewards, Option.bind_eq_bind, Option.bind_eq_some_iff] at h
    obtain ⟨_, _, h⟩ := h
    exact claimCore_weekPos hI h
  case claimOB c p =>
    split at h <;> [skip; exact absurd h (by simp)]
    simp only [claimRewardsOnBehalf, Option.bind_eq_bind, Option.bind_eq_some_iff] at h
    obtain ⟨_, _, _, _, _, _, h⟩ := h
    exact claimCore_weekPos hI h
  case compound c oo p =>
    split at h <;> [skip; exact absurd h (by simp)]
    simp only [compoundRewards, Option.bind_eq_bind, Option.bind_eq_some_iff, req_eq_some] at h
    obtain ⟨_, hk, _, _, h⟩ := h
    exact claimCore_weekPos hI h
  case exit c oo n a =>
    split at h <;> [skip; exact absurd h (by simp)]
    exact exitFarm_weekPos hI h
  case merge c oo p =>
    split at h <;> [skip; exact absurd h (by simp)]
    exact mergeFarmTokens_weekPos hI h
  case claimBoosted c u =>
    split at h <;> [skip; exact absurd h (by simp)]
    exact claimBoostedRewards_weekPos hI h
  case transfer a b n x =>
    split at h <;> [skip; exact absurd h (by simp)]
    split at h <;> [skip; exact absurd h (by simp)]
    simp only [noOut, Option.map_eq_some_iff, Prod.mk.injEq] at h
    obtain ⟨s1, h1, rfl, _⟩ := h
    simp only [transfer, Option.bind_eq_bind, Option.bind_eq_some_iff, req_eq_some, sub?_eq_some,
      Option.pure_def, Option.some.injEq] at h1
    obtain ⟨_, _, _, _, _, _, _, _, rfl⟩ := h1
    exact hI.of_wv rfl
  case setEnergy u a l t =>
    simp only [Option.some.injEq, Prod.mk.injEq] at h
    obtain ⟨rfl, _⟩ := h
    exact hI.of_wv rfl
  case updateEnergy u =>
    simp only [noOut, Option.map_eq_some_iff, Prod.mk.injEq] at h
    obtain ⟨s1, h1, rfl, _⟩ := h
    obtain ⟨W, o1, hW, ho1, e1⟩ := updateEnergyForUser_wv h1
    have m0 := WV.Inv.toMid hI (show (wv s).week = some W from hW)
    have m1 : (wv s1).Mid W := by rw [e1]; exact m0.move' u ho1
    refine m1.toInv ?_
    rw [e1, WV.move_fsw, WV.move_supply]
    exact hI.cur W hW
  case setPerBlock c x =>
    simp only [noOut, Option.map_eq_some_iff, Prod.mk.injEq] at h
    obtain ⟨s1, h1, rfl, _⟩ := h
    simp only [setPerBlock, Option.bind_eq_bind, Option.bind_eq_some_iff, Option.pure_def,
      Option.some.injEq] at h1
    obtain ⟨_, _, _, _, s2, h2, rfl⟩ := h1
    exact hI.of_wv (settle_wv h2 : wv s2 = wv s)
  case startProduce c =>
    simp only [noOut, Option.map_eq_some_iff, Prod.mk.injEq] at h
    obtain ⟨s1, h1, rfl, _⟩ := h
    simp only [startProduce, Option.bind_eq_bind, Option.bind_eq_some_iff, Option.pure_def,
      Option.some.injEq] at h1
    obtain ⟨_, _, _, _, _, _, rfl⟩ := h1
    exact hI.of_wv rfl
  case endProduce c =>
    simp only [noOut, Option.map_eq_some_iff, Prod.mk.injEq] at h
    obtain ⟨s1, h1, rfl, _⟩ := h
    simp only [endProduce, Option.bind_eq_bind, Option.bind_eq_some_iff, Option.pure_def,
      Option.some.injEq] at h1
    obtain ⟨_, _, s2, h2, rfl⟩ := h1
    exact hI.of_wv (settle_wv h2 : wv s2 = wv s)
  case setPct c p =>
    simp only [noOut, Option.map_eq_some_iff, Prod.mk.injEq] at h
    obtain ⟨s1, h1, rfl, _⟩ := h
    simp only [setPct, Option.bind_eq_bind, Option.bind_eq_some_iff, Option.pure_def,
      Option.some.injEq] at h1
    obtain ⟨_, _, _, _, s2, h2, rfl⟩ := h1
    exact hI.of_wv (settle_wv h2 : wv s2 = wv s)
  case setFactors c f =>
    simp only [noOut, Option.map_eq_some_iff, Prod.mk.injEq] at h
    obtain ⟨s1, h1, rfl, _⟩ := h
    simp only [setFactors, Option.bind_eq_bind, Option.bind_eq_some_iff, Option.pure_def] at h1
    obtain ⟨_, _, _, _, _, _, W, _, h1⟩ := h1
    split at h1
    · simp only [Option.bind_eq_some_iff, Option.some.injEq] at h1
      obtain ⟨_, _, rfl⟩ := h1
      exact hI.of_wv rfl
    · simp only [Option.some.injEq] at h1
      subst h1
      exact hI.of_wv rfl
  case collect c =>
    simp only [noOut, Option.map_eq_some_iff, Prod.mk.injEq] at h
    obtain ⟨s1, h1, rfl, _⟩ := h
    simp only [collectUndistributed, Option.bind_eq_bind, Option.bind_eq_some_iff, Option.pure_def,
      req_eq_some] at h1
    obtain ⟨_, _, W, _, _, _, h1⟩ := h1
    split at h1 <;> simp only [Option.some.injEq] at h1 <;> subst h1
    · exact hI.of_wv rfl
    · refine hI.of_wv ?_
      have := (collectWeeks_spec (W - (Weekly.USER_MAX_CLAIM_WEEKS + 1) + 1 - (s.lastCollect + 1))
        s.b s.undist (s.lastCollect + 1)).2.2.2.1
      show (⟨s.w.progress, s.w.users, s.userTotal, _, s.supply, s.epoch, s.firstWeekStart⟩ : WV) = _
      rw [this]; rfl
  case pause c =>
    simp only [noOut, Option.map_eq_some_iff, Prod.mk.injEq] at h
    obtain ⟨s1, h1, rfl, _⟩ := h
    simp only [setActive, Option.bind_eq_bind, Option.bind_eq_some_iff, Option.pure_def,
      Option.some.injEq] at h1
    obtain ⟨_, _, rfl⟩ := h1
    exact hI.of_wv rfl
  case resume c =>
    simp only [noOut, Option.map_eq_some_iff, Prod.mk.injEq] at h
    obtain ⟨s1, h1, rfl, _⟩ := h
    simp only [setActive, Option.bind_eq_bind, Option.bind_eq_some_iff, Option.pure_def,
      Option.some.injEq] at h1
    obtain ⟨_, _, rfl⟩ := h1
    exact hI.of_wv rfl
  case setPenalty c p =>
    simp only [noOut, Option.map_eq_some_iff, Prod.mk.injEq] at h
    obtain ⟨s1, h1, rfl, _⟩ := h
    simp only [setPenalty, Option.bind_eq_bind, Option.bind_eq_some_iff, Option.pure_def,
      Option.some.injEq] at h1
    obtain ⟨_, _, _, _, rfl⟩ := h1
    exact hI.of_wv rfl
  case setMinEpochs c n =>
    simp only [noOut, Option.map_eq_some_iff, Prod.mk.injEq] at h
    obtain ⟨s1, h1, rfl, _⟩ := h
    simp only [setMinEpochs, Option.bind_eq_bind, Option.bind_eq_some_iff, Option.pure_def,
      Option.some.injEq] at h1
    obtain ⟨_, _, _, _, rfl⟩ := h1
    exact hI.of_wv rfl
  case hubWhitelist u a =>
    split at h
    · cases h
    · simp only [Option.some.injEq, Prod.mk.injEq] at h; obtain ⟨rfl, _⟩ := h; exact hI.of_wv rfl
  case hubRemove u a =>
    split at h
    · simp only [Option.some.injEq, Prod.mk.injEq] at h; obtain ⟨rfl, _⟩ := h; exact hI.of_wv rfl
    · cases h
  case hubBlacklist a =>
    simp only [Option.some.injEq, Prod.mk.injEq] at h; obtain ⟨rfl, _⟩ := h; exact hI.of_wv rfl
  case scWhitelist a =>
    split at h
    · cases h
    · simp only [Option.some.injEq, Prod.mk.injEq] at h; obtain ⟨rfl, _⟩ := h; exact hI.of_wv rfl
  case scUnwhitelist a =>
    split at h
    · simp only [Option.some.injEq, Prod.mk.injEq] at h; obtain ⟨rfl, _⟩ := h; exact hI.of_wv rfl
    · cases h
  case advance b e =>
    split at h
    · rename_i hc
      simp only [Option.some.injEq, Prod.mk.injEq] at h; obtain ⟨rfl, _⟩ := h
      exact WV.Inv.advance hI (hP.usum_total_le hI.nodup) hc.2
    · cases h
  case bad => cases h

theorem run_weekPos (ops : List Op) {s : St} (hP : PosInv s) (hI : WeekPos s) : WeekPos (run s ops) := by
  induction ops generalizing s with
  | nil => exact hI
  | cons op rest ih =>
    simp only [run, List.foldl_cons]
    cases hs : step s op with
    | none => exact ih hP hI
    | some r =>
      have hs' : step s op = some (r.1, r.2) := hs
      exact ih (step_posInv hP hs') (step_weekPos hP hI hs')

/-- the week-position invariant in every reachable state of a world with distinct accounts -/
theorem reachable_weekPos (kind : Kind) (sameTok : Bool) (dsc perBlock : Nat) (produce : Bool)
    (users : List Nat) (e0 : Nat) (hnd : users.Nodup) (ops : List Op) :
    WeekPos (run (init kind sameTok dsc perBlock produce users e0) ops) :=
  run_weekPos ops (init_posInv kind sameTok dsc perBlock produce users e0 hnd)
    (init_weekPos kind sameTok dsc perBlock produce users e0)

end Mx.Farm
