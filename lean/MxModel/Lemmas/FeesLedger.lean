/-
  Fees collector: the per-week payment ledger never exceeds what was frozen for the week
  (`paid w t ≤ collected w t`), over all histories.

  Core of the argument (`L6rel`): for every week `w` and token `t`

      paid w t  +  Σ_{users u} ⌊collected w t · e_u(w) / E(w)⌋   ≤   collected w t

  where `e_u(w)` is the energy `u` can still be paid with for `w` (`eForP`).  A claim of week `w`
  by `u` moves at most `u`'s term from the sum into `paid`; freezing a week's total starts from
  `paid = 0` and is covered by the all-weeks energy bound (`EB`).  Inside `claim_multi` the
  claimer's entry is tracked "virtually" as the loop's advancing progress.
-/
import MxModel.Lemmas.FeesHist

namespace Mx.Fees

open Mx.Weekly

/-! ### arithmetic -/

theorem share_mono (c E : Nat) {e e' : Nat} (h : e ≤ e') : share c e E ≤ share c e' E := by
  unfold share
  exact Nat.div_le_div_right (Nat.mul_le_mul_left _ h)

@[simp] theorem share_zero_total (e E : Nat) : share 0 e E = 0 := by simp [share]
@[simp] theorem share_zero_energy (c E : Nat) : share c 0 E = 0 := by simp [share]
@[simp] theorem share_zero_den (c e : Nat) : share c e 0 = 0 := by simp [share]

/-- what one claimer gets in token `t` out of a frozen list whose entries are the ledger's
    `collected` amounts and whose tokens are distinct: at most the share of `collected t` -/
theorem amountOf_sharesOf_le (c : Tok → Nat) (e E : Nat) (t : Tok) :
    ∀ (lst : List (Tok × Nat)), (lst.map Prod.fst).Nodup → (∀ p ∈ lst, p.2 = c p.1) →
      amountOf t (sharesOf lst e E) ≤ share (c t) e E := by
  intro lst
  induction lst with
  | nil => intro _ _; simp [sharesOf]
  | cons p ps ih =>
    intro hnd hc
    simp only [List.map_cons, List.nodup_cons] at hnd
    have ih' := ih hnd.2 (fun q hq => hc q (List.mem_cons_of_mem _ hq))
    have hsplit : sharesOf (p :: ps) e E =
        (if share p.2 e E ≠ 0 then [(p.1, share p.2 e E)] else []) ++ sharesOf ps e E := by
      unfold sharesOf
      simp only [List.map_cons, List.filter_cons]
      by_cases hz : share p.2 e E ≠ 0 <;> simp [hz]
    rw [hsplit, amountOf_append]
    by_cases hpt : p.1 = t
    · -- the entry for t: nothing else in ps has token t
      have hnone : amountOf t (sharesOf ps e E) = 0 := by
        have hnot : ∀ q ∈ sharesOf ps e E, q.1 ≠ t := by
          intro q hq
          simp only [sharesOf, List.mem_filter, List.mem_map] at hq
          obtain ⟨⟨q', hq', rfl⟩, _⟩ := hq
          intro hqt
          apply hnd.1
          rw [hpt, ← hqt]
          exact List.mem_map.mpr ⟨q', hq', rfl⟩
        unfold amountOf
        have : (sharesOf ps e E).filter (fun p => p.1 = t) = [] := by
          apply List.filter_eq_nil_iff.mpr
          intro q hq; simp [hnot q hq]
        rw [this]; rfl
      rw [hnone, Nat.add_zero]
      have hp2 : p.2 = c t := by rw [← hpt]; exact hc p (List.mem_cons_self)
      rw [hp2, hpt]
      by_cases hz : share (c t) e E ≠ 0
      · simp [hz, amountOf_cons]
      · simp [hz]
    · have h0 : amountOf t (if share p.2 e E ≠ 0 then [(p.1, share p.2 e E)] else []) = 0 := by
        by_cases hz : share p.2 e E ≠ 0 <;> simp [hz, amountOf_cons, hpt]
      rw [h0, Nat.zero_add]
      exact ih'

/-! ### the ledger relation -/

/-- ledger relation w.r.t. a progress table, a user list and the weekly energy totals -/
def L6rel (prog : Nat → Option ClaimProgress) (users : List Nat) (E : Nat → Nat)
    (coll paid : Nat → Tok → Nat) : Prop :=
  ∀ w t, paid w t + usum users (fun u => share (coll w t) (eForP prog u w) (E w)) ≤ coll w t

/-- weakening: smaller claimable energies, totals unchanged or cleared — or nothing frozen -/
theorem L6rel.mono {prog prog' : Nat → Option ClaimProgress} {users : List Nat} {E E' : Nat → Nat}
    {coll paid : Nat → Tok → Nat} (h : L6rel prog users E coll paid)
    (hle : ∀ w, (∀ t, coll w t = 0) ∨
      ((E' w = E w ∨ E' w = 0) ∧ ∀ u ∈ users, eForP prog' u w ≤ eForP prog u w)) :
    L6rel prog' users E' coll paid := by
  intro w t
  have h0 := h w t
  rcases hle w with hz | ⟨hE, hu⟩
  · have hc := hz t
    rw [hc] at h0 ⊢
    have : usum users (fun u => share 0 (eForP prog' u w) (E' w)) = 0 :=
      usum_zero (fun _ _ => by simp)
    omega
  · rcases hE with hE | hE
    · rw [hE]
      have : usum users (fun u => share (coll w t) (eForP prog' u w) (E w)) ≤
          usum users (fun u => share (coll w t) (eForP prog u w) (E w)) :=
        usum_le (fun u hu' => share_mono _ _ (hu u hu'))
      omega
    · rw [hE]
      have : usum users (fun u => share (coll w t) (eForP prog' u w) 0) = 0 :=
        usum_zero (fun _ _ => by simp)
      omega

/-- a claim of week `wk` by `u0`: its term leaves the sum, at most that much enters `paid` -/
theorem L6rel.claim {prog prog' : Nat → Option ClaimProgress} {users : List Nat} {E : Nat → Nat}
    {coll paid paid' : Nat → Tok → Nat} {u0 wk : Nat} (h : L6rel prog users E coll paid)
    (hnd : users.Nodup) (hu0 : u0 ∈ users)
    (hoth : ∀ u, u ≠ u0 → ∀ w, eForP prog' u w = eForP prog u w)
    (hwk : eForP prog' u0 wk = 0) (hle : ∀ w, eForP prog' u0 w ≤ eForP prog u0 w)
    (hp1 : ∀ w t, w ≠ wk → paid' w t = paid w t)
    (hp2 : ∀ t, paid' wk t ≤ paid wk t + share (coll wk t) (eForP prog u0 wk) (E wk)) :
    L6rel prog' users E coll paid' := by
  intro w t
  have h0 := h w t
  by_cases hw : w = wk
  · subst hw
    have hup := usum_update hnd hu0
      (f := fun u => share (coll w t) (eForP prog u w) (E w))
      (g := fun u => share (coll w t) (eForP prog' u w) (E w))
      (fun u _ hne => by rw [hoth u hne w])
    simp only [hwk, share_zero_energy, Nat.add_zero] at hup
    have := hp2 t
    omega
  · rw [hp1 w t hw]
    have : usum users (fun u => share (coll w t) (eForP prog' u w) (E w)) ≤
        usum users (fun u => share (coll w t) (eForP prog u w) (E w)) :=
      usum_le (fun u _ => by
        by_cases hu : u = u0
        · subst hu; exact share_mono _ _ (hle w)
        · rw [hoth u hu w])
    omega

/-- freezing the total of week `wk` (nothing frozen, hence nothing paid, before) -/
theorem L6rel.collect {prog : Nat → Option ClaimProgress} {users : List Nat} {E : Nat → Nat}
    {coll coll' paid : Nat → Tok → Nat} {wk : Nat} (h : L6rel prog users E coll paid)
    (hoth : ∀ w t, w ≠ wk → coll' w t = coll w t) (hz : ∀ t, coll wk t = 0)
    (hE : E wk = 0 ∨ usum users (fun u => eForP prog u wk) ≤ E wk) :
    L6rel prog users E coll' paid := by
  intro w t
  by_cases hw : w = wk
  · subst hw
    have h0 := h w t
    rw [hz t] at h0
    have hp : paid w t = 0 := by omega
    rw [hp, Nat.zero_add]
    rcases hE with hE | hE
    · rw [hE]
      have : usum users (fun u => share (coll' w t) (eForP prog u w) 0) = 0 :=
        usum_zero (fun _ _ => by simp)
      omega
    · exact usum_share_le_total _ _ _ _ hE
  · rw [hoth w t hw]; exact h w t

/-- extending the user list by a user without claimable energy wherever something is frozen -/
theorem L6rel.append {prog : Nat → Option ClaimProgress} {users : List Nat} {E : Nat → Nat}
    {coll paid : Nat → Tok → Nat} {u0 : Nat} (h : L6rel prog users E coll paid)
    (hz : ∀ w, (∀ t, coll w t = 0) ∨ eForP prog u0 w = 0) :
    L6rel prog (users ++ [u0]) E coll paid := by
  intro w t
  rw [usum_append]
  have h0 := h w t
  have : usum [u0] (fun u => share (coll w t) (eForP prog u w) (E w)) = 0 := by
    simp only [usum_cons, usum_nil, Nat.add_zero]
    rcases hz w with hc | he
    · rw [hc t]; simp
    · rw [he]; simp
  omega

end Mx.Fees

namespace Mx.Fees

open Mx.Weekly

/-! ### claimable energy of a single entry, and advancing it -/

/-- energy a progress entry can still be paid with for week `w` -/
def entryE (p : ClaimProgress) (w : Nat) : Nat :=
  if p.week ≤ w then (p.energy.after (w - p.week)).getEnergyAmount else 0

theorem eForP_some {prog : Nat → Option ClaimProgress} {u : Nat} {p : ClaimProgress}
    (h : prog u = some p) (w : Nat) : eForP prog u w = entryE p w := by
  unfold eForP entryE; rw [h]

theorem eForP_none {prog : Nat → Option ClaimProgress} {u : Nat} (h : prog u = none) (w : Nat) :
    eForP prog u w = 0 := by
  unfold eForP; rw [h]

theorem eForP_upd_other (prog : Nat → Option ClaimProgress) (u0 : Nat) (o : Option ClaimProgress)
    {u : Nat} (h : u ≠ u0) (w : Nat) : eForP (upd prog u0 o) u w = eForP prog u w := by
  unfold eForP; rw [upd_other _ _ h]

theorem eForP_upd_same (prog : Nat → Option ClaimProgress) (u0 : Nat) (p : ClaimProgress) (w : Nat) :
    eForP (upd prog u0 (some p)) u0 w = entryE p w :=
  eForP_some (upd_same _ _ _) w

theorem entryE_self (p : ClaimProgress) : entryE p p.week = p.energy.getEnergyAmount := by
  simp [entryE]

theorem entryE_advanceWeek (p : ClaimProgress) (w : Nat) :
    entryE p.advanceWeek w = if p.week + 1 ≤ w then entryE p w else 0 := by
  rw [ClaimProgress.advanceWeek_eq]
  unfold entryE
  simp only
  by_cases h : p.week + 1 ≤ w
  · have h' : p.week ≤ w := by omega
    simp only [h, h', if_true, Energy.after_after]
    congr 2; omega
  · simp [h]

theorem entryE_advanceWeek_le (p : ClaimProgress) (w : Nat) : entryE p.advanceWeek w ≤ entryE p w := by
  rw [entryE_advanceWeek]; split <;> omega

theorem entryE_advanceWeek_self (p : ClaimProgress) : entryE p.advanceWeek p.week = 0 := by
  rw [entryE_advanceWeek]; simp

theorem entryE_advanceMultiple_le (p : ClaimProgress) (n w : Nat) :
    entryE (p.advanceMultipleWeeks n) w ≤ entryE p w := by
  rw [ClaimProgress.advanceMultipleWeeks_eq]
  unfold entryE
  simp only
  by_cases h : p.week + n ≤ w
  · have h' : p.week ≤ w := by omega
    simp only [h, h', if_true, Energy.after_after]
    have : n + (w - (p.week + n)) = w - p.week := by omega
    rw [this]
  · simp [h]

theorem entryE_loopStart_le (p : ClaimProgress) (W w : Nat) : entryE (loopStart p W) w ≤ entryE p w := by
  unfold loopStart
  split
  · exact entryE_advanceMultiple_le _ _ _
  · exact Nat.le_refl _

theorem entryE_lt (p : ClaimProgress) {w : Nat} (h : w < p.week) : entryE p w = 0 := by
  unfold entryE
  have : ¬ (p.week ≤ w) := by omega
  simp [this]

/-! ### more detail on the reward hook when it pays -/

theorem feesRewards_detail {g g' : Weekly.St} {a a' : Acc} {week e E : Nat} {r : List (Tok × Nat)}
    (h : feesRewards g a week e E = some (g', a', r)) (he : e ≠ 0) (hE : E ≠ 0) :
    (∀ t, a'.collected week t =
      if (g.totalRewards week).isEmpty ∧ t ∈ a.allTokens then
        a.collected week t + a.accumulated week t else a.collected week t) ∧
    ((g.totalRewards week).isEmpty → g'.totalRewards week = a.allTokens.filterMap fun t =>
      if a.accumulated week t ≠ 0 then some (t, a.accumulated week t) else none) := by
  simp only [feesRewards, Option.map_eq_some_iff, Prod.mk.injEq] at h
  obtain ⟨⟨g1, a1, r1⟩, h1, rfl, rfl, rfl⟩ := h
  unfold defaultRewards at h1
  have hz : ¬ (e = 0 ∨ E = 0) := fun h => h.elim he hE
  simp only [hz, if_false, Option.some.injEq, Prod.mk.injEq] at h1
  obtain ⟨rfl, rfl, rfl⟩ := h1
  unfold collectAndGet
  by_cases hemp : (g.totalRewards week).isEmpty
  · simp only [hemp, if_true, true_and]
    constructor
    · intro t; simp [collectFees]
    · intro _; simp [collectFees]
  · simp only [hemp, Bool.false_eq_true, if_false, false_and]
    exact ⟨fun _ => trivial, fun h => absurd h (by simp)⟩

/-- the collected list has the known tokens as keys: distinct, amounts non-zero -/
theorem collected_list (toks : List Tok) (f : Tok → Nat) (hnd : toks.Nodup) :
    ((toks.filterMap fun t => if f t ≠ 0 then some (t, f t) else none).map Prod.fst).Nodup ∧
    ∀ p ∈ (toks.filterMap fun t => if f t ≠ 0 then some (t, f t) else none),
      p.1 ∈ toks ∧ p.2 = f p.1 ∧ f p.1 ≠ 0 := by
  induction toks with
  | nil => simp
  | cons t ts ih =>
    have hnd' := List.nodup_cons.mp hnd
    obtain ⟨ih1, ih2⟩ := ih hnd'.2
    by_cases hf : f t ≠ 0
    · have e : (fun t => if f t ≠ 0 then some (t, f t) else none) t = some (t, f t) := if_pos hf
      rw [List.filterMap_cons_some (f := fun t => if f t ≠ 0 then some (t, f t) else none) (a := t) (l := ts) e]
      simp only [List.map_cons, List.nodup_cons, List.mem_cons]
      refine ⟨⟨?_, ih1⟩, ?_⟩
      · intro hm
        obtain ⟨q, hq, hqt⟩ := List.mem_map.mp hm
        have := (ih2 q hq).1
        rw [hqt] at this
        exact hnd'.1 this
      · intro p hp
        rcases hp with rfl | hp
        · exact ⟨Or.inl rfl, rfl, hf⟩
        · obtain ⟨h1, h2, h3⟩ := ih2 p hp
          exact ⟨Or.inr h1, h2, h3⟩
    · have e : (fun t => if f t ≠ 0 then some (t, f t) else none) t = none := if_neg hf
      rw [List.filterMap_cons_none (f := fun t => if f t ≠ 0 then some (t, f t) else none) (a := t) (l := ts) e]
      refine ⟨ih1, ?_⟩
      intro p hp
      obtain ⟨h1, h2, h3⟩ := ih2 p hp
      exact ⟨List.mem_cons_of_mem _ h1, h2, h3⟩

theorem collected_list_nil (toks : List Tok) (f : Tok → Nat)
    (h : (toks.filterMap fun t => if f t ≠ 0 then some (t, f t) else none) = []) :
    ∀ t ∈ toks, f t = 0 := by
  induction toks with
  | nil => simp
  | cons t ts ih =>
    by_cases hf : f t ≠ 0
    · have e : (fun t => if f t ≠ 0 then some (t, f t) else none) t = some (t, f t) := if_pos hf
      rw [List.filterMap_cons_some (f := fun t => if f t ≠ 0 then some (t, f t) else none) (a := t) (l := ts) e] at h
      cases h
    · have e : (fun t => if f t ≠ 0 then some (t, f t) else none) t = none := if_neg hf
      rw [List.filterMap_cons_none (f := fun t => if f t ≠ 0 then some (t, f t) else none) (a := t) (l := ts) e] at h
      intro x hx
      rcases List.mem_cons.mp hx with rfl | hx
      · omega
      · exact ih h x hx

end Mx.Fees

namespace Mx.Fees

open Mx.Weekly

theorem L6rel.congr_coll {prog : Nat → Option ClaimProgress} {users : List Nat} {E : Nat → Nat}
    {coll coll' paid : Nat → Tok → Nat} (h : L6rel prog users E coll paid)
    (he : ∀ w t, coll' w t = coll w t) : L6rel prog users E coll' paid := by
  intro w t; rw [he w t]; exact h w t

/-- invariant of the claim loop; the claimer's entry is the loop's advancing progress -/
structure LoopInv (prog : Nat → Option ClaimProgress) (users : List Nat) (E : Nat → Nat)
    (u0 W : Nat) (a : ClaimAcc Acc) : Prop where
  tokNodup : a.c.allTokens.Nodup
  fresh : ∀ w, W ≤ w → (∀ t, a.c.collected w t = 0 ∧ a.c.paid w t = 0) ∧ a.g.totalRewards w = []
  frozen : ∀ w p, p ∈ a.g.totalRewards w → p.2 = a.c.collected w p.1
  frozenNodup : ∀ w, ((a.g.totalRewards w).map Prod.fst).Nodup
  unfrozen : ∀ w, W ≤ w + 4 → a.g.totalRewards w = [] → ∀ t, a.c.collected w t = 0
  ledger : L6rel (upd prog u0 (some a.p)) users E a.c.collected a.c.paid
  eb : ∀ w, w < W → E w = 0 ∨ usum users (fun u => eForP (upd prog u0 (some a.p)) u w) ≤ E w
  energy : a.g.totalEnergy = E

theorem claimSingle_LoopInv {prog : Nat → Option ClaimProgress} {users : List Nat} {E : Nat → Nat}
    {u0 W : Nat} {a a' : ClaimAcc Acc} (hnd : users.Nodup) (hu0 : u0 ∈ users)
    (hI : LoopInv prog users E u0 W a) (hlo : W ≤ a.p.week + 4) (hhi : a.p.week < W)
    (h : claimSingle feesRewards a = some a') : LoopInv prog users E u0 W a' := by
  obtain ⟨r, hr, hp, _⟩ := claimSingle_spec h
  have hfr := feesRewards_frame _ _ _ _ _ _ _ _ hr
  have hEn : a'.g.totalEnergy = E := by rw [hfr.totalEnergy]; exact hI.energy
  -- the virtual tables before / after the step
  have hoth : ∀ u, u ≠ u0 → ∀ w, eForP (upd prog u0 (some a'.p)) u w =
      eForP (upd prog u0 (some a.p)) u w := by
    intro u hu w; rw [eForP_upd_other _ _ _ hu, eForP_upd_other _ _ _ hu]
  have hle0 : ∀ w, eForP (upd prog u0 (some a'.p)) u0 w ≤ eForP (upd prog u0 (some a.p)) u0 w := by
    intro w; rw [eForP_upd_same, eForP_upd_same, hp]; exact entryE_advanceWeek_le _ _
  have hwk0 : eForP (upd prog u0 (some a'.p)) u0 a.p.week = 0 := by
    rw [eForP_upd_same, hp]; exact entryE_advanceWeek_self _
  have heq0 : eForP (upd prog u0 (some a.p)) u0 a.p.week = a.p.energy.getEnergyAmount := by
    rw [eForP_upd_same]; exact entryE_self _
  have hleAll : ∀ w u, eForP (upd prog u0 (some a'.p)) u w ≤ eForP (upd prog u0 (some a.p)) u w := by
    intro w u
    by_cases hu : u = u0
    · subst hu; exact hle0 w
    · rw [hoth u hu w]
  have heb' : ∀ w, w < W → E w = 0 ∨
      usum users (fun u => eForP (upd prog u0 (some a'.p)) u w) ≤ E w := by
    intro w hw
    rcases hI.eb w hw with hz | hb
    · exact Or.inl hz
    · exact Or.inr (Nat.le_trans (usum_le (fun u _ => hleAll w u)) hb)
  rcases feesRewards_spec hr with ⟨_, hg, hc, _⟩ | ⟨he, hE, hrr, hrewO, hrewW, htoks, hpaid, hothA, _⟩
  · -- nothing paid, nothing frozen
    refine ⟨by rw [hc]; exact hI.tokNodup, by rw [hc, hg]; exact hI.fresh,
      by rw [hc, hg]; exact hI.frozen, by rw [hg]; exact hI.frozenNodup,
      by rw [hc, hg]; exact hI.unfrozen, ?_, heb', hEn⟩
    rw [hc]
    exact hI.ledger.mono (fun w => Or.inr ⟨Or.inl rfl, fun u _ => hleAll w u⟩)
  · obtain ⟨hcoll, hlist⟩ := feesRewards_detail hr he hE
    have hEwk : a.g.totalEnergy a.p.week = E a.p.week := by rw [hI.energy]
    -- the frozen list of the claimed week after the step, and the collected amounts
    have hfrozen' : ∀ w p, p ∈ a'.g.totalRewards w → p.2 = a'.c.collected w p.1 := by
      intro w p hpm
      by_cases hw : w = a.p.week
      · subst hw
        by_cases hemp : (a.g.totalRewards a.p.week).isEmpty
        · rw [hlist hemp] at hpm
          obtain ⟨h1, h2, _⟩ := (collected_list _ _ hI.tokNodup).2 p hpm
          have hz := hI.unfrozen a.p.week hlo (List.isEmpty_iff.mp hemp) p.1
          rw [hcoll p.1]
          simp only [hemp, h1, and_self, if_true, hz, Nat.zero_add]
          exact h2
        · rw [hrewW] at hpm
          simp only [hemp, Bool.false_eq_true, if_false] at hpm
          rw [hcoll p.1]
          simp only [hemp, Bool.false_eq_true, false_and, if_false]
          exact hI.frozen _ p hpm
      · rw [hrewO w hw] at hpm
        rw [(hothA w p.1 hw).2]
        exact hI.frozen w p hpm
    have hnodup' : ∀ w, ((a'.g.totalRewards w).map Prod.fst).Nodup := by
      intro w
      by_cases hw : w = a.p.week
      · subst hw
        by_cases hemp : (a.g.totalRewards a.p.week).isEmpty
        · rw [hlist hemp]; exact (collected_list _ _ hI.tokNodup).1
        · rw [hrewW]; simp only [hemp, Bool.false_eq_true, if_false]; exact hI.frozenNodup _
      · rw [hrewO w hw]; exact hI.frozenNodup w
    refine ⟨by rw [htoks]; exact hI.tokNodup, ?_, hfrozen', hnodup', ?_, ?_, heb', hEn⟩
    · -- fresh
      intro w hw
      have hne : w ≠ a.p.week := by omega
      obtain ⟨f1, f2⟩ := hI.fresh w hw
      refine ⟨fun t => ?_, by rw [hrewO w hne]; exact f2⟩
      rw [(hothA w t hne).2, hpaid w t]
      simp only [hne, if_false, Nat.add_zero]
      exact f1 t
    · -- unfrozen
      intro w hw hnil t
      by_cases hwk : w = a.p.week
      · subst hwk
        by_cases hemp : (a.g.totalRewards a.p.week).isEmpty
        · rw [hlist hemp] at hnil
          have hz := hI.unfrozen a.p.week hlo (List.isEmpty_iff.mp hemp) t
          rw [hcoll t]
          by_cases ht : t ∈ a.c.allTokens
          · have := collected_list_nil _ _ hnil t ht
            simp [hemp, ht, hz, this]
          · simp [ht, hz]
        · rw [hrewW] at hnil
          simp only [hemp, Bool.false_eq_true, if_false] at hnil
          exact absurd (List.isEmpty_iff.mpr hnil) hemp
      · rw [hrewO w hwk] at hnil
        rw [(hothA w t hwk).2]
        exact hI.unfrozen w hw hnil t
    · -- ledger: (freeze,) then pay
      have hL1 : L6rel (upd prog u0 (some a.p)) users E a'.c.collected a.c.paid := by
        by_cases hemp : (a.g.totalRewards a.p.week).isEmpty
        · exact hI.ledger.collect (wk := a.p.week) (fun w t hw => (hothA w t hw).2)
            (hI.unfrozen a.p.week hlo (List.isEmpty_iff.mp hemp)) (hI.eb a.p.week hhi)
        · refine hI.ledger.congr_coll (fun w t => ?_)
          by_cases hw : w = a.p.week
          · subst hw; rw [hcoll t]; simp [hemp]
          · exact (hothA w t hw).2
      refine hL1.claim hnd hu0 hoth hwk0 hle0 (fun w t hw => by rw [hpaid w t]; simp [hw]) ?_
      intro t
      rw [hpaid a.p.week t, heq0, ← hEwk]
      simp only [if_true]
      have := amountOf_sharesOf_le (fun t => a'.c.collected a.p.week t)
        a.p.energy.getEnergyAmount (a.g.totalEnergy a.p.week) t (a'.g.totalRewards a.p.week)
        (hnodup' _) (fun p hpm => hfrozen' _ p hpm)
      rw [← hrr] at this
      omega

theorem claimLoop_LoopInv {prog : Nat → Option ClaimProgress} {users : List Nat} {E : Nat → Nat}
    {u0 W : Nat} (hnd : users.Nodup) :
    ∀ (n : Nat) {a a' : ClaimAcc Acc}, (0 < n → u0 ∈ users) → LoopInv prog users E u0 W a →
      W ≤ a.p.week + 4 → a.p.week + n = W → claimLoop feesRewards n a = some a' →
      LoopInv prog users E u0 W a' ∧ a'.p.week = W := by
  intro n
  induction n with
  | zero =>
    intro a a' _ hI _ hw h
    simp only [claimLoop, Option.some.injEq] at h
    subst h
    exact ⟨hI, by omega⟩
  | succ n ih =>
    intro a a' hu hI hlo hw h
    simp only [claimLoop, Option.bind_eq_some_iff] at h
    obtain ⟨a1, h1, h2⟩ := h
    have hu0 := hu (Nat.succ_pos n)
    have hI1 := claimSingle_LoopInv hnd hu0 hI hlo (by omega) h1
    obtain ⟨_, _, hp, _⟩ := claimSingle_spec h1
    have hw1 : a1.p.week = a.p.week + 1 := by rw [hp]; rfl
    exact ih (fun _ => hu0) hI1 (by omega) (by omega) h2

end Mx.Fees

namespace Mx.Fees

open Mx.Weekly

/-! ### frames of the global update on `totalRewards` -/

theorem shiftN_totalRewards : ∀ (n : Nat) {g g' : Weekly.St} {t t' : Totals},
    shiftN n g t = some (g', t') → g'.totalRewards = g.totalRewards := by
  intro n
  induction n with
  | zero =>
    intro g g' t t' h
    simp only [shiftN, Option.some.injEq, Prod.mk.injEq] at h
    obtain ⟨rfl, _⟩ := h; rfl
  | succ n ih =>
    intro g g' t t' h
    simp only [shiftN, Option.bind_eq_some_iff] at h
    obtain ⟨⟨g1, t1⟩, h1, h2⟩ := h
    have e1 := ih h2
    simp only [shiftOnce, Option.bind_eq_bind, Option.bind_eq_some_iff, sub?_eq_some,
      Option.pure_def, Option.some.injEq, Prod.mk.injEq] at h1
    obtain ⟨_, _, rfl, _⟩ := h1
    exact e1

/-- the weekly update only ever CLEARS one old week's frozen rewards (week `W − 5`) -/
theorem performWeeklyUpdate_rewards_frame {g g1 : Weekly.St} {W : Nat}
    (h : performWeeklyUpdate g W = some g1) :
    ∀ w, (W ≤ w + 4 → g1.totalRewards w = g.totalRewards w) ∧
      (g1.totalRewards w = g.totalRewards w ∨ g1.totalRewards w = []) := by
  intro w
  unfold performWeeklyUpdate at h
  split at h
  · simp only [Option.some.injEq] at h; subst h; exact ⟨fun _ => rfl, Or.inl rfl⟩
  split at h
  · simp only [Option.some.injEq] at h; subst h; exact ⟨fun _ => rfl, Or.inl rfl⟩
  · simp only [Option.bind_eq_bind, Option.bind_eq_some_iff, req_eq_some] at h
    obtain ⟨_, _, ⟨g2, t2⟩, hs, h⟩ := h
    have e := shiftN_totalRewards _ hs
    simp only at e
    split at h
    · rename_i hbig
      simp only [Option.pure_def, Option.some.injEq] at h
      subst h
      simp only [USER_MAX_CLAIM_WEEKS] at hbig ⊢
      by_cases h5 : w = W - 4 - 1
      · refine ⟨fun hw => by omega, Or.inr (by simp [h5])⟩
      · simp only [upd_other _ _ h5, e]
        exact ⟨fun _ => trivial, Or.inl trivial⟩
    · simp only [Option.pure_def, Option.some.injEq] at h
      subst h
      simp only [e]
      exact ⟨fun _ => trivial, Or.inl trivial⟩

theorem updateGlobal_rewards_frame {g g' : Weekly.St} {W la : Nat} {prev cur : Energy}
    (h : updateGlobal g W la prev cur = some g') :
    ∀ w, (W ≤ w + 4 → g'.totalRewards w = g.totalRewards w) ∧
      (g'.totalRewards w = g.totalRewards w ∨ g'.totalRewards w = []) := by
  simp only [updateGlobal, Option.bind_eq_bind, Option.bind_eq_some_iff, req_eq_some] at h
  obtain ⟨g1, h1, _, _, ⟨g2, bp⟩, hre, g3, htk, hen⟩ := h
  dsimp only at htk hen
  intro w
  have e1 := (updateTotalEnergy_spec hen).2.2.2.2.2.1
  have e2 := (updateTotalTokens_spec htk).2.2.2.2.2.1
  have e3 := (reallocate_spec hre).2.2.1.totalRewards
  rw [e1, e2, e3]
  exact performWeeklyUpdate_rewards_frame h1 w

/-! ### the ledger invariant of the world -/

structure LInv (s : St) : Prop where
  tokNodup : s.a.allTokens.Nodup
  fresh : ∀ w, curWeek s ≤ w →
    (∀ t, s.a.collected w t = 0 ∧ s.a.paid w t = 0) ∧ s.w.totalRewards w = []
  frozen : ∀ w p, p ∈ s.w.totalRewards w → p.2 = s.a.collected w p.1
  frozenNodup : ∀ w, ((s.w.totalRewards w).map Prod.fst).Nodup
  unfrozen : ∀ w, curWeek s ≤ w + 4 → s.w.totalRewards w = [] → ∀ t, s.a.collected w t = 0
  ledger : L6rel s.w.progress s.w.users s.w.totalEnergy s.a.collected s.a.paid

/-- the ledger relation after the global part of a user touch: totals of completed weeks are
    unchanged or cleared, and the toucher's entry is replaced by anything that claims no more
    than before for completed weeks -/
theorem ledger_after_update {prog : Nat → Option ClaimProgress} {users : List Nat}
    {E E' : Nat → Nat} {coll paid : Nat → Tok → Nat} {u0 W : Nat} {o' : Option ClaimProgress}
    (h : L6rel prog users E coll paid) (hfresh : ∀ w, W ≤ w → ∀ t, coll w t = 0)
    (hE : ∀ w, w ≠ W → E' w = E w ∨ E' w = 0)
    (ho : ∀ w, w < W → eForP (upd prog u0 o') u0 w ≤ eForP prog u0 w) :
    L6rel (upd prog u0 o') users E' coll paid := by
  refine h.mono (fun w => ?_)
  by_cases hw : W ≤ w
  · exact Or.inl (hfresh w hw)
  · refine Or.inr ⟨hE w (by omega), fun u _ => ?_⟩
    by_cases hu : u = u0
    · subst hu; exact ho w (by omega)
    · rw [eForP_upd_other _ _ _ hu]

/-- … and after the final write of the toucher's new entry (week `W`, or none) -/
theorem ledger_finish {prog : Nat → Option ClaimProgress} {users : List Nat} {E : Nat → Nat}
    {coll paid : Nat → Tok → Nat} {u0 W : Nat} {o1 new : Option ClaimProgress}
    (h : L6rel (upd prog u0 o1) users E coll paid) (hfresh : ∀ w, W ≤ w → ∀ t, coll w t = 0)
    (hnew : ∀ w, w < W → eForP (upd prog u0 new) u0 w = 0) :
    L6rel (upd prog u0 new) (usersAfter users u0 new) E coll paid := by
  have h1 : L6rel (upd prog u0 new) users E coll paid := by
    refine h.mono (fun w => ?_)
    by_cases hw : W ≤ w
    · exact Or.inl (hfresh w hw)
    · refine Or.inr ⟨Or.inl rfl, fun u _ => ?_⟩
      by_cases hu : u = u0
      · subst hu; rw [hnew w (by omega)]; exact Nat.zero_le _
      · rw [eForP_upd_other _ _ _ hu, eForP_upd_other _ _ _ hu]
  unfold usersAfter
  split
  · refine h1.append (fun w => ?_)
    by_cases hw : W ≤ w
    · exact Or.inl (hfresh w hw)
    · exact Or.inr (hnew w (by omega))
  · exact h1

theorem eForP_newOf (prog : Nat → Option ClaimProgress) (u0 : Nat) (cur : Energy) {W w : Nat}
    (hw : w < W) : eForP (upd prog u0 (newOf cur W)) u0 w = 0 := by
  unfold newOf
  split
  · rw [eForP_upd_same]; exact entryE_lt _ hw
  · exact eForP_none (upd_same _ _ _) w

end Mx.Fees

namespace Mx.Fees

open Mx.Weekly

theorem addTok_nodup {l : List Tok} (h : l.Nodup) (t : Tok) : (addTok l t).Nodup := by
  unfold addTok
  split
  · exact h
  · rename_i hn
    exact List.nodup_append.mpr ⟨h, List.nodup_cons.mpr ⟨by simp, List.nodup_nil⟩, by
      intro a ha b hb; simp only [List.mem_singleton] at hb; subst hb
      rintro rfl; exact hn ha⟩

theorem foldl_addTok_nodup (known : List Tok) : ∀ {l : List Tok}, l.Nodup →
    (known.foldl addTok l).Nodup := by
  induction known with
  | nil => intro l h; exact h
  | cons t ts ih => intro l h; exact ih (addTok_nodup h t)

theorem init_LInv (epoch lockEpochs : Nat) (known : List Tok) (contracts whitelist : List Nat) :
    LInv (init epoch lockEpochs known contracts whitelist) := by
  refine ⟨foldl_addTok_nodup known (List.nodup_cons.mpr ⟨by simp, List.nodup_nil⟩),
    fun w _ => ⟨fun t => ⟨rfl, rfl⟩, rfl⟩, ?_, fun w => List.nodup_nil,
    fun _ _ _ _ => rfl, ?_⟩
  · intro w p hp
    exact absurd hp (by simp [init, Weekly.St.init])
  intro w t
  show 0 + usum [] _ ≤ 0
  simp

/-- the stored progress entry of `u0` bounds what the claim loop's start entry can claim -/
theorem eForP_loopStart_le (prog : Nat → Option ClaimProgress) (u0 : Nat) (cur : Energy) {W w : Nat}
    (hw : w < W) :
    eForP (upd prog u0 (some (loopStart (startProgress (prog u0) cur W) W))) u0 w ≤ eForP prog u0 w := by
  rw [eForP_upd_same]
  cases hst : prog u0 with
  | none =>
    simp only [startProgress]
    have : entryE (loopStart ⟨cur, W⟩ W) w ≤ entryE ⟨cur, W⟩ w := entryE_loopStart_le _ _ _
    rw [entryE_lt ⟨cur, W⟩ hw] at this
    omega
  | some p =>
    simp only [startProgress]
    rw [eForP_some hst]
    exact entryE_loopStart_le _ _ _

theorem GInv_mem_users {g : Weekly.St} (hI : GInv g) {u : Nat} (h : g.progress u ≠ none) :
    u ∈ g.users ∧ g.users.Nodup := by
  rcases hI with hp | ⟨o, hr⟩
  · exact absurd (hp.noProgress u) h
  · exact ⟨hr.p.mem u h, hr.p.nodup⟩

theorem GInv_nodup {g : Weekly.St} (hI : GInv g) : g.users.Nodup := by
  rcases hI with hp | ⟨o, hr⟩
  · rw [hp.noUsers]; exact List.nodup_nil
  · exact hr.p.nodup

/-- **a claim keeps the ledger invariant** -/
theorem claimCore_LInv {s s' : St} {orig : Nat} {o : Out} (hW : WInv s.w) (hL : LInv s)
    (h : claimCore s orig = some (s', o)) : LInv s' := by
  obtain ⟨W, r, hWk, hc, hep, hfw, _⟩ := claimCore_spec h
  obtain ⟨hWc, _⟩ := week_some hWk
  have hcw : curWeek s' = W := by unfold curWeek; rw [hfw, hep]; exact hWc.symm
  have hcw0 : curWeek s = W := hWc.symm
  -- the accumulator after `accumulate_additional_locked_tokens`: only `accumulated` differs
  have ha0 : (accumulateAdditional s W).a.collected = s.a.collected ∧
      (accumulateAdditional s W).a.paid = s.a.paid ∧
      (accumulateAdditional s W).a.allTokens = s.a.allTokens := by
    unfold accumulateAdditional; split <;> exact ⟨rfl, rfl, rfl⟩
  obtain ⟨g1, a, h1, hle, ha, hg', hca, _⟩ := claimMulti_spec hc
  obtain ⟨hw1, hw2, _⟩ := loop_window _ W hle
  have hfrE := updateGlobal_energy_frame (by rw [← updateUserEnergyForCurrentWeek_eq]; exact h1)
  have hfrR := updateGlobal_rewards_frame (by rw [← updateUserEnergyForCurrentWeek_eq]; exact h1)
  obtain ⟨_, _, hprog1, husers1⟩ := updateUser_GRel (weekOf_pos hWk) hW.1 h1
  have hfresh : ∀ w, W ≤ w → ∀ t, s.a.collected w t = 0 :=
    fun w hw t => ((hL.fresh w (by rw [hcw0]; exact hw)).1 t).1
  -- loop invariant at the start of the loop
  have hstart : LoopInv s.w.progress s.w.users g1.totalEnergy orig W
      ⟨g1, (accumulateAdditional s W).a,
        loopStart (startProgress (s.w.progress orig) (Energy.queried (s.energy orig) s.epoch) W) W, []⟩ := by
    refine ⟨by rw [ha0.2.2]; exact hL.tokNodup, ?_, ?_, ?_, ?_, ?_, ?_, rfl⟩
    · intro w hw
      obtain ⟨f1, f2⟩ := hL.fresh w (by rw [hcw0]; exact hw)
      refine ⟨fun t => by rw [ha0.1, ha0.2.1]; exact f1 t, ?_⟩
      rcases (hfrR w).2 with e | e
      · rw [e]; exact f2
      · exact e
    · intro w p hp
      rw [ha0.1]
      rcases (hfrR w).2 with e | e
      · rw [e] at hp; exact hL.frozen w p hp
      · rw [e] at hp; cases hp
    · intro w
      rcases (hfrR w).2 with e | e
      · rw [e]; exact hL.frozenNodup w
      · rw [e]; exact List.nodup_nil
    · intro w hw hnil t
      rw [ha0.1]
      rw [(hfrR w).1 hw] at hnil
      exact hL.unfrozen w (by rw [hcw0]; exact hw) hnil t
    · rw [ha0.1, ha0.2.1]
      exact ledger_after_update hL.ledger hfresh hfrE
        (fun w hw => eForP_loopStart_le _ _ _ hw)
    · intro w hw
      rcases hfrE w (by omega) with e | e
      · rcases hW.2 w with hz | hb
        · left; rw [e]; exact hz
        · right
          rw [e]
          refine Nat.le_trans (usum_le (fun u _ => ?_)) hb
          by_cases hu : u = orig
          · subst hu; exact eForP_loopStart_le _ _ _ hw
          · rw [eForP_upd_other _ _ _ hu]
      · exact Or.inl e
  have hmem : 0 < loopLen (startProgress (s.w.progress orig)
      (Energy.queried (s.energy orig) s.epoch) W) W → orig ∈ s.w.users := by
    intro hpos
    apply (GInv_mem_users hW.1 (u := orig) ?_).1
    intro hnone
    rw [hnone] at hpos
    simp [loopLen, startProgress] at hpos
  obtain ⟨hend, hweek⟩ := claimLoop_LoopInv (GInv_nodup hW.1) _ hmem hstart (by dsimp only; omega)
    (by dsimp only; omega) ha
  -- frames of the loop on the module state
  obtain ⟨fr, _⟩ := claimLoop_frame feesRewards_frame _ ha
  simp only at fr
  have hsw : s'.w = setProgress a.g orig (newOf (Energy.queried (s.energy orig) s.epoch) W) := hg'
  have hsa : s'.a = a.c := hca
  have hfresh' : ∀ w, W ≤ w → ∀ t, a.c.collected w t = 0 := fun w hw t => ((hend.fresh w hw).1 t).1
  refine ⟨by rw [hsa]; exact hend.tokNodup, ?_, ?_, ?_, ?_, ?_⟩
  · intro w hw
    rw [hcw] at hw
    rw [hsa, hsw]
    exact hend.fresh w hw
  · intro w p hp
    rw [hsw] at hp
    rw [hsa]
    exact hend.frozen w p hp
  · intro w; rw [hsw]; exact hend.frozenNodup w
  · intro w hw hnil t
    rw [hcw] at hw
    rw [hsw] at hnil
    rw [hsa]
    exact hend.unfrozen w hw hnil t
  · rw [hsa, hsw]
    show L6rel (upd a.g.progress orig _) (usersAfter a.g.users orig _) a.g.totalEnergy _ _
    rw [fr.progress, hprog1, fr.users, husers1, hend.energy]
    exact ledger_finish hend.ledger hfresh' (fun w hw => eForP_newOf _ _ _ hw)

end Mx.Fees

namespace Mx.Fees

open Mx.Weekly

theorem updateEnergyAndProgress_LInv {s : St} {g' : Weekly.St} {user W : Nat} {cur : Energy}
    (hWk : s.week = some W) (hW : WInv s.w) (hL : LInv s)
    (h : updateEnergyAndProgress s.w user W cur = some g') : LInv { s with w := g' } := by
  obtain ⟨hWc, _⟩ := week_some hWk
  have hcw0 : curWeek s = W := hWc.symm
  simp only [updateEnergyAndProgress, Option.bind_eq_bind, Option.bind_eq_some_iff, Option.pure_def,
    Option.some.injEq] at h
  obtain ⟨g1, h1, hg'⟩ := h
  have hg : g' = setProgress g1 user (newOf cur W) := hg'.symm
  have hfrE := updateGlobal_energy_frame (by rw [← updateUserEnergyForCurrentWeek_eq]; exact h1)
  have hfrR := updateGlobal_rewards_frame (by rw [← updateUserEnergyForCurrentWeek_eq]; exact h1)
  obtain ⟨_, _, hprog1, husers1⟩ := updateUser_GRel (weekOf_pos hWk) hW.1 h1
  have hfresh : ∀ w, W ≤ w → ∀ t, s.a.collected w t = 0 :=
    fun w hw t => ((hL.fresh w (by rw [hcw0]; exact hw)).1 t).1
  have hcw : curWeek { s with w := g' } = curWeek s := rfl
  refine ⟨hL.tokNodup, ?_, ?_, ?_, ?_, ?_⟩
  · intro w hw
    rw [hcw] at hw
    obtain ⟨f1, f2⟩ := hL.fresh w hw
    refine ⟨f1, ?_⟩
    show g'.totalRewards w = []
    rw [hg]
    show g1.totalRewards w = []
    rcases (hfrR w).2 with e | e
    · rw [e]; exact f2
    · exact e
  · intro w p hp
    have hp' : p ∈ g1.totalRewards w := by rw [hg] at hp; exact hp
    rcases (hfrR w).2 with e | e
    · rw [e] at hp'; exact hL.frozen w p hp'
    · rw [e] at hp'; cases hp'
  · intro w
    show ((g'.totalRewards w).map Prod.fst).Nodup
    rw [hg]
    show ((g1.totalRewards w).map Prod.fst).Nodup
    rcases (hfrR w).2 with e | e
    · rw [e]; exact hL.frozenNodup w
    · rw [e]; exact List.nodup_nil
  · intro w hw hnil t
    rw [hcw, hcw0] at hw
    have hnil' : g1.totalRewards w = [] := by rw [hg] at hnil; exact hnil
    rw [(hfrR w).1 hw] at hnil'
    exact hL.unfrozen w (by rw [hcw0]; exact hw) hnil' t
  · show L6rel g'.progress g'.users g'.totalEnergy s.a.collected s.a.paid
    rw [hg]
    show L6rel (upd g1.progress user _) (usersAfter g1.users user _) g1.totalEnergy _ _
    rw [hprog1, husers1]
    have hmid := ledger_after_update (u0 := user) (o' := newOf cur W) hL.ledger hfresh hfrE
      (fun w hw => by rw [eForP_newOf _ _ _ hw]; exact Nat.zero_le _)
    exact ledger_finish hmid hfresh (fun w hw => eForP_newOf _ _ _ hw)

theorem accumulateAdditional_LInv {s : St} (W : Nat) (hL : LInv s) :
    LInv (accumulateAdditional s W) := by
  unfold accumulateAdditional
  split
  · exact hL
  · exact ⟨hL.tokNodup, hL.fresh, hL.frozen, hL.frozenNodup, hL.unfrozen, hL.ledger⟩

theorem curWeek_advance (s : St) (n : Nat) (h : s.firstWeek ≤ s.epoch) :
    curWeek s ≤ curWeek { s with epoch := s.epoch + n } := by
  unfold curWeek
  simp only [EPOCHS_IN_WEEK]
  have : (s.epoch - s.firstWeek) / 7 ≤ (s.epoch + n - s.firstWeek) / 7 :=
    Nat.div_le_div_right (by omega)
  omega

theorem step_LInv {s s' : St} {op : Op} {o : Out} (hW : WInv s.w) (hB : BalInv s) (hL : LInv s)
    (h : step s op = some (s', o)) : LInv s' := by
  cases op with
  | deposit c tok n amt =>
    simp only [step, deposit, Option.bind_eq_bind, Option.bind_eq_some_iff, req_eq_some,
      Option.pure_def, Option.some.injEq, Prod.mk.injEq] at h
    obtain ⟨_, _, _, _, _, _, W, _, _, _, hs, _⟩ := h
    subst hs
    exact ⟨hL.tokNodup, hL.fresh, hL.frozen, hL.frozenNodup, hL.unfrozen, hL.ledger⟩
  | claim c og =>
    simp only [step, claimRewards, Option.bind_eq_bind, Option.bind_eq_some_iff] at h
    obtain ⟨_, _, h⟩ := h
    cases og with
    | none => exact claimCore_LInv hW hL h
    | some x =>
      simp only [Option.bind_eq_bind, Option.bind_eq_some_iff] at h
      obtain ⟨_, _, h⟩ := h
      exact claimCore_LInv hW hL h
  | claimBoosted c og =>
    simp only [step, claimBoosted, Option.bind_eq_bind, Option.bind_eq_some_iff] at h
    obtain ⟨_, _, h⟩ := h
    cases og with
    | none => exact claimCore_LInv hW hL h
    | some x =>
      simp only [Option.bind_eq_bind, Option.bind_eq_some_iff] at h
      obtain ⟨_, _, h⟩ := h
      exact claimCore_LInv hW hL h
  | updateEnergy u =>
    simp only [step, updateEnergy, Option.bind_eq_bind, Option.bind_eq_some_iff, Option.pure_def,
      Option.some.injEq, Prod.mk.injEq] at h
    obtain ⟨W, hWk, g, hg, hs, _⟩ := h
    subst hs
    unfold updateEnergyForUser at hg
    cases hq : s.w.progress u with
    | none =>
      simp only [hq, Option.bind_eq_bind, Option.pure_def, Option.bind_some] at hg
      exact updateEnergyAndProgress_LInv hWk hW hL hg
    | some p =>
      simp only [hq, Option.bind_eq_bind, Option.bind_eq_some_iff] at hg
      obtain ⟨_, _, h2⟩ := hg
      exact updateEnergyAndProgress_LInv hWk hW hL h2
  | setPerBlock n =>
    simp only [step, setPerBlock, Option.bind_eq_bind, Option.bind_eq_some_iff, Option.pure_def,
      Option.some.injEq, Prod.mk.injEq] at h
    obtain ⟨W, _, hs, _⟩ := h
    subst hs
    have := accumulateAdditional_LInv W hL
    exact ⟨this.tokNodup, this.fresh, this.frozen, this.frozenNodup, this.unfrozen, this.ledger⟩
  | setEnergy u e =>
    simp only [step, Option.some.injEq, Prod.mk.injEq] at h; obtain ⟨rfl, _⟩ := h
    exact ⟨hL.tokNodup, hL.fresh, hL.frozen, hL.frozenNodup, hL.unfrozen, hL.ledger⟩
  | addToken t =>
    simp only [step, Option.some.injEq, Prod.mk.injEq] at h; obtain ⟨rfl, _⟩ := h
    exact ⟨addTok_nodup hL.tokNodup t, hL.fresh, hL.frozen, hL.frozenNodup, hL.unfrozen, hL.ledger⟩
  | removeToken t =>
    simp only [step, Option.some.injEq, Prod.mk.injEq] at h; obtain ⟨rfl, _⟩ := h
    exact ⟨hL.tokNodup.erase t, hL.fresh, hL.frozen, hL.frozenNodup, hL.unfrozen, hL.ledger⟩
  | addContract c =>
    simp only [step, Option.some.injEq, Prod.mk.injEq] at h; obtain ⟨rfl, _⟩ := h
    exact ⟨hL.tokNodup, hL.fresh, hL.frozen, hL.frozenNodup, hL.unfrozen, hL.ledger⟩
  | removeContract c =>
    simp only [step, Option.some.injEq, Prod.mk.injEq] at h; obtain ⟨rfl, _⟩ := h
    exact ⟨hL.tokNodup, hL.fresh, hL.frozen, hL.frozenNodup, hL.unfrozen, hL.ledger⟩
  | allowExternal u b =>
    simp only [step, Option.some.injEq, Prod.mk.injEq] at h; obtain ⟨rfl, _⟩ := h
    exact ⟨hL.tokNodup, hL.fresh, hL.frozen, hL.frozenNodup, hL.unfrozen, hL.ledger⟩
  | pause b =>
    simp only [step, Option.some.injEq, Prod.mk.injEq] at h; obtain ⟨rfl, _⟩ := h
    exact ⟨hL.tokNodup, hL.fresh, hL.frozen, hL.frozenNodup, hL.unfrozen, hL.ledger⟩
  | advance n =>
    simp only [step, Option.some.injEq, Prod.mk.injEq] at h; obtain ⟨rfl, _⟩ := h
    have hmono := curWeek_advance s n hB.time
    exact ⟨hL.tokNodup, fun w hw => hL.fresh w (Nat.le_trans hmono hw), hL.frozen, hL.frozenNodup,
      fun w hw => hL.unfrozen w (Nat.le_trans hmono hw), hL.ledger⟩

/-- all three invariants of the world together -/
structure AllInv (s : St) : Prop where
  w : WInv s.w
  b : BalInv s
  l : LInv s

theorem run_AllInv (ops : List Op) {s : St} (hI : AllInv s) : AllInv (run s ops) := by
  induction ops generalizing s with
  | nil => exact hI
  | cons op ops ih =>
    simp only [run, List.foldl_cons]
    cases hs : step s op with
    | none => exact ih hI
    | some r =>
      have h : step s op = some (r.1, r.2) := by rw [hs]
      exact ih ⟨step_WInv hI.w h, step_BalInv hI.b h, step_LInv hI.w hI.b hI.l h⟩

theorem init_AllInv (epoch lockEpochs : Nat) (known : List Tok) (contracts whitelist : List Nat) :
    AllInv (init epoch lockEpochs known contracts whitelist) :=
  ⟨init_WInv _ _ _ _ _, init_BalInv _ _ _ _ _, init_LInv _ _ _ _ _⟩

/-- **never more than collected**: the ledger of every week and token is within the frozen total -/
theorem LInv.paid_le {s : St} (h : LInv s) (w : Nat) (t : Tok) : s.a.paid w t ≤ s.a.collected w t := by
  have := h.ledger w t
  omega

end Mx.Fees
