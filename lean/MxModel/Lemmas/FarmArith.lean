/-
  Arithmetic facts about the farm model (Core/Farm.lean) that the property proofs of C06, C07 and
  C11 are built from:

  A. position-token arithmetic: `merge_with` (ceiling of the amount-weighted index average; the
     merged position is never entitled to more than its parts) and `into_part` (floor of the rule
     of three; splitting never creates compounded reward);
  B. the base reward formula;
  C. the 5-slot ring of boosted-yields factors (`BoostedYieldsConfig::update`,
     `get_factors_for_week`);
  D. the loop of `collect_undistributed_boosted_rewards`.
-/
import MxModel.Core.Farm
import Mathlib.Tactic.Linarith
import Mathlib.Tactic.Ring
import Mathlib.Tactic.IntervalCases

namespace Mx.Farm

open Mx.Weekly (upd upd_same upd_other)

/-! ## A. position-token arithmetic -/

/-- ceiling characterisation of `weighted_average_round_up` -/
theorem wavgUp_bounds (v1 w1 v2 w2 : Nat) (hw : w1 + w2 ≠ 0) :
    v1 * w1 + v2 * w2 ≤ weightedAvgRoundUp v1 w1 v2 w2 * (w1 + w2) ∧
    weightedAvgRoundUp v1 w1 v2 w2 * (w1 + w2) < v1 * w1 + v2 * w2 + (w1 + w2) := by
  unfold weightedAvgRoundUp ceilDiv
  generalize v1 * w1 + v2 * w2 = S
  generalize w1 + w2 = W at hw ⊢
  have hpos : 0 < W := Nat.pos_of_ne_zero hw
  have h1 := Nat.div_add_mod (S + W - 1) W
  have h2 := Nat.mod_lt (S + W - 1) hpos
  rw [Nat.mul_comm] at h1
  generalize (S + W - 1) / W * W = Q at h1 ⊢
  generalize (S + W - 1) % W = r at h1 h2
  omega

theorem wavgUp_le_max (v1 w1 v2 w2 R : Nat) (hw : w1 + w2 ≠ 0) (h1 : v1 ≤ R) (h2 : v2 ≤ R) :
    weightedAvgRoundUp v1 w1 v2 w2 ≤ R := by
  obtain ⟨_, hb⟩ := wavgUp_bounds v1 w1 v2 w2 hw
  have hpos : 0 < w1 + w2 := Nat.pos_of_ne_zero hw
  have e1 : v1 * w1 ≤ R * w1 := Nat.mul_le_mul_right _ h1
  have e2 : v2 * w2 ≤ R * w2 := Nat.mul_le_mul_right _ h2
  have hlt : weightedAvgRoundUp v1 w1 v2 w2 * (w1 + w2) < (R + 1) * (w1 + w2) := by
    have : (R + 1) * (w1 + w2) = R * w1 + R * w2 + (w1 + w2) := by ring
    omega
  exact Nat.lt_succ_iff.mp (Nat.lt_of_mul_lt_mul_right hlt)

theorem wavgUp_ge_min (v1 w1 v2 w2 : Nat) (hw : w1 + w2 ≠ 0) :
    min v1 v2 ≤ weightedAvgRoundUp v1 w1 v2 w2 := by
  obtain ⟨ha, _⟩ := wavgUp_bounds v1 w1 v2 w2 hw
  have hpos : 0 < w1 + w2 := Nat.pos_of_ne_zero hw
  have e1 : min v1 v2 * w1 ≤ v1 * w1 := Nat.mul_le_mul_right _ (Nat.min_le_left _ _)
  have e2 : min v1 v2 * w2 ≤ v2 * w2 := Nat.mul_le_mul_right _ (Nat.min_le_right _ _)
  have hle : min v1 v2 * (w1 + w2) ≤ weightedAvgRoundUp v1 w1 v2 w2 * (w1 + w2) := by
    have : min v1 v2 * (w1 + w2) = min v1 v2 * w1 + min v1 v2 * w2 := by ring
    omega
  exact Nat.le_of_mul_le_mul_right hle hpos

/-- `merge_with` succeeds iff the total amount is non-zero; all fields of the result. -/
theorem mergeWith_spec {a b m : Attr} (h : a.mergeWith b = some m) :
    a.amt + b.amt ≠ 0 ∧ m.amt = a.amt + b.amt ∧ m.comp = a.comp + b.comp ∧
    m.epoch = max a.epoch b.epoch ∧ m.owner = a.owner ∧
    m.rps = weightedAvgRoundUp a.rps a.amt b.rps b.amt := by
  simp only [Attr.mergeWith, Option.bind_eq_bind, Option.bind_eq_some_iff, req_eq_some,
    Option.pure_def, Option.some.injEq] at h
  obtain ⟨_, hne, rfl⟩ := h
  exact ⟨hne, rfl, rfl, rfl, rfl, rfl⟩

/-- the merged index is the ceiling of the amount-weighted average of the two indices -/
theorem merge_index_ceil {a b m : Attr} (h : a.mergeWith b = some m) :
    a.rps * a.amt + b.rps * b.amt ≤ m.rps * (a.amt + b.amt) ∧
    m.rps * (a.amt + b.amt) < a.rps * a.amt + b.rps * b.amt + (a.amt + b.amt) := by
  obtain ⟨hne, _, _, _, _, hr⟩ := mergeWith_spec h
  rw [hr]
  exact wavgUp_bounds _ _ _ _ hne

/-- the un-rounded entitlement `amount · (R − index)` of the merged position never exceeds that of
    the parts, for every current index `R` (truncated subtraction, as `calculate_rewards` does) -/
theorem merge_no_gain {a b m : Attr} (h : a.mergeWith b = some m) (R : Nat) :
    m.amt * (R - m.rps) ≤ a.amt * (R - a.rps) + b.amt * (R - b.rps) := by
  obtain ⟨hc, _⟩ := merge_index_ceil h
  obtain ⟨_, hamt, _, _, _, _⟩ := mergeWith_spec h
  rw [hamt]
  rcases Nat.le_total R m.rps with hR | hR
  · rw [Nat.sub_eq_zero_of_le hR]; simp
  · obtain ⟨k, rfl⟩ := Nat.exists_eq_add_of_le hR
    rw [Nat.add_sub_cancel_left]
    have ea : a.amt * (m.rps + k) ≤ a.amt * (m.rps + k - a.rps) + a.rps * a.amt := by
      rcases Nat.le_total a.rps (m.rps + k) with h1 | h1
      · obtain ⟨j, hj⟩ := Nat.exists_eq_add_of_le h1
        rw [hj, Nat.add_sub_cancel_left]
        exact Nat.le_of_eq (by ring)
      · rw [Nat.sub_eq_zero_of_le h1, Nat.mul_zero, Nat.zero_add, Nat.mul_comm]
        exact Nat.mul_le_mul_right _ h1
    have eb : b.amt * (m.rps + k) ≤ b.amt * (m.rps + k - b.rps) + b.rps * b.amt := by
      rcases Nat.le_total b.rps (m.rps + k) with h1 | h1
      · obtain ⟨j, hj⟩ := Nat.exists_eq_add_of_le h1
        rw [hj, Nat.add_sub_cancel_left]
        exact Nat.le_of_eq (by ring)
      · rw [Nat.sub_eq_zero_of_le h1, Nat.mul_zero, Nat.zero_add, Nat.mul_comm]
        exact Nat.mul_le_mul_right _ h1
    have e3 : (a.amt + b.amt) * (m.rps + k) =
        m.rps * (a.amt + b.amt) + (a.amt + b.amt) * k := by ring
    have e4 : (a.amt + b.amt) * (m.rps + k) = a.amt * (m.rps + k) + b.amt * (m.rps + k) := by ring
    generalize a.amt * (m.rps + k - a.rps) = X at ea ⊢
    generalize b.amt * (m.rps + k - b.rps) = Y at eb ⊢
    omega

/-- `into_part`: all fields of the result -/
theorem intoPart_spec {a p : Attr} {x : Nat} (h : a.intoPart x = some p) :
    p.amt = x ∧ p.rps = a.rps ∧ p.epoch = a.epoch ∧ p.owner = a.owner ∧
    p.comp = (if x = a.amt then a.comp else a.comp * x / a.amt) ∧ (x ≠ a.amt → a.amt ≠ 0) := by
  unfold Attr.intoPart at h
  by_cases hx : x = a.amt
  · rw [if_pos hx, Option.some.injEq] at h
    subst h
    exact ⟨hx.symm, rfl, rfl, rfl, by rw [if_pos hx], fun hne => absurd hx hne⟩
  · rw [if_neg hx] at h
    simp only [Option.bind_eq_bind, Option.bind_eq_some_iff, req_eq_some, Option.pure_def,
      Option.some.injEq] at h
    obtain ⟨_, hne, rfl⟩ := h
    exact ⟨rfl, rfl, rfl, rfl, by rw [if_neg hx], fun _ => hne⟩

theorem intoPart_full (a : Attr) : a.intoPart a.amt = some a := by
  simp [Attr.intoPart]

/-- whenever the position is non-empty, the compounded reward of a part is the floor of the rule
    of three (also for the full amount) -/
theorem intoPart_comp_eq {a p : Attr} {x : Nat} (h : a.intoPart x = some p) (ha : a.amt ≠ 0) :
    p.comp = a.comp * x / a.amt := by
  obtain ⟨_, _, _, _, hc, _⟩ := intoPart_spec h
  rw [hc]
  split
  · next hx => rw [hx, Nat.mul_div_cancel _ (Nat.pos_of_ne_zero ha)]
  · rfl

theorem intoPart_comp_le {a p : Attr} {x : Nat} (h : a.intoPart x = some p) (hx : x ≤ a.amt) :
    p.comp ≤ a.comp := by
  obtain ⟨_, _, _, _, hc, hz⟩ := intoPart_spec h
  rw [hc]
  split
  · exact Nat.le_refl _
  · next hne =>
    have hpos : 0 < a.amt := Nat.pos_of_ne_zero (hz hne)
    calc a.comp * x / a.amt ≤ a.comp * a.amt / a.amt :=
          Nat.div_le_div_right (Nat.mul_le_mul_left _ hx)
      _ = a.comp := Nat.mul_div_cancel _ hpos

/-- splitting a position into two (non-empty) parts never creates compounded reward -/
theorem split_compounded_floor {a p q : Attr} {x y : Nat} (hp : a.intoPart x = some p)
    (hq : a.intoPart y = some q) (hxy : x + y ≤ a.amt) (hx : x ≠ 0) (_hy : y ≠ 0) :
    p.comp + q.comp ≤ a.comp := by
  have ha : a.amt ≠ 0 := fun h0 => hx (by omega)
  have hpos : 0 < a.amt := Nat.pos_of_ne_zero ha
  rw [intoPart_comp_eq hp ha, intoPart_comp_eq hq ha]
  have e1 := Nat.div_mul_le_self (a.comp * x) a.amt
  have e2 := Nat.div_mul_le_self (a.comp * y) a.amt
  have e3 : a.comp * (x + y) ≤ a.comp * a.amt := Nat.mul_le_mul_left _ hxy
  have e4 : a.comp * (x + y) = a.comp * x + a.comp * y := by ring
  have e5 : (a.comp * x / a.amt + a.comp * y / a.amt) * a.amt =
      a.comp * x / a.amt * a.amt + a.comp * y / a.amt * a.amt := by ring
  have : (a.comp * x / a.amt + a.comp * y / a.amt) * a.amt ≤ a.comp * a.amt := by omega
  exact Nat.le_of_mul_le_mul_right this hpos

/-- list version: the compounded rewards of any number of non-empty parts whose amounts fit into
    the position sum to at most the position's compounded reward -/
theorem split_compounded_floor_list {a : Attr} {xs : List Nat} {ps : List Attr}
    (h : List.Forall₂ (fun x p => a.intoPart x = some p) xs ps) (hnz : ∀ x ∈ xs, x ≠ 0)
    (hs : xs.sum ≤ a.amt) : (ps.map (·.comp)).sum ≤ a.comp := by
  by_cases ha : a.amt = 0
  · cases h with
    | nil => simp
    | cons h1 h2 =>
      rename_i x p xs' ps'
      have := hnz x (by simp)
      simp only [List.sum_cons] at hs
      omega
  · have hpos : 0 < a.amt := Nat.pos_of_ne_zero ha
    have key : (ps.map (·.comp)).sum * a.amt ≤ a.comp * xs.sum := by
      clear hnz hs
      induction h with
      | nil => simp
      | cons h1 h2 ih =>
        rename_i x p xs' ps'
        simp only [List.map_cons, List.sum_cons]
        rw [intoPart_comp_eq h1 ha]
        have e1 := Nat.div_mul_le_self (a.comp * x) a.amt
        rw [Nat.add_mul, Nat.mul_add]
        omega
    have e3 : a.comp * xs.sum ≤ a.comp * a.amt := Nat.mul_le_mul_left _ hs
    exact Nat.le_of_mul_le_mul_right (Nat.le_trans key e3) hpos

/-! ## B. base reward -/

theorem baseReward_eq (dsc rps a r : Nat) :
    baseReward dsc rps a r = if r < rps then a * (rps - r) / dsc else 0 := rfl

theorem baseReward_same (dsc rps a : Nat) : baseReward dsc rps a rps = 0 := by
  simp [baseReward]

theorem baseReward_mono_rps {dsc a r rps1 rps2 : Nat} (h : rps1 ≤ rps2) :
    baseReward dsc rps1 a r ≤ baseReward dsc rps2 a r := by
  unfold baseReward
  by_cases h1 : r < rps1
  · have h2 : r < rps2 := Nat.lt_of_lt_of_le h1 h
    rw [if_pos h1, if_pos h2]
    exact Nat.div_le_div_right (Nat.mul_le_mul_left _ (Nat.sub_le_sub_right h r))
  · rw [if_neg h1]; exact Nat.zero_le _

theorem baseReward_mul_le (dsc rps a r : Nat) (_hd : dsc ≠ 0) :
    baseReward dsc rps a r * dsc ≤ a * (rps - r) := by
  unfold baseReward
  split
  · exact Nat.div_mul_le_self _ _
  · simp

/-! ## C. the 5-slot ring of boosted-yields factors -/

/-- well-formed config: the ring has its 5 slots -/
def WF (c : BCfg) : Prop := c.ring.length = 5

theorem WF.exists_ring {c : BCfg} (hw : WF c) :
    ∃ L f0 f1 f2 f3 f4, c = ⟨L, [f0, f1, f2, f3, f4]⟩ := by
  obtain ⟨L, ring⟩ := c
  unfold WF at hw
  simp only at hw
  match ring, hw with
  | [f0, f1, f2, f3, f4], _ => exact ⟨L, f0, f1, f2, f3, f4, rfl⟩

/-- slot `i` of the ring after a shift by `k` weeks: the old slot `i + k`, or the old latest
    factors when that is beyond the ring -/
def shifted (f0 f1 f2 f3 f4 : Factors) (k i : Nat) : Factors :=
  ([f0, f1, f2, f3, f4][i + k]?).getD f4

/-- `update` on an explicit 5-slot ring: the week becomes `W`, slots 0–3 are the old ring shifted by
    `W − lastUpdateWeek` (filled up with the old latest factors), slot 4 the new factors if any -/
theorem update_spec5 {L W : Nat} {f0 f1 f2 f3 f4 : Factors} {new : Option Factors} {c' : BCfg}
    (h : (BCfg.mk L [f0, f1, f2, f3, f4]).update W new = some c') :
    L ≤ W ∧ c' = ⟨W, [shifted f0 f1 f2 f3 f4 (W - L) 0, shifted f0 f1 f2 f3 f4 (W - L) 1,
                      shifted f0 f1 f2 f3 f4 (W - L) 2, shifted f0 f1 f2 f3 f4 (W - L) 3,
                      new.getD f4]⟩ := by
  simp only [BCfg.update, RING, Option.bind_eq_bind, Option.bind_eq_some_iff, req_eq_some,
    Option.pure_def] at h
  obtain ⟨_, hle, h⟩ := h
  refine ⟨hle, ?_⟩
  obtain ⟨k, rfl⟩ := Nat.exists_eq_add_of_le hle
  rw [Nat.add_sub_cancel_left] at h ⊢
  rcases k with _ | _ | _ | _ | _ | k
  · cases new <;> simp [shifted] at h ⊢ <;> exact h.symm
  · simp [shifted, BCfg.latest, RING] at h ⊢; exact h.symm
  · simp [shifted, BCfg.latest, RING] at h ⊢; exact h.symm
  · simp [shifted, BCfg.latest, RING] at h ⊢; exact h.symm
  · simp [shifted, BCfg.latest, RING] at h ⊢; exact h.symm
  · simp [shifted, BCfg.latest, RING] at h ⊢; exact h.symm

theorem shifted_ge {f0 f1 f2 f3 f4 : Factors} {k i : Nat} (h : 4 ≤ i + k) :
    shifted f0 f1 f2 f3 f4 k i = f4 := by
  unfold shifted
  obtain ⟨m, hm⟩ := Nat.exists_eq_add_of_le h
  rw [hm]
  cases m with
  | zero => rfl
  | succ m =>
    have : [f0, f1, f2, f3, f4][4 + (m + 1)]? = none :=
      List.getElem?_eq_none (by simp only [List.length_cons, List.length_nil]; omega)
    rw [this]; rfl

theorem BCfg.new_wf (W : Nat) (f : Factors) : WF (BCfg.new W f) := by
  simp [WF, BCfg.new, RING]

theorem BCfg.new_latest (W : Nat) (f : Factors) : (BCfg.new W f).latest = f := rfl

theorem BCfg.new_lastUpdateWeek (W : Nat) (f : Factors) : (BCfg.new W f).lastUpdateWeek = W := rfl

/-- `update` keeps the ring at 5 slots and moves `last_update_week` to the current week -/
theorem BCfg.update_wf {c c' : BCfg} {W : Nat} {new : Option Factors} (hw : WF c)
    (h : c.update W new = some c') : WF c' ∧ c'.lastUpdateWeek = W := by
  obtain ⟨L, f0, f1, f2, f3, f4, rfl⟩ := hw.exists_ring
  obtain ⟨_, rfl⟩ := update_spec5 h
  exact ⟨rfl, rfl⟩

theorem BCfg.update_le {c c' : BCfg} {W : Nat} {new : Option Factors}
    (h : c.update W new = some c') : c.lastUpdateWeek ≤ W := by
  simp only [BCfg.update, RING, Option.bind_eq_bind, Option.bind_eq_some_iff, req_eq_some] at h
  obtain ⟨_, hle, _⟩ := h
  exact hle

theorem BCfg.update_lastUpdateWeek {c c' : BCfg} {W : Nat} {new : Option Factors} (hw : WF c)
    (h : c.update W new = some c') : c'.lastUpdateWeek = max c.lastUpdateWeek W := by
  rw [(BCfg.update_wf hw h).2]
  have := BCfg.update_le h
  omega

/-- installing new factors makes them the latest ones -/
theorem update_latest {c c' : BCfg} {W : Nat} {f : Factors} (hw : WF c)
    (h : c.update W (some f) = some c') : c'.latest = f := by
  obtain ⟨L, f0, f1, f2, f3, f4, rfl⟩ := hw.exists_ring
  obtain ⟨_, rfl⟩ := update_spec5 h
  rfl

/-- an update without new factors keeps the latest ones -/
theorem update_none_latest {c c' : BCfg} {W : Nat} (hw : WF c)
    (h : c.update W none = some c') : c'.latest = c.latest := by
  obtain ⟨L, f0, f1, f2, f3, f4, rfl⟩ := hw.exists_ring
  obtain ⟨_, rfl⟩ := update_spec5 h
  rfl

/-- `get_factors_for_week` only answers for the four weeks before `last_update_week` -/
theorem factorsForWeek_window {c : BCfg} {w : Nat} {f : Factors}
    (h : c.factorsForWeek w = some f) : w < c.lastUpdateWeek ∧ c.lastUpdateWeek < w + 5 := by
  simp only [BCfg.factorsForWeek, Option.bind_eq_bind, Option.bind_eq_some_iff,
    req_eq_some] at h
  obtain ⟨_, h1, _, h2, _⟩ := h
  have hR : RING = 5 := rfl
  omega

theorem factorsForWeek_eq {c : BCfg} {w : Nat} (h1 : w < c.lastUpdateWeek)
    (h2 : c.lastUpdateWeek < w + 5) :
    c.factorsForWeek w = c.ring[4 - (c.lastUpdateWeek - w)]? := by
  have h3 : c.lastUpdateWeek - w < 5 := by omega
  simp [BCfg.factorsForWeek, RING, req, h1, h3]

theorem factorsForWeek_new (W w : Nat) (f : Factors) (h1 : w < W) (h2 : W < w + 5) :
    (BCfg.new W f).factorsForWeek w = some f := by
  rw [factorsForWeek_eq (c := BCfg.new W f) h1 h2]
  simp only [BCfg.new, RING]
  rw [List.getElem?_replicate, if_pos (by omega)]

/-- a week that is still inside the 4-week window keeps the factors it had (its slot just moves),
    whether or not new factors are installed for the current week -/
theorem factorsForWeek_update_old {c c' : BCfg} {W w : Nat} {new : Option Factors} (hw : WF c)
    (h : c.update W new = some c') (h1 : w < c.lastUpdateWeek) (h2 : W < w + 5) :
    c'.factorsForWeek w = c.factorsForWeek w := by
  obtain ⟨L, f0, f1, f2, f3, f4, rfl⟩ := hw.exists_ring
  obtain ⟨hle, rfl⟩ := update_spec5 h
  simp only at h1
  rw [factorsForWeek_eq (by simp only; omega) (by simp only; omega),
    factorsForWeek_eq (by simp only; omega) (by simp only; omega)]
  simp only
  obtain ⟨i, rfl⟩ := Nat.exists_eq_add_of_lt h1
  obtain ⟨k, rfl⟩ := Nat.exists_eq_add_of_le hle
  have hi : i < 4 := by omega
  have hk : k < 4 := by omega
  have e1 : w + i + 1 + k - (w + i + 1) = k := by omega
  have e2 : w + i + 1 + k - w = i + 1 + k := by omega
  have e3 : w + i + 1 - w = i + 1 := by omega
  rw [e1, e2, e3]
  interval_cases i <;> interval_cases k <;> first | rfl | omega

/-- weeks between the last update and now (no config change happened in them) get the factors
    that were the latest ones -/
theorem factorsForWeek_update_gap {c c' : BCfg} {W w : Nat} {new : Option Factors} (hw : WF c)
    (h : c.update W new = some c') (h1 : c.lastUpdateWeek ≤ w) (h2 : w < W) (h3 : W < w + 5) :
    c'.factorsForWeek w = some c.latest := by
  obtain ⟨L, f0, f1, f2, f3, f4, rfl⟩ := hw.exists_ring
  obtain ⟨hle, rfl⟩ := update_spec5 h
  simp only at h1
  rw [factorsForWeek_eq (by simp only; omega) (by simp only; omega)]
  simp only
  obtain ⟨i, rfl⟩ := Nat.exists_eq_add_of_le h1
  obtain ⟨k, rfl⟩ := Nat.exists_eq_add_of_lt h2
  have hk : k < 4 := by omega
  have e1 : L + i + k + 1 - L = i + k + 1 := by omega
  have e2 : L + i + k + 1 - (L + i) = k + 1 := by omega
  rw [e1, e2]
  interval_cases k
  all_goals
    show some (shifted _ _ _ _ _ _ _) = some f4
    rw [shifted_ge (by omega)]
/-! ## D. collection of undistributed boosted rewards -/

/-- the loop of `collect_undistributed_boosted_rewards`: every week of the range has its remaining
    pool emptied into the undistributed counter exactly once, nothing else changes -/
theorem collectWeeks_spec (n : Nat) : ∀ (b : BSt) (u first : Nat),
    (∀ w, first ≤ w → w < first + n →
      (collectWeeks b u first n).1.remaining w = 0 ∧
      (collectWeeks b u first n).1.collW w = b.collW w + b.remaining w) ∧
    (∀ w, (w < first ∨ first + n ≤ w) →
      (collectWeeks b u first n).1.remaining w = b.remaining w ∧
      (collectWeeks b u first n).1.collW w = b.collW w) ∧
    (collectWeeks b u first n).1.accum = b.accum ∧
    (collectWeeks b u first n).1.farmSupplyWeek = b.farmSupplyWeek ∧
    (collectWeeks b u first n).1.cfg = b.cfg ∧
    (collectWeeks b u first n).1.cutW = b.cutW ∧
    (collectWeeks b u first n).1.paidW = b.paidW ∧
    (collectWeeks b u first n).2 =
      u + ((List.range n).map (fun i => b.remaining (first + i))).sum := by
  induction n with
  | zero =>
    intro b u first
    refine ⟨fun w h1 h2 => by omega, fun w _ => ⟨rfl, rfl⟩, rfl, rfl, rfl, rfl, rfl, ?_⟩
    simp [collectWeeks]
  | succ n ih =>
    intro b u first
    obtain ⟨i1, i2, i3, i4, i5, i6, i7, i8⟩ :=
      ih { b with remaining := upd b.remaining first 0
                  collW := upd b.collW first (b.collW first + b.remaining first) }
        (u + b.remaining first) (first + 1)
    simp only [collectWeeks]
    refine ⟨?_, ?_, i3, i4, i5, i6, i7, ?_⟩
    · intro w h1 h2
      by_cases hw : w = first
      · subst hw
        obtain ⟨j1, j2⟩ := i2 w (Or.inl (Nat.lt_succ_self w))
        rw [j1, j2]
        simp only [upd_same, and_self]
      · obtain ⟨j1, j2⟩ := i1 w (by omega) (by omega)
        rw [j1, j2]
        simp only [upd_other _ _ hw, and_self]
    · intro w h
      have hw : w ≠ first := by omega
      obtain ⟨j1, j2⟩ := i2 w (by omega)
      rw [j1, j2]
      simp only [upd_other _ _ hw, and_self]
    · rw [i8, List.range_succ_eq_map, List.map_cons, List.sum_cons, List.map_map]
      have : (List.range n).map (fun i => upd b.remaining first 0 (first + 1 + i)) =
          (List.range n).map ((fun i => b.remaining (first + i)) ∘ Nat.succ) := by
        apply List.map_congr_left
        intro i _
        have : first + 1 + i ≠ first := by omega
        simp only [Function.comp, upd_other _ _ this]
        congr 1; omega
      rw [this]
      simp only [Nat.add_zero]
      omega
end Mx.Farm
