/-
  Fees collector: the DEPOSITED ledger as a function of the history — what the operations of a
  history put into week `w` in token `t`: the amounts of the successful `depositSwapFees` calls made
  during week `w`, plus (locked token only) the per-block top-up that the first claim /
  `setLockedTokensPerBlock` of a week credits to the previous week.

  Invariant over all histories:  accumulated w t + collected w t = deposited w t  (nothing is lost,
  nothing appears from nowhere), hence  paid ≤ collected ≤ deposited  and, for non-locked tokens,
  balance = Σ_w (deposited w − paid w).
-/
import MxModel.Lemmas.FeesLogRun

namespace Mx.Fees

open Mx.Weekly

/-- the top-up of `accumulate_additional_locked_tokens` run in week `W`: the PREVIOUS week gets
    `perBlock · BLOCKS_IN_WEEK` locked tokens, once per week -/
def topUp (s : St) (W w : Nat) (t : Tok) : Nat :=
  if s.lastAddWeek ≠ W ∧ w = W - 1 ∧ t = lockedTok then s.perBlock * BLOCKS_IN_WEEK else 0

/-- what a (successful) `op` executed in `s` deposits for week `w` in token `t` -/
def opDeposit (s : St) (op : Op) (w : Nat) (t : Tok) : Nat :=
  match op with
  | .deposit _ tok _ amt => if w = curWeek s ∧ t = tok then amt else 0
  | .claim _ _ | .claimBoosted _ _ | .setPerBlock _ => topUp s (curWeek s) w t
  | _ => 0

/-- what `op`, executed in `s`, deposits for week `w` in token `t` (0 when it fails) -/
def stepDeposit (s : St) (op : Op) (w : Nat) (t : Tok) : Nat :=
  if (step s op).isSome then opDeposit s op w t else 0

/-- **the deposited ledger** of a history started in `s` -/
def deposited (s : St) : List Op → Nat → Tok → Nat
  | [], _, _ => 0
  | op :: ops, w, t => stepDeposit s op w t + deposited (next s op) ops w t

theorem accumulateAdditional_owed (s : St) (W w : Nat) (t : Tok) :
    (accumulateAdditional s W).a.accumulated w t + (accumulateAdditional s W).a.collected w t =
      s.a.accumulated w t + s.a.collected w t + topUp s W w t := by
  unfold accumulateAdditional topUp
  by_cases h : s.lastAddWeek = W
  · simp [h]
  · simp only [h, if_false, ne_eq, not_false_eq_true, true_and, upd2]
    by_cases hk : w = W - 1 ∧ t = lockedTok
    · simp only [hk, and_self, if_true]; omega
    · simp only [hk, if_false]; omega

/-- the claim loop only moves deposits from `accumulated` to `collected`, week by week, token by token -/
theorem claimLoop_owed : ∀ (n : Nat) {a a' : ClaimAcc Acc}, claimLoop feesRewards n a = some a' →
    ∀ w t, a'.c.accumulated w t + a'.c.collected w t = a.c.accumulated w t + a.c.collected w t := by
  intro n
  induction n with
  | zero =>
    intro a a' h w t
    simp only [claimLoop, Option.some.injEq] at h
    subst h; rfl
  | succ n ih =>
    intro a a' h w t
    simp only [claimLoop, Option.bind_eq_some_iff] at h
    obtain ⟨a1, h1, h2⟩ := h
    obtain ⟨r, hr, _, _⟩ := claimSingle_spec h1
    rw [ih h2 w t]
    rcases feesRewards_spec hr with ⟨_, _, hc, _⟩ | ⟨_, _, _, _, _, _, _, hoth, hsame⟩
    · rw [hc]
    · by_cases hw : w = a.p.week
      · subst hw; exact hsame t
      · rw [(hoth w t hw).1, (hoth w t hw).2]

theorem claimCore_owed {s s' : St} {orig : Nat} {o : Out} (h : claimCore s orig = some (s', o))
    (w : Nat) (t : Tok) :
    s'.a.accumulated w t + s'.a.collected w t =
      s.a.accumulated w t + s.a.collected w t + topUp s (curWeek s) w t := by
  obtain ⟨W, r, hW, hcm, _, _, _⟩ := claimCore_spec h
  obtain ⟨hWc, _⟩ := week_some hW
  obtain ⟨g1, a, _, _, ha, _, hca, _⟩ := claimMulti_spec hcm
  have := claimLoop_owed _ ha w t
  dsimp only at this
  rw [hca, this, accumulateAdditional_owed, hWc]

/-- **one operation: `accumulated + collected` grows by exactly what the operation deposits** -/
theorem step_owed {s s' : St} {op : Op} {o : Out} (h : step s op = some (s', o)) (w : Nat) (t : Tok) :
    s'.a.accumulated w t + s'.a.collected w t =
      s.a.accumulated w t + s.a.collected w t + stepDeposit s op w t := by
  have hsd : stepDeposit s op w t = opDeposit s op w t := by
    unfold stepDeposit; rw [h]; rfl
  rw [hsd]
  unfold opDeposit
  cases op with
  | deposit c tok n amt =>
    simp only [step, deposit, Option.bind_eq_bind, Option.bind_eq_some_iff, req_eq_some,
      Option.pure_def, Option.some.injEq, Prod.mk.injEq] at h
    obtain ⟨_, _, _, _, _, _, W, hW, _, _, hs, _⟩ := h
    obtain ⟨hWc, _⟩ := week_some hW
    subst hs
    simp only [upd2, ← hWc]
    by_cases hk : w = W ∧ t = tok
    · obtain ⟨rfl, rfl⟩ := hk
      simp only [and_self, if_true]; omega
    · simp only [hk, if_false]; omega
  | claim c og =>
    exact claimCore_owed (step_of_claimUser (u := og.getD c) rfl h) w t
  | claimBoosted c og =>
    exact claimCore_owed (step_of_claimUser (u := og.getD c) rfl h) w t
  | setPerBlock n =>
    simp only [step, setPerBlock, Option.bind_eq_bind, Option.bind_eq_some_iff, Option.pure_def,
      Option.some.injEq, Prod.mk.injEq] at h
    obtain ⟨W, hW, rfl, _⟩ := h
    obtain ⟨hWc, _⟩ := week_some hW
    rw [← hWc]
    exact accumulateAdditional_owed s W w t
  | updateEnergy u =>
    obtain ⟨_, g, _, _, rfl⟩ := step_updateEnergy h
    rfl
  | setEnergy u e => simp only [step, Option.some.injEq, Prod.mk.injEq] at h; obtain ⟨rfl, _⟩ := h; rfl
  | addToken t => simp only [step, Option.some.injEq, Prod.mk.injEq] at h; obtain ⟨rfl, _⟩ := h; rfl
  | removeToken t => simp only [step, Option.some.injEq, Prod.mk.injEq] at h; obtain ⟨rfl, _⟩ := h; rfl
  | addContract c => simp only [step, Option.some.injEq, Prod.mk.injEq] at h; obtain ⟨rfl, _⟩ := h; rfl
  | removeContract c => simp only [step, Option.some.injEq, Prod.mk.injEq] at h; obtain ⟨rfl, _⟩ := h; rfl
  | allowExternal u b => simp only [step, Option.some.injEq, Prod.mk.injEq] at h; obtain ⟨rfl, _⟩ := h; rfl
  | pause b => simp only [step, Option.some.injEq, Prod.mk.injEq] at h; obtain ⟨rfl, _⟩ := h; rfl
  | advance n => simp only [step, Option.some.injEq, Prod.mk.injEq] at h; obtain ⟨rfl, _⟩ := h; rfl

theorem stepDeposit_of_none {s : St} {op : Op} (h : step s op = none) (w : Nat) (t : Tok) :
    stepDeposit s op w t = 0 := by
  unfold stepDeposit; rw [h]; rfl

/-- **deposited ledger, all histories**: what is still accumulating plus what was frozen for a
    week and token is what it had at the start plus everything deposited for it since -/
theorem owed_eq_deposited_from (ops : List Op) : ∀ (s : St) (w : Nat) (t : Tok),
    (run s ops).a.accumulated w t + (run s ops).a.collected w t =
      s.a.accumulated w t + s.a.collected w t + deposited s ops w t := by
  induction ops with
  | nil => intro s w t; simp [run, deposited]
  | cons op ops ih =>
    intro s w t
    rw [run_cons, ih (next s op) w t]
    simp only [deposited]
    cases hs : step s op with
    | none => rw [next_of_none hs, stepDeposit_of_none hs]; omega
    | some r =>
      rw [next_of_some hs]
      have := step_owed (s' := r.1) (o := r.2) (by rw [hs]) w t
      omega

/-- Σ over the weeks `< K` of the deposited ledger equals `owedAll` -/
theorem owedAll_eq_deposited (epoch lockEpochs : Nat) (known : List Tok)
    (contracts whitelist : List Nat) (ops : List Op) (t : Tok) (K : Nat) :
    owedAll (run (init epoch lockEpochs known contracts whitelist) ops) t K =
      usum (List.range K)
        (fun w => deposited (init epoch lockEpochs known contracts whitelist) ops w t) := by
  unfold owedAll
  apply usum_congr
  intro w _
  rw [owed_eq_deposited_from ops _ w t]
  show 0 + 0 + _ = _
  omega

end Mx.Fees
