/-
  Price discovery: the phase function and the penalty schedule (phase.rs).
  Helper lemmas for Props/C17.lean.  Core Lean only (no Mathlib needed).
-/
import MxModel.Core.PriceDiscovery

namespace Mx.PD

theorem e1_le_e2 (c : Cfg) : c.e1 ≤ c.e2 := by unfold Cfg.e1 Cfg.e2; omega
theorem e2_le_e3 (c : Cfg) : c.e2 ≤ c.e3 := by unfold Cfg.e2 Cfg.e3; omega
theorem start_le_e1 (c : Cfg) : c.start ≤ c.e1 := by unfold Cfg.e1; omega

/-! ### the five pieces of `get_current_phase` -/

theorem phaseAt_idle {c : Cfg} {b : Nat} (h : b < c.start) : c.phaseAt b = .idle := by
  simp [Cfg.phaseAt, h]

theorem phaseAt_noPenalty {c : Cfg} {b : Nat} (h1 : c.start ≤ b) (h2 : b < c.e1) :
    c.phaseAt b = .noPenalty := by
  have : ¬ b < c.start := by omega
  simp [Cfg.phaseAt, this, h2]

theorem phaseAt_linear {c : Cfg} {b : Nat} (h1 : c.e1 ≤ b) (h2 : b < c.e2) :
    c.phaseAt b = .linear (c.linearPct (b - c.e1)) := by
  have := start_le_e1 c
  have a1 : ¬ b < c.start := by omega
  have a2 : ¬ b < c.e1 := by omega
  simp [Cfg.phaseAt, a1, a2, h2]

theorem phaseAt_fixed {c : Cfg} {b : Nat} (h1 : c.e2 ≤ b) (h2 : b < c.e3) :
    c.phaseAt b = .fixed c.pfix := by
  have := start_le_e1 c
  have := e1_le_e2 c
  have a1 : ¬ b < c.start := by omega
  have a2 : ¬ b < c.e1 := by omega
  have a3 : ¬ b < c.e2 := by omega
  simp [Cfg.phaseAt, a1, a2, a3, h2]

theorem phaseAt_redeem {c : Cfg} {b : Nat} (h : c.e3 ≤ b) : c.phaseAt b = .redeem := by
  have := start_le_e1 c
  have := e1_le_e2 c
  have := e2_le_e3 c
  have a1 : ¬ b < c.start := by omega
  have a2 : ¬ b < c.e1 := by omega
  have a3 : ¬ b < c.e2 := by omega
  have a4 : ¬ b < c.e3 := by omega
  simp [Cfg.phaseAt, a1, a2, a3, a4]

/-- case split on where the block lies -/
theorem phaseAt_cases (c : Cfg) (b : Nat) :
    (b < c.start ∧ c.phaseAt b = .idle) ∨
    (c.start ≤ b ∧ b < c.e1 ∧ c.phaseAt b = .noPenalty) ∨
    (c.e1 ≤ b ∧ b < c.e2 ∧ c.phaseAt b = .linear (c.linearPct (b - c.e1))) ∨
    (c.e2 ≤ b ∧ b < c.e3 ∧ c.phaseAt b = .fixed c.pfix) ∨
    (c.e3 ≤ b ∧ c.phaseAt b = .redeem) := by
  by_cases h0 : b < c.start
  · exact .inl ⟨h0, phaseAt_idle h0⟩
  by_cases h1 : b < c.e1
  · exact .inr (.inl ⟨by omega, h1, phaseAt_noPenalty (by omega) h1⟩)
  by_cases h2 : b < c.e2
  · exact .inr (.inr (.inl ⟨by omega, h2, phaseAt_linear (by omega) h2⟩))
  by_cases h3 : b < c.e3
  · exact .inr (.inr (.inr (.inl ⟨by omega, h3, phaseAt_fixed (by omega) h3⟩)))
  · exact .inr (.inr (.inr (.inr ⟨by omega, phaseAt_redeem (by omega)⟩)))

/-! ### gates in terms of the block -/

theorem depositAllowed_iff (c : Cfg) (b : Nat) :
    (c.phaseAt b).depositAllowed = true ↔ c.start ≤ b ∧ b < c.e2 := by
  have := e1_le_e2 c
  have := e2_le_e3 c
  have := start_le_e1 c
  rcases phaseAt_cases c b with ⟨h, e⟩ | ⟨h1, h2, e⟩ | ⟨h1, h2, e⟩ | ⟨h1, h2, e⟩ | ⟨h, e⟩ <;>
    rw [e] <;> simp [Phase.depositAllowed] <;> omega

theorem withdrawAllowed_iff (c : Cfg) (b : Nat) :
    (c.phaseAt b).withdrawAllowed = true ↔ c.start ≤ b ∧ b < c.e3 := by
  have := e1_le_e2 c
  have := e2_le_e3 c
  have := start_le_e1 c
  rcases phaseAt_cases c b with ⟨h, e⟩ | ⟨h1, h2, e⟩ | ⟨h1, h2, e⟩ | ⟨h1, h2, e⟩ | ⟨h, e⟩ <;>
    rw [e] <;> simp [Phase.withdrawAllowed] <;> omega

theorem redeemAllowed_iff (c : Cfg) (b : Nat) :
    (c.phaseAt b).redeemAllowed = true ↔ c.e3 ≤ b := by
  have := e1_le_e2 c
  have := e2_le_e3 c
  have := start_le_e1 c
  rcases phaseAt_cases c b with ⟨h, e⟩ | ⟨h1, h2, e⟩ | ⟨h1, h2, e⟩ | ⟨h1, h2, e⟩ | ⟨h, e⟩ <;>
    rw [e] <;> simp [Phase.redeemAllowed] <;> omega

theorem phase_redeem_iff (c : Cfg) (b : Nat) : c.phaseAt b = .redeem ↔ c.e3 ≤ b := by
  have := e1_le_e2 c
  have := e2_le_e3 c
  have := start_le_e1 c
  rcases phaseAt_cases c b with ⟨h, e⟩ | ⟨h1, h2, e⟩ | ⟨h1, h2, e⟩ | ⟨h1, h2, e⟩ | ⟨h, e⟩ <;>
    rw [e] <;> simp <;> omega

/-- the rank of the phase as a function of the block -/
theorem rank_phaseAt (c : Cfg) (b : Nat) :
    (c.phaseAt b).rank =
      if b < c.start then 0 else if b < c.e1 then 1 else if b < c.e2 then 2
      else if b < c.e3 then 3 else 4 := by
  unfold Cfg.phaseAt
  repeat' split
  all_goals rfl

theorem rank_mono (c : Cfg) {b b' : Nat} (h : b ≤ b') :
    (c.phaseAt b).rank ≤ (c.phaseAt b').rank := by
  have := e1_le_e2 c
  have := e2_le_e3 c
  have := start_le_e1 c
  rw [rank_phaseAt, rank_phaseAt]
  repeat' split
  all_goals omega

/-! ### the linear penalty -/

theorem linearPct_ge_min (c : Cfg) (p : Nat) : c.pmin ≤ c.linearPct p := by
  unfold Cfg.linearPct; omega

theorem linearPct_first (c : Cfg) : c.linearPct 0 = c.pmin := by
  unfold Cfg.linearPct; split <;> simp

theorem linearPct_dur_one (c : Cfg) (p : Nat) (h : c.d2 ≤ 1) : c.linearPct p = c.pmin := by
  unfold Cfg.linearPct
  have : ¬ 1 < c.d2 := by omega
  simp [this]

theorem linearPct_mono (c : Cfg) {p p' : Nat} (h : p ≤ p') : c.linearPct p ≤ c.linearPct p' := by
  unfold Cfg.linearPct
  split
  · have := Nat.div_le_div_right (c := c.d2 - 1) (Nat.mul_le_mul_left (c.pmax - c.pmin) h)
    omega
  · omega

/-- inside the phase (`passed ≤ d2 − 1`) the penalty never exceeds the maximum -/
theorem linearPct_le_max (c : Cfg) (hc : c.pmin ≤ c.pmax) {p : Nat} (hp : p < c.d2) :
    c.linearPct p ≤ c.pmax := by
  unfold Cfg.linearPct
  split
  · rename_i hd
    have h1 : (c.pmax - c.pmin) * p ≤ (c.pmax - c.pmin) * (c.d2 - 1) :=
      Nat.mul_le_mul_left _ (by omega)
    have h2 : (c.pmax - c.pmin) * p / (c.d2 - 1) ≤ c.pmax - c.pmin := by
      apply Nat.div_le_of_le_mul
      rw [Nat.mul_comm (c.d2 - 1)]
      exact h1
    omega
  · omega

/-- on the last block of the phase the penalty is exactly the maximum -/
theorem linearPct_last (c : Cfg) (hc : c.pmin ≤ c.pmax) (hd : 1 < c.d2) :
    c.linearPct (c.d2 - 1) = c.pmax := by
  unfold Cfg.linearPct
  simp only [hd, if_true]
  rw [Nat.mul_div_cancel _ (by omega : 0 < c.d2 - 1)]
  omega

end Mx.PD
