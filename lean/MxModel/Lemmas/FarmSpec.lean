/-
  Structural characterisation ("spec") lemmas of the building blocks of the farm model
  (Core/Farm.lean): which fields of the state a helper can touch at all, plus the facts about the
  new values that the property proofs need.  Everything downstream is proved from these.
-/
import MxModel.Core.Farm
import Mathlib.Tactic.Linarith

namespace Mx.Farm

open Mx.Weekly (upd Energy)

/-! ### helpers that touch a single field -/

theorem takePayments_spec : ∀ (l : List (Nat × Nat)) {s s' : St} {c : Nat},
    takePayments s c l = some s' → ∃ h, s' = { s with hold := h } := by
  intro l
  induction l with
  | nil =>
    intro s s' c h
    simp only [takePayments, Option.some.injEq] at h
    exact ⟨s.hold, h ▸ rfl⟩
  | cons p rest ih =>
    intro s s' c h
    obtain ⟨n, a⟩ := p
    simp only [takePayments, Option.bind_eq_bind, Option.bind_eq_some_iff, req_eq_some,
      sub?_eq_some] at h
    obtain ⟨_, _, _, _, h1, _, h2⟩ := h
    obtain ⟨hh, rfl⟩ := ih h2
    exact ⟨hh, rfl⟩

theorem checkAndUpdate_spec : ∀ (l : List (Nat × Nat)) {s s' : St} {u : Nat},
    checkAndUpdate s u l = some s' → ∃ t, s' = { s with userTotal := t } := by
  intro l
  induction l with
  | nil =>
    intro s s' u h
    simp only [checkAndUpdate, Option.some.injEq] at h
    exact ⟨s.userTotal, h ▸ rfl⟩
  | cons p rest ih =>
    intro s s' u h
    obtain ⟨n, a⟩ := p
    simp only [checkAndUpdate, Option.bind_eq_bind, Option.bind_eq_some_iff] at h
    obtain ⟨att, _, h2⟩ := h
    by_cases ho : att.owner ≠ u
    · simp only [ho, ne_eq, not_false_eq_true, if_true, increaseUser, decreaseOwner] at h2
      obtain ⟨t, rfl⟩ := ih h2
      exact ⟨t, rfl⟩
    · simp only [ho, if_false] at h2
      exact ih h2

theorem updateEnergyAndProgress_spec {s s' : St} {u : Nat} (h : updateEnergyAndProgress s u = some s') :
    ∃ g, s' = { s with w := g } := by
  simp only [updateEnergyAndProgress, Option.bind_eq_bind, Option.bind_eq_some_iff, Option.pure_def,
    Option.some.injEq] at h
  obtain ⟨_, _, g, _, rfl⟩ := h
  exact ⟨g, rfl⟩

/-- no boosted-yields config: `claimBoostedYields` IS `updateEnergyAndProgress` with reward 0
    (the repaired `None` branch of `claim_boosted_yields_rewards`, finding F6). -/
theorem claimBoostedYields_none {s : St} (u : Nat) (hc : s.b.cfg = none) :
    claimBoostedYields s u = (updateEnergyAndProgress s u).map fun s' => (s', 0) := by
  unfold claimBoostedYields
  rw [hc]

theorem claimBoostedYields_none_spec {s s' : St} {u r : Nat} (hc : s.b.cfg = none)
    (h : claimBoostedYields s u = some (s', r)) :
    r = 0 ∧ updateEnergyAndProgress s u = some s' := by
  rw [claimBoostedYields_none u hc, Option.map_eq_some_iff] at h
  obtain ⟨x, hx, he⟩ := h
  simp only [Prod.mk.injEq] at he
  exact ⟨he.2.symm, he.1 ▸ hx⟩

theorem claimBoostedYields_struct {s s' : St} {u r : Nat} (h : claimBoostedYields s u = some (s', r)) :
    ∃ w' b', s' = { s with w := w', b := b' } := by
  unfold claimBoostedYields at h
  split at h
  · rw [Option.map_eq_some_iff] at h
    obtain ⟨x, hx, he⟩ := h
    simp only [Prod.mk.injEq] at he
    obtain ⟨g, rfl⟩ := updateEnergyAndProgress_spec hx
    exact ⟨g, s.b, he.1 ▸ rfl⟩
  · simp only [Option.bind_eq_bind, Option.bind_eq_some_iff, Option.pure_def, Option.some.injEq,
      Prod.mk.injEq] at h
    obtain ⟨_, _, _, _, x, _, rfl, _⟩ := h
    exact ⟨x.1, x.2.1, rfl⟩

theorem setFarmSupplyWeek_spec {s s' : St} {v : Nat} (h : setFarmSupplyWeek s v = some s') :
    ∃ W, s.week = some W ∧
      s' = { s with b := { s.b with farmSupplyWeek := upd s.b.farmSupplyWeek W v } } := by
  simp only [setFarmSupplyWeek, Option.bind_eq_bind, Option.bind_eq_some_iff, Option.pure_def,
    Option.some.injEq] at h
  obtain ⟨W, hW, rfl⟩ := h
  exact ⟨W, hW, rfl⟩

theorem lockVirtual_spec {s s' : St} {u a : Nat} (h : lockVirtual s u a = some s') :
    ∃ e, s' = { s with energy := e } := by
  simp only [lockVirtual, Option.bind_eq_bind, Option.bind_eq_some_iff, req_eq_some, Option.pure_def,
    Option.some.injEq] at h
  obtain ⟨_, _, rfl⟩ := h
  exact ⟨_, rfl⟩

/-- `payReward`: the paid counters grow by what is paid; a minting farm pays out of its reward
    balance, a locked-rewards farm only changes the receiver's energy. -/
theorem payReward_spec {s s' : St} {u base boosted : Nat} (h : payReward s u base boosted = some s') :
    ∃ br e, s' = { s with paid := s.paid + (base + boosted), paidBase := s.paidBase + base,
                          paidBoosted := s.paidBoosted + boosted, balReward := br, energy := e } ∧
      (s.kind = .mint → base + boosted ≤ s.balReward ∧ br = s.balReward - (base + boosted)) ∧
      (s.kind = .noMint → br = s.balReward) := by
  unfold payReward at h
  simp only [Option.bind_eq_bind, Option.pure_def] at h
  by_cases h0 : base + boosted = 0
  · simp only [h0, if_true, Option.some.injEq] at h
    subst h
    refine ⟨s.balReward, s.energy, ?_, ?_, ?_⟩
    · simp [h0]
    · intro _; omega
    · intro _; rfl
  · simp only [h0, if_false] at h
    cases hk : s.kind
    · simp only [hk, Option.bind_eq_some_iff, sub?_eq_some, Option.some.injEq] at h
      obtain ⟨bal, ⟨hle, rfl⟩, rfl⟩ := h
      exact ⟨_, s.energy, rfl, fun _ => ⟨hle, rfl⟩, fun hc => by simp at hc⟩
    · simp only [hk] at h
      obtain ⟨e, rfl⟩ := lockVirtual_spec h
      exact ⟨s.balReward, e, rfl, fun hc => by simp at hc, fun _ => rfl⟩

theorem createToken_spec {s s' : St} {dst n : Nat} {a : Attr} (h : createToken s dst a = some (s', n)) :
    a.amt ≠ 0 ∧ n = s.lastNonce + 1 ∧
    s' = { s with lastNonce := s.lastNonce + 1, attrs := upd s.attrs (s.lastNonce + 1) (some a)
                  hold := upd s.hold dst (upd (s.hold dst) (s.lastNonce + 1) (s.hold dst (s.lastNonce + 1) + a.amt)) } := by
  simp only [createToken, Option.bind_eq_bind, Option.bind_eq_some_iff, req_eq_some, Option.pure_def,
    Option.some.injEq, Prod.mk.injEq] at h
  obtain ⟨_, ha, rfl, rfl⟩ := h
  exact ⟨ha, rfl, rfl⟩

/-! ### reward generation -/

theorem takeRewardSlice_spec {s s' : St} {full cut : Nat} (h : takeRewardSlice s full = some (s', cut)) :
    cut = (if s.pct = 0 then 0 else full * s.pct / MAXPCT) ∧
    ((cut = 0 ∧ s' = s) ∨
     (0 < cut ∧ ∃ W, s.week = some W ∧
        s' = { s with b := { s.b with accum := upd s.b.accum W (s.b.accum W + cut)
                                      cutW := upd s.b.cutW W (s.b.cutW W + cut) } })) := by
  unfold takeRewardSlice at h
  by_cases hp : s.pct = 0
  · simp only [hp, if_true, Option.some.injEq, Prod.mk.injEq] at h
    obtain ⟨rfl, rfl⟩ := h
    exact ⟨by simp [hp], Or.inl ⟨rfl, rfl⟩⟩
  · simp only [hp, if_false] at h
    by_cases hc : full * s.pct / MAXPCT = 0
    · simp only [hc, if_true, Option.some.injEq, Prod.mk.injEq] at h
      obtain ⟨rfl, rfl⟩ := h
      exact ⟨by simp [hp, hc], Or.inl ⟨rfl, rfl⟩⟩
    · simp only [hc, if_false, Option.bind_eq_bind, Option.bind_eq_some_iff, Option.pure_def,
        Option.some.injEq, Prod.mk.injEq] at h
      obtain ⟨W, hW, rfl, rfl⟩ := h
      exact ⟨by simp [hp], Or.inr ⟨Nat.pos_of_ne_zero hc, W, hW, rfl⟩⟩

/-- the amount emitted by a settlement at the current block -/
def minted (s : St) : Nat :=
  if s.lastBlock < s.block then (if s.produce then s.perBlock * (s.block - s.lastBlock) else 0) else 0

/-- the boosted cut of that emission -/
def cutOf (s : St) : Nat := if s.pct = 0 then 0 else minted s * s.pct / MAXPCT

theorem cutOf_le (s : St) (hp : s.pct ≤ MAXPCT) : cutOf s ≤ minted s := by
  unfold cutOf
  split
  · exact Nat.zero_le _
  · have hM : MAXPCT = 10000 := rfl
    rw [hM] at hp ⊢
    apply Nat.div_le_of_le_mul
    nlinarith [Nat.zero_le (minted s)]

/-- `generate`: the state only changes in `lastBlock`, the emission ghosts and the current week's
    boosted pool; the cache gains the emission and the index grows by `⌊base·dsc/supply⌋`. -/
theorem generate_spec {s s' : St} {c c' : Cache} (h : generate s c = some (s', c')) :
    ∃ b', s' = { s with lastBlock := (if s.lastBlock < s.block then s.block else s.lastBlock)
                        generated := s.generated + minted s
                        balReward := (if s.kind = .mint then s.balReward + minted s else s.balReward)
                        baseBudget := s.baseBudget + (minted s - cutOf s)
                        b := b' } ∧
      cutOf s ≤ minted s ∧
      c' = { reserve := c.reserve + minted s
             rps := c.rps + (if c.supply = 0 then 0 else (minted s - cutOf s) * s.dsc / c.supply)
             supply := c.supply } ∧
      ((cutOf s = 0 ∧ b' = s.b) ∨
       (0 < cutOf s ∧ ∃ W, s.week = some W ∧
          b' = { s.b with accum := upd s.b.accum W (s.b.accum W + cutOf s)
                          cutW := upd s.b.cutW W (s.b.cutW W + cutOf s) })) := by
  unfold generate at h
  by_cases hb : s.lastBlock < s.block
  · simp only [hb, if_true] at h
    by_cases hm : (if s.produce then s.perBlock * (s.block - s.lastBlock) else 0) = 0
    · simp only [hm, if_true, Option.some.injEq, Prod.mk.injEq] at h
      obtain ⟨rfl, rfl⟩ := h
      have hmin : minted s = 0 := by simp [minted, hb, hm]
      have hcut : cutOf s = 0 := by simp [cutOf, hmin]
      refine ⟨s.b, ?_, by omega, ?_, Or.inl ⟨hcut, rfl⟩⟩
      · simp [hb, hmin, hcut]
      · simp [hmin, hcut]
    · simp only [hm, if_false, Option.bind_eq_bind, Option.bind_eq_some_iff, sub?_eq_some,
        Option.pure_def] at h
      obtain ⟨⟨s3, cut⟩, hslice, base, ⟨hle, rfl⟩, h⟩ := h
      have hmin : minted s = (if s.produce then s.perBlock * (s.block - s.lastBlock) else 0) := by
        simp [minted, hb]
      obtain ⟨hcuteq, hcases⟩ := takeRewardSlice_spec hslice
      simp only at hcuteq
      have hcut : cutOf s = cut := by
        rw [hcuteq]; simp only [cutOf, hmin]
      rw [← hmin] at hle h hcases
      rw [← hcut] at hle h hcases
      refine ⟨s3.b, ?_, hle, ?_, ?_⟩
      · rcases hcases with ⟨_, rfl⟩ | ⟨_, W, _, rfl⟩ <;>
        · split at h <;>
          · simp only [Option.some.injEq, Prod.mk.injEq] at h
            obtain ⟨rfl, _⟩ := h
            simp [hb, hmin]
      · rcases hcases with ⟨_, rfl⟩ | ⟨_, W, _, rfl⟩ <;>
        · split at h <;> rename_i hsup <;>
          · simp only [Option.some.injEq, Prod.mk.injEq] at h
            obtain ⟨_, rfl⟩ := h
            simp [hsup, hmin]
      · rcases hcases with ⟨h0, rfl⟩ | ⟨hpos, W, hW, rfl⟩
        · exact Or.inl ⟨h0, rfl⟩
        · exact Or.inr ⟨hpos, W, hW, rfl⟩
  · simp only [hb, if_false, Option.some.injEq, Prod.mk.injEq] at h
    obtain ⟨rfl, rfl⟩ := h
    have hmin : minted s = 0 := by simp [minted, hb]
    have hcut : cutOf s = 0 := by simp [cutOf, hmin]
    refine ⟨s.b, ?_, by omega, ?_, Or.inl ⟨hcut, rfl⟩⟩
    · simp [hb, hmin, hcut]
    · simp [hmin, hcut]

end Mx.Farm
