/-
  The per-account ledger (`Core/PairLedger.lean`): characterisation of `stepL`, the ledger
  invariant `LInv`, its preservation by every ledger operation and over every history.
-/
import MxModel.Lemmas.PairStepFlow

namespace Mx.PairLedger
open Mx.Pair

/-! ### list book-keeping -/

theorem sumOf_set (f : Acct → Nat) (l : List Acct) (i : Nat) (x y : Acct) (h : l[i]? = some x) :
    sumOf f (l.set i y) + f x = sumOf f l + f y := by
  induction l generalizing i with
  | nil => simp at h
  | cons z zs ih =>
    cases i with
    | zero =>
      simp only [List.getElem?_cons_zero, Option.some.injEq] at h
      subst h
      simp only [List.set_cons_zero, sumOf]
      omega
    | succ j =>
      simp only [List.getElem?_cons_succ] at h
      have := ih j h
      simp only [List.set_cons_succ, sumOf]
      omega

theorem length_set' (l : List Acct) (i : Nat) (y : Acct) : (l.set i y).length = l.length := by
  simp

theorem getElem?_set_ne' (l : List Acct) {i j : Nat} (y : Acct) (h : i ≠ j) :
    (l.set i y)[j]? = l[j]? := by
  simp [List.getElem?_set, h]

theorem getElem?_set_self' (l : List Acct) {i : Nat} (y x : Acct) (h : l[i]? = some x) :
    (l.set i y)[i]? = some y := by
  have hi : i < l.length := by
    rcases Nat.lt_or_ge i l.length with h' | h'
    · exact h'
    · rw [List.getElem?_eq_none_iff.mpr h'] at h; simp at h
  simp [List.getElem?_set, hi]

/-! ### characterisation of `pay` and `stepL` -/

theorem pay_spec {x y : Acct} {m : Move} (h : pay x m = some y) :
    m.payA ≤ x.a ∧ m.payB ≤ x.b ∧ m.payLp ≤ x.lp ∧
    y = ⟨x.a - m.payA + m.getA, x.b - m.payB + m.getB, x.lp - m.payLp + m.getLp,
         x.lkA + m.getLkA, x.lkB + m.getLkB⟩ := by
  simp only [pay, Option.bind_eq_bind, Option.bind_eq_some_iff, sub?_eq_some, Option.pure_def,
    Option.some.injEq] at h
  obtain ⟨a, ⟨h1, rfl⟩, b, ⟨h2, rfl⟩, c, ⟨h3, rfl⟩, rfl⟩ := h
  exact ⟨h1, h2, h3, rfl⟩

/-- the only way `pay` fails: the wallet is short of what it sends -/
theorem pay_isSome {x : Acct} {m : Move} (h1 : m.payA ≤ x.a) (h2 : m.payB ≤ x.b)
    (h3 : m.payLp ≤ x.lp) : (pay x m).isSome = true := by
  simp [pay, sub?, h1, h2, h3]

theorem stepL_call_spec {l l' : L} {i : Nat} {op : Op} {o : Out}
    (h : stepL l (.call i op) = some (l', o)) :
    ∃ p' acc acc', step l.p op = some (p', o) ∧ l.accts[i]? = some acc ∧
      pay acc (move op o) = some acc' ∧
      l'.p = p' ∧ l'.accts = l.accts.set i acc' ∧
      l'.pairA = pairEntry l.pairA (move op o).payA (move op o).getA (p'.burn1 - l.p.burn1)
        (p'.coll1 - l.p.coll1) (p'.ext1 - l.p.ext1) (p'.slk1 - l.p.slk1) ∧
      l'.pairB = pairEntry l.pairB (move op o).payB (move op o).getB (p'.burn2 - l.p.burn2)
        (p'.coll2 - l.p.coll2) (p'.ext2 - l.p.ext2) (p'.slk2 - l.p.slk2) ∧
      l'.pairLp = l.pairLp + (move op o).payLp + (p'.S - l.p.S) - (move op o).getLp - (l.p.S - p'.S) ∧
      l'.supplyA = l.supplyA ∧ l'.supplyB = l.supplyB := by
  simp only [stepL, Option.bind_eq_bind, Option.bind_eq_some_iff, Option.pure_def,
    Option.some.injEq, Prod.mk.injEq] at h
  obtain ⟨⟨p', o'⟩, hs, acc, ha, acc', hp, rfl, rfl⟩ := h
  exact ⟨p', acc, acc', hs, ha, hp, rfl, rfl, rfl, rfl, rfl, rfl, rfl⟩

theorem stepL_fund_spec {l l' : L} {i : Nat} {first : Bool} {x : Nat} {o : Out}
    (h : stepL l (.fund i first x) = some (l', o)) :
    ∃ acc, l.accts[i]? = some acc ∧ l'.p = l.p ∧ l'.pairA = l.pairA ∧ l'.pairB = l.pairB ∧
      l'.pairLp = l.pairLp ∧
      ((first = true ∧ l'.accts = l.accts.set i { acc with a := max acc.a x } ∧
          l'.supplyA = l.supplyA + (x - acc.a) ∧ l'.supplyB = l.supplyB) ∨
       (first = false ∧ l'.accts = l.accts.set i { acc with b := max acc.b x } ∧
          l'.supplyB = l.supplyB + (x - acc.b) ∧ l'.supplyA = l.supplyA)) := by
  simp only [stepL, Option.bind_eq_bind, Option.bind_eq_some_iff] at h
  obtain ⟨acc, ha, h⟩ := h
  refine ⟨acc, ha, ?_⟩
  split at h
  · rename_i hf
    simp only [Option.pure_def, Option.some.injEq, Prod.mk.injEq] at h
    obtain ⟨rfl, _⟩ := h
    exact ⟨rfl, rfl, rfl, rfl, Or.inl ⟨hf, rfl, rfl, rfl⟩⟩
  · rename_i hf
    simp only [Option.pure_def, Option.some.injEq, Prod.mk.injEq] at h
    obtain ⟨rfl, _⟩ := h
    exact ⟨rfl, rfl, rfl, rfl, Or.inr ⟨by simpa using hf, rfl, rfl, rfl⟩⟩


/-! ### plain transfers between accounts -/

theorem debit_spec {x y : Acct} {t : Tok} {n : Nat} (h : x.debit t n = some y) :
    n ≤ x.bal t ∧ y.bal t = x.bal t - n ∧
    y.a + (if t = .a then n else 0) = x.a ∧ y.b + (if t = .b then n else 0) = x.b ∧
    y.lp + (if t = .lp then n else 0) = x.lp ∧ y.lkA = x.lkA ∧ y.lkB = x.lkB := by
  cases t <;>
    simp only [Acct.debit, Option.bind_eq_bind, Option.bind_eq_some_iff, sub?_eq_some,
      Option.pure_def, Option.some.injEq] at h <;>
    obtain ⟨v, ⟨h1, rfl⟩, rfl⟩ := h <;>
    simp only [Acct.bal, reduceCtorEq, eq_self, if_true, if_false] <;>
    exact ⟨h1, trivial, by omega, by omega, by omega, trivial, trivial⟩

theorem credit_spec (x : Acct) (t : Tok) (n : Nat) :
    (x.credit t n).bal t = x.bal t + n ∧
    (x.credit t n).a = x.a + (if t = .a then n else 0) ∧
    (x.credit t n).b = x.b + (if t = .b then n else 0) ∧
    (x.credit t n).lp = x.lp + (if t = .lp then n else 0) ∧
    (x.credit t n).lkA = x.lkA ∧ (x.credit t n).lkB = x.lkB := by
  cases t <;> simp [Acct.credit, Acct.bal]

theorem xferAccts_spec {accts accts' : List Acct} {src dst : Nat} {t : Tok} {x : Nat}
    (h : xferAccts accts src dst t x = some accts') :
    ∃ s s' d, 0 < x ∧ accts[src]? = some s ∧ s.debit t x = some s' ∧
      (accts.set src s')[dst]? = some d ∧ accts' = (accts.set src s').set dst (d.credit t x) := by
  simp only [xferAccts, Option.bind_eq_bind, Option.bind_eq_some_iff, req_eq_some,
    Option.pure_def, Option.some.injEq] at h
  obtain ⟨_, hx, s, hs, s', hd, d, hdst, rfl⟩ := h
  exact ⟨s, s', d, hx, hs, hd, hdst, rfl⟩

/-- a plain transfer changes no column total of the ledger (and no length) -/
theorem xferAccts_sums {accts accts' : List Acct} {src dst : Nat} {t : Tok} {x : Nat}
    (h : xferAccts accts src dst t x = some accts') :
    sumOf (·.a) accts' = sumOf (·.a) accts ∧ sumOf (·.b) accts' = sumOf (·.b) accts ∧
    sumOf (·.lp) accts' = sumOf (·.lp) accts ∧ sumOf (·.lkA) accts' = sumOf (·.lkA) accts ∧
    sumOf (·.lkB) accts' = sumOf (·.lkB) accts ∧ accts'.length = accts.length := by
  obtain ⟨s, s', d, _, hs, hd, hdst, rfl⟩ := xferAccts_spec h
  obtain ⟨_, _, d1, d2, d3, d4, d5⟩ := debit_spec hd
  obtain ⟨_, c1, c2, c3, c4, c5⟩ := credit_spec d t x
  have a1 := sumOf_set (·.a) accts src s s' hs
  have a2 := sumOf_set (·.a) (accts.set src s') dst d (d.credit t x) hdst
  have b1 := sumOf_set (·.b) accts src s s' hs
  have b2 := sumOf_set (·.b) (accts.set src s') dst d (d.credit t x) hdst
  have l1 := sumOf_set (·.lp) accts src s s' hs
  have l2 := sumOf_set (·.lp) (accts.set src s') dst d (d.credit t x) hdst
  have k1 := sumOf_set (·.lkA) accts src s s' hs
  have k2 := sumOf_set (·.lkA) (accts.set src s') dst d (d.credit t x) hdst
  have m1 := sumOf_set (·.lkB) accts src s s' hs
  have m2 := sumOf_set (·.lkB) (accts.set src s') dst d (d.credit t x) hdst
  refine ⟨by omega, by omega, by omega, by omega, by omega, by simp⟩

theorem stepL_xfer_spec {l l' : L} {src dst : Nat} {t : Tok} {x : Nat} {o : Out}
    (h : stepL l (.xfer src dst t x) = some (l', o)) :
    ∃ accts', xferAccts l.accts src dst t x = some accts' ∧ l' = { l with accts := accts' } := by
  simp only [stepL, Option.bind_eq_bind, Option.bind_eq_some_iff, Option.pure_def,
    Option.some.injEq, Prod.mk.injEq] at h
  obtain ⟨accts', ha, rfl, _⟩ := h
  exact ⟨accts', ha, rfl⟩

/-! ### the ledger invariant -/

/-- What holds of the ledger after every history:
    the pair's book-kept wallet is the model's balance ghosts; the reported LP supply is the
    sum of every account's LP plus the pair's own; each pool token is conserved across all
    accounts, the pair and the four sinks; the LOCKED tokens in the accounts' hands are backed
    1:1 by simple-lock's holdings. -/
structure LInv (l : L) : Prop where
  inv : Pair.Inv l.p
  pairA : l.pairA = l.p.bal1
  pairB : l.pairB = l.p.bal2
  pairLp : l.pairLp = l.p.lpOwn
  lpSum : l.p.S = sumOf (·.lp) l.accts + l.pairLp
  consA : l.supplyA =
    sumOf (·.a) l.accts + l.pairA + l.p.burn1 + l.p.coll1 + l.p.ext1 + l.p.slk1
  consB : l.supplyB =
    sumOf (·.b) l.accts + l.pairB + l.p.burn2 + l.p.coll2 + l.p.ext2 + l.p.slk2
  lkA : sumOf (·.lkA) l.accts = l.p.slk1
  lkB : sumOf (·.lkB) l.accts = l.p.slk2

theorem call_inv {l l' : L} {i : Nat} {op : Op} {o : Out} (hi : LInv l)
    (h : stepL l (.call i op) = some (l', o)) : LInv l' := by
  obtain ⟨p', acc, acc', hs, ha, hp, e1, e2, e3, e4, e5, e6, e7⟩ := stepL_call_spec h
  obtain ⟨hinv, iA, iB, iLp, iS, cA, cB, kA, kB⟩ := hi
  have hinv' := step_inv hinv hs
  obtain ⟨tA, tB, sA, sB, hlp, hown, b1, b2, c1, c2, x1, x2⟩ := step_stepFlow hinv hs
  have s1 := sumOf_set (·.a) l.accts i acc acc' ha
  have s2 := sumOf_set (·.b) l.accts i acc acc' ha
  have s3 := sumOf_set (·.lp) l.accts i acc acc' ha
  have s4 := sumOf_set (·.lkA) l.accts i acc acc' ha
  have s5 := sumOf_set (·.lkB) l.accts i acc acc' ha
  obtain ⟨q1, q2, q3, rfl⟩ := pay_spec hp
  simp only at s1 s2 s3 s4 s5
  have hA : l'.pairA = p'.bal1 := by rw [e3, pairEntry]; omega
  have hB : l'.pairB = p'.bal2 := by rw [e4, pairEntry]; omega
  have hL : l'.pairLp = p'.lpOwn := by rw [e5]; omega
  refine ⟨by rw [e1]; exact hinv', by rw [e1]; exact hA, by rw [e1]; exact hB,
    by rw [e1]; exact hL, ?_, ?_, ?_, ?_, ?_⟩
  · rw [e1, e2, hL]; omega
  · rw [e1, e2, hA, e6]; omega
  · rw [e1, e2, hB, e7]; omega
  · rw [e1, e2]; omega
  · rw [e1, e2]; omega

theorem fund_inv {l l' : L} {i : Nat} {first : Bool} {x : Nat} {o : Out} (hi : LInv l)
    (h : stepL l (.fund i first x) = some (l', o)) : LInv l' := by
  obtain ⟨acc, ha, e1, e2, e3, e4, hc⟩ := stepL_fund_spec h
  obtain ⟨hinv, iA, iB, iLp, iS, cA, cB, kA, kB⟩ := hi
  rcases hc with ⟨_, ea, es, es'⟩ | ⟨_, ea, es, es'⟩
  · have s1 := sumOf_set (·.a) l.accts i acc { acc with a := max acc.a x } ha
    have s2 := sumOf_set (·.b) l.accts i acc { acc with a := max acc.a x } ha
    have s3 := sumOf_set (·.lp) l.accts i acc { acc with a := max acc.a x } ha
    have s4 := sumOf_set (·.lkA) l.accts i acc { acc with a := max acc.a x } ha
    have s5 := sumOf_set (·.lkB) l.accts i acc { acc with a := max acc.a x } ha
    simp only at s1 s2 s3 s4 s5
    have hm : max acc.a x = acc.a + (x - acc.a) := by omega
    refine ⟨by rw [e1]; exact hinv, by rw [e1, e2]; exact iA, by rw [e1, e3]; exact iB,
      by rw [e1, e4]; exact iLp, ?_, ?_, ?_, ?_, ?_⟩ <;> rw [e1, ea] <;> omega
  · have s1 := sumOf_set (·.a) l.accts i acc { acc with b := max acc.b x } ha
    have s2 := sumOf_set (·.b) l.accts i acc { acc with b := max acc.b x } ha
    have s3 := sumOf_set (·.lp) l.accts i acc { acc with b := max acc.b x } ha
    have s4 := sumOf_set (·.lkA) l.accts i acc { acc with b := max acc.b x } ha
    have s5 := sumOf_set (·.lkB) l.accts i acc { acc with b := max acc.b x } ha
    simp only at s1 s2 s3 s4 s5
    have hm : max acc.b x = acc.b + (x - acc.b) := by omega
    refine ⟨by rw [e1]; exact hinv, by rw [e1, e2]; exact iA, by rw [e1, e3]; exact iB,
      by rw [e1, e4]; exact iLp, ?_, ?_, ?_, ?_, ?_⟩ <;> rw [e1, ea] <;> omega

theorem xfer_inv {l l' : L} {src dst : Nat} {t : Tok} {x : Nat} {o : Out} (hi : LInv l)
    (h : stepL l (.xfer src dst t x) = some (l', o)) : LInv l' := by
  obtain ⟨accts', ha, rfl⟩ := stepL_xfer_spec h
  obtain ⟨e1, e2, e3, e4, e5, _⟩ := xferAccts_sums ha
  obtain ⟨hinv, iA, iB, iLp, iS, cA, cB, kA, kB⟩ := hi
  exact ⟨hinv, iA, iB, iLp, by simpa [e3] using iS, by simpa [e1] using cA, by simpa [e2] using cB,
    by simpa [e4] using kA, by simpa [e5] using kB⟩

/-- one ledger operation (any caller, any operation, any arguments) preserves the invariant -/
theorem stepL_inv {l l' : L} {op : LOp} {o : Out} (hi : LInv l)
    (h : stepL l op = some (l', o)) : LInv l' := by
  cases op with
  | fund i f x => exact fund_inv hi h
  | call i op => exact call_inv hi h
  | xfer i j t x => exact xfer_inv hi h

theorem runL_cons (l : L) (op : LOp) (ops : List LOp) :
    runL l (op :: ops) = runL (match stepL l op with | some (l', _) => l' | none => l) ops := rfl

theorem runL_append (l : L) (a b : List LOp) : runL l (a ++ b) = runL (runL l a) b := by
  simp [runL, List.foldl_append]

theorem runL_inv (ops : List LOp) {l : L} (hi : LInv l) : LInv (runL l ops) := by
  induction ops generalizing l with
  | nil => exact hi
  | cons op ops ih =>
    rw [runL_cons]
    cases h : stepL l op with
    | none => exact ih hi
    | some r => obtain ⟨l1, o⟩ := r; exact ih (stepL_inv hi h)

theorem sumOf_init (funds : List (Nat × Nat)) :
    sumOf (·.lp) (funds.map fun f => (⟨f.1, f.2, 0, 0, 0⟩ : Acct)) = 0 ∧
    sumOf (·.lkA) (funds.map fun f => (⟨f.1, f.2, 0, 0, 0⟩ : Acct)) = 0 ∧
    sumOf (·.lkB) (funds.map fun f => (⟨f.1, f.2, 0, 0, 0⟩ : Acct)) = 0 := by
  induction funds with
  | nil => exact ⟨rfl, rfl, rfl⟩
  | cons f fs ih =>
    obtain ⟨h1, h2, h3⟩ := ih
    simp only [List.map_cons, sumOf]
    omega

theorem initL_inv (t sp : Nat) (ad : Option Nat) (cap : Nat) (funds : List (Nat × Nat)) :
    LInv (initL t sp ad cap funds) := by
  obtain ⟨h1, h2, h3⟩ := sumOf_init funds
  refine ⟨inv_init t sp ad cap, rfl, rfl, rfl, ?_, ?_, ?_, ?_, ?_⟩ <;> simp only [initL]
  · rw [h1]; rfl
  · show _ = _ + 0 + 0 + 0 + 0 + 0
    omega
  · show _ = _ + 0 + 0 + 0 + 0 + 0
    omega
  · exact h2
  · exact h3

/-! ### the ledger's pair is a pair reached by `Pair.run` -/

/-- the `Pair.Op`s of the successful calls of a ledger history -/
def pairOps : L → List LOp → List Op
  | _, [] => []
  | l, op :: ops =>
    match stepL l op with
    | none => pairOps l ops
    | some (l', _) =>
      match op with
      | .call _ o => o :: pairOps l' ops
      | .fund _ _ _ => pairOps l' ops
      | .xfer _ _ _ _ => pairOps l' ops

/-- the pair inside the ledger after a ledger history is the pair after the history of its
    successful calls (a call the ledger rejects because the caller's wallet is short is a
    failed transaction: it is skipped) -/
theorem runL_p (ops : List LOp) (l : L) : (runL l ops).p = Pair.run l.p (pairOps l ops) := by
  induction ops generalizing l with
  | nil => rfl
  | cons op ops ih =>
    rw [runL_cons]
    cases h : stepL l op with
    | none =>
      simp only [pairOps, h]
      exact ih l
    | some r =>
      obtain ⟨l1, o⟩ := r
      cases op with
      | fund i f x =>
        obtain ⟨_, _, e1, _⟩ := stepL_fund_spec h
        simp only [pairOps, h]
        rw [ih l1, e1]
      | call i op =>
        obtain ⟨p', _, _, hs, _, _, e1, _⟩ := stepL_call_spec h
        simp only [pairOps, h]
        rw [ih l1, e1]
        simp [Pair.run, hs]
      | xfer i j t x =>
        obtain ⟨_, _, rfl⟩ := stepL_xfer_spec h
        simp only [pairOps, h]
        rw [ih]

/-! ### the pair's own LP never decreases -/

theorem stepL_pairLp_mono {l l' : L} {op : LOp} {o : Out} (hi : LInv l)
    (h : stepL l op = some (l', o)) : l.pairLp ≤ l'.pairLp := by
  have hi' := stepL_inv hi h
  cases op with
  | fund i f x =>
    obtain ⟨_, _, _, _, _, e4, _⟩ := stepL_fund_spec h
    omega
  | call i op =>
    obtain ⟨p', _, _, hs, _, _, e1, _⟩ := stepL_call_spec h
    have := (step_stepFlow hi.inv hs).own
    have h1 := hi.pairLp
    have h2 := hi'.pairLp
    rw [e1] at h2
    omega
  | xfer i j t x =>
    obtain ⟨_, _, rfl⟩ := stepL_xfer_spec h
    exact Nat.le_refl _

theorem runL_pairLp_mono (ops : List LOp) {l : L} (hi : LInv l) :
    l.pairLp ≤ (runL l ops).pairLp := by
  induction ops generalizing l with
  | nil => exact Nat.le_refl _
  | cons op ops ih =>
    rw [runL_cons]
    cases h : stepL l op with
    | none => exact ih hi
    | some r =>
      obtain ⟨l1, o⟩ := r
      exact Nat.le_trans (stepL_pairLp_mono hi h) (ih (stepL_inv hi h))

end Mx.PairLedger
