/-
  The stored lock options stay admissible along every history: only `addLockOptions` writes them.
-/
import MxModel.Lemmas.EnergyC09

namespace Mx.Energy

theorem debit_opts {s s1 : St} {a n amt : Nat} (h : s.debit a n amt = some s1) : s1.opts = s.opts := by
  obtain ⟨_, rfl⟩ := debit_spec h; rfl

theorem ensureNonce_opts (s : St) (u : Nat) : (s.ensureNonce u).opts = s.opts := by
  unfold St.ensureNonce; split <;> rfl

theorem ensureWNonce_opts (s : St) (u : Nat) : (s.ensureWNonce u).opts = s.opts := by
  unfold St.ensureWNonce; split <;> rfl

theorem unlockPays_opts (ps : List (Nat × Nat)) {s s2 : St} {c : Nat} {e e2 : Entry} {tot : Nat}
    (h : unlockPays s c e ps = some (s2, e2, tot)) : s2.opts = s.opts := by
  induction ps generalizing s e tot with
  | nil =>
    simp only [unlockPays, Option.some.injEq, Prod.mk.injEq] at h
    obtain ⟨rfl, _⟩ := h; rfl
  | cons p ps ih =>
    obtain ⟨n, amt⟩ := p
    simp only [unlockPays, Option.bind_eq_bind, Option.bind_eq_some_iff, req_eq_some,
      Option.pure_def, Option.some.injEq, Prod.mk.injEq] at h
    obtain ⟨u, _, s1, hdeb, _, _, _, _, e1, _, ⟨s2', e2', tot'⟩, hrec, rfl, rfl, rfl⟩ := h
    have h1 := ih hrec
    have h2 := debit_opts hdeb
    exact h1.trans h2

theorem mergePays_opts (ps : List (Nat × Nat)) {s s2 : St} {c : Nat} {e e2 : Entry}
    {accE accW accE' accW' : Nat}
    (h : mergePays s c e accE accW ps = some (s2, e2, accE', accW')) : s2.opts = s.opts := by
  induction ps generalizing s e accE accW with
  | nil =>
    simp only [mergePays, Option.some.injEq, Prod.mk.injEq] at h
    obtain ⟨rfl, _⟩ := h; rfl
  | cons p ps ih =>
    obtain ⟨n, amt⟩ := p
    simp only [mergePays, Option.bind_eq_bind, Option.bind_eq_some_iff, req_eq_some] at h
    obtain ⟨u, _, s1, hdeb, _, _, e1, _, _, _, hrec⟩ := h
    have h1 := ih hrec
    have h2 := debit_opts hdeb
    exact h1.trans h2

theorem deductPays_opts (ps : List (Nat × Nat)) {s s2 : St} {esc c : Nat} {e e2 : Entry}
    (h : deductPays s esc c e ps = some (s2, e2)) : s2.opts = s.opts := by
  induction ps generalizing s e with
  | nil =>
    simp only [deductPays, Option.some.injEq, Prod.mk.injEq] at h
    obtain ⟨rfl, _⟩ := h; rfl
  | cons p ps ih =>
    obtain ⟨n, amt⟩ := p
    simp only [deductPays, Option.bind_eq_bind, Option.bind_eq_some_iff, req_eq_some] at h
    obtain ⟨u, _, s1, hdeb, _, _, e1, _, hrec⟩ := h
    have h1 := ih hrec
    have h2 := debit_opts hdeb
    exact h1.trans h2

theorem addPays_opts (ps : List (Nat × Nat)) {s s2 : St} {esc c : Nat} {e e2 : Entry}
    (h : addPays s esc c e ps = some (s2, e2)) : s2.opts = s.opts := by
  induction ps generalizing s e with
  | nil =>
    simp only [addPays, Option.some.injEq, Prod.mk.injEq] at h
    obtain ⟨rfl, _⟩ := h; rfl
  | cons p ps ih =>
    obtain ⟨n, amt⟩ := p
    simp only [addPays, Option.bind_eq_bind, Option.bind_eq_some_iff] at h
    obtain ⟨u, _, s1, hdeb, hrec⟩ := h
    have h1 := ih hrec
    have h2 := debit_opts hdeb
    exact h1.trans h2

theorem claimEntries_opts (qs : List UEntry) {s s2 : St} {paid : Nat}
    (h : claimEntries s qs = some (s2, paid)) : s2.opts = s.opts := by
  induction qs generalizing s paid with
  | nil =>
    simp only [claimEntries, Option.some.injEq, Prod.mk.injEq] at h
    obtain ⟨rfl, _⟩ := h; rfl
  | cons q qs ih =>
    simp only [claimEntries, Option.bind_eq_bind, Option.bind_eq_some_iff, sub?_eq_some,
      Option.pure_def, Option.some.injEq, Prod.mk.injEq] at h
    obtain ⟨s1, hdeb, pen, _, b, _, pp, _, ⟨s2', paid'⟩, hrec, rfl, _⟩ := h
    have h1 := ih hrec
    have h2 := debit_opts hdeb
    exact h1.trans h2

theorem cancelEntries_opts (qs : List UEntry) {s s2 : St} {c : Nat} {e e2 : Entry}
    (h : cancelEntries s c e qs = some (s2, e2)) : s2.opts = s.opts := by
  induction qs generalizing s e with
  | nil =>
    simp only [cancelEntries, Option.some.injEq, Prod.mk.injEq] at h
    obtain ⟨rfl, _⟩ := h; rfl
  | cons q qs ih =>
    simp only [cancelEntries, Option.bind_eq_bind, Option.bind_eq_some_iff, sub?_eq_some] at h
    obtain ⟨u, _, s1, hdeb, b, _, bs, _, pen, _, pp, _, hrec⟩ := h
    have h1 := ih hrec
    have h2 := debit_opts hdeb
    exact h1.trans h2

/-- every operation other than configuration leaves the option list alone; configuration keeps
    it admissible -/
theorem step_opts {s s' : St} {op : Op} {o : Out} (ha : Admissible s.opts)
    (h : step s op = some (s', o)) : Admissible s'.opts := by
  cases op <;> simp only [step] at h
  case lock =>
    obtain ⟨_, _, _, _, _, _, _, _, rfl⟩ := lockTokens_spec h
    show Admissible (s.ensureNonce _).opts
    rw [ensureNonce_opts]; exact ha
  case extend c n amt epochs dest =>
    simp only [extendLock, Option.bind_eq_bind, Option.bind_eq_some_iff, req_eq_some,
      Option.pure_def, Option.some.injEq, Prod.mk.injEq] at h
    obtain ⟨_, _, _, _, _, _, _, _, _, _, old, _, s0, hdeb, _, _, e0, _, _, _, rfl, _⟩ := h
    show Admissible (s0.ensureNonce _).opts
    rw [ensureNonce_opts, debit_opts hdeb]; exact ha
  case unlock =>
    simp only [unlockTokens, Option.bind_eq_bind, Option.bind_eq_some_iff, req_eq_some, sub?_eq_some,
      Option.pure_def, Option.some.injEq, Prod.mk.injEq] at h
    obtain ⟨_, _, _, _, ⟨s1, e, tot⟩, hp, circ, _, rfl, _⟩ := h
    show Admissible s1.opts
    rw [unlockPays_opts _ hp]; exact ha
  case merge c orig ps =>
    cases ps with
    | nil => simp [mergeTokens] at h
    | cons p rest =>
      obtain ⟨n1, a1⟩ := p
      simp only [mergeTokens, Option.bind_eq_bind, Option.bind_eq_some_iff, req_eq_some,
        Option.pure_def, Option.some.injEq, Prod.mk.injEq] at h
      obtain ⟨_, _, _, _, _, _, u1, _, s1, hdeb, _, _, e1, _, ⟨s2, e2, accE, accW⟩, hp, _, _, _, _,
        rfl, _⟩ := h
      show Admissible (s2.ensureNonce _).opts
      rw [ensureNonce_opts, mergePays_opts _ hp, debit_opts hdeb]; exact ha
  case unlockEarly =>
    simp only [unlockEarly, Option.bind_eq_bind, Option.bind_eq_some_iff, req_eq_some, sub?_eq_some,
      Option.pure_def, Option.some.injEq, Prod.mk.injEq] at h
    obtain ⟨_, _, u, _, s1, hdeb, _, _, e, _, pen, _, _, _, _, _, circ, _, rfl, _⟩ := h
    show Admissible s1.opts
    rw [debit_opts hdeb]; exact ha
  case reduce =>
    simp only [reduceLock, Option.bind_eq_bind, Option.bind_eq_some_iff, req_eq_some, sub?_eq_some,
      Option.pure_def, Option.some.injEq, Prod.mk.injEq] at h
    obtain ⟨_, _, _, _, _, _, u, _, s1, hdeb, _, _, newEp, _, _, _, e, _, pen, _, _, _, _, _, _, _,
      circ, _, rfl, _⟩ := h
    show Admissible (s1.ensureNonce _).opts
    rw [ensureNonce_opts, debit_opts hdeb]; exact ha
  case lockVirtual =>
    simp only [lockVirtual, Option.bind_eq_bind, Option.bind_eq_some_iff, req_eq_some,
      Option.pure_def, Option.some.injEq, Prod.mk.injEq] at h
    obtain ⟨_, _, _, _, _, _, _, _, _, _, _, _, rfl, _⟩ := h
    show Admissible (s.ensureNonce _).opts
    rw [ensureNonce_opts]; exact ha
  case claim =>
    simp only [claimUnlocked, Option.bind_eq_bind, Option.bind_eq_some_iff, req_eq_some,
      Option.pure_def, Option.some.injEq, Prod.mk.injEq] at h
    obtain ⟨_, _, ⟨s1, paid⟩, hp, rfl, _⟩ := h
    show Admissible s1.opts
    rw [claimEntries_opts _ hp]; exact ha
  case cancel =>
    simp only [cancelUnbond, Option.bind_eq_bind, Option.bind_eq_some_iff, req_eq_some,
      Option.pure_def, Option.some.injEq, Prod.mk.injEq] at h
    obtain ⟨_, _, ⟨s1, e⟩, hp, _, _, rfl, _⟩ := h
    show Admissible s1.opts
    rw [cancelEntries_opts _ hp]; exact ha
  case lockFunds =>
    simp only [lockFunds, Option.bind_eq_bind, Option.bind_eq_some_iff, req_eq_some,
      Option.pure_def, Option.some.injEq, Prod.mk.injEq] at h
    obtain ⟨_, _, _, _, ⟨s1, e⟩, hp, _, _, rfl, _⟩ := h
    show Admissible s1.opts
    rw [deductPays_opts _ hp]; exact ha
  case withdraw =>
    simp only [withdraw, Option.bind_eq_bind, Option.bind_eq_some_iff, req_eq_some,
      Option.pure_def, Option.some.injEq, Prod.mk.injEq] at h
    obtain ⟨_, _, x, _, _, _, ⟨s1, e⟩, hp, _, _, rfl, _⟩ := h
    show Admissible s1.opts
    rw [addPays_opts _ hp]; exact ha
  case cancelTransfer =>
    simp only [cancelTransfer, Option.bind_eq_bind, Option.bind_eq_some_iff, req_eq_some,
      Option.pure_def, Option.some.injEq, Prod.mk.injEq] at h
    obtain ⟨x, _, ⟨s1, e⟩, hp, _, _, rfl, _⟩ := h
    show Admissible s1.opts
    rw [addPays_opts _ hp]; exact ha
  case wrap c n amt =>
    simp only [wrap, Option.bind_eq_bind, Option.bind_eq_some_iff, req_eq_some,
      Option.pure_def, Option.some.injEq, Prod.mk.injEq] at h
    obtain ⟨⟨s1, e⟩, hp, _, _, rfl, _⟩ := h
    show Admissible (s1.ensureWNonce n).opts
    rw [ensureWNonce_opts, deductPays_opts _ hp]; exact ha
  case unwrap =>
    simp only [unwrap, Option.bind_eq_bind, Option.bind_eq_some_iff, req_eq_some, sub?_eq_some,
      Option.pure_def, Option.some.injEq, Prod.mk.injEq] at h
    obtain ⟨n, _, wb, _, ⟨s1, e⟩, hp, _, _, rfl, _⟩ := h
    show Admissible s1.opts
    rw [addPays_opts _ hp]; exact ha
  case xferWrapped =>
    simp only [xferWrapped, Option.bind_eq_bind, Option.bind_eq_some_iff, req_eq_some, sub?_eq_some,
      Option.pure_def, Option.some.injEq, Prod.mk.injEq] at h
    obtain ⟨_, _, _, _, wb, _, rfl, _⟩ := h
    exact ha
  case cfg op =>
    simp only [Option.map_eq_some_iff, Prod.mk.injEq] at h
    obtain ⟨s1, h1, rfl, _⟩ := h
    exact cfg_opts h1 ha
  case advance e =>
    split at h
    · simp only [Option.some.injEq, Prod.mk.injEq] at h
      obtain ⟨rfl, _⟩ := h
      exact ha
    · simp at h

theorem run_opts (ops : List Op) {s : St} (ha : Admissible s.opts) : Admissible (run s ops).opts := by
  induction ops generalizing s with
  | nil => simpa [run] using ha
  | cons op ops ih =>
    simp only [run, List.foldl_cons]
    cases hst : step s op with
    | none => exact ih ha
    | some r =>
      obtain ⟨s1, o⟩ := r
      exact ih (step_opts ha hst)

end Mx.Energy
