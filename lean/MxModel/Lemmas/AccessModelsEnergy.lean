/-
  Pause facts about the EXECUTABLE energy-factory world model (Core/Energy.lean: energy factory +
  token-unstake + lkmex-transfer + locked-token wrapper), proved from the endpoint definitions
  (helper lemmas for Props/C19Models.lean).
-/
import MxModel.Core.Energy

namespace Mx.Energy

theorem lockTokens_unpaused {s : St} {c amt ep d : Nat} {r : St × Out}
    (h : lockTokens s c amt ep d = some r) : s.paused = false := by
  simp only [lockTokens, Option.bind_eq_bind, Option.bind_eq_some_iff, req_eq_some] at h
  obtain ⟨_, hp, _⟩ := h; exact hp

theorem extendLock_unpaused {s : St} {c n amt ep d : Nat} {r : St × Out}
    (h : extendLock s c n amt ep d = some r) : s.paused = false := by
  simp only [extendLock, Option.bind_eq_bind, Option.bind_eq_some_iff, req_eq_some] at h
  obtain ⟨_, hp, _⟩ := h; exact hp

theorem unlockTokens_unpaused {s : St} {c : Nat} {ps : List (Nat × Nat)} {r : St × Out}
    (h : unlockTokens s c ps = some r) : s.paused = false := by
  simp only [unlockTokens, Option.bind_eq_bind, Option.bind_eq_some_iff, req_eq_some] at h
  obtain ⟨_, hp, _⟩ := h; exact hp

theorem mergeTokens_unpaused {s : St} {c orig : Nat} {ps : List (Nat × Nat)} {r : St × Out}
    (h : mergeTokens s c orig ps = some r) : s.paused = false ∧ (orig = 0 ∨ c ∈ s.wl) := by
  cases ps with
  | nil => simp [mergeTokens] at h
  | cons p rest =>
    obtain ⟨n1, a1⟩ := p
    simp only [mergeTokens, Option.bind_eq_bind, Option.bind_eq_some_iff, req_eq_some] at h
    obtain ⟨_, hp, _, _, _, hw, _⟩ := h; exact ⟨hp, hw⟩

theorem unlockEarly_unpaused {s : St} {c n amt : Nat} {r : St × Out}
    (h : unlockEarly s c n amt = some r) : s.paused = false := by
  simp only [unlockEarly, Option.bind_eq_bind, Option.bind_eq_some_iff, req_eq_some] at h
  obtain ⟨_, hp, _⟩ := h; exact hp

theorem reduceLock_unpaused {s : St} {c n amt ep : Nat} {r : St × Out}
    (h : reduceLock s c n amt ep = some r) : s.paused = false := by
  simp only [reduceLock, Option.bind_eq_bind, Option.bind_eq_some_iff, req_eq_some] at h
  obtain ⟨_, hp, _⟩ := h; exact hp

theorem lockVirtual_unpaused {s : St} {c amt ep d ea : Nat} {r : St × Out}
    (h : lockVirtual s c amt ep d ea = some r) : s.paused = false ∧ c ∈ s.wl := by
  simp only [lockVirtual, Option.bind_eq_bind, Option.bind_eq_some_iff, req_eq_some] at h
  obtain ⟨_, hp, _, _, _, _, _, _, _, hw, _⟩ := h; exact ⟨hp, hw⟩

theorem cancelUnbond_unpaused {s : St} {c : Nat} {r : St × Out}
    (h : cancelUnbond s c = some r) : s.paused = false := by
  simp only [cancelUnbond, Option.bind_eq_bind, Option.bind_eq_some_iff, req_eq_some] at h
  obtain ⟨_, _, _, _, _, hp, _⟩ := h; exact hp

theorem lockFunds_unpaused {s : St} {c recv : Nat} {ps : List (Nat × Nat)} {r : St × Out}
    (h : lockFunds s c recv ps = some r) : s.paused = false := by
  simp only [lockFunds, Option.bind_eq_bind, Option.bind_eq_some_iff, req_eq_some] at h
  obtain ⟨_, _, _, _, _, _, _, hp, _⟩ := h; exact hp

theorem withdraw_unpaused {s : St} {c sender : Nat} {r : St × Out}
    (h : withdraw s c sender = some r) : s.paused = false := by
  simp only [withdraw, Option.bind_eq_bind, Option.bind_eq_some_iff, req_eq_some] at h
  obtain ⟨_, _, _, _, _, _, _, _, _, hp, _⟩ := h; exact hp

theorem cancelTransfer_unpaused {s : St} {sender recv : Nat} {r : St × Out}
    (h : cancelTransfer s sender recv = some r) : s.paused = false := by
  simp only [cancelTransfer, Option.bind_eq_bind, Option.bind_eq_some_iff, req_eq_some] at h
  obtain ⟨_, _, _, _, _, hp, _⟩ := h; exact hp

theorem wrap_unpaused {s : St} {c n amt : Nat} {r : St × Out}
    (h : wrap s c n amt = some r) : s.paused = false := by
  simp only [wrap, Option.bind_eq_bind, Option.bind_eq_some_iff, req_eq_some] at h
  obtain ⟨_, _, _, hp, _⟩ := h; exact hp

theorem unwrap_unpaused {s : St} {c wn amt : Nat} {r : St × Out}
    (h : unwrap s c wn amt = some r) : s.paused = false := by
  simp only [unwrap, Option.bind_eq_bind, Option.bind_eq_some_iff, req_eq_some] at h
  obtain ⟨_, _, _, _, _, _, _, hp, _⟩ := h; exact hp

end Mx.Energy
