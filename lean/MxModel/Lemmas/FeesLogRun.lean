/-
  Fees collector, paid log (Lemmas/FeesLog.lean) over whole histories:
  * every entry's amount is the share formula on the week's frozen total, the claimer's recorded
    energy decayed to that week, and the week's total energy (`stepLog_amount`);
  * no (user, week, token) key occurs twice in the log of a history (`paidLog_once`);
  * the log is complete: the per-week payment ledger is the sum of the log (`paidLog_sum`).
-/
import MxModel.Lemmas.FeesLog
import MxModel.Lemmas.WeeklyClose

namespace Mx.Fees

open Mx.Weekly

/-! ### the formula -/

/-- **amount of a log entry.**  In a state satisfying the world invariant, every entry produced by
    an operation is, with `s'` the state after it: the share `⌊total · e / E⌋` where `total` is the
    amount frozen for that week and token (`collected`, an entry of `totalRewardsForWeek`),
    `e` the claimer's recorded energy (pre-state progress) decayed to that week and `E` the week's
    total energy (the same before and after the operation); and it is positive. -/
theorem stepLog_amount {s : St} (hI : AllInv s) {op : Op} {e : Entry} (h : e ∈ stepLog s op) :
    e.amount = share ((next s op).a.collected e.week e.tok)
        (eForP s.w.progress e.user e.week) (s.w.totalEnergy e.week) ∧
    (e.tok, (next s op).a.collected e.week e.tok) ∈ (next s op).w.totalRewards e.week ∧
    0 < e.amount ∧ (next s op).w.totalEnergy e.week = s.w.totalEnergy e.week := by
  obtain ⟨u, r, hu, hs, hc, hm⟩ := stepLog_cases h
  have hL' : LInv (next s op) := (next_AllInv hI op).l
  rw [next_of_some hs] at hL' ⊢
  obtain ⟨heu, hwk, hne, hamt, total, htot⟩ := mem_entriesOf hm
  subst heu
  have hc' : claimCore s e.user = some (r.1, r.2) := by rw [hc]
  obtain ⟨W, r0, hW, hcm, _, _, _⟩ := claimCore_spec hc'
  obtain ⟨hWc, _⟩ := week_some hW
  obtain ⟨_, _, hwin⟩ := claimCore_once hW hc'
  obtain ⟨hlo4, hltW, p, hp, hple⟩ := hwin e.week e.tok hne
  obtain ⟨g1, a, h1, hle, ha, hg', hca, _⟩ := claimMulti_spec hcm
  obtain ⟨hw1, hw2, hw3⟩ := loop_window _ W hle
  rw [hp] at hw1 hw2 hw3 ha
  simp only [startProgress] at hw1 hw2 hw3 ha
  have hpaid0 : (accumulateAdditional s W).a.paid = s.a.paid := accumulateAdditional_paid s W
  -- the week is one of those the loop walks
  have hin : (loopStart p W).week ≤ e.week ∧ e.week < (loopStart p W).week + loopLen p W := by
    by_contra hout
    apply hne
    rw [hca, ← hpaid0]
    exact (claimLoop_paid _ ha).1 e.week e.tok (by dsimp only; omega)
  have hmono := (claimLoop_paid _ ha).2 e.week e.tok
  dsimp only at hmono
  rw [hpaid0, ← hca] at hmono
  have hbook := claimLoop_amounts _ ha e.week hin.1 hin.2 e.tok
  dsimp only at hbook
  rw [hpaid0, ← hca] at hbook
  have hrw : r.1.w.totalRewards e.week = a.g.totalRewards e.week := by rw [hg']; rfl
  have hE : r.1.w.totalEnergy e.week = g1.totalEnergy e.week := by
    rw [hg']
    show a.g.totalEnergy e.week = _
    rw [(claimLoop_frame feesRewards_frame _ ha).1.totalEnergy]
  have hE1 : g1.totalEnergy e.week = s.w.totalEnergy e.week :=
    updateUser_energy_window h1 e.week (by omega) hlo4
  rw [← hrw, amountOf_paysFor (fun t => r.1.a.collected e.week t) _ _ _ _
    (hL'.frozenNodup e.week) (fun q hq => hL'.frozen e.week q hq)] at hbook
  have hmem : e.tok ∈ (r.1.w.totalRewards e.week).map Prod.fst :=
    List.mem_map.mpr ⟨(e.tok, total), htot, rfl⟩
  rw [if_pos hmem, entryE_loopStart_eq _ _ _ hin.1, hE1] at hbook
  have hfz := hL'.frozen e.week (e.tok, total) htot
  simp only at hfz
  refine ⟨?_, ?_, ?_, ?_⟩
  · rw [hamt, eForP_some hp]; omega
  · rw [← hfz]; exact htot
  · rw [hamt]; omega
  · rw [hE, hE1]

/-! ### no key twice -/

/-- two entries for the same user, week and token -/
def sameKey (e e' : Entry) : Prop := e.user = e'.user ∧ e.week = e'.week ∧ e.tok = e'.tok

/-- every logged entry lies in a completed week that its user's progress has already passed -/
def LogOk (s : St) (l : List Entry) : Prop :=
  ∀ e ∈ l, e.week < curWeek s ∧ ∀ p, s.w.progress e.user = some p → e.week < p.week

theorem entriesOf_pairwise (u : Nat) (s s' : St)
    (hnd : ∀ w, ((s'.w.totalRewards w).map Prod.fst).Nodup) :
    (entriesOf u s s').Pairwise (fun e e' => ¬ sameKey e e') := by
  unfold entriesOf
  rw [List.pairwise_flatMap]
  constructor
  · intro w _
    rw [List.pairwise_filterMap]
    have := hnd w
    unfold List.Nodup at this
    rw [List.pairwise_map] at this
    refine this.imp ?_
    intro p q hpq b hb b' hb' hk
    split at hb
    · split at hb'
      · simp only [Option.some.injEq] at hb hb'
        subst hb; subst hb'
        exact hpq hk.2.2
      · cases hb'
    · cases hb
  · refine (List.pairwise_lt_range (n := curWeek s)).imp ?_
    intro w1 w2 hlt x hx y hy hk
    simp only [List.mem_filterMap] at hx hy
    obtain ⟨p, _, hp⟩ := hx
    obtain ⟨q, _, hq⟩ := hy
    split at hp
    · split at hq
      · simp only [Option.some.injEq] at hp hq
        subst hp; subst hq
        have := hk.2.1
        simp only at this
        omega
      · cases hq
    · cases hp

theorem stepLog_pairwise {s : St} (hI : AllInv s) (op : Op) :
    (stepLog s op).Pairwise (fun e e' => ¬ sameKey e e') := by
  have hL' : LInv (next s op) := (next_AllInv hI op).l
  unfold stepLog
  split
  · rename_i u r hu hs
    rw [next_of_some hs] at hL'
    exact entriesOf_pairwise u s r.1 hL'.frozenNodup
  · exact List.Pairwise.nil

/-- new entries never repeat the key of an older one: the claimer's stored progress is at or
    before the paid week, whereas it is strictly after every week already logged for that user -/
theorem stepLog_fresh {s : St} {l : List Entry} (hO : LogOk s l) {op : Op} :
    ∀ a ∈ l, ∀ b ∈ stepLog s op, ¬ sameKey a b := by
  intro a ha b hb hk
  obtain ⟨_, _, _, p, hp, hple⟩ := stepLog_window hb
  have := (hO a ha).2 p (by rw [hk.1]; exact hp)
  have := hk.2.1
  omega

theorem curWeek_mono {s s' : St} (hf : s'.firstWeek = s.firstWeek) (he : s.epoch ≤ s'.epoch) :
    curWeek s ≤ curWeek s' := by
  unfold curWeek
  rw [hf]
  simp only [EPOCHS_IN_WEEK]
  have : (s.epoch - s.firstWeek) / 7 ≤ (s'.epoch - s.firstWeek) / 7 :=
    Nat.div_le_div_right (by omega)
  omega

theorem updateEnergyForUser_progress {g g' : Weekly.St} {user W : Nat} {cur : Energy}
    (hW : 1 ≤ W) (hI : GInv g) (h : updateEnergyForUser g user W cur = some g') :
    g'.progress = upd g.progress user (newOf cur W) := by
  have key : ∀ {g'}, updateEnergyAndProgress g user W cur = some g' →
      g'.progress = upd g.progress user (newOf cur W) := by
    intro g' h
    simp only [updateEnergyAndProgress, Option.bind_eq_bind, Option.bind_eq_some_iff,
      Option.pure_def, Option.some.injEq] at h
    obtain ⟨g1, h1, rfl⟩ := h
    obtain ⟨_, _, hp, _⟩ := updateUser_GRel hW hI h1
    show upd g1.progress user _ = _
    rw [hp]; rfl
  unfold updateEnergyForUser at h
  cases hq : g.progress user with
  | none =>
    simp only [hq, Option.bind_eq_bind, Option.pure_def, Option.bind_some] at h
    exact key h
  | some p =>
    simp only [hq, Option.bind_eq_bind, Option.bind_eq_some_iff] at h
    obtain ⟨_, _, h2⟩ := h
    exact key h2

theorem newOf_week' {cur : Energy} {W : Nat} {p : ClaimProgress} (h : newOf cur W = some p) :
    p.week = W := by
  unfold newOf at h
  split at h
  · simp only [Option.some.injEq] at h; subst h; rfl
  · cases h

/-- the log invariant is kept by every operation, with the operation's entries appended -/
theorem next_LogOk {s : St} (hI : AllInv s) {l : List Entry} (hO : LogOk s l) (op : Op) :
    LogOk (next s op) (l ++ stepLog s op) := by
  cases hs : step s op with
  | none =>
    rw [next_of_none hs, stepLog_of_none hs, List.append_nil]; exact hO
  | some r =>
    rw [next_of_some hs]
    have hs' : step s op = some (r.1, r.2) := by rw [hs]
    cases hcu : claimUser op with
    | some u =>
      -- a claim of `u` in week `W`
      have hc := step_of_claimUser hcu hs'
      obtain ⟨W, _, hW, _, hep, hfw, _⟩ := claimCore_spec hc
      obtain ⟨hWc, _⟩ := week_some hW
      have hcw : curWeek r.1 = curWeek s := by unfold curWeek; rw [hfw, hep]
      obtain ⟨hpu, hpo, _⟩ := claimCore_once hW hc
      intro e he
      rw [hcw]
      have hwk : e.week < curWeek s := by
        rcases List.mem_append.mp he with he | he
        · exact (hO e he).1
        · exact (stepLog_window he).2.2.1
      refine ⟨hwk, fun p hp => ?_⟩
      by_cases heu : e.user = u
      · rw [heu] at hp
        rcases hpu with hn | ⟨en, hn⟩
        · rw [hn] at hp; cases hp
        · rw [hn] at hp
          simp only [Option.some.injEq] at hp
          subst hp
          show e.week < W
          omega
      · rw [hpo e.user heu] at hp
        rcases List.mem_append.mp he with he | he
        · exact (hO e he).2 p hp
        · have := (stepLog_window he).1
          rw [hcu] at this
          simp only [Option.some.injEq] at this
          exact absurd this.symm heu
    | none =>
      rw [stepLog_of_not_claim hcu, List.append_nil]
      by_cases hue : ∃ u, op = .updateEnergy u
      · obtain ⟨u, rfl⟩ := hue
        obtain ⟨W, g, hW, hg, hr⟩ := step_updateEnergy hs'
        obtain ⟨hWc, _⟩ := week_some hW
        rw [hr]
        have hprog := updateEnergyForUser_progress (weekOf_pos hW) hI.w.1 hg
        intro e he
        refine ⟨(hO e he).1, fun p hp => ?_⟩
        simp only at hp
        rw [hprog] at hp
        by_cases heu : e.user = u
        · rw [heu, upd_same] at hp
          rw [newOf_week' hp, hWc]
          exact (hO e he).1
        · rw [upd_other _ _ heu] at hp
          exact (hO e he).2 p hp
      · have hne : ∀ u, op ≠ .updateEnergy u := fun u hu => hue ⟨u, hu⟩
        obtain ⟨hw, _, _, hfw, hep⟩ := step_other hcu hne hs'
        have hmono := curWeek_mono hfw hep
        intro e he
        refine ⟨Nat.lt_of_lt_of_le (hO e he).1 hmono, fun p hp => ?_⟩
        rw [hw] at hp
        exact (hO e he).2 p hp

/-- **no key twice**, generalised for the induction: an older log `pre` that satisfies the log
    invariant in `s` and has no repeated key stays so when the paid log of any history from `s`
    is appended -/
theorem paidLog_once_from (ops : List Op) : ∀ {s : St} (_ : AllInv s) {pre : List Entry}
    (_ : LogOk s pre) (_ : pre.Pairwise (fun e e' => ¬ sameKey e e')),
    (pre ++ paidLog s ops).Pairwise (fun e e' => ¬ sameKey e e') := by
  induction ops with
  | nil => intro s _ pre _ hP; simpa [paidLog] using hP
  | cons op ops ih =>
    intro s hI pre hO hP
    simp only [paidLog]
    rw [← List.append_assoc]
    refine ih (next_AllInv hI op) (next_LogOk hI hO op) ?_
    rw [List.pairwise_append]
    exact ⟨hP, stepLog_pairwise hI op, stepLog_fresh hO⟩

/-! ### the log is complete: ledger = Σ log -/

/-- Σ of the amounts logged for week `w` and token `t` -/
def logSum (l : List Entry) (w : Nat) (t : Tok) : Nat :=
  (l.map fun e => if e.week = w ∧ e.tok = t then e.amount else 0).sum

theorem logSum_nil (w : Nat) (t : Tok) : logSum [] w t = 0 := rfl

theorem exists_of_logSum_pos {l : List Entry} {w : Nat} {t : Tok} (h : 0 < logSum l w t) :
    ∃ e ∈ l, e.week = w ∧ e.tok = t ∧ 0 < e.amount := by
  induction l with
  | nil => exact absurd h (by simp [logSum])
  | cons e es ih =>
    unfold logSum at h ih
    simp only [List.map_cons, List.sum_cons] at h
    by_cases hk : e.week = w ∧ e.tok = t
    · by_cases hp : 0 < e.amount
      · exact ⟨e, List.mem_cons_self, hk.1, hk.2, hp⟩
      · rw [if_pos hk] at h
        obtain ⟨e', he', h'⟩ := ih (by omega)
        exact ⟨e', List.mem_cons_of_mem _ he', h'⟩
    · rw [if_neg hk, Nat.zero_add] at h
      obtain ⟨e', he', h'⟩ := ih h
      exact ⟨e', List.mem_cons_of_mem _ he', h'⟩

theorem logSum_append (l1 l2 : List Entry) (w : Nat) (t : Tok) :
    logSum (l1 ++ l2) w t = logSum l1 w t + logSum l2 w t := by
  unfold logSum; rw [List.map_append, List.sum_append]

theorem logSum_zero {l : List Entry} {w : Nat} {t : Tok}
    (h : ∀ e ∈ l, ¬ (e.week = w ∧ e.tok = t)) : logSum l w t = 0 := by
  induction l with
  | nil => rfl
  | cons e es ih =>
    unfold logSum at ih ⊢
    simp only [List.map_cons, List.sum_cons]
    rw [ih (fun e' he' => h e' (List.mem_cons_of_mem _ he')), if_neg (h e List.mem_cons_self)]

/-- one week's frozen list with distinct tokens: the logged amount of token `t` -/
theorem logSum_week (u w : Nat) (d : Tok → Nat) (c : Tok → Bool) (t : Tok) :
    ∀ (lst : List (Tok × Nat)), (lst.map Prod.fst).Nodup →
      logSum (lst.filterMap fun p => if c p.1 then some ⟨u, w, p.1, d p.1⟩ else none) w t =
        if t ∈ lst.map Prod.fst ∧ c t then d t else 0 := by
  intro lst
  induction lst with
  | nil => intro _; simp [logSum]
  | cons p ps ih =>
    intro hnd
    simp only [List.map_cons, List.nodup_cons] at hnd
    have ih' := ih hnd.2
    by_cases hpt : p.1 = t
    · subst hpt
      have hnot : p.1 ∉ ps.map Prod.fst := hnd.1
      have hrest : logSum (ps.filterMap fun q => if c q.1 then some ⟨u, w, q.1, d q.1⟩ else none) w p.1 = 0 := by
        rw [ih']; simp [hnot]
      by_cases hct : c p.1
      · rw [List.filterMap_cons_some (b := ⟨u, w, p.1, d p.1⟩) (by simp [hct])]
        have : logSum (⟨u, w, p.1, d p.1⟩ :: ps.filterMap fun q =>
            if c q.1 then some ⟨u, w, q.1, d q.1⟩ else none) w p.1 =
            d p.1 + logSum (ps.filterMap fun q => if c q.1 then some ⟨u, w, q.1, d q.1⟩ else none) w p.1 := by
          unfold logSum; simp
        rw [this, hrest]
        simp [hct]
      · rw [List.filterMap_cons_none (by simp [hct]), hrest]
        simp [hct]
    · have hiff : (t ∈ (p :: ps).map Prod.fst) ↔ (t ∈ ps.map Prod.fst) := by
        simp only [List.map_cons, List.mem_cons]
        constructor
        · rintro (h | h)
          · exact absurd h.symm hpt
          · exact h
        · exact Or.inr
      by_cases hct : c p.1
      · rw [List.filterMap_cons_some (b := ⟨u, w, p.1, d p.1⟩) (by simp [hct])]
        have : logSum (⟨u, w, p.1, d p.1⟩ :: ps.filterMap fun p =>
            if c p.1 then some ⟨u, w, p.1, d p.1⟩ else none) w t =
            logSum (ps.filterMap fun p => if c p.1 then some ⟨u, w, p.1, d p.1⟩ else none) w t := by
          unfold logSum; simp [hpt]
        rw [this, ih']
        simp only [hiff]
      · rw [List.filterMap_cons_none (by simp [hct]), ih']
        simp only [hiff]

/-- the entries of one claim, summed for `(w, t)`: the growth of the ledger when `w` is a
    completed week and `t` a token of the week's frozen list, else nothing -/
theorem logSum_entriesOf (u : Nat) (s s' : St)
    (hnd : ∀ w, ((s'.w.totalRewards w).map Prod.fst).Nodup) (w : Nat) (t : Tok) :
    logSum (entriesOf u s s') w t =
      if w < curWeek s ∧ t ∈ (s'.w.totalRewards w).map Prod.fst ∧ s'.a.paid w t ≠ s.a.paid w t then
        s'.a.paid w t - s.a.paid w t else 0 := by
  unfold entriesOf
  generalize curWeek s = K
  induction K with
  | zero => simp [logSum]
  | succ K ih =>
    rw [List.range_succ, List.flatMap_append, logSum_append, ih]
    simp only [List.flatMap_cons, List.flatMap_nil, List.append_nil]
    by_cases hw : w = K
    · subst hw
      have := logSum_week u w (fun t => s'.a.paid w t - s.a.paid w t)
        (fun t => decide (s'.a.paid w t ≠ s.a.paid w t)) t (s'.w.totalRewards w) (hnd w)
      simp only [decide_eq_true_eq] at this
      rw [this]
      simp only [Nat.lt_irrefl, false_and, if_false, Nat.zero_add, Nat.lt_succ_self, true_and, ne_eq]
    · have hz : logSum ((s'.w.totalRewards K).filterMap fun p =>
          if s'.a.paid K p.1 ≠ s.a.paid K p.1 then
            some ⟨u, K, p.1, s'.a.paid K p.1 - s.a.paid K p.1⟩ else none) w t = 0 := by
        apply logSum_zero
        intro e he hk
        simp only [List.mem_filterMap] at he
        obtain ⟨p, _, hp⟩ := he
        split at hp
        · simp only [Option.some.injEq] at hp; subst hp; exact hw hk.1.symm
        · cases hp
      rw [hz, Nat.add_zero]
      have : (w < K + 1) ↔ (w < K) := by omega
      simp only [this]

/-- **one operation: the ledger grows by exactly what the operation logs** -/
theorem stepLog_sum {s : St} (hI : AllInv s) (op : Op) (w : Nat) (t : Tok) :
    (next s op).a.paid w t = s.a.paid w t + logSum (stepLog s op) w t := by
  cases hs : step s op with
  | none => rw [next_of_none hs, stepLog_of_none hs, logSum_nil]; rfl
  | some r =>
    have hL' : LInv (next s op) := (next_AllInv hI op).l
    rw [next_of_some hs] at hL' ⊢
    have hs' : step s op = some (r.1, r.2) := by rw [hs]
    cases hcu : claimUser op with
    | none =>
      rw [stepLog_of_not_claim hcu, logSum_nil]
      by_cases hue : ∃ u, op = .updateEnergy u
      · obtain ⟨u, rfl⟩ := hue
        obtain ⟨_, g, _, _, hr⟩ := step_updateEnergy hs'
        rw [hr]; rfl
      · have hne : ∀ u, op ≠ .updateEnergy u := fun u hu => hue ⟨u, hu⟩
        rw [(step_other hcu hne hs').2.1]; rfl
    | some u =>
      have hlog : stepLog s op = entriesOf u s r.1 := by unfold stepLog; rw [hcu, hs]
      rw [hlog, logSum_entriesOf u s r.1 hL'.frozenNodup]
      have hc := step_of_claimUser hcu hs'
      obtain ⟨W, r0, hW, hcm, _, _, _⟩ := claimCore_spec hc
      obtain ⟨hWc, _⟩ := week_some hW
      obtain ⟨g1, a, h1, hle, ha, hg', hca, _⟩ := claimMulti_spec hcm
      have hpaid0 : (accumulateAdditional s W).a.paid = s.a.paid := accumulateAdditional_paid s W
      have hmono := (claimLoop_paid _ ha).2 w t
      dsimp only at hmono
      rw [hpaid0, ← hca] at hmono
      by_cases hne : r.1.a.paid w t = s.a.paid w t
      · simp [hne]
      · obtain ⟨_, _, hwin⟩ := claimCore_once hW hc
        obtain ⟨hlo4, hltW, p, hp, hple⟩ := hwin w t hne
        obtain ⟨hw1, hw2, hw3⟩ := loop_window _ W hle
        rw [hp] at hw1 hw2 hw3 ha
        simp only [startProgress] at hw1 hw2 hw3 ha
        have hin : (loopStart p W).week ≤ w ∧ w < (loopStart p W).week + loopLen p W := by
          by_contra hout
          apply hne
          rw [hca, ← hpaid0]
          exact (claimLoop_paid _ ha).1 w t (by dsimp only; omega)
        have hbook := claimLoop_amounts _ ha w hin.1 hin.2 t
        dsimp only at hbook
        rw [hpaid0, ← hca] at hbook
        have hrw : r.1.w.totalRewards w = a.g.totalRewards w := by rw [hg']; rfl
        rw [← hrw, amountOf_paysFor (fun t => r.1.a.collected w t) _ _ _ _
          (hL'.frozenNodup w) (fun q hq => hL'.frozen w q hq)] at hbook
        have hmem : t ∈ (r.1.w.totalRewards w).map Prod.fst := by
          by_contra hnot
          rw [if_neg hnot] at hbook
          exact hne (by omega)
        have hcond : w < curWeek s ∧ t ∈ (r.1.w.totalRewards w).map Prod.fst ∧
            r.1.a.paid w t ≠ s.a.paid w t := ⟨by rw [← hWc]; exact hltW, hmem, hne⟩
        rw [if_pos hcond]
        omega

/-- **the log is complete**: after any history from a state satisfying the invariant, the
    ledger of every week and token grew by exactly the sum of the logged amounts -/
theorem paidLog_sum_from (ops : List Op) : ∀ {s : St} (_ : AllInv s) (w : Nat) (t : Tok),
    (run s ops).a.paid w t = s.a.paid w t + logSum (paidLog s ops) w t := by
  induction ops with
  | nil => intro s _ w t; simp [run, paidLog, logSum]
  | cons op ops ih =>
    intro s hI w t
    rw [run_cons, ih (next_AllInv hI op) w t, stepLog_sum hI op w t]
    simp only [paidLog, logSum_append]
    omega

end Mx.Fees
