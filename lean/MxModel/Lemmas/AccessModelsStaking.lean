/-
  Access / pause facts about the EXECUTABLE farm-staking model (Core/Staking.lean), proved from the
  definitions of its endpoints (helper lemmas for Props/C19Models.lean).
-/
import MxModel.Lemmas.StakingSpec

namespace Mx.Staking

open Mx.Weekly

/-! ### every user endpoint that moves funds needs `state == Active` -/

theorem stakeCore_needs_active {s : St} {caller orig amount : Nat} {v : Bool} {adds : List Pay}
    {r : St × Out} (h : stakeCore s caller orig amount v adds = some r) : s.active = true := by
  simp only [stakeCore, Option.bind_eq_bind, Option.bind_eq_some_iff, req_eq_some] at h
  obtain ⟨_, _, _, _, _, _, _, _, _, hact, _⟩ := h
  exact hact

theorem claimBase_needs_active {s : St} {caller orig : Nat} {pays : List Pay} {m : ClaimMid}
    (h : claimBase s caller orig pays = some m) : s.active = true := by
  simp only [claimBase, Option.bind_eq_bind, Option.bind_eq_some_iff, req_eq_some] at h
  obtain ⟨_, _, _, hact, _⟩ := h
  exact hact

theorem claimCore_needs_active {s : St} {caller orig : Nat} {pays : List Pay} {nv : Option Nat}
    {r : St × Out} (h : claimCore s caller orig pays nv = some r) : s.active = true := by
  simp only [claimCore, Option.bind_eq_bind, Option.bind_eq_some_iff] at h
  obtain ⟨m, hm, _⟩ := h
  exact claimBase_needs_active hm

theorem compound_needs_active {s : St} {caller : Nat} {pays : List Pay} {r : St × Out}
    (h : compound s caller pays = some r) : s.active = true := by
  simp only [compound, Option.bind_eq_bind, Option.bind_eq_some_iff, req_eq_some] at h
  obtain ⟨_, _, _, hact, _⟩ := h
  exact hact

theorem unstakeCore_needs_active {s : St} {caller orig : Nat} {pay : Pay} {x : Option Nat}
    {r : St × Out} (h : unstakeCore s caller orig pay x = some r) : s.active = true := by
  simp only [unstakeCore, Option.bind_eq_bind, Option.bind_eq_some_iff, req_eq_some] at h
  obtain ⟨_, _, _, _, _, hact, _⟩ := h
  exact hact

theorem unbondFarm_needs_active {s : St} {caller : Nat} {pay : Pay} {r : St × Out}
    (h : unbondFarm s caller pay = some r) : s.active = true := by
  simp only [unbondFarm, Option.bind_eq_bind, Option.bind_eq_some_iff, req_eq_some] at h
  obtain ⟨_, _, _, hact, _⟩ := h
  exact hact

theorem mergeTokens_needs_active {s : St} {caller : Nat} {pays : List Pay} {r : St × Out}
    (h : mergeTokens s caller pays = some r) : s.active = true := by
  simp only [mergeTokens, Option.bind_eq_bind, Option.bind_eq_some_iff, req_eq_some] at h
  obtain ⟨_, _, _, hact, _⟩ := h
  exact hact

theorem claimBoostedRewards_needs {s : St} {caller : Nat} {user : Option Nat} {r : St × Out}
    (h : claimBoostedRewards s caller user = some r) :
    s.active = true ∧ (user = none ∨ user = some caller) := by
  simp only [claimBoostedRewards, Option.bind_eq_bind, Option.bind_eq_some_iff, req_eq_some] at h
  obtain ⟨_, hu, _, _, _, hact, _⟩ := h
  exact ⟨hact, hu⟩

/-! ### the endpoints with an original-caller argument / the proxy endpoints / on behalf -/

theorem stakeFarm_spec {s : St} {caller : Nat} {orig : Option Nat} {amount : Nat} {adds : List Pay}
    {r : St × Out} (h : stakeFarm s caller orig amount adds = some r) :
    (orig = none ∧ stakeCore s caller caller amount false adds = some r) ∨
    (∃ o, orig = some o ∧ caller ∈ s.whitelist ∧ stakeCore s caller o amount false adds = some r) := by
  cases orig with
  | none => exact Or.inl ⟨rfl, h⟩
  | some o =>
    simp only [stakeFarm, Option.bind_eq_bind, Option.bind_eq_some_iff, req_eq_some] at h
    obtain ⟨_, hw, h⟩ := h
    exact Or.inr ⟨o, rfl, hw, h⟩

theorem stakeProxy_spec {s : St} {caller orig amount : Nat} {adds : List Pay} {r : St × Out}
    (h : stakeProxy s caller orig amount adds = some r) :
    caller ∈ s.whitelist ∧ stakeCore s caller orig amount true adds = some r := by
  simp only [stakeProxy, Option.bind_eq_bind, Option.bind_eq_some_iff, req_eq_some] at h
  obtain ⟨_, hw, h⟩ := h
  exact ⟨hw, h⟩

theorem stakeOnBehalf_spec {s : St} {caller user amount : Nat} {adds : List Pay} {r : St × Out}
    (h : stakeOnBehalf s caller user amount adds = some r) :
    (user, caller) ∈ s.hub ∧ allOwnedBy s.md user adds = some () ∧
    stakeCore s caller user amount false adds = some r := by
  simp only [stakeOnBehalf, Option.bind_eq_bind, Option.bind_eq_some_iff, req_eq_some] at h
  obtain ⟨_, hh, _, ha, h⟩ := h
  exact ⟨hh, ha, h⟩

theorem claimRewards_spec {s : St} {caller : Nat} {orig : Option Nat} {pay : Pay} {r : St × Out}
    (h : claimRewards s caller orig pay = some r) :
    (orig = none ∧ claimCore s caller caller [pay] none = some r) ∨
    (∃ o, orig = some o ∧ caller ∈ s.whitelist ∧ claimCore s caller o [pay] none = some r) := by
  cases orig with
  | none => exact Or.inl ⟨rfl, h⟩
  | some o =>
    simp only [claimRewards, Option.bind_eq_bind, Option.bind_eq_some_iff, req_eq_some] at h
    obtain ⟨_, hw, h⟩ := h
    exact Or.inr ⟨o, rfl, hw, h⟩

theorem claimNewValue_spec {s : St} {caller orig nv : Nat} {pay : Pay} {r : St × Out}
    (h : claimNewValue s caller orig nv pay = some r) :
    caller ∈ s.whitelist ∧ claimCore s caller orig [pay] (some nv) = some r := by
  simp only [claimNewValue, Option.bind_eq_bind, Option.bind_eq_some_iff, req_eq_some] at h
  obtain ⟨_, hw, h⟩ := h
  exact ⟨hw, h⟩

/-- every payment records `user` as its owner -/
theorem allOwnedBy_all : ∀ (pays : List Pay) {m : Nat → Option Meta} {user : Nat},
    allOwnedBy m user pays = some () → ∀ p ∈ pays, ∃ a, posOf m p.1 = some a ∧ a.owner = user := by
  intro pays
  induction pays with
  | nil => intro m user _ p hp; cases hp
  | cons q rest ih =>
    intro m user h p hp
    simp only [allOwnedBy, Option.bind_eq_bind, Option.bind_eq_some_iff, req_eq_some] at h
    obtain ⟨a, ha, _, ho, hrest⟩ := h
    rcases List.mem_cons.mp hp with rfl | hp
    · exact ⟨a, ha, ho⟩
    · exact ih hrest p hp

theorem claimOnBehalf_spec {s : St} {caller : Nat} {pays : List Pay} {r : St × Out}
    (h : claimOnBehalf s caller pays = some r) :
    ∃ user, user ≠ 0 ∧ pays ≠ [] ∧ (∀ p ∈ pays, ∃ a, posOf s.md p.1 = some a ∧ a.owner = user) ∧
      (user, caller) ∈ s.hub ∧ claimCore s caller user pays none = some r := by
  simp only [claimOnBehalf, Option.bind_eq_bind, Option.bind_eq_some_iff, req_eq_some] at h
  obtain ⟨user, hu, _, hh, hc⟩ := h
  simp only [claimOwner, Option.bind_eq_bind, Option.bind_eq_some_iff, req_eq_some, Option.pure_def,
    Option.some.injEq] at hu
  obtain ⟨p, hp, a, ha, _, hne, _, hall, rfl⟩ := hu
  refine ⟨a.owner, hne, ?_, allOwnedBy_all pays hall, hh, hc⟩
  intro hnil; rw [hnil] at hp; cases hp

theorem unstakeFarm_spec {s : St} {caller : Nat} {orig : Option Nat} {pay : Pay} {r : St × Out}
    (h : unstakeFarm s caller orig pay = some r) :
    (orig = none ∧ unstakeCore s caller caller pay none = some r) ∨
    (∃ o, orig = some o ∧ caller ∈ s.whitelist ∧ unstakeCore s caller o pay none = some r) := by
  cases orig with
  | none => exact Or.inl ⟨rfl, h⟩
  | some o =>
    simp only [unstakeFarm, Option.bind_eq_bind, Option.bind_eq_some_iff, req_eq_some] at h
    obtain ⟨_, hw, h⟩ := h
    exact Or.inr ⟨o, rfl, hw, h⟩

theorem unstakeProxy_spec {s : St} {caller orig x : Nat} {pay : Pay} {r : St × Out}
    (h : unstakeProxy s caller orig x pay = some r) :
    caller ∈ s.whitelist ∧ unstakeCore s caller orig pay (some x) = some r := by
  simp only [unstakeProxy, Option.bind_eq_bind, Option.bind_eq_some_iff, req_eq_some] at h
  obtain ⟨_, hw, h⟩ := h
  exact ⟨hw, h⟩

theorem step_some {s : St} {op : Op} {r : St × Out} (h : step s op = some r) :
    callerOk s op = true ∧ stepCore s op = some r := by
  simp only [step, Option.bind_eq_bind, Option.bind_eq_some_iff, req_eq_some] at h
  obtain ⟨_, hc, h⟩ := h
  exact ⟨hc, h⟩

/-! ### where an on-behalf claim's position and reward accounting go -/

theorem mergeParts_owner (m : Nat → Option Meta) : ∀ (pays : List Pay) {base out : Attrs},
    mergeParts m base pays = some out → out.owner = base.owner := by
  intro pays
  induction pays with
  | nil =>
    intro base out h
    simp only [mergeParts, Option.some.injEq] at h
    rw [h]
  | cons p rest ih =>
    intro base out h
    simp only [mergeParts, Option.bind_eq_bind, Option.bind_eq_some_iff] at h
    obtain ⟨a, _, part, _, mg, hmg, h⟩ := h
    rw [ih h]
    simp only [Attrs.mergeWith, Option.bind_eq_bind, Option.bind_eq_some_iff, req_eq_some,
      Option.pure_def, Option.some.injEq] at hmg
    obtain ⟨_, _, rfl⟩ := hmg
    rfl

/-- the position created by a claim records `orig` as owner and is credited to the CALLER's
    account; the reward `o.c` is `base + boosted` where `boosted` is what `claimBoostedYields`
    computes for `orig` (its weekly entitlement, its energy) -/
theorem claimCore_payee {s s' : St} {caller orig : Nat} {pays : List Pay} {o : Out}
    (h : claimCore s caller orig pays none = some (s', o)) :
    ∃ m : ClaimMid, claimBase s caller orig pays = some m ∧
      claimBoostedYields m.s1 orig (m.s1.userTotal orig) = some (m.w1, m.b1, m.boosted) ∧
      o.c = m.base + m.boosted ∧ m.merged.owner = orig ∧
      s'.md o.a = some (.pos m.merged) ∧ s'.hold caller o.a = m.merged.amount := by
  simp only [claimCore, Option.bind_eq_bind, Option.bind_eq_some_iff] at h
  obtain ⟨m, hm, hf⟩ := h
  refine ⟨m, hm, ?_⟩
  simp only [claimFinish, newSupply, newUserTotal, Option.bind_eq_bind, Option.bind_eq_some_iff,
    req_eq_some, sub?_eq_some, Option.pure_def, Option.some.injEq, Prod.mk.injEq, Option.getD_none] at hf
  obtain ⟨_, _, _, _, _, _, _, _, w2, _, _, _, rfl, rfl⟩ := hf
  simp only [claimBase, Option.bind_eq_bind, Option.bind_eq_some_iff, req_eq_some, Option.pure_def,
    Option.some.injEq] at hm
  obtain ⟨hold0, _, _, _, p, hp, first, _, g, hg, tok, _, r, hr, ut1, _, merged, hmg, rfl⟩ := hm
  refine ⟨hr, rfl, ?_, ?_, ?_⟩
  · exact mergeParts_owner _ _ hmg
  · simp [upd]
  · simp [upd2]

end Mx.Staking
