/-
  Farm: a FROZEN week of the claim window has nothing accumulated any more (`AccInv`), in every
  reachable state.  Together with the pool life cycle (`PoolInv.week`: accum + remaining + paid +
  collected = cut), the frozen-pool accounting (`PaidRel.frozen`: remaining + paid = R) and
  "uncollected above the marker" this gives  R = cutW w : the frozen pool of a claimable week is
  exactly the boosted share that was cut into that week.

  Why it holds: `take_reward_slice` accumulates into the CURRENT week only; `collect_rewards_for_week`
  (the freeze) takes the whole accumulated amount (`accum w := 0`) and is only ever called for
  completed weeks; no current or future week is frozen.
-/
import MxModel.Lemmas.FarmClose
import MxModel.Lemmas.FarmColl

namespace Mx.Farm

open Mx.Weekly (upd Energy ClaimProgress)

/-- the cells the invariant reads -/
structure AccV where
  accum : Nat → Nat
  tr : Nat → List (Weekly.Tok × Nat)
  epoch : Nat
  fws : Nat

def accv (s : St) : AccV := ⟨s.b.accum, s.w.totalRewards, s.epoch, s.firstWeekStart⟩

/-- in week `W`: no current or future week is frozen; a frozen week of the claim window has nothing
    accumulated -/
structure AccOk (accum : Nat → Nat) (tr : Nat → List (Weekly.Tok × Nat)) (W : Nat) : Prop where
  fresh : ∀ w, W ≤ w → tr w = []
  acc : ∀ w, w < W → W ≤ w + 4 → tr w ≠ [] → accum w = 0

/-- **frozen weeks of the claim window have an empty accumulator** -/
def AccInv (s : St) : Prop := ∀ W, s.week = some W → AccOk s.b.accum s.w.totalRewards W

theorem AccInv.of_accv {s s' : St} (h : AccInv s) (e : accv s' = accv s) : AccInv s' := by
  have h1 : s'.b.accum = s.b.accum := congrArg AccV.accum e
  have h2 : s'.w.totalRewards = s.w.totalRewards := congrArg AccV.tr e
  have h3 : s'.epoch = s.epoch := congrArg AccV.epoch e
  have h4 : s'.firstWeekStart = s.firstWeekStart := congrArg AccV.fws e
  intro W hW
  rw [h1, h2]
  exact h W (by unfold St.week at hW ⊢; rw [← h3, ← h4]; exact hW)

theorem av_of_plv {s s' : St} (e : poolView s' = poolView s) : accv s' = accv s := by
  have h1 : s'.b = s.b := congrArg PoolView.b e
  have h2 : s'.w.totalRewards = s.w.totalRewards := congrArg PoolView.tr e
  have h3 : s'.epoch = s.epoch := congrArg PoolView.epoch e
  have h4 : s'.firstWeekStart = s.firstWeekStart := congrArg PoolView.fws e
  unfold accv; rw [h1, h2, h3, h4]

/-! ### helpers that do not touch the view -/

theorem takePayments_accv {l : List (Nat × Nat)} {s s' : St} {c : Nat} (h : takePayments s c l = some s') :
    accv s' = accv s := av_of_plv (takePayments_plv h)
theorem checkAndUpdate_accv {l : List (Nat × Nat)} {s s' : St} {c : Nat}
    (h : checkAndUpdate s c l = some s') : accv s' = accv s := av_of_plv (checkAndUpdate_plv h)
theorem createToken_accv {s s' : St} {d n : Nat} {a : Attr} (h : createToken s d a = some (s', n)) :
    accv s' = accv s := av_of_plv (createToken_plv h)
theorem removeFarming_accv {s s' : St} {a p : Nat} (h : removeFarming s a p = some s') :
    accv s' = accv s := av_of_plv (removeFarming_plv h)
theorem setFarmSupplyWeek_accv {s s' : St} {v : Nat} (h : setFarmSupplyWeek s v = some s') :
    accv s' = accv s := by obtain ⟨_, _, rfl⟩ := setFarmSupplyWeek_spec h; rfl
theorem payReward_accv {s s' : St} {u b bo : Nat} (h : payReward s u b bo = some s') :
    accv s' = accv s := by obtain ⟨_, _, rfl, _⟩ := payReward_spec h; rfl
theorem payRewardIf_accv {s s' : St} {k : Kind} {u b bo : Nat} (h : payRewardIf s k u b bo = some s') :
    accv s' = accv s := by
  unfold payRewardIf at h
  split at h
  · exact payReward_accv h
  · simp only [Option.some.injEq] at h; rw [← h]
theorem compoundMove_accv {s s' : St} {b bo : Nat} (h : compoundMove s b bo = some s') : accv s' = accv s := by
  simp only [compoundMove, Option.bind_eq_bind, Option.bind_eq_some_iff, sub?_eq_some, Option.pure_def,
    Option.some.injEq] at h
  obtain ⟨_, _, rfl⟩ := h; rfl

/-! ### helpers that touch it -/

/-- only the weekly module changes, keeping `totalRewardsForWeek` except for week `W − 5` -/
theorem AccInv.of_w {s : St} (hI : AccInv s) (g : Weekly.St)
    (hg : ∀ W, s.week = some W → ∀ w, w + 5 ≠ W → g.totalRewards w = s.w.totalRewards w) :
    AccInv { s with w := g } := by
  intro W hW
  have hW' : s.week = some W := hW
  have k := hI W hW'
  refine ⟨fun w hw => ?_, fun w h1 h2 hne => ?_⟩
  · show g.totalRewards w = []
    rw [hg W hW' w (by omega)]; exact k.fresh w hw
  · show s.b.accum w = 0
    have hne' : g.totalRewards w ≠ [] := hne
    rw [hg W hW' w (by omega)] at hne'
    exact k.acc w h1 h2 hne'

theorem generate_acc {s s' : St} {c c' : Cache} (hI : AccInv s) (h : generate s c = some (s', c')) :
    AccInv s' := by
  obtain ⟨b', rfl, _, _, hb⟩ := generate_spec h
  rcases hb with ⟨_, rfl⟩ | ⟨_, W0, hW0, rfl⟩
  · exact hI.of_accv rfl
  · intro W hW
    have hW' : s.week = some W := hW
    have : W0 = W := by rw [hW0] at hW'; simp only [Option.some.injEq] at hW'; exact hW'
    subst this
    have k := hI W0 hW'
    refine ⟨k.fresh, fun w h1 h2 hne => ?_⟩
    show upd s.b.accum W0 (s.b.accum W0 + cutOf s) w = 0
    rw [Weekly.upd_other _ _ (by omega)]
    exact k.acc w h1 h2 hne

theorem updateEnergyAndProgress_acc {s s' : St} {u : Nat} (hI : AccInv s)
    (h : updateEnergyAndProgress s u = some s') : AccInv s' := by
  simp only [updateEnergyAndProgress, Option.bind_eq_bind, Option.bind_eq_some_iff, Option.pure_def,
    Option.some.injEq] at h
  obtain ⟨W, hW, g, hg, rfl⟩ := h
  refine hI.of_w g (fun W' hW' w hw => ?_)
  rw [hW] at hW'; simp only [Option.some.injEq] at hW'; subst hW'
  exact weekly_updateEnergyAndProgress_totalRewards hg w hw

theorem updateEnergyForUser_acc {s s' : St} {u : Nat} (hI : AccInv s)
    (h : updateEnergyForUser s u = some s') : AccInv s' := by
  simp only [updateEnergyForUser, Option.bind_eq_bind, Option.bind_eq_some_iff, Option.pure_def,
    Option.some.injEq] at h
  obtain ⟨W, hW, g, hg, rfl⟩ := h
  refine hI.of_w g (fun W' hW' w hw => ?_)
  rw [hW] at hW'; simp only [Option.some.injEq] at hW'; subst hW'
  exact weekly_updateEnergyForUser_totalRewards hg w hw

theorem clearUserEnergyIfNeeded_acc {s s' : St} {u : Nat} (hI : AccInv s)
    (h : clearUserEnergyIfNeeded s u = some s') : AccInv s' := by
  unfold clearUserEnergyIfNeeded at h
  split at h
  · simp only [Option.some.injEq] at h; subst h; exact hI
  · simp only [Option.bind_eq_bind, Option.bind_eq_some_iff, Option.pure_def, Option.some.injEq] at h
    obtain ⟨W, hW, mem, _, g, hg, rfl⟩ := h
    refine hI.of_w g (fun W' hW' w hw => ?_)
    rw [hW] at hW'; simp only [Option.some.injEq] at hW'; subst hW'
    exact weekly_clearUserEnergy_totalRewards hg w hw

/-- one `get_user_rewards_for_week` call: a week that is frozen afterwards has an empty accumulator,
    if that was so before (the freeze itself empties it) -/
theorem boostedRewards_accOK {mem : BCfg} {f : Nat} {g g' : Weekly.St} {c c' : BSt} {week e E : Nat}
    {r : List (Weekly.Tok × Nat)} (h : boostedRewards mem f g c week e E = some (g', c', r)) (w : Nat)
    (hk : g.totalRewards w ≠ [] → c.accum w = 0) : g'.totalRewards w ≠ [] → c'.accum w = 0 := by
  rcases boostedRewards_cases h with ⟨_, rfl, rfl⟩ | ⟨fa, c1, l, _, _, _, _, _, hcg, hrest⟩
  · exact hk
  · obtain ⟨hcase, hoth, _⟩ := collectAndGet_boosted hcg
    have hacc : c'.accum = c1.accum := by
      rcases hrest with ⟨_, rfl⟩ | ⟨_, _, _, _, _, _, _, _, rfl⟩ <;> rfl
    rw [hacc]
    by_cases hw : w = week
    · subst hw
      rcases hcase with ⟨_, _, _, ha, _⟩ | ⟨_, rfl, rfl, _⟩
      · intro _; exact ha
      · exact hk
    · obtain ⟨h1, h2, _⟩ := hoth w hw
      rw [h1, h2]; exact hk

theorem claimLoop_accOK {mem : BCfg} {f : Nat} : ∀ (n : Nat) {a a' : Weekly.ClaimAcc BSt},
    Weekly.claimLoop (boostedRewards mem f) n a = some a' → ∀ w,
    (a.g.totalRewards w ≠ [] → a.c.accum w = 0) → (a'.g.totalRewards w ≠ [] → a'.c.accum w = 0) := by
  intro n
  induction n with
  | zero =>
    intro a a' h w hk
    simp only [Weekly.claimLoop, Option.some.injEq] at h
    subst h; exact hk
  | succ n ih =>
    intro a a' h w hk
    simp only [Weekly.claimLoop, Option.bind_eq_some_iff] at h
    obtain ⟨a1, h1, h2⟩ := h
    obtain ⟨r, hr, _, _⟩ := Weekly.claimSingle_spec h1
    exact ih h2 w (boostedRewards_accOK hr w hk)

theorem claimBoostedYields_acc {s s' : St} {u r : Nat} (hI : AccInv s)
    (h : claimBoostedYields s u = some (s', r)) : AccInv s' := by
  have h0 := h
  unfold claimBoostedYields at h
  split at h
  · rename_i hc
    exact updateEnergyAndProgress_acc hI (claimBoostedYields_none_spec hc h0).2
  · simp only [Option.bind_eq_bind, Option.bind_eq_some_iff, Option.pure_def, Option.some.injEq,
      Prod.mk.injEq] at h
    obtain ⟨W, hW, mem, _, ⟨g', c', rl⟩, hx, rfl, _⟩ := h
    obtain ⟨g1, a, h1, hle, ha, hg', hc', _⟩ := Weekly.claimMulti_spec hx
    obtain ⟨hw1, _, _⟩ := Weekly.loop_window _ W hle
    have le := claimLoop_pool _ ha
    have hout := le.outside
    simp only at hout
    intro W' hW'
    have hW'' : s.week = some W' := hW'
    have : W' = W := by rw [hW] at hW''; simp only [Option.some.injEq] at hW''; exact hW''.symm
    subst this
    have k := hI W' hW
    have hTR : g'.totalRewards = a.g.totalRewards := by rw [hg']; rfl
    refine ⟨fun w hw => ?_, fun w hlt h4 hne => ?_⟩
    · show g'.totalRewards w = []
      rw [hTR, (hout w (Or.inr (by omega))).1, updateUserEnergy_totalRewards h1 w (by omega)]
      exact k.fresh w hw
    · show c'.accum w = 0
      rw [hc']
      have hne' : a.g.totalRewards w ≠ [] := by rw [← hTR]; exact hne
      refine claimLoop_accOK _ ha w ?_ hne'
      intro hne1
      have hne2 : s.w.totalRewards w ≠ [] := by
        rw [← updateUserEnergy_totalRewards h1 w (by omega)]; exact hne1
      exact k.acc w hlt h4 hne2

theorem claimOnlyBoostedPayment_acc {s s' : St} {u r : Nat} (hI : AccInv s)
    (h : claimOnlyBoostedPayment s u = some (s', r)) : AccInv s' := by
  simp only [claimOnlyBoostedPayment, Option.bind_eq_bind, Option.bind_eq_some_iff, Option.pure_def] at h
  obtain ⟨⟨s1, r1⟩, h1, h⟩ := h
  have k1 := claimBoostedYields_acc hI h1
  split at h
  · simp only [Option.some.injEq, Prod.mk.injEq] at h
    obtain ⟨rfl, _⟩ := h; exact k1
  · simp only [Option.bind_eq_some_iff, sub?_eq_some, Option.some.injEq, Prod.mk.injEq] at h
    obtain ⟨_, _, rfl, _⟩ := h; exact k1.of_accv rfl

theorem claimTail_acc {s s' : St} {c : Bool} {u b bo : Nat} (hI : AccInv s)
    (h : claimTail s c u b bo = some s') : AccInv s' := by
  unfold claimTail at h
  split at h
  · simp only [Option.bind_eq_some_iff] at h
    obtain ⟨s1, h1, h2⟩ := h
    exact updateEnergyAndProgress_acc (hI.of_accv (compoundMove_accv h1)) h2
  · exact hI.of_accv (payReward_accv h)

theorem settle_acc {s s' : St} (hI : AccInv s) (h : settle s = some s') : AccInv s' := by
  simp only [settle, Option.bind_eq_bind, Option.bind_eq_some_iff, Option.pure_def, Option.some.injEq] at h
  obtain ⟨⟨s1, c1⟩, h1, rfl⟩ := h
  exact (generate_acc hI h1).of_accv rfl

/-! ### endpoints -/

theorem enterCore_acc {s s' : St} {caller orig tokenTo amt : Nat} {extra : List (Nat × Nat)} {o : Out}
    (hI : AccInv s) (h : enterCore s caller orig tokenTo amt extra = some (s', o)) : AccInv s' := by
  simp only [enterCore, Option.bind_eq_bind, Option.bind_eq_some_iff, req_eq_some, Option.pure_def,
    Option.some.injEq, Prod.mk.injEq] at h
  obtain ⟨_, _, s0, h0, ⟨s1, boosted⟩, h1, s1', h1', _, hact, s2, h2, ⟨s4, c1⟩, h4, merged, hm,
    ⟨s5, n⟩, h5, s6, h6, s8, h8, s9, h9, rfl, rfl⟩ := h
  have i0 : AccInv (addFarming s0 amt) := (hI.of_accv (takePayments_accv h0)).of_accv rfl
  have i1 := claimOnlyBoostedPayment_acc i0 h1
  have i1' := i1.of_accv (payRewardIf_accv h1')
  have i2 := i1'.of_accv (checkAndUpdate_accv h2)
  have i3 : AccInv (increaseUser s2 orig amt) := i2.of_accv rfl
  have i4 : AccInv s4 := generate_acc i3 h4
  have i5 := i4.of_accv (createToken_accv h5)
  have i6 := i5.of_accv (setFarmSupplyWeek_accv h6)
  have i7 : AccInv (Cache.drop s6 { c1 with supply := c1.supply + amt }) := i6.of_accv rfl
  have i8 : AccInv s8 := i7.of_accv (payRewardIf_accv h8)
  exact updateEnergyAndProgress_acc i8 h9

theorem claimCore_acc {s s' : St} {caller orig : Nat} {pays : List (Nat × Nat)} {cmp : Bool} {o : Out}
    (hI : AccInv s) (h : claimCore s caller orig pays cmp = some (s', o)) : AccInv s' := by
  unfold claimCore at h
  replace h := bpeel h; obtain ⟨⟨n1, a1⟩, hhead, h⟩ := h
  replace h := bpeel h; obtain ⟨s0, h0, h⟩ := h
  replace h := bpeel h; obtain ⟨_, _, h⟩ := h
  replace h := bpeel h; obtain ⟨_, _, h⟩ := h
  replace h := bpeel h; obtain ⟨at1, hat, h⟩ := h
  replace h := bpeel h; obtain ⟨⟨s1, c1⟩, h1, h⟩ := h
  replace h := bpeel h; obtain ⟨part, hpart, h⟩ := h
  replace h := bpeel h; obtain ⟨⟨s2, boosted⟩, h2, h⟩ := h
  replace h := bpeel h; obtain ⟨res, _, h⟩ := h
  replace h := bpeel h; obtain ⟨s3, h3, h⟩ := h
  replace h := bpeel h; obtain ⟨merged, hm, h⟩ := h
  replace h := bpeel h; obtain ⟨⟨s5, n⟩, h5, h⟩ := h
  replace h := bpeel h; obtain ⟨s6, h6, h⟩ := h
  replace h := bpeel h; obtain ⟨s8, h8, h⟩ := h
  simp only [Option.pure_def, Option.some.injEq, Prod.mk.injEq] at h
  obtain ⟨rfl, _⟩ := h
  have i0 := hI.of_accv (takePayments_accv h0)
  have i1 := generate_acc i0 h1
  have i2 := claimBoostedYields_acc i1 h2
  have i3 := i2.of_accv (checkAndUpdate_accv h3)
  have i5 : AccInv s5 := by
    cases cmp
    · exact i3.of_accv (createToken_accv h5)
    · have i4 : AccInv (increaseUser s3 orig (baseReward s1.dsc c1.rps a1 part.rps + boosted)) :=
        i3.of_accv rfl
      exact i4.of_accv (createToken_accv h5)
  have i6 := i5.of_accv (setFarmSupplyWeek_accv h6)
  have i7 : AccInv (Cache.drop s6 { c1 with reserve := res, supply := if cmp = true then
      c1.supply + (baseReward s1.dsc c1.rps a1 part.rps + boosted) else c1.supply }) := i6.of_accv rfl
  exact claimTail_acc i7 h8

theorem exitFarm_acc {s s' : St} {caller : Nat} {opt : Option Nat} {n a : Nat} {o : Out}
    (hI : AccInv s) (h : exitFarm s caller opt n a = some (s', o)) : AccInv s' := by
  unfold exitFarm at h
  replace h := bpeel h; obtain ⟨orig, _, h⟩ := h
  replace h := bpeel h; obtain ⟨s0, h0, h⟩ := h
  replace h := bpeel h; obtain ⟨_, _, h⟩ := h
  replace h := bpeel h; obtain ⟨att, hat, h⟩ := h
  replace h := bpeel h; obtain ⟨⟨s1, c1⟩, h1, h⟩ := h
  replace h := bpeel h; obtain ⟨part, hpart, h⟩ := h
  replace h := bpeel h; obtain ⟨⟨s2, boosted⟩, h2, h⟩ := h
  replace h := bpeel h; obtain ⟨res, _, h⟩ := h
  replace h := bpeel h; obtain ⟨sup, hsup, h⟩ := h
  replace h := bpeel h; obtain ⟨s4, h4, h⟩ := h
  replace h := bpeel h; obtain ⟨pen, hpen, h⟩ := h
  replace h := bpeel h; obtain ⟨out, _, h⟩ := h
  replace h := bpeel h; obtain ⟨s6, h6, h⟩ := h
  replace h := bpeel h; obtain ⟨s7, h7, h⟩ := h
  replace h := bpeel h; obtain ⟨s8, h8, h⟩ := h
  simp only [Option.pure_def, Option.some.injEq, Prod.mk.injEq] at h
  obtain ⟨rfl, _⟩ := h
  have i0 := hI.of_accv (takePayments_accv h0)
  have i1 := generate_acc i0 h1
  have i2 := claimBoostedYields_acc i1 h2
  have i3 : AccInv (decreaseOwner s2 att.owner a) := i2.of_accv rfl
  have i4 : AccInv s4 := i3.of_accv (setFarmSupplyWeek_accv h4)
  have i5 : AccInv (Cache.drop s4 { c1 with reserve := res, supply := sup }) := i4.of_accv rfl
  have i6 : AccInv s6 := i5.of_accv (removeFarming_accv h6)
  have i7 := i6.of_accv (payReward_accv h7)
  exact clearUserEnergyIfNeeded_acc i7 h8

theorem mergeFarmTokens_acc {s s' : St} {caller : Nat} {opt : Option Nat} {pays : List (Nat × Nat)}
    {o : Out} (hI : AccInv s) (h : mergeFarmTokens s caller opt pays = some (s', o)) : AccInv s' := by
  simp only [mergeFarmTokens, Option.bind_eq_bind, Option.bind_eq_some_iff, req_eq_some, Option.pure_def,
    Option.some.injEq, Prod.mk.injEq] at h
  obtain ⟨_, hact, orig, _, _, _, s0, h0, ⟨s1, boosted⟩, h1, s2, h2, merged, hm, ⟨s3, n⟩, h3, s4, h4, rfl, rfl⟩ := h
  have i1 := claimOnlyBoostedPayment_acc (hI.of_accv (takePayments_accv h0)) h1
  exact ((i1.of_accv (checkAndUpdate_accv h2)).of_accv (createToken_accv h3)).of_accv (payReward_accv h4)

theorem claimBoostedRewards_acc {s s' : St} {caller : Nat} {optUser : Option Nat} {o : Out}
    (hI : AccInv s) (h : claimBoostedRewards s caller optUser = some (s', o)) : AccInv s' := by
  simp only [claimBoostedRewards, Option.bind_eq_bind, Option.bind_eq_some_iff, req_eq_some, Option.pure_def,
    Option.some.injEq, Prod.mk.injEq, sub?_eq_some] at h
  obtain ⟨_, _, _, _, _, hact, ⟨s1, c1⟩, h1, ⟨s2, boosted⟩, h2, res, ⟨hle, rfl⟩, s3, h3, s4, h4, rfl, rfl⟩ := h
  have i2 := claimBoostedYields_acc (generate_acc hI h1) h2
  have i4 := (i2.of_accv (setFarmSupplyWeek_accv h3)).of_accv (payReward_accv h4)
  have i5 : AccInv (Cache.drop s4 { c1 with reserve := c1.reserve - boosted }) := i4.of_accv rfl
  exact i5

/-! ### one operation, histories -/

theorem advance_acc {s : St} (ht : s.firstWeekStart ≤ s.epoch) (hI : AccInv s) (b e : Nat)
    (he : s.epoch ≤ e) : AccInv { s with block := b, epoch := e } := by
  obtain ⟨W, hW⟩ := week_of_time ht
  have k := hI W hW
  intro W' hW'
  have hle : W ≤ W' := WV.weekOf_mono he hW hW'
  refine ⟨fun w hw => k.fresh w (by omega), fun w h1 h2 hne => ?_⟩
  by_cases hw : W ≤ w
  · exact absurd (k.fresh w hw) hne
  · exact k.acc w (by omega) (by omega) hne

theorem step_accInv {s s' : St} {op : Op} {o : Out} (ht : s.firstWeekStart ≤ s.epoch) (hI : AccInv s)
    (h : step s op = some (s', o)) : AccInv s' := by
  cases op <;> simp only [step, known] at h
  case enter c oo a e =>
    split at h <;> [skip; exact absurd h (by simp)]
    simp only [enterFarm, Option.bind_eq_bind, Option.bind_eq_some_iff] at h
    obtain ⟨_, _, h⟩ := h
    exact enterCore_acc hI h
  case enterOB c u a e =>
    split at h <;> [skip; exact absurd h (by simp)]
    simp only [enterFarmOnBehalf, Option.bind_eq_bind, Option.bind_eq_some_iff] at h
    obtain ⟨_, _, _, _, h⟩ := h
    exact enterCore_acc hI h
  case claim c oo p =>
    split at h <;> [skip; exact absurd h (by simp)]
    simp only [claimRewards, Option.bind_eq_bind, Option.bind_eq_some_iff] at h
    obtain ⟨_, _, h⟩ := h
    exact claimCore_acc hI h
  case claimOB c p =>
    split at h <;> [skip; exact absurd h (by simp)]
    simp only [claimRewardsOnBehalf, Option.bind_eq_bind, Option.bind_eq_some_iff] at h
    obtain ⟨_, _, _, _, _, _, h⟩ := h
    exact claimCore_acc hI h
  case compound c oo p =>
    split at h <;> [skip; exact absurd h (by simp)]
    simp only [compoundRewards, Option.bind_eq_bind, Option.bind_eq_some_iff, req_eq_some] at h
    obtain ⟨_, hk, _, _, h⟩ := h
    exact claimCore_acc hI h
  case exit c oo n a =>
    split at h <;> [skip; exact absurd h (by simp)]
    exact exitFarm_acc hI h
  case merge c oo p =>
    split at h <;> [skip; exact absurd h (by simp)]
    exact mergeFarmTokens_acc hI h
  case claimBoosted c u =>
    split at h <;> [skip; exact absurd h (by simp)]
    exact claimBoostedRewards_acc hI h
  case transfer a b n x =>
    split at h <;> [skip; exact absurd h (by simp)]
    split at h <;> [skip; exact absurd h (by simp)]
    simp only [noOut, Option.map_eq_some_iff, Prod.mk.injEq] at h
    obtain ⟨s1, h1, rfl, _⟩ := h
    simp only [transfer, Option.bind_eq_bind, Option.bind_eq_some_iff, req_eq_some, sub?_eq_some,
      Option.pure_def, Option.some.injEq] at h1
    obtain ⟨_, _, _, _, _, _, _, _, rfl⟩ := h1
    exact hI.of_accv rfl
  case setEnergy u a l t =>
    simp only [Option.some.injEq, Prod.mk.injEq] at h
    obtain ⟨rfl, _⟩ := h
    exact hI.of_accv rfl
  case updateEnergy u =>
    simp only [noOut, Option.map_eq_some_iff, Prod.mk.injEq] at h
    obtain ⟨s1, h1, rfl, _⟩ := h
    exact updateEnergyForUser_acc hI h1
  case setPerBlock c x =>
    simp only [noOut, Option.map_eq_some_iff, Prod.mk.injEq] at h
    obtain ⟨s1, h1, rfl, _⟩ := h
    simp only [setPerBlock, Option.bind_eq_bind, Option.bind_eq_some_iff, Option.pure_def,
      Option.some.injEq] at h1
    obtain ⟨_, _, _, _, s2, h2, rfl⟩ := h1
    exact (settle_acc hI h2).of_accv rfl
  case startProduce c =>
    simp only [noOut, Option.map_eq_some_iff, Prod.mk.injEq] at h
    obtain ⟨s1, h1, rfl, _⟩ := h
    simp only [startProduce, Option.bind_eq_bind, Option.bind_eq_some_iff, Option.pure_def,
      Option.some.injEq] at h1
    obtain ⟨_, _, _, _, _, _, rfl⟩ := h1
    exact hI.of_accv rfl
  case endProduce c =>
    simp only [noOut, Option.map_eq_some_iff, Prod.mk.injEq] at h
    obtain ⟨s1, h1, rfl, _⟩ := h
    simp only [endProduce, Option.bind_eq_bind, Option.bind_eq_some_iff, Option.pure_def,
      Option.some.injEq] at h1
    obtain ⟨_, _, s2, h2, rfl⟩ := h1
    exact (settle_acc hI h2).of_accv rfl
  case setPct c p =>
    simp only [noOut, Option.map_eq_some_iff, Prod.mk.injEq] at h
    obtain ⟨s1, h1, rfl, _⟩ := h
    simp only [setPct, Option.bind_eq_bind, Option.bind_eq_some_iff, Option.pure_def,
      Option.some.injEq] at h1
    obtain ⟨_, _, _, _, s2, h2, rfl⟩ := h1
    exact (settle_acc hI h2).of_accv rfl
  case setFactors c f =>
    simp only [noOut, Option.map_eq_some_iff, Prod.mk.injEq] at h
    obtain ⟨s1, h1, rfl, _⟩ := h
    simp only [setFactors, Option.bind_eq_bind, Option.bind_eq_some_iff, Option.pure_def] at h1
    obtain ⟨_, _, _, _, _, _, W, _, h1⟩ := h1
    split at h1
    · simp only [Option.bind_eq_some_iff, Option.some.injEq] at h1
      obtain ⟨_, _, rfl⟩ := h1
      exact hI.of_accv rfl
    · simp only [Option.some.injEq] at h1
      subst h1
      exact hI.of_accv rfl
  case collect c =>
    simp only [noOut, Option.map_eq_some_iff, Prod.mk.injEq] at h
    obtain ⟨s1, h1, rfl, _⟩ := h
    simp only [collectUndistributed, Option.bind_eq_bind, Option.bind_eq_some_iff, Option.pure_def,
      req_eq_some] at h1
    obtain ⟨_, _, W, _, _, _, h1⟩ := h1
    split at h1 <;> simp only [Option.some.injEq] at h1 <;> subst h1
    · exact hI.of_accv rfl
    · refine hI.of_accv ?_
      have := (collectWeeks_spec (W - (Weekly.USER_MAX_CLAIM_WEEKS + 1) + 1 - (s.lastCollect + 1))
        s.b s.undist (s.lastCollect + 1)).2.2.1
      show (⟨_, s.w.totalRewards, s.epoch, s.firstWeekStart⟩ : AccV) = _
      rw [this]; rfl
  case pause c =>
    simp only [noOut, Option.map_eq_some_iff, Prod.mk.injEq] at h
    obtain ⟨s1, h1, rfl, _⟩ := h
    simp only [setActive, Option.bind_eq_bind, Option.bind_eq_some_iff, Option.pure_def,
      Option.some.injEq] at h1
    obtain ⟨_, _, rfl⟩ := h1
    exact hI.of_accv rfl
  case resume c =>
    simp only [noOut, Option.map_eq_some_iff, Prod.mk.injEq] at h
    obtain ⟨s1, h1, rfl, _⟩ := h
    simp only [setActive, Option.bind_eq_bind, Option.bind_eq_some_iff, Option.pure_def,
      Option.some.injEq] at h1
    obtain ⟨_, _, rfl⟩ := h1
    exact hI.of_accv rfl
  case setPenalty c p =>
    simp only [noOut, Option.map_eq_some_iff, Prod.mk.injEq] at h
    obtain ⟨s1, h1, rfl, _⟩ := h
    simp only [setPenalty, Option.bind_eq_bind, Option.bind_eq_some_iff, Option.pure_def,
      Option.some.injEq] at h1
    obtain ⟨_, _, _, _, rfl⟩ := h1
    exact hI.of_accv rfl
  case setMinEpochs c n =>
    simp only [noOut, Option.map_eq_some_iff, Prod.mk.injEq] at h
    obtain ⟨s1, h1, rfl, _⟩ := h
    simp only [setMinEpochs, Option.bind_eq_bind, Option.bind_eq_some_iff, Option.pure_def,
      Option.some.injEq] at h1
    obtain ⟨_, _, _, _, rfl⟩ := h1
    exact hI.of_accv rfl
  case hubWhitelist u a =>
    split at h
    · cases h
    · simp only [Option.some.injEq, Prod.mk.injEq] at h; obtain ⟨rfl, _⟩ := h; exact hI.of_accv rfl
  case hubRemove u a =>
    split at h
    · simp only [Option.some.injEq, Prod.mk.injEq] at h; obtain ⟨rfl, _⟩ := h; exact hI.of_accv rfl
    · cases h
  case hubBlacklist a =>
    simp only [Option.some.injEq, Prod.mk.injEq] at h; obtain ⟨rfl, _⟩ := h; exact hI.of_accv rfl
  case scWhitelist a =>
    split at h
    · cases h
    · simp only [Option.some.injEq, Prod.mk.injEq] at h; obtain ⟨rfl, _⟩ := h; exact hI.of_accv rfl
  case scUnwhitelist a =>
    split at h
    · simp only [Option.some.injEq, Prod.mk.injEq] at h; obtain ⟨rfl, _⟩ := h; exact hI.of_accv rfl
    · cases h
  case advance b e =>
    split at h
    · rename_i hbe
      simp only [Option.some.injEq, Prod.mk.injEq] at h; obtain ⟨rfl, _⟩ := h
      exact advance_acc ht hI b e hbe.2
    · cases h
  case bad => cases h

theorem init_accInv (kind : Kind) (sameTok : Bool) (dsc perBlock : Nat) (produce : Bool)
    (users : List Nat) (e0 : Nat) : AccInv (init kind sameTok dsc perBlock produce users e0) :=
  fun _ _ => ⟨fun _ _ => rfl, fun _ _ _ hne => absurd rfl hne⟩

theorem run_accInv (ops : List Op) {s : St} (hP : PoolInv s) (hI : AccInv s) : AccInv (run s ops) := by
  induction ops generalizing s with
  | nil => exact hI
  | cons op rest ih =>
    simp only [run, List.foldl_cons]
    cases hs : step s op with
    | none => exact ih hP hI
    | some r =>
      have hs' : step s op = some (r.1, r.2) := hs
      exact ih (step_poolInv hP hs') (step_accInv hP.time hI hs')

/-- frozen weeks of the claim window have an empty accumulator, in every reachable state -/
theorem reachable_accInv (kind : Kind) (sameTok : Bool) (dsc perBlock : Nat) (produce : Bool)
    (users : List Nat) (e0 : Nat) (ops : List Op) :
    AccInv (run (init kind sameTok dsc perBlock produce users e0) ops) :=
  run_accInv ops (init_poolInv kind sameTok dsc perBlock produce users e0)
    (init_accInv kind sameTok dsc perBlock produce users e0)

/-! ### the collection marker stays five weeks behind -/

/-- `lastUndistributedBoostedRewardsCollectWeek` is 0 (never collected) or at least five weeks
    behind the current week: no week of the claim window has been collected -/
def MarkInv (s : St) : Prop := s.lastCollect = 0 ∨ s.lastCollect + 5 ≤ curWeek s

theorem step_markInv {s s' : St} {op : Op} {o : Out} (ht : s.firstWeekStart ≤ s.epoch) (hI : MarkInv s)
    (h : step s op = some (s', o)) : MarkInv s' := by
  obtain ⟨hf, he, _⟩ := step_eff h
  have hmono := curWeek_mono hf he
  rcases step_collMove h with hc | ⟨_, h2, _, _⟩
  · simp only [cl, Prod.mk.injEq] at hc
    rcases hI with h0 | h5
    · left; rw [hc.2]; exact h0
    · right; rw [hc.2]; omega
  · obtain ⟨W, hW⟩ := week_of_time ht
    have := h2 W hW
    have hWc := week_curWeek hW
    right; omega

theorem run_markInv (ops : List Op) {s : St} (hP : PoolInv s) (hI : MarkInv s) : MarkInv (run s ops) := by
  induction ops generalizing s with
  | nil => exact hI
  | cons op rest ih =>
    simp only [run, List.foldl_cons]
    cases hs : step s op with
    | none => exact ih hP hI
    | some r =>
      have hs' : step s op = some (r.1, r.2) := hs
      exact ih (step_poolInv hP hs') (step_markInv hP.time hI hs')

theorem reachable_markInv (kind : Kind) (sameTok : Bool) (dsc perBlock : Nat) (produce : Bool)
    (users : List Nat) (e0 : Nat) (ops : List Op) :
    MarkInv (run (init kind sameTok dsc perBlock produce users e0) ops) :=
  run_markInv ops (init_poolInv kind sameTok dsc perBlock produce users e0) (Or.inl rfl)

end Mx.Farm
