/-
  C13 helpers, part 8: weighted amounts and the price views on top of the exact lookup;
  the query guards; stability of the ghost log.
-/
import MxModel.Lemmas.SafePriceLookup

namespace Mx.SafePrice
open Mx Mx.Pair

/-- `⌊ Σ_{k ∈ (s, e]} f k / (e − s) ⌋` : the documented time-weighted average -/
def avg (f : Nat → Nat) (s e : Nat) : Nat := rsum f s e / (e - s)

/-- facts about the oldest retained observation of a reachable state -/
theorem oldest_facts {g : G} (hi : RingInv g) {old : Obs} (hold : oldest g.s.sp = some old) :
    g.s.sp.obs ≠ [] ∧ 1 ≤ old.round ∧ 0 < old.accS ∧ Tele g.log old g.s.sp.last ∧ old ∈ g.s.sp.obs := by
  obtain ⟨hpair, hshape, hlinked, hbnd, hacc, hlast, hlive, hcur⟩ := hi
  obtain ⟨hne, io, io1, io2, hpos0, hold', hio⟩ := oldest_spec hshape hold
  have hc1 := hshape.curPos hne
  have hc2 := hshape.curLe
  have hmem : old ∈ g.s.sp.obs := by rw [hold']; exact nth_mem io1 io2
  refine ⟨hne, (hbnd _ hmem).1, hacc _ hmem, ?_, hmem⟩
  rw [last_nth hshape hne, hold']
  by_cases hp : pos g.s.sp g.s.sp.cur = 0
  · rw [nth_eq_of_pos hc2 hc1 hc2 io1 io2 (by omega)]; exact Tele.refl _ _
  · exact (ring_tele hc2 hlinked io1 io2 hc1 hc2 (by omega)).1

/-- every round of the retained range started with positive reserves and supply -/
theorem log_pos {g : G} (hi : RingInv g) {old : Obs} (hold : oldest g.s.sp = some old) :
    ∀ k, old.round < k → k ≤ g.s.round →
      0 < (g.log k).r1 ∧ 0 < (g.log k).r2 ∧ 0 < (g.log k).S := by
  obtain ⟨hne, _, _, ht, _⟩ := oldest_facts hi hold
  intro k k1 k2
  by_cases hk : k ≤ g.s.sp.last.round
  · exact ht.pos k k1 hk
  · rw [hi.current hne k (by omega) k2]
    exact hi.live hne

/-- `compute_weighted_amounts` on two exact observations gives the exact averages -/
theorem weighted_ideal {log : Log} {old : Obs} (hacc : 0 < old.accS) {s e : Nat}
    (h1 : old.round ≤ s) (h2 : s < e) :
    weighted (ideal log old s) (ideal log old e) =
      some ⟨avg (l1 log) s e, avg (l2 log) s e, avg (lS log) s e⟩ := by
  have s1 := rsum_split (l1 log) h1 (Nat.le_of_lt h2)
  have s2 := rsum_split (l2 log) h1 (Nat.le_of_lt h2)
  have s3 := rsum_split (lS log) h1 (Nat.le_of_lt h2)
  unfold weighted ideal avg
  simp only []
  rw [sub?_of_le (by omega)]
  simp only [Option.bind_eq_bind, Option.bind_some]
  rw [req_of (by omega), sub?_of_le (by omega), sub?_of_le (by omega)]
  simp only [Option.bind_some]
  rw [if_pos (by omega), sub?_of_le (by omega)]
  simp only [Option.bind_some, Option.pure_def, Option.some.injEq, WA.mk.injEq]
  have ew : old.w + (e - old.round) - (old.w + (s - old.round)) = e - s := by omega
  rw [ew]
  refine ⟨?_, ?_, ?_⟩
  · congr 1; omega
  · congr 1; omega
  · congr 1; omega

/-- the weighted amounts of a window inside the retained range are the exact averages of the
    start-of-round reserves and LP supply over the window -/
theorem window_exact {g : G} (hi : RingInv g) {old : Obs} (hold : oldest g.s.sp = some old)
    {s e : Nat} (h1 : old.round ≤ s) (h2 : s < e) (h3 : e ≤ g.s.round) :
    window g.s s e = some ⟨avg (l1 g.log) s e, avg (l2 g.log) s e, avg (lS g.log) s e⟩ := by
  obtain ⟨_, _, hacc, _, _⟩ := oldest_facts hi hold
  unfold window
  rw [req_of h2, hold]
  simp only [Option.bind_eq_bind, Option.bind_some]
  rw [req_of h1, lookup_exact hi hold h1 (by omega), lookup_exact hi hold (by omega) h3]
  simp only [Option.bind_some]
  exact weighted_ideal hacc h1 h2

/-- the averages are positive -/
theorem avg_pos {g : G} (hi : RingInv g) {old : Obs} (hold : oldest g.s.sp = some old)
    {s e : Nat} (h1 : old.round ≤ s) (h2 : s < e) (h3 : e ≤ g.s.round) :
    0 < avg (l1 g.log) s e ∧ 0 < avg (l2 g.log) s e ∧ 0 < avg (lS g.log) s e := by
  have hp := log_pos hi hold
  unfold avg
  refine ⟨?_, ?_, ?_⟩
  · exact Nat.div_pos (rsum_ge_len _ (fun k a b => (hp k (by omega) (by omega)).1)) (by omega)
  · exact Nat.div_pos (rsum_ge_len _ (fun k a b => (hp k (by omega) (by omega)).2.1)) (by omega)
  · exact Nat.div_pos (rsum_ge_len _ (fun k a b => (hp k (by omega) (by omega)).2.2)) (by omega)

/-! ### guards -/

theorem window_none_of_order (s : St) {st en : Nat} (h : en ≤ st) : window s st en = none := by
  unfold window
  rw [req_eq_none.mpr (by omega)]
  rfl

theorem window_none_of_old (s : St) {old : Obs} (hold : oldest s.sp = some old) {st en : Nat}
    (h : st < old.round) : window s st en = none := by
  unfold window
  cases hr : req (st < en) with
  | none => rfl
  | some u =>
    simp only [Option.bind_eq_bind, Option.bind_some, hold]
    rw [req_eq_none.mpr (by omega)]
    rfl

theorem window_none_of_empty (s : St) (h : s.sp.obs = []) (st en : Nat) : window s st en = none := by
  unfold window
  cases hr : req (st < en) with
  | none => rfl
  | some u =>
    have : oldest s.sp = none := by
      unfold oldest
      rw [req_eq_none.mpr (by simp [h])]
      rfl
    simp only [Option.bind_eq_bind, Option.bind_some, this, Option.bind_none]

/-- a round after the current block round cannot be looked up -/
theorem lookup_none_of_future {g : G} (hi : RingInv g) {q : Nat} (h : g.s.round < q) :
    lookup g.s q = none := by
  unfold lookup
  by_cases hne : g.s.sp.obs = []
  · rw [req_eq_none.mpr (by simp [hne])]
    rfl
  · rw [req_of hne, get?_some (hi.shape.curPos hne) hi.shape.curLe, ← last_nth hi.shape hne]
    simp only [Option.bind_eq_bind, Option.bind_some]
    have := hi.lastLe
    rw [if_neg (by omega), if_pos (by omega), req_eq_none.mpr (by omega)]
    rfl

theorem window_none_of_future {g : G} (hi : RingInv g) {st en : Nat} (h : g.s.round < en) :
    window g.s st en = none := by
  unfold window
  cases req (st < en) with
  | none => rfl
  | some u =>
    simp only [Option.bind_eq_bind, Option.bind_some]
    cases oldest g.s.sp with
    | none => rfl
    | some old =>
      simp only [Option.bind_some]
      cases req (old.round ≤ st) with
      | none => rfl
      | some u =>
        simp only [Option.bind_some]
        cases lookup g.s st with
        | none => rfl
        | some f =>
          simp only [Option.bind_some]
          rw [lookup_none_of_future hi h]
          rfl

/-! ### the ghost log is append-only -/

theorem gstep_round_le (g : G) (op : Op) : g.s.round ≤ (gstep g op).s.round := by
  unfold gstep
  cases h : step g.s op with
  | none => exact Nat.le_refl _
  | some r =>
    obtain ⟨s', o⟩ := r
    simp only []
    rcases step_kind h with ⟨hr, _⟩ | ⟨hr, _⟩ | ⟨hr, _⟩ <;> omega

theorem gstep_log_stable (g : G) (op : Op) {k : Nat} (hk : k ≤ g.s.round) :
    (gstep g op).log k = g.log k := by
  unfold gstep
  cases h : step g.s op with
  | none => rfl
  | some r =>
    obtain ⟨s', o⟩ := r
    simp only []
    rw [if_neg (by omega)]

theorem grun_round_le (ops : List Op) (g : G) : g.s.round ≤ (grun g ops).s.round := by
  induction ops generalizing g with
  | nil => exact Nat.le_refl _
  | cons op ops ih =>
    simp only [grun, List.foldl_cons]
    exact Nat.le_trans (gstep_round_le g op) (ih (gstep g op))

theorem grun_log_stable (ops : List Op) (g : G) {k : Nat} (hk : k ≤ g.s.round) :
    (grun g ops).log k = g.log k := by
  induction ops generalizing g with
  | nil => rfl
  | cons op ops ih =>
    simp only [grun, List.foldl_cons]
    have := ih (gstep g op) (Nat.le_trans hk (gstep_round_le g op))
    simp only [grun] at this
    rw [this, gstep_log_stable g op hk]

theorem grun_append (g : G) (a b : List Op) : grun g (a ++ b) = grun (grun g a) b := by
  simp [grun, List.foldl_append]

end Mx.SafePrice
