/-
  The energy bound for EVERY week (not only the last updated one):

      totalEnergyForWeek(w) = 0   ∨   Σ_{u : progress(u).week ≤ w} energy of u decayed to w  ≤  totalEnergyForWeek(w)

  i.e. the hypothesis of the week-sum bound holds for all the users that can still claim week `w`.
  It is inductive next to `GInv`: a completed week's total never changes (it can only be
  cleared), and a user who touches the contract moves its progress to the current week and so
  drops out of the sums of all earlier weeks.
-/
import MxModel.Lemmas.WeeklyInv

namespace Mx.Weekly

/-- the energy a progress table pays user `u` with for week `w` (0 if `u` is already past `w`) -/
def eForP (prog : Nat → Option ClaimProgress) (u w : Nat) : Nat :=
  match prog u with
  | some p => if p.week ≤ w then (p.energy.after (w - p.week)).getEnergyAmount else 0
  | none => 0

/-- the bound for every week, relative to a progress table -/
def EBrel (prog : Nat → Option ClaimProgress) (users : List Nat) (g : St) : Prop :=
  ∀ w, g.totalEnergy w = 0 ∨ usum users (fun u => eForP prog u w) ≤ g.totalEnergy w

/-- the bound for every week -/
def EB (g : St) : Prop := EBrel g.progress g.users g

theorem eForP_eq_contrib {prog : Nat → Option ClaimProgress} {users : List Nat} {W : Nat}
    (hP : PRel prog users W) (u : Nat) : eForP prog u W = (lotAt (prog u) W).contrib := by
  unfold eForP lotAt
  cases hp : prog u with
  | none => simp [Lot.contrib]
  | some p =>
    have := (hP.pos u p hp).2
    simp only [this, if_true, Lot.contrib]
    rw [Energy.after_getEnergyAmount, toNat_sub_nat]
    rfl

theorem shiftN_totalEnergy : ∀ (n : Nat) {g g' : St} {t t' : Totals},
    shiftN n g t = some (g', t') → g'.totalEnergy = g.totalEnergy ∧ g'.progress = g.progress := by
  intro n
  induction n with
  | zero =>
    intro g g' t t' h
    simp only [shiftN, Option.some.injEq, Prod.mk.injEq] at h
    obtain ⟨rfl, _⟩ := h; exact ⟨rfl, rfl⟩
  | succ n ih =>
    intro g g' t t' h
    simp only [shiftN, Option.bind_eq_some_iff] at h
    obtain ⟨⟨g1, t1⟩, h1, h2⟩ := h
    obtain ⟨e1, e2⟩ := ih h2
    simp only [shiftOnce, Option.bind_eq_bind, Option.bind_eq_some_iff, sub?_eq_some,
      Option.pure_def, Option.some.injEq, Prod.mk.injEq] at h1
    obtain ⟨_, _, rfl, _⟩ := h1
    exact ⟨e1, e2⟩

/-- the weekly update writes the total of the current week and may clear an old one; every other
    week's total is untouched -/
theorem performWeeklyUpdate_energy_frame {g g1 : St} {W : Nat}
    (h : performWeeklyUpdate g W = some g1) :
    ∀ w, w ≠ W → g1.totalEnergy w = g.totalEnergy w ∨ g1.totalEnergy w = 0 := by
  intro w hw
  unfold performWeeklyUpdate at h
  split at h
  · simp only [Option.some.injEq] at h; subst h; exact Or.inl rfl
  split at h
  · simp only [Option.some.injEq] at h; subst h; exact Or.inl rfl
  · simp only [Option.bind_eq_bind, Option.bind_eq_some_iff, req_eq_some] at h
    obtain ⟨_, _, ⟨g2, t2⟩, hs, h⟩ := h
    obtain ⟨e, _⟩ := shiftN_totalEnergy _ hs
    simp only at e
    split at h
    · simp only [Option.pure_def, Option.some.injEq] at h
      subst h
      by_cases h5 : w = W - USER_MAX_CLAIM_WEEKS - 1
      · right; simp [h5]
      · left; simp only [upd_other _ _ h5, upd_other _ _ hw, e]
    · simp only [Option.pure_def, Option.some.injEq] at h
      subst h
      left; simp only [upd_other _ _ hw, e]

theorem updateGlobal_energy_frame {g g' : St} {W la : Nat} {prev cur : Energy}
    (h : updateGlobal g W la prev cur = some g') :
    ∀ w, w ≠ W → g'.totalEnergy w = g.totalEnergy w ∨ g'.totalEnergy w = 0 := by
  simp only [updateGlobal, Option.bind_eq_bind, Option.bind_eq_some_iff, req_eq_some] at h
  obtain ⟨g1, h1, _, _, ⟨g2, bp⟩, hre, g3, htk, hen⟩ := h
  dsimp only at htk hen
  intro w hw
  have e1 := (updateTotalEnergy_spec hen).2.2.2.2.2.2.2.1 w hw
  have e2 := (updateTotalTokens_spec htk).2.2.2.1
  have e3 := (reallocate_spec hre).2.2.1.totalEnergy
  rw [e1, e2, e3]
  exact performWeeklyUpdate_energy_frame h1 w hw

/-- **the user update keeps the all-weeks bound** (relative to the table with the user's entry
    already replaced) -/
theorem updateUser_EB {g g' : St} {W u0 : Nat} {cur : Energy} (hW : 1 ≤ W) (hI : GInv g)
    (hE : EB g) (h : updateUserEnergyForCurrentWeek g W cur (g.progress u0) = some g') :
    EBrel (upd g.progress u0 (newOf cur W)) (usersAfter g.users u0 (newOf cur W)) g' := by
  obtain ⟨⟨o, hR⟩, hlgw, _, _⟩ := updateUser_GRel hW hI h
  rw [updateUserEnergyForCurrentWeek_eq] at h
  have hfr := updateGlobal_energy_frame h
  intro w
  rcases Nat.lt_trichotomy w W with hlt | heq | hgt
  · -- a completed week
    rcases hfr w (by omega) with hsame | hzero
    swap
    · exact Or.inl hzero
    rcases hE w with hz | hb
    · left; rw [hsame]; exact hz
    · right
      rw [hsame]
      refine Nat.le_trans ?_ hb
      -- the new table's sum for week w is at most the old one
      have hle : ∀ u, eForP (upd g.progress u0 (newOf cur W)) u w ≤ eForP g.progress u w := by
        intro u
        by_cases hu : u = u0
        · subst hu
          unfold eForP
          simp only [upd_same, newOf]
          split
          · rename_i p hp
            split at hp
            · simp only [Option.some.injEq] at hp
              subst hp
              have : ¬ (W ≤ w) := by omega
              simp [this]
            · cases hp
          · exact Nat.zero_le _
        · unfold eForP; simp only [upd_other _ _ hu]; exact Nat.le_refl _
      unfold usersAfter
      split
      · rename_i hnew
        rw [usum_append]
        have h1 : usum g.users (fun u => eForP (upd g.progress u0 (newOf cur W)) u w) ≤
            usum g.users (fun u => eForP g.progress u w) := usum_le (fun u _ => hle u)
        have h2 : usum [u0] (fun u => eForP (upd g.progress u0 (newOf cur W)) u w) = 0 := by
          simp only [usum_cons, usum_nil, Nat.add_zero]
          have := hle u0
          have hnone : g.progress u0 = none := by
            by_contra hc
            rcases hI with hp | ⟨o', hr'⟩
            · exact hc (hp.noProgress u0)
            · exact hnew.2 (hr'.p.mem u0 hc)
          have : eForP g.progress u0 w = 0 := by unfold eForP; rw [hnone]
          omega
        omega
      · exact usum_le (fun u _ => hle u)
  · -- the current week: equality from the lot relation
    subst heq
    right
    have hP := hR.p
    rw [hlgw] at hP
    have := hR.l.energy
    rw [hlgw] at this
    rw [this]
    exact Nat.le_of_eq (usum_congr (fun u _ => eForP_eq_contrib hP u))
  · left
    exact (hR.fut w (by rw [hlgw]; exact hgt)).1

theorem EBrel.frame {prog : Nat → Option ClaimProgress} {users : List Nat} {g g' : St}
    (h : EBrel prog users g) (f : FrameR g' g) : EBrel prog users g' := by
  intro w; rw [f.totalEnergy]; exact h w

theorem setProgress_EB {g' : St} {u0 W : Nat} {cur : Energy} {users0 : List Nat}
    {prog0 : Nat → Option ClaimProgress}
    (hR : EBrel (upd prog0 u0 (newOf cur W)) (usersAfter users0 u0 (newOf cur W)) g')
    (hp : g'.progress = prog0) (hu : g'.users = users0) :
    EB (setProgress g' u0 (newOf cur W)) := by
  unfold EB
  have e1 : (setProgress g' u0 (newOf cur W)).progress = upd prog0 u0 (newOf cur W) := by
    simp [setProgress, hp]
  have e2 : (setProgress g' u0 (newOf cur W)).users = usersAfter users0 u0 (newOf cur W) := by
    rw [setProgress_users, hu]
  rw [e1, e2]
  exact hR

theorem EB.init : EB St.init := fun _ => Or.inl rfl

theorem updateEnergyAndProgress_EB {g g' : St} {user W : Nat} {cur : Energy} (hW : 1 ≤ W)
    (hI : GInv g) (hE : EB g) (h : updateEnergyAndProgress g user W cur = some g') : EB g' := by
  simp only [updateEnergyAndProgress, Option.bind_eq_bind, Option.bind_eq_some_iff, Option.pure_def,
    Option.some.injEq] at h
  obtain ⟨g1, h1, rfl⟩ := h
  obtain ⟨_, _, hp, hu⟩ := updateUser_GRel hW hI h1
  change EB (setProgress g1 user (newOf cur W))
  exact setProgress_EB (updateUser_EB hW hI hE h1) hp hu

theorem updateEnergyForUser_EB {g g' : St} {user W : Nat} {cur : Energy} (hW : 1 ≤ W)
    (hI : GInv g) (hE : EB g) (h : updateEnergyForUser g user W cur = some g') : EB g' := by
  unfold updateEnergyForUser at h
  cases hq : g.progress user with
  | none =>
    simp only [hq, Option.bind_eq_bind, Option.pure_def, Option.bind_some] at h
    exact updateEnergyAndProgress_EB hW hI hE h
  | some p =>
    simp only [hq, Option.bind_eq_bind, Option.bind_eq_some_iff] at h
    obtain ⟨_, _, h2⟩ := h
    exact updateEnergyAndProgress_EB hW hI hE h2

theorem clearUserEnergy_EB {g g' : St} {user W epoch remaining minFarm : Nat} (hW : 1 ≤ W)
    (hI : GInv g) (hE : EB g) (h : clearUserEnergy g user W epoch remaining minFarm = some g') :
    EB g' := by
  unfold clearUserEnergy at h
  split at h
  · simp only [Option.some.injEq] at h; subst h; exact hE
  · simp only [Option.bind_eq_bind, Option.bind_eq_some_iff, Option.pure_def,
      Option.some.injEq] at h
    obtain ⟨g1, h1, rfl⟩ := h
    obtain ⟨_, _, hp, hu⟩ := updateUser_GRel hW hI h1
    have hn : newOf (Energy.newZero epoch) W = none := by
      simp [newOf, Energy.newZero, Energy.getEnergyAmount]
    have := setProgress_EB (updateUser_EB hW hI hE h1) hp hu
    rw [hn] at this
    exact this

/-- **`claim_multi` keeps the all-weeks bound** -/
theorem claimMulti_EB {σ : Type} {rw : RewardFn σ} (hrw : RwFrame rw) {g g' : St} {c c' : σ}
    {user W : Nat} {cur : Energy} {r : List (Tok × Nat)} (hW : 1 ≤ W) (hI : GInv g) (hE : EB g)
    (h : claimMulti rw g c user W cur = some (g', c', r)) : EB g' := by
  obtain ⟨g1, a, h1, _, ha, rfl, _, _⟩ := claimMulti_spec h
  obtain ⟨_, _, hp, hu⟩ := updateUser_GRel hW hI h1
  obtain ⟨fr, _⟩ := claimLoop_frame hrw _ ha
  simp only at fr
  exact setProgress_EB ((updateUser_EB hW hI hE h1).frame fr) (fr.progress.trans hp)
    (fr.users.trans hu)

/-- consequence: whatever amount is split for week `w`, the shares of all users that can still
    claim that week sum to at most that amount -/
theorem EB.shares_le {g : St} (hE : EB g) (w total : Nat) :
    usum g.users (fun u => share total (eForP g.progress u w) (g.totalEnergy w)) ≤ total := by
  rcases hE w with hz | hb
  · rw [hz]
    have : usum g.users (fun u => share total (eForP g.progress u w) 0) = 0 :=
      usum_zero (fun _ _ => by simp [share])
    omega
  · exact usum_share_le_total _ _ _ _ hb

end Mx.Weekly
