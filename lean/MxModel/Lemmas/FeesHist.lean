/-
  Fees collector: the all-weeks energy bound (`Weekly.EB`) holds after every history.
-/
import MxModel.Lemmas.FeesBal
import MxModel.Lemmas.WeeklyHist

namespace Mx.Fees

open Mx.Weekly

/-- `GInv` and `EB` together -/
def WInv (g : Weekly.St) : Prop := GInv g ∧ EB g

theorem claimCore_WInv {s s' : St} {orig : Nat} {o : Out} (hI : WInv s.w)
    (h : claimCore s orig = some (s', o)) : WInv s'.w := by
  obtain ⟨W, r, hW, hc, _⟩ := claimCore_spec h
  exact ⟨claimMulti_GInv feesRewards_frame (weekOf_pos hW) hI.1 hc,
    claimMulti_EB feesRewards_frame (weekOf_pos hW) hI.1 hI.2 hc⟩

theorem step_WInv {s s' : St} {op : Op} {o : Out} (hI : WInv s.w) (h : step s op = some (s', o)) :
    WInv s'.w := by
  cases op with
  | deposit c t n a =>
    simp only [step, deposit, Option.bind_eq_bind, Option.bind_eq_some_iff, Option.pure_def,
      Option.some.injEq, Prod.mk.injEq] at h
    obtain ⟨_, _, _, _, _, _, _, _, _, _, rfl, _⟩ := h
    exact hI
  | claim c og =>
    simp only [step, claimRewards, Option.bind_eq_bind, Option.bind_eq_some_iff] at h
    obtain ⟨_, _, h⟩ := h
    cases og with
    | none => exact claimCore_WInv hI h
    | some x =>
      simp only [Option.bind_eq_bind, Option.bind_eq_some_iff] at h
      obtain ⟨_, _, h⟩ := h
      exact claimCore_WInv hI h
  | claimBoosted c og =>
    simp only [step, claimBoosted, Option.bind_eq_bind, Option.bind_eq_some_iff] at h
    obtain ⟨_, _, h⟩ := h
    cases og with
    | none => exact claimCore_WInv hI h
    | some x =>
      simp only [Option.bind_eq_bind, Option.bind_eq_some_iff] at h
      obtain ⟨_, _, h⟩ := h
      exact claimCore_WInv hI h
  | updateEnergy u =>
    simp only [step, updateEnergy, Option.bind_eq_bind, Option.bind_eq_some_iff, Option.pure_def,
      Option.some.injEq, Prod.mk.injEq] at h
    obtain ⟨W, hW, g, hg, rfl, _⟩ := h
    exact ⟨updateEnergyForUser_GInv (weekOf_pos hW) hI.1 hg,
      updateEnergyForUser_EB (weekOf_pos hW) hI.1 hI.2 hg⟩
  | setPerBlock n =>
    simp only [step, setPerBlock, Option.bind_eq_bind, Option.bind_eq_some_iff, Option.pure_def,
      Option.some.injEq, Prod.mk.injEq] at h
    obtain ⟨W, _, rfl, _⟩ := h
    show WInv (accumulateAdditional s W).w
    rw [accumulateAdditional_w]; exact hI
  | setEnergy u e => simp only [step, Option.some.injEq, Prod.mk.injEq] at h; obtain ⟨rfl, _⟩ := h; exact hI
  | addToken t => simp only [step, Option.some.injEq, Prod.mk.injEq] at h; obtain ⟨rfl, _⟩ := h; exact hI
  | removeToken t => simp only [step, Option.some.injEq, Prod.mk.injEq] at h; obtain ⟨rfl, _⟩ := h; exact hI
  | addContract c => simp only [step, Option.some.injEq, Prod.mk.injEq] at h; obtain ⟨rfl, _⟩ := h; exact hI
  | removeContract c => simp only [step, Option.some.injEq, Prod.mk.injEq] at h; obtain ⟨rfl, _⟩ := h; exact hI
  | allowExternal u b => simp only [step, Option.some.injEq, Prod.mk.injEq] at h; obtain ⟨rfl, _⟩ := h; exact hI
  | pause b => simp only [step, Option.some.injEq, Prod.mk.injEq] at h; obtain ⟨rfl, _⟩ := h; exact hI
  | advance n => simp only [step, Option.some.injEq, Prod.mk.injEq] at h; obtain ⟨rfl, _⟩ := h; exact hI

theorem run_WInv (ops : List Op) {s : St} (hI : WInv s.w) : WInv (run s ops).w := by
  induction ops generalizing s with
  | nil => exact hI
  | cons op ops ih =>
    simp only [run, List.foldl_cons]
    cases hs : step s op with
    | none => exact ih hI
    | some r => exact ih (step_WInv hI (o := r.2) (by rw [hs]))

theorem init_WInv (epoch lockEpochs : Nat) (known : List Tok) (contracts whitelist : List Nat) :
    WInv (init epoch lockEpochs known contracts whitelist).w := ⟨GInv.init, EB.init⟩

end Mx.Fees
