/-
  "Undistributed boosted rewards are collected once" at run level (C11): the per-week ghost
  `collW w` (what was moved from week `w`'s pool to `undistributedBoostedRewards`) and the marker
  `lastCollect` are touched by `collectUndistributedBoostedRewards` only; the marker only moves
  forward and every week above it is still uncollected (`collW w = 0`).
-/
import MxModel.Lemmas.FarmPool

namespace Mx.Farm

open Mx.Weekly (upd Energy)

/-- the collection view: per-week collected ghost, the last collected week -/
def cl (s : St) : (Nat → Nat) × Nat := (s.b.collW, s.lastCollect)

theorem takePayments_cl {l : List (Nat × Nat)} {s s' : St} {c : Nat} (h : takePayments s c l = some s') :
    cl s' = cl s := by obtain ⟨_, rfl⟩ := takePayments_spec l h; rfl
theorem checkAndUpdate_cl {l : List (Nat × Nat)} {s s' : St} {c : Nat} (h : checkAndUpdate s c l = some s') :
    cl s' = cl s := by obtain ⟨_, rfl⟩ := checkAndUpdate_spec l h; rfl
theorem claimBoostedYields_cl {s s' : St} {u r : Nat} (h : claimBoostedYields s u = some (s', r)) :
    cl s' = cl s := by
  have e := claimBoostedYields_spec h
  obtain ⟨w', b', hs⟩ := e.struct
  have h1 := e.collW
  have h2 : s'.lastCollect = s.lastCollect := by rw [hs]
  unfold cl
  rw [h1, h2]
theorem setFarmSupplyWeek_cl {s s' : St} {v : Nat} (h : setFarmSupplyWeek s v = some s') :
    cl s' = cl s := by obtain ⟨_, _, rfl⟩ := setFarmSupplyWeek_spec h; rfl
theorem updateEnergyAndProgress_cl {s s' : St} {u : Nat} (h : updateEnergyAndProgress s u = some s') :
    cl s' = cl s := by obtain ⟨_, rfl⟩ := updateEnergyAndProgress_spec h; rfl
theorem createToken_cl {s s' : St} {d n : Nat} {a : Attr} (h : createToken s d a = some (s', n)) :
    cl s' = cl s := by obtain ⟨_, _, rfl⟩ := createToken_spec h; rfl
theorem generate_cl {s s' : St} {c c' : Cache} (h : generate s c = some (s', c')) :
    cl s' = cl s := by
  obtain ⟨b', rfl, _, _, hb⟩ := generate_spec h
  rcases hb with ⟨_, rfl⟩ | ⟨_, W, _, rfl⟩ <;> rfl
theorem payReward_cl {s s' : St} {u b bo : Nat} (h : payReward s u b bo = some s') :
    cl s' = cl s := by obtain ⟨_, _, rfl, _⟩ := payReward_spec h; rfl
theorem payRewardIf_cl {s s' : St} {k : Kind} {u b bo : Nat} (h : payRewardIf s k u b bo = some s') :
    cl s' = cl s := by
  unfold payRewardIf at h
  split at h
  · exact payReward_cl h
  · simp only [Option.some.injEq] at h; rw [← h]
theorem claimOnlyBoostedPayment_cl {s s' : St} {u r : Nat} (h : claimOnlyBoostedPayment s u = some (s', r)) :
    cl s' = cl s := by
  simp only [claimOnlyBoostedPayment, Option.bind_eq_bind, Option.bind_eq_some_iff, Option.pure_def] at h
  obtain ⟨⟨s1, r1⟩, h1, h⟩ := h
  have k1 := claimBoostedYields_cl h1
  split at h
  · simp only [Option.some.injEq, Prod.mk.injEq] at h
    obtain ⟨rfl, _⟩ := h; exact k1
  · simp only [Option.bind_eq_some_iff, sub?_eq_some, Option.some.injEq, Prod.mk.injEq] at h
    obtain ⟨_, _, rfl, _⟩ := h; exact k1
theorem removeFarming_cl {s s' : St} {a p : Nat} (h : removeFarming s a p = some s') : cl s' = cl s := by
  simp only [removeFarming, Option.bind_eq_bind, Option.bind_eq_some_iff, sub?_eq_some, Option.pure_def,
    Option.some.injEq] at h
  obtain ⟨_, _, rfl⟩ := h; rfl
theorem compoundMove_cl {s s' : St} {b bo : Nat} (h : compoundMove s b bo = some s') : cl s' = cl s := by
  simp only [compoundMove, Option.bind_eq_bind, Option.bind_eq_some_iff, sub?_eq_some, Option.pure_def,
    Option.some.injEq] at h
  obtain ⟨_, _, rfl⟩ := h; rfl
theorem clearUserEnergyIfNeeded_cl {s s' : St} {u : Nat} (h : clearUserEnergyIfNeeded s u = some s') :
    cl s' = cl s := by
  unfold clearUserEnergyIfNeeded at h
  split at h
  · simp only [Option.some.injEq] at h; rw [← h]
  · simp only [Option.bind_eq_bind, Option.bind_eq_some_iff, Option.pure_def, Option.some.injEq] at h
    obtain ⟨_, _, _, _, _, _, rfl⟩ := h
    rfl
theorem claimTail_cl {s s' : St} {c : Bool} {u b bo : Nat} (h : claimTail s c u b bo = some s') :
    cl s' = cl s := by
  unfold claimTail at h
  split at h
  · simp only [Option.bind_eq_some_iff] at h
    obtain ⟨s1, h1, h2⟩ := h
    exact (updateEnergyAndProgress_cl h2).trans (compoundMove_cl h1)
  · exact payReward_cl h

theorem enterCore_cl {s s' : St} {caller orig tokenTo amt : Nat} {extra : List (Nat × Nat)} {o : Out}
    (h : enterCore s caller orig tokenTo amt extra = some (s', o)) : cl s' = cl s := by
  simp only [enterCore, Option.bind_eq_bind, Option.bind_eq_some_iff, req_eq_some, Option.pure_def,
    Option.some.injEq, Prod.mk.injEq] at h
  obtain ⟨_, _, s0, h0, ⟨s1, boosted⟩, h1, s1', h1', _, hact, s2, h2, ⟨s4, c1⟩, h4, merged, hm,
    ⟨s5, n⟩, h5, s6, h6, s8, h8, s9, h9, rfl, rfl⟩ := h
  have k0 : cl s0 = cl s := takePayments_cl h0
  have k1 : cl s1 = cl s := (claimOnlyBoostedPayment_cl h1).trans k0
  have k1' : cl s1' = cl s := (payRewardIf_cl h1').trans k1
  have k2 : cl s2 = cl s := (checkAndUpdate_cl h2).trans k1'
  have k4 : cl s4 = cl s := (generate_cl h4).trans k2
  have k5 : cl s5 = cl s := (createToken_cl h5).trans k4
  have k6 : cl s6 = cl s := (setFarmSupplyWeek_cl h6).trans k5
  have k8 : cl s8 = cl s := (payRewardIf_cl h8).trans k6
  exact (updateEnergyAndProgress_cl h9).trans k8

theorem claimCore_cl {s s' : St} {caller orig : Nat} {pays : List (Nat × Nat)} {cmp : Bool} {o : Out}
    (h : claimCore s caller orig pays cmp = some (s', o)) : cl s' = cl s := by
  unfold claimCore at h
  replace h := bpeel h; obtain ⟨⟨n1, a1⟩, hhead, h⟩ := h
  replace h := bpeel h; obtain ⟨s0, h0, h⟩ := h
  replace h := bpeel h; obtain ⟨_, _, h⟩ := h
  replace h := bpeel h; obtain ⟨_, _, h⟩ := h
  replace h := bpeel h; obtain ⟨at1, hat, h⟩ := h
  replace h := bpeel h; obtain ⟨⟨s1, c1⟩, h1, h⟩ := h
  replace h := bpeel h; obtain ⟨part, hpart, h⟩ := h
  replace h := bpeel h; obtain ⟨⟨s2, boosted⟩, h2, h⟩ := h
  replace h := bpeel h; obtain ⟨res, _, h⟩ := h
  replace h := bpeel h; obtain ⟨s3, h3, h⟩ := h
  replace h := bpeel h; obtain ⟨merged, hm, h⟩ := h
  replace h := bpeel h; obtain ⟨⟨s5, n⟩, h5, h⟩ := h
  replace h := bpeel h; obtain ⟨s6, h6, h⟩ := h
  replace h := bpeel h; obtain ⟨s8, h8, h⟩ := h
  simp only [Option.pure_def, Option.some.injEq, Prod.mk.injEq] at h
  obtain ⟨rfl, _⟩ := h
  have k0 : cl s0 = cl s := takePayments_cl h0
  have k1 : cl s1 = cl s := (generate_cl h1).trans k0
  have k2 : cl s2 = cl s := (claimBoostedYields_cl h2).trans k1
  have k3 : cl s3 = cl s := (checkAndUpdate_cl h3).trans k2
  have k5 : cl s5 = cl s := (createToken_cl h5).trans (by cases cmp <;> exact k3)
  have k6 : cl s6 = cl s := (setFarmSupplyWeek_cl h6).trans k5
  exact (claimTail_cl h8).trans k6

theorem exitFarm_cl {s s' : St} {caller : Nat} {opt : Option Nat} {n a : Nat} {o : Out}
    (h : exitFarm s caller opt n a = some (s', o)) : cl s' = cl s := by
  unfold exitFarm at h
  replace h := bpeel h; obtain ⟨orig, _, h⟩ := h
  replace h := bpeel h; obtain ⟨s0, h0, h⟩ := h
  replace h := bpeel h; obtain ⟨_, _, h⟩ := h
  replace h := bpeel h; obtain ⟨att, hat, h⟩ := h
  replace h := bpeel h; obtain ⟨⟨s1, c1⟩, h1, h⟩ := h
  replace h := bpeel h; obtain ⟨part, hpart, h⟩ := h
  replace h := bpeel h; obtain ⟨⟨s2, boosted⟩, h2, h⟩ := h
  replace h := bpeel h; obtain ⟨res, _, h⟩ := h
  replace h := bpeel h; obtain ⟨sup, hsup, h⟩ := h
  replace h := bpeel h; obtain ⟨s4, h4, h⟩ := h
  replace h := bpeel h; obtain ⟨pen, hpen, h⟩ := h
  replace h := bpeel h; obtain ⟨out, _, h⟩ := h
  replace h := bpeel h; obtain ⟨s6, h6, h⟩ := h
  replace h := bpeel h; obtain ⟨s7, h7, h⟩ := h
  replace h := bpeel h; obtain ⟨s8, h8, h⟩ := h
  simp only [Option.pure_def, Option.some.injEq, Prod.mk.injEq] at h
  obtain ⟨rfl, _⟩ := h
  have k0 : cl s0 = cl s := takePayments_cl h0
  have k1 : cl s1 = cl s := (generate_cl h1).trans k0
  have k2 : cl s2 = cl s := (claimBoostedYields_cl h2).trans k1
  have k4 : cl s4 = cl s := (setFarmSupplyWeek_cl (s := decreaseOwner s2 att.owner a) h4).trans k2
  have k6 : cl s6 = cl s := (removeFarming_cl h6).trans k4
  have k7 : cl s7 = cl s := (payReward_cl h7).trans k6
  exact (clearUserEnergyIfNeeded_cl h8).trans k7

theorem mergeFarmTokens_cl {s s' : St} {caller : Nat} {opt : Option Nat} {pays : List (Nat × Nat)} {o : Out}
    (h : mergeFarmTokens s caller opt pays = some (s', o)) : cl s' = cl s := by
  simp only [mergeFarmTokens, Option.bind_eq_bind, Option.bind_eq_some_iff, req_eq_some, Option.pure_def,
    Option.some.injEq, Prod.mk.injEq] at h
  obtain ⟨_, hact, orig, _, _, _, s0, h0, ⟨s1, boosted⟩, h1, s2, h2, merged, hm, ⟨s3, n⟩, h3, s4, h4, rfl, rfl⟩ := h
  exact (payReward_cl h4).trans ((createToken_cl h3).trans ((checkAndUpdate_cl h2).trans
    ((claimOnlyBoostedPayment_cl h1).trans (takePayments_cl h0))))

theorem claimBoostedRewards_cl {s s' : St} {caller : Nat} {optUser : Option Nat} {o : Out}
    (h : claimBoostedRewards s caller optUser = some (s', o)) : cl s' = cl s := by
  simp only [claimBoostedRewards, Option.bind_eq_bind, Option.bind_eq_some_iff, req_eq_some, Option.pure_def,
    Option.some.injEq, Prod.mk.injEq, sub?_eq_some] at h
  obtain ⟨_, _, _, _, _, hact, ⟨s1, c1⟩, h1, ⟨s2, boosted⟩, h2, res, ⟨hle, rfl⟩, s3, h3, s4, h4, rfl, rfl⟩ := h
  exact (payReward_cl h4).trans ((setFarmSupplyWeek_cl h3).trans ((claimBoostedYields_cl h2).trans
    (generate_cl h1)))

theorem settle_cl {s s' : St} (h : settle s = some s') : cl s' = cl s := by
  simp only [settle, Option.bind_eq_bind, Option.bind_eq_some_iff, Option.pure_def, Option.some.injEq] at h
  obtain ⟨⟨s1, c1⟩, h1, rfl⟩ := h
  exact (generate_cl h1 : cl s1 = cl s)

/-- what one operation does to the collection ghosts: every operation but
    `collectUndistributedBoostedRewards` leaves them alone; a collection moves the marker forward
    and, for exactly the weeks it passes, adds the week's then-remaining pool to the week's
    collected ghost and empties the pool -/
def CollMove (s s' : St) : Prop :=
  cl s' = cl s ∨
  (s.lastCollect < s'.lastCollect ∧
    (∀ W, s.week = some W → s'.lastCollect + 5 = W) ∧
    (∀ w, s.lastCollect < w → w ≤ s'.lastCollect →
      s'.b.collW w = s.b.collW w + s.b.remaining w ∧ s'.b.remaining w = 0) ∧
    (∀ w, (w ≤ s.lastCollect ∨ s'.lastCollect < w) →
      s'.b.collW w = s.b.collW w ∧ s'.b.remaining w = s.b.remaining w))

theorem collectUndistributed_collMove {s s' : St} {caller : Nat}
    (h : collectUndistributed s caller = some s') : CollMove s s' := by
  simp only [collectUndistributed, Option.bind_eq_bind, Option.bind_eq_some_iff, Option.pure_def,
    req_eq_some] at h
  obtain ⟨_, _, W, hW, _, h5, h⟩ := h
  split at h
  · simp only [Option.some.injEq] at h; subst h; exact Or.inl rfl
  · rename_i hlt
    simp only [Option.some.injEq] at h
    subst h
    simp only [Weekly.USER_MAX_CLAIM_WEEKS] at h5 hlt ⊢
    obtain ⟨i1, i2, _⟩ :=
      collectWeeks_spec (W - (4 + 1) + 1 - (s.lastCollect + 1)) s.b s.undist (s.lastCollect + 1)
    refine Or.inr ⟨by show s.lastCollect < W - (4 + 1); omega, ?_, ?_, ?_⟩
    · intro W' hW'
      rw [hW] at hW'; simp only [Option.some.injEq] at hW'; subst hW'
      show W - (4 + 1) + 5 = W
      omega
    · intro w hw1 hw2
      have hw2' : w ≤ W - (4 + 1) := hw2
      obtain ⟨j1, j2⟩ := i1 w (by omega) (by omega)
      exact ⟨j2, j1⟩
    · intro w hw
      have hw' : w ≤ s.lastCollect ∨ W - (4 + 1) < w := hw
      obtain ⟨j1, j2⟩ := i2 w (by omega)
      exact ⟨j2, j1⟩

/-- every operation but `collectUndistributedBoostedRewards` leaves the collection ghosts alone -/
theorem step_cl_of_not_collect {s s' : St} {op : Op} {o : Out} (h : step s op = some (s', o))
    (hop : ∀ c, op ≠ .collect c) : cl s' = cl s := by
  cases op <;> simp only [step, known] at h
  case enter c oo a e =>
    split at h <;> [skip; exact absurd h (by simp)]
    simp only [enterFarm, Option.bind_eq_bind, Option.bind_eq_some_iff] at h
    obtain ⟨_, _, h⟩ := h
    exact enterCore_cl h
  case enterOB c u a e =>
    split at h <;> [skip; exact absurd h (by simp)]
    simp only [enterFarmOnBehalf, Option.bind_eq_bind, Option.bind_eq_some_iff] at h
    obtain ⟨_, _, _, _, h⟩ := h
    exact enterCore_cl h
  case claim c oo p =>
    split at h <;> [skip; exact absurd h (by simp)]
    simp only [claimRewards, Option.bind_eq_bind, Option.bind_eq_some_iff] at h
    obtain ⟨_, _, h⟩ := h
    exact claimCore_cl h
  case claimOB c p =>
    split at h <;> [skip; exact absurd h (by simp)]
    simp only [claimRewardsOnBehalf, Option.bind_eq_bind, Option.bind_eq_some_iff] at h
    obtain ⟨_, _, _, _, _, _, h⟩ := h
    exact claimCore_cl h
  case compound c oo p =>
    split at h <;> [skip; exact absurd h (by simp)]
    simp only [compoundRewards, Option.bind_eq_bind, Option.bind_eq_some_iff, req_eq_some] at h
    obtain ⟨_, hk, _, _, h⟩ := h
    exact claimCore_cl h
  case exit c oo n a =>
    split at h <;> [skip; exact absurd h (by simp)]
    exact exitFarm_cl h
  case merge c oo p =>
    split at h <;> [skip; exact absurd h (by simp)]
    exact mergeFarmTokens_cl h
  case claimBoosted c u =>
    split at h <;> [skip; exact absurd h (by simp)]
    exact claimBoostedRewards_cl h
  case transfer a b n x =>
    split at h <;> [skip; exact absurd h (by simp)]
    split at h <;> [skip; exact absurd h (by simp)]
    simp only [noOut, Option.map_eq_some_iff, Prod.mk.injEq] at h
    obtain ⟨s1, h1, rfl, _⟩ := h
    simp only [transfer, Option.bind_eq_bind, Option.bind_eq_some_iff, req_eq_some, sub?_eq_some,
      Option.pure_def, Option.some.injEq] at h1
    obtain ⟨_, _, _, _, _, _, _, _, rfl⟩ := h1
    exact rfl
  case setEnergy u a l t =>
    simp only [Option.some.injEq, Prod.mk.injEq] at h
    obtain ⟨rfl, _⟩ := h
    exact rfl
  case updateEnergy u =>
    simp only [noOut, Option.map_eq_some_iff, Prod.mk.injEq] at h
    obtain ⟨s1, h1, rfl, _⟩ := h
    simp only [updateEnergyForUser, Option.bind_eq_bind, Option.bind_eq_some_iff, Option.pure_def,
      Option.some.injEq] at h1
    obtain ⟨_, _, _, _, rfl⟩ := h1
    exact rfl
  case setPerBlock c x =>
    simp only [noOut, Option.map_eq_some_iff, Prod.mk.injEq] at h
    obtain ⟨s1, h1, rfl, _⟩ := h
    simp only [setPerBlock, Option.bind_eq_bind, Option.bind_eq_some_iff, Option.pure_def,
      Option.some.injEq] at h1
    obtain ⟨_, _, _, _, s2, h2, rfl⟩ := h1
    exact (settle_cl h2 : cl s2 = cl s)
  case startProduce c =>
    simp only [noOut, Option.map_eq_some_iff, Prod.mk.injEq] at h
    obtain ⟨s1, h1, rfl, _⟩ := h
    simp only [startProduce, Option.bind_eq_bind, Option.bind_eq_some_iff, Option.pure_def,
      Option.some.injEq] at h1
    obtain ⟨_, _, _, _, _, _, rfl⟩ := h1
    exact rfl
  case endProduce c =>
    simp only [noOut, Option.map_eq_some_iff, Prod.mk.injEq] at h
    obtain ⟨s1, h1, rfl, _⟩ := h
    simp only [endProduce, Option.bind_eq_bind, Option.bind_eq_some_iff, Option.pure_def,
      Option.some.injEq] at h1
    obtain ⟨_, _, s2, h2, rfl⟩ := h1
    exact (settle_cl h2 : cl s2 = cl s)
  case setPct c p =>
    simp only [noOut, Option.map_eq_some_iff, Prod.mk.injEq] at h
    obtain ⟨s1, h1, rfl, _⟩ := h
    simp only [setPct, Option.bind_eq_bind, Option.bind_eq_some_iff, Option.pure_def,
      Option.some.injEq] at h1
    obtain ⟨_, _, _, _, s2, h2, rfl⟩ := h1
    exact (settle_cl h2 : cl s2 = cl s)
  case setFactors c f =>
    simp only [noOut, Option.map_eq_some_iff, Prod.mk.injEq] at h
    obtain ⟨s1, h1, rfl, _⟩ := h
    simp only [setFactors, Option.bind_eq_bind, Option.bind_eq_some_iff, Option.pure_def] at h1
    obtain ⟨_, _, _, _, _, _, W, _, h1⟩ := h1
    split at h1
    · simp only [Option.bind_eq_some_iff, Option.some.injEq] at h1
      obtain ⟨_, _, rfl⟩ := h1
      exact rfl
    · simp only [Option.some.injEq] at h1
      subst h1
      exact rfl
  case collect c => exact absurd rfl (hop c)
  case pause c =>
    simp only [noOut, Option.map_eq_some_iff, Prod.mk.injEq] at h
    obtain ⟨s1, h1, rfl, _⟩ := h
    simp only [setActive, Option.bind_eq_bind, Option.bind_eq_some_iff, Option.pure_def,
      Option.some.injEq] at h1
    obtain ⟨_, _, rfl⟩ := h1
    exact rfl
  case resume c =>
    simp only [noOut, Option.map_eq_some_iff, Prod.mk.injEq] at h
    obtain ⟨s1, h1, rfl, _⟩ := h
    simp only [setActive, Option.bind_eq_bind, Option.bind_eq_some_iff, Option.pure_def,
      Option.some.injEq] at h1
    obtain ⟨_, _, rfl⟩ := h1
    exact rfl
  case setPenalty c p =>
    simp only [noOut, Option.map_eq_some_iff, Prod.mk.injEq] at h
    obtain ⟨s1, h1, rfl, _⟩ := h
    simp only [setPenalty, Option.bind_eq_bind, Option.bind_eq_some_iff, Option.pure_def,
      Option.some.injEq] at h1
    obtain ⟨_, _, _, _, rfl⟩ := h1
    exact rfl
  case setMinEpochs c n =>
    simp only [noOut, Option.map_eq_some_iff, Prod.mk.injEq] at h
    obtain ⟨s1, h1, rfl, _⟩ := h
    simp only [setMinEpochs, Option.bind_eq_bind, Option.bind_eq_some_iff, Option.pure_def,
      Option.some.injEq] at h1
    obtain ⟨_, _, _, _, rfl⟩ := h1
    exact rfl
  case hubWhitelist u a =>
    split at h
    · cases h
    · simp only [Option.some.injEq, Prod.mk.injEq] at h; obtain ⟨rfl, _⟩ := h; exact rfl
  case hubRemove u a =>
    split at h
    · simp only [Option.some.injEq, Prod.mk.injEq] at h; obtain ⟨rfl, _⟩ := h; exact rfl
    · cases h
  case hubBlacklist a =>
    simp only [Option.some.injEq, Prod.mk.injEq] at h; obtain ⟨rfl, _⟩ := h; exact rfl
  case scWhitelist a =>
    split at h
    · cases h
    · simp only [Option.some.injEq, Prod.mk.injEq] at h; obtain ⟨rfl, _⟩ := h; exact rfl
  case scUnwhitelist a =>
    split at h
    · simp only [Option.some.injEq, Prod.mk.injEq] at h; obtain ⟨rfl, _⟩ := h; exact rfl
    · cases h
  case advance b e =>
    split at h
    · simp only [Option.some.injEq, Prod.mk.injEq] at h; obtain ⟨rfl, _⟩ := h; exact rfl
    · cases h
  case bad => cases h

theorem step_collMove {s s' : St} {op : Op} {o : Out} (h : step s op = some (s', o)) : CollMove s s' := by
  by_cases hop : ∀ c, op ≠ .collect c
  · exact Or.inl (step_cl_of_not_collect h hop)
  · have : ∃ c, op = .collect c := by
      apply Classical.byContradiction
      intro hn
      exact hop (fun c hc => hn ⟨c, hc⟩)
    obtain ⟨c, rfl⟩ := this
    simp only [step, noOut, Option.map_eq_some_iff, Prod.mk.injEq] at h
    obtain ⟨s1, h1, rfl, _⟩ := h
    exact collectUndistributed_collMove h1

/-- the run-level collection invariant: every week above the marker is uncollected -/
def CollInv (s : St) : Prop := ∀ w, s.lastCollect < w → s.b.collW w = 0

theorem CollMove.inv {s s' : St} (hm : CollMove s s') (hI : CollInv s) :
    CollInv s' ∧ s.lastCollect ≤ s'.lastCollect := by
  rcases hm with h | ⟨h1, _, _, h4⟩
  · simp only [cl, Prod.mk.injEq] at h
    obtain ⟨e1, e2⟩ := h
    refine ⟨?_, by omega⟩
    intro w hw
    rw [e1]
    exact hI w (by omega)
  · refine ⟨?_, by omega⟩
    intro w hw
    rw [(h4 w (Or.inr hw)).1]
    exact hI w (by omega)

theorem init_collInv (kind : Kind) (sameTok : Bool) (dsc perBlock : Nat) (produce : Bool)
    (users : List Nat) (e0 : Nat) : CollInv (init kind sameTok dsc perBlock produce users e0) :=
  fun _ _ => rfl

theorem run_collInv (ops : List Op) {s : St} (hI : CollInv s) :
    CollInv (run s ops) ∧ s.lastCollect ≤ (run s ops).lastCollect := by
  induction ops generalizing s with
  | nil => exact ⟨hI, Nat.le_refl _⟩
  | cons op rest ih =>
    simp only [run, List.foldl_cons]
    cases hs : step s op with
    | none => exact ih hI
    | some r =>
      obtain ⟨k1, k2⟩ := (step_collMove (show step s op = some (r.1, r.2) from hs)).inv hI
      obtain ⟨a1, a2⟩ := ih k1
      exact ⟨a1, Nat.le_trans k2 a2⟩

end Mx.Farm
