/-
  The base-asset / locked-token supply ledgers of the energy world (C09 `base_supply_delta`):
  preserved by every operation, hence by every history.
-/
import MxModel.Lemmas.EnergyStep

namespace Mx.Energy

/-- the two ledgers.
    `ledger`   : base supply = initial + minted (unlock, early unlock) − burned (lock, cancel);
    `conserve` : base supply + locked tokens in circulation + penalties pending in the unbond queue
                 + penalties destroyed (burned / sent to the collector) = initial supply + tokens
                 created by reward locking.  Every summand is a natural number, so the base supply
                 can never exceed initial + reward emission. -/
structure SupplyInv (s : St) : Prop where
  ledger : s.baseSupply + s.burnLock + s.burnCancel = s.baseInit + s.mintUnlock + s.mintEarly
  conserve : s.baseSupply + s.circ + s.pendingPenalty + s.penBurned + s.collected =
    s.baseInit + s.virtLocked

/-- all supply ghosts agree -/
def SameGhost (s s1 : St) : Prop :=
  s1.baseInit = s.baseInit ∧ s1.baseSupply = s.baseSupply ∧ s1.circ = s.circ ∧
  s1.pendingPenalty = s.pendingPenalty ∧ s1.penBurned = s.penBurned ∧ s1.collected = s.collected ∧
  s1.mintUnlock = s.mintUnlock ∧ s1.mintEarly = s.mintEarly ∧ s1.burnLock = s.burnLock ∧
  s1.burnCancel = s.burnCancel ∧ s1.virtLocked = s.virtLocked ∧ s1.base = s.base ∧ s1.burnPct = s.burnPct

theorem SameGhost.refl (s : St) : SameGhost s s :=
  ⟨rfl, rfl, rfl, rfl, rfl, rfl, rfl, rfl, rfl, rfl, rfl, rfl, rfl⟩

theorem SameGhost.trans {s s1 s2 : St} (h1 : SameGhost s s1) (h2 : SameGhost s1 s2) : SameGhost s s2 := by
  obtain ⟨a1, a2, a3, a4, a5, a6, a7, a8, a9, a10, a11, a12, a13⟩ := h1
  obtain ⟨b1, b2, b3, b4, b5, b6, b7, b8, b9, b10, b11, b12, b13⟩ := h2
  exact ⟨b1.trans a1, b2.trans a2, b3.trans a3, b4.trans a4, b5.trans a5, b6.trans a6, b7.trans a7,
    b8.trans a8, b9.trans a9, b10.trans a10, b11.trans a11, b12.trans a12, b13.trans a13⟩

theorem debit_ghost {s s1 : St} {a n amt : Nat} (h : s.debit a n amt = some s1) : SameGhost s s1 := by
  obtain ⟨_, rfl⟩ := debit_spec h
  exact SameGhost.refl _

theorem credit_ghost (s : St) (a n amt : Nat) : SameGhost s (s.credit a n amt) := SameGhost.refl _

theorem ensureNonce_ghost (s : St) (u : Nat) : SameGhost s (s.ensureNonce u) := by
  unfold St.ensureNonce; split <;> exact SameGhost.refl _

theorem ensureWNonce_ghost (s : St) (u : Nat) : SameGhost s (s.ensureWNonce u) := by
  unfold St.ensureWNonce; split <;> exact SameGhost.refl _

theorem unlockPays_ghost (ps : List (Nat × Nat)) {s s2 : St} {c : Nat} {e e2 : Entry} {tot : Nat}
    (h : unlockPays s c e ps = some (s2, e2, tot)) :
    SameGhost s s2 ∧ tot = (ps.map (·.2)).sum ∧
    ∀ p ∈ ps, ∃ u, s.unlockOf p.1 = some u ∧ u ≤ s.epoch ∧ 0 < p.2 := by
  induction ps generalizing s e tot with
  | nil =>
    simp only [unlockPays, Option.some.injEq, Prod.mk.injEq] at h
    obtain ⟨rfl, _, rfl⟩ := h
    exact ⟨SameGhost.refl _, rfl, by simp⟩
  | cons p ps ih =>
    obtain ⟨n, amt⟩ := p
    simp only [unlockPays, Option.bind_eq_bind, Option.bind_eq_some_iff, req_eq_some,
      Option.pure_def, Option.some.injEq, Prod.mk.injEq] at h
    obtain ⟨u, hu, s1, hdeb, _, hle, _, hpos, e1, _, ⟨s2', e2', tot'⟩, hrec, rfl, rfl, rfl⟩ := h
    obtain ⟨g, ht, hall⟩ := ih hrec
    obtain ⟨_, hs1⟩ := debit_spec hdeb
    refine ⟨(debit_ghost hdeb).trans g, ?_, ?_⟩
    · simp only [List.map_cons, List.sum_cons]; omega
    · intro p hp
      rcases List.mem_cons.mp hp with rfl | hin
      · exact ⟨u, hu, hle, hpos⟩
      · obtain ⟨u', h1, h2, h3⟩ := hall p hin
        subst hs1
        exact ⟨u', h1, h2, h3⟩

theorem mergePays_ghost (ps : List (Nat × Nat)) {s s2 : St} {c : Nat} {e e2 : Entry}
    {accE accW accE' accW' : Nat}
    (h : mergePays s c e accE accW ps = some (s2, e2, accE', accW')) :
    SameGhost s s2 ∧ accW' = accW + (ps.map (·.2)).sum := by
  induction ps generalizing s e accE accW with
  | nil =>
    simp only [mergePays, Option.some.injEq, Prod.mk.injEq] at h
    obtain ⟨rfl, _, _, rfl⟩ := h
    exact ⟨SameGhost.refl _, by simp⟩
  | cons p ps ih =>
    obtain ⟨n, amt⟩ := p
    simp only [mergePays, Option.bind_eq_bind, Option.bind_eq_some_iff, req_eq_some] at h
    obtain ⟨u, _, s1, hdeb, _, _, e1, _, _, _, hrec⟩ := h
    obtain ⟨g, hw⟩ := ih hrec
    refine ⟨(debit_ghost hdeb).trans g, ?_⟩
    simp only [List.map_cons, List.sum_cons]; omega

theorem deductPays_ghost (ps : List (Nat × Nat)) {s s2 : St} {esc c : Nat} {e e2 : Entry}
    (h : deductPays s esc c e ps = some (s2, e2)) : SameGhost s s2 := by
  induction ps generalizing s e with
  | nil =>
    simp only [deductPays, Option.some.injEq, Prod.mk.injEq] at h
    obtain ⟨rfl, _⟩ := h
    exact SameGhost.refl _
  | cons p ps ih =>
    obtain ⟨n, amt⟩ := p
    simp only [deductPays, Option.bind_eq_bind, Option.bind_eq_some_iff, req_eq_some] at h
    obtain ⟨u, _, s1, hdeb, _, _, e1, _, hrec⟩ := h
    exact ((debit_ghost hdeb).trans (credit_ghost s1 esc n amt)).trans (ih hrec)

theorem addPays_ghost (ps : List (Nat × Nat)) {s s2 : St} {esc c : Nat} {e e2 : Entry}
    (h : addPays s esc c e ps = some (s2, e2)) : SameGhost s s2 := by
  induction ps generalizing s e with
  | nil =>
    simp only [addPays, Option.some.injEq, Prod.mk.injEq] at h
    obtain ⟨rfl, _⟩ := h
    exact SameGhost.refl _
  | cons p ps ih =>
    obtain ⟨n, amt⟩ := p
    simp only [addPays, Option.bind_eq_bind, Option.bind_eq_some_iff] at h
    obtain ⟨u, _, s1, hdeb, hrec⟩ := h
    exact ((debit_ghost hdeb).trans (credit_ghost s1 c n amt)).trans (ih hrec)

/-- `claimUnlockedTokens`' loop: penalties leave the queue and are split between burn and collector -/
theorem claimEntries_supply (qs : List UEntry) {s s2 : St} {paid : Nat}
    (h : claimEntries s qs = some (s2, paid)) :
    s2.baseInit = s.baseInit ∧ s2.baseSupply = s.baseSupply ∧ s2.circ = s.circ ∧
    s2.mintUnlock = s.mintUnlock ∧ s2.mintEarly = s.mintEarly ∧ s2.burnLock = s.burnLock ∧
    s2.burnCancel = s.burnCancel ∧ s2.virtLocked = s.virtLocked ∧ s2.burnPct = s.burnPct ∧
    s2.pendingPenalty + (qs.map (fun q => q.locked - q.unlocked)).sum = s.pendingPenalty ∧
    s2.penBurned = s.penBurned + (qs.map (fun q => (q.locked - q.unlocked) * s.burnPct / MAXPCT)).sum ∧
    s2.collected = s.collected + (qs.map (fun q => (q.locked - q.unlocked) -
        (q.locked - q.unlocked) * s.burnPct / MAXPCT)).sum ∧
    paid = (qs.map (·.unlocked)).sum ∧
    s2.base UNSTAKE + paid = s.base UNSTAKE ∧ (∀ a, a ≠ UNSTAKE → s2.base a = s.base a) ∧
    ∀ q ∈ qs, q.unlocked ≤ q.locked := by
  induction qs generalizing s paid with
  | nil =>
    simp only [claimEntries, Option.some.injEq, Prod.mk.injEq] at h
    obtain ⟨rfl, rfl⟩ := h
    simp
  | cons q qs ih =>
    simp only [claimEntries, Option.bind_eq_bind, Option.bind_eq_some_iff, sub?_eq_some,
      Option.pure_def, Option.some.injEq, Prod.mk.injEq] at h
    obtain ⟨s1, hdeb, pen, ⟨hpen, rfl⟩, b, ⟨hb, rfl⟩, pp, ⟨hpp, rfl⟩, ⟨s2', paid'⟩, hrec, rfl, rfl⟩ := h
    obtain ⟨_, rfl⟩ := debit_spec hdeb
    obtain ⟨a1, a2, a3, a4, a5, a6, a7, a8, a9, a10, a11, a12, a13, a14, a15, a16⟩ := ih hrec
    simp only [] at a1 a2 a3 a4 a5 a6 a7 a8 a9 a10 a11 a12 a14 a15 hb hpp
    refine ⟨a1, a2, a3, a4, a5, a6, a7, a8, a9, ?_, ?_, ?_, ?_, ?_, ?_, ?_⟩
    · simp only [List.map_cons, List.sum_cons]; omega
    · simp only [List.map_cons, List.sum_cons]; rw [a11]; omega
    · simp only [List.map_cons, List.sum_cons]; rw [a12]; omega
    · simp only [List.map_cons, List.sum_cons]; omega
    · rw [upd_same] at a14; dsimp only; omega
    · intro a ha; rw [a15 a ha, upd_other _ _ ha]
    · intro x hx
      rcases List.mem_cons.mp hx with rfl | hin
      · exact hpen
      · exact a16 x hin

/-- `cancelUnbond`'s loop: the base tokens are burned, the locked tokens (penalty included) return -/
theorem cancelEntries_supply (qs : List UEntry) {s s2 : St} {c : Nat} {e e2 : Entry}
    (h : cancelEntries s c e qs = some (s2, e2)) :
    s2.burnPct = s.burnPct ∧
    s2.baseInit = s.baseInit ∧ s2.mintUnlock = s.mintUnlock ∧ s2.mintEarly = s.mintEarly ∧
    s2.burnLock = s.burnLock ∧ s2.virtLocked = s.virtLocked ∧ s2.penBurned = s.penBurned ∧
    s2.collected = s.collected ∧
    s2.baseSupply + (qs.map (·.unlocked)).sum = s.baseSupply ∧
    s2.burnCancel = s.burnCancel + (qs.map (·.unlocked)).sum ∧
    s2.circ = s.circ + (qs.map (·.locked)).sum ∧
    s2.pendingPenalty + (qs.map (fun q => q.locked - q.unlocked)).sum = s.pendingPenalty ∧
    ∀ q ∈ qs, q.unlocked ≤ q.locked := by
  induction qs generalizing s e with
  | nil =>
    simp only [cancelEntries, Option.some.injEq, Prod.mk.injEq] at h
    obtain ⟨rfl, _⟩ := h
    simp
  | cons q qs ih =>
    simp only [cancelEntries, Option.bind_eq_bind, Option.bind_eq_some_iff, sub?_eq_some] at h
    obtain ⟨u, _, s1, hdeb, b, ⟨hb, rfl⟩, bs, ⟨hbs, rfl⟩, pen, ⟨hpen, rfl⟩, pp, ⟨hpp, rfl⟩, hrec⟩ := h
    obtain ⟨_, rfl⟩ := debit_spec hdeb
    obtain ⟨a0, a1, a2, a3, a4, a5, a6, a7, a8, a9, a10, a11, a12⟩ := ih hrec
    simp only [St.credit] at a0 a1 a2 a3 a4 a5 a6 a7 a8 a9 a10 a11 hbs hpp
    refine ⟨a0, a1, a2, a3, a4, a5, a6, a7, ?_, ?_, ?_, ?_, ?_⟩
    · simp only [List.map_cons, List.sum_cons]; omega
    · simp only [List.map_cons, List.sum_cons]; omega
    · simp only [List.map_cons, List.sum_cons]; omega
    · simp only [List.map_cons, List.sum_cons]; omega
    · intro x hx
      rcases List.mem_cons.mp hx with rfl | hin
      · exact hpen
      · exact a12 x hin

theorem sum_sub_le (qs : List UEntry) (h : ∀ q ∈ qs, q.unlocked ≤ q.locked) :
    (qs.map (·.unlocked)).sum + (qs.map (fun q => q.locked - q.unlocked)).sum = (qs.map (·.locked)).sum := by
  induction qs with
  | nil => rfl
  | cons q qs ih =>
    simp only [List.map_cons, List.sum_cons]
    have := ih (fun x hx => h x (by simp [hx]))
    have := h q (by simp)
    omega

theorem sum_split (qs : List UEntry) (bp : Nat) (hbp : bp ≤ MAXPCT) :
    (qs.map (fun q => (q.locked - q.unlocked) * bp / MAXPCT)).sum +
      (qs.map (fun q => (q.locked - q.unlocked) - (q.locked - q.unlocked) * bp / MAXPCT)).sum =
    (qs.map (fun q => q.locked - q.unlocked)).sum := by
  induction qs with
  | nil => rfl
  | cons q qs ih =>
    simp only [List.map_cons, List.sum_cons]
    have h1 : (q.locked - q.unlocked) * bp / MAXPCT ≤ q.locked - q.unlocked := by
      apply Nat.div_le_of_le_mul
      rw [Nat.mul_comm]
      exact Nat.mul_le_mul_right _ hbp
    have := ih
    generalize (q.locked - q.unlocked) * bp / MAXPCT = x at *
    omega

/-! ### every operation keeps both ledgers -/

theorem lockTokens_supply {s s' : St} {c amt epochs dest : Nat} {o : Out} (hs : SupplyInv s)
    (h : lockTokens s c amt epochs dest = some (s', o)) : SupplyInv s' := by
  obtain ⟨_, _, _, _, _, _, h7, _, rfl⟩ := lockTokens_spec h
  obtain ⟨g1, g2, g3, g4, g5, g6, g7, g8, g9, g10, g11, _, _⟩ := ensureNonce_ghost s (lockUnlock s epochs)
  obtain ⟨l, cv⟩ := hs
  constructor <;> simp only [St.credit, St.setEnergy, g1, g4, g5, g6, g7, g8, g10, g11] <;> omega

theorem extendLock_supply {s s' : St} {c n amt epochs dest : Nat} {o : Out} (hs : SupplyInv s)
    (h : extendLock s c n amt epochs dest = some (s', o)) : SupplyInv s' := by
  simp only [extendLock, Option.bind_eq_bind, Option.bind_eq_some_iff, req_eq_some,
    Option.pure_def, Option.some.injEq, Prod.mk.injEq] at h
  obtain ⟨_, _, _, _, _, _, _, _, _, _, old, _, s0, hdeb, _, _, e0, _, _, _, rfl, _⟩ := h
  obtain ⟨g1, g2, g3, g4, g5, g6, g7, g8, g9, g10, g11, _, _⟩ :=
    (debit_ghost hdeb).trans (ensureNonce_ghost s0 (startOfMonth (s.epoch + epochs)))
  obtain ⟨l, cv⟩ := hs
  constructor <;> simp only [St.credit, St.setEnergy, g1, g2, g3, g4, g5, g6, g7, g8, g9, g10, g11] <;> omega

theorem unlockTokens_supply {s s' : St} {c : Nat} {ps : List (Nat × Nat)} {o : Out} (hs : SupplyInv s)
    (h : unlockTokens s c ps = some (s', o)) : SupplyInv s' := by
  simp only [unlockTokens, Option.bind_eq_bind, Option.bind_eq_some_iff, req_eq_some, sub?_eq_some,
    Option.pure_def, Option.some.injEq, Prod.mk.injEq] at h
  obtain ⟨_, _, _, _, ⟨s1, e, tot⟩, hp, circ, ⟨hle, rfl⟩, rfl, _⟩ := h
  obtain ⟨⟨g1, g2, g3, g4, g5, g6, g7, g8, g9, g10, g11, _, _⟩, _, _⟩ := unlockPays_ghost ps hp
  obtain ⟨l, cv⟩ := hs
  simp only [] at hle
  constructor <;> simp only [St.setEnergy, g1, g2, g3, g4, g5, g6, g7, g8, g9, g10, g11] <;> omega

theorem mergeTokens_supply {s s' : St} {c orig : Nat} {ps : List (Nat × Nat)} {o : Out}
    (hs : SupplyInv s) (h : mergeTokens s c orig ps = some (s', o)) : SupplyInv s' := by
  cases ps with
  | nil => simp [mergeTokens] at h
  | cons p rest =>
    obtain ⟨n1, a1⟩ := p
    simp only [mergeTokens, Option.bind_eq_bind, Option.bind_eq_some_iff, req_eq_some,
      Option.pure_def, Option.some.injEq, Prod.mk.injEq] at h
    obtain ⟨_, _, _, _, _, _, u1, _, s1, hdeb, _, _, e1, _, ⟨s2, e2, accE, accW⟩, hp, _, _, _, _,
      rfl, _⟩ := h
    obtain ⟨g1, g2, g3, g4, g5, g6, g7, g8, g9, g10, g11, _, _⟩ :=
      ((debit_ghost hdeb).trans (mergePays_ghost rest hp).1).trans
        (ensureNonce_ghost s2 (upperEstimate s.opts s.epoch accE))
    obtain ⟨l, cv⟩ := hs
    constructor <;> simp only [St.credit, St.setEnergy, g1, g2, g3, g4, g5, g6, g7, g8, g9, g10, g11] <;> omega

theorem unlockEarly_supply {s s' : St} {c n amt : Nat} {o : Out} (hs : SupplyInv s)
    (h : unlockEarly s c n amt = some (s', o)) : SupplyInv s' := by
  simp only [unlockEarly, Option.bind_eq_bind, Option.bind_eq_some_iff, req_eq_some, sub?_eq_some,
    Option.pure_def, Option.some.injEq, Prod.mk.injEq] at h
  obtain ⟨_, _, u, _, s1, hdeb, _, _, e, _, pen, _, _, _, _, hpen, circ, ⟨hle, rfl⟩, rfl, _⟩ := h
  obtain ⟨g1, g2, g3, g4, g5, g6, g7, g8, g9, g10, g11, _, _⟩ := debit_ghost hdeb
  obtain ⟨l, cv⟩ := hs
  constructor <;> simp only [St.credit, St.setEnergy, g1, g2, g3, g4, g5, g6, g7, g8, g9, g10, g11] <;> omega

theorem reduceLock_supply {s s' : St} {c n amt epochs : Nat} {o : Out} (hs : SupplyInv s)
    (hb : s.burnPct ≤ MAXPCT) (h : reduceLock s c n amt epochs = some (s', o)) : SupplyInv s' := by
  simp only [reduceLock, Option.bind_eq_bind, Option.bind_eq_some_iff, req_eq_some, sub?_eq_some,
    Option.pure_def, Option.some.injEq, Prod.mk.injEq] at h
  obtain ⟨_, _, _, _, _, _, u, _, s1, hdeb, _, _, newEp, _, _, _, e, _, pen, _, _, _, _, hpen, _, _,
    circ, ⟨hle, rfl⟩, rfl, _⟩ := h
  obtain ⟨g1, g2, g3, g4, g5, g6, g7, g8, g9, g10, g11, _, _⟩ :=
    (debit_ghost hdeb).trans (ensureNonce_ghost s1 (s.epoch + newEp))
  obtain ⟨l, cv⟩ := hs
  have hburn : pen * s.burnPct / MAXPCT ≤ pen := by
    apply Nat.div_le_of_le_mul
    rw [Nat.mul_comm]
    exact Nat.mul_le_mul_right _ hb
  generalize pen * s.burnPct / MAXPCT = burn at *
  constructor <;> simp only [St.credit, St.setEnergy, g1, g2, g3, g4, g5, g6, g7, g8, g9, g10, g11] <;> omega

theorem lockVirtual_supply {s s' : St} {c amt epochs d ea : Nat} {o : Out} (hs : SupplyInv s)
    (h : lockVirtual s c amt epochs d ea = some (s', o)) : SupplyInv s' := by
  simp only [lockVirtual, Option.bind_eq_bind, Option.bind_eq_some_iff, req_eq_some,
    Option.pure_def, Option.some.injEq, Prod.mk.injEq] at h
  obtain ⟨_, _, _, _, _, _, _, _, _, _, _, _, rfl, _⟩ := h
  obtain ⟨g1, g2, g3, g4, g5, g6, g7, g8, g9, g10, g11, _, _⟩ :=
    ensureNonce_ghost s (startOfMonth (s.epoch + epochs))
  obtain ⟨l, cv⟩ := hs
  constructor <;> simp only [St.credit, St.setEnergy, g1, g2, g3, g4, g5, g6, g7, g8, g9, g10, g11] <;> omega

theorem claimUnlocked_supply {s s' : St} {c : Nat} {o : Out} (hs : SupplyInv s)
    (hb : s.burnPct ≤ MAXPCT) (h : claimUnlocked s c = some (s', o)) : SupplyInv s' := by
  simp only [claimUnlocked, Option.bind_eq_bind, Option.bind_eq_some_iff, req_eq_some,
    Option.pure_def, Option.some.injEq, Prod.mk.injEq] at h
  obtain ⟨_, _, ⟨s1, paid⟩, hp, rfl, _⟩ := h
  obtain ⟨a1, a2, a3, a4, a5, a6, a7, a8, _, a10, a11, a12, _, _, _, _⟩ := claimEntries_supply _ hp
  have hsplit := sum_split (claimable s.epoch (s.queue c)) s.burnPct hb
  obtain ⟨l, cv⟩ := hs
  constructor <;> simp only [a1, a2, a3, a4, a5, a6, a7, a8, a11, a12] <;> omega

theorem cancelUnbond_supply {s s' : St} {c : Nat} {o : Out} (hs : SupplyInv s)
    (h : cancelUnbond s c = some (s', o)) : SupplyInv s' := by
  simp only [cancelUnbond, Option.bind_eq_bind, Option.bind_eq_some_iff, req_eq_some,
    Option.pure_def, Option.some.injEq, Prod.mk.injEq] at h
  obtain ⟨_, _, ⟨s1, e⟩, hp, _, _, rfl, _⟩ := h
  obtain ⟨_, a1, a2, a3, a4, a5, a6, a7, a8, a9, a10, a11, a12⟩ := cancelEntries_supply _ hp
  have hsum := sum_sub_le (s.queue c) a12
  obtain ⟨l, cv⟩ := hs
  constructor <;> simp only [St.setEnergy, a1, a2, a3, a4, a5, a6, a7, a9, a10] <;> omega

theorem SupplyInv.of_same {s s' : St} (hs : SupplyInv s) (g : SameGhost s s') : SupplyInv s' := by
  obtain ⟨g1, g2, g3, g4, g5, g6, g7, g8, g9, g10, g11, _, _⟩ := g
  obtain ⟨l, cv⟩ := hs
  constructor <;> simp only [g1, g2, g3, g4, g5, g6, g7, g8, g9, g10, g11] <;> omega

theorem cfg_ghost {s s' : St} {o : CfgOp} (h : cfg s o = some s') :
    SameGhost s { s' with burnPct := s.burnPct } ∧ (s'.burnPct = s.burnPct ∨ s'.burnPct ≤ MAXPCT) := by
  cases o <;>
    simp only [cfg, Option.bind_eq_bind, Option.bind_eq_some_iff, req_eq_some, Option.pure_def,
      Option.some.injEq] at h
  case addOptions => obtain ⟨_, _, _, _, _, _, _, _, _, _, rfl⟩ := h; exact ⟨SameGhost.refl _, Or.inl rfl⟩
  case setBurnPct => obtain ⟨_, hp, rfl⟩ := h; exact ⟨SameGhost.refl _, Or.inr hp⟩
  case pause => subst h; exact ⟨SameGhost.refl _, Or.inl rfl⟩
  case whitelist => obtain ⟨_, _, rfl⟩ := h; exact ⟨SameGhost.refl _, Or.inl rfl⟩
  case unwhitelist => obtain ⟨_, _, rfl⟩ := h; exact ⟨SameGhost.refl _, Or.inl rfl⟩

/-- the supply invariant together with the admissibility of the burn percentage -/
def SInv (s : St) : Prop := SupplyInv s ∧ s.burnPct ≤ MAXPCT

theorem step_sinv {s s' : St} {op : Op} {o : Out} (hi : SInv s) (h : step s op = some (s', o)) :
    SInv s' := by
  obtain ⟨hs, hb⟩ := hi
  cases op <;> simp only [step] at h
  case lock =>
    refine ⟨lockTokens_supply hs h, ?_⟩
    obtain ⟨_, _, _, _, _, _, _, _, rfl⟩ := lockTokens_spec h
    rw [← (ensureNonce_ghost s _).2.2.2.2.2.2.2.2.2.2.2.2] at hb
    exact hb
  case extend c n amt epochs dest =>
    refine ⟨extendLock_supply hs h, ?_⟩
    simp only [extendLock, Option.bind_eq_bind, Option.bind_eq_some_iff, req_eq_some,
      Option.pure_def, Option.some.injEq, Prod.mk.injEq] at h
    obtain ⟨_, _, _, _, _, _, _, _, _, _, old, _, s0, hdeb, _, _, e0, _, _, _, rfl, _⟩ := h
    have g := (debit_ghost hdeb).trans (ensureNonce_ghost s0 (startOfMonth (s.epoch + epochs)))
    rw [← g.2.2.2.2.2.2.2.2.2.2.2.2] at hb
    exact hb
  case unlock =>
    refine ⟨unlockTokens_supply hs h, ?_⟩
    simp only [unlockTokens, Option.bind_eq_bind, Option.bind_eq_some_iff, req_eq_some, sub?_eq_some,
      Option.pure_def, Option.some.injEq, Prod.mk.injEq] at h
    obtain ⟨_, _, _, _, ⟨s1, e, tot⟩, hp, circ, _, rfl, _⟩ := h
    have g := (unlockPays_ghost _ hp).1
    rw [← g.2.2.2.2.2.2.2.2.2.2.2.2] at hb
    exact hb
  case merge c orig ps =>
    refine ⟨mergeTokens_supply hs h, ?_⟩
    cases ps with
    | nil => simp [mergeTokens] at h
    | cons p rest =>
      obtain ⟨n1, a1⟩ := p
      simp only [mergeTokens, Option.bind_eq_bind, Option.bind_eq_some_iff, req_eq_some,
        Option.pure_def, Option.some.injEq, Prod.mk.injEq] at h
      obtain ⟨_, _, _, _, _, _, u1, _, s1, hdeb, _, _, e1, _, ⟨s2, e2, accE, accW⟩, hp, _, _, _, _,
        rfl, _⟩ := h
      have g := ((debit_ghost hdeb).trans (mergePays_ghost rest hp).1).trans
        (ensureNonce_ghost s2 (upperEstimate s.opts s.epoch accE))
      rw [← g.2.2.2.2.2.2.2.2.2.2.2.2] at hb
      exact hb
  case unlockEarly =>
    refine ⟨unlockEarly_supply hs h, ?_⟩
    simp only [unlockEarly, Option.bind_eq_bind, Option.bind_eq_some_iff, req_eq_some, sub?_eq_some,
      Option.pure_def, Option.some.injEq, Prod.mk.injEq] at h
    obtain ⟨_, _, u, _, s1, hdeb, _, _, e, _, pen, _, _, _, _, _, circ, _, rfl, _⟩ := h
    have g := debit_ghost hdeb
    rw [← g.2.2.2.2.2.2.2.2.2.2.2.2] at hb
    exact hb
  case reduce =>
    refine ⟨reduceLock_supply hs hb h, ?_⟩
    simp only [reduceLock, Option.bind_eq_bind, Option.bind_eq_some_iff, req_eq_some, sub?_eq_some,
      Option.pure_def, Option.some.injEq, Prod.mk.injEq] at h
    obtain ⟨_, _, _, _, _, _, u, _, s1, hdeb, _, _, newEp, _, _, _, e, _, pen, _, _, _, _, _, _, _,
      circ, _, rfl, _⟩ := h
    have g := (debit_ghost hdeb).trans (ensureNonce_ghost s1 (s.epoch + newEp))
    rw [← g.2.2.2.2.2.2.2.2.2.2.2.2] at hb
    exact hb
  case lockVirtual c amt epochs d ea =>
    refine ⟨lockVirtual_supply hs h, ?_⟩
    simp only [lockVirtual, Option.bind_eq_bind, Option.bind_eq_some_iff, req_eq_some,
      Option.pure_def, Option.some.injEq, Prod.mk.injEq] at h
    obtain ⟨_, _, _, _, _, _, _, _, _, _, _, _, rfl, _⟩ := h
    have g := ensureNonce_ghost s (startOfMonth (s.epoch + epochs))
    rw [← g.2.2.2.2.2.2.2.2.2.2.2.2] at hb
    exact hb
  case claim =>
    refine ⟨claimUnlocked_supply hs hb h, ?_⟩
    simp only [claimUnlocked, Option.bind_eq_bind, Option.bind_eq_some_iff, req_eq_some,
      Option.pure_def, Option.some.injEq, Prod.mk.injEq] at h
    obtain ⟨_, _, ⟨s1, paid⟩, hp, rfl, _⟩ := h
    obtain ⟨_, _, _, _, _, _, _, _, a9, _⟩ := claimEntries_supply _ hp
    show s1.burnPct ≤ MAXPCT
    rw [a9]; exact hb
  case cancel c =>
    refine ⟨cancelUnbond_supply hs h, ?_⟩
    simp only [cancelUnbond, Option.bind_eq_bind, Option.bind_eq_some_iff, req_eq_some,
      Option.pure_def, Option.some.injEq, Prod.mk.injEq] at h
    obtain ⟨_, _, ⟨s1, e⟩, hp, _, _, rfl, _⟩ := h
    show s1.burnPct ≤ MAXPCT
    rw [(cancelEntries_supply _ hp).1]; exact hb
  case lockFunds =>
    simp only [lockFunds, Option.bind_eq_bind, Option.bind_eq_some_iff, req_eq_some,
      Option.pure_def, Option.some.injEq, Prod.mk.injEq] at h
    obtain ⟨_, _, _, _, ⟨s1, e⟩, hp, _, _, rfl, _⟩ := h
    have g := deductPays_ghost _ hp
    exact ⟨hs.of_same g, by rw [← g.2.2.2.2.2.2.2.2.2.2.2.2] at hb; exact hb⟩
  case withdraw =>
    simp only [withdraw, Option.bind_eq_bind, Option.bind_eq_some_iff, req_eq_some,
      Option.pure_def, Option.some.injEq, Prod.mk.injEq] at h
    obtain ⟨_, _, x, _, _, _, ⟨s1, e⟩, hp, _, _, rfl, _⟩ := h
    have g := addPays_ghost _ hp
    exact ⟨hs.of_same g, by rw [← g.2.2.2.2.2.2.2.2.2.2.2.2] at hb; exact hb⟩
  case cancelTransfer =>
    simp only [cancelTransfer, Option.bind_eq_bind, Option.bind_eq_some_iff, req_eq_some,
      Option.pure_def, Option.some.injEq, Prod.mk.injEq] at h
    obtain ⟨x, _, ⟨s1, e⟩, hp, _, _, rfl, _⟩ := h
    have g := addPays_ghost _ hp
    exact ⟨hs.of_same g, by rw [← g.2.2.2.2.2.2.2.2.2.2.2.2] at hb; exact hb⟩
  case wrap c n amt =>
    simp only [wrap, Option.bind_eq_bind, Option.bind_eq_some_iff, req_eq_some,
      Option.pure_def, Option.some.injEq, Prod.mk.injEq] at h
    obtain ⟨⟨s1, e⟩, hp, _, _, rfl, _⟩ := h
    have g := (deductPays_ghost _ hp).trans (ensureWNonce_ghost s1 n)
    exact ⟨hs.of_same g, by rw [← g.2.2.2.2.2.2.2.2.2.2.2.2] at hb; exact hb⟩
  case unwrap =>
    simp only [unwrap, Option.bind_eq_bind, Option.bind_eq_some_iff, req_eq_some, sub?_eq_some,
      Option.pure_def, Option.some.injEq, Prod.mk.injEq] at h
    obtain ⟨n, _, wb, _, ⟨s1, e⟩, hp, _, _, rfl, _⟩ := h
    have g := addPays_ghost _ hp
    exact ⟨hs.of_same g, by rw [← g.2.2.2.2.2.2.2.2.2.2.2.2] at hb; exact hb⟩
  case xferWrapped =>
    simp only [xferWrapped, Option.bind_eq_bind, Option.bind_eq_some_iff, req_eq_some, sub?_eq_some,
      Option.pure_def, Option.some.injEq, Prod.mk.injEq] at h
    obtain ⟨_, _, _, _, wb, _, rfl, _⟩ := h
    exact ⟨hs.of_same (SameGhost.refl _), hb⟩
  case cfg op =>
    simp only [Option.map_eq_some_iff, Prod.mk.injEq] at h
    obtain ⟨s1, h1, rfl, _⟩ := h
    obtain ⟨g, hp⟩ := cfg_ghost h1
    obtain ⟨g1, g2, g3, g4, g5, g6, g7, g8, g9, g10, g11, _, _⟩ := g
    simp only [] at g1 g2 g3 g4 g5 g6 g7 g8 g9 g10 g11
    obtain ⟨l, cv⟩ := hs
    refine ⟨?_, ?_⟩
    · constructor <;> simp only [g1, g2, g3, g4, g5, g6, g7, g8, g9, g10, g11] <;> omega
    · rcases hp with hp | hp
      · rw [hp]; exact hb
      · exact hp
  case advance e =>
    split at h
    · simp only [Option.some.injEq, Prod.mk.injEq] at h
      obtain ⟨rfl, _⟩ := h
      exact ⟨hs.of_same (SameGhost.refl _), hb⟩
    · simp at h

theorem init_sinv (c : Cfg) (hb : c.burnPct ≤ MAXPCT) : SInv (init c) :=
  ⟨⟨rfl, rfl⟩, hb⟩

theorem run_sinv (ops : List Op) {s : St} (hi : SInv s) : SInv (run s ops) := by
  induction ops generalizing s with
  | nil => simpa [run] using hi
  | cons op ops ih =>
    simp only [run, List.foldl_cons]
    cases hst : step s op with
    | none => exact ih hi
    | some r =>
      obtain ⟨s1, o⟩ := r
      exact ih (step_sinv hi hst)

end Mx.Energy
