/-
  Boosted-pool conservation of the farm-staking model (boosted part of C05 `reserve_covers`):
  in every reachable state, for EVERY finite set of weeks `0 … N−1`,

      Σ_{w<N} (accumulatedRewardsForWeek w + remainingBoostedRewardsToDistribute w)
        + undistributedBoostedRewards + paidBoosted  ≤  boostedBudget

  (`boostedBudget` = Σ of the boosted cuts of all settlements, `paidBoosted` = Σ boosted rewards
  paid).  Life cycle of a cut: accumulated for the week it was generated in → frozen into
  `remaining` by the first eligible claim of that week (what `remaining` held before is
  overwritten) → paid out of `remaining`, or moved to `undistributed` by the admin collection.
  Every move keeps or lowers the left-hand side.

  Technique: the five cells form the view `bv s`; `BLe v v'` says that for all large enough `N`
  the left-hand side `phi N` grows at most by what the budget grows; every endpoint is a
  composition of `BLe.gen` (settlement) and `BLe.claim` (`claim_multi` with the boosted hook).
-/
import MxModel.Lemmas.StakingPot

namespace Mx.Staking

open Mx.Weekly

/-! ### sums -/

/-- total of a reward list -/
def rsum (r : List (Tok × Nat)) : Nat := (r.map (·.2)).sum

theorem rsum_nil : rsum [] = 0 := rfl

theorem rsum_append (a b : List (Tok × Nat)) : rsum (a ++ b) = rsum a + rsum b := by
  simp [rsum, List.map_append, List.sum_append]

/-- `Σ_{w<N} (acc w + rem w)` -/
def psum (N : Nat) (acc rem : Nat → Nat) : Nat := usum (List.range N) (fun w => acc w + rem w)

theorem psum_succ (N : Nat) (acc rem : Nat → Nat) :
    psum (N + 1) acc rem = psum N acc rem + (acc N + rem N) := by
  simp only [psum, List.range_succ, usum_append, usum_cons, usum_nil, Nat.add_zero]

theorem psum_mono {N N' : Nat} (acc rem : Nat → Nat) (h : N ≤ N') : psum N acc rem ≤ psum N' acc rem := by
  induction N' with
  | zero => rw [Nat.le_zero.mp h]
  | succ k ih =>
    by_cases hk : N = k + 1
    · rw [hk]
    · have := ih (by omega)
      rw [psum_succ]; omega

theorem usum_indicator (N w x : Nat) :
    usum (List.range N) (fun k => if w = k then x else 0) = if w < N then x else 0 := by
  by_cases hw : w < N
  · have := usum_single N w x (fun _ => 1) hw
    simp only [Nat.one_mul] at this
    rw [this, if_pos hw]
  · rw [if_neg hw]
    apply usum_zero
    intro k hk
    have := List.mem_range.mp hk
    rw [if_neg (by omega)]

/-- pointwise: the pools shrink, and the pool of week `w` by at least `x` -/
theorem psum_point {acc rem acc' rem' : Nat → Nat} {w x N : Nat}
    (h : ∀ k, acc' k + rem' k + (if w = k then x else 0) ≤ acc k + rem k) (hw : w < N) :
    psum N acc' rem' + x ≤ psum N acc rem := by
  have h1 := usum_le (l := List.range N) (f := fun k => acc' k + rem' k + (if w = k then x else 0))
    (g := fun k => acc k + rem k) (fun k _ => h k)
  rw [usum_add (List.range N) (fun k => acc' k + rem' k), usum_indicator, if_pos hw] at h1
  exact h1

theorem psum_le {acc rem acc' rem' : Nat → Nat} (N : Nat)
    (h : ∀ k, acc' k + rem' k ≤ acc k + rem k) : psum N acc' rem' ≤ psum N acc rem :=
  usum_le (fun k _ => h k)

/-- adding `x` to one week's accumulated rewards raises the pools by at most `x` -/
theorem psum_upd_le (acc rem : Nat → Nat) (W x N : Nat) :
    psum N (upd acc W (acc W + x)) rem ≤ psum N acc rem + x := by
  have h1 := usum_le (l := List.range N) (f := fun k => upd acc W (acc W + x) k + rem k)
    (g := fun k => acc k + rem k + (if W = k then x else 0)) (fun k _ => by
      by_cases hk : k = W
      · subst hk; simp only [upd_same, if_true]; omega
      · rw [upd_other _ _ hk, if_neg (fun e => hk e.symm)]; omega)
  have e : usum (List.range N) (fun k => acc k + rem k + (if W = k then x else 0))
      = psum N acc rem + (if W < N then x else 0) := by
    rw [usum_add (List.range N) (fun k => acc k + rem k), usum_indicator]; rfl
  rw [e] at h1
  have h2 : psum N (upd acc W (acc W + x)) rem
      = usum (List.range N) (fun k => upd acc W (acc W + x) k + rem k) := rfl
  split at h1 <;> omega

/-! ### the boosted reward hook -/

theorem collectAndGet_pool_le (c' : BCfg) (g : Weekly.St) (b : B) (week k : Nat) :
    (collectAndGet (collectBoosted c') g b week).2.1.accumulated k +
      (collectAndGet (collectBoosted c') g b week).2.1.remaining k ≤ b.accumulated k + b.remaining k := by
  unfold collectAndGet
  split
  · simp only [collectBoosted]
    by_cases hk : k = week
    · subst hk; simp only [upd_same]; omega
    · simp only [upd_other _ _ hk]; omega
  · exact Nat.le_refl _

/-- what the reward hook pays for week `week` comes out of that week's pool; no pool grows -/
theorem boostedRewards_pool_le {c' : BCfg} {userFarm : Nat} {g g' : Weekly.St} {b b' : B}
    {week e E : Nat} {r : List (Tok × Nat)}
    (h : boostedRewards c' userFarm g b week e E = some (g', b', r)) (k : Nat) :
    b'.accumulated k + b'.remaining k + (if week = k then rsum r else 0)
      ≤ b.accumulated k + b.remaining k := by
  unfold boostedRewards at h
  simp only at h
  split at h
  · simp only [Option.some.injEq, Prod.mk.injEq] at h
    obtain ⟨_, rfl, rfl⟩ := h
    simp [rsum]
  · simp only [Option.bind_eq_bind, Option.bind_eq_some_iff] at h
    obtain ⟨fac, hfac, h⟩ := h
    split at h
    · simp only [Option.pure_def, Option.some.injEq, Prod.mk.injEq] at h
      obtain ⟨_, rfl, rfl⟩ := h
      simp [rsum]
    · have hcoll := collectAndGet_pool_le c' g b week k
      generalize hcg : collectAndGet (collectBoosted c') g b week = cg at h hcoll
      obtain ⟨g1, b1, lst⟩ := cg
      simp only at h hcoll
      match lst, h with
      | [], h =>
        simp only [Option.pure_def, Option.some.injEq, Prod.mk.injEq] at h
        obtain ⟨_, rfl, rfl⟩ := h
        simp only [rsum_nil, ite_self, Nat.add_zero]
        exact hcoll
      | [p], h =>
        simp only at h
        split at h
        · simp only [Option.pure_def, Option.some.injEq, Prod.mk.injEq] at h
          obtain ⟨_, rfl, rfl⟩ := h
          simp only [rsum_nil, ite_self, Nat.add_zero]
          exact hcoll
        · simp only [Option.bind_eq_some_iff, req_eq_some] at h
          obtain ⟨_, _, h⟩ := h
          split at h
          · simp only [Option.pure_def, Option.some.injEq, Prod.mk.injEq] at h
            obtain ⟨_, rfl, rfl⟩ := h
            simp only [rsum_nil, ite_self, Nat.add_zero]
            exact hcoll
          · simp only [Option.bind_eq_some_iff, sub?_eq_some, Option.pure_def,
              Option.some.injEq, Prod.mk.injEq] at h
            obtain ⟨rem, ⟨hle, rfl⟩, _, rfl, rfl⟩ := h
            by_cases hk : week = k
            · subst hk
              simp only [upd_same, if_true, rsum, List.map_cons, List.map_nil, List.sum_cons,
                List.sum_nil, Nat.add_zero]
              omega
            · simp only [upd_other _ _ (fun e : k = week => hk e.symm), if_neg hk, Nat.add_zero]
              exact hcoll
      | _ :: _ :: _, h => simp at h

/-- the claim loop over the weeks `a.p.week, …, a.p.week + n − 1`: what it pays comes out of the
    pools of those weeks -/
theorem claimLoop_pool_le {c' : BCfg} {uf : Nat} :
    ∀ (n : Nat) {a a' : ClaimAcc B}, claimLoop (boostedRewards c' uf) n a = some a' →
      ∀ N, a.p.week + n ≤ N →
        psum N a'.c.accumulated a'.c.remaining + rsum a'.rewards
          ≤ psum N a.c.accumulated a.c.remaining + rsum a.rewards := by
  intro n
  induction n with
  | zero =>
    intro a a' h N _
    simp only [claimLoop, Option.some.injEq] at h
    subst h; exact Nat.le_refl _
  | succ n ih =>
    intro a a' h N hN
    simp only [claimLoop, Option.bind_eq_some_iff] at h
    obtain ⟨a1, h1, h2⟩ := h
    obtain ⟨r, hr, hp, hrw⟩ := claimSingle_spec h1
    have hw : a1.p.week = a.p.week + 1 := by rw [hp]; rfl
    have i1 := ih h2 N (by omega)
    have i2 := psum_point (fun k => boostedRewards_pool_le hr k) (show a.p.week < N by omega)
    rw [hrw, rsum_append] at i1
    omega

theorem claimLoop_pool_ex {c' : BCfg} {uf n : Nat} {a a' : ClaimAcc B}
    (h : claimLoop (boostedRewards c' uf) n a = some a') :
    ∃ M, ∀ N, M ≤ N →
      psum N a'.c.accumulated a'.c.remaining + rsum a'.rewards
        ≤ psum N a.c.accumulated a.c.remaining + rsum a.rewards :=
  ⟨a.p.week + n, claimLoop_pool_le n h⟩

/-- the boosted claim of a user: for all large enough `N` the pools `Σ_{w<N}` lose at least what
    is paid -/
theorem claimBoostedYields_pool_le {s : St} {user farmAmt : Nat} {r : Weekly.St × B × Nat}
    (h : claimBoostedYields s user farmAmt = some r) :
    ∃ M, ∀ N, M ≤ N →
      psum N r.2.1.accumulated r.2.1.remaining + r.2.2 ≤ psum N s.b.accumulated s.b.remaining := by
  have h0 := h
  unfold claimBoostedYields at h
  split at h
  · rename_i hc
    obtain ⟨e1, e2, _⟩ := claimBoostedYields_none_spec hc h0
    rw [e1, e2]
    exact ⟨0, fun N _ => Nat.le_refl _⟩
  · simp only [Option.bind_eq_bind, Option.bind_eq_some_iff, Option.pure_def, Option.some.injEq] at h
    obtain ⟨c', _, r', hr, rfl⟩ := h
    obtain ⟨g1, a, _, _, ha, _, hc, hrw⟩ := claimMulti_spec hr
    obtain ⟨M, hM⟩ := claimLoop_pool_ex ha
    refine ⟨M, fun N hN => ?_⟩
    have := hM N hN
    simp only [rsum_nil, Nat.add_zero] at this
    show psum N r'.2.1.accumulated r'.2.1.remaining + rsum r'.2.2 ≤ _
    rw [hc, hrw]
    exact this

/-! ### the boosted view -/

/-- the cells the boosted-pool conservation talks about -/
structure BV where
  acc : Nat → Nat
  rem : Nat → Nat
  und : Nat
  paid : Nat
  budget : Nat

def bv (s : St) : BV := ⟨s.b.accumulated, s.b.remaining, s.undistributed, s.paidBoosted, s.boostedBudget⟩

/-- pools of the weeks `< N` + undistributed + paid -/
def BV.phi (v : BV) (N : Nat) : Nat := psum N v.acc v.rem + v.und + v.paid

theorem BV.phi_mono (v : BV) {N N' : Nat} (h : N ≤ N') : v.phi N ≤ v.phi N' := by
  have := psum_mono v.acc v.rem h
  unfold BV.phi; omega

/-- for all large enough `N`, `phi N` grows at most by what the budget grows -/
def BLe (v v' : BV) : Prop := ∃ M, ∀ N, M ≤ N → v'.phi N + v.budget ≤ v.phi N + v'.budget

theorem BLe.refl (v : BV) : BLe v v := ⟨0, fun _ _ => Nat.le_refl _⟩

theorem BLe.trans {a b c : BV} (h1 : BLe a b) (h2 : BLe b c) : BLe a c := by
  obtain ⟨M1, k1⟩ := h1
  obtain ⟨M2, k2⟩ := h2
  refine ⟨max M1 M2, fun N hN => ?_⟩
  have := k1 N (by omega)
  have := k2 N (by omega)
  omega

/-- the conservation bound -/
def BoostOK (v : BV) : Prop := ∀ N, v.phi N ≤ v.budget

theorem BoostOK.of_ble {v v' : BV} (h : BoostOK v) (hle : BLe v v') : BoostOK v' := by
  intro N
  obtain ⟨M, hM⟩ := hle
  have h1 := hM (max N M) (by omega)
  have h2 := v'.phi_mono (show N ≤ max N M by omega)
  have h3 := h (max N M)
  omega

/-- a settlement adds the boosted cut to the current week's accumulated rewards and to the budget -/
theorem BLe.gen (v : BV) (W cut : Nat) :
    BLe v ⟨upd v.acc W (v.acc W + cut), v.rem, v.und, v.paid, v.budget + cut⟩ := by
  refine ⟨0, fun N _ => ?_⟩
  have := psum_upd_le v.acc v.rem W cut N
  simp only [BV.phi]
  omega

/-- a boosted claim moves what it pays from the pools to `paid` -/
theorem BLe.claim {t : St} {user farmAmt : Nat} {r : Weekly.St × B × Nat}
    (h : claimBoostedYields t user farmAmt = some r) (und paid budget : Nat) :
    BLe ⟨t.b.accumulated, t.b.remaining, und, paid, budget⟩
      ⟨r.2.1.accumulated, r.2.1.remaining, und, paid + r.2.2, budget⟩ := by
  obtain ⟨M, hM⟩ := claimBoostedYields_pool_le h
  refine ⟨M, fun N hN => ?_⟩
  have := hM N hN
  simp only [BV.phi]
  omega

theorem bv_genSt (s : St) :
    bv (genSt s) = ⟨upd (bv s).acc s.week ((bv s).acc s.week + genCut s (genTot s)), (bv s).rem,
      (bv s).und, (bv s).paid, (bv s).budget + genCut s (genTot s)⟩ := rfl

theorem BLe.genSt (s : St) : BLe (bv s) (bv (genSt s)) := by
  rw [bv_genSt]; exact BLe.gen _ _ _

/-! ### endpoints -/

theorem stakeCore_ble {s s' : St} {c orig amount : Nat} {v : Bool} {adds : List Pay} {o : Out}
    (h : stakeCore s c orig amount v adds = some (s', o)) : BLe (bv s) (bv s') := by
  cases v <;>
  · simp only [stakeCore, Option.bind_eq_bind, Option.bind_eq_some_iff, req_eq_some,
      sub?_eq_some, Option.pure_def, Option.some.injEq, Prod.mk.injEq] at h
    obtain ⟨_, _, hold0, _, r, hr, res1, _, _, _, ut1, _, ⟨s3, c3⟩, hg, merged, _, w2, _,
      bal1, _, rfl, _⟩ := h
    obtain ⟨_, _, rfl, rfl⟩ := generate_spec hg
    exact (BLe.claim hr s.undistributed s.paidBoosted s.boostedBudget).trans
      (BLe.gen _ s.week (genCut s (genTot s)))

theorem claimCore_ble {s s' : St} {c orig : Nat} {pays : List Pay} {nv : Option Nat} {o : Out}
    (h : claimCore s c orig pays nv = some (s', o)) : BLe (bv s) (bv s') := by
  simp only [claimCore, Option.bind_eq_bind, Option.bind_eq_some_iff] at h
  obtain ⟨m, hm, h⟩ := h
  obtain ⟨_, _, _, r, _, _, _, hr, hbo, _, hb1, _, _, hs1, _⟩ := claimBase_reward hm
  simp only [claimFinish, Option.bind_eq_bind, Option.bind_eq_some_iff, req_eq_some,
    sub?_eq_some, Option.pure_def, Option.some.injEq, Prod.mk.injEq] at h
  obtain ⟨res1, _, sup1, _, ut2, _, _, _, w2, _, bal1, _, rfl, _⟩ := h
  refine (BLe.genSt s).trans ?_
  have := BLe.claim hr (genSt s).undistributed (genSt s).paidBoosted (genSt s).boostedBudget
  rw [← hb1, ← hbo] at this
  show BLe _ ⟨m.b1.accumulated, m.b1.remaining, m.s1.undistributed, m.s1.paidBoosted + m.boosted,
    m.s1.boostedBudget⟩
  rw [hs1]
  exact this

theorem compound_ble {s s' : St} {c : Nat} {pays : List Pay} {o : Out}
    (h : compound s c pays = some (s', o)) : BLe (bv s) (bv s') := by
  simp only [compound, Option.bind_eq_bind, Option.bind_eq_some_iff, req_eq_some,
    sub?_eq_some, Option.pure_def, Option.some.injEq, Prod.mk.injEq] at h
  obtain ⟨hold0, _, _, _, p, _, first, _, ⟨s1, c1⟩, hg, tok, _, r, hr, res1, _, ut1, _,
    merged, _, rfl, _⟩ := h
  obtain ⟨_, _, rfl, rfl⟩ := generate_spec hg
  exact (BLe.genSt s).trans
    (BLe.claim hr (genSt s).undistributed (genSt s).paidBoosted (genSt s).boostedBudget)

theorem unstakeCore_ble {s s' : St} {c orig : Nat} {pay : Pay} {x : Option Nat} {o : Out}
    (h : unstakeCore s c orig pay x = some (s', o)) : BLe (bv s) (bv s') := by
  cases x <;>
  · simp only [unstakeCore, Option.bind_eq_bind, Option.bind_eq_some_iff, req_eq_some,
      sub?_eq_some, Option.pure_def, Option.some.injEq, Prod.mk.injEq] at h
    obtain ⟨_, _, hold0, _, _, _, attrs, _, ⟨s1, c1⟩, hg, tok, _, r, hr, res1, _,
      sup1, _, w2, _, bal1, _, rfl, _⟩ := h
    obtain ⟨_, _, rfl, rfl⟩ := generate_spec hg
    exact (BLe.genSt s).trans
      (BLe.claim hr (genSt s).undistributed (genSt s).paidBoosted (genSt s).boostedBudget)

theorem mergeTokens_ble {s s' : St} {c : Nat} {pays : List Pay} {o : Out}
    (h : mergeTokens s c pays = some (s', o)) : BLe (bv s) (bv s') := by
  simp only [mergeTokens, Option.bind_eq_bind, Option.bind_eq_some_iff, req_eq_some,
    sub?_eq_some, Option.pure_def, Option.some.injEq, Prod.mk.injEq] at h
  obtain ⟨hold0, _, _, _, r, hr, res1, _, p, _, ut1, _, first, _, part, _, merged, _,
    bal1, _, rfl, _⟩ := h
  exact BLe.claim hr s.undistributed s.paidBoosted s.boostedBudget

theorem claimBoostedRewards_ble {s s' : St} {c : Nat} {u : Option Nat} {o : Out}
    (h : claimBoostedRewards s c u = some (s', o)) : BLe (bv s) (bv s') := by
  simp only [claimBoostedRewards, Option.bind_eq_bind, Option.bind_eq_some_iff, req_eq_some,
    sub?_eq_some, Option.pure_def, Option.some.injEq, Prod.mk.injEq] at h
  obtain ⟨_, _, _, _, _, _, ⟨s1, c1⟩, hg, r, hr, res1, _, bal1, _, rfl, _⟩ := h
  obtain ⟨_, _, rfl, rfl⟩ := generate_spec hg
  exact (BLe.genSt s).trans
    (BLe.claim hr (genSt s).undistributed (genSt s).paidBoosted (genSt s).boostedBudget)

/-- the collection loop moves `remaining` of the weeks `week … week+n−1` to the undistributed
    total: for `N` beyond them the sum is unchanged -/
theorem collectWeeks_sum : ∀ (n week : Nat) (rem : Nat → Nat) (und N : Nat), week + n ≤ N →
    usum (List.range N) (collectWeeks n week rem und).1 + (collectWeeks n week rem und).2
      = usum (List.range N) rem + und
  | 0, _, _, _, _, _ => rfl
  | n + 1, week, rem, und, N, h => by
      simp only [collectWeeks]
      rw [collectWeeks_sum n (week + 1) (upd rem week 0) (und + rem week) N (by omega)]
      have := usum_update (l := List.range N) List.nodup_range (u0 := week)
        (List.mem_range.mpr (by omega)) (f := rem) (g := upd rem week 0)
        (fun u _ hu => upd_other _ _ hu)
      rw [upd_same] at this
      omega

theorem collectUndistributed_ble {s s' : St} {o : Out} (h : collectUndistributed s = some (s', o)) :
    BLe (bv s) (bv s') := by
  simp only [collectUndistributed, Option.bind_eq_bind, Option.bind_eq_some_iff, req_eq_some] at h
  obtain ⟨_, _, h⟩ := h
  split at h
  · simp only [Option.pure_def, Option.some.injEq, Prod.mk.injEq] at h
    obtain ⟨rfl, _⟩ := h
    exact BLe.refl _
  · simp only [Option.pure_def, Option.some.injEq, Prod.mk.injEq] at h
    obtain ⟨rfl, _⟩ := h
    refine ⟨s.lastCollectWeek + 1 + (s.week - (USER_MAX_CLAIM_WEEKS + 1) + 1 - (s.lastCollectWeek + 1)),
      fun N hN => ?_⟩
    have := collectWeeks_sum (s.week - (USER_MAX_CLAIM_WEEKS + 1) + 1 - (s.lastCollectWeek + 1))
      (s.lastCollectWeek + 1) s.b.remaining s.undistributed N hN
    simp only [BV.phi, bv, psum, usum_add] at this ⊢
    omega

theorem settleThen_ble {s s' : St} {f : St → St} {o : Out} (hf : ∀ t, bv (f t) = bv t)
    (h : settleThen s f = some (s', o)) : BLe (bv s) (bv s') := by
  obtain ⟨_, rfl⟩ := settleThen_eq h
  rw [hf]
  exact BLe.genSt s

/-- every transaction keeps or lowers the pools against the budget -/
theorem stepCore_ble {s s' : St} {op : Op} {o : Out} (h : stepCore s op = some (s', o)) :
    BLe (bv s) (bv s') := by
  cases op <;> simp only [stepCore] at h
  case stake c orig a adds =>
    cases orig <;> simp only [stakeFarm, Option.bind_eq_bind, Option.bind_eq_some_iff] at h
    · exact stakeCore_ble h
    · obtain ⟨_, _, h⟩ := h; exact stakeCore_ble h
  case stakeProxy c orig a adds =>
    simp only [stakeProxy, Option.bind_eq_bind, Option.bind_eq_some_iff] at h
    obtain ⟨_, _, h⟩ := h; exact stakeCore_ble h
  case stakeBehalf c u a adds =>
    simp only [stakeOnBehalf, Option.bind_eq_bind, Option.bind_eq_some_iff] at h
    obtain ⟨_, _, _, _, h⟩ := h; exact stakeCore_ble h
  case claim c orig p =>
    cases orig <;> simp only [claimRewards, Option.bind_eq_bind, Option.bind_eq_some_iff] at h
    · exact claimCore_ble h
    · obtain ⟨_, _, h⟩ := h; exact claimCore_ble h
  case claimNew c orig nv p =>
    simp only [claimNewValue, Option.bind_eq_bind, Option.bind_eq_some_iff] at h
    obtain ⟨_, _, h⟩ := h; exact claimCore_ble h
  case claimBehalf c ps =>
    simp only [claimOnBehalf, Option.bind_eq_bind, Option.bind_eq_some_iff] at h
    obtain ⟨_, _, _, _, h⟩ := h; exact claimCore_ble h
  case compound c ps => exact compound_ble h
  case unstake c orig p =>
    cases orig <;> simp only [unstakeFarm, Option.bind_eq_bind, Option.bind_eq_some_iff] at h
    · exact unstakeCore_ble h
    · obtain ⟨_, _, h⟩ := h; exact unstakeCore_ble h
  case unstakeProxy c orig x p =>
    simp only [unstakeProxy, Option.bind_eq_bind, Option.bind_eq_some_iff] at h
    obtain ⟨_, _, h⟩ := h; exact unstakeCore_ble h
  case unbond c p =>
    obtain ⟨_, _, _, _, _, _, rfl⟩ := unbondFarm_iff.1 h
    exact BLe.refl _
  case merge c ps => exact mergeTokens_ble h
  case claimBoosted c u => exact claimBoostedRewards_ble h
  case «calc» q a t =>
    simp only [Option.map_eq_some_iff, Prod.mk.injEq] at h
    obtain ⟨_, _, rfl, _⟩ := h
    exact BLe.refl _
  case transfer a b p =>
    simp only [transfer, Option.bind_eq_bind, Option.bind_eq_some_iff, req_eq_some,
      Option.pure_def, Option.some.injEq, Prod.mk.injEq] at h
    obtain ⟨_, _, hold0, _, rfl, _⟩ := h
    exact BLe.refl _
  case setEnergy u a l =>
    simp only [Option.some.injEq, Prod.mk.injEq] at h
    obtain ⟨rfl, _⟩ := h
    exact BLe.refl _
  case updateEnergy u =>
    simp only [updateEnergy, Option.bind_eq_bind, Option.bind_eq_some_iff,
      Option.pure_def, Option.some.injEq, Prod.mk.injEq] at h
    obtain ⟨g, _, rfl, _⟩ := h
    exact BLe.refl _
  case topUp x =>
    simp only [topUp, Option.bind_eq_bind, Option.bind_eq_some_iff, req_eq_some,
      Option.pure_def, Option.some.injEq, Prod.mk.injEq] at h
    obtain ⟨_, _, rfl, _⟩ := h
    exact BLe.refl _
  case withdraw x =>
    simp only [withdraw, Option.bind_eq_bind, Option.bind_eq_some_iff, req_eq_some,
      sub?_eq_some, Option.pure_def, Option.some.injEq, Prod.mk.injEq] at h
    obtain ⟨⟨s1, c1⟩, hg, rem, _, _, _, cap, _, bal1, _, rfl, _⟩ := h
    obtain ⟨_, _, rfl, rfl⟩ := generate_spec hg
    exact BLe.genSt s
  case setMaxApr x =>
    simp only [setMaxApr, Option.bind_eq_bind, Option.bind_eq_some_iff] at h
    obtain ⟨_, _, h⟩ := h
    exact settleThen_ble (f := fun t => { t with maxApr := x }) (fun _ => rfl) h
  case setPerBlock x =>
    simp only [setPerBlock, Option.bind_eq_bind, Option.bind_eq_some_iff] at h
    obtain ⟨_, _, h⟩ := h
    exact settleThen_ble (f := fun t => { t with perBlock := x }) (fun _ => rfl) h
  case startProduce =>
    simp only [startProduce, Option.bind_eq_bind, Option.bind_eq_some_iff, req_eq_some,
      Option.pure_def, Option.some.injEq, Prod.mk.injEq] at h
    obtain ⟨_, _, _, _, rfl, _⟩ := h
    exact BLe.refl _
  case endProduce =>
    exact settleThen_ble (f := fun t => { t with produce := false }) (fun _ => rfl) h
  case setMinUnbond e =>
    simp only [setMinUnbond, Option.bind_eq_bind, Option.bind_eq_some_iff, req_eq_some,
      Option.pure_def, Option.some.injEq, Prod.mk.injEq] at h
    obtain ⟨_, _, rfl, _⟩ := h
    exact BLe.refl _
  case setBoostedPct p =>
    simp only [setBoostedPct, Option.bind_eq_bind, Option.bind_eq_some_iff, req_eq_some] at h
    obtain ⟨_, _, h⟩ := h
    exact settleThen_ble (f := fun t => { t with boostedPct := p }) (fun _ => rfl) h
  case setFactors x =>
    simp only [setFactors, Option.bind_eq_bind, Option.bind_eq_some_iff, req_eq_some,
      Option.pure_def, Option.some.injEq, Prod.mk.injEq] at h
    obtain ⟨_, _, _, _, c, _, rfl, _⟩ := h
    exact BLe.refl _
  case collectUndistributed => exact collectUndistributed_ble h
  case pause =>
    simp only [Option.some.injEq, Prod.mk.injEq] at h
    obtain ⟨rfl, _⟩ := h
    exact BLe.refl _
  case resume =>
    simp only [Option.some.injEq, Prod.mk.injEq] at h
    obtain ⟨rfl, _⟩ := h
    exact BLe.refl _
  case hubWhitelist u a =>
    simp only [Option.bind_eq_bind, Option.bind_eq_some_iff, req_eq_some,
      Option.pure_def, Option.some.injEq, Prod.mk.injEq] at h
    obtain ⟨_, _, rfl, _⟩ := h
    exact BLe.refl _
  case hubRemove u a =>
    simp only [Option.bind_eq_bind, Option.bind_eq_some_iff, req_eq_some,
      Option.pure_def, Option.some.injEq, Prod.mk.injEq] at h
    obtain ⟨_, _, rfl, _⟩ := h
    exact BLe.refl _
  case advance b e =>
    simp only [Option.some.injEq, Prod.mk.injEq] at h
    obtain ⟨rfl, _⟩ := h
    exact BLe.refl _

theorem step_ble {s s' : St} {op : Op} {o : Out} (h : step s op = some (s', o)) :
    BLe (bv s) (bv s') := by
  simp only [step, Option.bind_eq_bind, Option.bind_eq_some_iff] at h
  obtain ⟨_, _, h⟩ := h
  exact stepCore_ble h

/-! ### the invariant of a state -/

/-- **boosted-pool conservation**: for every `N`,
    `Σ_{w<N}(accumulated w + remaining w) + undistributed + paidBoosted ≤ boostedBudget` -/
def BoostInv (s : St) : Prop := BoostOK (bv s)

theorem boostInv_init (epoch block dsc maxApr minUnbond perBlock : Nat) (accts wl : List Nat) :
    BoostInv (init epoch block dsc maxApr minUnbond perBlock accts wl) := by
  intro N
  show psum N (fun _ => 0) (fun _ => 0) + 0 + 0 ≤ 0
  have : psum N (fun _ => 0) (fun _ => 0) = 0 := usum_zero (fun _ _ => rfl)
  rw [this]

theorem step_boostInv {s s' : St} {op : Op} {o : Out} (hI : BoostInv s) (h : step s op = some (s', o)) :
    BoostInv s' :=
  BoostOK.of_ble hI (step_ble h)

theorem run_boostInv (ops : List Op) {s : St} (hI : BoostInv s) : BoostInv (run s ops) := by
  induction ops generalizing s with
  | nil => simpa [run] using hI
  | cons op ops ih =>
    simp only [run, List.foldl_cons]
    cases hst : step s op with
    | none => exact ih hI
    | some r =>
      obtain ⟨s1, o⟩ := r
      exact ih (step_boostInv hI hst)

theorem BoostInv.explicit {s : St} (h : BoostInv s) (N : Nat) :
    ((List.range N).map fun w => s.b.accumulated w + s.b.remaining w).sum
      + s.undistributed + s.paidBoosted ≤ s.boostedBudget := h N

/-! ### coverage -/

/-- reserve = unspent base budget + unspent boosted budget, both subtractions exact -/
theorem reserve_split {s : St} (hI : Inv s) (hP : PotInv s) (hB : BoostInv s) (hd : 0 < s.dsc) :
    s.paidBase ≤ s.baseBudget ∧ s.paidBoosted ≤ s.boostedBudget ∧
    s.reserve = (s.baseBudget - s.paidBase) + (s.boostedBudget - s.paidBoosted) := by
  have h1 := hP.paid_le hd
  have h2 : psum 0 s.b.accumulated s.b.remaining + s.undistributed + s.paidBoosted ≤ s.boostedBudget :=
    hB 0
  have h3 := hI.res_eq
  have h4 := hI.budget
  refine ⟨h1, by omega, by omega⟩

theorem reserve_full {s : St} (hI : Inv s) (hP : PotInv s) (hB : BoostInv s) (hd : 0 < s.dsc) :
    s.boostedBudget - s.paidBoosted + (s.baseBudget - s.paidBase) ≤ s.reserve ∧
    s.paidBase ≤ s.baseBudget := by
  obtain ⟨h1, h2, h3⟩ := reserve_split hI hP hB hd
  exact ⟨by omega, h1⟩

/-- **the reserve covers** everything claimable: base rewards of all outstanding positions (one
    floor per nonce), the boosted pools of the weeks `< N` (accumulated and frozen), and the
    undistributed boosted rewards -/
theorem cover_explicit {s : St} (hI : Inv s) (hP : PotInv s) (hB : BoostInv s) (hd : 0 < s.dsc) (N : Nat) :
    ((List.range (s.nonce + 1)).map fun n =>
        match s.md n with
        | some (.pos a) => (s.accts.dedup.map fun u => s.hold u n).sum * (s.rps - a.rps) / s.dsc
        | _ => 0).sum
      + ((List.range N).map fun w => s.b.accumulated w + s.b.remaining w).sum
      + s.undistributed ≤ s.reserve := by
  have h1 : claimableBase s + s.paidBase ≤ s.baseBudget := hP.claimable_le hd
  have h2 := hB.explicit N
  have h3 := hI.res_eq
  have h4 := hI.budget
  show claimableBase s + _ + _ ≤ _
  omega

/-- the same with one floor per (account, nonce) holding -/
theorem cover_holdings_explicit {s : St} (hI : Inv s) (hP : PotInv s) (hB : BoostInv s) (hd : 0 < s.dsc)
    (N : Nat) :
    ((List.range (s.nonce + 1)).map fun n =>
        match s.md n with
        | some (.pos a) => (s.accts.dedup.map fun u => s.hold u n * (s.rps - a.rps) / s.dsc).sum
        | _ => 0).sum
      + ((List.range N).map fun w => s.b.accumulated w + s.b.remaining w).sum
      + s.undistributed ≤ s.reserve := by
  have h1 : claimableHoldings s ≤ s.baseBudget - s.paidBase := hP.holdings_explicit hd
  have h0 := hP.paid_le hd
  have h2 := hB.explicit N
  have h3 := hI.res_eq
  have h4 := hI.budget
  show claimableHoldings s + _ + _ ≤ _
  omega

/-- principal backing in terms of what is outstanding: the contract's staking-token balance beyond
    the capacity not yet accrued and the reserve = directly staked principal (supply − virtual
    stake) + the outstanding unbond-token units -/
theorem principal_explicit {s : St} (hI : Inv s) (hU : UnbInv s) :
    (s.bal : Int) - ((s.capacity - s.accumulated : Nat) : Int) - s.reserve
      = ((s.supply : Int) - s.virt) +
        (((List.range (s.nonce + 1)).map fun n =>
          match s.md n with
          | some (.unbond _) => (s.accts.dedup.map fun a => s.hold a n).sum
          | _ => 0).sum : Nat) := by
  show _ = ((s.supply : Int) - s.virt) + ((unbondUnits s : Nat) : Int)
  rw [← hU.explicit]
  have h1 := hI.bal_eq
  have h2 := hI.acc_le
  omega

end Mx.Staking
