/-
  The base-reward budget of the farm model as a FUNCTION OF THE HISTORY (C06, audit gap 14).

  `St.baseBudget` is a ghost counter that `generate` increases.  Here it is recomputed from the
  history alone, without looking at the counter:

  * `Cfg` = the five fields that decide an emission (`perBlock produce pct lastBlock block`),
    `Cfg.next c op` = what a SUCCESSFUL operation `op` does to them (a pure function of `c` and `op`);
  * `settles op` = the operation calls `generate` (enter / claim / compound / exit / claimBoosted and the
    three rate-changing admin endpoints); a settlement in configuration `c` adds exactly
    `c.base = m − ⌊m·pct/10000⌋`, `m = perBlock·(block − lastBlock)` while producing, else `0`;
  * `step_budget`: every successful `step` moves `cfgOf` by `Cfg.next` and `baseBudget` by
    `c.base` (settling operations) or `0` (all others);
  * `run_budget`: `(run s ops).baseBudget = s.baseBudget + (cfgOf s).budget (succOps s ops)`.

  Closed form (pure, on `Cfg` and the list of successful operations):

  * `Cfg.emit` = Σ over the `advance`s of `rate in force × blocks elapsed`; `Cfg.mintSum` = Σ over the
    settlements of the settled emission; `mint_telescope`: `mintSum + pending = pending₀ + emit`;
  * `Cfg.intervals` = the intervals between consecutive configuration changes with their rate,
    production flag, percentage and number of elapsed blocks; `intervals_emission`: Σ over the
    intervals of `perBlock_i·blocks_i` (producing intervals only) `= emit`; the same with the base
    weight `10000 − pct_i` (`intervals_emissionS`);
  * the per-settlement floor: `m·(10000 − pct) ≤ 10000·base ≤ m·(10000 − pct) + 9999`, summed:
    `Cfg.budget_scaled`;
  * the one-shot interval formula `Σ_i (M_i − ⌊M_i·pct_i/10000⌋)` against the per-settlement floors,
    two-sided: `Cfg.intervals_oneShot`;
  * the ghost emission counter `generated` is the settled emission of the trace:
    `step_generated`, `run_generated`.
-/
import MxModel.Lemmas.FarmPot
import MxModel.Lemmas.FarmAcct

namespace Mx.Farm

open Mx.Weekly (upd)

/-! ## the emission configuration and one settlement -/

/-- the fields that decide what a settlement emits -/
structure Cfg where
  perBlock : Nat
  produce : Bool
  pct : Nat
  lastBlock : Nat
  block : Nat
  deriving DecidableEq, Repr

def RV.cfg (v : RV) : Cfg := ⟨v.perBlock, v.produce, v.pct, v.lastBlock, v.block⟩
def cfgOf (s : St) : Cfg := ⟨s.perBlock, s.produce, s.pct, s.lastBlock, s.block⟩

theorem cfgOf_rv (s : St) : cfgOf s = (rv s).cfg := rfl

/-- emission of `d` blocks at rate `pb`: nothing while production is off -/
def sliceMint (pb : Nat) (pr : Bool) (d : Nat) : Nat := if pr then pb * d else 0

/-- base share of that emission: the boosted cut `⌊m·pct/10000⌋` is taken off -/
def sliceBase (pb : Nat) (pr : Bool) (pct d : Nat) : Nat :=
  sliceMint pb pr d - sliceMint pb pr d * pct / 10000

/-- the emission a settlement at the current block would produce (the PENDING emission) -/
def Cfg.mint (c : Cfg) : Nat := sliceMint c.perBlock c.produce (c.block - c.lastBlock)
/-- its base share -/
def Cfg.base (c : Cfg) : Nat := sliceBase c.perBlock c.produce c.pct (c.block - c.lastBlock)

theorem sliceBase_le (pb : Nat) (pr : Bool) (pct d : Nat) : sliceBase pb pr pct d ≤ sliceMint pb pr d :=
  Nat.sub_le _ _

theorem Cfg.base_le_mint (c : Cfg) : c.base ≤ c.mint := Nat.sub_le _ _

theorem minted_cfg (s : St) : minted s = (cfgOf s).mint := by
  unfold minted Cfg.mint sliceMint cfgOf
  by_cases h : s.lastBlock < s.block
  · simp only [h, if_true]
  · have h0 : s.block - s.lastBlock = 0 := by omega
    simp only [h, h0, Nat.mul_zero, ite_self]

theorem baseShare_cfg (s : St) : baseShare s = (cfgOf s).base := by
  unfold baseShare cutOf
  rw [minted_cfg]
  unfold Cfg.base sliceBase Cfg.mint
  by_cases hp : s.pct = 0
  · have : (cfgOf s).pct = 0 := hp
    simp only [hp, if_true, this, Nat.mul_zero, Nat.zero_div]
  · simp only [hp, if_false]
    rfl

/-! ## which operations settle, and what a successful operation does to the configuration -/

/-- the operations that call `generate` -/
def settles : Op → Bool
  | .enter .. => true
  | .enterOB .. => true
  | .claim .. => true
  | .claimOB .. => true
  | .compound .. => true
  | .exit .. => true
  | .claimBoosted .. => true
  | .setPerBlock .. => true
  | .endProduce .. => true
  | .setPct .. => true
  | _ => false

/-- a settlement moves the last reward block to the current block -/
def Cfg.settled (c : Cfg) : Cfg :=
  { c with lastBlock := if c.lastBlock < c.block then c.block else c.lastBlock }

/-- the configuration after a SUCCESSFUL operation: settle first (if the operation settles), then
    apply the operation's own change -/
def Cfg.next (c : Cfg) (op : Op) : Cfg :=
  let c1 := if settles op then c.settled else c
  match op with
  | .setPerBlock _ x => { c1 with perBlock := x }
  | .endProduce _ => { c1 with produce := false }
  | .setPct _ p => { c1 with pct := p }
  | .startProduce _ => { c1 with produce := true, lastBlock := c1.block }
  | .advance b _ => { c1 with block := b }
  | _ => c1

/-- side conditions a successful operation is known to satisfy (what the closed form needs) -/
def Cfg.okOp (c : Cfg) : Op → Prop
  | .advance b _ => c.block ≤ b
  | .startProduce _ => c.produce = false
  | .setPct _ p => p ≤ 10000
  | _ => True

/-! ## the budget through the endpoints -/

theorem generate_bb {s s' : St} {c c' : Cache} (h : generate s c = some (s', c')) :
    s'.baseBudget = s.baseBudget + baseShare s := by
  obtain ⟨_, rfl, _⟩ := generate_spec h
  rfl

theorem baseShare_congr {s t : St} (h : rv s = rv t) : baseShare s = baseShare t := by
  unfold baseShare; rw [minted_congr h, cutOf_congr h]

theorem enterCore_bb {s s' : St} {caller orig tokenTo amt : Nat} {extra : List (Nat × Nat)} {o : Out}
    (h : enterCore s caller orig tokenTo amt extra = some (s', o)) :
    s'.baseBudget = s.baseBudget + baseShare s := by
  simp only [enterCore, Option.bind_eq_bind, Option.bind_eq_some_iff, req_eq_some, Option.pure_def,
    Option.some.injEq, Prod.mk.injEq] at h
  obtain ⟨_, _, s0, h0, ⟨s1, boosted⟩, h1, s1', h1', _, hact, s2, h2, ⟨s4, c1⟩, h4, merged, hm,
    ⟨s5, n⟩, h5, s6, h6, s8, h8, s9, h9, rfl, rfl⟩ := h
  have k0 := congrArg CV.baseBudget (takePayments_cv h0)
  have k1 : s1.baseBudget = s0.baseBudget :=
    congrArg CV.baseBudget (claimOnlyBoostedPayment_cv (s := addFarming s0 amt) h1)
  have k1' := congrArg CV.baseBudget (payRewardIf_cv h1')
  have k2 := congrArg CV.baseBudget (checkAndUpdate_cv h2)
  have k4 : s4.baseBudget = (increaseUser s2 orig amt).baseBudget + baseShare (increaseUser s2 orig amt) :=
    generate_bb h4
  have k4' : (increaseUser s2 orig amt).baseBudget = s2.baseBudget := rfl
  have k5 := congrArg CV.baseBudget (createToken_cv h5)
  have k6 := congrArg CV.baseBudget (setFarmSupplyWeek_cv h6)
  have k8 : s8.baseBudget = s6.baseBudget := congrArg CV.baseBudget (payRewardIf_cv h8)
  have k9 := congrArg CV.baseBudget (updateEnergyAndProgress_cv h9)
  have e0 := takePayments_rv h0
  have e1 : rv s1 = rv s0 := (claimOnlyBoostedPayment_rv h1).trans rfl
  have e1' := payRewardIf_rv h1'
  have e2 := checkAndUpdate_rv h2
  have q2 : rv (increaseUser s2 orig amt) = rv s := e2.trans (e1'.trans (e1.trans e0))
  rw [baseShare_congr q2] at k4
  simp only [cv] at k0 k1' k2 k5 k6 k9
  omega

theorem claimCore_bb {s s' : St} {caller orig : Nat} {pays : List (Nat × Nat)} {cmp : Bool} {o : Out}
    (h : claimCore s caller orig pays cmp = some (s', o)) :
    s'.baseBudget = s.baseBudget + baseShare s := by
  unfold claimCore at h
  replace h := peel h; obtain ⟨⟨n1, a1⟩, hhead, h⟩ := h
  replace h := peel h; obtain ⟨s0, h0, h⟩ := h
  replace h := peel h; obtain ⟨_, _, h⟩ := h
  replace h := peel h; obtain ⟨_, _, h⟩ := h
  replace h := peel h; obtain ⟨at1, hat, h⟩ := h
  replace h := peel h; obtain ⟨⟨s1, c1⟩, h1, h⟩ := h
  replace h := peel h; obtain ⟨part, hpart, h⟩ := h
  replace h := peel h; obtain ⟨⟨s2, boosted⟩, h2, h⟩ := h
  replace h := peel h; obtain ⟨res, _, h⟩ := h
  replace h := peel h; obtain ⟨s3, h3, h⟩ := h
  replace h := peel h; obtain ⟨merged, hm, h⟩ := h
  replace h := peel h; obtain ⟨⟨s5, n⟩, h5, h⟩ := h
  replace h := peel h; obtain ⟨s6, h6, h⟩ := h
  replace h := peel h; obtain ⟨s8, h8, h⟩ := h
  simp only [Option.pure_def, Option.some.injEq, Prod.mk.injEq] at h
  obtain ⟨rfl, _⟩ := h
  have k0 := congrArg CV.baseBudget (takePayments_cv h0)
  have k1 := generate_bb h1
  have k2 := congrArg CV.baseBudget (claimBoostedYields_cv h2)
  have k3 := congrArg CV.baseBudget (checkAndUpdate_cv h3)
  have k5 : s5.baseBudget = s3.baseBudget := by
    have := congrArg CV.baseBudget (createToken_cv h5)
    cases cmp <;> exact this
  have k6 := congrArg CV.baseBudget (setFarmSupplyWeek_cv h6)
  have k8 : s8.baseBudget = s6.baseBudget := congrArg CV.baseBudget (claimTail_cv h8)
  rw [baseShare_congr (takePayments_rv h0)] at k1
  simp only [cv] at k0 k2 k3 k6
  omega

theorem exitFarm_bb {s s' : St} {caller : Nat} {opt : Option Nat} {n a : Nat} {o : Out}
    (h : exitFarm s caller opt n a = some (s', o)) :
    s'.baseBudget = s.baseBudget + baseShare s := by
  unfold exitFarm at h
  replace h := peel h; obtain ⟨orig, _, h⟩ := h
  replace h := peel h; obtain ⟨s0, h0, h⟩ := h
  replace h := peel h; obtain ⟨_, _, h⟩ := h
  replace h := peel h; obtain ⟨att, hat, h⟩ := h
  replace h := peel h; obtain ⟨⟨s1, c1⟩, h1, h⟩ := h
  replace h := peel h; obtain ⟨part, hpart, h⟩ := h
  replace h := peel h; obtain ⟨⟨s2, boosted⟩, h2, h⟩ := h
  replace h := peel h; obtain ⟨res, _, h⟩ := h
  replace h := peel h; obtain ⟨sup, _, h⟩ := h
  replace h := peel h; obtain ⟨s4, h4, h⟩ := h
  replace h := peel h; obtain ⟨pen, _, h⟩ := h
  replace h := peel h; obtain ⟨out, _, h⟩ := h
  replace h := peel h; obtain ⟨s6, h6, h⟩ := h
  replace h := peel h; obtain ⟨s7, h7, h⟩ := h
  replace h := peel h; obtain ⟨s8, h8, h⟩ := h
  simp only [Option.pure_def, Option.some.injEq, Prod.mk.injEq] at h
  obtain ⟨rfl, _⟩ := h
  have k0 := congrArg CV.baseBudget (takePayments_cv h0)
  have k1 := generate_bb h1
  have k2 := congrArg CV.baseBudget (claimBoostedYields_cv h2)
  have k4 : s4.baseBudget = s2.baseBudget :=
    congrArg CV.baseBudget (setFarmSupplyWeek_cv (s := decreaseOwner s2 att.owner a) h4)
  have k6 : s6.baseBudget = s4.baseBudget := congrArg CV.baseBudget (removeFarming_cv h6)
  have k7 : s7.baseBudget = s6.baseBudget := congrArg CV.baseBudget (payReward_cv h7)
  have k8 := congrArg CV.baseBudget (clearUserEnergyIfNeeded_cv h8)
  rw [baseShare_congr (takePayments_rv h0)] at k1
  simp only [cv] at k0 k2 k8
  omega

theorem mergeFarmTokens_bb {s s' : St} {caller : Nat} {opt : Option Nat} {pays : List (Nat × Nat)} {o : Out}
    (h : mergeFarmTokens s caller opt pays = some (s', o)) : s'.baseBudget = s.baseBudget := by
  simp only [mergeFarmTokens, Option.bind_eq_bind, Option.bind_eq_some_iff, req_eq_some, Option.pure_def,
    Option.some.injEq, Prod.mk.injEq] at h
  obtain ⟨_, hact, orig, _, _, _, s0, h0, ⟨s1, boosted⟩, h1, s2, h2, merged, hm, ⟨s3, n⟩, h3, s4, h4, rfl, rfl⟩ := h
  have k0 := congrArg CV.baseBudget (takePayments_cv h0)
  have k1 := congrArg CV.baseBudget (claimOnlyBoostedPayment_cv h1)
  have k2 := congrArg CV.baseBudget (checkAndUpdate_cv h2)
  have k3 := congrArg CV.baseBudget (createToken_cv h3)
  have k4 : s4.baseBudget = s3.baseBudget := congrArg CV.baseBudget (payReward_cv h4)
  simp only [cv] at k0 k1 k2 k3
  omega

theorem claimBoostedRewards_bb {s s' : St} {caller : Nat} {optUser : Option Nat} {o : Out}
    (h : claimBoostedRewards s caller optUser = some (s', o)) :
    s'.baseBudget = s.baseBudget + baseShare s := by
  simp only [claimBoostedRewards, Option.bind_eq_bind, Option.bind_eq_some_iff, req_eq_some, Option.pure_def,
    Option.some.injEq, Prod.mk.injEq, sub?_eq_some] at h
  obtain ⟨_, _, _, _, _, hact, ⟨s1, c1⟩, h1, ⟨s2, boosted⟩, h2, res, ⟨hle, rfl⟩, s3, h3, s4, h4, rfl, rfl⟩ := h
  have k1 := generate_bb h1
  have k2 := congrArg CV.baseBudget (claimBoostedYields_cv h2)
  have k3 := congrArg CV.baseBudget (setFarmSupplyWeek_cv h3)
  have k4 : s4.baseBudget = s3.baseBudget := congrArg CV.baseBudget (payReward_cv h4)
  simp only [cv] at k2 k3
  show s4.baseBudget = _
  omega

theorem settle_bb {s s' : St} (h : settle s = some s') : s'.baseBudget = s.baseBudget + baseShare s := by
  simp only [settle, Option.bind_eq_bind, Option.bind_eq_some_iff, Option.pure_def, Option.some.injEq] at h
  obtain ⟨⟨s1, c1⟩, h1, rfl⟩ := h
  exact (generate_bb h1 : s1.baseBudget = _)

/-! ## one step -/

/-- every successful operation: the configuration moves by `Cfg.next`, the operation satisfies
    `Cfg.okOp`, and the base budget grows by exactly the base share of the pending emission if the
    operation settles, by nothing otherwise -/
theorem step_budget {s s' : St} {op : Op} {o : Out} (h : step s op = some (s', o)) :
    cfgOf s' = (cfgOf s).next op ∧ (cfgOf s).okOp op ∧
    s'.baseBudget = s.baseBudget + (if settles op then (cfgOf s).base else 0) := by
  rw [← baseShare_cfg]
  cases op <;> simp only [step, known] at h
  case enter c oo a e =>
    split at h <;> [skip; exact absurd h (by simp)]
    simp only [enterFarm, Option.bind_eq_bind, Option.bind_eq_some_iff] at h
    obtain ⟨_, _, h⟩ := h
    exact ⟨congrArg RV.cfg (enterCore_rv h), trivial, enterCore_bb h⟩
  case enterOB c u a e =>
    split at h <;> [skip; exact absurd h (by simp)]
    simp only [enterFarmOnBehalf, Option.bind_eq_bind, Option.bind_eq_some_iff] at h
    obtain ⟨_, _, _, _, h⟩ := h
    exact ⟨congrArg RV.cfg (enterCore_rv h), trivial, enterCore_bb h⟩
  case claim c oo p =>
    split at h <;> [skip; exact absurd h (by simp)]
    simp only [claimRewards, Option.bind_eq_bind, Option.bind_eq_some_iff] at h
    obtain ⟨_, _, h⟩ := h
    obtain ⟨_, _, _, _, _, _, _, e⟩ := claimCore_rv h
    exact ⟨congrArg RV.cfg e, trivial, claimCore_bb h⟩
  case claimOB c p =>
    split at h <;> [skip; exact absurd h (by simp)]
    simp only [claimRewardsOnBehalf, Option.bind_eq_bind, Option.bind_eq_some_iff] at h
    obtain ⟨_, _, _, _, _, _, h⟩ := h
    obtain ⟨_, _, _, _, _, _, _, e⟩ := claimCore_rv h
    exact ⟨congrArg RV.cfg e, trivial, claimCore_bb h⟩
  case compound c oo p =>
    split at h <;> [skip; exact absurd h (by simp)]
    simp only [compoundRewards, Option.bind_eq_bind, Option.bind_eq_some_iff, req_eq_some] at h
    obtain ⟨_, hk, _, _, h⟩ := h
    obtain ⟨_, _, _, _, _, _, _, e⟩ := claimCore_rv h
    exact ⟨congrArg RV.cfg e, trivial, claimCore_bb h⟩
  case exit c oo n a =>
    split at h <;> [skip; exact absurd h (by simp)]
    obtain ⟨_, _, _, _, _, e⟩ := exitFarm_rv h
    exact ⟨congrArg RV.cfg e, trivial, exitFarm_bb h⟩
  case merge c oo p =>
    split at h <;> [skip; exact absurd h (by simp)]
    exact ⟨congrArg RV.cfg (mergeFarmTokens_rv h), trivial, mergeFarmTokens_bb h⟩
  case claimBoosted c u =>
    split at h <;> [skip; exact absurd h (by simp)]
    exact ⟨congrArg RV.cfg (claimBoostedRewards_rv h), trivial, claimBoostedRewards_bb h⟩
  case transfer a b n x =>
    split at h <;> [skip; exact absurd h (by simp)]
    split at h <;> [skip; exact absurd h (by simp)]
    simp only [noOut, Option.map_eq_some_iff, Prod.mk.injEq] at h
    obtain ⟨s1, h1, rfl, _⟩ := h
    simp only [transfer, Option.bind_eq_bind, Option.bind_eq_some_iff, req_eq_some, sub?_eq_some,
      Option.pure_def, Option.some.injEq] at h1
    obtain ⟨_, _, _, _, _, _, _, _, rfl⟩ := h1
    exact ⟨rfl, trivial, rfl⟩
  case setEnergy u a l t =>
    simp only [Option.some.injEq, Prod.mk.injEq] at h
    obtain ⟨rfl, _⟩ := h
    exact ⟨rfl, trivial, rfl⟩
  case updateEnergy u =>
    simp only [noOut, Option.map_eq_some_iff, Prod.mk.injEq] at h
    obtain ⟨s1, h1, rfl, _⟩ := h
    simp only [updateEnergyForUser, Option.bind_eq_bind, Option.bind_eq_some_iff, Option.pure_def,
      Option.some.injEq] at h1
    obtain ⟨_, _, _, _, rfl⟩ := h1
    exact ⟨rfl, trivial, rfl⟩
  case setPerBlock c x =>
    simp only [noOut, Option.map_eq_some_iff, Prod.mk.injEq] at h
    obtain ⟨s1, h1, rfl, _⟩ := h
    obtain ⟨_, e⟩ := setPerBlock_rv h1
    refine ⟨congrArg RV.cfg e, trivial, ?_⟩
    simp only [setPerBlock, Option.bind_eq_bind, Option.bind_eq_some_iff, Option.pure_def,
      Option.some.injEq] at h1
    obtain ⟨_, _, _, _, s2, h2, rfl⟩ := h1
    exact (settle_bb h2 : s2.baseBudget = _)
  case startProduce c =>
    simp only [noOut, Option.map_eq_some_iff, Prod.mk.injEq] at h
    obtain ⟨s1, h1, rfl, _⟩ := h
    obtain ⟨_, hp, e⟩ := startProduce_rv h1
    refine ⟨congrArg RV.cfg e, hp, ?_⟩
    simp only [startProduce, Option.bind_eq_bind, Option.bind_eq_some_iff, Option.pure_def,
      Option.some.injEq] at h1
    obtain ⟨_, _, _, _, _, _, rfl⟩ := h1
    rfl
  case endProduce c =>
    simp only [noOut, Option.map_eq_some_iff, Prod.mk.injEq] at h
    obtain ⟨s1, h1, rfl, _⟩ := h
    have e := endProduce_rv h1
    refine ⟨congrArg RV.cfg e, trivial, ?_⟩
    simp only [endProduce, Option.bind_eq_bind, Option.bind_eq_some_iff, Option.pure_def,
      Option.some.injEq] at h1
    obtain ⟨_, _, s2, h2, rfl⟩ := h1
    exact (settle_bb h2 : s2.baseBudget = _)
  case setPct c p =>
    simp only [noOut, Option.map_eq_some_iff, Prod.mk.injEq] at h
    obtain ⟨s1, h1, rfl, _⟩ := h
    obtain ⟨hp, e⟩ := setPct_rv h1
    refine ⟨congrArg RV.cfg e, hp, ?_⟩
    simp only [setPct, Option.bind_eq_bind, Option.bind_eq_some_iff, Option.pure_def,
      Option.some.injEq] at h1
    obtain ⟨_, _, _, _, s2, h2, rfl⟩ := h1
    exact (settle_bb h2 : s2.baseBudget = _)
  case setFactors c f =>
    simp only [noOut, Option.map_eq_some_iff, Prod.mk.injEq] at h
    obtain ⟨s1, h1, rfl, _⟩ := h
    simp only [setFactors, Option.bind_eq_bind, Option.bind_eq_some_iff, Option.pure_def] at h1
    obtain ⟨_, _, _, _, _, _, W, _, h1⟩ := h1
    split at h1
    · simp only [Option.bind_eq_some_iff, Option.some.injEq] at h1
      obtain ⟨_, _, rfl⟩ := h1
      exact ⟨rfl, trivial, rfl⟩
    · simp only [Option.some.injEq] at h1
      subst h1
      exact ⟨rfl, trivial, rfl⟩
  case collect c =>
    simp only [noOut, Option.map_eq_some_iff, Prod.mk.injEq] at h
    obtain ⟨s1, h1, rfl, _⟩ := h
    simp only [collectUndistributed, Option.bind_eq_bind, Option.bind_eq_some_iff, Option.pure_def,
      req_eq_some] at h1
    obtain ⟨_, _, W, _, _, _, h1⟩ := h1
    split at h1 <;> simp only [Option.some.injEq] at h1 <;> subst h1 <;> exact ⟨rfl, trivial, rfl⟩
  case pause c =>
    simp only [noOut, Option.map_eq_some_iff, Prod.mk.injEq] at h
    obtain ⟨s1, h1, rfl, _⟩ := h
    simp only [setActive, Option.bind_eq_bind, Option.bind_eq_some_iff, Option.pure_def,
      Option.some.injEq] at h1
    obtain ⟨_, _, rfl⟩ := h1
    exact ⟨rfl, trivial, rfl⟩
  case resume c =>
    simp only [noOut, Option.map_eq_some_iff, Prod.mk.injEq] at h
    obtain ⟨s1, h1, rfl, _⟩ := h
    simp only [setActive, Option.bind_eq_bind, Option.bind_eq_some_iff, Option.pure_def,
      Option.some.injEq] at h1
    obtain ⟨_, _, rfl⟩ := h1
    exact ⟨rfl, trivial, rfl⟩
  case setPenalty c p =>
    simp only [noOut, Option.map_eq_some_iff, Prod.mk.injEq] at h
    obtain ⟨s1, h1, rfl, _⟩ := h
    simp only [setPenalty, Option.bind_eq_bind, Option.bind_eq_some_iff, Option.pure_def,
      Option.some.injEq] at h1
    obtain ⟨_, _, _, _, rfl⟩ := h1
    exact ⟨rfl, trivial, rfl⟩
  case setMinEpochs c n =>
    simp only [noOut, Option.map_eq_some_iff, Prod.mk.injEq] at h
    obtain ⟨s1, h1, rfl, _⟩ := h
    simp only [setMinEpochs, Option.bind_eq_bind, Option.bind_eq_some_iff, Option.pure_def,
      Option.some.injEq] at h1
    obtain ⟨_, _, _, _, rfl⟩ := h1
    exact ⟨rfl, trivial, rfl⟩
  case hubWhitelist u a =>
    split at h
    · cases h
    · simp only [Option.some.injEq, Prod.mk.injEq] at h; obtain ⟨rfl, _⟩ := h; exact ⟨rfl, trivial, rfl⟩
  case hubRemove u a =>
    split at h
    · simp only [Option.some.injEq, Prod.mk.injEq] at h; obtain ⟨rfl, _⟩ := h; exact ⟨rfl, trivial, rfl⟩
    · cases h
  case hubBlacklist a =>
    simp only [Option.some.injEq, Prod.mk.injEq] at h; obtain ⟨rfl, _⟩ := h; exact ⟨rfl, trivial, rfl⟩
  case scWhitelist a =>
    split at h
    · cases h
    · simp only [Option.some.injEq, Prod.mk.injEq] at h; obtain ⟨rfl, _⟩ := h; exact ⟨rfl, trivial, rfl⟩
  case scUnwhitelist a =>
    split at h
    · simp only [Option.some.injEq, Prod.mk.injEq] at h; obtain ⟨rfl, _⟩ := h; exact ⟨rfl, trivial, rfl⟩
    · cases h
  case advance b e =>
    split at h
    · rename_i hb
      simp only [Option.some.injEq, Prod.mk.injEq] at h; obtain ⟨rfl, _⟩ := h
      exact ⟨rfl, hb.1, rfl⟩
    · cases h
  case bad => cases h

/-! ## a history -/

/-- the operations of a history that succeeded, in order (failed ones leave the state unchanged) -/
def succOps (s : St) : List Op → List Op
  | [] => []
  | op :: rest =>
    match step s op with
    | some r => op :: succOps r.1 rest
    | none => succOps s rest

/-- the configuration after a list of successful operations -/
def Cfg.run (c : Cfg) : List Op → Cfg
  | [] => c
  | op :: rest => (c.next op).run rest

/-- **the base budget of a history**, from the configuration trace alone: Σ over the settling
    operations of the base share of the emission pending at that moment -/
def Cfg.budget (c : Cfg) : List Op → Nat
  | [] => 0
  | op :: rest => (if settles op then c.base else 0) + (c.next op).budget rest

/-- every listed operation satisfies its side condition in the configuration it meets -/
def Cfg.Ok (c : Cfg) : List Op → Prop
  | [] => True
  | op :: rest => c.okOp op ∧ (c.next op).Ok rest

theorem run_cons_some {s : St} {op : Op} {rest : List Op} {r : St × Out} (h : step s op = some r) :
    run s (op :: rest) = run r.1 rest := by
  simp only [run, List.foldl_cons, h]

theorem run_cons_none {s : St} {op : Op} {rest : List Op} (h : step s op = none) :
    run s (op :: rest) = run s rest := by
  simp only [run, List.foldl_cons, h]

/-- dropping the failed operations does not change the final state -/
theorem run_succOps (ops : List Op) (s : St) : run s (succOps s ops) = run s ops := by
  induction ops generalizing s with
  | nil => rfl
  | cons op rest ih =>
    cases hs : step s op with
    | none =>
      rw [run_cons_none hs]
      simp only [succOps, hs]
      exact ih s
    | some r =>
      rw [run_cons_some hs]
      simp only [succOps, hs]
      rw [run_cons_some hs]
      exact ih r.1

/-- along every history: configuration, side conditions and base budget are those of the trace -/
theorem run_budget (ops : List Op) (s : St) :
    cfgOf (run s ops) = (cfgOf s).run (succOps s ops) ∧ (cfgOf s).Ok (succOps s ops) ∧
    (run s ops).baseBudget = s.baseBudget + (cfgOf s).budget (succOps s ops) := by
  induction ops generalizing s with
  | nil => exact ⟨rfl, trivial, rfl⟩
  | cons op rest ih =>
    cases hs : step s op with
    | none =>
      rw [run_cons_none hs]
      simp only [succOps, hs]
      exact ih s
    | some r =>
      rw [run_cons_some hs]
      simp only [succOps, hs]
      obtain ⟨a1, a2, a3⟩ := step_budget (show step s op = some (r.1, r.2) from hs)
      obtain ⟨b1, b2, b3⟩ := ih r.1
      rw [a1] at b1 b2 b3
      refine ⟨b1, ⟨a2, b2⟩, ?_⟩
      rw [b3, a3]
      simp only [Cfg.budget]
      omega

/-- the base budget of a history as a function of the start state and the operations (it reads
    `step` only to decide which operations succeeded, never the counter `baseBudget`) -/
def budgetOf (s : St) (ops : List Op) : Nat := (cfgOf s).budget (succOps s ops)

/-! ## closed form: emission per elapsed block, telescoped over the settlements -/

/-- the last reward block is not in the future; the boosted percentage is at most 100 % -/
def Cfg.WF (c : Cfg) : Prop := c.lastBlock ≤ c.block ∧ c.pct ≤ 10000

theorem sliceMint_zero (pb : Nat) (pr : Bool) : sliceMint pb pr 0 = 0 := by
  unfold sliceMint; split <;> simp

theorem sliceMint_add (pb : Nat) (pr : Bool) (d1 d2 : Nat) :
    sliceMint pb pr (d1 + d2) = sliceMint pb pr d1 + sliceMint pb pr d2 := by
  unfold sliceMint
  split
  · exact Nat.mul_add _ _ _
  · rfl

/-- blocks that elapse through an operation: only `advance` moves the clock -/
def Cfg.elapse (c : Cfg) : Op → Nat
  | .advance b _ => b - c.block
  | _ => 0

/-- Σ over the operations of `rate in force × blocks elapsed` (0 while production is off) -/
def Cfg.emit (c : Cfg) : List Op → Nat
  | [] => 0
  | op :: rest => sliceMint c.perBlock c.produce (c.elapse op) + (c.next op).emit rest

/-- the same, each block weighted with the base weight `10000 − pct` in force -/
def Cfg.emitS (c : Cfg) : List Op → Nat
  | [] => 0
  | op :: rest => sliceMint c.perBlock c.produce (c.elapse op) * (10000 - c.pct) + (c.next op).emitS rest

/-- Σ over the settlements of the emission settled -/
def Cfg.mintSum (c : Cfg) : List Op → Nat
  | [] => 0
  | op :: rest => (if settles op then c.mint else 0) + (c.next op).mintSum rest

/-- Σ over the settlements of `emission × (10000 − pct)` -/
def Cfg.mintSumS (c : Cfg) : List Op → Nat
  | [] => 0
  | op :: rest => (if settles op then c.mint * (10000 - c.pct) else 0) + (c.next op).mintSumS rest

/-- number of settling operations -/
def nSettle : List Op → Nat
  | [] => 0
  | op :: rest => (if settles op then 1 else 0) + nSettle rest

theorem Cfg.settled_eq {c : Cfg} (h : c.lastBlock ≤ c.block) :
    c.settled = { c with lastBlock := c.block } := by
  obtain ⟨pb, pr, p, L, b⟩ := c
  simp only [Cfg.settled]
  split
  · rfl
  · have hL : L = b := by simp only at h; omega
    subst hL; rfl

/-- one successful operation: well-formedness is kept, and
    `settled emission + new pending = old pending + emission of the elapsed blocks` (plain and weighted) -/
theorem Cfg.next_mint {c : Cfg} {op : Op} (hw : c.WF) (ho : c.okOp op) :
    (c.next op).WF ∧
    (if settles op then c.mint else 0) + (c.next op).mint
      = c.mint + sliceMint c.perBlock c.produce (c.elapse op) ∧
    (if settles op then c.mint * (10000 - c.pct) else 0) + (c.next op).mint * (10000 - (c.next op).pct)
      = c.mint * (10000 - c.pct) + sliceMint c.perBlock c.produce (c.elapse op) * (10000 - c.pct) := by
  have hs := Cfg.settled_eq hw.1
  obtain ⟨pb, pr, p, L, b⟩ := c
  obtain ⟨h1, h2⟩ := hw
  simp only at h1 h2 hs
  cases op
  case advance b' e =>
    have hb : b ≤ b' := ho
    have e1 : b' - L = (b - L) + (b' - b) := by omega
    refine ⟨⟨Nat.le_trans h1 hb, h2⟩, ?_, ?_⟩
    · show 0 + sliceMint pb pr (b' - L) = sliceMint pb pr (b - L) + sliceMint pb pr (b' - b)
      rw [e1, sliceMint_add]; omega
    · show 0 + sliceMint pb pr (b' - L) * (10000 - p)
        = sliceMint pb pr (b - L) * (10000 - p) + sliceMint pb pr (b' - b) * (10000 - p)
      rw [e1, sliceMint_add, Nat.add_mul]; omega
  case startProduce cl =>
    have hp : pr = false := ho
    subst hp
    refine ⟨⟨Nat.le_refl _, h2⟩, ?_, ?_⟩
    · show 0 + sliceMint pb true (b - b) = sliceMint pb false (b - L) + sliceMint pb false 0
      rw [Nat.sub_self, sliceMint_zero]; rfl
    · show 0 + sliceMint pb true (b - b) * (10000 - p)
        = sliceMint pb false (b - L) * (10000 - p) + sliceMint pb false 0 * (10000 - p)
      rw [Nat.sub_self, sliceMint_zero]; simp [sliceMint]
  case setPct cl q =>
    have hq : q ≤ 10000 := ho
    simp only [Cfg.next, settles, if_true, hs, Cfg.mint, Cfg.elapse, Cfg.WF, Nat.sub_self, sliceMint_zero,
      Nat.zero_mul, Nat.add_zero, Nat.le_refl, true_and, and_true]
    exact hq
  all_goals
    simp only [Cfg.next, settles, if_true, if_false, hs, Cfg.mint, Cfg.elapse, Cfg.WF, Nat.sub_self,
      sliceMint_zero, Nat.zero_mul, Nat.add_zero, Nat.zero_add, Nat.le_refl, h1, h2,
      Bool.false_eq_true, and_self]

/-- **telescoping.**  Along a list of successful operations:
    `Σ settled emission + pending at the end = pending at the start + Σ rate × elapsed blocks`,
    plain and weighted with `10000 − pct` -/
theorem Cfg.mint_telescope (ops : List Op) (c : Cfg) (hw : c.WF) (ho : c.Ok ops) :
    (c.run ops).WF ∧
    c.mintSum ops + (c.run ops).mint = c.mint + c.emit ops ∧
    c.mintSumS ops + (c.run ops).mint * (10000 - (c.run ops).pct)
      = c.mint * (10000 - c.pct) + c.emitS ops := by
  induction ops generalizing c with
  | nil => exact ⟨hw, by simp [Cfg.mintSum, Cfg.emit, Cfg.run], by simp [Cfg.mintSumS, Cfg.emitS, Cfg.run]⟩
  | cons op rest ih =>
    obtain ⟨a1, a2, a3⟩ := Cfg.next_mint hw ho.1
    obtain ⟨b1, b2, b3⟩ := ih (c.next op) a1 ho.2
    refine ⟨b1, ?_, ?_⟩
    · simp only [Cfg.mintSum, Cfg.emit, Cfg.run]
      omega
    · simp only [Cfg.mintSumS, Cfg.emitS, Cfg.run]
      generalize ((c.next op).run rest).mint * (10000 - ((c.next op).run rest).pct) = X at *
      generalize (c.next op).mint * (10000 - (c.next op).pct) = Y at *
      generalize c.mint * (10000 - c.pct) = Z at *
      omega

/-! ## the floor of one settlement, and the budget against the settled emission -/

/-- one settlement: `m·(10000 − pct) ≤ 10000·base ≤ m·(10000 − pct) + 9999`
    (the lower bound needs `pct ≤ 10000`) -/
theorem sliceBase_scaled (pb : Nat) (pr : Bool) (p d : Nat) :
    10000 * sliceBase pb pr p d ≤ sliceMint pb pr d * (10000 - p) + 9999 ∧
    (p ≤ 10000 → sliceMint pb pr d * (10000 - p) ≤ 10000 * sliceBase pb pr p d) := by
  unfold sliceBase
  generalize sliceMint pb pr d = m
  by_cases hp : p ≤ 10000
  · have e : m * (10000 - p) + m * p = m * 10000 := by
      rw [← Nat.mul_add]; congr 1; omega
    generalize m * (10000 - p) = Y at *
    generalize m * p = X at *
    refine ⟨by omega, fun _ => by omega⟩
  · have e : m * 10000 ≤ m * p := Nat.mul_le_mul_left _ (by omega)
    generalize m * (10000 - p) = Y at *
    generalize m * p = X at *
    refine ⟨by omega, fun h => absurd h hp⟩

theorem Cfg.budget_le_mintSum (ops : List Op) (c : Cfg) : c.budget ops ≤ c.mintSum ops := by
  induction ops generalizing c with
  | nil => exact Nat.le_refl _
  | cons op rest ih =>
    simp only [Cfg.budget, Cfg.mintSum]
    have := ih (c.next op)
    have := c.base_le_mint
    split <;> omega

/-- the budget against the weighted settled emission: off by less than one unit per settlement -/
theorem Cfg.budget_scaled (ops : List Op) (c : Cfg) (hw : c.WF) (ho : c.Ok ops) :
    c.mintSumS ops ≤ 10000 * c.budget ops ∧
    10000 * c.budget ops ≤ c.mintSumS ops + 9999 * nSettle ops := by
  induction ops generalizing c with
  | nil => exact ⟨Nat.le_refl _, Nat.le_refl _⟩
  | cons op rest ih =>
    obtain ⟨a1, _, _⟩ := Cfg.next_mint hw ho.1
    obtain ⟨b1, b2⟩ := ih (c.next op) a1 ho.2
    obtain ⟨c1, c2⟩ := sliceBase_scaled c.perBlock c.produce c.pct (c.block - c.lastBlock)
    have c2' := c2 hw.2
    have c1' : 10000 * c.base ≤ c.mint * (10000 - c.pct) + 9999 := c1
    have c2'' : c.mint * (10000 - c.pct) ≤ 10000 * c.base := c2'
    simp only [Cfg.mintSumS, Cfg.budget, nSettle]
    generalize c.mint * (10000 - c.pct) = Z at *
    split <;> omega

/-! ## the intervals of constant configuration -/

/-- an interval between two configuration changes: rate, production flag, boosted percentage in
    force and the number of blocks that elapsed in it -/
structure Ival where
  perBlock : Nat
  produce : Bool
  pct : Nat
  blocks : Nat
  deriving DecidableEq, Repr

/-- the four admin operations that change rate / production / percentage -/
def changesCfg : Op → Bool
  | .setPerBlock .. => true
  | .setPct .. => true
  | .endProduce .. => true
  | .startProduce .. => true
  | _ => false

def Cfg.ival (c : Cfg) (start : Nat) : Ival := ⟨c.perBlock, c.produce, c.pct, c.block - start⟩

/-- the intervals of a list of successful operations; `start` = block at which the current interval
    began.  A configuration change closes the current interval at the current block; the last
    interval reaches up to the current block (it includes blocks not yet settled). -/
def Cfg.intervals (c : Cfg) (start : Nat) : List Op → List Ival
  | [] => [c.ival start]
  | op :: rest =>
    if changesCfg op then c.ival start :: (c.next op).intervals c.block rest
    else (c.next op).intervals start rest

/-- `perBlock_i · blocks_i` for a producing interval, 0 otherwise -/
def Ival.emission (i : Ival) : Nat := sliceMint i.perBlock i.produce i.blocks
/-- `perBlock_i · blocks_i · (10000 − pct_i)` for a producing interval, 0 otherwise -/
def Ival.emissionS (i : Ival) : Nat := sliceMint i.perBlock i.produce i.blocks * (10000 - i.pct)

def totalEmission (l : List Ival) : Nat := (l.map Ival.emission).sum
def totalEmissionS (l : List Ival) : Nat := (l.map Ival.emissionS).sum

theorem Cfg.next_keep {c : Cfg} {op : Op} (h : changesCfg op = false) (ho : c.okOp op) :
    (c.next op).perBlock = c.perBlock ∧ (c.next op).produce = c.produce ∧ (c.next op).pct = c.pct ∧
    (c.next op).block = c.block + c.elapse op := by
  cases op <;> simp only [changesCfg, Bool.true_eq_false] at h
  case advance b e =>
    have hb : c.block ≤ b := ho
    refine ⟨rfl, rfl, rfl, ?_⟩
    show b = c.block + (b - c.block)
    omega
  all_goals exact ⟨rfl, rfl, rfl, rfl⟩

theorem Cfg.next_change {c : Cfg} {op : Op} (h : changesCfg op = true) :
    (c.next op).block = c.block ∧ c.elapse op = 0 := by
  cases op <;> simp only [changesCfg, Bool.false_eq_true] at h
  all_goals exact ⟨rfl, rfl⟩

/-- **interval form of the emission.**  Σ over the intervals of `perBlock_i·blocks_i` (producing
    intervals) equals the emission of the current interval so far plus Σ `rate × elapsed blocks`
    of the remaining operations; the same with weights -/
theorem Cfg.intervals_emission (ops : List Op) (c : Cfg) (start : Nat) (hs : start ≤ c.block)
    (ho : c.Ok ops) :
    totalEmission (c.intervals start ops)
      = sliceMint c.perBlock c.produce (c.block - start) + c.emit ops ∧
    totalEmissionS (c.intervals start ops)
      = sliceMint c.perBlock c.produce (c.block - start) * (10000 - c.pct) + c.emitS ops := by
  induction ops generalizing c start with
  | nil => exact ⟨by simp [totalEmission, Cfg.intervals, Cfg.ival, Ival.emission, Cfg.emit],
      by simp [totalEmissionS, Cfg.intervals, Cfg.ival, Ival.emissionS, Cfg.emitS]⟩
  | cons op rest ih =>
    cases hc : changesCfg op
    · obtain ⟨k1, k2, k3, k4⟩ := Cfg.next_keep hc ho.1
      obtain ⟨i1, i2⟩ := ih (c.next op) start (by omega) ho.2
      have e1 : (c.next op).block - start = (c.block - start) + c.elapse op := by omega
      simp only [Cfg.intervals, hc, Bool.false_eq_true, if_false, Cfg.emit, Cfg.emitS]
      rw [i1, i2, k1, k2, k3, e1, sliceMint_add, Nat.add_mul]
      exact ⟨by omega, by omega⟩
    · obtain ⟨k1, k2⟩ := Cfg.next_change (c := c) hc
      obtain ⟨i1, i2⟩ := ih (c.next op) c.block (by omega) ho.2
      simp only [Cfg.intervals, hc, if_true, Cfg.emit, Cfg.emitS, totalEmission, totalEmissionS,
        List.map_cons, List.sum_cons] at i1 i2 ⊢
      rw [i1, i2, k1, k2, Nat.sub_self, sliceMint_zero, sliceMint_zero]
      simp only [Cfg.ival, Ival.emission, Ival.emissionS, Nat.zero_mul, Nat.zero_add]
      exact ⟨trivial, trivial⟩

/-! ## the one-shot interval formula `M_i − ⌊M_i·pct_i/10000⌋` against the per-settlement floors -/

/-- base share of an interval if its boosted cut were floored ONCE for the whole interval:
    `perBlock·blocks − ⌊perBlock·blocks·pct/10000⌋` (0 while production is off) -/
def Ival.baseOneShot (i : Ival) : Nat := sliceBase i.perBlock i.produce i.pct i.blocks

def totalBaseOneShot (l : List Ival) : Nat := (l.map Ival.baseOneShot).sum

theorem sliceBase_zero (pb : Nat) (pr : Bool) (p : Nat) : sliceBase pb pr p 0 = 0 := by
  unfold sliceBase; rw [sliceMint_zero]; simp

theorem sliceBase_off (pb p d : Nat) : sliceBase pb false p d = 0 := by
  simp [sliceBase, sliceMint]

/-- splitting a stretch of blocks into two settlements: the base share does not shrink, and grows
    by at most one unit (`⌈a⌉ + ⌈b⌉ ≤ ⌈a + b⌉ + 1`) -/
theorem sliceBase_add (pb : Nat) (pr : Bool) (p d1 d2 : Nat) (hp : p ≤ 10000) :
    sliceBase pb pr p (d1 + d2) ≤ sliceBase pb pr p d1 + sliceBase pb pr p d2 ∧
    sliceBase pb pr p d1 + sliceBase pb pr p d2 ≤ sliceBase pb pr p (d1 + d2) + 1 := by
  unfold sliceBase
  rw [sliceMint_add]
  generalize sliceMint pb pr d1 = m1
  generalize sliceMint pb pr d2 = m2
  rw [Nat.add_mul]
  have e1 : m1 * p ≤ m1 * 10000 := Nat.mul_le_mul_left _ hp
  have e2 : m2 * p ≤ m2 * 10000 := Nat.mul_le_mul_left _ hp
  generalize m1 * p = X1 at *
  generalize m2 * p = X2 at *
  omega

/-- the three kinds of successful operations, as far as intervals and settlements are concerned -/
theorem Cfg.next_class {c : Cfg} {op : Op} (hw : c.WF) (ho : c.okOp op) :
    (changesCfg op = false ∧ settles op = false ∧ (c.next op).perBlock = c.perBlock ∧
      (c.next op).produce = c.produce ∧ (c.next op).pct = c.pct ∧ (c.next op).lastBlock = c.lastBlock) ∨
    (changesCfg op = false ∧ settles op = true ∧ c.next op = { c with lastBlock := c.block }) ∨
    (changesCfg op = true ∧ (c.next op).lastBlock = c.block ∧ (c.next op).block = c.block ∧
      (settles op = true ∨ (settles op = false ∧ c.produce = false))) := by
  have hs := Cfg.settled_eq hw.1
  have hl : c.settled.lastBlock = c.block := by rw [hs]
  cases op
  case startProduce cl => exact Or.inr (Or.inr ⟨rfl, rfl, rfl, Or.inr ⟨rfl, ho⟩⟩)
  case setPerBlock cl x => exact Or.inr (Or.inr ⟨rfl, hl, rfl, Or.inl rfl⟩)
  case setPct cl x => exact Or.inr (Or.inr ⟨rfl, hl, rfl, Or.inl rfl⟩)
  case endProduce cl => exact Or.inr (Or.inr ⟨rfl, hl, rfl, Or.inl rfl⟩)
  all_goals first
    | exact Or.inl ⟨rfl, rfl, rfl, rfl, rfl, rfl⟩
    | exact Or.inr (Or.inl ⟨rfl, rfl, hs⟩)

/-- **one-shot interval formula, two-sided.**  With `A` = what the settlements of the CURRENT interval
    (begun at `start`) have added so far, `K` of them: the one-shot base shares of the intervals are at
    most `A` + the budget of the remaining operations + the base share of what is pending at the end,
    and that exceeds them by at most one unit per settlement (plus one for the pending piece) -/
theorem Cfg.intervals_oneShot (ops : List Op) (c : Cfg) (start A K : Nat) (hw : c.WF) (ho : c.Ok ops)
    (hs : start ≤ c.lastBlock)
    (hA1 : sliceBase c.perBlock c.produce c.pct (c.lastBlock - start) ≤ A)
    (hA2 : A ≤ sliceBase c.perBlock c.produce c.pct (c.lastBlock - start) + K) :
    totalBaseOneShot (c.intervals start ops) ≤ A + c.budget ops + (c.run ops).base ∧
    A + c.budget ops + (c.run ops).base ≤ totalBaseOneShot (c.intervals start ops) + K + nSettle ops + 1 := by
  induction ops generalizing c start A K with
  | nil =>
    have hL := hw.1
    have e : c.block - start = (c.lastBlock - start) + (c.block - c.lastBlock) := by omega
    obtain ⟨s1, s2⟩ := sliceBase_add c.perBlock c.produce c.pct (c.lastBlock - start)
      (c.block - c.lastBlock) hw.2
    simp only [Cfg.intervals, totalBaseOneShot, List.map_cons, List.map_nil, List.sum_cons, List.sum_nil,
      Cfg.budget, Cfg.run, nSettle, Cfg.ival, Ival.baseOneShot, Cfg.base]
    rw [e]
    omega
  | cons op rest ih =>
    have hL := hw.1
    obtain ⟨w1, _, _⟩ := Cfg.next_mint hw ho.1
    have e : c.block - start = (c.lastBlock - start) + (c.block - c.lastBlock) := by omega
    obtain ⟨s1, s2⟩ := sliceBase_add c.perBlock c.produce c.pct (c.lastBlock - start)
      (c.block - c.lastBlock) hw.2
    rw [← e] at s1 s2
    have hb : c.base = sliceBase c.perBlock c.produce c.pct (c.block - c.lastBlock) := rfl
    rcases Cfg.next_class hw ho.1 with ⟨h1, h2, k1, k2, k3, k4⟩ | ⟨h1, h2, k⟩ | ⟨h1, k1, k2, h2⟩
    · have := ih (c.next op) start A K w1 ho.2 (by rw [k4]; exact hs)
        (by rw [k1, k2, k3, k4]; exact hA1) (by rw [k1, k2, k3, k4]; exact hA2)
      simp only [Cfg.intervals, h1, Cfg.budget, h2, nSettle, Cfg.run, Bool.false_eq_true, if_false]
      omega
    · have := ih (c.next op) start (A + c.base) (K + 1) w1 ho.2
        (by rw [k]; exact Nat.le_trans hs hL)
        (by rw [k]; show sliceBase c.perBlock c.produce c.pct (c.block - start) ≤ A + c.base; omega)
        (by rw [k]; show A + c.base ≤ sliceBase c.perBlock c.produce c.pct (c.block - start) + (K + 1); omega)
      simp only [Cfg.intervals, h1, Cfg.budget, h2, nSettle, Cfg.run, Bool.false_eq_true, if_false, if_true]
      omega
    · have := ih (c.next op) c.block 0 0 w1 ho.2 (by rw [k1])
        (by rw [k1, Nat.sub_self, sliceBase_zero])
        (by rw [k1, Nat.sub_self, sliceBase_zero])
      have hi : (c.ival start).baseOneShot = sliceBase c.perBlock c.produce c.pct (c.block - start) := rfl
      simp only [Cfg.intervals, h1, Cfg.budget, nSettle, Cfg.run, if_true, totalBaseOneShot, List.map_cons,
        List.sum_cons, hi] at this ⊢
      rcases h2 with h2 | ⟨h2, hp⟩
      · simp only [h2, if_true]
        omega
      · simp only [h2, Bool.false_eq_true, if_false]
        rw [hp, sliceBase_off] at s1 s2 hA1 hA2 ⊢
        omega

/-! ## the emission counter `generated` is the settled emission of the trace -/

theorem generate_gen {s s' : St} {c c' : Cache} (h : generate s c = some (s', c')) :
    s'.generated = s.generated + minted s := congrArg AV.generated (generate_av h).1

theorem payReward_gen {s s' : St} {u b bo : Nat} (h : payReward s u b bo = some s') :
    s'.generated = s.generated := by
  obtain ⟨_, e, _⟩ := payReward_av h; exact congrArg AV.generated e

theorem payRewardIf_gen {s s' : St} {k : Kind} {u bo : Nat} (h : payRewardIf s k u 0 bo = some s') :
    s'.generated = s.generated := by
  obtain ⟨_, _, _, e, _⟩ := payRewardIf_av h; exact congrArg AV.generated e

theorem claimTail_gen {s s' : St} {c : Bool} {u b bo : Nat} (h : claimTail s c u b bo = some s') :
    s'.generated = s.generated := by
  obtain ⟨_, _, e, _⟩ := claimTail_av h; exact congrArg AV.generated e

theorem enterCore_gen {s s' : St} {caller orig tokenTo amt : Nat} {extra : List (Nat × Nat)} {o : Out}
    (h : enterCore s caller orig tokenTo amt extra = some (s', o)) :
    s'.generated = s.generated + minted s := by
  simp only [enterCore, Option.bind_eq_bind, Option.bind_eq_some_iff, req_eq_some, Option.pure_def,
    Option.some.injEq, Prod.mk.injEq] at h
  obtain ⟨_, _, s0, h0, ⟨s1, boosted⟩, h1, s1', h1', _, hact, s2, h2, ⟨s4, c1⟩, h4, merged, hm,
    ⟨s5, n⟩, h5, s6, h6, s8, h8, s9, h9, rfl, rfl⟩ := h
  have k0 : s0.generated = s.generated := congrArg AV.generated (takePayments_av h0)
  have k1 : s1.generated = s0.generated :=
    congrArg AV.generated (claimOnlyBoostedPayment_av (s := addFarming s0 amt) h1).2
  have k1' : s1'.generated = s1.generated := payRewardIf_gen h1'
  have k2 : s2.generated = s1'.generated := congrArg AV.generated (checkAndUpdate_av h2)
  have k4 : s4.generated = (increaseUser s2 orig amt).generated + minted (increaseUser s2 orig amt) :=
    generate_gen h4
  have k4' : (increaseUser s2 orig amt).generated = s2.generated := rfl
  have k5 : s5.generated = s4.generated := congrArg AV.generated (createToken_av h5)
  have k6 : s6.generated = s5.generated := congrArg AV.generated (setFarmSupplyWeek_av h6)
  have k8 : s8.generated = s6.generated := (payRewardIf_gen h8).trans rfl
  have k9 : s9.generated = s8.generated := congrArg AV.generated (updateEnergyAndProgress_av h9)
  have e1 : rv s1 = rv s0 := (claimOnlyBoostedPayment_rv h1).trans rfl
  have q2 : rv (increaseUser s2 orig amt) = rv s :=
    (checkAndUpdate_rv h2).trans ((payRewardIf_rv h1').trans (e1.trans (takePayments_rv h0)))
  rw [minted_congr q2] at k4
  omega

theorem claimCore_gen {s s' : St} {caller orig : Nat} {pays : List (Nat × Nat)} {cmp : Bool} {o : Out}
    (h : claimCore s caller orig pays cmp = some (s', o)) :
    s'.generated = s.generated + minted s := by
  unfold claimCore at h
  replace h := peel h; obtain ⟨⟨n1, a1⟩, hhead, h⟩ := h
  replace h := peel h; obtain ⟨s0, h0, h⟩ := h
  replace h := peel h; obtain ⟨_, _, h⟩ := h
  replace h := peel h; obtain ⟨_, _, h⟩ := h
  replace h := peel h; obtain ⟨at1, hat, h⟩ := h
  replace h := peel h; obtain ⟨⟨s1, c1⟩, h1, h⟩ := h
  replace h := peel h; obtain ⟨part, hpart, h⟩ := h
  replace h := peel h; obtain ⟨⟨s2, boosted⟩, h2, h⟩ := h
  replace h := peel h; obtain ⟨res, _, h⟩ := h
  replace h := peel h; obtain ⟨s3, h3, h⟩ := h
  replace h := peel h; obtain ⟨merged, hm, h⟩ := h
  replace h := peel h; obtain ⟨⟨s5, n⟩, h5, h⟩ := h
  replace h := peel h; obtain ⟨s6, h6, h⟩ := h
  replace h := peel h; obtain ⟨s8, h8, h⟩ := h
  simp only [Option.pure_def, Option.some.injEq, Prod.mk.injEq] at h
  obtain ⟨rfl, _⟩ := h
  have k0 : s0.generated = s.generated := congrArg AV.generated (takePayments_av h0)
  have k1 : s1.generated = s0.generated + minted s0 := generate_gen h1
  have k2 : s2.generated = s1.generated := congrArg AV.generated (claimBoostedYields_av h2)
  have k3 : s3.generated = s2.generated := congrArg AV.generated (checkAndUpdate_av h3)
  have k5 : s5.generated = s3.generated := by
    have := congrArg AV.generated (createToken_av h5)
    cases cmp <;> exact this
  have k6 : s6.generated = s5.generated := congrArg AV.generated (setFarmSupplyWeek_av h6)
  have k8 : s8.generated = s6.generated := (claimTail_gen h8).trans rfl
  rw [minted_congr (takePayments_rv h0)] at k1
  omega

theorem exitFarm_gen {s s' : St} {caller : Nat} {opt : Option Nat} {n a : Nat} {o : Out}
    (h : exitFarm s caller opt n a = some (s', o)) :
    s'.generated = s.generated + minted s := by
  unfold exitFarm at h
  replace h := peel h; obtain ⟨orig, _, h⟩ := h
  replace h := peel h; obtain ⟨s0, h0, h⟩ := h
  replace h := peel h; obtain ⟨_, _, h⟩ := h
  replace h := peel h; obtain ⟨att, hat, h⟩ := h
  replace h := peel h; obtain ⟨⟨s1, c1⟩, h1, h⟩ := h
  replace h := peel h; obtain ⟨part, hpart, h⟩ := h
  replace h := peel h; obtain ⟨⟨s2, boosted⟩, h2, h⟩ := h
  replace h := peel h; obtain ⟨res, _, h⟩ := h
  replace h := peel h; obtain ⟨sup, _, h⟩ := h
  replace h := peel h; obtain ⟨s4, h4, h⟩ := h
  replace h := peel h; obtain ⟨pen, _, h⟩ := h
  replace h := peel h; obtain ⟨out, _, h⟩ := h
  replace h := peel h; obtain ⟨s6, h6, h⟩ := h
  replace h := peel h; obtain ⟨s7, h7, h⟩ := h
  replace h := peel h; obtain ⟨s8, h8, h⟩ := h
  simp only [Option.pure_def, Option.some.injEq, Prod.mk.injEq] at h
  obtain ⟨rfl, _⟩ := h
  have k0 : s0.generated = s.generated := congrArg AV.generated (takePayments_av h0)
  have k1 : s1.generated = s0.generated + minted s0 := generate_gen h1
  have k2 : s2.generated = s1.generated := congrArg AV.generated (claimBoostedYields_av h2)
  have k4 : s4.generated = s2.generated :=
    congrArg AV.generated (setFarmSupplyWeek_av (s := decreaseOwner s2 att.owner a) h4)
  have k6 : s6.generated = s4.generated := congrArg AV.generated (removeFarming_av h6).2
  have k7 : s7.generated = s6.generated := payReward_gen h7
  have k8 : s8.generated = s7.generated := congrArg AV.generated (clearUserEnergyIfNeeded_av h8)
  rw [minted_congr (takePayments_rv h0)] at k1
  omega

theorem mergeFarmTokens_gen {s s' : St} {caller : Nat} {opt : Option Nat} {pays : List (Nat × Nat)} {o : Out}
    (h : mergeFarmTokens s caller opt pays = some (s', o)) : s'.generated = s.generated := by
  simp only [mergeFarmTokens, Option.bind_eq_bind, Option.bind_eq_some_iff, req_eq_some, Option.pure_def,
    Option.some.injEq, Prod.mk.injEq] at h
  obtain ⟨_, hact, orig, _, _, _, s0, h0, ⟨s1, boosted⟩, h1, s2, h2, merged, hm, ⟨s3, n⟩, h3, s4, h4, rfl, rfl⟩ := h
  have k0 : s0.generated = s.generated := congrArg AV.generated (takePayments_av h0)
  have k1 : s1.generated = s0.generated := congrArg AV.generated (claimOnlyBoostedPayment_av h1).2
  have k2 : s2.generated = s1.generated := congrArg AV.generated (checkAndUpdate_av h2)
  have k3 : s3.generated = s2.generated := congrArg AV.generated (createToken_av h3)
  have k4 : s4.generated = s3.generated := payReward_gen h4
  omega

theorem claimBoostedRewards_gen {s s' : St} {caller : Nat} {optUser : Option Nat} {o : Out}
    (h : claimBoostedRewards s caller optUser = some (s', o)) :
    s'.generated = s.generated + minted s := by
  simp only [claimBoostedRewards, Option.bind_eq_bind, Option.bind_eq_some_iff, req_eq_some, Option.pure_def,
    Option.some.injEq, Prod.mk.injEq, sub?_eq_some] at h
  obtain ⟨_, _, _, _, _, hact, ⟨s1, c1⟩, h1, ⟨s2, boosted⟩, h2, res, ⟨hle, rfl⟩, s3, h3, s4, h4, rfl, rfl⟩ := h
  have k1 : s1.generated = s.generated + minted s := generate_gen h1
  have k2 : s2.generated = s1.generated := congrArg AV.generated (claimBoostedYields_av h2)
  have k3 : s3.generated = s2.generated := congrArg AV.generated (setFarmSupplyWeek_av h3)
  have k4 : s4.generated = s3.generated := payReward_gen h4
  show s4.generated = _
  omega

theorem settle_gen {s s' : St} (h : settle s = some s') : s'.generated = s.generated + minted s := by
  simp only [settle, Option.bind_eq_bind, Option.bind_eq_some_iff, Option.pure_def, Option.some.injEq] at h
  obtain ⟨⟨s1, c1⟩, h1, rfl⟩ := h
  exact (generate_gen h1 : s1.generated = _)

/-- every successful operation adds the pending emission to `generated` if it settles, nothing otherwise -/
theorem step_generated {s s' : St} {op : Op} {o : Out} (h : step s op = some (s', o)) :
    s'.generated = s.generated + (if settles op then (cfgOf s).mint else 0) := by
  rw [← minted_cfg]
  cases op <;> simp only [step, known] at h
  case enter c oo a e =>
    split at h <;> [skip; exact absurd h (by simp)]
    simp only [enterFarm, Option.bind_eq_bind, Option.bind_eq_some_iff] at h
    obtain ⟨_, _, h⟩ := h
    exact enterCore_gen h
  case enterOB c u a e =>
    split at h <;> [skip; exact absurd h (by simp)]
    simp only [enterFarmOnBehalf, Option.bind_eq_bind, Option.bind_eq_some_iff] at h
    obtain ⟨_, _, _, _, h⟩ := h
    exact enterCore_gen h
  case claim c oo p =>
    split at h <;> [skip; exact absurd h (by simp)]
    simp only [claimRewards, Option.bind_eq_bind, Option.bind_eq_some_iff] at h
    obtain ⟨_, _, h⟩ := h
    exact claimCore_gen h
  case claimOB c p =>
    split at h <;> [skip; exact absurd h (by simp)]
    simp only [claimRewardsOnBehalf, Option.bind_eq_bind, Option.bind_eq_some_iff] at h
    obtain ⟨_, _, _, _, _, _, h⟩ := h
    exact claimCore_gen h
  case compound c oo p =>
    split at h <;> [skip; exact absurd h (by simp)]
    simp only [compoundRewards, Option.bind_eq_bind, Option.bind_eq_some_iff, req_eq_some] at h
    obtain ⟨_, hk, _, _, h⟩ := h
    exact claimCore_gen h
  case exit c oo n a =>
    split at h <;> [skip; exact absurd h (by simp)]
    exact exitFarm_gen h
  case merge c oo p =>
    split at h <;> [skip; exact absurd h (by simp)]
    exact mergeFarmTokens_gen h
  case claimBoosted c u =>
    split at h <;> [skip; exact absurd h (by simp)]
    exact claimBoostedRewards_gen h
  case transfer a b n x =>
    split at h <;> [skip; exact absurd h (by simp)]
    split at h <;> [skip; exact absurd h (by simp)]
    simp only [noOut, Option.map_eq_some_iff, Prod.mk.injEq] at h
    obtain ⟨s1, h1, rfl, _⟩ := h
    simp only [transfer, Option.bind_eq_bind, Option.bind_eq_some_iff, req_eq_some, sub?_eq_some,
      Option.pure_def, Option.some.injEq] at h1
    obtain ⟨_, _, _, _, _, _, _, _, rfl⟩ := h1
    rfl
  case setEnergy u a l t =>
    simp only [Option.some.injEq, Prod.mk.injEq] at h
    obtain ⟨rfl, _⟩ := h
    rfl
  case updateEnergy u =>
    simp only [noOut, Option.map_eq_some_iff, Prod.mk.injEq] at h
    obtain ⟨s1, h1, rfl, _⟩ := h
    simp only [updateEnergyForUser, Option.bind_eq_bind, Option.bind_eq_some_iff, Option.pure_def,
      Option.some.injEq] at h1
    obtain ⟨_, _, _, _, rfl⟩ := h1
    rfl
  case setPerBlock c x =>
    simp only [noOut, Option.map_eq_some_iff, Prod.mk.injEq] at h
    obtain ⟨s1, h1, rfl, _⟩ := h
    simp only [setPerBlock, Option.bind_eq_bind, Option.bind_eq_some_iff, Option.pure_def,
      Option.some.injEq] at h1
    obtain ⟨_, _, _, _, s2, h2, rfl⟩ := h1
    exact (settle_gen h2 : s2.generated = _)
  case startProduce c =>
    simp only [noOut, Option.map_eq_some_iff, Prod.mk.injEq] at h
    obtain ⟨s1, h1, rfl, _⟩ := h
    simp only [startProduce, Option.bind_eq_bind, Option.bind_eq_some_iff, Option.pure_def,
      Option.some.injEq] at h1
    obtain ⟨_, _, _, _, _, _, rfl⟩ := h1
    rfl
  case endProduce c =>
    simp only [noOut, Option.map_eq_some_iff, Prod.mk.injEq] at h
    obtain ⟨s1, h1, rfl, _⟩ := h
    simp only [endProduce, Option.bind_eq_bind, Option.bind_eq_some_iff, Option.pure_def,
      Option.some.injEq] at h1
    obtain ⟨_, _, s2, h2, rfl⟩ := h1
    exact (settle_gen h2 : s2.generated = _)
  case setPct c p =>
    simp only [noOut, Option.map_eq_some_iff, Prod.mk.injEq] at h
    obtain ⟨s1, h1, rfl, _⟩ := h
    simp only [setPct, Option.bind_eq_bind, Option.bind_eq_some_iff, Option.pure_def,
      Option.some.injEq] at h1
    obtain ⟨_, _, _, _, s2, h2, rfl⟩ := h1
    exact (settle_gen h2 : s2.generated = _)
  case setFactors c f =>
    simp only [noOut, Option.map_eq_some_iff, Prod.mk.injEq] at h
    obtain ⟨s1, h1, rfl, _⟩ := h
    simp only [setFactors, Option.bind_eq_bind, Option.bind_eq_some_iff, Option.pure_def] at h1
    obtain ⟨_, _, _, _, _, _, W, _, h1⟩ := h1
    split at h1
    · simp only [Option.bind_eq_some_iff, Option.some.injEq] at h1
      obtain ⟨_, _, rfl⟩ := h1
      rfl
    · simp only [Option.some.injEq] at h1
      subst h1
      rfl
  case collect c =>
    simp only [noOut, Option.map_eq_some_iff, Prod.mk.injEq] at h
    obtain ⟨s1, h1, rfl, _⟩ := h
    simp only [collectUndistributed, Option.bind_eq_bind, Option.bind_eq_some_iff, Option.pure_def,
      req_eq_some] at h1
    obtain ⟨_, _, W, _, _, _, h1⟩ := h1
    split at h1 <;> simp only [Option.some.injEq] at h1 <;> subst h1 <;> rfl
  case pause c =>
    simp only [noOut, Option.map_eq_some_iff, Prod.mk.injEq] at h
    obtain ⟨s1, h1, rfl, _⟩ := h
    simp only [setActive, Option.bind_eq_bind, Option.bind_eq_some_iff, Option.pure_def,
      Option.some.injEq] at h1
    obtain ⟨_, _, rfl⟩ := h1
    rfl
  case resume c =>
    simp only [noOut, Option.map_eq_some_iff, Prod.mk.injEq] at h
    obtain ⟨s1, h1, rfl, _⟩ := h
    simp only [setActive, Option.bind_eq_bind, Option.bind_eq_some_iff, Option.pure_def,
      Option.some.injEq] at h1
    obtain ⟨_, _, rfl⟩ := h1
    rfl
  case setPenalty c p =>
    simp only [noOut, Option.map_eq_some_iff, Prod.mk.injEq] at h
    obtain ⟨s1, h1, rfl, _⟩ := h
    simp only [setPenalty, Option.bind_eq_bind, Option.bind_eq_some_iff, Option.pure_def,
      Option.some.injEq] at h1
    obtain ⟨_, _, _, _, rfl⟩ := h1
    rfl
  case setMinEpochs c n =>
    simp only [noOut, Option.map_eq_some_iff, Prod.mk.injEq] at h
    obtain ⟨s1, h1, rfl, _⟩ := h
    simp only [setMinEpochs, Option.bind_eq_bind, Option.bind_eq_some_iff, Option.pure_def,
      Option.some.injEq] at h1
    obtain ⟨_, _, _, _, rfl⟩ := h1
    rfl
  case hubWhitelist u a =>
    split at h
    · cases h
    · simp only [Option.some.injEq, Prod.mk.injEq] at h; obtain ⟨rfl, _⟩ := h; rfl
  case hubRemove u a =>
    split at h
    · simp only [Option.some.injEq, Prod.mk.injEq] at h; obtain ⟨rfl, _⟩ := h; rfl
    · cases h
  case hubBlacklist a =>
    simp only [Option.some.injEq, Prod.mk.injEq] at h; obtain ⟨rfl, _⟩ := h; rfl
  case scWhitelist a =>
    split at h
    · cases h
    · simp only [Option.some.injEq, Prod.mk.injEq] at h; obtain ⟨rfl, _⟩ := h; rfl
  case scUnwhitelist a =>
    split at h
    · simp only [Option.some.injEq, Prod.mk.injEq] at h; obtain ⟨rfl, _⟩ := h; rfl
    · cases h
  case advance b e =>
    split at h
    · simp only [Option.some.injEq, Prod.mk.injEq] at h; obtain ⟨rfl, _⟩ := h; rfl
    · cases h
  case bad => cases h

/-- along every history `generated` grows by the settled emission of the trace -/
theorem run_generated (ops : List Op) (s : St) :
    (run s ops).generated = s.generated + (cfgOf s).mintSum (succOps s ops) := by
  induction ops generalizing s with
  | nil => rfl
  | cons op rest ih =>
    cases hs : step s op with
    | none =>
      rw [run_cons_none hs]
      simp only [succOps, hs]
      exact ih s
    | some r =>
      rw [run_cons_some hs]
      simp only [succOps, hs]
      have a1 := (step_budget (show step s op = some (r.1, r.2) from hs)).1
      have a3 := step_generated (show step s op = some (r.1, r.2) from hs)
      have b3 := ih r.1
      rw [a1] at b3
      rw [b3, a3]
      simp only [Cfg.mintSum]
      omega

end Mx.Farm
