/-
  Farm: the paid log of boosted rewards over whole histories (definitions + `paidLog_once_from`,
  `paidLog_sum_from`).  Per-operation facts come from `step_eff` (Lemmas/FarmLog.lean); no state
  invariant is needed.
-/
import MxModel.Lemmas.FarmLog

namespace Mx.Farm

open Mx.Weekly

/-- the state after `op` (unchanged when the transaction fails) -/
def next (s : St) (op : Op) : St :=
  match step s op with
  | some r => r.1
  | none => s

theorem run_cons (s : St) (op : Op) (ops : List Op) : run s (op :: ops) = run (next s op) ops := rfl

theorem next_of_some {s : St} {op : Op} {r : St × Out} (h : step s op = some r) : next s op = r.1 := by
  unfold next; rw [h]

theorem next_of_none {s : St} {op : Op} (h : step s op = none) : next s op = s := by
  unfold next; rw [h]

/-- the current week as a total function of the state -/
def curWeek (s : St) : Nat := (s.epoch - s.firstWeekStart) / EPOCHS_IN_WEEK + 1

theorem week_curWeek {s : St} {W : Nat} (h : s.week = some W) : W = curWeek s := by
  simp only [St.week, weekOf, Option.bind_eq_bind, Option.bind_eq_some_iff, req_eq_some,
    Option.pure_def, Option.some.injEq] at h
  obtain ⟨_, _, rfl⟩ := h
  rfl

/-- one boosted payment: `user` received `amount` out of the pool of week `week` -/
structure Entry where
  user : Nat
  week : Nat
  amount : Nat
  deriving DecidableEq, Repr

/-- the boosted payments of one successful operation with claim user `u`: for every completed week
    whose paid ghost grew, that growth -/
def entriesOf (u : Nat) (s s' : St) : List Entry :=
  (List.range (curWeek s)).filterMap fun w =>
    if s'.b.paidW w ≠ s.b.paidW w then some ⟨u, w, s'.b.paidW w - s.b.paidW w⟩ else none

def stepLog (s : St) (op : Op) : List Entry :=
  match claimUser s op, step s op with
  | some u, some r => entriesOf u s r.1
  | _, _ => []

/-- **the paid log** (boosted rewards) of a history started in `s` -/
def paidLog (s : St) : List Op → List Entry
  | [] => []
  | op :: ops => stepLog s op ++ paidLog (next s op) ops

theorem mem_entriesOf {u : Nat} {s s' : St} {e : Entry} (h : e ∈ entriesOf u s s') :
    e.user = u ∧ e.week < curWeek s ∧ s'.b.paidW e.week ≠ s.b.paidW e.week ∧
    e.amount = s'.b.paidW e.week - s.b.paidW e.week := by
  simp only [entriesOf, List.mem_filterMap, List.mem_range] at h
  obtain ⟨w, hw, hsome⟩ := h
  split at hsome
  · rename_i hne
    simp only [Option.some.injEq] at hsome
    subst hsome
    exact ⟨rfl, hw, hne, rfl⟩
  · cases hsome

theorem stepLog_cases {s : St} {op : Op} {e : Entry} (h : e ∈ stepLog s op) :
    ∃ u r, claimUser s op = some u ∧ step s op = some r ∧ e ∈ entriesOf u s r.1 := by
  unfold stepLog at h
  split at h
  · rename_i u r hu hs
    exact ⟨u, r, hu, hs, h⟩
  · cases h

theorem stepLog_of_none {s : St} {op : Op} (h : step s op = none) : stepLog s op = [] := by
  unfold stepLog; rw [h]; split <;> first | rfl | (rename_i h1 h2; cases h2)

/-- every entry an operation logs: its user is the operation's claim user, its week `w` satisfies
    `current − 4 ≤ w < current`, the user's stored progress is not after `w` -/
theorem stepLog_window {s : St} {op : Op} {e : Entry} (h : e ∈ stepLog s op) :
    claimUser s op = some e.user ∧ curWeek s ≤ e.week + 4 ∧ e.week < curWeek s ∧
    ∃ p, s.w.progress e.user = some p ∧ p.week ≤ e.week := by
  obtain ⟨u, r, hu, hs, hm⟩ := stepLog_cases h
  obtain ⟨heu, hwk, hne, _⟩ := mem_entriesOf hm
  subst heu
  obtain ⟨_, _, hq | ⟨u', W, hW, eff, hcu⟩⟩ := step_eff (s' := r.1) (o := r.2) (by rw [hs])
  · exact absurd (congrFun hq.1 e.week) hne
  · have := hcu e.week hne
    rw [hu] at this
    simp only [Option.some.injEq] at this
    subst this
    obtain ⟨h1, h2, hp⟩ := eff.paid e.week hne
    rw [← week_curWeek hW]
    exact ⟨hu, h1, h2, hp⟩

/-! ### no key twice -/

def sameKey (e e' : Entry) : Prop := e.user = e'.user ∧ e.week = e'.week

def LogOk (s : St) (l : List Entry) : Prop :=
  ∀ e ∈ l, e.week < curWeek s ∧ ∀ p, s.w.progress e.user = some p → e.week < p.week

theorem stepLog_pairwise (s : St) (op : Op) : (stepLog s op).Pairwise (fun e e' => ¬ sameKey e e') := by
  unfold stepLog
  split
  · rename_i u r _ _
    unfold entriesOf
    rw [List.pairwise_filterMap]
    refine (List.pairwise_lt_range (n := curWeek s)).imp ?_
    intro w1 w2 hlt b hb b' hb' hk
    split at hb
    · split at hb'
      · simp only [Option.some.injEq] at hb hb'
        subst hb; subst hb'
        have := hk.2
        simp only at this
        omega
      · cases hb'
    · cases hb
  · exact List.Pairwise.nil

theorem stepLog_fresh {s : St} {l : List Entry} (hO : LogOk s l) {op : Op} :
    ∀ a ∈ l, ∀ b ∈ stepLog s op, ¬ sameKey a b := by
  intro a ha b hb hk
  obtain ⟨_, _, _, p, hp, hple⟩ := stepLog_window hb
  have := (hO a ha).2 p (by rw [hk.1]; exact hp)
  have := hk.2
  omega

theorem curWeek_mono {s s' : St} (hf : s'.firstWeekStart = s.firstWeekStart) (he : s.epoch ≤ s'.epoch) :
    curWeek s ≤ curWeek s' := by
  unfold curWeek
  rw [hf]
  simp only [EPOCHS_IN_WEEK]
  have : (s.epoch - s.firstWeekStart) / 7 ≤ (s'.epoch - s.firstWeekStart) / 7 :=
    Nat.div_le_div_right (by omega)
  omega

theorem next_LogOk {s : St} {l : List Entry} (hO : LogOk s l) (op : Op) :
    LogOk (next s op) (l ++ stepLog s op) := by
  cases hs : step s op with
  | none => rw [next_of_none hs, stepLog_of_none hs, List.append_nil]; exact hO
  | some r =>
    rw [next_of_some hs]
    obtain ⟨hfw, hep, hq | ⟨u, W, hW, eff, hcu⟩⟩ := step_eff (s' := r.1) (o := r.2) (by rw [hs])
    · -- nothing paid, no progress moved: the operation logs nothing
      have hnil : stepLog s op = [] := by
        cases hl : stepLog s op with
        | nil => rfl
        | cons e es =>
          exfalso
          have he : e ∈ stepLog s op := by rw [hl]; exact List.mem_cons_self
          obtain ⟨u, r', hu, hs', hm⟩ := stepLog_cases he
          rw [hs] at hs'
          simp only [Option.some.injEq] at hs'
          subst hs'
          exact (mem_entriesOf hm).2.2.1 (congrFun hq.1 e.week)
      rw [hnil, List.append_nil]
      have hmono := curWeek_mono hfw hep
      intro e he
      refine ⟨Nat.lt_of_lt_of_le (hO e he).1 hmono, fun p hp => ?_⟩
      rw [hq.2] at hp
      exact (hO e he).2 p hp
    · have hWc := week_curWeek hW
      have hcw : curWeek r.1 = curWeek s := by
        have h3 : r.1.epoch = s.epoch := eff.epoch
        unfold curWeek; rw [hfw, h3]
      obtain ⟨o, ho, hprog⟩ := eff.prog
      have hprog' : r.1.w.progress = upd s.w.progress u o := hprog
      intro e he
      rw [hcw]
      have hwk : e.week < curWeek s := by
        rcases List.mem_append.mp he with he | he
        · exact (hO e he).1
        · exact (stepLog_window he).2.2.1
      refine ⟨hwk, fun p hp => ?_⟩
      rw [hprog'] at hp
      by_cases heu : e.user = u
      · rw [heu, upd_same] at hp
        rw [ho p hp, hWc]; exact hwk
      · rw [upd_other _ _ heu] at hp
        rcases List.mem_append.mp he with he | he
        · exact (hO e he).2 p hp
        · exfalso
          obtain ⟨hcu', _, _, _⟩ := stepLog_window he
          obtain ⟨u', r', hu', hs', hm⟩ := stepLog_cases he
          rw [hs] at hs'
          simp only [Option.some.injEq] at hs'
          subst hs'
          have := hcu e.week (mem_entriesOf hm).2.2.1
          rw [hcu'] at this
          simp only [Option.some.injEq] at this
          exact heu this

/-- **no (user, week) twice**, generalised for the induction -/
theorem paidLog_once_from (ops : List Op) : ∀ {s : St} {pre : List Entry}
    (_ : LogOk s pre) (_ : pre.Pairwise (fun e e' => ¬ sameKey e e')),
    (pre ++ paidLog s ops).Pairwise (fun e e' => ¬ sameKey e e') := by
  induction ops with
  | nil => intro s pre _ hP; simpa [paidLog] using hP
  | cons op ops ih =>
    intro s pre hO hP
    simp only [paidLog]
    rw [← List.append_assoc]
    refine ih (next_LogOk hO op) ?_
    rw [List.pairwise_append]
    exact ⟨hP, stepLog_pairwise s op, stepLog_fresh hO⟩

/-! ### the log is complete -/

/-- Σ of the amounts logged for week `w` -/
def logSum (l : List Entry) (w : Nat) : Nat := (l.map fun e => if e.week = w then e.amount else 0).sum

theorem exists_of_logSum_pos {l : List Entry} {w : Nat} (h : 0 < logSum l w) :
    ∃ e ∈ l, e.week = w ∧ 0 < e.amount := by
  induction l with
  | nil => exact absurd h (by simp [logSum])
  | cons e es ih =>
    unfold logSum at h ih
    simp only [List.map_cons, List.sum_cons] at h
    by_cases hk : e.week = w
    · by_cases hp : 0 < e.amount
      · exact ⟨e, List.mem_cons_self, hk, hp⟩
      · rw [if_pos hk] at h
        obtain ⟨e', he', h'⟩ := ih (by omega)
        exact ⟨e', List.mem_cons_of_mem _ he', h'⟩
    · rw [if_neg hk, Nat.zero_add] at h
      obtain ⟨e', he', h'⟩ := ih h
      exact ⟨e', List.mem_cons_of_mem _ he', h'⟩

/-- a logged amount is positive -/
theorem stepLog_pos {s : St} {op : Op} {e : Entry} (h : e ∈ stepLog s op) : 0 < e.amount := by
  obtain ⟨u, r, hu, hs, hm⟩ := stepLog_cases h
  obtain ⟨_, _, hne, hamt⟩ := mem_entriesOf hm
  obtain ⟨_, _, hq | ⟨u', W, hW, eff, _⟩⟩ := step_eff (s' := r.1) (o := r.2) (by rw [hs])
  · exact absurd (congrFun hq.1 e.week) hne
  · have : s.b.paidW e.week ≤ r.1.b.paidW e.week := eff.mono e.week
    omega

theorem logSum_append (l1 l2 : List Entry) (w : Nat) : logSum (l1 ++ l2) w = logSum l1 w + logSum l2 w := by
  unfold logSum; rw [List.map_append, List.sum_append]

theorem logSum_entriesOf (u : Nat) (s s' : St) (w : Nat) :
    logSum (entriesOf u s s') w =
      if w < curWeek s ∧ s'.b.paidW w ≠ s.b.paidW w then s'.b.paidW w - s.b.paidW w else 0 := by
  unfold entriesOf
  generalize curWeek s = K
  induction K with
  | zero => simp [logSum]
  | succ K ih =>
    rw [List.range_succ, List.filterMap_append, logSum_append, ih]
    by_cases hw : w = K
    · subst hw
      by_cases hne : s'.b.paidW w ≠ s.b.paidW w
      · simp [logSum, hne]
      · simp [logSum, hne]
    · have h1 : (w < K + 1) ↔ (w < K) := by omega
      by_cases hne : s'.b.paidW K ≠ s.b.paidW K
      · simp [logSum, hne, hw, h1, Ne.symm hw]
      · simp [logSum, hne, h1]

theorem stepLog_sum (s : St) (op : Op) (w : Nat) :
    (next s op).b.paidW w = s.b.paidW w + logSum (stepLog s op) w := by
  cases hs : step s op with
  | none => rw [next_of_none hs, stepLog_of_none hs]; rfl
  | some r =>
    rw [next_of_some hs]
    obtain ⟨_, _, hq | ⟨u, W, hW, eff, hcu⟩⟩ := step_eff (s' := r.1) (o := r.2) (by rw [hs])
    · have hz : logSum (stepLog s op) w = 0 := by
        unfold stepLog
        split
        · rename_i u r' _ hs'
          rw [hs] at hs'
          simp only [Option.some.injEq] at hs'
          subst hs'
          rw [logSum_entriesOf]
          simp [congrFun hq.1 w]
        · rfl
      rw [hz, congrFun hq.1 w]; rfl
    · have hmono : s.b.paidW w ≤ r.1.b.paidW w := eff.mono w
      by_cases hne : r.1.b.paidW w = s.b.paidW w
      · have hz : logSum (stepLog s op) w = 0 := by
          unfold stepLog
          split
          · rename_i u r' _ hs'
            rw [hs] at hs'
            simp only [Option.some.injEq] at hs'
            subst hs'
            rw [logSum_entriesOf]
            simp [hne]
          · rfl
        rw [hz, hne]; rfl
      · have hcu' := hcu w hne
        have hlog : stepLog s op = entriesOf u s r.1 := by unfold stepLog; rw [hcu', hs]
        obtain ⟨_, hlt, _⟩ := eff.paid w hne
        have hlt' : w < curWeek s := by rw [← week_curWeek hW]; exact hlt
        rw [hlog, logSum_entriesOf, if_pos ⟨hlt', hne⟩]
        omega

/-- **the log is complete**: `paidW w` grew by exactly the sum of the logged amounts for `w` -/
theorem paidLog_sum_from (ops : List Op) : ∀ (s : St) (w : Nat),
    (run s ops).b.paidW w = s.b.paidW w + logSum (paidLog s ops) w := by
  induction ops with
  | nil => intro s w; simp [run, paidLog, logSum]
  | cons op ops ih =>
    intro s w
    rw [run_cons, ih (next s op) w, stepLog_sum s op w]
    simp only [paidLog, logSum_append]
    omega

end Mx.Farm
