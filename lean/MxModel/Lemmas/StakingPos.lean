/-
  Position-token invariant of the farm-staking model (C07, history-level clauses): in every
  reachable state the reported farm-token supply is the sum of the outstanding POSITION units
  (unbond tokens, which live under the same token identifier, excluded), and
  `userTotalFarmPosition(o)` is the sum of the outstanding positions whose recorded original
  owner is `o`.

  Layout
    A. finite sums: `outst` (units of a nonce held by all accounts), `wsum` (a weighted sum over
       the nonces), how they move under `debit` (payments leave the caller), a mint of the next
       nonce, a credit (plain transfer);
    B. the position view `pv s` (twelve cells) of a state and the invariant `PosOK` on it; the
       generic view operations `gen`, `remint`, `burn`, `setHold`, `redeem`;
    C. `PTrans`: the five shapes a transaction can have on the view, `PosOK.trans`;
    D. the unbond ledger `UnbOK` (`unbondOut` = Σ outstanding unbond-token units), `UnbOK.trans`.
  Every endpoint is characterised on the view in Lemmas/StakingTrans.lean (`…_pv`, `step_ptrans`).
  The view also carries `rps paidBase baseBudget dsc`, which Lemmas/StakingPot.lean needs for the
  potential-function bound (C06 / C05); the endpoint characterisations are shared.

  Accounts: the view's `accts` is `s.accts.dedup` (same members, each once), so that no theorem
  needs the account list of the world to be duplicate-free.

  (Lemmas/StakingSum.lean was an earlier, unfinished start of part A; it is not imported.)
-/
import MxModel.Lemmas.StakingFactors
import Mathlib.Data.List.Dedup

namespace Mx.Staking

open Mx.Weekly

/-! ## A. finite sums -/

theorem upd2_same (f : Nat → Nat → Nat) (a n v : Nat) : upd2 f a n v a n = v := by
  simp [upd2]

theorem upd2_other (f : Nat → Nat → Nat) (a n v : Nat) {a' n' : Nat} (h : a' ≠ a ∨ n' ≠ n) :
    upd2 f a n v a' n' = f a' n' := by
  have : ¬(a' = a ∧ n' = n) := by
    rintro ⟨h1, h2⟩
    rcases h with h | h
    · exact h h1
    · exact h h2
  simp [upd2, this]

/-- outstanding units of nonce `n`: what all accounts of the world hold of it -/
def outst (hold : Nat → Nat → Nat) (accts : List Nat) (n : Nat) : Nat :=
  usum accts (fun a => hold a n)

/-- `Σ_{n < N} w n · outst n` -/
def wsum (hold : Nat → Nat → Nat) (accts : List Nat) (N : Nat) (w : Nat → Nat) : Nat :=
  usum (List.range N) (fun n => w n * outst hold accts n)

/-- what the payments `pays` take of nonce `n` -/
def paidOf : List Pay → Nat → Nat
  | [], _ => 0
  | p :: ps, n => (if p.1 = n then p.2 else 0) + paidOf ps n

/-- `Σ_{p ∈ pays} w p.nonce · p.amount` -/
def payW (w : Nat → Nat) : List Pay → Nat
  | [] => 0
  | p :: ps => w p.1 * p.2 + payW w ps

/-- `Σ_{p ∈ pays} p.amount` -/
def payTot : List Pay → Nat
  | [] => 0
  | p :: ps => p.2 + payTot ps

theorem payTot_eq (pays : List Pay) : payTot pays = (pays.map (·.2)).sum := by
  induction pays with
  | nil => rfl
  | cons p ps ih => simp [payTot, ih]

theorem paidOf_mem {pays : List Pay} {p : Pay} (h : p ∈ pays) : p.2 ≤ paidOf pays p.1 := by
  induction pays with
  | nil => cases h
  | cons q qs ih =>
    simp only [paidOf]
    rcases List.mem_cons.mp h with rfl | h
    · simp
    · have := ih h; omega

theorem debit_spec' (c : Nat) : ∀ (pays : List Pay) (hold h0 : Nat → Nat → Nat),
    debit hold c pays = some h0 →
      (∀ n, paidOf pays n ≤ hold c n ∧ h0 c n = hold c n - paidOf pays n) ∧
      (∀ a n, a ≠ c → h0 a n = hold a n) ∧ (∀ p ∈ pays, 0 < p.2)
  | [], hold, h0, h => by
      simp only [debit, Option.some.injEq] at h
      subst h
      exact ⟨fun n => ⟨Nat.zero_le _, rfl⟩, fun _ _ _ => rfl, fun _ hp => by cases hp⟩
  | p :: ps, hold, h0, h => by
      simp only [debit, Option.bind_eq_bind, Option.bind_eq_some_iff, req_eq_some] at h
      obtain ⟨_, hp0, _, hple, h⟩ := h
      obtain ⟨ih1, ih2, ih3⟩ := debit_spec' c ps _ h0 h
      refine ⟨fun n => ?_, fun a n ha => ?_, ?_⟩
      · obtain ⟨i1, i2⟩ := ih1 n
        simp only [paidOf]
        by_cases hn : p.1 = n
        · subst hn
          rw [upd2_same] at i1 i2
          rw [if_pos rfl]
          omega
        · rw [upd2_other _ _ _ _ (Or.inr (fun e => hn e.symm))] at i1 i2
          rw [if_neg hn]
          omega
      · rw [ih2 a n ha, upd2_other _ _ _ _ (Or.inl ha)]
      · intro q hq
        rcases List.mem_cons.mp hq with rfl | hq
        · exact hp0
        · exact ih3 q hq

/-- the payments only lower holdings -/
theorem debit_le {c : Nat} {pays : List Pay} {hold h0 : Nat → Nat → Nat}
    (h : debit hold c pays = some h0) (a n : Nat) : h0 a n ≤ hold a n := by
  obtain ⟨h1, h2, _⟩ := debit_spec' c pays hold h0 h
  by_cases ha : a = c
  · subst ha; have := (h1 n).2; omega
  · rw [h2 a n ha]

/-- every payment is covered by the caller's holding of that nonce, which is therefore non-zero -/
theorem debit_held {c : Nat} {pays : List Pay} {hold h0 : Nat → Nat → Nat}
    (h : debit hold c pays = some h0) {p : Pay} (hp : p ∈ pays) : hold c p.1 ≠ 0 := by
  obtain ⟨h1, _, h3⟩ := debit_spec' c pays hold h0 h
  have := (h1 p.1).1
  have := paidOf_mem hp
  have := h3 p hp
  omega

/-- burning a caller's payments lowers every per-nonce total by exactly what was paid -/
theorem outst_debit {c : Nat} {pays : List Pay} {hold h0 : Nat → Nat → Nat} {accts : List Nat}
    (h : debit hold c pays = some h0) (hc : c ∈ accts) (hnd : accts.Nodup) (n : Nat) :
    outst h0 accts n + paidOf pays n = outst hold accts n := by
  obtain ⟨h1, h2, _⟩ := debit_spec' c pays hold h0 h
  obtain ⟨i1, i2⟩ := h1 n
  have := usum_update hnd hc (f := fun a => hold a n) (g := fun a => h0 a n)
    (fun a _ ha => h2 a n ha)
  simp only [outst] at this ⊢
  omega

theorem usum_single (N k v : Nat) (w : Nat → Nat) (hk : k < N) :
    usum (List.range N) (fun n => w n * (if k = n then v else 0)) = w k * v := by
  induction N with
  | zero => omega
  | succ N ih =>
    rw [List.range_succ, usum_append]
    simp only [usum_cons, usum_nil, Nat.add_zero]
    by_cases hkN : k = N
    · subst hkN
      have : usum (List.range k) (fun n => w n * (if k = n then v else 0)) = 0 := by
        apply usum_zero
        intro u hu
        have : k ≠ u := by have := List.mem_range.mp hu; omega
        simp [this]
      rw [this]; simp
    · have hk' : k < N := by omega
      rw [ih hk']
      simp [hkN]

/-- the weighted amount of the payments, nonce by nonce -/
theorem usum_paidOf (N : Nat) (w : Nat → Nat) : ∀ (pays : List Pay), (∀ p ∈ pays, p.1 < N) →
    usum (List.range N) (fun n => w n * paidOf pays n) = payW w pays
  | [], _ => by
      simp only [paidOf, Nat.mul_zero, payW]
      exact usum_zero (fun _ _ => rfl)
  | p :: ps, h => by
      have ih := usum_paidOf N w ps (fun q hq => h q (List.mem_cons_of_mem _ hq))
      have hp := h p (List.mem_cons_self)
      simp only [paidOf, Nat.mul_add, payW]
      rw [usum_add, ih, usum_single N p.1 p.2 w hp]

/-- burning payments: the weighted sum drops by the weighted amount of the payments -/
theorem wsum_debit {c : Nat} {pays : List Pay} {hold h0 : Nat → Nat → Nat} {accts : List Nat} {N : Nat}
    (w : Nat → Nat) (h : debit hold c pays = some h0) (hc : c ∈ accts) (hnd : accts.Nodup)
    (hN : ∀ p ∈ pays, p.1 < N) :
    wsum h0 accts N w + payW w pays = wsum hold accts N w := by
  rw [← usum_paidOf N w pays hN]
  simp only [wsum]
  rw [← usum_add]
  apply usum_congr
  intro n _
  have := outst_debit h hc hnd n
  rw [← this, Nat.mul_add]

/-- minting `A` units of a nonce nobody holds yet, to account `c` -/
theorem outst_mint {h0 : Nat → Nat → Nat} {accts : List Nat} {c N A : Nat} (hc : c ∈ accts)
    (hnd : accts.Nodup) (hfresh : ∀ a, h0 a N = 0) (n : Nat) :
    outst (upd2 h0 c N A) accts n = if n = N then A else outst h0 accts n := by
  by_cases hn : n = N
  · subst hn
    rw [if_pos rfl]
    have := usum_update hnd hc (f := fun _ => 0) (g := fun a => upd2 h0 c n A a n)
      (fun a _ ha => by rw [upd2_other _ _ _ _ (Or.inl ha)]; exact hfresh a)
    have hz : usum accts (fun _ => 0) = 0 := usum_zero (fun _ _ => rfl)
    simp only [outst]
    rw [upd2_same] at this
    omega
  · rw [if_neg hn]
    simp only [outst]
    apply usum_congr
    intro a _
    rw [upd2_other _ _ _ _ (Or.inr hn)]

/-- weighted sum after a mint of the fresh nonce `N` (weights may be redefined at `N`) -/
theorem wsum_mint {h0 : Nat → Nat → Nat} {accts : List Nat} {c N A : Nat} (w w' : Nat → Nat)
    (hc : c ∈ accts) (hnd : accts.Nodup) (hfresh : ∀ a, h0 a N = 0) (hw : ∀ n, n < N → w' n = w n) :
    wsum (upd2 h0 c N A) accts (N + 1) w' = wsum h0 accts N w + w' N * A := by
  simp only [wsum]
  rw [List.range_succ, usum_append]
  simp only [usum_cons, usum_nil, Nat.add_zero]
  rw [outst_mint hc hnd hfresh N, if_pos rfl]
  congr 1
  apply usum_congr
  intro n hn
  have hn' := List.mem_range.mp hn
  rw [outst_mint hc hnd hfresh n, if_neg (by omega), hw n hn']

/-- crediting `v` units of nonce `k` to an account leaves every other total unchanged -/
theorem outst_credit {h0 : Nat → Nat → Nat} {accts : List Nat} {dst k v : Nat} (hd : dst ∈ accts)
    (hnd : accts.Nodup) (n : Nat) :
    outst (upd2 h0 dst k (h0 dst k + v)) accts n = outst h0 accts n + (if n = k then v else 0) := by
  have := usum_update hnd hd (f := fun a => h0 a n) (g := fun a => upd2 h0 dst k (h0 dst k + v) a n)
    (fun a _ ha => by rw [upd2_other _ _ _ _ (Or.inl ha)])
  simp only [outst]
  by_cases hn : n = k
  · subst hn
    rw [upd2_same] at this
    rw [if_pos rfl]
    omega
  · rw [upd2_other _ _ _ _ (Or.inr hn)] at this
    rw [if_neg hn]
    omega

theorem wsum_congr {hold hold' : Nat → Nat → Nat} {accts : List Nat} {N : Nat} {w w' : Nat → Nat}
    (ho : ∀ n, n < N → outst hold' accts n = outst hold accts n) (hw : ∀ n, n < N → w' n = w n) :
    wsum hold' accts N w' = wsum hold accts N w := by
  simp only [wsum]
  apply usum_congr
  intro n hn
  have hn' := List.mem_range.mp hn
  rw [ho n hn', hw n hn']

theorem wsum_le {hold : Nat → Nat → Nat} {accts : List Nat} {N : Nat} {w w' : Nat → Nat}
    (hw : ∀ n, n < N → w' n ≤ w n) : wsum hold accts N w' ≤ wsum hold accts N w := by
  simp only [wsum]
  apply usum_le
  intro n hn
  exact Nat.mul_le_mul_right _ (hw n (List.mem_range.mp hn))

theorem wsum_add_mul (hold : Nat → Nat → Nat) (accts : List Nat) (N : Nat) (w1 w2 : Nat → Nat) (k : Nat) :
    wsum hold accts N (fun n => w1 n + k * w2 n) = wsum hold accts N w1 + k * wsum hold accts N w2 := by
  simp only [wsum]
  rw [← usum_mul, ← usum_add]
  apply usum_congr
  intro n _
  rw [Nat.add_mul, Nat.mul_assoc]

/-- one more nonce that nobody holds adds nothing -/
theorem wsum_succ_fresh {hold : Nat → Nat → Nat} {accts : List Nat} {N : Nat} (w : Nat → Nat)
    (hfresh : ∀ a, hold a N = 0) : wsum hold accts (N + 1) w = wsum hold accts N w := by
  simp only [wsum]
  rw [List.range_succ, usum_append]
  simp only [usum_cons, usum_nil, Nat.add_zero]
  have : outst hold accts N = 0 := usum_zero (fun a _ => hfresh a)
  rw [this]; simp

/-! ## B. the position view and the invariant -/

/-- the cells of a state the position-token clauses (and the potential-function bound) talk about;
    `accts` = the DISTINCT accounts of the world (`s.accts.dedup`: same members, no repetition, so
    that sums over the accounts count every account once whatever list the world was created with) -/
structure PV where
  accts : List Nat
  hold : Nat → Nat → Nat
  md : Nat → Option Meta
  nonce : Nat
  ut : Nat → Nat
  supply : Nat
  rps : Nat
  paidBase : Nat
  baseBudget : Nat
  dsc : Nat
  /-- the account list as the world was created with it (never changes) -/
  raw : List Nat
  /-- the signed ledger of outstanding unbond amounts -/
  unbondOut : Int

def pv (s : St) : PV :=
  ⟨s.accts.dedup, s.hold, s.md, s.nonce, s.userTotal, s.supply, s.rps, s.paidBase, s.baseBudget, s.dsc,
   s.accts, s.unbondOut⟩

/-- weight "nonce `n` is a staking position" -/
def posW (md : Nat → Option Meta) (n : Nat) : Nat :=
  match posOf md n with
  | some _ => 1
  | none => 0

/-- weight "nonce `n` is a staking position whose recorded original owner is `o`" -/
def ownW (md : Nat → Option Meta) (o n : Nat) : Nat :=
  match posOf md n with
  | some a => if a.owner = o then 1 else 0
  | none => 0

theorem posW_some {md : Nat → Option Meta} {n : Nat} {a : Attrs} (h : posOf md n = some a) :
    posW md n = 1 := by simp only [posW, h]

theorem posW_none {md : Nat → Option Meta} {n : Nat} (h : posOf md n = none) :
    posW md n = 0 := by simp only [posW, h]

theorem ownW_some {md : Nat → Option Meta} {n : Nat} {a : Attrs} (h : posOf md n = some a) (o : Nat) :
    ownW md o n = if a.owner = o then 1 else 0 := by simp only [ownW, h]

theorem ownW_none {md : Nat → Option Meta} {n : Nat} (h : posOf md n = none) (o : Nat) :
    ownW md o n = 0 := by simp only [ownW, h]

theorem posOf_upd_pos (md : Nat → Option Meta) (N : Nat) (a : Attrs) :
    posOf (upd md N (some (.pos a))) N = some a := by simp only [posOf, upd_same]

theorem posOf_upd_unbond (md : Nat → Option Meta) (N e : Nat) :
    posOf (upd md N (some (.unbond e))) N = none := by simp only [posOf, upd_same]

theorem posOf_upd_other (md : Nat → Option Meta) {N n : Nat} (x : Option Meta) (h : n ≠ N) :
    posOf (upd md N x) n = posOf md n := by simp only [posOf, upd_other _ _ h]

theorem unbondOf_posOf {md : Nat → Option Meta} {n e : Nat} (h : unbondOf md n = some e) :
    posOf md n = none := by
  rw [unbondOf_eq_some] at h
  simp only [posOf, h]

/-- the position-token invariant on the view -/
structure PosOK (v : PV) : Prop where
  /-- the accounts of the world are distinct -/
  nodup : v.accts.Nodup
  /-- only accounts of the world hold farm-token SFTs, and only of nonces created so far -/
  dom : ∀ a n, v.hold a n ≠ 0 → a ∈ v.accts ∧ n ≤ v.nonce
  /-- supply = Σ outstanding position units -/
  sup : v.supply = wsum v.hold v.accts (v.nonce + 1) (posW v.md)
  /-- `userTotalFarmPosition(o)` = Σ outstanding units of the positions recorded as `o`'s -/
  own : ∀ o, v.ut o = wsum v.hold v.accts (v.nonce + 1) (ownW v.md o)

/-- payments that are all positions weigh their total amount -/
theorem payW_posW {m : Nat → Option Meta} : ∀ {pays : List Pay},
    (∀ p ∈ pays, ∃ a, posOf m p.1 = some a) → payW (posW m) pays = payTot pays
  | [], _ => rfl
  | p :: ps, h => by
      obtain ⟨a, ha⟩ := h p List.mem_cons_self
      simp only [payW, payTot, posW_some ha, Nat.one_mul]
      rw [payW_posW (fun q hq => h q (List.mem_cons_of_mem _ hq))]

/-- `check_and_update_user_farm_position`: every payment recorded for somebody else moves from
    that owner's total to `user`'s; the saturating subtraction is exact because the owner's total
    contains the payment.  All payments are positions. -/
theorem checkAndUpdate_total (m : Nat → Option Meta) (user : Nat) :
    ∀ (pays : List Pay) (ut ut1 Y : Nat → Nat), checkAndUpdate m user ut pays = some ut1 →
      (∀ o, ut o = Y o + payW (ownW m o) pays) →
      (∀ o, ut1 o = Y o + (if o = user then payTot pays else 0)) ∧
      (∀ p ∈ pays, ∃ a, posOf m p.1 = some a)
  | [], ut, ut1, Y, h, hY => by
      simp only [checkAndUpdate, Option.some.injEq] at h
      subst h
      refine ⟨fun o => ?_, fun _ hp => by cases hp⟩
      rw [hY o]; simp [payW, payTot]
  | p :: ps, ut, ut1, Y, h, hY => by
      simp only [checkAndUpdate, Option.bind_eq_bind, Option.bind_eq_some_iff] at h
      obtain ⟨a, ha, h⟩ := h
      have hY' : ∀ o, ut o = Y o + (if a.owner = o then p.2 else 0) + payW (ownW m o) ps := by
        intro o
        rw [hY o]
        simp only [payW, ownW_some ha]
        split <;> omega
      obtain ⟨r1, r2⟩ := checkAndUpdate_total m user ps _ ut1
        (fun o => Y o + (if o = user then p.2 else 0)) h (by
          intro o
          by_cases hau : a.owner = user
          · rw [if_pos hau, hY' o, hau]
            by_cases hou : o = user
            · subst hou; simp
            · rw [if_neg (fun e => hou e.symm), if_neg hou]
          · rw [if_neg hau]
            have h1 := hY' o
            have h2 := hY' a.owner
            have h3 := hY' user
            rw [if_pos rfl] at h2
            rw [if_neg hau] at h3
            simp only [decreaseUT, upd]
            by_cases hou : o = user
            · subst hou
              simp only [if_true, if_neg (fun e : o = a.owner => hau e.symm)]
              omega
            · by_cases hoo : o = a.owner
              · subst hoo
                simp only [hou, if_false, if_true]
                split <;> omega
              · rw [if_neg (fun e => hoo e.symm)] at h1
                simp only [hou, hoo, if_false]
                omega)
      refine ⟨fun o => ?_, fun q hq => ?_⟩
      · rw [r1 o]; simp only [payTot]; split <;> omega
      · rcases List.mem_cons.mp hq with rfl | hq
        · exact ⟨a, ha⟩
        · exact r2 q hq

namespace PV

/-- reward generation: the index moves by `inc`, the base budget by `base` -/
def gen (v : PV) (inc base : Nat) : PV :=
  { v with rps := v.rps + inc, baseBudget := v.baseBudget + base }

/-- payments were taken in (`h0` = holdings after the debit) and ONE new position `tok` is minted
    to `c` under the next nonce; user totals and supply are replaced; `paid` base rewards paid -/
def remint (v : PV) (c : Nat) (h0 : Nat → Nat → Nat) (tok : Attrs) (ut2 : Nat → Nat)
    (supply2 paid : Nat) : PV :=
  { v with hold := upd2 h0 c (v.nonce + 1) tok.amount
           md := upd v.md (v.nonce + 1) (some (.pos tok))
           nonce := v.nonce + 1, ut := ut2, supply := supply2, paidBase := v.paidBase + paid }

/-- a position part was taken in and an UNBOND token of `x` units with unlock epoch `e` is minted
    to `c` under the next nonce -/
def burn (v : PV) (c : Nat) (h0 : Nat → Nat → Nat) (e x : Nat) (ut2 : Nat → Nat)
    (supply2 paid : Nat) : PV :=
  { v with hold := upd2 h0 c (v.nonce + 1) x
           md := upd v.md (v.nonce + 1) (some (.unbond e))
           nonce := v.nonce + 1, ut := ut2, supply := supply2, paidBase := v.paidBase + paid
           unbondOut := v.unbondOut + (x : Int) }

/-- only the holdings change -/
def setHold (v : PV) (h : Nat → Nat → Nat) : PV := { v with hold := h }

/-- unbond tokens worth `amt` were redeemed -/
def redeem (v : PV) (h : Nat → Nat → Nat) (amt : Nat) : PV :=
  { v with hold := h, unbondOut := v.unbondOut - (amt : Int) }

end PV

theorem PosOK.gen {v : PV} (hI : PosOK v) (inc base : Nat) : PosOK (v.gen inc base) :=
  ⟨hI.nodup, hI.dom, hI.sup, hI.own⟩

/-- nobody holds a nonce that was not created yet, also after a debit -/
theorem PosOK.fresh {v : PV} (hI : PosOK v) {c : Nat} {pays : List Pay} {h0 : Nat → Nat → Nat}
    (hd : debit v.hold c pays = some h0) (a : Nat) : h0 a (v.nonce + 1) = 0 := by
  by_contra hne
  have h1 := debit_le hd a (v.nonce + 1)
  have := (hI.dom a (v.nonce + 1) (by omega)).2
  omega

theorem PosOK.pay_lt {v : PV} (hI : PosOK v) {c : Nat} {pays : List Pay} {h0 : Nat → Nat → Nat}
    (hd : debit v.hold c pays = some h0) : ∀ p ∈ pays, p.1 < v.nonce + 1 := by
  intro p hp
  have := (hI.dom c p.1 (debit_held hd hp)).2
  omega

theorem PosOK.dom_mint {v : PV} (hI : PosOK v) {c : Nat} {pays : List Pay} {h0 : Nat → Nat → Nat}
    (hc : c ∈ v.accts) (hd : debit v.hold c pays = some h0) (x : Nat) :
    ∀ a n, upd2 h0 c (v.nonce + 1) x a n ≠ 0 → a ∈ v.accts ∧ n ≤ v.nonce + 1 := by
  intro a n hne
  by_cases han : a = c ∧ n = v.nonce + 1
  · obtain ⟨rfl, rfl⟩ := han
    exact ⟨hc, Nat.le_refl _⟩
  · rw [upd2_other _ _ _ _ (by
      by_cases ha : a = c
      · exact Or.inr (fun hn => han ⟨ha, hn⟩)
      · exact Or.inl ha)] at hne
    have h1 := debit_le hd a n
    obtain ⟨d1, d2⟩ := hI.dom a n (by omega)
    exact ⟨d1, by omega⟩

/-- **re-issue**: payments taken in, totals moved to `user`, one position for `user` minted -/
theorem PosOK.remint {v : PV} (hI : PosOK v) {c user : Nat} {pays : List Pay}
    {h0 : Nat → Nat → Nat} {ut1 ut2 : Nat → Nat} {tok : Attrs} {supply2 : Nat} (paid : Nat)
    (hc : c ∈ v.accts) (hd : debit v.hold c pays = some h0)
    (hk : checkAndUpdate v.md user v.ut pays = some ut1) (ho : tok.owner = user)
    (hs : supply2 + payTot pays = v.supply + tok.amount)
    (hu : ∀ o, ut2 o + (if o = user then payTot pays else 0)
             = ut1 o + (if o = user then tok.amount else 0)) :
    PosOK (v.remint c h0 tok ut2 supply2 paid) := by
  have hfresh := hI.fresh hd
  have hlt := hI.pay_lt hd
  obtain ⟨k1, k2⟩ := checkAndUpdate_total v.md user pays v.ut ut1
    (fun o => wsum h0 v.accts (v.nonce + 1) (ownW v.md o)) hk (by
      intro o
      rw [hI.own o, ← wsum_debit (ownW v.md o) hd hc hI.nodup hlt])
  refine ⟨hI.nodup, hI.dom_mint hc hd _, ?_, fun o => ?_⟩
  · show supply2 = wsum (upd2 h0 c (v.nonce + 1) tok.amount) v.accts (v.nonce + 1 + 1)
      (posW (upd v.md (v.nonce + 1) (some (.pos tok))))
    rw [wsum_mint (posW v.md) _ hc hI.nodup hfresh
      (fun n hn => by simp only [posW, posOf_upd_other _ _ (show n ≠ v.nonce + 1 by omega)]),
      posW_some (posOf_upd_pos _ _ _), Nat.one_mul]
    have h1 := wsum_debit (posW v.md) hd hc hI.nodup hlt
    rw [payW_posW k2, ← hI.sup] at h1
    omega
  · show ut2 o = wsum (upd2 h0 c (v.nonce + 1) tok.amount) v.accts (v.nonce + 1 + 1)
      (ownW (upd v.md (v.nonce + 1) (some (.pos tok))) o)
    rw [wsum_mint (ownW v.md o) _ hc hI.nodup hfresh
      (fun n hn => by simp only [ownW, posOf_upd_other _ _ (show n ≠ v.nonce + 1 by omega)]),
      ownW_some (posOf_upd_pos _ _ _), ho]
    have h1 := k1 o
    have h2 := hu o
    by_cases hou : o = user
    · simp only [if_pos hou] at h1 h2
      rw [if_pos hou.symm, Nat.one_mul]
      omega
    · simp only [if_neg hou] at h1 h2
      rw [if_neg (fun e => hou e.symm), Nat.zero_mul]
      omega

/-- **exit**: a part of one position taken in, its recorded owner's total and the supply lowered,
    an unbond token minted -/
theorem PosOK.burn {v : PV} (hI : PosOK v) {c : Nat} {pay : Pay} {h0 : Nat → Nat → Nat}
    {attrs : Attrs} {supply2 : Nat} (e x paid : Nat)
    (hc : c ∈ v.accts) (hd : debit v.hold c [pay] = some h0) (ha : posOf v.md pay.1 = some attrs)
    (hs : supply2 + pay.2 = v.supply) :
    PosOK (v.burn c h0 e x (decreaseUT v.ut attrs.owner pay.2) supply2 paid) := by
  have hfresh := hI.fresh hd
  have hlt := hI.pay_lt hd
  refine ⟨hI.nodup, hI.dom_mint hc hd _, ?_, fun o => ?_⟩
  · show supply2 = wsum (upd2 h0 c (v.nonce + 1) x) v.accts (v.nonce + 1 + 1)
      (posW (upd v.md (v.nonce + 1) (some (.unbond e))))
    rw [wsum_mint (posW v.md) _ hc hI.nodup hfresh
      (fun n hn => by simp only [posW, posOf_upd_other _ _ (show n ≠ v.nonce + 1 by omega)]),
      posW_none (posOf_upd_unbond _ _ _), Nat.zero_mul]
    have h1 := wsum_debit (posW v.md) hd hc hI.nodup hlt
    simp only [payW, posW_some ha, Nat.one_mul, Nat.add_zero] at h1
    rw [← hI.sup] at h1
    omega
  · show decreaseUT v.ut attrs.owner pay.2 o = wsum (upd2 h0 c (v.nonce + 1) x) v.accts
      (v.nonce + 1 + 1) (ownW (upd v.md (v.nonce + 1) (some (.unbond e))) o)
    rw [wsum_mint (ownW v.md o) _ hc hI.nodup hfresh
      (fun n hn => by simp only [ownW, posOf_upd_other _ _ (show n ≠ v.nonce + 1 by omega)]),
      ownW_none (posOf_upd_unbond _ _ _), Nat.zero_mul]
    have h1 := wsum_debit (ownW v.md o) hd hc hI.nodup hlt
    simp only [payW, ownW_some ha, Nat.add_zero] at h1
    rw [← hI.own o] at h1
    simp only [decreaseUT, upd]
    by_cases hoo : o = attrs.owner
    · subst hoo
      simp only [if_true, Nat.one_mul] at h1 ⊢
      split <;> omega
    · rw [if_neg (fun e => hoo e.symm), Nat.zero_mul] at h1
      rw [if_neg hoo]
      omega

theorem payW_zero {w : Nat → Nat} : ∀ {pays : List Pay}, (∀ p ∈ pays, w p.1 = 0) → payW w pays = 0
  | [], _ => rfl
  | p :: ps, h => by
      simp only [payW, h p List.mem_cons_self, Nat.zero_mul, Nat.zero_add]
      exact payW_zero (fun q hq => h q (List.mem_cons_of_mem _ hq))

/-- payments of weight 0 (unbond tokens) leave: nothing else changes -/
theorem PosOK.setHold_debit {v : PV} (hI : PosOK v) {c : Nat} {pays : List Pay}
    {h0 : Nat → Nat → Nat} (hc : c ∈ v.accts) (hd : debit v.hold c pays = some h0)
    (hz : ∀ p ∈ pays, posOf v.md p.1 = none) : PosOK (v.setHold h0) := by
  have hlt := hI.pay_lt hd
  refine ⟨hI.nodup, fun a n hne => hI.dom a n (by
    have hne' : h0 a n ≠ 0 := hne
    have := debit_le hd a n; omega), ?_, fun o => ?_⟩
  · show v.supply = wsum h0 v.accts (v.nonce + 1) (posW v.md)
    have h1 := wsum_debit (posW v.md) hd hc hI.nodup hlt
    rw [payW_zero (fun p hp => posW_none (hz p hp)), ← hI.sup] at h1
    omega
  · show v.ut o = wsum h0 v.accts (v.nonce + 1) (ownW v.md o)
    have h1 := wsum_debit (ownW v.md o) hd hc hI.nodup hlt
    rw [payW_zero (fun p hp => ownW_none (hz p hp) o), ← hI.own o] at h1
    omega

theorem PosOK.redeem {v : PV} (hI : PosOK v) {c : Nat} {pays : List Pay}
    {h0 : Nat → Nat → Nat} (hc : c ∈ v.accts) (hd : debit v.hold c pays = some h0)
    (hz : ∀ p ∈ pays, ∃ e, unbondOf v.md p.1 = some e) (amt : Nat) : PosOK (v.redeem h0 amt) := by
  have := hI.setHold_debit hc hd (fun p hp => by
    obtain ⟨e, he⟩ := hz p hp
    exact unbondOf_posOf he)
  exact ⟨this.nodup, this.dom, this.sup, this.own⟩

/-- a plain transfer: units of one nonce move between two accounts of the world -/
theorem PosOK.transfer {v : PV} (hI : PosOK v) {src dst : Nat} {pay : Pay} {h0 : Nat → Nat → Nat}
    (hs : src ∈ v.accts) (hdst : dst ∈ v.accts) (hd : debit v.hold src [pay] = some h0) :
    PosOK (v.setHold (upd2 h0 dst pay.1 (h0 dst pay.1 + pay.2))) := by
  have hlt := hI.pay_lt hd
  have hout : ∀ n, outst (upd2 h0 dst pay.1 (h0 dst pay.1 + pay.2)) v.accts n = outst v.hold v.accts n := by
    intro n
    rw [outst_credit hdst hI.nodup n, ← outst_debit hd hs hI.nodup n]
    simp only [paidOf, Nat.add_zero]
    by_cases hn : n = pay.1
    · subst hn; simp
    · rw [if_neg hn, if_neg (fun e => hn e.symm)]
  refine ⟨hI.nodup, ?_, ?_, fun o => ?_⟩
  · intro a n hne
    replace hne : upd2 h0 dst pay.1 (h0 dst pay.1 + pay.2) a n ≠ 0 := hne
    show a ∈ v.accts ∧ n ≤ v.nonce
    by_cases han : a = dst ∧ n = pay.1
    · obtain ⟨rfl, rfl⟩ := han
      exact ⟨hdst, by have := hlt pay List.mem_cons_self; omega⟩
    · have hne' : h0 a n ≠ 0 := by
        rw [upd2_other _ _ _ _ (by
          by_cases ha : a = dst
          · exact Or.inr (fun hn => han ⟨ha, hn⟩)
          · exact Or.inl ha)] at hne
        exact hne
      exact hI.dom a n (by have := debit_le hd a n; omega)
  · show v.supply = wsum _ v.accts (v.nonce + 1) (posW v.md)
    rw [hI.sup]
    exact (wsum_congr (fun n _ => hout n) (fun _ _ => rfl)).symm
  · show v.ut o = wsum _ v.accts (v.nonce + 1) (ownW v.md o)
    rw [hI.own o]
    exact (wsum_congr (fun n _ => hout n) (fun _ _ => rfl)).symm

/-! ## C. the transitions of the view -/

/-- weight "what one unit of nonce `n` can still claim at index `R`" (`R − entry index`,
    saturating; 0 for unbond tokens) — the potential of Lemmas/StakingPot.lean -/
def potW (md : Nat → Option Meta) (R n : Nat) : Nat :=
  match posOf md n with
  | some a => R - a.rps
  | none => 0

theorem potW_some {md : Nat → Option Meta} {n : Nat} {a : Attrs} (h : posOf md n = some a) (R : Nat) :
    potW md R n = R - a.rps := by simp only [potW, h]

theorem potW_none {md : Nat → Option Meta} {n : Nat} (h : posOf md n = none) (R : Nat) :
    potW md R n = 0 := by simp only [potW, h]

/-- `calculate_base_farm_rewards` as a function of the numbers it reads -/
def baseAmt (R dsc amt r : Nat) : Nat := if r < R then amt * (R - r) / dsc else 0

theorem baseReward_eq (c : Cache) (dsc amt : Nat) (t : Attrs) :
    baseReward c dsc amt t = baseAmt c.rps dsc amt t.rps := rfl

/-- a base reward never exceeds the un-rounded entitlement -/
theorem baseAmt_le (R dsc amt r : Nat) : dsc * baseAmt R dsc amt r ≤ amt * (R - r) := by
  unfold baseAmt
  split
  · exact Nat.mul_div_le _ _
  · simp

/-- the index increment never hands out more than the base share: `supply · inc ≤ dsc · base` -/
theorem rpsInc_mul_le (dsc base supply : Nat) : supply * rpsInc dsc base supply ≤ dsc * base := by
  unfold rpsInc
  split
  · simp
  · rw [Nat.mul_comm dsc base]; exact Nat.mul_div_le _ _

/-- `merge_attributes_from_payments` creates no value: at every index `R` the merged position's
    un-rounded entitlement is at most that of the base plus that of the parts merged in -/
theorem mergeParts_pot (m : Nat → Option Meta) (R : Nat) :
    ∀ (pays : List Pay) (base out : Attrs), mergeParts m base pays = some out →
      out.amount * (R - out.rps) ≤ base.amount * (R - base.rps) + payW (potW m R) pays
  | [], base, out, h => by
      simp only [mergeParts, Option.some.injEq] at h
      subst h
      simp [payW]
  | p :: ps, base, out, h => by
      simp only [mergeParts, Option.bind_eq_bind, Option.bind_eq_some_iff] at h
      obtain ⟨a, ha, part, hp, mg, hm, hrest⟩ := h
      obtain ⟨e1, _, e3, _⟩ := intoPart_spec hp
      obtain ⟨m1, m2, _, m4, _⟩ := mergeWith_spec hm
      have ih := mergeParts_pot m R ps mg out hrest
      have hg := merge_no_gain_arith base.rps base.amount part.rps part.amount R m1
      rw [← m4, ← m2, e1, e3] at hg
      simp only [payW, potW_some ha]
      rw [Nat.mul_comm (R - a.rps) p.2]
      omega

/-- the merged position: amount and owner -/
theorem mergeParts_amount {m : Nat → Option Meta} {pays : List Pay} {base out : Attrs}
    (h : mergeParts m base pays = some out) :
    out.amount = base.amount + payTot pays ∧ out.owner = base.owner := by
  obtain ⟨h1, h2, _⟩ := mergeParts_spec m pays base out h
  rw [payTot_eq]
  exact ⟨h1, h2⟩

/-- What ONE successful transaction does to the position view: rewards are generated first
    (`inc`, `base`; both 0 when the endpoint does not settle), and then
    * nothing else (admin endpoints, `claimBoostedRewards`, …), or
    * payments are taken in and one position is re-issued (stake, claim, compound, merge), or
    * a position part is exchanged for an unbond token (unstake), or
    * unbond tokens are redeemed, or
    * SFT units move between two accounts. -/
def PTrans (v v' : PV) : Prop :=
  ∃ inc base, v.supply * inc ≤ v.dsc * base ∧
    (v' = v.gen inc base ∨
     (∃ (c user : Nat) (pays : List Pay) (h0 : Nat → Nat → Nat) (ut1 ut2 : Nat → Nat) (tok : Attrs)
        (supply2 paid : Nat),
        c ∈ v.accts ∧ debit v.hold c pays = some h0 ∧
        checkAndUpdate v.md user v.ut pays = some ut1 ∧ tok.owner = user ∧
        supply2 + payTot pays = v.supply + tok.amount ∧
        (∀ o, ut2 o + (if o = user then payTot pays else 0)
            = ut1 o + (if o = user then tok.amount else 0)) ∧
        tok.amount * (v.rps + inc - tok.rps) + v.dsc * paid ≤ payW (potW v.md (v.rps + inc)) pays ∧
        v' = (v.gen inc base).remint c h0 tok ut2 supply2 paid) ∨
     (∃ (c : Nat) (pay : Pay) (h0 : Nat → Nat → Nat) (attrs : Attrs) (e x supply2 paid : Nat),
        c ∈ v.accts ∧ debit v.hold c [pay] = some h0 ∧ posOf v.md pay.1 = some attrs ∧
        supply2 + pay.2 = v.supply ∧ v.dsc * paid ≤ pay.2 * (v.rps + inc - attrs.rps) ∧
        v' = (v.gen inc base).burn c h0 e x (decreaseUT v.ut attrs.owner pay.2) supply2 paid) ∨
     (∃ (c : Nat) (pays : List Pay) (h0 : Nat → Nat → Nat),
        c ∈ v.accts ∧ debit v.hold c pays = some h0 ∧
        (∀ p ∈ pays, ∃ e, unbondOf v.md p.1 = some e) ∧
        v' = (v.gen inc base).redeem h0 (payTot pays)) ∨
     (∃ (src dst : Nat) (pay : Pay) (h0 : Nat → Nat → Nat),
        src ∈ v.accts ∧ dst ∈ v.accts ∧ debit v.hold src [pay] = some h0 ∧
        v' = (v.gen inc base).setHold (upd2 h0 dst pay.1 (h0 dst pay.1 + pay.2))))

theorem PTrans.refl (v : PV) : PTrans v v :=
  ⟨0, 0, by simp, Or.inl rfl⟩

/-- no transition touches the account list or the division-safety constant -/
theorem PTrans.const {v v' : PV} (h : PTrans v v') : v'.raw = v.raw ∧ v'.dsc = v.dsc ∧ v'.accts = v.accts := by
  obtain ⟨inc, base, _, h⟩ := h
  rcases h with h | ⟨_, _, _, _, _, _, _, _, _, _, _, _, _, _, _, _, h⟩ |
    ⟨_, _, _, _, _, _, _, _, _, _, _, _, _, h⟩ | ⟨_, _, _, _, _, _, h⟩ | ⟨_, _, _, _, _, _, _, h⟩ <;>
    rw [h] <;> exact ⟨rfl, rfl, rfl⟩

/-- every transition keeps the position-token invariant -/
theorem PosOK.trans {v v' : PV} (hI : PosOK v) (h : PTrans v v') : PosOK v' := by
  obtain ⟨inc, base, _, h⟩ := h
  have hG := hI.gen inc base
  rcases h with rfl | ⟨c, user, pays, h0, ut1, ut2, tok, supply2, paid, hc, hd, hk, ho, hs, hu, _, rfl⟩ |
    ⟨c, pay, h0, attrs, e, x, supply2, paid, hc, hd, ha, hs, _, rfl⟩ |
    ⟨c, pays, h0, hc, hd, hz, rfl⟩ | ⟨src, dst, pay, h0, hs, hdst, hd, rfl⟩
  · exact hG
  · exact hG.remint paid hc hd hk ho hs hu
  · exact hG.burn e x paid hc hd ha hs
  · exact hG.redeem hc hd hz _
  · exact hG.transfer hs hdst hd

/-! ## D. the unbond ledger -/

/-- weight "nonce `n` is an unbond token" -/
def unbW (md : Nat → Option Meta) (n : Nat) : Nat :=
  match unbondOf md n with
  | some _ => 1
  | none => 0

theorem unbW_some {md : Nat → Option Meta} {n e : Nat} (h : unbondOf md n = some e) : unbW md n = 1 := by
  simp only [unbW, h]

theorem unbW_pos {md : Nat → Option Meta} {n : Nat} {a : Attrs} (h : posOf md n = some a) :
    unbW md n = 0 := by
  have : md n = some (.pos a) := by
    unfold posOf at h
    split at h
    · rename_i a' h'; simp only [Option.some.injEq] at h; subst h; exact h'
    · cases h
  simp only [unbW, unbondOf, this]

theorem unbondOf_upd_other (md : Nat → Option Meta) {N n : Nat} (x : Option Meta) (h : n ≠ N) :
    unbondOf (upd md N x) n = unbondOf md n := by simp only [unbondOf, upd_other _ _ h]

/-- the signed ledger `unbondOut` is the sum of the outstanding unbond-token units -/
def UnbOK (v : PV) : Prop :=
  v.unbondOut = (wsum v.hold v.accts (v.nonce + 1) (unbW v.md) : Nat)

theorem payW_unbW_pos {m : Nat → Option Meta} : ∀ {pays : List Pay},
    (∀ p ∈ pays, ∃ a, posOf m p.1 = some a) → payW (unbW m) pays = 0
  | [], _ => rfl
  | p :: ps, h => by
      obtain ⟨a, ha⟩ := h p List.mem_cons_self
      simp only [payW, unbW_pos ha, Nat.zero_mul, Nat.zero_add]
      exact payW_unbW_pos (fun q hq => h q (List.mem_cons_of_mem _ hq))

theorem payW_unbW_unb {m : Nat → Option Meta} : ∀ {pays : List Pay},
    (∀ p ∈ pays, ∃ e, unbondOf m p.1 = some e) → payW (unbW m) pays = payTot pays
  | [], _ => rfl
  | p :: ps, h => by
      obtain ⟨e, he⟩ := h p List.mem_cons_self
      simp only [payW, payTot, unbW_some he, Nat.one_mul]
      rw [payW_unbW_unb (fun q hq => h q (List.mem_cons_of_mem _ hq))]

/-- every transition keeps the unbond ledger exact -/
theorem UnbOK.trans {v v' : PV} (hI : PosOK v) (hU : UnbOK v) (h : PTrans v v') : UnbOK v' := by
  obtain ⟨inc, base, _, h⟩ := h
  unfold UnbOK at hU
  rcases h with rfl | ⟨c, user, pays, h0, ut1, ut2, tok, supply2, paid, hc, hd, hk, _, _, _, _, rfl⟩ |
    ⟨c, pay, h0, attrs, e, x, supply2, paid, hc, hd, ha, _, _, rfl⟩ |
    ⟨c, pays, h0, hc, hd, hz, rfl⟩ | ⟨src, dst, pay, h0, hs, hdst, hd, rfl⟩
  · exact hU
  · have hfresh := hI.fresh hd
    have hlt := hI.pay_lt hd
    obtain ⟨_, k2⟩ := checkAndUpdate_total v.md user pays v.ut ut1
      (fun o => wsum h0 v.accts (v.nonce + 1) (ownW v.md o)) hk (by
        intro o
        rw [hI.own o, ← wsum_debit (ownW v.md o) hd hc hI.nodup hlt])
    have h1 := wsum_debit (unbW v.md) hd hc hI.nodup hlt
    rw [payW_unbW_pos k2] at h1
    show v.unbondOut = ((wsum (upd2 h0 c (v.nonce + 1) tok.amount) v.accts (v.nonce + 1 + 1)
      (unbW (upd v.md (v.nonce + 1) (some (.pos tok)))) : Nat) : Int)
    rw [wsum_mint (unbW v.md) _ hc hI.nodup hfresh
      (fun n hn => by simp only [unbW, unbondOf_upd_other _ _ (show n ≠ v.nonce + 1 by omega)]),
      unbW_pos (posOf_upd_pos _ _ _), Nat.zero_mul, hU]
    omega
  · have hfresh := hI.fresh hd
    have hlt := hI.pay_lt hd
    have h1 := wsum_debit (unbW v.md) hd hc hI.nodup hlt
    simp only [payW, unbW_pos ha, Nat.zero_mul, Nat.add_zero] at h1
    show v.unbondOut + (x : Int) = ((wsum (upd2 h0 c (v.nonce + 1) x) v.accts (v.nonce + 1 + 1)
      (unbW (upd v.md (v.nonce + 1) (some (.unbond e)))) : Nat) : Int)
    have hw : unbW (upd v.md (v.nonce + 1) (some (.unbond e))) (v.nonce + 1) = 1 := by
      simp only [unbW, unbondOf, upd_same]
    rw [wsum_mint (unbW v.md) _ hc hI.nodup hfresh
      (fun n hn => by simp only [unbW, unbondOf_upd_other _ _ (show n ≠ v.nonce + 1 by omega)]),
      hw, Nat.one_mul, hU]
    omega
  · have hlt := hI.pay_lt hd
    have h1 := wsum_debit (unbW v.md) hd hc hI.nodup hlt
    rw [payW_unbW_unb hz] at h1
    show v.unbondOut - (payTot pays : Int) = ((wsum h0 v.accts (v.nonce + 1) (unbW v.md) : Nat) : Int)
    rw [hU]
    omega
  · have hout : ∀ n, outst (upd2 h0 dst pay.1 (h0 dst pay.1 + pay.2)) v.accts n = outst v.hold v.accts n := by
      intro n
      rw [outst_credit hdst hI.nodup n, ← outst_debit hd hs hI.nodup n]
      simp only [paidOf, Nat.add_zero]
      by_cases hn : n = pay.1
      · subst hn; simp
      · rw [if_neg hn, if_neg (fun e => hn e.symm)]
    show v.unbondOut = ((wsum (upd2 h0 dst pay.1 (h0 dst pay.1 + pay.2)) v.accts (v.nonce + 1)
      (unbW v.md) : Nat) : Int)
    rw [wsum_congr (fun n _ => hout n) (fun _ _ => rfl)]
    exact hU

end Mx.Staking
