/-
  Aggregates of the proxy-dex model (reserves recorded in the wrapped tokens, per key) and
  characterisation lemmas of the building blocks `takeW`, `takeF`, `dissolveW`, `newW`, `newF`:
  what a successful call implies and how every aggregate moves.
-/
import MxModel.Lemmas.ProxyDexBasic

namespace Mx.ProxyDex

/-! ### aggregates -/

/-- locked tokens of nonce `κ` reserved by a wrapped LP record -/
def remAt (κ : Nat) (r : WLp) : Nat := if r.k = κ then r.rem else 0
/-- locked tokens of nonce `κ` reserved by a wrapped farm record (locked-token farms) -/
def remPLk (κ : Nat) (q : WFarm) : Nat := if q.kind = .locked ∧ q.pn = κ then q.remP else 0
/-- wrapped LP tokens of nonce `w` reserved by a wrapped farm record (LP farms) -/
def remPW (w : Nat) (q : WFarm) : Nat := if q.kind = .wlp ∧ q.pn = w then q.remP else 0
/-- farm tokens `(g, φ)` reserved by a wrapped farm record -/
def remFAt (g φ : Nat) (q : WFarm) : Nat := if q.farm = g ∧ q.fn = φ then q.remF else 0

/-- all locked tokens of nonce `κ` reserved by outstanding wrapped tokens -/
def R (s : St) (κ : Nat) : Nat := sumOf (remAt κ) s.wl + sumOf (remPLk κ) s.wf
def F (s : St) (g φ : Nat) : Nat := sumOf (remFAt g φ) s.wf
def H (s : St) (w : Nat) : Nat := sumOf (remPW w) s.wf
/-- wrapped LP tokens in user wallets (each is a claim on as many LP tokens) -/
def C (s : St) : Nat := sumOf (·.circ) s.wl
def heldOf (s : St) (w : Nat) : Nat :=
  match s.wl[w]? with
  | some r => r.held
  | none => 0

/-- per-record soundness: the reserve covers the outstanding amount pro rata -/
def WOk (r : WLp) : Prop := r.locked * (r.circ + r.held) ≤ r.rem * r.total
def FOk (q : WFarm) : Prop := q.circ ≤ q.remF ∧ q.pa * q.circ ≤ q.remP * q.fa
def Pt (s : St) : Prop := (∀ r ∈ s.wl, WOk r) ∧ (∀ q ∈ s.wf, FOk q)

theorem heldOf_set (s : St) (w v : Nat) (r r' : WLp) (h : s.wl[w]? = some r) :
    heldOf (setW s w r') v = if v = w then r'.held else heldOf s v := by
  unfold heldOf setW
  have hw : w < s.wl.length := by
    rcases List.getElem?_eq_some_iff.mp h with ⟨hw, _⟩; exact hw
  by_cases hv : v = w
  · subst hv; simp [hw]
  · simp [hv, List.getElem?_set_ne (Ne.symm hv)]

/-! ### replacing one wrapped LP record / appending records -/

theorem setW_delta (s : St) (w : Nat) (rw rw' : WLp) (h : s.wl[w]? = some rw) (hk : rw'.k = rw.k) :
    C (setW s w rw') + rw.circ = C s + rw'.circ ∧
    (∀ κ, R (setW s w rw') κ + (if rw.k = κ then rw.rem else 0)
        = R s κ + (if rw.k = κ then rw'.rem else 0)) ∧
    (∀ v, heldOf (setW s w rw') v = if v = w then rw'.held else heldOf s v) ∧
    (WOk rw' → Pt s → Pt (setW s w rw')) := by
  refine ⟨?_, ?_, fun v => heldOf_set s w v rw rw' h, ?_⟩
  · have := sumOf_set (·.circ) s.wl w rw rw' h
    simp only [C, setW] at *; omega
  · intro κ
    have := sumOf_set (remAt κ) s.wl w rw rw' h
    simp only [R, setW]
    by_cases hκ : rw.k = κ
    · simp only [remAt, hk, hκ, if_true] at this ⊢; omega
    · simp only [remAt, hk, hκ, if_false] at this ⊢; omega
  · rintro hok ⟨hw, hf⟩
    refine ⟨?_, hf⟩
    intro r' hr'
    rcases mem_set_cases hr' with rfl | hm
    · exact hok
    · exact hw r' hm

theorem heldOf_append_new (s : St) (r : WLp) (v : Nat) :
    heldOf { s with wl := s.wl ++ [r] } v = if v = s.wl.length then r.held else heldOf s v := by
  unfold heldOf
  by_cases hv : v = s.wl.length
  · subst hv; simp
  · simp only [hv, if_false]
    by_cases hlt : v < s.wl.length
    · simp [List.getElem?_append_left hlt]
    · have hge : s.wl.length < v := by omega
      have h1 : (s.wl ++ [r])[v]? = none := by
        apply List.getElem?_eq_none; simp; omega
      have h2 : s.wl[v]? = none := by
        apply List.getElem?_eq_none; omega
      simp [h1, h2]

/-- `newW`: a new record whose reserve is exactly the locked tokens that arrive with it -/
theorem newW_delta (s : St) (total k locked : Nat) (u : Bool) :
    let s' := (newW s total k locked u).1
    (newW s total k locked u).2 = s.wl.length ∧
    C s' = C s + (if u then total else 0) ∧
    (∀ κ, R s' κ = R s κ + (if k = κ then locked else 0)) ∧
    (∀ κ, s'.lk κ = s.lk κ + (if k = κ then locked else 0)) ∧
    (∀ v, heldOf s' v = if v = s.wl.length then (if u then 0 else total) else heldOf s v) ∧
    s'.wf = s.wf ∧ s'.hf = s.hf ∧ s'.lp = s.lp ∧ (Pt s → Pt s') := by
  refine ⟨rfl, ?_, ?_, ?_, ?_, rfl, rfl, rfl, ?_⟩
  · cases u <;> simp [newW, C]
  · intro κ
    by_cases hk : k = κ <;> simp [newW, R, remAt, hk]
    omega
  · intro κ
    by_cases hk : k = κ
    · subst hk; simp [newW]
    · simp [newW, hk, Ne.symm hk]
  · intro v
    have := heldOf_append_new { s with lk := s.lk.add k locked }
      ⟨total, k, locked, if u then total else 0, if u then 0 else total, 0, locked⟩ v
    simp only [newW] at this ⊢
    rw [this]
    by_cases hv : v = s.wl.length
    · simp [hv]
    · simp only [hv, if_false]; rfl
  · rintro ⟨hw, hf⟩
    refine ⟨?_, hf⟩
    intro r hr
    simp only [newW, List.mem_append, List.mem_singleton] at hr
    rcases hr with hr | rfl
    · exact hw r hr
    · unfold WOk; cases u <;> simp

/-- `newF`: a new record whose farm-token reserve arrives with it; the proxy-farming reserve
    `pa` must be provided by the caller -/
theorem newF_delta (s : St) (farm fn fa : Nat) (kind : Kind) (pn pa : Nat) :
    let s' := (newF s farm fn fa kind pn pa).1
    (newF s farm fn fa kind pn pa).2 = s.wf.length ∧
    (∀ κ, R s' κ = R s κ + (if kind = .locked ∧ pn = κ then pa else 0)) ∧
    (∀ v, H s' v = H s v + (if kind = .wlp ∧ pn = v then pa else 0)) ∧
    (∀ g φ, F s' g φ = F s g φ + (if farm = g ∧ fn = φ then fa else 0)) ∧
    (∀ g φ, s'.hf g φ = s.hf g φ + (if farm = g ∧ fn = φ then fa else 0)) ∧
    s'.wl = s.wl ∧ s'.lk = s.lk ∧ s'.lp = s.lp ∧ (Pt s → Pt s') := by
  refine ⟨rfl, ?_, ?_, ?_, ?_, rfl, rfl, rfl, ?_⟩
  · intro κ
    by_cases hk : kind = .locked ∧ pn = κ <;> simp [newF, R, remPLk, hk]
    omega
  · intro v
    by_cases hk : kind = .wlp ∧ pn = v <;> simp [newF, H, remPW, hk]
  · intro g φ
    by_cases hk : farm = g ∧ fn = φ <;> simp [newF, F, remFAt, hk]
  · intro g φ
    by_cases hg : g = farm
    · subst hg
      by_cases hf : φ = fn
      · subst hf; simp [newF]
      · simp [newF, hf, Ne.symm hf]
    · simp [newF, hg, Ne.symm hg]
  · rintro ⟨hw, hf⟩
    refine ⟨hw, ?_⟩
    intro q hq
    simp only [newF, List.mem_append, List.mem_singleton] at hq
    rcases hq with hq | rfl
    · exact hf q hq
    · exact ⟨Nat.le_refl _, Nat.le_refl _⟩

/-! ### takeW -/

theorem takeW_spec {s s' : St} {w x p : Nat} {r : WLp} {o : Bool}
    (h : takeW s w x o = some (s', r, p)) :
    s.wl[w]? = some r ∧ 0 < x ∧ x ≤ r.circ ∧ part r.locked r.total x = some p ∧ p ≤ r.rem ∧
    p ≤ s.lk r.k ∧
    s' = { setW s w ⟨r.total, r.k, r.locked, r.circ - x, r.held,
                     if o then r.orph + x else r.orph, r.rem - p⟩ with
           lk := fun i => if i = r.k then s.lk i - p else s.lk i } := by
  simp only [takeW, Option.bind_eq_bind, Option.bind_eq_some_iff, req_eq_some, sub?_eq_some,
    Bag.sub?_eq_some, Option.pure_def, Option.some.injEq, Prod.mk.injEq] at h
  obtain ⟨r0, hr, _, hx, c, ⟨hc, rfl⟩, p0, hp, rem, ⟨hrem, rfl⟩, lk, ⟨hlk, rfl⟩, rfl, rfl, rfl⟩ := h
  exact ⟨hr, hx, hc, hp, hrem, hlk, rfl⟩

/-- how the aggregates move under `takeW` -/
theorem takeW_delta {s s' : St} {w x p : Nat} {r : WLp} {o : Bool}
    (h : takeW s w x o = some (s', r, p)) :
    C s' + x = C s ∧
    (∀ κ, R s' κ + (if r.k = κ then p else 0) = R s κ) ∧
    (∀ κ, s'.lk κ + (if r.k = κ then p else 0) = s.lk κ) ∧
    (∀ g φ, F s' g φ = F s g φ) ∧ (∀ v, H s' v = H s v) ∧ s'.hf = s.hf ∧ s'.wf = s.wf ∧
    (∀ v, heldOf s' v = heldOf s v) ∧ s'.lp = s.lp ∧ (Pt s → Pt s') := by
  obtain ⟨hr, hx, hc, hp, hrem, hlk, rfl⟩ := takeW_spec h
  have hpm := part_mul_le hp
  refine ⟨?_, ?_, ?_, ?_, ?_, rfl, rfl, ?_, rfl, ?_⟩
  · have := sumOf_set (·.circ) s.wl w r (⟨r.total, r.k, r.locked, r.circ - x, r.held, if o then r.orph + x else r.orph, r.rem - p⟩ : WLp) hr
    simp only [C, setW] at *; omega
  · intro κ
    have := sumOf_set (remAt κ) s.wl w r (⟨r.total, r.k, r.locked, r.circ - x, r.held, if o then r.orph + x else r.orph, r.rem - p⟩ : WLp) hr
    simp only [R, setW]
    by_cases hk : r.k = κ
    · simp only [remAt, hk, if_true] at this ⊢; omega
    · simp only [remAt, hk, if_false] at this ⊢; omega
  · intro κ
    by_cases hk : r.k = κ
    · subst hk; simp; omega
    · simp [hk, Ne.symm hk]
  · intro g φ; rfl
  · intro v; rfl
  · intro v
    have := heldOf_set s w v r (⟨r.total, r.k, r.locked, r.circ - x, r.held, if o then r.orph + x else r.orph, r.rem - p⟩ : WLp) hr
    simp only [heldOf, setW] at *
    rw [this]
    split
    · rename_i hv; subst hv; simp [hr]
    · rfl
  · rintro ⟨hw, hf⟩
    refine ⟨?_, hf⟩
    intro r' hr'
    rcases mem_set_cases hr' with rfl | hm
    · have h0 : WOk r := hw r (List.mem_of_getElem? hr)
      unfold WOk at *
      simp only
      -- (rem - p) * total ≥ locked * (circ - x + held)
      have e1 : (r.rem - p) * r.total + p * r.total = r.rem * r.total := by
        rw [← Nat.add_mul]; congr 1; omega
      have e2 : r.locked * (r.circ - x + r.held) + r.locked * x = r.locked * (r.circ + r.held) := by
        rw [← Nat.mul_add]; congr 1; omega
      omega
    · exact hw r' hm

/-! ### takeF0 -/

theorem takeF0_spec {s s1 : St} {f x p : Nat} {r : WFarm} (h : takeF0 s f x = some (s1, r, p)) :
    s.wf[f]? = some r ∧ 0 < x ∧ x ≤ r.circ ∧ part r.pa r.fa x = some p ∧ x ≤ r.remF ∧
    p ≤ r.remP ∧ x ≤ s.hf r.farm r.fn ∧
    s1 = { setF s f { r with circ := r.circ - x, remF := r.remF - x, remP := r.remP - p } with
           hf := fun g => if g = r.farm then (fun i => if i = r.fn then s.hf r.farm i - x
                                                      else s.hf r.farm i) else s.hf g } := by
  simp only [takeF0, Option.bind_eq_bind, Option.bind_eq_some_iff, req_eq_some, sub?_eq_some,
    Bag.sub?_eq_some, Option.pure_def, Option.some.injEq, Prod.mk.injEq] at h
  obtain ⟨r0, hr, _, hx, c, ⟨hc, rfl⟩, p0, hp, rf, ⟨hrf, rfl⟩, rp, ⟨hrp, rfl⟩, hfb, ⟨hh, rfl⟩,
    rfl, rfl, rfl⟩ := h
  exact ⟨hr, hx, hc, hp, hrf, hrp, hh, rfl⟩

theorem takeF0_delta {s s1 : St} {f x p : Nat} {r : WFarm} (h : takeF0 s f x = some (s1, r, p)) :
    (∀ κ, R s1 κ + (if r.kind = .locked ∧ r.pn = κ then p else 0) = R s κ) ∧
    (∀ v, H s1 v + (if r.kind = .wlp ∧ r.pn = v then p else 0) = H s v) ∧
    (∀ g φ, F s1 g φ + (if r.farm = g ∧ r.fn = φ then x else 0) = F s g φ) ∧
    (∀ g φ, s1.hf g φ + (if r.farm = g ∧ r.fn = φ then x else 0) = s.hf g φ) ∧
    s1.wl = s.wl ∧ s1.lk = s.lk ∧ s1.lp = s.lp ∧ (Pt s → Pt s1) := by
  obtain ⟨hr, hx, hc, hp, hrf, hrp, hh, rfl⟩ := takeF0_spec h
  have hpm := part_mul_le hp
  refine ⟨?_, ?_, ?_, ?_, rfl, rfl, rfl, ?_⟩
  · intro κ
    have := sumOf_set (remPLk κ) s.wf f r
      { r with circ := r.circ - x, remF := r.remF - x, remP := r.remP - p } hr
    simp only [R, setF]
    by_cases hk : r.kind = .locked ∧ r.pn = κ
    · simp only [remPLk, hk, and_self, if_true] at this ⊢; omega
    · simp only [remPLk, hk, if_false] at this ⊢; omega
  · intro v
    have := sumOf_set (remPW v) s.wf f r
      { r with circ := r.circ - x, remF := r.remF - x, remP := r.remP - p } hr
    simp only [H, setF]
    by_cases hk : r.kind = .wlp ∧ r.pn = v
    · simp only [remPW, hk, and_self, if_true] at this ⊢; omega
    · simp only [remPW, hk, if_false] at this ⊢; omega
  · intro g φ
    have := sumOf_set (remFAt g φ) s.wf f r
      { r with circ := r.circ - x, remF := r.remF - x, remP := r.remP - p } hr
    simp only [F, setF]
    by_cases hk : r.farm = g ∧ r.fn = φ
    · simp only [remFAt, hk, and_self, if_true] at this ⊢; omega
    · simp only [remFAt, hk, if_false] at this ⊢; omega
  · intro g φ
    by_cases hg : g = r.farm
    · subst hg
      by_cases hf : φ = r.fn
      · subst hf; simp; omega
      · simp [hf, Ne.symm hf]
    · simp [hg, Ne.symm hg]
  · rintro ⟨hw, hf⟩
    refine ⟨hw, ?_⟩
    intro q hq
    rcases mem_set_cases hq with rfl | hm
    · obtain ⟨h1, h2⟩ := hf r (List.mem_of_getElem? hr)
      refine ⟨by simp only; omega, ?_⟩
      simp only
      have e1 : (r.remP - p) * r.fa + p * r.fa = r.remP * r.fa := by
        rw [← Nat.add_mul]; congr 1; omega
      have e2 : r.pa * (r.circ - x) + r.pa * x = r.pa * r.circ := by
        rw [← Nat.mul_add]; congr 1; omega
      omega
    · exact hf q hm

/-! ### settle -/

theorem settle_keep {s s' : St} {r : WFarm} {p k q : Nat}
    (h : settle s r p .keep = some (s', k, q)) : s' = s ∧ k = 0 ∧ q = 0 := by
  simp only [settle, Option.some.injEq, Prod.mk.injEq] at h
  obtain ⟨rfl, rfl, rfl⟩ := h; exact ⟨rfl, rfl, rfl⟩

/-- locked-token part leaving the proxy (modes `out` and `dissolve`) -/
theorem settle_locked {s s' : St} {r : WFarm} {p k q : Nat} {mode : Mode} (hm : mode ≠ .keep)
    (hk : r.kind = .locked) (h : settle s r p mode = some (s', k, q)) :
    p ≤ s.lk r.pn ∧ k = r.pn ∧ q = p ∧
    s' = { s with lk := fun i => if i = r.pn then s.lk i - p else s.lk i } := by
  cases mode with
  | keep => exact absurd rfl hm
  | out =>
    simp only [settle, hk, Option.bind_eq_bind, Option.bind_eq_some_iff, Bag.sub?_eq_some,
      Option.pure_def, Option.some.injEq, Prod.mk.injEq] at h
    obtain ⟨lk, ⟨hl, rfl⟩, rfl, rfl, rfl⟩ := h
    exact ⟨hl, rfl, rfl, rfl⟩
  | dissolve o =>
    simp only [settle, hk, Option.bind_eq_bind, Option.bind_eq_some_iff, Bag.sub?_eq_some,
      Option.pure_def, Option.some.injEq, Prod.mk.injEq] at h
    obtain ⟨lk, ⟨hl, rfl⟩, rfl, rfl, rfl⟩ := h
    exact ⟨hl, rfl, rfl, rfl⟩

theorem settle_wlp_out {s s' : St} {r : WFarm} {p k q : Nat} (hk : r.kind = .wlp)
    (h : settle s r p .out = some (s', k, q)) :
    ∃ rw, s.wl[r.pn]? = some rw ∧ p ≤ rw.held ∧ k = 0 ∧ q = 0 ∧
      s' = setW s r.pn { rw with held := rw.held - p, circ := rw.circ + p } := by
  simp only [settle, hk, Option.bind_eq_bind, Option.bind_eq_some_iff, sub?_eq_some,
    Option.pure_def, Option.some.injEq, Prod.mk.injEq] at h
  obtain ⟨rw, hrw, hh, ⟨hle, rfl⟩, rfl, rfl, rfl⟩ := h
  exact ⟨rw, hrw, hle, rfl, rfl, rfl⟩

theorem settle_wlp_dissolve {s s' : St} {r : WFarm} {p k q : Nat} {o : Bool} (hk : r.kind = .wlp)
    (h : settle s r p (.dissolve o) = some (s', k, q)) :
    ∃ rw, s.wl[r.pn]? = some rw ∧ p ≤ rw.held ∧ part rw.locked rw.total p = some q ∧
      q ≤ rw.rem ∧ q ≤ s.lk rw.k ∧ k = rw.k ∧
      s' = { setW s r.pn { rw with held := rw.held - p, rem := rw.rem - q,
                                    orph := if o then rw.orph + p else rw.orph } with
             lk := fun i => if i = rw.k then s.lk i - q else s.lk i } := by
  simp only [settle, hk, Option.bind_eq_bind, Option.bind_eq_some_iff, sub?_eq_some,
    Bag.sub?_eq_some, Option.pure_def, Option.some.injEq, Prod.mk.injEq] at h
  obtain ⟨rw, hrw, hh, ⟨hle, rfl⟩, q0, hq, rem, ⟨hrem, rfl⟩, lk, ⟨hlk, rfl⟩, rfl, rfl, rfl⟩ := h
  exact ⟨rw, hrw, hle, hq, hrem, hlk, rfl, rfl⟩

end Mx.ProxyDex
