/-
  token-unstake `cancelUnbond`: what the per-entry loop `cancelEntries` does to the parts of the
  state the existing loop lemmas (`cancelEntries_supply`, `cancelEntries_base`,
  `cancelEntries_inv`) do not describe exactly — the locked-token balances per nonce, the
  caller's energy record in closed form, and the untouched rest.
-/
import MxModel.Lemmas.EnergyBase

set_option linter.unusedSimpArgs false

namespace Mx.Energy

/-- locked tokens of nonce `n` held in a list of unbond entries -/
def lockedOf : List UEntry → Nat → Nat
  | [], _ => 0
  | q :: qs, n => (if q.nonce = n then q.locked else 0) + lockedOf qs n

/-- unlock epoch of a locked-token nonce, `0` for a nonce that does not exist -/
def unlockIn (nonces : List Nat) (n : Nat) : Nat := if n = 0 then 0 else (nonces[n - 1]?).getD 0

/-- the energy one cancelled entry gives back: `amt·(unlock − now)` while the token is still
    locked (`now ≤ unlock`), `−amt·(now − unlock)` once it is past its unlock epoch -/
def restoreDelta (now amt unlock : Nat) : Int :=
  if now ≤ unlock then ((amt * (unlock - now) : Nat) : Int) else - ((amt * (now - unlock) : Nat) : Int)

/-- Σ over the entries of `restoreDelta` -/
def restoreSum (now : Nat) (nonces : List Nat) : List UEntry → Int
  | [] => 0
  | q :: qs => restoreDelta now q.locked (unlockIn nonces q.nonce) + restoreSum now nonces qs

theorem unlockIn_of_unlockOf {s : St} {n u : Nat} (h : s.unlockOf n = some u) :
    unlockIn s.nonces n = u := by
  unfold St.unlockOf at h
  unfold unlockIn
  split at h
  · simp at h
  · rename_i hn; simp [hn, h]

/-- one entry: energy, total and time stamp after `Entry.restoreCancel` -/
theorem restoreCancel_fields (e : Entry) (amt unlock now : Nat) :
    (e.restoreCancel amt unlock now).E = e.E + restoreDelta now amt unlock ∧
    (e.restoreCancel amt unlock now).T = e.T + amt ∧
    (e.restoreCancel amt unlock now).last = e.last := by
  unfold Entry.restoreCancel restoreDelta
  by_cases h : now ≤ unlock
  · simp only [h, if_true, Entry.addAfterLock, Entry.add]
    by_cases h2 : unlock ≤ now
    · have : unlock - now = 0 := by omega
      simp [h2, this]
    · simp [h2]
  · rw [if_neg h, if_neg h]
    exact ⟨Int.sub_eq_add_neg, rfl, rfl⟩

/-- the loop touches neither time, nonces, stored energies, queues nor the pause flag -/
theorem cancelEntries_rest (qs : List UEntry) {s s2 : St} {c : Nat} {e e2 : Entry}
    (h : cancelEntries s c e qs = some (s2, e2)) :
    s2.epoch = s.epoch ∧ s2.nonces = s.nonces ∧ s2.energy = s.energy ∧ s2.queue = s.queue ∧
    s2.paused = s.paused ∧ s2.opts = s.opts ∧ s2.wbal = s.wbal := by
  induction qs generalizing s e with
  | nil =>
    simp only [cancelEntries, Option.some.injEq, Prod.mk.injEq] at h
    obtain ⟨rfl, _⟩ := h
    exact ⟨rfl, rfl, rfl, rfl, rfl, rfl, rfl⟩
  | cons q qs ih =>
    simp only [cancelEntries, Option.bind_eq_bind, Option.bind_eq_some_iff, sub?_eq_some] at h
    obtain ⟨u, _, s1, hdeb, b, ⟨_, rfl⟩, bs, ⟨_, rfl⟩, pen, ⟨_, rfl⟩, pp, ⟨_, rfl⟩, hrec⟩ := h
    obtain ⟨_, rfl⟩ := debit_spec hdeb
    have := ih hrec
    exact this

/-- the locked tokens: every entry's `locked` amount moves from token-unstake to the caller, nonce
    by nonce; no other account's locked tokens move -/
theorem cancelEntries_bal (qs : List UEntry) {s s2 : St} {c : Nat} {e e2 : Entry} (hc : c ≠ UNSTAKE)
    (h : cancelEntries s c e qs = some (s2, e2)) :
    (∀ n, s2.bal c n = s.bal c n + lockedOf qs n) ∧
    (∀ n, s2.bal UNSTAKE n + lockedOf qs n = s.bal UNSTAKE n) ∧
    (∀ a, a ≠ c → a ≠ UNSTAKE → s2.bal a = s.bal a) := by
  induction qs generalizing s e with
  | nil =>
    simp only [cancelEntries, Option.some.injEq, Prod.mk.injEq] at h
    obtain ⟨rfl, _⟩ := h
    simp [lockedOf]
  | cons q qs ih =>
    simp only [cancelEntries, Option.bind_eq_bind, Option.bind_eq_some_iff, sub?_eq_some] at h
    obtain ⟨u, _, s1, hdeb, b, ⟨_, rfl⟩, bs, ⟨_, rfl⟩, pen, ⟨_, rfl⟩, pp, ⟨_, rfl⟩, hrec⟩ := h
    obtain ⟨hle, rfl⟩ := debit_spec hdeb
    obtain ⟨a1, a2, a3⟩ := ih hrec
    have hU : UNSTAKE ≠ c := fun h => hc h.symm
    refine ⟨fun n => ?_, fun n => ?_, fun a hac haU => ?_⟩
    · rw [a1 n]
      simp only [St.credit, lockedOf]
      rw [upd2_same, upd2_other _ _ _ hc]
      by_cases hn : n = q.nonce
      · subst hn; rw [upd_same]; simp; omega
      · rw [upd_other _ _ hn]
        have : ¬ q.nonce = n := fun h => hn h.symm
        simp [this]
    · have := a2 n
      simp only [St.credit, lockedOf] at this ⊢
      rw [upd2_other _ _ _ hU, upd2_same] at this
      by_cases hn : n = q.nonce
      · subst hn; rw [upd_same] at this; simp; omega
      · rw [upd_other _ _ hn] at this
        have : ¬ q.nonce = n := fun h => hn h.symm
        simp [this]; omega
    · rw [a3 a hac haU]
      simp only [St.credit]
      rw [upd2_other _ _ _ hac, upd2_other _ _ _ haU]

/-- the caller's energy record after the loop, in closed form -/
theorem cancelEntries_energy (qs : List UEntry) {s s2 : St} {c : Nat} {e e2 : Entry}
    (h : cancelEntries s c e qs = some (s2, e2)) :
    e2.E = e.E + restoreSum s.epoch s.nonces qs ∧
    e2.T = e.T + (qs.map (·.locked)).sum ∧ e2.last = e.last := by
  induction qs generalizing s e with
  | nil =>
    simp only [cancelEntries, Option.some.injEq, Prod.mk.injEq] at h
    obtain ⟨_, rfl⟩ := h
    simp [restoreSum]
  | cons q qs ih =>
    simp only [cancelEntries, Option.bind_eq_bind, Option.bind_eq_some_iff, sub?_eq_some] at h
    obtain ⟨u, hu, s1, hdeb, b, ⟨_, rfl⟩, bs, ⟨_, rfl⟩, pen, ⟨_, rfl⟩, pp, ⟨_, rfl⟩, hrec⟩ := h
    obtain ⟨_, rfl⟩ := debit_spec hdeb
    obtain ⟨a1, a2, a3⟩ := ih hrec
    obtain ⟨r1, r2, r3⟩ := restoreCancel_fields e q.locked u s.epoch
    have hu' := unlockIn_of_unlockOf hu
    refine ⟨?_, ?_, ?_⟩
    · rw [a1, r1]
      show e.E + restoreDelta s.epoch q.locked u + restoreSum s.epoch s.nonces qs =
        e.E + (restoreDelta s.epoch q.locked (unlockIn s.nonces q.nonce) + restoreSum s.epoch s.nonces qs)
      rw [hu']; omega
    · rw [a2, r2]; simp only [List.map_cons, List.sum_cons]; omega
    · rw [a3, r3]

end Mx.Energy
