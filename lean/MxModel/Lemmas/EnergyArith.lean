/-
  Arithmetic of the early-exit penalty (no contract state here): linear interpolation, the
  bracket search over the lock options, admissible option sets, the reduction percentage.
-/
import MxModel.Core.Energy
import Mathlib.Tactic.Linarith
import Mathlib.Tactic.Ring

namespace Mx.Energy

/-! ### linear interpolation on one bracket -/

theorem linInterp_eq (e0 e1 r p0 p1 : Nat) (h0 : e0 ≤ r) (h1 : r ≤ e1) (hp : p0 ≤ p1) :
    linInterp e0 e1 r p0 p1 = (p0 * (e1 - e0) + (p1 - p0) * (r - e0)) / (e1 - e0) := by
  unfold linInterp
  congr 1
  obtain ⟨x, rfl⟩ := Nat.exists_eq_add_of_le h0
  obtain ⟨y, rfl⟩ := Nat.exists_eq_add_of_le h1
  obtain ⟨q, rfl⟩ := Nat.exists_eq_add_of_le hp
  have a1 : e0 + x + y - (e0 + x) = y := by omega
  have a2 : e0 + x - e0 = x := by omega
  have a3 : e0 + x + y - e0 = x + y := by omega
  have a4 : p0 + q - p0 = q := by omega
  rw [a1, a2, a3, a4]
  ring

theorem linInterp_ge (e0 e1 r p0 p1 : Nat) (he : e0 < e1) (h0 : e0 ≤ r) (h1 : r ≤ e1)
    (hp : p0 ≤ p1) : p0 ≤ linInterp e0 e1 r p0 p1 := by
  rw [linInterp_eq e0 e1 r p0 p1 h0 h1 hp]
  have hd : 0 < e1 - e0 := by omega
  rw [Nat.le_div_iff_mul_le hd]
  exact Nat.le_add_right _ _

theorem linInterp_le (e0 e1 r p0 p1 : Nat) (he : e0 < e1) (h0 : e0 ≤ r) (h1 : r ≤ e1)
    (hp : p0 ≤ p1) : linInterp e0 e1 r p0 p1 ≤ p1 := by
  rw [linInterp_eq e0 e1 r p0 p1 h0 h1 hp]
  have hd : 0 < e1 - e0 := by omega
  apply Nat.div_le_of_le_mul
  obtain ⟨q, rfl⟩ := Nat.exists_eq_add_of_le hp
  have a4 : p0 + q - p0 = q := by omega
  rw [a4]
  have : q * (r - e0) ≤ q * (e1 - e0) := Nat.mul_le_mul_left _ (by omega)
  nlinarith

/-- strictly below the upper option before the bracket's end -/
theorem linInterp_lt (e0 e1 r p0 p1 : Nat) (h0 : e0 ≤ r) (h1 : r < e1)
    (hp : p0 < p1) : linInterp e0 e1 r p0 p1 < p1 := by
  rw [linInterp_eq e0 e1 r p0 p1 h0 (by omega) (by omega)]
  have hd : 0 < e1 - e0 := by omega
  rw [Nat.div_lt_iff_lt_mul hd]
  obtain ⟨q, rfl⟩ := Nat.exists_eq_add_of_le (Nat.le_of_lt hp)
  have a4 : p0 + q - p0 = q := by omega
  rw [a4]
  have hq : 0 < q := by omega
  have : q * (r - e0) < q * (e1 - e0) := Nat.mul_lt_mul_of_pos_left (by omega) hq
  nlinarith

theorem linInterp_mono (e0 e1 r r' p0 p1 : Nat) (h0 : e0 ≤ r) (hr : r ≤ r')
    (h1 : r' ≤ e1) (hp : p0 ≤ p1) : linInterp e0 e1 r p0 p1 ≤ linInterp e0 e1 r' p0 p1 := by
  rw [linInterp_eq e0 e1 r p0 p1 h0 (by omega) hp, linInterp_eq e0 e1 r' p0 p1 (by omega) h1 hp]
  apply Nat.div_le_div_right
  have : (p1 - p0) * (r - e0) ≤ (p1 - p0) * (r' - e0) := Nat.mul_le_mul_left _ (by omega)
  omega

theorem linInterp_right (e0 e1 p0 p1 : Nat) (he : e0 < e1) : linInterp e0 e1 e1 p0 p1 = p1 := by
  unfold linInterp
  have hd : 0 < e1 - e0 := by omega
  simp only [Nat.sub_self, Nat.mul_zero, Nat.zero_add]
  exact Nat.mul_div_cancel _ hd

theorem linInterp_left (e0 e1 p0 p1 : Nat) (he : e0 < e1) : linInterp e0 e1 e0 p0 p1 = p0 := by
  unfold linInterp
  have hd : 0 < e1 - e0 := by omega
  simp only [Nat.sub_self, Nat.mul_zero, Nat.add_zero]
  exact Nat.mul_div_cancel _ hd

/-! ### option chains -/

/-- the options after `(e0, p0)` increase strictly in epochs and weakly in percentage -/
def WChain (e0 p0 : Nat) : List Opt → Prop
  | [] => True
  | (e1, p1) :: rest => e0 < e1 ∧ p0 ≤ p1 ∧ WChain e1 p1 rest

/-- … strictly in both, percentages at most 100 % -/
def SChain (e0 p0 : Nat) : List Opt → Prop
  | [] => True
  | (e1, p1) :: rest => e0 < e1 ∧ p0 < p1 ∧ p1 ≤ MAXPCT ∧ SChain e1 p1 rest

/-- what `addLockOptions` accepts and keeps: non-empty, sorted, epochs strictly increasing and at
    least a year, percentages strictly increasing and at most 100 % -/
def Admissible : List Opt → Prop
  | [] => False
  | (e1, p1) :: rest => YEAR ≤ e1 ∧ p1 ≤ MAXPCT ∧ SChain e1 p1 rest

theorem SChain.weak {e0 p0 : Nat} {l : List Opt} (h : SChain e0 p0 l) : WChain e0 p0 l := by
  induction l generalizing e0 p0 with
  | nil => trivial
  | cons o rest ih =>
    obtain ⟨e1, p1⟩ := o
    obtain ⟨a, b, _, d⟩ := h
    exact ⟨a, Nat.le_of_lt b, ih d⟩

theorem Admissible.wchain {l : List Opt} (h : Admissible l) : WChain 0 0 l := by
  cases l with
  | nil => exact h.elim
  | cons o rest =>
    obtain ⟨e1, p1⟩ := o
    obtain ⟨a, _, c⟩ := h
    have hY : YEAR = 360 := rfl
    exact ⟨by omega, Nat.zero_le _, c.weak⟩

theorem Admissible.ne_nil {l : List Opt} (h : Admissible l) : l ≠ [] := by
  cases l with
  | nil => exact h.elim
  | cons _ _ => simp

/-- percentage of the last option (`p0` when there is none) -/
def lastPct (p0 : Nat) : List Opt → Nat
  | [] => p0
  | (_, p1) :: rest => lastPct p1 rest

/-- epochs of the last option (`e0` when there is none) -/
def lastEp (e0 : Nat) : List Opt → Nat
  | [] => e0
  | (e1, _) :: rest => lastEp e1 rest

theorem lastEpochs_eq (o : Opt) (l : List Opt) : lastEpochs (o :: l) = lastEp o.1 l := by
  induction l generalizing o with
  | nil => rfl
  | cons x xs ih =>
    obtain ⟨e1, p1⟩ := x
    show lastEpochs ((e1, p1) :: xs) = lastEp e1 xs
    exact ih (e1, p1)

theorem WChain.le_lastPct {e0 p0 : Nat} {l : List Opt} (h : WChain e0 p0 l) : p0 ≤ lastPct p0 l := by
  induction l generalizing e0 p0 with
  | nil => exact Nat.le_refl _
  | cons o rest ih =>
    obtain ⟨e1, p1⟩ := o
    obtain ⟨_, b, c⟩ := h
    exact Nat.le_trans b (ih c)

theorem WChain.le_lastEp {e0 p0 : Nat} {l : List Opt} (h : WChain e0 p0 l) : e0 ≤ lastEp e0 l := by
  induction l generalizing e0 p0 with
  | nil => exact Nat.le_refl _
  | cons o rest ih =>
    obtain ⟨e1, p1⟩ := o
    obtain ⟨a, _, c⟩ := h
    exact Nat.le_trans (Nat.le_of_lt a) (ih c)

theorem SChain.lastPct_le {e0 p0 : Nat} {l : List Opt} (h : SChain e0 p0 l) (h0 : p0 ≤ MAXPCT) :
    lastPct p0 l ≤ MAXPCT := by
  induction l generalizing e0 p0 with
  | nil => exact h0
  | cons o rest ih =>
    obtain ⟨e1, p1⟩ := o
    obtain ⟨_, _, c, d⟩ := h
    exact ih d c

theorem WChain.lt_of_mem {e0 p0 : Nat} {l : List Opt} {e p : Nat} (hc : WChain e0 p0 l)
    (hm : (e, p) ∈ l) : e0 < e := by
  induction l generalizing e0 p0 with
  | nil => simp at hm
  | cons o rest ih =>
    obtain ⟨e1, p1⟩ := o
    obtain ⟨a, _, c⟩ := hc
    rcases List.mem_cons.mp hm with heq | hin
    · simp only [Prod.mk.injEq] at heq
      omega
    · exact Nat.lt_trans a (ih c hin)

/-! ### the bracket search -/

theorem pctFrom_cons (e0 p0 e1 p1 : Nat) (rest : List Opt) (rem : Nat) :
    pctFrom e0 p0 ((e1, p1) :: rest) rem =
      if rem ≤ e1 then some (linInterp e0 e1 rem p0 p1) else pctFrom e1 p1 rest rem := rfl

/-- defined up to the longest option … -/
theorem pctFrom_some_of_le {e0 p0 : Nat} {l : List Opt} {rem : Nat} (hl : l ≠ [])
    (h : rem ≤ lastEp e0 l) : ∃ p, pctFrom e0 p0 l rem = some p := by
  induction l generalizing e0 p0 with
  | nil => exact (hl rfl).elim
  | cons o rest ih =>
    obtain ⟨e1, p1⟩ := o
    rw [pctFrom_cons]
    split
    · exact ⟨_, rfl⟩
    · rename_i hgt
      cases rest with
      | nil => simp only [lastEp] at h; omega
      | cons o2 r2 => exact ih (by simp) h

/-- … and not beyond -/
theorem pctFrom_le_of_some {e0 p0 : Nat} {l : List Opt} {rem p : Nat} (hc : WChain e0 p0 l)
    (h : pctFrom e0 p0 l rem = some p) : rem ≤ lastEp e0 l := by
  induction l generalizing e0 p0 with
  | nil => simp [pctFrom] at h
  | cons o rest ih =>
    obtain ⟨e1, p1⟩ := o
    obtain ⟨_, _, c⟩ := hc
    rw [pctFrom_cons] at h
    split at h
    · rename_i hle
      exact Nat.le_trans hle c.le_lastEp
    · exact ih c h

/-- the percentage lies between the option below and the largest option -/
theorem pctFrom_bounds {e0 p0 : Nat} {l : List Opt} {rem p : Nat} (hc : WChain e0 p0 l)
    (h0 : e0 ≤ rem) (h : pctFrom e0 p0 l rem = some p) : p0 ≤ p ∧ p ≤ lastPct p0 l := by
  induction l generalizing e0 p0 with
  | nil => simp [pctFrom] at h
  | cons o rest ih =>
    obtain ⟨e1, p1⟩ := o
    obtain ⟨a, b, c⟩ := hc
    rw [pctFrom_cons] at h
    split at h
    · rename_i hle
      simp only [Option.some.injEq] at h
      subst h
      exact ⟨linInterp_ge e0 e1 rem p0 p1 a h0 hle b,
        Nat.le_trans (linInterp_le e0 e1 rem p0 p1 a h0 hle b) c.le_lastPct⟩
    · rename_i hgt
      have := ih c (by omega) h
      exact ⟨Nat.le_trans b this.1, this.2⟩

/-- strictly below the largest percentage before the longest option (strict chains) -/
theorem pctFrom_lt {e0 p0 : Nat} {l : List Opt} {rem p : Nat} (hc : SChain e0 p0 l)
    (h0 : e0 ≤ rem) (hlt : rem < lastEp e0 l) (h : pctFrom e0 p0 l rem = some p) :
    p < lastPct p0 l := by
  induction l generalizing e0 p0 with
  | nil => simp [pctFrom] at h
  | cons o rest ih =>
    obtain ⟨e1, p1⟩ := o
    obtain ⟨a, b, _, d⟩ := hc
    rw [pctFrom_cons] at h
    split at h
    · rename_i hle
      simp only [Option.some.injEq] at h
      subst h
      rcases Nat.lt_or_ge rem e1 with hr | hr
      · exact Nat.lt_of_lt_of_le (linInterp_lt e0 e1 rem p0 p1 h0 hr b) d.weak.le_lastPct
      · have : rem = e1 := by omega
        subst this
        rw [linInterp_right e0 rem p0 p1 a]
        cases rest with
        | nil => simp only [lastEp] at hlt; omega
        | cons o2 r2 =>
          obtain ⟨e2, p2⟩ := o2
          obtain ⟨_, b2, _, d2⟩ := d
          exact Nat.lt_of_lt_of_le b2 d2.weak.le_lastPct
    · rename_i hgt
      exact ih d (by omega) hlt h

/-- monotone in the remaining time -/
theorem pctFrom_mono {e0 p0 : Nat} {l : List Opt} {r r' p p' : Nat} (hc : WChain e0 p0 l)
    (h0 : e0 ≤ r) (hr : r ≤ r') (h : pctFrom e0 p0 l r = some p)
    (h' : pctFrom e0 p0 l r' = some p') : p ≤ p' := by
  induction l generalizing e0 p0 with
  | nil => simp [pctFrom] at h
  | cons o rest ih =>
    obtain ⟨e1, p1⟩ := o
    obtain ⟨a, b, c⟩ := hc
    rw [pctFrom_cons] at h h'
    split at h
    · rename_i hle
      simp only [Option.some.injEq] at h
      subst h
      split at h'
      · rename_i hle'
        simp only [Option.some.injEq] at h'
        subst h'
        exact linInterp_mono e0 e1 r r' p0 p1 h0 hr hle' b
      · rename_i hgt'
        have := (pctFrom_bounds c (by omega) h').1
        exact Nat.le_trans (linInterp_le e0 e1 r p0 p1 a h0 hle b) this
    · rename_i hgt
      split at h'
      · omega
      · exact ih c (by omega) h h'

/-- at a configured option the percentage is that option's -/
theorem pctFrom_at {e0 p0 : Nat} {l : List Opt} {e p : Nat} (hc : WChain e0 p0 l)
    (hm : (e, p) ∈ l) : pctFrom e0 p0 l e = some p := by
  induction l generalizing e0 p0 with
  | nil => simp at hm
  | cons o rest ih =>
    obtain ⟨e1, p1⟩ := o
    obtain ⟨a, b, c⟩ := hc
    rw [pctFrom_cons]
    rcases List.mem_cons.mp hm with heq | hin
    · simp only [Prod.mk.injEq] at heq
      obtain ⟨rfl, rfl⟩ := heq
      simp [linInterp_right e0 e p0 p a]
    · have hlt : e1 < e := c.lt_of_mem hin
      have : ¬ e ≤ e1 := by omega
      simp only [this, if_false]
      exact ih c hin

/-- the documented formula on the bracketing options: with `(ea, pa)`, `(eb, pb)` consecutive
    (possibly `(ea, pa) = (e0, p0)`, the implicit option before the list) and `ea < rem ≤ eb` -/
theorem pctFrom_bracket {e0 p0 : Nat} {pre post : List Opt} {ea pa eb pb rem : Nat}
    (hc : WChain e0 p0 (pre ++ (ea, pa) :: (eb, pb) :: post)) (h1 : ea < rem) (_h2 : rem ≤ eb) :
    pctFrom e0 p0 (pre ++ (ea, pa) :: (eb, pb) :: post) rem = some (linInterp ea eb rem pa pb) := by
  induction pre generalizing e0 p0 with
  | nil =>
    obtain ⟨_, _, _, _, _⟩ := hc
    simp only [List.nil_append, pctFrom_cons]
    have : ¬ rem ≤ ea := by omega
    simp [this, _h2]
  | cons o rest ih =>
    obtain ⟨e1, p1⟩ := o
    obtain ⟨_, _, c⟩ := hc
    simp only [List.cons_append, pctFrom_cons]
    have hle : e1 < ea := c.lt_of_mem (p := pa) (by simp)
    have : ¬ rem ≤ e1 := by omega
    simp only [this, if_false]
    exact ih c

/-! ### full / partial percentage, penalty amount -/

theorem pctFull_le_max {opts : List Opt} {rem p : Nat} (ha : Admissible opts)
    (h : pctFull opts rem = some p) : p ≤ lastPct 0 opts ∧ lastPct 0 opts ≤ MAXPCT := by
  refine ⟨(pctFrom_bounds ha.wchain (Nat.zero_le _) h).2, ?_⟩
  cases opts with
  | nil => exact ha.elim
  | cons o rest =>
    obtain ⟨e1, p1⟩ := o
    obtain ⟨_, b, c⟩ := ha
    exact c.lastPct_le b

theorem pctFull_mono {opts : List Opt} {r r' p p' : Nat} (ha : Admissible opts) (hr : r ≤ r')
    (h : pctFull opts r = some p) (h' : pctFull opts r' = some p') : p ≤ p' :=
  pctFrom_mono ha.wchain (Nat.zero_le _) hr h h'

/-- a remaining time strictly below another admissible remaining time has a percentage below 100 % -/
theorem pctFull_lt_max {opts : List Opt} {r r' p p' : Nat} (ha : Admissible opts) (hr : r < r')
    (h : pctFull opts r = some p) (h' : pctFull opts r' = some p') : p < MAXPCT := by
  cases opts with
  | nil => exact ha.elim
  | cons o rest =>
    obtain ⟨e1, p1⟩ := o
    have hw := ha.wchain
    obtain ⟨hy, b, c⟩ := ha
    have hY : YEAR = 360 := rfl
    have hr' : r' ≤ lastEp 0 ((e1, p1) :: rest) := pctFrom_le_of_some hw h'
    simp only [lastEp] at hr'
    unfold pctFull at h
    rw [pctFrom_cons] at h
    split at h
    · rename_i hle
      simp only [Option.some.injEq] at h
      subst h
      rcases Nat.lt_or_ge r e1 with h1 | h1
      · rcases Nat.eq_zero_or_pos p1 with hz | hz
        · subst hz
          have := linInterp_le 0 e1 r 0 0 (by omega) (Nat.zero_le _) hle (Nat.le_refl _)
          have hM : MAXPCT = 10000 := rfl
          omega
        · exact Nat.lt_of_lt_of_le (linInterp_lt 0 e1 r 0 p1 (Nat.zero_le _) h1 hz) b
      · have : r = e1 := by omega
        subst this
        rw [linInterp_right 0 r 0 p1 (by omega)]
        -- there is a longer option, so p1 is not the largest
        cases rest with
        | nil => simp only [lastEp] at hr'; omega
        | cons o2 r2 =>
          obtain ⟨e2, p2⟩ := o2
          obtain ⟨_, b2, b3, _⟩ := c
          omega
    · rename_i hgt
      have := pctFrom_lt c (by omega) (by omega) h
      exact Nat.lt_of_lt_of_le this (c.lastPct_le b)

/-- for admissible options the reduction percentage never divides by zero and never underflows:
    it is defined whenever both full percentages are -/
theorem pctPartial_defined {opts : List Opt} {prev new pp pn : Nat} (ha : Admissible opts)
    (hn : new < prev) (h1 : pctFull opts prev = some pp) (h2 : pctFull opts new = some pn) :
    pn ≤ pp ∧ pn < MAXPCT ∧
    pctPartial opts prev new = some ((pp - pn) * MAXPCT / (MAXPCT - pn)) := by
  have hle := pctFull_mono ha (Nat.le_of_lt hn) h2 h1
  have hlt := pctFull_lt_max ha hn h2 h1
  refine ⟨hle, hlt, ?_⟩
  simp only [pctPartial, h1, h2, Option.bind_eq_bind, Option.bind_some]
  have e1 : sub? pp pn = some (pp - pn) := by simp [sub?, hle]
  have e2 : sub? MAXPCT pn = some (MAXPCT - pn) := by simp [sub?, Nat.le_of_lt hlt]
  have e3 : req (MAXPCT - pn ≠ 0) = some () := by
    rw [req_eq_some]; omega
  simp [e1, e2, e3]

/-- the reduction percentage is at most the full percentage of the old remaining time -/
theorem pctPartial_le {pp pn : Nat} (h1 : pn ≤ pp) (h2 : pp ≤ MAXPCT) (h3 : pn < MAXPCT) :
    (pp - pn) * MAXPCT / (MAXPCT - pn) ≤ MAXPCT := by
  apply Nat.div_le_of_le_mul
  have : pp - pn ≤ MAXPCT - pn := by omega
  calc (pp - pn) * MAXPCT ≤ (MAXPCT - pn) * MAXPCT := Nat.mul_le_mul_right _ this

end Mx.Energy
