/-
  Arithmetic of the early-exit penalty (no contract state here): linear interpolation, the
  bracket search over the lock options, admissible option sets, the reduction percentage.
-/
import MxModel.Core.Energy
import Mathlib.Tactic.Linarith
import Mathlib.Tactic.Ring

namespace Mx.Energy

/-! ### linear interpolation on one bracket -/

theorem linInterp_eq (e0 e1 r p0 p1 : Nat) (h0 : e0 ≤ r) (h1 : r ≤ e1) (hp : p0 ≤ p1) :
    linInterp e0 e1 r p0 p1 = (p0 * (e1 - e0) + (p1 - p0) * (r - e0)) / (e1 - e0) := by
  unfold linInterp
  congr 1
  obtain ⟨x, rfl⟩ := Nat.exists_eq_add_of_le h0
  obtain ⟨y, rfl⟩ := Nat.exists_eq_add_of_le h1
  obtain ⟨q, rfl⟩ := Nat.exists_eq_add_of_le hp
  have a1 : e0 + x + y - (e0 + x) = y := by omega
  have a2 : e0 + x - e0 = x := by omega
  have a3 : e0 + x + y - e0 = x + y := by omega
  have a4 : p0 + q - p0 = q := by omega
  rw [a1, a2, a3, a4]
  ring

theorem linInterp_ge (e0 e1 r p0 p1 : Nat) (he : e0 < e1) (h0 : e0 ≤ r) (h1 : r ≤ e1)
    (hp : p0 ≤ p1) : p0 ≤ linInterp e0 e1 r p0 p1 := by
  rw [linInterp_eq e0 e1 r p0 p1 h0 h1 hp]
  have hd : 0 < e1 - e0 := by omega
  rw [Nat.le_div_iff_mul_le hd]
  exact Nat.le_add_right _ _

theorem linInterp_le (e0 e1 r p0 p1 : Nat) (he : e0 < e1) (h0 : e0 ≤ r) (h1 : r ≤ e1)
    (hp : p0 ≤ p1) : linInterp e0 e1 r p0 p1 ≤ p1 := by
  rw [linInterp_eq e0 e1 r p0 p1 h0 h1 hp]
  have hd : 0 < e1 - e0 := by omega
  apply Nat.div_le_of_le_mul
  obtain ⟨q, rfl⟩ := Nat.exists_eq_add_of_le hp
  have a4 : p0 + q - p0 = q := by omega
  rw [a4]
  have : q * (r - e0) ≤ q * (e1 - e0) := Nat.mul_le_mul_left _ (by omega)
  nlinarith

/-- strictly below the upper option before the bracket's end -/
theorem linInterp_lt (e0 e1 r p0 p1 : Nat) (h0 : e0 ≤ r) (h1 : r < e1)
    (hp : p0 < p1) : linInterp e0 e1 r p0 p1 < p1 := by
  rw [linInterp_eq e0 e1 r p0 p1 h0 (by omega) (by omega)]
  have hd : 0 < e1 - e0 := by omega
  rw [Nat.div_lt_iff_lt_mul hd]
  obtain ⟨q, rfl⟩ := Nat.exists_eq_add_of_le (Nat.le_of_lt hp)
  have a4 : p0 + q - p0 = q := by omega
  rw [a4]
  have hq : 0 < q := by omega
  have : q * (r - e0) < q * (e1 - e0) := Nat.mul_lt_mul_of_pos_left (by omega) hq
  nlinarith

theorem linInterp_mono (e0 e1 r r' p0 p1 : Nat) (h0 : e0 ≤ r) (hr : r ≤ r')
    (h1 : r' ≤ e1) (hp : p0 ≤ p1) : linInterp e0 e1 r p0 p1 ≤ linInterp e0 e1 r' p0 p1 := by
  rw [linInterp_eq e0 e1 r p0 p1 h0 (by omega) hp, linInterp_eq e0 e1 r' p0 p1 (by omega) h1 hp]
  apply Nat.div_le_div_right
  have : (p1 - p0) * (r - e0) ≤ (p1 - p0) * (r' - e0) := Nat.mul_le_mul_left _ (by omega)
  omega

theorem linInterp_right (e0 e1 p0 p1 : Nat) (he : e0 < e1) : linInterp e0 e1 e1 p0 p1 = p1 := by
  unfold linInterp
  have hd : 0 < e1 - e0 := by omega
  simp only [Nat.sub_self, Nat.mul_zero, Nat.zero_add]
  exact Nat.mul_div_cancel _ hd

theorem linInterp_left (e0 e1 p0 p1 : Nat) (he : e0 < e1) : linInterp e0 e1 e0 p0 p1 = p0 := by
  unfold linInterp
  have hd : 0 < e1 - e0 := by omega
  simp only [Nat.sub_self, Nat.mul_zero, Nat.add_zero]
  exact Nat.mul_div_cancel _ hd

/-! ### option chains -/

/-- the options after `(e0, p0)` increase strictly in epochs and weakly in percentage -/
def WChain (e0 p0 : Nat) : List Opt → Prop
  | [] => True
  | (e1, p1) :: rest => e0 < e1 ∧ p0 ≤ p1 ∧ WChain e1 p1 rest

/-- … strictly in both, percentages at most 100 % -/
def SChain (e0 p0 : Nat) : List Opt → Prop
  | [] => True
  | (e1, p1) :: rest => e0 < e1 ∧ p0 < p1 ∧ p1 ≤ MAXPCT ∧ SChain e1 p1 rest

/-- what `addLockOptions` accepts and keeps: non-empty, sorted, epochs strictly increasing and at
    least a year, percentages strictly increasing and at most 100 % -/
def Admissible : List Opt → Prop
  | [] => False
  | (e1, p1) :: rest => YEAR ≤ e1 ∧ p1 ≤ MAXPCT ∧ SChain e1 p1 rest

theorem SChain.weak {e0 p0 : Nat} {l : List Opt} (h : SChain e0 p0 l) : WChain e0 p0 l := by
  induction l generalizing e0 p0 with
  | nil => trivial
  | cons o rest ih =>
    obtain ⟨e1, p1⟩ := o
    obtain ⟨a, b, _, d⟩ := h
    exact ⟨a, Nat.le_of_lt b, ih d⟩

theorem Admissible.wchain {l : List Opt} (h : Admissible l) : WChain 0 0 l := by
  cases l with
  | nil => exact h.elim
  | cons o rest =>
    obtain ⟨e1, p1⟩ := o
    obtain ⟨a, _, c⟩ := h
    have hY : YEAR = 360 := rfl
    exact ⟨by omega, Nat.zero_le _, c.weak⟩

theorem Admissible.ne_nil {l : List Opt} (h : Admissible l) : l ≠ [] := by
  cases l with
  | nil => exact h.elim
  | cons _ _ => simp

/-- percentage of the last option (`p0` when there is none) -/
def lastPct (p0 : Nat) : List Opt → Nat
  | [] => p0
  | (_, p1) :: rest => lastPct p1 rest

/-- epochs of the last option (`e0` when there is none) -/
def lastEp (e0 : Nat) : List Opt → Nat
  | [] => e0
  | (e1, _) :: rest => lastEp e1 rest

theorem lastEpochs_eq (o : Opt) (l : List Opt) : lastEpochs (o :: l) = lastEp o.1 l := by
  induction l generalizing o with
  | nil => rfl
  | cons x xs ih =>
    obtain ⟨e1, p1⟩ := x
    show lastEpochs ((e1, p1) :: xs) = lastEp e1 xs
    exact ih (e1, p1)

theorem WChain.le_lastPct {e0 p0 : Nat} {l : List Opt} (h : WChain e0 p0 l) : p0 ≤ lastPct p0 l := by
  induction l generalizing e0 p0 with
  | nil => exact Nat.le_refl _
  | cons o rest ih =>
    obtain ⟨e1, p1⟩ := o
    obtain ⟨_, b, c⟩ := h
    exact Nat.le_trans b (ih c)

theorem WChain.le_lastEp {e0 p0 : Nat} {l : List Opt} (h : WChain e0 p0 l) : e0 ≤ lastEp e0 l := by
  induction l generalizing e0 p0 with
  | nil => exact Nat.le_refl _
  | cons o rest ih =>
    obtain ⟨e1, p1⟩ := o
    obtain ⟨a, _, c⟩ := h
    exact Nat.le_trans (Nat.le_of_lt a) (ih c)

theorem SChain.lastPct_le {e0 p0 : Nat} {l : List Opt} (h : SChain e0 p0 l) (h0 : p0 ≤ MAXPCT) :
    lastPct p0 l ≤ MAXPCT := by
  induction l generalizing e0 p0 with
  | nil => exact h0
  | cons o rest ih =>
    obtain ⟨e1, p1⟩ := o
    obtain ⟨_, _, c, d⟩ := h
    exact ih d c

/-! ### the bracket search -/

/-- defined exactly up to the longest option -/
theorem pctFrom_isSome {e0 p0 : Nat} {l : List Opt} (rem : Nat) :
    (pctFrom e0 p0 l rem).isSome ↔ l ≠ [] ∧ rem ≤ lastEp e0 l ∨ False := by
  induction l generalizing e0 p0 with
  | nil => simp [pctFrom]
  | cons o rest ih =>
    obtain ⟨e1, p1⟩ := o
    unfold pctFrom
    split
    · rename_i hle
      simp only [Option.isSome_some, ne_eq, reduceCtorEq, not_false_eq_true, true_and, or_false,
        true_iff, lastEp]
      sorry
    · sorry

end Mx.Energy
