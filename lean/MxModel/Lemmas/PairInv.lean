/-
  The pair invariant and its preservation by every operation.
-/
import MxModel.Lemmas.PairSpec

namespace Mx.Pair

/-- C01's invariant: reported reserves are backed by real balances, the reported LP supply
    is the circulating LP, and once liquidity exists both reserves stay positive and the
    pair itself holds the 1000 locked LP units. -/
structure Inv (s : St) : Prop where
  back1 : s.r1 ≤ s.bal1
  back2 : s.r2 ≤ s.bal2
  supply : s.S = s.lpCirc
  pos : 0 < s.S → 0 < s.r1 ∧ 0 < s.r2 ∧ MINLIQ ≤ s.S
  ownPos : 0 < s.S → s.lpOwn = MINLIQ
  ownZero : s.S = 0 → s.lpOwn = 0

theorem inv_init (t sp : Nat) (ad : Option Nat) (cap : Nat) : Inv (init t sp ad cap) := by
  constructor <;> simp [init]

/-- shared by both swap endpoints -/
theorem swap_inv {s s3 s' : St} {d : Dir} {charged fee out spent : Nat} (hi : Inv s)
    (hfee : fee ≤ charged) (hout : out < s.rout d) (hsp : spent ≤ fee)
    (hrel : FeeRel d (swapMid s d charged fee out) s3 spent)
    (hbal : out ≤ s3.balOut d)
    (hs' : s' = s3.setBal d (s3.balIn d) (s3.balOut d - out)) : Inv s' := by
  obtain ⟨b1, b2, sup, pos, own, own0⟩ := hi
  have hM : MINLIQ = 1000 := rfl
  obtain ⟨i1, o1, m1, a1, p1, _, _, _, sc⟩ := hrel
  simp only [SameCfg] at sc
  obtain ⟨c1, c2, c3, _⟩ := sc
  subst hs'
  cases d <;>
    simp only [swapMid, St.touch, St.setR, St.setBal, St.rin, St.rout, St.balIn, St.balOut] at * <;>
    (constructor <;> simp only [] <;> try omega) <;>
    (intro h; first | (have := pos (by omega); have := own (by omega); omega) | (have := own0 (by omega); omega))

theorem swapIn_inv {s s' : St} {d : Dir} {a m : Nat} {o : Out} (hi : Inv s)
    (h : swapIn s d a m = some (s', o)) : Inv s' := by
  obtain ⟨s3, spent, _, _, _, _, _, _, h7, _, h9, _, h11, h12, h13, h14⟩ := swapIn_spec h
  exact swap_inv hi h9 h7 h11 h12 h13 h14

theorem swapOut_inv {s s' : St} {d : Dir} {mx out : Nat} {o : Out} (hi : Inv s)
    (h : swapOut s d mx out = some (s', o)) : Inv s' := by
  obtain ⟨s3, spent, _, _, _, h4, _, _, _, _, h9, _, h11, h12, h13, h14⟩ := swapOut_spec h
  exact swap_inv hi h9 h4 h11 h12 h13 h14

theorem addInitial_inv {s s' : St} {c a1 a2 : Nat} {o : Out} (hi : Inv s)
    (h : addInitial s c a1 a2 = some (s', o)) : Inv s' := by
  obtain ⟨_, h1, h2, _, h4, h5, _, rfl⟩ := addInitial_spec h
  obtain ⟨b1, b2, sup, pos, own, own0⟩ := hi
  have hM : MINLIQ = 1000 := rfl
  have := own0 h4
  constructor <;> simp only [] <;> try omega
  all_goals (intro _; omega)

theorem addLiq_inv {s s' : St} {a1 a2 m1 m2 : Nat} {o : Out} (hi : Inv s)
    (h : addLiq s a1 a2 m1 m2 = some (s', o)) : Inv s' := by
  obtain ⟨b1, b2, sup, pos, own, own0⟩ := hi
  have hM : MINLIQ = 1000 := rfl
  by_cases hS : s.S = 0
  · obtain ⟨h1, h2, _, _, h5, _, rfl⟩ := addLiq_first_spec hS h
    have := own0 hS
    simp only [St.touch] at *
    constructor <;> simp only [] <;> try omega
    all_goals (intro _; omega)
  · obtain ⟨o1, o2, _, _, _, _, _, _, _, _, _, h10, _, rfl⟩ := addLiq_spec hS h
    have := pos (by omega)
    have := own (by omega)
    simp only [St.touch] at *
    constructor <;> simp only [] <;> try omega
    all_goals (intro _; omega)

theorem removeLiq_inv {s s' : St} {lp m1 m2 : Nat} {o : Out} (hi : Inv s)
    (h : removeLiq s lp m1 m2 = some (s', o)) : Inv s' := by
  obtain ⟨b1, b2, sup, pos, own, own0⟩ := hi
  have hM : MINLIQ = 1000 := rfl
  obtain ⟨_, _, _, h4, h5, _, h7, _, h9, h10, _, h12, h13, h14, h15, rfl⟩ := removeLiq_spec h
  have := pos (by omega)
  have := own (by omega)
  simp only [St.touch] at *
  constructor <;> simp only [] <;> try omega
  all_goals (intro _; omega)

theorem swapNoFee_inv {s s' : St} {c : Nat} {d : Dir} {a : Nat} {o : Out} (hi : Inv s)
    (h : swapNoFee s c d a = some (s', o)) : Inv s' := by
  obtain ⟨b1, b2, sup, pos, own, own0⟩ := hi
  have hM : MINLIQ = 1000 := rfl
  obtain ⟨_, h2, _, h4, _, h6, h7, h8, rfl⟩ := swapNoFee_spec h
  cases d <;>
    simp only [St.touch, St.setR, St.setBal, St.addBurnOut, St.addBurnIn, Dir.flip, St.rin,
      St.rout, St.balIn, St.balOut] at * <;>
    (constructor <;> simp only [] <;> try omega) <;>
    (intro h; first | (have := pos (by omega); have := own (by omega); omega) | (have := own0 (by omega); omega))

/-- anything related to an `Inv` state by fee routing on top of a reserve decrease keeps `Inv` -/
theorem buyback_inv {s s' : St} {c lp : Nat} {w : Want} {o : Out} (hi : Inv s)
    (h : buyback s c lp w = some (s', o)) : Inv s' := by
  obtain ⟨b1, b2, sup, pos, own, own0⟩ := hi
  have hM : MINLIQ = 1000 := rfl
  obtain ⟨s2, _, h2, h3, _, h5, h6, h7, h8, h9, r1, r2⟩ := buyback_spec h
  have := pos (by omega)
  have := own (by omega)
  obtain ⟨i1, o1, m1, a1, p1, _, _, _, sc1⟩ := r1
  obtain ⟨i2, o2, m2, a2, p2, _, _, _, sc2⟩ := r2
  simp only [SameCfg] at sc1 sc2
  obtain ⟨c1, c2, c3, _⟩ := sc1
  obtain ⟨d1, d2, d3, _⟩ := sc2
  simp only [St.touch, St.rin, St.rout, St.balIn, St.balOut] at *
  have q1 := p1 (by omega)
  have q2 := p2 (by omega)
  constructor <;> try omega
  all_goals (intro _; omega)

theorem cfg_inv {s s' : St} {o : CfgOp} (hi : Inv s) (h : cfg s o = some s') : Inv s' := by
  obtain ⟨b1, b2, sup, pos, own, own0⟩ := hi
  have hM : MINLIQ = 1000 := rfl
  cases o <;>
    simp only [cfg, Option.bind_eq_bind, Option.bind_eq_some_iff, req_eq_some, Option.pure_def,
      Option.some.injEq] at h
  case setFee => obtain ⟨_, _, rfl⟩ := h; exact ⟨b1, b2, sup, pos, own, own0⟩
  case addDest => subst h; exact ⟨b1, b2, sup, pos, own, own0⟩
  case removeDest => obtain ⟨_, _, rfl⟩ := h; exact ⟨b1, b2, sup, pos, own, own0⟩
  case setCollector => obtain ⟨_, _, rfl⟩ := h; exact ⟨b1, b2, sup, pos, own, own0⟩
  case setState => subst h; exact ⟨b1, b2, sup, pos, own, own0⟩
  case whitelist => obtain ⟨_, _, rfl⟩ := h; exact ⟨b1, b2, sup, pos, own, own0⟩
  case removeWhitelist => obtain ⟨_, _, rfl⟩ := h; exact ⟨b1, b2, sup, pos, own, own0⟩
  case setTrusted f x =>
    cases f <;> simp only [cfg, Option.pure_def, Option.some.injEq] at h <;> subst h <;>
      exact ⟨b1, b2, sup, pos, own, own0⟩

theorem step_inv {s s' : St} {op : Op} {o : Out} (hi : Inv s) (h : step s op = some (s', o)) :
    Inv s' := by
  cases op <;> simp only [step] at h
  case addInitial => exact addInitial_inv hi h
  case addLiq => exact addLiq_inv hi h
  case removeLiq => exact removeLiq_inv hi h
  case swapIn => exact swapIn_inv hi h
  case swapOut => exact swapOut_inv hi h
  case swapNoFee => exact swapNoFee_inv hi h
  case buyback => exact buyback_inv hi h
  case cfg =>
    simp only [Option.map_eq_some_iff, Prod.mk.injEq] at h
    obtain ⟨s1, h1, rfl, _⟩ := h
    exact cfg_inv hi h1
  case advance =>
    split at h
    · simp only [Option.some.injEq, Prod.mk.injEq] at h
      obtain ⟨rfl, _⟩ := h
      obtain ⟨b1, b2, sup, pos, own, own0⟩ := hi
      exact ⟨b1, b2, sup, pos, own, own0⟩
    · simp at h
  case lock =>
    simp only [Option.map_eq_some_iff, Prod.mk.injEq] at h
    obtain ⟨s1, h1, rfl, _⟩ := h
    obtain ⟨_, dl, ul, sc, rfl⟩ := lockCfg_spec h1
    obtain ⟨b1, b2, sup, pos, own, own0⟩ := hi
    exact ⟨b1, b2, sup, pos, own, own0⟩
  case epoch =>
    split at h
    · simp only [Option.some.injEq, Prod.mk.injEq] at h
      obtain ⟨rfl, _⟩ := h
      obtain ⟨b1, b2, sup, pos, own, own0⟩ := hi
      exact ⟨b1, b2, sup, pos, own, own0⟩
    · simp at h

theorem run_inv (ops : List Op) {s : St} (hi : Inv s) : Inv (run s ops) := by
  induction ops generalizing s with
  | nil => simpa [run] using hi
  | cons op ops ih =>
    simp only [run, List.foldl_cons]
    cases hst : step s op with
    | none => exact ih hi
    | some r =>
      obtain ⟨s1, o⟩ := r
      exact ih (step_inv hi hst)

end Mx.Pair

namespace Mx.Pair

/-- once liquidity exists the LP supply never returns to zero -/
theorem step_S_pos {s s' : St} {op : Op} {o : Out} (hi : Inv s) (hS : 0 < s.S)
    (h : step s op = some (s', o)) : 0 < s'.S := by
  have hM : MINLIQ = 1000 := rfl
  cases op <;> simp only [step] at h
  case addInitial =>
    obtain ⟨_, _, _, _, h4, _⟩ := addInitial_spec h
    omega
  case addLiq =>
    obtain ⟨o1, o2, _, _, _, _, _, _, _, _, _, _, _, rfl⟩ := addLiq_spec (by omega) h
    simp only []; omega
  case removeLiq =>
    obtain ⟨_, _, _, _, h5, _, _, _, _, _, _, _, _, _, _, rfl⟩ := removeLiq_spec h
    simp only []; omega
  case swapIn d a m =>
    obtain ⟨s3, spent, _, _, _, _, _, _, _, _, _, _, _, h12, _, rfl⟩ := swapIn_spec h
    have := h12.same.1
    cases d <;> simp only [St.setBal, swapMid, St.touch, St.setR] at * <;> omega
  case swapOut d mx out =>
    obtain ⟨s3, spent, _, _, _, _, _, _, _, _, _, _, _, h12, _, rfl⟩ := swapOut_spec h
    have := h12.same.1
    cases d <;> simp only [St.setBal, swapMid, St.touch, St.setR] at * <;> omega
  case swapNoFee c d a =>
    obtain ⟨_, _, _, _, _, _, _, _, rfl⟩ := swapNoFee_spec h
    cases d <;> simpa [St.touch, St.setR, St.setBal, St.addBurnOut, St.addBurnIn, Dir.flip] using hS
  case buyback =>
    obtain ⟨s2, _, _, h3, _, _, _, _, _, _, r1, r2⟩ := buyback_spec h
    have e1 := r1.same.1
    have e2 := r2.same.1
    simp only [] at e1
    omega
  case cfg op =>
    simp only [Option.map_eq_some_iff, Prod.mk.injEq] at h
    obtain ⟨s1, h1, rfl, _⟩ := h
    cases op <;>
      simp only [cfg, Option.bind_eq_bind, Option.bind_eq_some_iff, req_eq_some,
        Option.pure_def, Option.some.injEq] at h1
    case setFee => obtain ⟨_, _, rfl⟩ := h1; exact hS
    case addDest => subst h1; exact hS
    case removeDest => obtain ⟨_, _, rfl⟩ := h1; exact hS
    case setCollector => obtain ⟨_, _, rfl⟩ := h1; exact hS
    case setState => subst h1; exact hS
    case whitelist => obtain ⟨_, _, rfl⟩ := h1; exact hS
    case removeWhitelist => obtain ⟨_, _, rfl⟩ := h1; exact hS
    case setTrusted f x =>
      cases f <;> simp only [cfg, Option.pure_def, Option.some.injEq] at h1 <;> subst h1 <;>
        exact hS
  case advance =>
    split at h
    · simp only [Option.some.injEq, Prod.mk.injEq] at h
      obtain ⟨rfl, _⟩ := h
      exact hS
    · simp at h
  case lock =>
    simp only [Option.map_eq_some_iff, Prod.mk.injEq] at h
    obtain ⟨s1, h1, rfl, _⟩ := h
    obtain ⟨_, dl, ul, sc, rfl⟩ := lockCfg_spec h1
    exact hS
  case epoch =>
    split at h
    · simp only [Option.some.injEq, Prod.mk.injEq] at h
      obtain ⟨rfl, _⟩ := h
      exact hS
    · simp at h

theorem run_S_pos (ops : List Op) {s : St} (hi : Inv s) (hS : 0 < s.S) : 0 < (run s ops).S := by
  induction ops generalizing s with
  | nil => simpa [run] using hS
  | cons op ops ih =>
    simp only [run, List.foldl_cons]
    cases hst : step s op with
    | none => exact ih hi hS
    | some r =>
      obtain ⟨s1, o⟩ := r
      exact ih (step_inv hi hst) (step_S_pos hi hS hst)

theorem run_append (s : St) (a b : List Op) : run s (a ++ b) = run (run s a) b := by
  simp [run, List.foldl_append]

end Mx.Pair
