/-
  "No internal counter goes negative" (C05 `no_underflow`), the part that follows from the position
  invariant: whoever holds part of a position can take it out of the supply and out of the recorded
  owner's total — the checked / saturating subtractions of `exitFarm` and
  `decrease_user_farm_position` are exact.
-/
import MxModel.Lemmas.FarmPos

namespace Mx.Farm

theorem le_sum_map_of_mem {α : Type} (f : α → Nat) : ∀ (l : List α) (x : α), x ∈ l → f x ≤ (l.map f).sum := by
  intro l
  induction l with
  | nil => intro x hx; cases hx
  | cons y ys ih =>
    intro x hx
    simp only [List.map_cons, List.sum_cons]
    rcases List.mem_cons.mp hx with rfl | h
    · omega
    · have := ih x h; omega

/-- what one account holds of a nonce is part of the outstanding amount of that nonce -/
theorem hold_le_heldBy (s : St) {u : Nat} (hu : u ∈ s.users) (n : Nat) : s.hold u n ≤ heldBy s n :=
  le_sum_map_of_mem (fun u => s.hold u n) s.users u hu

theorem mem_nonceList {s : St} {n : Nat} (h : n ≤ s.lastNonce) : n ∈ nonceList s := by
  unfold nonceList; exact List.mem_range.mpr (by omega)

/-- **supply never underflows on exit**: a held amount is at most the reported supply -/
theorem held_le_supply {s : St} (hI : PosInv s) {u n a : Nat} (ha : a ≠ 0) (h : a ≤ s.hold u n) :
    a ≤ s.supply := by
  have hne : s.hold u n ≠ 0 := by omega
  obtain ⟨hu, hn, _⟩ := hI.dom u n hne
  have h1 := hold_le_heldBy s hu n
  have h2 : heldBy s n ≤ totalHeld s := le_sum_map_of_mem (heldBy s) (nonceList s) n (mem_nonceList hn)
  rw [hI.sup]; omega

/-- **the owner's total never saturates**: a held amount of a position recorded as `o`'s is at most
    `userTotal o`, so `decrease_user_farm_position` subtracts exactly -/
theorem held_le_ownerTotal {s : St} (hI : PosInv s) {u n a : Nat} {att : Attr} (ha : a ≠ 0)
    (h : a ≤ s.hold u n) (hat : s.attrs n = some att) : a ≤ s.userTotal att.owner := by
  have hne : s.hold u n ≠ 0 := by omega
  obtain ⟨hu, hn, _⟩ := hI.dom u n hne
  have h1 := hold_le_heldBy s hu n
  have h2 : (if ownerOf s n = some att.owner then heldBy s n else 0) ≤ ownedBy s att.owner :=
    le_sum_map_of_mem (fun n => if ownerOf s n = some att.owner then heldBy s n else 0)
      (nonceList s) n (mem_nonceList hn)
  have h3 : ownerOf s n = some att.owner := by simp [ownerOf, hat]
  rw [h3, if_pos rfl] at h2
  rw [hI.own]; omega

end Mx.Farm
