/-
  The 5-slot ring of boosted-yields factors (`BoostedYieldsConfig`): which factors are in force
  for which week, under configuration updates between weeks.
-/
import MxModel.Lemmas.StakingPool

namespace Mx.Staking

theorem req_true {c : Prop} [Decidable c] (h : c) : req c = some () := (req_eq_some ()).2 h

theorem BCfg.new_length (W : Nat) (x : Factors) : (BCfg.new W x).f.length = 5 := by
  simp [BCfg.new]

/-- `get_factors_for_week` once the two guards hold -/
theorem BCfg.factorsForWeek_eq (c : BCfg) (w : Nat) (h1 : w < c.lastUpdateWeek)
    (h2 : c.lastUpdateWeek - w < 5) : c.factorsForWeek w = c.f[4 - (c.lastUpdateWeek - w)]? := by
  unfold BCfg.factorsForWeek
  rw [req_true h1, req_true h2]
  rfl

/-- a first configuration covers the four weeks before it as well -/
theorem BCfg.new_factorsForWeek (W w : Nat) (x : Factors) (h1 : w < W) (h2 : W - w < 5) :
    (BCfg.new W x).factorsForWeek w = some x := by
  rw [BCfg.factorsForWeek_eq _ _ h1 h2]
  simp only [BCfg.new, List.getElem?_replicate]
  have : 4 - (W - w) < 5 := by omega
  simp [this]

theorem BCfg.update_spec {c c' : BCfg} {W : Nat} {new : Option Factors} (hl : c.f.length = 5)
    (h : c.update W new = some c') :
    c.lastUpdateWeek ≤ W ∧ c'.f.length = 5 ∧ c'.lastUpdateWeek = W ∧
    (∃ last, c.f[4]? = some last ∧ c'.f[4]? = some (new.getD last)) ∧
    (∀ w, w < c.lastUpdateWeek → W - w < 5 → c'.factorsForWeek w = c.factorsForWeek w) ∧
    (∀ w, c.lastUpdateWeek ≤ w → w < W → W - w < 5 → c'.factorsForWeek w = c.f[4]?) := by
  simp only [BCfg.update, Option.bind_eq_bind, Option.bind_eq_some_iff, req_eq_some] at h
  obtain ⟨_, hle, last, hlast, h⟩ := h
  split at h
  · rename_i hd
    have hW : W = c.lastUpdateWeek := by omega
    cases new with
    | some x =>
      simp only [Option.pure_def, Option.some.injEq] at h
      subst h
      refine ⟨hle, by simp [hl], hW.symm, ⟨last, hlast, by simp [hl]⟩, ?_, ?_⟩
      · intro w hw1 hw2
        rw [BCfg.factorsForWeek_eq c w hw1 (by omega),
          BCfg.factorsForWeek_eq ⟨c.lastUpdateWeek, c.f.set 4 x⟩ w hw1 (by simp only []; omega)]
        have : 4 ≠ 4 - (c.lastUpdateWeek - w) := by omega
        simp only [List.getElem?_set, this, if_false]
      · intro w hw1 hw2 _; omega
    | none =>
      simp only [Option.pure_def, Option.some.injEq] at h
      subst h
      refine ⟨hle, hl, hW.symm, ⟨last, hlast, by simpa using hlast⟩, fun _ _ _ => rfl, ?_⟩
      intro w hw1 hw2 _; omega
  · rename_i hd
    simp only [Option.pure_def, Option.some.injEq] at h
    subst h
    generalize hdd : min (W - c.lastUpdateWeek) 5 = d at hd
    have hd5 : d ≤ 5 := by omega
    have hd0 : 0 < d := by omega
    have hdlen : (c.f.drop d).length = 5 - d := by simp [hl]
    refine ⟨hle, ?_, rfl, ⟨last, hlast, ?_⟩, ?_, ?_⟩
    · simp [hl]; omega
    · rw [List.getElem?_append_right (by simp [hl]; omega)]
      have : 4 - (List.drop d c.f ++ List.replicate (d - 1) last).length = 0 := by
        simp [hl]; omega
      rw [this]; rfl
    · intro w hw1 hw2
      have hmin : d = W - c.lastUpdateWeek := by omega
      rw [BCfg.factorsForWeek_eq _ _ (by simp only []; omega) (by simp only []; omega),
        BCfg.factorsForWeek_eq _ _ hw1 (by omega)]
      simp only []
      rw [List.append_assoc, List.getElem?_append_left (by rw [hdlen]; omega), List.getElem?_drop]
      congr 1
      omega
    · intro w hw1 hw2 hw3
      rw [BCfg.factorsForWeek_eq _ _ (by simp only []; omega) (by simp only []; omega)]
      simp only []
      by_cases hwl : W - w = d
      · -- the old last update week itself: the old latest slot, shifted left
        rw [List.append_assoc, List.getElem?_append_left (by rw [hdlen]; omega), List.getElem?_drop]
        congr 1
        omega
      · rw [List.append_assoc, List.getElem?_append_right (by rw [hdlen]; omega), hdlen,
          List.getElem?_append_left (by simp; omega), List.getElem?_replicate, hlast]
        have : 4 - (W - w) - (5 - d) < d - 1 := by omega
        simp [this]

end Mx.Staking
