/-
  Towards "no legitimate operation fails on an internal counter" (C05 `no_underflow`): the remaining
  small invariants (`XInv`: every position token has a non-zero amount and an entering epoch that is
  not in the future, `penaltyPct ≤ MAX_PERCENT`, the lock period is the deployed one), success of
  `generate`, and the progress theorem for `exitFarm`: in a reachable state a holder's exit can only
  fail inside the weekly-rewards module (the boosted claim, the energy clearing).
-/
import MxModel.Lemmas.FarmCover
import MxModel.Lemmas.FarmView

namespace Mx.Farm

open Mx.Weekly (upd upd_same upd_other Energy)

/-! ### the view -/

structure XV where
  attrs : Nat → Option Attr
  epoch : Nat
  penaltyPct : Nat
  lockEpochs : Nat

def xv (s : St) : XV := ⟨s.attrs, s.epoch, s.penaltyPct, s.lockEpochs⟩

def XV.Ok (x : XV) : Prop :=
  (∀ n att, x.attrs n = some att → att.amt ≠ 0 ∧ att.epoch ≤ x.epoch) ∧
  x.penaltyPct ≤ MAXPCT ∧ x.lockEpochs = 360

/-- position tokens are non-empty and not from the future; penalty and lock period are sane -/
def XInv (s : St) : Prop := (xv s).Ok

theorem XV.Ok.create {x : XV} (h : x.Ok) {a : Attr} (k : Nat) (ha : a.amt ≠ 0) (he : a.epoch ≤ x.epoch) :
    XV.Ok { x with attrs := upd x.attrs k (some a) } := by
  refine ⟨?_, h.2.1, h.2.2⟩
  intro n att hn
  by_cases hk : n = k
  · subst hk
    simp only [upd_same, Option.some.injEq] at hn
    subst hn
    exact ⟨ha, he⟩
  · simp only [upd_other _ _ hk] at hn
    exact h.1 n att hn

theorem takePayments_xv {l : List (Nat × Nat)} {s s' : St} {c : Nat} (h : takePayments s c l = some s') :
    xv s' = xv s := by obtain ⟨_, rfl⟩ := takePayments_spec l h; rfl
theorem checkAndUpdate_xv {l : List (Nat × Nat)} {s s' : St} {c : Nat} (h : checkAndUpdate s c l = some s') :
    xv s' = xv s := by obtain ⟨_, rfl⟩ := checkAndUpdate_spec l h; rfl
theorem claimBoostedYields_xv {s s' : St} {u r : Nat} (h : claimBoostedYields s u = some (s', r)) :
    xv s' = xv s := by obtain ⟨_, _, rfl⟩ := claimBoostedYields_struct h; rfl
theorem setFarmSupplyWeek_xv {s s' : St} {v : Nat} (h : setFarmSupplyWeek s v = some s') :
    xv s' = xv s := by obtain ⟨_, _, rfl⟩ := setFarmSupplyWeek_spec h; rfl
theorem updateEnergyAndProgress_xv {s s' : St} {u : Nat} (h : updateEnergyAndProgress s u = some s') :
    xv s' = xv s := by obtain ⟨_, rfl⟩ := updateEnergyAndProgress_spec h; rfl
theorem generate_xv {s s' : St} {c c' : Cache} (h : generate s c = some (s', c')) :
    xv s' = xv s := by obtain ⟨_, rfl, _⟩ := generate_spec h; rfl
theorem payReward_xv {s s' : St} {u b bo : Nat} (h : payReward s u b bo = some s') :
    xv s' = xv s := by obtain ⟨_, _, rfl, _⟩ := payReward_spec h; rfl
theorem payRewardIf_xv {s s' : St} {k : Kind} {u b bo : Nat} (h : payRewardIf s k u b bo = some s') :
    xv s' = xv s := by
  unfold payRewardIf at h
  split at h
  · exact payReward_xv h
  · simp only [Option.some.injEq] at h; rw [← h]
theorem claimOnlyBoostedPayment_xv {s s' : St} {u r : Nat} (h : claimOnlyBoostedPayment s u = some (s', r)) :
    xv s' = xv s := by
  simp only [claimOnlyBoostedPayment, Option.bind_eq_bind, Option.bind_eq_some_iff, Option.pure_def] at h
  obtain ⟨⟨s1, r1⟩, h1, h⟩ := h
  have k1 := claimBoostedYields_xv h1
  split at h
  · simp only [Option.some.injEq, Prod.mk.injEq] at h
    obtain ⟨rfl, _⟩ := h; exact k1
  · simp only [Option.bind_eq_some_iff, sub?_eq_some, Option.some.injEq, Prod.mk.injEq] at h
    obtain ⟨_, _, rfl, _⟩ := h; exact k1
theorem removeFarming_xv {s s' : St} {a p : Nat} (h : removeFarming s a p = some s') : xv s' = xv s := by
  simp only [removeFarming, Option.bind_eq_bind, Option.bind_eq_some_iff, sub?_eq_some, Option.pure_def,
    Option.some.injEq] at h
  obtain ⟨_, _, rfl⟩ := h; rfl
theorem compoundMove_xv {s s' : St} {b bo : Nat} (h : compoundMove s b bo = some s') : xv s' = xv s := by
  simp only [compoundMove, Option.bind_eq_bind, Option.bind_eq_some_iff, sub?_eq_some, Option.pure_def,
    Option.some.injEq] at h
  obtain ⟨_, _, rfl⟩ := h; rfl
theorem clearUserEnergyIfNeeded_xv {s s' : St} {u : Nat} (h : clearUserEnergyIfNeeded s u = some s') :
    xv s' = xv s := by
  unfold clearUserEnergyIfNeeded at h
  split at h
  · simp only [Option.some.injEq] at h; rw [← h]
  · simp only [Option.bind_eq_bind, Option.bind_eq_some_iff, Option.pure_def, Option.some.injEq] at h
    obtain ⟨_, _, _, _, _, _, rfl⟩ := h
    rfl
theorem claimTail_xv {s s' : St} {c : Bool} {u b bo : Nat} (h : claimTail s c u b bo = some s') :
    xv s' = xv s := by
  unfold claimTail at h
  split at h
  · simp only [Option.bind_eq_some_iff] at h
    obtain ⟨s1, h1, h2⟩ := h
    exact (updateEnergyAndProgress_xv h2).trans (compoundMove_xv h1)
  · exact payReward_xv h
theorem settle_xv {s s' : St} (h : settle s = some s') : xv s' = xv s := by
  simp only [settle, Option.bind_eq_bind, Option.bind_eq_some_iff, Option.pure_def, Option.some.injEq] at h
  obtain ⟨⟨s1, c1⟩, h1, rfl⟩ := h
  exact (generate_xv h1 : xv s1 = xv s)

theorem createToken_xv {s s' : St} {d n : Nat} {a : Attr} (h : createToken s d a = some (s', n)) :
    a.amt ≠ 0 ∧ xv s' = { xv s with attrs := upd s.attrs (s.lastNonce + 1) (some a) } := by
  obtain ⟨ha, _, rfl⟩ := createToken_spec h
  exact ⟨ha, rfl⟩

/-! ### merged attributes are not from the future -/

theorem mergeParts_epoch : ∀ (l : List (Nat × Nat)) {s : St} {base m : Attr} (E : Nat),
    mergeParts s base l = some m → base.epoch ≤ E →
    (∀ n att, s.attrs n = some att → att.epoch ≤ E) → m.epoch ≤ E := by
  intro l
  induction l with
  | nil =>
    intro s base m E h hb _
    simp only [mergeParts, Option.some.injEq] at h
    subst h; exact hb
  | cons p rest ih =>
    intro s base m E h hb hall
    obtain ⟨n, a⟩ := p
    simp only [mergeParts, Option.bind_eq_bind, Option.bind_eq_some_iff] at h
    obtain ⟨att, hat, part, hp, m1, hm1, h2⟩ := h
    have e1 := (intoPart_spec hp).2.2.1
    have e2 := (mergeWith_spec hm1).2.2.2.1
    have e3 := hall n att hat
    exact ih E h2 (by rw [e2, e1]; exact Nat.max_le.mpr ⟨hb, e3⟩) hall

theorem mergeAll_epoch {s : St} {l : List (Nat × Nat)} {m : Attr} (E : Nat) (h : mergeAll s l = some m)
    (hall : ∀ n att, s.attrs n = some att → att.epoch ≤ E) : m.epoch ≤ E := by
  cases l with
  | nil => simp [mergeAll] at h
  | cons p rest =>
    obtain ⟨n, a⟩ := p
    simp only [mergeAll, Option.bind_eq_bind, Option.bind_eq_some_iff] at h
    obtain ⟨att, hat, part, hp, h2⟩ := h
    have e1 := (intoPart_spec hp).2.2.1
    exact mergeParts_epoch rest E h2 (by rw [e1]; exact hall n att hat) hall

/-- a token minted from attributes merged in a state with the same view keeps the invariant -/
theorem XInv.mint {s s3 s4 s5 : St} {merged : Attr} {dst n : Nat} (hX : XInv s)
    (e3 : xv s3 = xv s) (e4 : xv s4 = xv s3) (hme : merged.epoch ≤ s.epoch)
    (h5 : createToken s4 dst merged = some (s5, n)) : XInv s5 := by
  obtain ⟨ha, e5⟩ := createToken_xv h5
  unfold XInv
  rw [e5]
  have hx4 : (xv s4).Ok := by rw [e4, e3]; exact hX
  have : s4.attrs = (xv s4).attrs := rfl
  rw [this]
  exact hx4.create _ ha (by rw [e4, e3]; exact hme)

theorem XInv.of_xv {s s' : St} (hX : XInv s) (h : xv s' = xv s) : XInv s' := by
  unfold XInv; rw [h]; exact hX

theorem XInv.attrs_epoch {s s3 : St} (hX : XInv s) (e3 : xv s3 = xv s) :
    ∀ n att, s3.attrs n = some att → att.epoch ≤ s.epoch := by
  intro n att h
  have : s3.attrs = s.attrs := congrArg XV.attrs e3
  rw [this] at h
  exact (hX.1 n att h).2

/-! ### endpoints -/

theorem enterCore_xinv {s s' : St} {caller orig tokenTo amt : Nat} {extra : List (Nat × Nat)} {o : Out}
    (hX : XInv s) (h : enterCore s caller orig tokenTo amt extra = some (s', o)) : XInv s' := by
  simp only [enterCore, Option.bind_eq_bind, Option.bind_eq_some_iff, req_eq_some, Option.pure_def,
    Option.some.injEq, Prod.mk.injEq] at h
  obtain ⟨_, _, s0, h0, ⟨s1, boosted⟩, h1, s1', h1', _, hact, s2, h2, ⟨s4, c1⟩, h4, merged, hm,
    ⟨s5, n⟩, h5, s6, h6, s8, h8, s9, h9, rfl, rfl⟩ := h
  have k0 : xv s0 = xv s := takePayments_xv h0
  have k1 : xv s1 = xv s := (claimOnlyBoostedPayment_xv (s := addFarming s0 amt) h1).trans k0
  have k1' : xv s1' = xv s := (payRewardIf_xv h1').trans k1
  have k2 : xv s2 = xv s := (checkAndUpdate_xv h2).trans k1'
  have k4 : xv s4 = xv s := (generate_xv (s := increaseUser s2 orig amt) h4).trans k2
  have he4 : s4.epoch = s.epoch := congrArg XV.epoch k4
  have hme : merged.epoch ≤ s.epoch :=
    mergeParts_epoch extra s.epoch hm (by show s4.epoch ≤ s.epoch; omega) (hX.attrs_epoch k4)
  have i5 : XInv s5 := hX.mint k4 rfl hme h5
  have k6 : xv s6 = xv s5 := setFarmSupplyWeek_xv h6
  have k8 : xv s8 = xv s5 := (payRewardIf_xv h8).trans k6
  exact i5.of_xv ((updateEnergyAndProgress_xv h9).trans k8)

theorem claimCore_xinv {s s' : St} {caller orig : Nat} {pays : List (Nat × Nat)} {cmp : Bool} {o : Out}
    (hX : XInv s) (h : claimCore s caller orig pays cmp = some (s', o)) : XInv s' := by
  unfold claimCore at h
  replace h := bpeel h; obtain ⟨⟨n1, a1⟩, hhead, h⟩ := h
  replace h := bpeel h; obtain ⟨s0, h0, h⟩ := h
  replace h := bpeel h; obtain ⟨_, _, h⟩ := h
  replace h := bpeel h; obtain ⟨_, _, h⟩ := h
  replace h := bpeel h; obtain ⟨at1, hat, h⟩ := h
  replace h := bpeel h; obtain ⟨⟨s1, c1⟩, h1, h⟩ := h
  replace h := bpeel h; obtain ⟨part, hpart, h⟩ := h
  replace h := bpeel h; obtain ⟨⟨s2, boosted⟩, h2, h⟩ := h
  replace h := bpeel h; obtain ⟨res, _, h⟩ := h
  replace h := bpeel h; obtain ⟨s3, h3, h⟩ := h
  replace h := bpeel h; obtain ⟨merged, hm, h⟩ := h
  replace h := bpeel h; obtain ⟨⟨s5, n⟩, h5, h⟩ := h
  replace h := bpeel h; obtain ⟨s6, h6, h⟩ := h
  replace h := bpeel h; obtain ⟨s8, h8, h⟩ := h
  simp only [Option.pure_def, Option.some.injEq, Prod.mk.injEq] at h
  obtain ⟨rfl, _⟩ := h
  have k0 : xv s0 = xv s := takePayments_xv h0
  have k1 : xv s1 = xv s := (generate_xv h1).trans k0
  have k2 : xv s2 = xv s := (claimBoostedYields_xv h2).trans k1
  have k3 : xv s3 = xv s := (checkAndUpdate_xv h3).trans k2
  have he3 : s3.epoch = s.epoch := congrArg XV.epoch k3
  have hpe : part.epoch ≤ s.epoch := by
    rw [(intoPart_spec hpart).2.2.1]
    exact hX.attrs_epoch k0 _ _ hat
  have hme : merged.epoch ≤ s.epoch := by
    refine mergeParts_epoch _ s.epoch hm ?_ (hX.attrs_epoch k3)
    cases cmp
    · exact hpe
    · show s3.epoch ≤ s.epoch; omega
  have k4 : xv (if cmp = true then increaseUser s3 orig
      (baseReward s1.dsc c1.rps a1 part.rps + boosted) else s3) = xv s3 := by cases cmp <;> rfl
  have i5 : XInv s5 := hX.mint k3 k4 hme h5
  have k6 : xv s6 = xv s5 := setFarmSupplyWeek_xv h6
  exact i5.of_xv ((claimTail_xv h8).trans k6)

theorem exitFarm_xv {s s' : St} {caller : Nat} {opt : Option Nat} {n a : Nat} {o : Out}
    (h : exitFarm s caller opt n a = some (s', o)) : xv s' = xv s := by
  unfold exitFarm at h
  replace h := bpeel h; obtain ⟨orig, _, h⟩ := h
  replace h := bpeel h; obtain ⟨s0, h0, h⟩ := h
  replace h := bpeel h; obtain ⟨_, _, h⟩ := h
  replace h := bpeel h; obtain ⟨att, hat, h⟩ := h
  replace h := bpeel h; obtain ⟨⟨s1, c1⟩, h1, h⟩ := h
  replace h := bpeel h; obtain ⟨part, hpart, h⟩ := h
  replace h := bpeel h; obtain ⟨⟨s2, boosted⟩, h2, h⟩ := h
  replace h := bpeel h; obtain ⟨res, _, h⟩ := h
  replace h := bpeel h; obtain ⟨sup, hsup, h⟩ := h
  replace h := bpeel h; obtain ⟨s4, h4, h⟩ := h
  replace h := bpeel h; obtain ⟨pen, hpen, h⟩ := h
  replace h := bpeel h; obtain ⟨out, _, h⟩ := h
  replace h := bpeel h; obtain ⟨s6, h6, h⟩ := h
  replace h := bpeel h; obtain ⟨s7, h7, h⟩ := h
  replace h := bpeel h; obtain ⟨s8, h8, h⟩ := h
  simp only [Option.pure_def, Option.some.injEq, Prod.mk.injEq] at h
  obtain ⟨rfl, _⟩ := h
  have k0 : xv s0 = xv s := takePayments_xv h0
  have k1 : xv s1 = xv s := (generate_xv h1).trans k0
  have k2 : xv s2 = xv s := (claimBoostedYields_xv h2).trans k1
  have k4 : xv s4 = xv s := (setFarmSupplyWeek_xv (s := decreaseOwner s2 att.owner a) h4).trans k2
  have k6 : xv s6 = xv s := (removeFarming_xv h6).trans k4
  have k7 : xv s7 = xv s := (payReward_xv h7).trans k6
  exact (clearUserEnergyIfNeeded_xv h8).trans k7

theorem mergeFarmTokens_xinv {s s' : St} {caller : Nat} {opt : Option Nat} {pays : List (Nat × Nat)}
    {o : Out} (hX : XInv s) (h : mergeFarmTokens s caller opt pays = some (s', o)) : XInv s' := by
  simp only [mergeFarmTokens, Option.bind_eq_bind, Option.bind_eq_some_iff, req_eq_some, Option.pure_def,
    Option.some.injEq, Prod.mk.injEq] at h
  obtain ⟨_, hact, orig, _, _, _, s0, h0, ⟨s1, boosted⟩, h1, s2, h2, merged, hm, ⟨s3, n⟩, h3, s4, h4, rfl, rfl⟩ := h
  have k0 : xv s0 = xv s := takePayments_xv h0
  have k1 : xv s1 = xv s := (claimOnlyBoostedPayment_xv h1).trans k0
  have k2 : xv s2 = xv s := (checkAndUpdate_xv h2).trans k1
  have hme : merged.epoch ≤ s.epoch := mergeAll_epoch s.epoch hm (hX.attrs_epoch k2)
  have i3 : XInv s3 := hX.mint (merged := { merged with owner := orig }) k2 rfl hme h3
  exact i3.of_xv (payReward_xv h4)

theorem claimBoostedRewards_xv {s s' : St} {caller : Nat} {optUser : Option Nat} {o : Out}
    (h : claimBoostedRewards s caller optUser = some (s', o)) : xv s' = xv s := by
  simp only [claimBoostedRewards, Option.bind_eq_bind, Option.bind_eq_some_iff, req_eq_some, Option.pure_def,
    Option.some.injEq, Prod.mk.injEq, sub?_eq_some] at h
  obtain ⟨_, _, _, _, _, hact, ⟨s1, c1⟩, h1, ⟨s2, boosted⟩, h2, res, ⟨hle, rfl⟩, s3, h3, s4, h4, rfl, rfl⟩ := h
  exact (payReward_xv h4).trans ((setFarmSupplyWeek_xv h3).trans ((claimBoostedYields_xv h2).trans
    (generate_xv h1)))

theorem init_xinv (kind : Kind) (sameTok : Bool) (dsc perBlock : Nat) (produce : Bool)
    (users : List Nat) (e0 : Nat) : XInv (init kind sameTok dsc perBlock produce users e0) := by
  refine ⟨fun n att h => ?_, ?_, rfl⟩
  · cases h
  · show 100 ≤ 10000
    omega

theorem step_xinv {s s' : St} {op : Op} {o : Out} (hX : XInv s) (h : step s op = some (s', o)) :
    XInv s' := by
  cases op <;> simp only [step, known] at h
  case enter c oo a e =>
    split at h <;> [skip; exact absurd h (by simp)]
    simp only [enterFarm, Option.bind_eq_bind, Option.bind_eq_some_iff] at h
    obtain ⟨_, _, h⟩ := h
    exact enterCore_xinv hX h
  case enterOB c u a e =>
    split at h <;> [skip; exact absurd h (by simp)]
    simp only [enterFarmOnBehalf, Option.bind_eq_bind, Option.bind_eq_some_iff] at h
    obtain ⟨_, _, _, _, h⟩ := h
    exact enterCore_xinv hX h
  case claim c oo p =>
    split at h <;> [skip; exact absurd h (by simp)]
    simp only [claimRewards, Option.bind_eq_bind, Option.bind_eq_some_iff] at h
    obtain ⟨_, _, h⟩ := h
    exact claimCore_xinv hX h
  case claimOB c p =>
    split at h <;> [skip; exact absurd h (by simp)]
    simp only [claimRewardsOnBehalf, Option.bind_eq_bind, Option.bind_eq_some_iff] at h
    obtain ⟨_, _, _, _, _, _, h⟩ := h
    exact claimCore_xinv hX h
  case compound c oo p =>
    split at h <;> [skip; exact absurd h (by simp)]
    simp only [compoundRewards, Option.bind_eq_bind, Option.bind_eq_some_iff, req_eq_some] at h
    obtain ⟨_, hk, _, _, h⟩ := h
    exact claimCore_xinv hX h
  case exit c oo n a =>
    split at h <;> [skip; exact absurd h (by simp)]
    exact hX.of_xv (exitFarm_xv h)
  case merge c oo p =>
    split at h <;> [skip; exact absurd h (by simp)]
    exact mergeFarmTokens_xinv hX h
  case claimBoosted c u =>
    split at h <;> [skip; exact absurd h (by simp)]
    exact hX.of_xv (claimBoostedRewards_xv h)
  case transfer a b n x =>
    split at h <;> [skip; exact absurd h (by simp)]
    split at h <;> [skip; exact absurd h (by simp)]
    simp only [noOut, Option.map_eq_some_iff, Prod.mk.injEq] at h
    obtain ⟨s1, h1, rfl, _⟩ := h
    simp only [transfer, Option.bind_eq_bind, Option.bind_eq_some_iff, req_eq_some, sub?_eq_some,
      Option.pure_def, Option.some.injEq] at h1
    obtain ⟨_, _, _, _, _, _, _, _, rfl⟩ := h1
    exact hX.of_xv rfl
  case setEnergy u a l t =>
    simp only [Option.some.injEq, Prod.mk.injEq] at h
    obtain ⟨rfl, _⟩ := h
    exact hX.of_xv rfl
  case updateEnergy u =>
    simp only [noOut, Option.map_eq_some_iff, Prod.mk.injEq] at h
    obtain ⟨s1, h1, rfl, _⟩ := h
    simp only [updateEnergyForUser, Option.bind_eq_bind, Option.bind_eq_some_iff, Option.pure_def,
      Option.some.injEq] at h1
    obtain ⟨_, _, _, _, rfl⟩ := h1
    exact hX.of_xv rfl
  case setPerBlock c x =>
    simp only [noOut, Option.map_eq_some_iff, Prod.mk.injEq] at h
    obtain ⟨s1, h1, rfl, _⟩ := h
    simp only [setPerBlock, Option.bind_eq_bind, Option.bind_eq_some_iff, Option.pure_def,
      Option.some.injEq] at h1
    obtain ⟨_, _, _, _, s2, h2, rfl⟩ := h1
    exact hX.of_xv (settle_xv h2 : xv s2 = xv s)
  case startProduce c =>
    simp only [noOut, Option.map_eq_some_iff, Prod.mk.injEq] at h
    obtain ⟨s1, h1, rfl, _⟩ := h
    simp only [startProduce, Option.bind_eq_bind, Option.bind_eq_some_iff, Option.pure_def,
      Option.some.injEq] at h1
    obtain ⟨_, _, _, _, _, _, rfl⟩ := h1
    exact hX.of_xv rfl
  case endProduce c =>
    simp only [noOut, Option.map_eq_some_iff, Prod.mk.injEq] at h
    obtain ⟨s1, h1, rfl, _⟩ := h
    simp only [endProduce, Option.bind_eq_bind, Option.bind_eq_some_iff, Option.pure_def,
      Option.some.injEq] at h1
    obtain ⟨_, _, s2, h2, rfl⟩ := h1
    exact hX.of_xv (settle_xv h2 : xv s2 = xv s)
  case setPct c p =>
    simp only [noOut, Option.map_eq_some_iff, Prod.mk.injEq] at h
    obtain ⟨s1, h1, rfl, _⟩ := h
    simp only [setPct, Option.bind_eq_bind, Option.bind_eq_some_iff, Option.pure_def,
      Option.some.injEq] at h1
    obtain ⟨_, _, _, _, s2, h2, rfl⟩ := h1
    exact hX.of_xv (settle_xv h2 : xv s2 = xv s)
  case setFactors c f =>
    simp only [noOut, Option.map_eq_some_iff, Prod.mk.injEq] at h
    obtain ⟨s1, h1, rfl, _⟩ := h
    simp only [setFactors, Option.bind_eq_bind, Option.bind_eq_some_iff, Option.pure_def] at h1
    obtain ⟨_, _, _, _, _, _, W, _, h1⟩ := h1
    split at h1
    · simp only [Option.bind_eq_some_iff, Option.some.injEq] at h1
      obtain ⟨_, _, rfl⟩ := h1
      exact hX.of_xv rfl
    · simp only [Option.some.injEq] at h1
      subst h1
      exact hX.of_xv rfl
  case collect c =>
    simp only [noOut, Option.map_eq_some_iff, Prod.mk.injEq] at h
    obtain ⟨s1, h1, rfl, _⟩ := h
    simp only [collectUndistributed, Option.bind_eq_bind, Option.bind_eq_some_iff, Option.pure_def,
      req_eq_some] at h1
    obtain ⟨_, _, W, _, _, _, h1⟩ := h1
    split at h1 <;> simp only [Option.some.injEq] at h1 <;> subst h1 <;> exact hX.of_xv rfl
  case pause c =>
    simp only [noOut, Option.map_eq_some_iff, Prod.mk.injEq] at h
    obtain ⟨s1, h1, rfl, _⟩ := h
    simp only [setActive, Option.bind_eq_bind, Option.bind_eq_some_iff, Option.pure_def,
      Option.some.injEq] at h1
    obtain ⟨_, _, rfl⟩ := h1
    exact hX.of_xv rfl
  case resume c =>
    simp only [noOut, Option.map_eq_some_iff, Prod.mk.injEq] at h
    obtain ⟨s1, h1, rfl, _⟩ := h
    simp only [setActive, Option.bind_eq_bind, Option.bind_eq_some_iff, Option.pure_def,
      Option.some.injEq] at h1
    obtain ⟨_, _, rfl⟩ := h1
    exact hX.of_xv rfl
  case setPenalty c p =>
    simp only [noOut, Option.map_eq_some_iff, Prod.mk.injEq] at h
    obtain ⟨s1, h1, rfl, _⟩ := h
    simp only [setPenalty, Option.bind_eq_bind, Option.bind_eq_some_iff, Option.pure_def,
      Option.some.injEq, req_eq_some] at h1
    obtain ⟨_, _, _, hp, rfl⟩ := h1
    exact ⟨hX.1, Nat.le_of_lt hp, hX.2.2⟩
  case setMinEpochs c n =>
    simp only [noOut, Option.map_eq_some_iff, Prod.mk.injEq] at h
    obtain ⟨s1, h1, rfl, _⟩ := h
    simp only [setMinEpochs, Option.bind_eq_bind, Option.bind_eq_some_iff, Option.pure_def,
      Option.some.injEq] at h1
    obtain ⟨_, _, _, _, rfl⟩ := h1
    exact hX.of_xv rfl
  case hubWhitelist u a =>
    split at h
    · cases h
    · simp only [Option.some.injEq, Prod.mk.injEq] at h; obtain ⟨rfl, _⟩ := h; exact hX.of_xv rfl
  case hubRemove u a =>
    split at h
    · simp only [Option.some.injEq, Prod.mk.injEq] at h; obtain ⟨rfl, _⟩ := h; exact hX.of_xv rfl
    · cases h
  case hubBlacklist a =>
    simp only [Option.some.injEq, Prod.mk.injEq] at h; obtain ⟨rfl, _⟩ := h; exact hX.of_xv rfl
  case scWhitelist a =>
    split at h
    · cases h
    · simp only [Option.some.injEq, Prod.mk.injEq] at h; obtain ⟨rfl, _⟩ := h; exact hX.of_xv rfl
  case scUnwhitelist a =>
    split at h
    · simp only [Option.some.injEq, Prod.mk.injEq] at h; obtain ⟨rfl, _⟩ := h; exact hX.of_xv rfl
    · cases h
  case advance b e =>
    split at h
    · rename_i hbe
      simp only [Option.some.injEq, Prod.mk.injEq] at h; obtain ⟨rfl, _⟩ := h
      refine ⟨fun n att hn => ?_, hX.2.1, hX.2.2⟩
      obtain ⟨h1, h2⟩ := hX.1 n att hn
      exact ⟨h1, Nat.le_trans h2 hbe.2⟩
    · cases h
  case bad => cases h

theorem run_xinv (ops : List Op) {s : St} (hX : XInv s) : XInv (run s ops) := by
  induction ops generalizing s with
  | nil => exact hX
  | cons op rest ih =>
    simp only [run, List.foldl_cons]
    cases hs : step s op with
    | none => exact ih hX
    | some r => exact ih (step_xinv hX (show step s op = some (r.1, r.2) from hs))

/-! ### success of the building blocks -/

theorem isSome_bind {α β : Type} {x : Option α} {f : α → Option β} {a : α} (hx : x = some a)
    (hf : (f a).isSome) : (x >>= f).isSome := by
  subst hx; exact hf

theorem takeRewardSlice_ok {s : St} (m : Nat) (hT : s.firstWeekStart ≤ s.epoch) (hp : s.pct ≤ MAXPCT) :
    ∃ s3 cut, takeRewardSlice s m = some (s3, cut) ∧ cut ≤ m := by
  unfold takeRewardSlice
  by_cases h0 : s.pct = 0
  · rw [if_pos h0]; exact ⟨s, 0, rfl, Nat.zero_le _⟩
  · rw [if_neg h0]
    simp only
    by_cases h1 : m * s.pct / MAXPCT = 0
    · rw [if_pos h1]; exact ⟨s, 0, rfl, Nat.zero_le _⟩
    · obtain ⟨W, hW⟩ := week_of_time hT
      rw [if_neg h1]
      simp only [hW, Option.bind_eq_bind, Option.bind_some, Option.pure_def]
      refine ⟨_, _, rfl, ?_⟩
      have hM : MAXPCT = 10000 := rfl
      rw [hM] at hp ⊢
      apply Nat.div_le_of_le_mul
      nlinarith [Nat.zero_le m]

theorem genBody_ok {s1 : St} (c : Cache) (m : Nat) (hT : s1.firstWeekStart ≤ s1.epoch)
    (hp : s1.pct ≤ MAXPCT) : ∃ r, genBody s1 c m = some r := by
  unfold genBody
  by_cases hm : m = 0
  · rw [if_pos hm]; exact ⟨_, rfl⟩
  · obtain ⟨s3, cut, h3, hle⟩ := takeRewardSlice_ok
      (s := { s1 with generated := s1.generated + m,
                      balReward := if s1.kind = .mint then s1.balReward + m else s1.balReward }) m hT hp
    rw [if_neg hm]
    simp only [Option.bind_eq_bind, h3, Option.bind_some]
    have : sub? m cut = some (m - cut) := by simp [sub?, hle]
    simp only [this, Option.bind_some]
    split <;> exact ⟨_, rfl⟩

/-- `generate` cannot fail in a state with a current week and a sane boosted percentage -/
theorem generate_ok {s : St} (c : Cache) (hT : s.firstWeekStart ≤ s.epoch) (hp : s.pct ≤ MAXPCT) :
    ∃ s1 c1, generate s c = some (s1, c1) := by
  rw [generate_eq_body]
  split
  · obtain ⟨r, hr⟩ := genBody_ok (s1 := { s with lastBlock := s.block }) c
      (if s.produce then s.perBlock * (s.block - s.lastBlock) else 0) hT hp
    exact ⟨r.1, r.2, hr⟩
  · exact ⟨s, c, rfl⟩

/-- what `clearUserEnergyIfNeeded` reads -/
structure CEV where
  cfg : Option BCfg
  epoch : Nat
  fws : Nat
  w : Weekly.St
  userTotal : Nat → Nat

def cev (s : St) : CEV := ⟨s.b.cfg, s.epoch, s.firstWeekStart, s.w, s.userTotal⟩

theorem clearUserEnergyIfNeeded_congr {s t : St} (u : Nat) (h : cev t = cev s) :
    (clearUserEnergyIfNeeded t u).isSome = (clearUserEnergyIfNeeded s u).isSome := by
  simp only [cev, CEV.mk.injEq] at h
  obtain ⟨h1, h2, h3, h4, h5⟩ := h
  unfold clearUserEnergyIfNeeded
  rw [h1]
  cases s.b.cfg with
  | none => rfl
  | some cfg =>
    simp only [St.week, h2, h3, h4, h5]
    cases Weekly.weekOf s.epoch s.firstWeekStart with
    | none => rfl
    | some W =>
      simp only [Option.bind_eq_bind, Option.bind_some]
      cases cfg.update W none with
      | none => rfl
      | some mem =>
        simp only [Option.bind_some]
        cases Weekly.clearUserEnergy s.w u W s.epoch (s.userTotal u) mem.latest.minF with
        | none => rfl
        | some g => rfl

theorem intoPart_ok {att : Attr} (a : Nat) (h : att.amt ≠ 0) : ∃ p, att.intoPart a = some p := by
  unfold Attr.intoPart
  split
  · exact ⟨_, rfl⟩
  · exact ⟨{ att with comp := att.comp * a / att.amt, amt := a }, by simp [req, h]⟩

theorem exitPenalty_ok {s : St} (amt e : Nat) (he : e ≤ s.epoch) (hp : s.penaltyPct ≤ MAXPCT) :
    ∃ pen, exitPenalty s amt e = some pen ∧ pen ≤ amt := by
  unfold exitPenalty
  have : sub? s.epoch e = some (s.epoch - e) := by simp [sub?, he]
  simp only [Option.bind_eq_bind, this, Option.bind_some]
  split
  · exact ⟨0, rfl, Nat.zero_le _⟩
  · refine ⟨_, rfl, ?_⟩
    have hM : MAXPCT = 10000 := rfl
    rw [hM] at hp ⊢
    apply Nat.div_le_of_le_mul
    nlinarith [Nat.zero_le amt]

theorem lockVirtual_ok {s : St} (u amount : Nat) (hl : s.lockEpochs = 360) :
    ∃ s', lockVirtual s u amount = some s' := by
  unfold lockVirtual
  have hE : EPOCHS_PER_MONTH = 30 := rfl
  have : s.epoch < s.epoch + s.lockEpochs - (s.epoch + s.lockEpochs) % EPOCHS_PER_MONTH := by
    rw [hl, hE]; omega
  simp only [Option.bind_eq_bind, req, this, if_true, Option.bind_some, Option.pure_def]
  exact ⟨_, rfl⟩

theorem payReward_ok {s : St} (u base boosted : Nat)
    (hbal : s.kind = .mint → base + boosted ≤ s.balReward) (hl : s.lockEpochs = 360) :
    ∃ s', payReward s u base boosted = some s' := by
  unfold payReward
  simp only [Option.bind_eq_bind, Option.pure_def]
  split
  · exact ⟨_, rfl⟩
  · cases hk : s.kind with
    | mint =>
      have := hbal hk
      simp only
      have e : sub? s.balReward (base + boosted) = some (s.balReward - (base + boosted)) := by
        simp [sub?, this]
      simp only [e, Option.bind_some]
      exact ⟨_, rfl⟩
    | noMint =>
      simp only
      exact lockVirtual_ok u (base + boosted) hl

/-! ### progress of `exitFarm` -/

theorem setFarmSupplyWeek_ok {s : St} (v : Nat) (hT : s.firstWeekStart ≤ s.epoch) :
    ∃ s', setFarmSupplyWeek s v = some s' := by
  obtain ⟨W, hW⟩ := week_of_time hT
  refine ⟨{ s with b := { s.b with farmSupplyWeek := upd s.b.farmSupplyWeek W v } }, ?_⟩
  simp only [setFarmSupplyWeek, hW, Option.bind_eq_bind, Option.bind_some, Option.pure_def]

theorem setFarmSupplyWeek_cev {s s' : St} {v : Nat} (h : setFarmSupplyWeek s v = some s') :
    cev s' = cev s := by obtain ⟨_, _, rfl⟩ := setFarmSupplyWeek_spec h; rfl
theorem removeFarming_cev {s s' : St} {a p : Nat} (h : removeFarming s a p = some s') : cev s' = cev s := by
  simp only [removeFarming, Option.bind_eq_bind, Option.bind_eq_some_iff, sub?_eq_some, Option.pure_def,
    Option.some.injEq] at h
  obtain ⟨_, _, rfl⟩ := h; rfl
theorem payReward_cev {s s' : St} {u b bo : Nat} (h : payReward s u b bo = some s') :
    cev s' = cev s := by obtain ⟨_, _, rfl, _⟩ := payReward_spec h; rfl

theorem takePayments_single {s : St} {u n a : Nat} (ha : a ≠ 0) (hs : (s.attrs n).isSome)
    (hle : a ≤ s.hold u n) :
    takePayments s u [(n, a)] = some { s with hold := upd s.hold u (upd (s.hold u) n (s.hold u n - a)) } := by
  simp [takePayments, req, sub?, ha, hs, hle]

/-- **progress of `exitFarm`.** -/
theorem exitFarm_ok {s s1 s2 : St} {c1 : Cache} {u n a boosted : Nat} {att : Attr}
    (hA : Acct s) (hP : PosInv s) (hK : PotInv s) (hI : PoolInv s) (hX : XInv s) (hd : s.dsc ≠ 0)
    (hact : s.active = true) (ha : a ≠ 0) (hle : a ≤ s.hold u n) (hat : s.attrs n = some att)
    (hg : generate s (Cache.read s) = some (s1, c1))
    (hb : claimBoostedYields s1 u = some (s2, boosted))
    (hc : (clearUserEnergyIfNeeded (decreaseOwner s2 att.owner a) u).isSome) :
    (exitFarm s u none n a).isSome := by
  -- the payments
  have h0 := takePayments_single ha (by rw [hat]; rfl) hle
  generalize upd s.hold u (upd (s.hold u) n (s.hold u n - a)) = h' at h0
  obtain ⟨s0, hs0⟩ : ∃ x : St, x = { s with hold := h' } := ⟨_, rfl⟩
  obtain ⟨s1', hs1'⟩ : ∃ x : St, x = { s1 with hold := h' } := ⟨_, rfl⟩
  obtain ⟨s2', hs2'⟩ : ∃ x : St, x = { s2 with hold := h' } := ⟨_, rfl⟩
  rw [← hs0] at h0
  have h1 : generate s0 (Cache.read s0) = some (s1', c1) := by
    have : Cache.read s0 = Cache.read s := by rw [hs0]; rfl
    rw [this, hs0, generate_hold, hg, hs1']; rfl
  have h2 : claimBoostedYields s1' u = some (s2', boosted) := by
    rw [hs1', claimBoostedYields_hold, hb, hs2']; rfl
  have hact0 : s0.active = true := by rw [hs0]; exact hact
  have hat0 : s0.attrs n = some att := by rw [hs0]; exact hat
  have hd1 : s1'.dsc = s1.dsc := by rw [hs1']
  obtain ⟨hamt, hep⟩ := hX.1 n att hat
  obtain ⟨part, hpart⟩ := intoPart_ok a hamt
  obtain ⟨p1, p2, p3, _⟩ := intoPart_spec hpart
  -- reserve
  have hres := reward_le_reserve hA hP hK hI hd h0 h1 hat h2
  rw [← p2] at hres
  -- supply
  have hsup : part.amt ≤ c1.supply := by
    rw [p1, (generate_pv hg).2]
    exact held_le_supply hP ha hle
  -- the state after the boosted claim, with the owner's total decreased
  obtain ⟨s3, hs3⟩ : ∃ x : St, x = decreaseOwner s2' att.owner a := ⟨_, rfl⟩
  have x1 : xv s1 = xv s := generate_xv hg
  have x2 : xv s2 = xv s := (claimBoostedYields_xv hb).trans x1
  have x3 : xv s3 = xv s := by
    rw [hs3, hs2']
    show xv s2 = xv s
    exact x2
  have f1 : s1.firstWeekStart = s.firstWeekStart := by obtain ⟨_, rfl, _⟩ := generate_spec hg; rfl
  have f2 : s2.firstWeekStart = s.firstWeekStart := by
    obtain ⟨_, _, rfl⟩ := claimBoostedYields_struct hb; exact f1
  have f3 : s3.firstWeekStart = s.firstWeekStart := by
    rw [hs3, hs2']
    show s2.firstWeekStart = s.firstWeekStart
    exact f2
  have e3 : s3.epoch = s.epoch := congrArg XV.epoch x3
  have hT3 : s3.firstWeekStart ≤ s3.epoch := by rw [f3, e3]; exact hI.time
  have v1 : av s1 = _ := (generate_av hg).1
  have hc1 : c1.reserve = s.reserve + minted s := by rw [(generate_av hg).2]; rfl
  have v3 : av s3 = av s1 := by
    rw [hs3, hs2']
    show av s2 = av s1
    exact claimBoostedYields_av hb
  have k3 : s3.kind = s.kind := by
    rw [hs3, hs2']
    show s2.kind = s.kind
    exact (claimBoostedYields_kind hb).trans (generate_kind hg)
  have c3 : cev s3 = cev (decreaseOwner s2 att.owner a) := by rw [hs3, hs2']; rfl
  obtain ⟨s4, h4⟩ := setFarmSupplyWeek_ok (s := s3) (c1.supply - part.amt) hT3
  have x4 : xv s4 = xv s := (setFarmSupplyWeek_xv h4).trans x3
  have e4 : s4.epoch = s.epoch := congrArg XV.epoch x4
  have e4p : s4.penaltyPct = s.penaltyPct := congrArg XV.penaltyPct x4
  have hpe : part.epoch ≤ s4.epoch := by
    rw [p3, e4]; exact hep
  have hpp : s4.penaltyPct ≤ MAXPCT := by
    rw [e4p]; exact hX.2.1
  obtain ⟨pen, hpen, hpl⟩ := exitPenalty_ok (s := s4) part.amt part.epoch hpe hpp
  -- farming balance
  have v4 : av s4 = av s1 := (setFarmSupplyWeek_av h4).trans v3
  have hheld := held_le_supply hP ha hle
  have hprin := hA.prin
  have b4 : s4.balFarming = s.balFarming := by
    have := congrArg AV.balFarming v4
    have := congrArg AV.balFarming v1
    simp only [av] at *
    omega
  have hbf : part.amt ≤ s4.balFarming := by rw [b4, p1]; omega
  obtain ⟨s5, hs5⟩ : ∃ x : St, x = Cache.drop s4
      ⟨c1.reserve - (baseReward s1'.dsc c1.rps a part.rps + boosted), c1.rps, c1.supply - part.amt⟩ := ⟨_, rfl⟩
  have b5 : s5.balFarming = s4.balFarming := by rw [hs5]; rfl
  obtain ⟨s6, h6⟩ : ∃ s6, removeFarming s5 part.amt pen = some s6 := by
    unfold removeFarming
    have : sub? s5.balFarming part.amt = some (s5.balFarming - part.amt) := by
      simp [sub?, b5, hbf]
    simp only [Option.bind_eq_bind, this, Option.bind_some, Option.pure_def]
    exact ⟨_, rfl⟩
  -- the reward payment
  have k4 : s4.kind = s.kind := (setFarmSupplyWeek_kind h4).trans k3
  have k5 : s5.kind = s.kind := by rw [hs5]; exact k4
  have k6 : s6.kind = s.kind := (removeFarming_kind h6).trans k5
  have v6 := (removeFarming_av h6).2
  have x5 : xv s5 = xv s := by rw [hs5]; exact x4
  have x6 : xv s6 = xv s := (removeFarming_xv h6).trans x5
  have r5 : s5.balReward = s4.balReward := by rw [hs5]; rfl
  have l6 : s6.lockEpochs = s.lockEpochs := congrArg XV.lockEpochs x6
  obtain ⟨s7, h7⟩ := payReward_ok (s := s6) u (baseReward s1'.dsc c1.rps a part.rps) boosted
    (by
      intro hk
      rw [k6] at hk
      have hb' := hA.bal hk
      have q1 := congrArg AV.balReward v6
      have q2 := congrArg AV.balReward v4
      have q3 := congrArg AV.balReward v1
      simp only [av, hk, if_true] at q1 q2 q3
      omega)
    (by rw [l6]; exact hX.2.2)
  -- the energy clearing
  have c5 : cev s5 = cev s4 := by rw [hs5]; rfl
  have c7 : cev s7 = cev (decreaseOwner s2 att.owner a) :=
    (payReward_cev h7).trans ((removeFarming_cev h6).trans (c5.trans ((setFarmSupplyWeek_cev h4).trans c3)))
  have h8 : (clearUserEnergyIfNeeded s7 u).isSome := by
    rw [clearUserEnergyIfNeeded_congr u c7]; exact hc
  obtain ⟨s8, h8⟩ := Option.isSome_iff_exists.mp h8
  -- assemble
  unfold exitFarm
  refine isSome_bind (a := u) rfl ?_
  refine isSome_bind h0 ?_
  refine isSome_bind (a := ()) (by simp [req, hact0]) ?_
  refine isSome_bind (a := att) hat0 ?_
  refine isSome_bind h1 ?_
  refine isSome_bind hpart ?_
  refine isSome_bind h2 ?_
  refine isSome_bind (a := c1.reserve - (baseReward s1'.dsc c1.rps a part.rps + boosted))
    (by simp [sub?, hres]) ?_
  refine isSome_bind (a := c1.supply - part.amt) (by simp [sub?, hsup]) ?_
  rw [← hs3]
  refine isSome_bind h4 ?_
  refine isSome_bind hpen ?_
  refine isSome_bind (a := part.amt - pen) (by simp [sub?, hpl]) ?_
  rw [← hs5]
  refine isSome_bind h6 ?_
  refine isSome_bind h7 ?_
  refine isSome_bind h8 ?_
  rfl

/-! ### progress of `claimRewards` -/

theorem checkAndUpdate_single_ok {s : St} {u n a : Nat} (hs : (s.attrs n).isSome) :
    ∃ s', checkAndUpdate s u [(n, a)] = some s' := by
  obtain ⟨att, hat⟩ := Option.isSome_iff_exists.mp hs
  simp only [checkAndUpdate, Option.bind_eq_bind, hat, Option.bind_some]
  exact ⟨_, rfl⟩

/-- **progress of `claimRewards`** (one payment, claimed by the holder for itself): it can only fail
    inside the boosted claim -/
theorem claimRewards_ok {s s1 s2 : St} {c1 : Cache} {u n a boosted : Nat} {att : Attr}
    (hA : Acct s) (hP : PosInv s) (hK : PotInv s) (hI : PoolInv s) (hX : XInv s) (hd : s.dsc ≠ 0)
    (hact : s.active = true) (ha : a ≠ 0) (hle : a ≤ s.hold u n) (hat : s.attrs n = some att)
    (hg : generate s (Cache.read s) = some (s1, c1))
    (hb : claimBoostedYields s1 u = some (s2, boosted)) :
    (claimRewards s u none [(n, a)]).isSome := by
  have h0 := takePayments_single ha (by rw [hat]; rfl) hle
  generalize upd s.hold u (upd (s.hold u) n (s.hold u n - a)) = h' at h0
  obtain ⟨s0, hs0⟩ : ∃ x : St, x = { s with hold := h' } := ⟨_, rfl⟩
  obtain ⟨s1', hs1'⟩ : ∃ x : St, x = { s1 with hold := h' } := ⟨_, rfl⟩
  obtain ⟨s2', hs2'⟩ : ∃ x : St, x = { s2 with hold := h' } := ⟨_, rfl⟩
  rw [← hs0] at h0
  have h1 : generate s0 (Cache.read s0) = some (s1', c1) := by
    have : Cache.read s0 = Cache.read s := by rw [hs0]; rfl
    rw [this, hs0, generate_hold, hg, hs1']; rfl
  have h2 : claimBoostedYields s1' u = some (s2', boosted) := by
    rw [hs1', claimBoostedYields_hold, hb, hs2']; rfl
  have hact0 : s0.active = true := by rw [hs0]; exact hact
  have hat0 : s0.attrs n = some att := by rw [hs0]; exact hat
  obtain ⟨hamt, hep⟩ := hX.1 n att hat
  obtain ⟨part, hpart⟩ := intoPart_ok a hamt
  obtain ⟨p1, p2, p3, _⟩ := intoPart_spec hpart
  have hres := reward_le_reserve hA hP hK hI hd h0 h1 hat h2
  rw [← p2] at hres
  have x1 : xv s1 = xv s := generate_xv hg
  have x2 : xv s2 = xv s := (claimBoostedYields_xv hb).trans x1
  have x2' : xv s2' = xv s := by rw [hs2']; exact x2
  have f1 : s1.firstWeekStart = s.firstWeekStart := by obtain ⟨_, rfl, _⟩ := generate_spec hg; rfl
  have f2 : s2.firstWeekStart = s.firstWeekStart := by
    obtain ⟨_, _, rfl⟩ := claimBoostedYields_struct hb; exact f1
  have v1 : av s1 = _ := (generate_av hg).1
  have hc1 : c1.reserve = s.reserve + minted s := by rw [(generate_av hg).2]; rfl
  have v2' : av s2' = av s1 := by
    rw [hs2']
    show av s2 = av s1
    exact claimBoostedYields_av hb
  have k2' : s2'.kind = s.kind := by
    rw [hs2']
    show s2.kind = s.kind
    exact (claimBoostedYields_kind hb).trans (generate_kind hg)
  have a2' : s2'.attrs n = some att := by
    have : s2'.attrs = s.attrs := congrArg XV.attrs x2'
    rw [this]; exact hat
  obtain ⟨s3, h3⟩ := checkAndUpdate_single_ok (s := s2') (u := u) (n := n) (a := a) (by rw [a2']; rfl)
  have x3 : xv s3 = xv s := (checkAndUpdate_xv h3).trans x2'
  have v3 : av s3 = av s1 := (checkAndUpdate_av h3).trans v2'
  have k3 : s3.kind = s.kind := (checkAndUpdate_kind h3).trans k2'
  have f3 : s3.firstWeekStart = s.firstWeekStart := by
    obtain ⟨_, rfl⟩ := checkAndUpdate_spec _ h3
    rw [hs2']; exact f2
  obtain ⟨merged, hmerged⟩ : ∃ m : Attr, m = ⟨c1.rps, part.epoch, part.comp, part.amt, u⟩ := ⟨_, rfl⟩
  have hm0 : merged.amt ≠ 0 := by rw [hmerged]; show part.amt ≠ 0; rw [p1]; exact ha
  obtain ⟨s5, n5, h5⟩ : ∃ s5 n5, createToken s3 u merged = some (s5, n5) := by
    simp only [createToken, Option.bind_eq_bind, req, hm0, ne_eq, not_false_eq_true, if_true,
      Option.bind_some, Option.pure_def]
    exact ⟨_, _, rfl⟩
  have x5e : s5.epoch = s.epoch := by
    obtain ⟨_, _, rfl⟩ := createToken_spec h5
    exact congrArg XV.epoch x3
  have f5 : s5.firstWeekStart = s.firstWeekStart := by
    obtain ⟨_, _, rfl⟩ := createToken_spec h5
    exact f3
  have l5 : s5.lockEpochs = s.lockEpochs := by
    obtain ⟨_, _, rfl⟩ := createToken_spec h5
    exact congrArg XV.lockEpochs x3
  have v5 : av s5 = av s1 := (createToken_av h5).trans v3
  have k5 : s5.kind = s.kind := (createToken_kind h5).trans k3
  obtain ⟨s6, h6⟩ := setFarmSupplyWeek_ok (s := s5) c1.supply (by rw [f5, x5e]; exact hI.time)
  have v6 : av s6 = av s1 := (setFarmSupplyWeek_av h6).trans v5
  have k6 : s6.kind = s.kind := (setFarmSupplyWeek_kind h6).trans k5
  have l6 : s6.lockEpochs = s.lockEpochs := by
    obtain ⟨_, _, rfl⟩ := setFarmSupplyWeek_spec h6
    exact l5
  obtain ⟨s7, hs7⟩ : ∃ x : St, x = Cache.drop s6
      ⟨c1.reserve - (baseReward s1'.dsc c1.rps a part.rps + boosted), c1.rps, c1.supply⟩ := ⟨_, rfl⟩
  have k7 : s7.kind = s.kind := by rw [hs7]; exact k6
  have r7 : s7.balReward = s6.balReward := by rw [hs7]; rfl
  have l7 : s7.lockEpochs = s.lockEpochs := by rw [hs7]; exact l6
  obtain ⟨s8, h8⟩ := payReward_ok (s := s7) u (baseReward s1'.dsc c1.rps a part.rps) boosted
    (by
      intro hk
      rw [k7] at hk
      have hb' := hA.bal hk
      have q2 := congrArg AV.balReward v6
      have q3 := congrArg AV.balReward v1
      simp only [av, hk, if_true] at q2 q3
      omega)
    (by rw [l7]; exact hX.2.2)
  -- assemble
  unfold claimRewards
  refine isSome_bind (a := u) rfl ?_
  unfold claimCore
  refine isSome_bind (a := (n, a)) rfl ?_
  refine isSome_bind h0 ?_
  refine isSome_bind (a := ()) (by simp [req, hact0]) ?_
  refine isSome_bind (a := ()) (by simp [req]) ?_
  refine isSome_bind (a := att) hat0 ?_
  refine isSome_bind h1 ?_
  refine isSome_bind hpart ?_
  refine isSome_bind h2 ?_
  refine isSome_bind (a := c1.reserve - (baseReward s1'.dsc c1.rps a part.rps + boosted))
    (by simp [sub?, hres]) ?_
  refine isSome_bind h3 ?_
  refine isSome_bind (a := merged) (by rw [hmerged]; rfl) ?_
  refine isSome_bind (a := (s5, n5)) h5 ?_
  refine isSome_bind (a := s6) h6 ?_
  refine isSome_bind (a := s8) (by rw [hs7] at h8; exact h8) ?_
  rfl

/-- every reachable state satisfies `XInv` -/
theorem reachable_xinv (kind : Kind) (sameTok : Bool) (dsc perBlock : Nat) (produce : Bool)
    (users : List Nat) (e0 : Nat) (ops : List Op) :
    XInv (run (init kind sameTok dsc perBlock produce users e0) ops) :=
  run_xinv ops (init_xinv kind sameTok dsc perBlock produce users e0)

end Mx.Farm
