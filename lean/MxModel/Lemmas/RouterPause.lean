/-
  A pair contract that is Inactive (paused) and holds liquidity stays Inactive under every
  operation of the router world except the owner's `resume` of that pair — in particular under
  `setSwapEnabledByUser` by anybody with any payment.
-/
import MxModel.Lemmas.RouterInv
import MxModel.Lemmas.PairSpec

namespace Mx.Router

/-! ### what the pair's own endpoints require of its status -/

theorem pair_addLiq_status {st : Mx.Pair.St} {a1 a2 m1 m2 : Nat} {r : Mx.Pair.St × Mx.Pair.Out}
    (h : Mx.Pair.addLiq st a1 a2 m1 m2 = some r) :
    st.status = .active ∨ st.status = .partialActive := by
  simp only [Mx.Pair.addLiq, Option.bind_eq_bind, Option.bind_eq_some_iff, req_eq_some] at h
  obtain ⟨_, _, _, _, _, h3, _⟩ := h
  exact h3

theorem pair_removeLiq_status {st : Mx.Pair.St} {lp m1 m2 : Nat} {r : Mx.Pair.St × Mx.Pair.Out}
    (h : Mx.Pair.removeLiq st lp m1 m2 = some r) :
    st.status = .active ∨ st.status = .partialActive := by
  simp only [Mx.Pair.removeLiq, Option.bind_eq_bind, Option.bind_eq_some_iff, req_eq_some] at h
  obtain ⟨_, _, _, h2, _⟩ := h
  exact h2

theorem pair_swapIn_status {st : Mx.Pair.St} {d : Mx.Pair.Dir} {a m : Nat}
    {r : Mx.Pair.St × Mx.Pair.Out} (h : Mx.Pair.swapIn st d a m = some r) :
    st.status = .active := by
  obtain ⟨_, _, _, _, hact, _⟩ := Mx.Pair.swapIn_spec (s' := r.1) (o := r.2) h
  exact hact

theorem pair_swapOut_status {st : Mx.Pair.St} {d : Mx.Pair.Dir} {mx out : Nat}
    {r : Mx.Pair.St × Mx.Pair.Out} (h : Mx.Pair.swapOut st d mx out = some r) :
    st.status = .active := by
  obtain ⟨_, _, _, _, hact, _⟩ := Mx.Pair.swapOut_spec (s' := r.1) (o := r.2) h
  exact hact

/-- "Inactive, with liquidity" -/
def Paused (w : Pairs) (a : Addr) : Prop :=
  ∃ p, w a = some p ∧ p.st.status = .inactive ∧ p.st.S ≠ 0

theorem Paused.other {w : Pairs} {a x : Addr} (h : Paused w a) (p' : PairRec) (hx : a ≠ x) :
    Paused (upd w x (some p')) a := by
  obtain ⟨p, hp, h1, h2⟩ := h
  exact ⟨p, by rw [upd_other _ _ hx]; exact hp, h1, h2⟩

/-- a hop never goes through a paused pair, so a multi-hop swap leaves it alone -/
theorem hopTrace_paused {m : Reg} (hops : List Hop) {w w' : Pairs} {tok : Tok} {amt : Nat}
    {rs : List (Nat × Nat)} (h : hopTrace (pairResp m) hops w tok amt = some (w', rs))
    {x : Addr} (hx : Paused w x) : Paused w' x := by
  induction hops generalizing w tok amt rs with
  | nil =>
    simp only [hopTrace, Option.some.injEq, Prod.mk.injEq] at h
    rw [← h.1]; exact hx
  | cons g0 hs ih =>
    simp only [hopTrace, Option.bind_eq_bind, Option.bind_eq_some_iff, Option.pure_def,
      Option.some.injEq, Prod.mk.injEq] at h
    obtain ⟨r, hr, t, ht, rfl, rfl⟩ := h
    obtain ⟨w1, out, resid⟩ := r
    refine ih (by simpa using ht) ?_
    obtain ⟨_, p, d, hp, _, hk⟩ := pairResp_spec hr
    by_cases hne : x = g0.pair
    · -- the hop would be a swap on the paused pair itself
      obtain ⟨q, hq, hst, _⟩ := hx
      rw [hne, hp] at hq
      cases hq
      rcases hk with ⟨_, st', o, hs', _⟩ | ⟨_, st', o, hs', _⟩
      · have := pair_swapIn_status hs'
        rw [hst] at this; cases this
      · have := pair_swapOut_status hs'
        rw [hst] at this; cases this
    · rcases hk with ⟨_, st', o, _, _, _, rfl⟩ | ⟨_, st', o, _, _, _, rfl⟩
      · exact hx.other _ hne
      · exact hx.other _ hne

/-- the inductive step: a paused pair below the next deploy address stays paused under every
    successful operation other than the owner's `resume` of that very pair -/
theorem step_paused {s s' : St} {op : Op} {o : Out} {a : Addr}
    (hlt : a < s.nextAddr) (hpa : Paused s.pairs a)
    (h : step s op = some (s', o)) (hop : op ≠ .resume s.owner a) : Paused s'.pairs a := by
  obtain ⟨p, hp, hst, hS⟩ := hpa
  have hpa : Paused s.pairs a := ⟨p, hp, hst, hS⟩
  cases op with
  | createPair c t1 t2 ad f =>
    obtain ⟨fp, _, _, _, _, _, _, _, _, _, _, _, rfl⟩ := createPair_spec h
    exact hpa.other _ (Nat.ne_of_lt hlt)
  | removePair c t1 t2 =>
    obtain ⟨_, _, _, _, _, _, _, rfl⟩ := removePair_spec h
    exact hpa
  | setCreation c b =>
    obtain ⟨_, rfl⟩ := setCreation_frame h
    exact hpa
  | setTemplate c =>
    obtain ⟨_, rfl⟩ := setTemplate_frame h
    exact hpa
  | pause c x =>
    obtain ⟨_, h2⟩ := setState_spec h
    rcases h2 with ⟨_, rfl⟩ | ⟨_, _, q, hq, rfl⟩
    · exact hpa
    · by_cases hx : a = x
      · subst hx
        rw [hp] at hq; cases hq
        exact ⟨_, upd_same _ _ _, rfl, hS⟩
      · exact hpa.other _ hx
  | resume c x =>
    obtain ⟨hc, h2⟩ := setState_spec h
    rcases h2 with ⟨_, rfl⟩ | ⟨_, _, q, hq, rfl⟩
    · exact hpa
    · by_cases hx : a = x
      · subst hx; subst hc
        exact absurd rfl hop
      · exact hpa.other _ hx
  | setFeeOn c x tok =>
    obtain ⟨_, _, _, q, hq, rfl⟩ := setFeeOn_spec h
    by_cases hx : a = x
    · subst hx
      rw [hp] at hq; cases hq
      exact ⟨_, upd_same _ _ _, hst, hS⟩
    · exact hpa.other _ hx
  | setFeeOff c x i tok =>
    obtain ⟨_, _, _, q, hq, _, _, rfl⟩ := setFeeOff_spec h
    by_cases hx : a = x
    · subst hx
      rw [hp] at hq; cases hq
      exact ⟨_, upd_same _ _ _, hst, hS⟩
    · exact hpa.other _ hx
  | multi c tokIn amount hops =>
    obtain ⟨r, _, hr, _, rfl⟩ := multiPairSwap_spec h
    obtain ⟨rs, _, _, _, htr, _⟩ := multiG_spec hr
    exact hopTrace_paused hops htr hpa
  | addInitial u x a1 a2 =>
    simp only [step, addInitial, Option.bind_eq_bind, Option.bind_eq_some_iff, Option.pure_def,
      Option.some.injEq, Prod.mk.injEq] at h
    obtain ⟨q, hq, _, _, _, _, r, hr, rfl, _⟩ := h
    by_cases hx : a = x
    · subst hx
      rw [hp] at hq; cases hq
      obtain ⟨_, _, _, _, h0, _⟩ := Mx.Pair.addInitial_spec (s' := r.1) (o := r.2) hr
      exact absurd h0 hS
    · exact hpa.other _ hx
  | addLiq u x a1 a2 m1 m2 =>
    simp only [step, addLiq, Option.bind_eq_bind, Option.bind_eq_some_iff, Option.pure_def,
      Option.some.injEq, Prod.mk.injEq] at h
    obtain ⟨q, hq, _, _, r, hr, _, _, _, _, rfl, _⟩ := h
    by_cases hx : a = x
    · subst hx
      rw [hp] at hq; cases hq
      rcases pair_addLiq_status hr with h1 | h1 <;> rw [hst] at h1 <;> cases h1
    · exact hpa.other _ hx
  | removeLiq u x lp m1 m2 =>
    simp only [step, removeLiq, Option.bind_eq_bind, Option.bind_eq_some_iff, Option.pure_def,
      Option.some.injEq, Prod.mk.injEq] at h
    obtain ⟨q, hq, _, _, r, hr, rfl, _⟩ := h
    by_cases hx : a = x
    · subst hx
      rw [hp] at hq; cases hq
      rcases pair_removeLiq_status hr with h1 | h1 <;> rw [hst] at h1 <;> cases h1
    · exact hpa.other _ hx
  | swapIn u x ti y tq m =>
    simp only [step, swapIn, Option.bind_eq_bind, Option.bind_eq_some_iff, Option.pure_def,
      Option.some.injEq, Prod.mk.injEq] at h
    obtain ⟨q, hq, _, _, _, _, r, hr, rfl, _⟩ := h
    by_cases hx : a = x
    · subst hx
      rw [hp] at hq; cases hq
      have h1 := pair_swapIn_status hr
      rw [hst] at h1; cases h1
    · exact hpa.other _ hx
  | swapOut u x ti mx tq out =>
    simp only [step, swapOut, Option.bind_eq_bind, Option.bind_eq_some_iff, Option.pure_def,
      Option.some.injEq, Prod.mk.injEq] at h
    obtain ⟨q, hq, _, _, _, _, r, hr, rfl, _⟩ := h
    by_cases hx : a = x
    · subst hx
      rw [hp] at hq; cases hq
      have h1 := pair_swapOut_status hr
      rw [hst] at h1; cases h1
    · exact hpa.other _ hx
  | configEnable c common locked mv mp =>
    obtain ⟨_, _, _, _, rfl⟩ := configEnable_spec h
    exact hpa
  | addCommon c toks =>
    obtain ⟨_, _, rfl⟩ := addCommon_spec h
    exact hpa
  | removeCommon c toks =>
    obtain ⟨_, rfl⟩ := removeCommon_spec h
    exact hpa
  | enableByUser c x k amount =>
    obtain ⟨_, _, _, _, q, _, _, hq, hpart, _, _, _, _, _, _, _, _, rfl⟩ := enableByUser_spec h
    by_cases hx : a = x
    · subst hx
      rw [hp] at hq; cases hq
      rw [hst] at hpart; cases hpart
    · exact hpa.other _ hx
  | enablePlain c x tok amount => cases h
  | lock u coll orig amount unlock =>
    obtain ⟨_, _, _, h4⟩ := lockTokens_spec h
    rcases h4 with ⟨_, rfl, _⟩ | ⟨_, _, rfl⟩
    · exact hpa
    · exact hpa
  | unlock u k amount =>
    obtain ⟨_, _, _, _, rfl⟩ := unlockTokens_spec h
    exact hpa
  | advance e =>
    obtain ⟨_, rfl⟩ := advance_spec h
    exact hpa
  | setTmpPeriod c n =>
    obtain ⟨_, _, rfl⟩ := setTmpPeriod_spec h
    exact hpa
  | clearTmp c =>
    obtain ⟨_, _, rfl⟩ := clearTmp_spec h
    exact hpa
  | issueLp c x =>
    obtain ⟨_, _, _, _, _, _, rfl⟩ := issueLp_spec h
    exact hpa
  | setLocalRoles c x =>
    obtain ⟨_, _, _, _, rfl⟩ := setLocalRoles_spec (c := c) h
    exact hpa
  | upgradePair c t1 t2 =>
    obtain ⟨_, _, _, _, _, _, _, rfl⟩ := upgradePair_spec h
    exact hpa
  | advanceBlock n =>
    obtain ⟨_, _, rfl⟩ := advanceBlock_spec h
    exact hpa
  | bareNext b =>
    obtain ⟨_, rfl⟩ := setBareNext_spec h
    exact hpa

/-- the next deploy address never decreases -/
theorem step_nextAddr_le {s s' : St} {op : Op} {o : Out} (h : step s op = some (s', o)) :
    s.nextAddr ≤ s'.nextAddr := by
  by_cases hc : ∃ c t1 t2 ad f, op = .createPair c t1 t2 ad f
  · obtain ⟨c, t1, t2, ad, f, rfl⟩ := hc
    obtain ⟨fp, _, _, _, _, _, _, _, _, _, _, _, rfl⟩ := createPair_spec h
    exact Nat.le_succ _
  · by_cases hr : ∃ c t1 t2, op = .removePair c t1 t2
    · obtain ⟨c, t1, t2, rfl⟩ := hr
      obtain ⟨_, _, _, _, _, _, _, rfl⟩ := removePair_spec h
      exact Nat.le_refl _
    · have f := step_frame h (fun c t1 t2 ad f e => hc ⟨c, t1, t2, ad, f, e⟩)
        (fun c t1 t2 e => hr ⟨c, t1, t2, e⟩)
      rw [f.nextAddr]

/-- over a whole history: as long as the owner does not resume it, a paused pair stays paused -/
theorem run_paused (ops : List Op) {s : St} {a : Addr} (hlt : a < s.nextAddr)
    (hpa : Paused s.pairs a) (hno : Op.resume s.owner a ∉ ops) : Paused (run s ops).pairs a := by
  induction ops generalizing s with
  | nil => exact hpa
  | cons op ops ih =>
    simp only [run, List.foldl_cons]
    have hno1 : op ≠ .resume s.owner a := fun e => hno (e ▸ List.mem_cons_self)
    have hno2 : Op.resume s.owner a ∉ ops := fun e => hno (List.mem_cons_of_mem _ e)
    cases h : step s op with
    | none => exact ih hlt hpa hno2
    | some r =>
      have hs : step s op = some (r.1, r.2) := by rw [h]
      have hown := (step_owner hs).1
      exact ih (Nat.lt_of_lt_of_le hlt (step_nextAddr_le hs)) (step_paused hlt hpa hs hno1)
        (by rw [hown]; exact hno2)

end Mx.Router
