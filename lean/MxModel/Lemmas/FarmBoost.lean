/-
  The boosted-yields part of the farm model (`boostedRewards`, the claim loop over it and
  `claimBoostedYields`): the reward formula of one week, the conservation of each week's pool
  (`accum + remaining + paidW`), "what is paid is exactly the growth of the paid ghost", and
  "a second claim in the same week pays nothing" (C11).

  IMPORTANT modelling fact (faithful to `collect_rewards_for_week`, which does
  `remaining_boosted_rewards_to_distribute(week).set(total)`): freezing a week OVERWRITES the
  week's `remaining`.  The pool of a week is therefore only conserved when `remaining week = 0`
  at the moment the week is frozen — `RemOk`.  That is a state invariant of the farm (a week's
  `remaining` is only ever written by the freeze itself, by payments out of it and by
  `collectUndistributed`); it is a HYPOTHESIS of every `PoolRel` statement below and every
  statement also says that it is preserved.
-/
import MxModel.Lemmas.FarmSpec
import MxModel.Lemmas.WeeklyInv

namespace Mx.Farm

open Mx.Weekly (upd Energy ClaimProgress)

/-! ### definitions -/

/-- per week, `accum + remaining + paidW` is conserved and the paid ghost only grows; nothing else
    of the boosted sub-state moves -/
structure PoolRel (c c' : BSt) : Prop where
  cons : ∀ w, c'.accum w + c'.remaining w + c'.paidW w = c.accum w + c.remaining w + c.paidW w
  mono : ∀ w, c.paidW w ≤ c'.paidW w
  cutW : c'.cutW = c.cutW
  collW : c'.collW = c.collW
  fsw : c'.farmSupplyWeek = c.farmSupplyWeek

theorem PoolRel.refl (c : BSt) : PoolRel c c := ⟨fun _ => rfl, fun _ => Nat.le_refl _, rfl, rfl, rfl⟩

theorem PoolRel.trans {a b c : BSt} (h1 : PoolRel a b) (h2 : PoolRel b c) : PoolRel a c :=
  ⟨fun w => (h2.cons w).trans (h1.cons w), fun w => Nat.le_trans (h1.mono w) (h2.mono w),
   h2.cutW.trans h1.cutW, h2.collW.trans h1.collW, h2.fsw.trans h1.fsw⟩

/-- a week whose rewards are not frozen yet (`totalRewardsForWeek` empty) has no remaining pool:
    the freeze overwrites `remaining`, so this is what makes the freeze conservative -/
def RemOk (g : Weekly.St) (c : BSt) (w : Nat) : Prop :=
  (g.totalRewards w).isEmpty → c.remaining w = 0

theorem sumRewards_nil : sumRewards [] = 0 := rfl

theorem sumRewards_single (t : Weekly.Tok) (x : Nat) : sumRewards [(t, x)] = x := by
  simp [sumRewards]

theorem sumRewards_append (l1 l2 : List (Weekly.Tok × Nat)) :
    sumRewards (l1 ++ l2) = sumRewards l1 + sumRewards l2 := by
  simp [sumRewards, List.map_append, List.sum_append]

/-! ### one week: `boostedRewards` -/

/-- what `collect_and_get_rewards_for_week` does with the farm's collect function -/
theorem collectAndGet_boosted {mem : BCfg} {g g1 : Weekly.St} {c c1 : BSt} {week : Nat}
    {l : List (Weekly.Tok × Nat)}
    (h : Weekly.collectAndGet (collectBoosted mem) g c week = (g1, c1, l)) :
    (((g.totalRewards week).isEmpty ∧ l = [(REW, c.accum week)] ∧
        g1.totalRewards week = [(REW, c.accum week)] ∧ c1.accum week = 0 ∧
        c1.remaining week = c.accum week ∧ c1.cfg = some mem) ∨
      (¬ (g.totalRewards week).isEmpty ∧ g1 = g ∧ c1 = c ∧ l = g.totalRewards week)) ∧
    (∀ w, w ≠ week → g1.totalRewards w = g.totalRewards w ∧ c1.accum w = c.accum w ∧
      c1.remaining w = c.remaining w) ∧
    c1.paidW = c.paidW ∧ c1.cutW = c.cutW ∧ c1.collW = c.collW ∧
    c1.farmSupplyWeek = c.farmSupplyWeek ∧ Weekly.FrameR g1 g := by
  unfold Weekly.collectAndGet at h
  split at h
  · rename_i hemp
    simp only [collectBoosted, Prod.mk.injEq] at h
    obtain ⟨rfl, rfl, rfl⟩ := h
    refine ⟨Or.inl ⟨hemp, rfl, by simp, by simp, by simp, rfl⟩, ?_, rfl, rfl, rfl, rfl,
      ⟨rfl, rfl, rfl, rfl, rfl, rfl, rfl⟩⟩
    intro w hw
    simp [Weekly.upd_other _ _ hw]
  · rename_i hemp
    simp only [Prod.mk.injEq] at h
    obtain ⟨rfl, rfl, rfl⟩ := h
    exact ⟨Or.inr ⟨hemp, rfl, rfl, rfl⟩, fun _ _ => ⟨rfl, rfl, rfl⟩, rfl, rfl, rfl, rfl,
      Weekly.FrameR.refl _⟩

/-- the paths through `get_user_rewards_for_week`: early exit (nothing touched), or the week is
    collected / read and then either nothing or `boostedAmount` is paid out of `remaining` -/
theorem boostedRewards_cases {mem : BCfg} {f : Nat} {g g' : Weekly.St} {c c' : BSt} {week e E : Nat}
    {r : List (Weekly.Tok × Nat)}
    (h : boostedRewards mem f g c week e E = some (g', c', r)) :
    (r = [] ∧ g' = g ∧ c' = c) ∨
    ∃ fa c1 l, mem.factorsForWeek week = some fa ∧ E ≠ 0 ∧ c.farmSupplyWeek week ≠ 0 ∧
      fa.minE ≤ e ∧ fa.minF ≤ f ∧
      Weekly.collectAndGet (collectBoosted mem) g c week = (g', c1, l) ∧
      ((r = [] ∧ c' = c1) ∨
       ∃ tok R, l = [(tok, R)] ∧ R ≠ 0 ∧ fa.cE + fa.cF ≠ 0 ∧
         boostedAmount fa R f (c.farmSupplyWeek week) e E ≠ 0 ∧
         boostedAmount fa R f (c.farmSupplyWeek week) e E ≤ c1.remaining week ∧
         r = [(tok, boostedAmount fa R f (c.farmSupplyWeek week) e E)] ∧
         c' = { c1 with
                remaining := upd c1.remaining week
                  (c1.remaining week - boostedAmount fa R f (c.farmSupplyWeek week) e E)
                paidW := upd c1.paidW week
                  (c1.paidW week + boostedAmount fa R f (c.farmSupplyWeek week) e E) }) := by
  unfold boostedRewards at h
  simp only at h
  split at h
  · simp only [Option.some.injEq, Prod.mk.injEq] at h
    obtain ⟨rfl, rfl, rfl⟩ := h
    exact Or.inl ⟨rfl, rfl, rfl⟩
  · rename_i h0
    simp only [Option.bind_eq_bind, Option.bind_eq_some_iff] at h
    obtain ⟨fa, hfa, h⟩ := h
    split at h
    · simp only [Option.pure_def, Option.some.injEq, Prod.mk.injEq] at h
      obtain ⟨rfl, rfl, rfl⟩ := h
      exact Or.inl ⟨rfl, rfl, rfl⟩
    · rename_i h1
      generalize hcg : Weekly.collectAndGet (collectBoosted mem) g c week = x at h
      obtain ⟨g1, c1, l⟩ := x
      simp only at h
      have hE : E ≠ 0 := fun hh => h0 (Or.inl hh)
      have hF : c.farmSupplyWeek week ≠ 0 := fun hh => h0 (Or.inr hh)
      have hme : fa.minE ≤ e := Nat.le_of_not_lt fun hh => h1 (Or.inl hh)
      have hmf : fa.minF ≤ f := Nat.le_of_not_lt fun hh => h1 (Or.inr hh)
      split at h
      · simp only [Option.pure_def, Option.some.injEq, Prod.mk.injEq] at h
        obtain ⟨rfl, rfl, rfl⟩ := h
        exact Or.inr ⟨fa, _, _, hfa, hE, hF, hme, hmf, rfl, Or.inl ⟨rfl, rfl⟩⟩
      · split at h
        · simp only [Option.pure_def, Option.some.injEq, Prod.mk.injEq] at h
          obtain ⟨rfl, rfl, rfl⟩ := h
          exact Or.inr ⟨fa, _, _, hfa, hE, hF, hme, hmf, rfl, Or.inl ⟨rfl, rfl⟩⟩
        · rename_i hR
          simp only [Option.bind_eq_some_iff, req_eq_some] at h
          obtain ⟨_, hc, h⟩ := h
          split at h
          · simp only [Option.pure_def, Option.some.injEq, Prod.mk.injEq] at h
            obtain ⟨rfl, rfl, rfl⟩ := h
            exact Or.inr ⟨fa, _, _, hfa, hE, hF, hme, hmf, rfl, Or.inl ⟨rfl, rfl⟩⟩
          · rename_i hu
            simp only [Option.bind_eq_some_iff, sub?_eq_some, Option.pure_def,
              Option.some.injEq, Prod.mk.injEq] at h
            obtain ⟨rem, ⟨hle, rfl⟩, rfl, rfl, rfl⟩ := h
            exact Or.inr ⟨fa, _, _, hfa, hE, hF, hme, hmf, rfl,
              Or.inr ⟨_, _, rfl, hR, hc, hu, hle, rfl, rfl⟩⟩
      · simp at h

/-- the effect of one `boostedRewards` call on the two states, field by field -/
structure StepEff (mem : BCfg) (g : Weekly.St) (c : BSt) (week : Nat) (g' : Weekly.St) (c' : BSt)
    (r : List (Weekly.Tok × Nat)) : Prop where
  frame : Weekly.FrameR g' g
  other : ∀ w, w ≠ week → g'.totalRewards w = g.totalRewards w ∧ c'.accum w = c.accum w ∧
    c'.remaining w = c.remaining w ∧ c'.paidW w = c.paidW w
  cutW : c'.cutW = c.cutW
  collW : c'.collW = c.collW
  fsw : c'.farmSupplyWeek = c.farmSupplyWeek
  /-- what is paid is exactly the growth of the week's paid ghost -/
  paid : c'.paidW week = c.paidW week + sumRewards r
  /-- … and is bounded by what the week's pool holds -/
  bound : sumRewards r ≤ c.accum week + c.remaining week
  /-- the week's pool is conserved (needs `RemOk`: the freeze overwrites `remaining`) -/
  cons : RemOk g c week → c'.accum week + c'.remaining week + c'.paidW week =
    c.accum week + c.remaining week + c.paidW week
  remOk : RemOk g c week → RemOk g' c' week
  cfg : c'.cfg = c.cfg ∨ c'.cfg = some mem

theorem boostedRewards_eff {mem : BCfg} {f : Nat} {g g' : Weekly.St} {c c' : BSt} {week e E : Nat}
    {r : List (Weekly.Tok × Nat)}
    (h : boostedRewards mem f g c week e E = some (g', c', r)) : StepEff mem g c week g' c' r := by
  rcases boostedRewards_cases h with ⟨rfl, rfl, rfl⟩ | ⟨fa, c1, l, _, _, _, _, _, hcg, hrest⟩
  · exact ⟨Weekly.FrameR.refl _, fun _ _ => ⟨rfl, rfl, rfl, rfl⟩, rfl, rfl, rfl, rfl,
      Nat.zero_le _, fun _ => rfl, fun hh => hh, Or.inl rfl⟩
  · obtain ⟨hcase, hoth, hpw, hcut, hcoll, hfsw, hfr⟩ := collectAndGet_boosted hcg
    have k1 : c1.paidW week = c.paidW week := by rw [hpw]
    have k2 : c1.accum week + c1.remaining week ≤ c.accum week + c.remaining week := by
      rcases hcase with ⟨_, _, _, ha, hr, _⟩ | ⟨_, _, rfl, _⟩
      · rw [ha, hr]; omega
      · exact Nat.le_refl _
    have k3 : RemOk g c week →
        c1.accum week + c1.remaining week = c.accum week + c.remaining week := by
      intro hok
      rcases hcase with ⟨hemp, _, _, ha, hr, _⟩ | ⟨_, _, rfl, _⟩
      · rw [ha, hr, hok hemp]; omega
      · rfl
    have k4 : c1.cfg = c.cfg ∨ c1.cfg = some mem := by
      rcases hcase with ⟨_, _, _, _, _, hc⟩ | ⟨_, _, rfl, _⟩
      · exact Or.inr hc
      · exact Or.inl rfl
    have k5 : RemOk g c week → (g'.totalRewards week).isEmpty → c1.remaining week = 0 := by
      intro hok hemp'
      rcases hcase with ⟨_, _, ht, _, _, _⟩ | ⟨_, rfl, rfl, _⟩
      · rw [ht] at hemp'; simp at hemp'
      · exact hok hemp'
    rcases hrest with ⟨rfl, rfl⟩ | ⟨tok, R, rfl, _, _, _, hle, rfl, rfl⟩
    · refine ⟨hfr, fun w hw => ⟨(hoth w hw).1, (hoth w hw).2.1, (hoth w hw).2.2, by rw [hpw]⟩,
        hcut, hcoll, hfsw, by rw [k1, sumRewards_nil]; rfl, Nat.zero_le _, ?_, k5, k4⟩
      intro hok
      rw [k1, k3 hok]
    · refine ⟨hfr, fun w hw => ⟨(hoth w hw).1, (hoth w hw).2.1, ?_, ?_⟩, hcut, hcoll, hfsw, ?_, ?_,
        ?_, ?_, k4⟩
      · simp only [Weekly.upd_other _ _ hw]; exact (hoth w hw).2.2
      · simp only [Weekly.upd_other _ _ hw]; rw [hpw]
      · simp only [Weekly.upd_same, sumRewards_single, k1]
      · rw [sumRewards_single]; omega
      · intro hok
        have := k3 hok
        simp only [Weekly.upd_same, k1]
        omega
      · intro hok hemp'
        have := k5 hok hemp'
        simp only [Weekly.upd_same]
        omega

theorem StepEff.poolRel {mem : BCfg} {g g' : Weekly.St} {c c' : BSt} {week : Nat}
    {r : List (Weekly.Tok × Nat)} (h : StepEff mem g c week g' c' r) (hok : RemOk g c week) :
    PoolRel c c' := by
  refine ⟨fun w => ?_, fun w => ?_, h.cutW, h.collW, h.fsw⟩
  · by_cases hw : w = week
    · subst hw; exact h.cons hok
    · obtain ⟨_, h1, h2, h3⟩ := h.other w hw
      rw [h1, h2, h3]
  · by_cases hw : w = week
    · subst hw; rw [h.paid]; omega
    · rw [(h.other w hw).2.2.2]

theorem StepEff.remOk_all {mem : BCfg} {g g' : Weekly.St} {c c' : BSt} {week : Nat}
    {r : List (Weekly.Tok × Nat)} (h : StepEff mem g c week g' c' r) (w : Nat)
    (hok : RemOk g c w) : RemOk g' c' w := by
  by_cases hw : w = week
  · subst hw; exact h.remOk hok
  · obtain ⟨h0, _, h2, _⟩ := h.other w hw
    unfold RemOk
    rw [h0, h2]
    exact hok

/-- 1. the farm's reward function only touches `totalRewardsForWeek` of the weekly module -/
theorem boostedRewards_frame (mem : BCfg) (f : Nat) : Weekly.RwFrame (boostedRewards mem f) :=
  fun _ _ _ _ _ _ _ _ h => (boostedRewards_eff h).frame

/-- 2a. no total energy or no recorded farm supply for the week: nothing is paid, nothing touched -/
theorem boostedRewards_zero {mem : BCfg} {f : Nat} {g g' : Weekly.St} {c c' : BSt} {week e E : Nat}
    {r : List (Weekly.Tok × Nat)}
    (h : boostedRewards mem f g c week e E = some (g', c', r))
    (hz : E = 0 ∨ c.farmSupplyWeek week = 0) : r = [] ∧ g' = g ∧ c' = c := by
  rcases boostedRewards_cases h with h1 | ⟨_, _, _, _, hE, hF, _⟩
  · exact h1
  · rcases hz with hz | hz
    · exact absurd hz hE
    · exact absurd hz hF

/-- 2b. below the week's minimum energy or minimum farm amount: nothing is paid, nothing touched
    (in particular the week is NOT frozen by such a user) -/
theorem boostedRewards_below_min {mem : BCfg} {f : Nat} {g g' : Weekly.St} {c c' : BSt}
    {week e E : Nat} {r : List (Weekly.Tok × Nat)} {fa : Factors}
    (h : boostedRewards mem f g c week e E = some (g', c', r))
    (hfa : mem.factorsForWeek week = some fa) (hm : e < fa.minE ∨ f < fa.minF) :
    r = [] ∧ g' = g ∧ c' = c := by
  rcases boostedRewards_cases h with h1 | ⟨fa', _, _, hfa', _, _, hme, hmf, _⟩
  · exact h1
  · rw [hfa] at hfa'
    simp only [Option.some.injEq] at hfa'
    subst hfa'
    omega

/-- 3. **the boosted reward formula** (C11) and the pool accounting of one week.
    Either nothing is paid, or the user passes the week's minima and gets
    `boostedAmount fa R f F e E` where `R` is the week's frozen pool: the week's accumulated
    rewards if this call freezes the week, the already frozen amount otherwise.  (`tok` is the
    token recorded when the week was frozen: `REW` whenever this call freezes it.) -/
theorem boostedRewards_spec {mem : BCfg} {f : Nat} {g g' : Weekly.St} {c c' : BSt} {week e E : Nat}
    {r : List (Weekly.Tok × Nat)}
    (h : boostedRewards mem f g c week e E = some (g', c', r)) :
    (r = [] ∨
      ∃ fa tok R, mem.factorsForWeek week = some fa ∧ E ≠ 0 ∧ c.farmSupplyWeek week ≠ 0 ∧
        fa.minE ≤ e ∧ fa.minF ≤ f ∧ fa.cE + fa.cF ≠ 0 ∧ R ≠ 0 ∧
        g'.totalRewards week = [(tok, R)] ∧
        ((g.totalRewards week).isEmpty → tok = REW ∧ R = c.accum week) ∧
        (¬ (g.totalRewards week).isEmpty → g.totalRewards week = [(tok, R)]) ∧
        r = [(tok, boostedAmount fa R f (c.farmSupplyWeek week) e E)] ∧
        boostedAmount fa R f (c.farmSupplyWeek week) e E ≠ 0) ∧
    sumRewards r = c'.paidW week - c.paidW week ∧
    c.paidW week ≤ c'.paidW week ∧
    sumRewards r ≤ c.accum week + c.remaining week ∧
    (RemOk g c week → PoolRel c c') ∧
    (∀ w, RemOk g c w → RemOk g' c' w) ∧
    (∀ w, w ≠ week → c'.accum w = c.accum w ∧ c'.remaining w = c.remaining w ∧
      c'.paidW w = c.paidW w) := by
  have he := boostedRewards_eff h
  refine ⟨?_, by rw [he.paid]; omega, by rw [he.paid]; omega, he.bound, he.poolRel, he.remOk_all,
    fun w hw => (he.other w hw).2⟩
  rcases boostedRewards_cases h with ⟨rfl, _, _⟩ | ⟨fa, c1, l, hfa, hE, hF, hme, hmf, hcg, hrest⟩
  · exact Or.inl rfl
  · rcases hrest with ⟨rfl, _⟩ | ⟨tok, R, rfl, hR, hc, hu, _, rfl, _⟩
    · exact Or.inl rfl
    · refine Or.inr ⟨fa, tok, R, hfa, hE, hF, hme, hmf, hc, hR, ?_, ?_, ?_, rfl, hu⟩
      · rcases (collectAndGet_boosted hcg).1 with ⟨_, hl, ht, _⟩ | ⟨_, rfl, _, hl⟩
        · rw [ht, ← hl]
        · exact hl.symm
      · intro hemp
        rcases (collectAndGet_boosted hcg).1 with ⟨_, hl, _⟩ | ⟨hne, _⟩
        · simp only [List.cons.injEq, Prod.mk.injEq, and_true] at hl
          exact hl
        · exact absurd hemp hne
      · intro hne
        rcases (collectAndGet_boosted hcg).1 with ⟨hemp, _⟩ | ⟨_, _, _, hl⟩
        · exact absurd hemp hne
        · exact hl.symm

/-! ### the claim loop -/

/-- the effect of the claim loop over `n` weeks starting at `a.p.week` -/
structure LoopEff (mem : BCfg) (n : Nat) (a a' : Weekly.ClaimAcc BSt) : Prop where
  week : a'.p.week = a.p.week + n
  frame : Weekly.FrameR a'.g a.g
  outside : ∀ w, (w < a.p.week ∨ a.p.week + n ≤ w) →
    a'.g.totalRewards w = a.g.totalRewards w ∧ a'.c.accum w = a.c.accum w ∧
    a'.c.remaining w = a.c.remaining w ∧ a'.c.paidW w = a.c.paidW w
  cutW : a'.c.cutW = a.c.cutW
  collW : a'.c.collW = a.c.collW
  fsw : a'.c.farmSupplyWeek = a.c.farmSupplyWeek
  mono : ∀ w, a.c.paidW w ≤ a'.c.paidW w
  rewards : sumRewards a'.rewards = sumRewards a.rewards +
    ((List.range n).map fun i => a'.c.paidW (a.p.week + i) - a.c.paidW (a.p.week + i)).sum
  pool : (∀ w, a.p.week ≤ w → w < a.p.week + n → RemOk a.g a.c w) → PoolRel a.c a'.c
  remOk : ∀ w, RemOk a.g a.c w → RemOk a'.g a'.c w
  cfg : a'.c.cfg = a.c.cfg ∨ a'.c.cfg = some mem

theorem claimLoop_pool {mem : BCfg} {f : Nat} :
    ∀ (n : Nat) {a a' : Weekly.ClaimAcc BSt},
      Weekly.claimLoop (boostedRewards mem f) n a = some a' → LoopEff mem n a a' := by
  intro n
  induction n with
  | zero =>
    intro a a' h
    simp only [Weekly.claimLoop, Option.some.injEq] at h
    subst h
    exact ⟨rfl, Weekly.FrameR.refl _, fun _ _ => ⟨rfl, rfl, rfl, rfl⟩, rfl, rfl, rfl,
      fun _ => Nat.le_refl _, by simp, fun _ => PoolRel.refl _, fun _ hh => hh, Or.inl rfl⟩
  | succ n ih =>
    intro a a' h
    simp only [Weekly.claimLoop, Option.bind_eq_some_iff] at h
    obtain ⟨a1, h1, h2⟩ := h
    obtain ⟨r, hr, hp, hrw⟩ := Weekly.claimSingle_spec h1
    have e1 := boostedRewards_eff hr
    have e2 := ih h2
    have hw1 : a1.p.week = a.p.week + 1 := by rw [hp]; rfl
    have hout2 := e2.outside
    rw [hw1] at hout2
    refine ⟨by rw [e2.week, hw1]; omega, e2.frame.trans e1.frame, ?_, e2.cutW.trans e1.cutW,
      e2.collW.trans e1.collW, e2.fsw.trans e1.fsw, ?_, ?_, ?_, ?_, ?_⟩
    · intro w hw
      obtain ⟨x1, x2, x3, x4⟩ := hout2 w (by omega)
      obtain ⟨y1, y2, y3, y4⟩ := e1.other w (by omega)
      exact ⟨x1.trans y1, x2.trans y2, x3.trans y3, x4.trans y4⟩
    · intro w
      refine Nat.le_trans ?_ (e2.mono w)
      by_cases hw : w = a.p.week
      · subst hw; rw [e1.paid]; omega
      · rw [(e1.other w hw).2.2.2]
    · have hfun : (fun i => a'.c.paidW (a1.p.week + i) - a1.c.paidW (a1.p.week + i)) =
          (fun i => a'.c.paidW (a.p.week + (i + 1)) - a.c.paidW (a.p.week + (i + 1))) := by
        funext i
        rw [hw1, show a.p.week + 1 + i = a.p.week + (i + 1) by omega,
          (e1.other (a.p.week + (i + 1)) (by omega)).2.2.2]
      have hp0 : a'.c.paidW a.p.week = a1.c.paidW a.p.week := (hout2 a.p.week (by omega)).2.2.2
      rw [e2.rewards, hfun, hrw, sumRewards_append, List.range_succ_eq_map, List.map_cons,
        List.sum_cons, List.map_map]
      have : a'.c.paidW (a.p.week + 0) - a.c.paidW (a.p.week + 0) = sumRewards r := by
        rw [Nat.add_zero, hp0, e1.paid]; omega
      rw [this]
      simp only [Function.comp_def, Nat.succ_eq_add_one]
      omega
    · intro hok
      have p1 := e1.poolRel (hok _ (Nat.le_refl _) (by omega))
      refine p1.trans (e2.pool ?_)
      intro w hw1' hw2'
      exact e1.remOk_all w (hok w (by omega) (by omega))
    · intro w hok
      exact e2.remOk w (e1.remOk_all w hok)
    · rcases e2.cfg with h2c | h2c
      · rw [h2c]; exact e1.cfg
      · exact Or.inr h2c

/-! ### auxiliary: sums over week windows, `totalRewardsForWeek` through the energy update -/

theorem sum_map_zero {l : List Nat} {d : Nat → Nat} (h : ∀ i ∈ l, d i = 0) : (l.map d).sum = 0 := by
  induction l with
  | nil => rfl
  | cons x l ih =>
    rw [List.map_cons, List.sum_cons, h x (List.mem_cons_self ..), ih (fun i hi => h i (List.mem_cons_of_mem _ hi))]

/-- a sum over a window `[b, b+m)` of a function that vanishes outside the sub-window `[a, a+n)` -/
theorem sum_window (d : Nat → Nat) (a n b m : Nat) (hz : ∀ w, (w < a ∨ a + n ≤ w) → d w = 0)
    (h1 : b ≤ a) (h2 : a + n ≤ b + m) :
    ((List.range m).map fun i => d (b + i)).sum = ((List.range n).map fun i => d (a + i)).sum := by
  obtain ⟨k, rfl⟩ := Nat.exists_eq_add_of_le h1
  obtain ⟨t, rfl⟩ : ∃ t, m = k + n + t := ⟨b + m - (b + k + n), by omega⟩
  rw [List.range_add, List.range_add, List.map_append, List.map_append, List.sum_append,
    List.sum_append, List.map_map, List.map_map]
  rw [sum_map_zero (l := List.range k), sum_map_zero (l := List.range t)]
  · simp only [Function.comp_def, Nat.add_assoc, Nat.zero_add, Nat.add_zero]
  · intro i _
    exact hz _ (Or.inr (by simp only; omega))
  · intro i hi
    exact hz _ (Or.inl (by have := List.mem_range.mp hi; omega))

theorem shiftN_totalRewards : ∀ (n : Nat) {x y : Weekly.St} {t t' : Weekly.Totals},
    Weekly.shiftN n x t = some (y, t') → y.totalRewards = x.totalRewards := by
  intro n
  induction n with
  | zero =>
    intro x y t t' hh
    simp only [Weekly.shiftN, Option.some.injEq, Prod.mk.injEq] at hh
    rw [← hh.1]
  | succ n ih =>
    intro x y t t' hh
    simp only [Weekly.shiftN, Option.bind_eq_some_iff] at hh
    obtain ⟨⟨x1, t1⟩, hh1, hh2⟩ := hh
    have := ih hh2
    simp only [Weekly.shiftOnce, Option.bind_eq_bind, Option.bind_eq_some_iff, sub?_eq_some,
      Option.pure_def, Option.some.injEq, Prod.mk.injEq] at hh1
    obtain ⟨_, _, rfl, _⟩ := hh1
    exact this

/-- the weekly update only clears `totalRewardsForWeek(W − 5)` -/
theorem performWeeklyUpdate_totalRewards {g g' : Weekly.St} {W : Nat}
    (h : Weekly.performWeeklyUpdate g W = some g') (w : Nat) (hw : w + 5 ≠ W) :
    g'.totalRewards w = g.totalRewards w := by
  unfold Weekly.performWeeklyUpdate at h
  split at h
  · simp only [Option.some.injEq] at h; subst h; rfl
  split at h
  · simp only [Option.some.injEq] at h; subst h; rfl
  · simp only [Option.bind_eq_bind, Option.bind_eq_some_iff, req_eq_some] at h
    obtain ⟨_, _, ⟨g2, t2⟩, hs, hfin⟩ := h
    have e := shiftN_totalRewards _ hs
    simp only at e
    split at hfin
    · rename_i hW
      simp only [Option.pure_def, Option.some.injEq] at hfin
      subst hfin
      have hne : w ≠ W - Weekly.USER_MAX_CLAIM_WEEKS - 1 := by
        simp only [Weekly.USER_MAX_CLAIM_WEEKS] at hW ⊢; omega
      simp only [Weekly.upd_other _ _ hne]
      rw [e]
    · simp only [Option.pure_def, Option.some.injEq] at hfin
      subst hfin
      simp only
      rw [e]

theorem updateUserEnergy_totalRewards {g g1 : Weekly.St} {W : Nat} {cur : Energy}
    {o : Option ClaimProgress}
    (h : Weekly.updateUserEnergyForCurrentWeek g W cur o = some g1) (w : Nat) (hw : w + 5 ≠ W) :
    g1.totalRewards w = g.totalRewards w := by
  rw [Weekly.updateUserEnergyForCurrentWeek_eq] at h
  simp only [Weekly.updateGlobal, Option.bind_eq_bind, Option.bind_eq_some_iff, req_eq_some] at h
  obtain ⟨ga, ha1, _, _, ⟨gb, bp⟩, hre, gc, htk, hen⟩ := h
  dsimp only at htk hen
  rw [(Weekly.updateTotalEnergy_spec hen).2.2.2.2.2.1, (Weekly.updateTotalTokens_spec htk).2.2.2.2.2.1,
    (Weekly.reallocate_spec hre).2.2.1.totalRewards]
  exact performWeeklyUpdate_totalRewards ha1 w hw


/-! ### the endpoint helper `claimBoostedYields` -/

/-- what a successful `claimBoostedYields` does to the boosted sub-state, field by field -/
structure BoostEff (s s' : St) (r : Nat) : Prop where
  struct : ∃ w' b', s' = { s with w := w', b := b' }
  /-- no config (repaired `None` branch, F6): nothing is paid and the boosted sub-state is untouched;
      the weekly sub-state is the one of `updateEnergyAndProgress` (`claimBoostedYields_none_spec`) -/
  noCfg : s.b.cfg = none → r = 0 ∧ s'.b = s.b
  cfg : s'.b.cfg = s.b.cfg ∨ ∃ cfg W mem, s.b.cfg = some cfg ∧ s.week = some W ∧
    cfg.update W none = some mem ∧ s'.b.cfg = some mem
  cutW : s'.b.cutW = s.b.cutW
  collW : s'.b.collW = s.b.collW
  fsw : s'.b.farmSupplyWeek = s.b.farmSupplyWeek
  mono : ∀ w, s.b.paidW w ≤ s'.b.paidW w
  /-- only the last four completed weeks can change -/
  outside : ∀ W, s.week = some W → ∀ w, (w + 4 < W ∨ W ≤ w) →
    s'.b.accum w = s.b.accum w ∧ s'.b.remaining w = s.b.remaining w ∧ s'.b.paidW w = s.b.paidW w
  /-- the result is exactly the growth of the paid ghosts of the last four weeks -/
  result : ∀ W, s.week = some W →
    r = ((List.range 4).map fun i => s'.b.paidW (W - 4 + i) - s.b.paidW (W - 4 + i)).sum
  pool : (∀ W w, s.week = some W → W ≤ w + 4 → w < W → RemOk s.w s.b w) → PoolRel s.b s'.b
  remOk : ∀ W w, s.week = some W → w + 5 ≠ W → RemOk s.w s.b w → RemOk s'.w s'.b w

theorem claimBoostedYields_spec {s s' : St} {u r : Nat} (h : claimBoostedYields s u = some (s', r)) :
    BoostEff s s' r := by
  have hstruct := claimBoostedYields_struct h
  have h0 := h
  unfold claimBoostedYields at h
  split at h
  · rename_i hc
    clear h
    obtain ⟨rfl, hu⟩ := claimBoostedYields_none_spec hc h0
    simp only [updateEnergyAndProgress, Option.bind_eq_bind, Option.bind_eq_some_iff, Option.pure_def,
      Option.some.injEq] at hu
    obtain ⟨W, hW, g, hg, rfl⟩ := hu
    refine ⟨hstruct, fun _ => ⟨rfl, rfl⟩, Or.inl rfl, rfl, rfl, rfl, fun _ => Nat.le_refl _,
      fun _ _ _ _ => ⟨rfl, rfl, rfl⟩,
      fun _ _ => (sum_map_zero (fun _ _ => Nat.sub_self _)).symm, fun _ => PoolRel.refl _, ?_⟩
    intro W' w hW' hw5 hok
    rw [hW] at hW'; simp only [Option.some.injEq] at hW'; subst hW'
    simp only [Weekly.updateEnergyAndProgress, Option.bind_eq_bind, Option.bind_eq_some_iff,
      Option.pure_def, Option.some.injEq] at hg
    obtain ⟨g1, h1, rfl⟩ := hg
    unfold RemOk at hok ⊢
    have e : (Weekly.setProgress g1 u (if 0 < (Energy.queried (s.energy u) s.epoch).getEnergyAmount
        then some ⟨Energy.queried (s.energy u) s.epoch, W⟩ else none)).totalRewards w
        = s.w.totalRewards w := updateUserEnergy_totalRewards h1 w hw5
    simp only [e]
    exact hok
  · rename_i cfg hc
    simp only [Option.bind_eq_bind, Option.bind_eq_some_iff, Option.pure_def, Option.some.injEq,
      Prod.mk.injEq] at h
    obtain ⟨W, hW, mem, hmem, ⟨g', c', rl⟩, hx, hs', rfl⟩ := h
    obtain ⟨g1, a, h1, hle, ha, hg', hc', hrl⟩ := Weekly.claimMulti_spec hx
    have hb : s'.b = a.c := by rw [← hs', ← hc']
    have hw : s'.w = Weekly.setProgress a.g u (Weekly.newOf (Energy.queried (s.energy u) s.epoch) W) := by
      rw [← hs', ← hg']
    have hwt : s'.w.totalRewards = a.g.totalRewards := by rw [hw]; rfl
    have le := claimLoop_pool _ ha
    obtain ⟨hwin, hlen, _⟩ := Weekly.loop_window _ W hle
    generalize Weekly.loopLen (Weekly.startProgress (s.w.progress u) (Energy.queried (s.energy u) s.epoch) W) W = n at *
    generalize hst : (Weekly.loopStart (Weekly.startProgress (s.w.progress u) (Energy.queried (s.energy u) s.epoch) W) W) = p1 at *
    have hout := le.outside
    have hrew := le.rewards
    have hpool := le.pool
    have hrem := le.remOk
    simp only at hout hrew hpool hrem
    refine ⟨hstruct, fun hn => by rw [hc] at hn; simp at hn, ?_, by rw [hb]; exact le.cutW,
      by rw [hb]; exact le.collW, by rw [hb]; exact le.fsw, by rw [hb]; exact le.mono, ?_, ?_, ?_, ?_⟩
    · rcases le.cfg with hh | hh
      · exact Or.inl (by rw [hb]; exact hh)
      · exact Or.inr ⟨cfg, W, mem, hc, hW, hmem, by rw [hb]; exact hh⟩
    · intro W' hW' w hw'
      rw [hW] at hW'; simp only [Option.some.injEq] at hW'; subst hW'
      rw [hb]
      exact (hout w (by omega)).2
    · intro W' hW'
      rw [hW] at hW'; simp only [Option.some.injEq] at hW'; subst hW'
      rw [hrl, hrew, sumRewards_nil, Nat.zero_add, hb]
      exact (sum_window (fun w => a.c.paidW w - s.b.paidW w) p1.week n (W - 4) 4
        (fun w hw' => by rw [(hout w hw').2.2.2]; exact Nat.sub_self _) (by omega) (by omega)).symm
    · intro hinv
      rw [hb]
      apply hpool
      intro w hw1 hw2
      have := hinv W w hW (by omega) (by omega)
      unfold RemOk at this ⊢
      rw [updateUserEnergy_totalRewards h1 w (by omega)]
      exact this
    · intro W' w hW' hw5 hok
      rw [hW] at hW'; simp only [Option.some.injEq] at hW'; subst hW'
      have hok1 : RemOk g1 s.b w := by
        unfold RemOk at hok ⊢
        rw [updateUserEnergy_totalRewards h1 w hw5]
        exact hok
      have := hrem w hok1
      unfold RemOk at this ⊢
      rw [hwt, hb]
      exact this

/-- the state invariant that makes every freeze conservative: a claimable or future week that is
    not frozen yet has no remaining pool.  (Inductive: the weekly update only clears
    `totalRewardsForWeek(W − 5)`, see `performWeeklyUpdate_totalRewards`.) -/
def RemInv (s : St) : Prop := ∀ W w, s.week = some W → W ≤ w + 4 → RemOk s.w s.b w

theorem claimBoostedYields_remInv {s s' : St} {u r : Nat}
    (h : claimBoostedYields s u = some (s', r)) (hI : RemInv s) :
    RemInv s' ∧ PoolRel s.b s'.b := by
  have e := claimBoostedYields_spec h
  refine ⟨?_, e.pool (fun W w hW h1 _ => hI W w hW h1)⟩
  intro W w hW hw
  obtain ⟨w', b', rfl⟩ := e.struct
  have hW0 : s.week = some W := hW
  exact e.remOk W w hW0 (by omega) (hI W w hW0 hw)

/-! ### paid once (C11) -/

/-- a `claim_multi` whose start progress is already at the current week walks no week: no
    rewards, the contract state untouched — for ANY reward function -/
theorem claimMulti_same_week {σ : Type} {rw : Weekly.RewardFn σ} {g g' : Weekly.St} {c c' : σ}
    {u W : Nat} {cur : Energy} {r : List (Weekly.Tok × Nat)}
    (h : Weekly.claimMulti rw g c u W cur = some (g', c', r))
    (hp : ∀ p, g.progress u = some p → p.week = W) : r = [] ∧ c' = c := by
  obtain ⟨g1, a, _, _, ha, _, hc', hr⟩ := Weekly.claimMulti_spec h
  have hwk : (Weekly.startProgress (g.progress u) cur W).week = W := by
    cases hq : g.progress u with
    | none => rfl
    | some p => exact hp p hq
  have hlen : Weekly.loopLen (Weekly.startProgress (g.progress u) cur W) W = 0 := by
    unfold Weekly.loopLen
    rw [hwk, Nat.sub_self, Nat.zero_min]
  rw [hlen] at ha
  simp only [Weekly.claimLoop, Option.some.injEq] at ha
  subst ha
  exact ⟨hr, hc'⟩

/-- after a `claim_multi` in week `W` the user's progress, if any, is at week `W` -/
theorem claimMulti_progress_week {σ : Type} {rw : Weekly.RewardFn σ} (hrw : Weekly.RwFrame rw)
    {g g' : Weekly.St} {c c' : σ} {u W : Nat} {cur : Energy} {r : List (Weekly.Tok × Nat)}
    (h : Weekly.claimMulti rw g c u W cur = some (g', c', r)) :
    ∀ p, g'.progress u = some p → p.week = W := by
  intro p hp
  rw [(Weekly.claimMulti_progress hrw h).1] at hp
  unfold Weekly.newOf at hp
  split at hp
  · simp only [Option.some.injEq] at hp; subst hp; rfl
  · simp at hp

/-- **paid once**, on `claim_multi`: after a claim of `u` in week `W`, any further claim of `u`
    in week `W` (whatever happened to the rest of the state, with any reward function and any
    current energy) pays nothing and leaves the contract state alone -/
theorem claimMulti_twice {σ : Type} {rw rw' : Weekly.RewardFn σ} (hrw : Weekly.RwFrame rw)
    {g g1 g2 g3 : Weekly.St} {c c1 c2 c3 : σ} {u W : Nat} {cur cur' : Energy}
    {r1 r2 : List (Weekly.Tok × Nat)}
    (h1 : Weekly.claimMulti rw g c u W cur = some (g1, c1, r1))
    (hg : g2.progress u = g1.progress u)
    (h2 : Weekly.claimMulti rw' g2 c2 u W cur' = some (g3, c3, r2)) : r2 = [] ∧ c3 = c2 :=
  claimMulti_same_week h2 (fun p hp => claimMulti_progress_week hrw h1 p (hg ▸ hp))

/-- after `update_energy_and_progress(u)` the user's progress, if any, is at the current week -/
theorem updateEnergyAndProgress_progress {s s' : St} {u : Nat}
    (h : updateEnergyAndProgress s u = some s') :
    ∃ W, s.week = some W ∧ ∀ p, s'.w.progress u = some p → p.week = W := by
  simp only [updateEnergyAndProgress, Option.bind_eq_bind, Option.bind_eq_some_iff, Option.pure_def,
    Option.some.injEq] at h
  obtain ⟨W, hW, g, hg, rfl⟩ := h
  simp only [Weekly.updateEnergyAndProgress, Option.bind_eq_bind, Option.bind_eq_some_iff,
    Option.pure_def, Option.some.injEq] at hg
  obtain ⟨g1, _, rfl⟩ := hg
  refine ⟨W, hW, fun p hp => ?_⟩
  simp only [Weekly.setProgress, Weekly.upd_same] at hp
  split at hp
  · simp only [Option.some.injEq] at hp; subst hp; rfl
  · simp at hp

/-- after a boosted claim — with or without a boosted-yields config (the repaired `None` branch runs
    `update_energy_and_progress`, F6) — the user's progress, if any, is at the current week -/
theorem claimBoostedYields_progress {s s' : St} {u r : Nat}
    (h : claimBoostedYields s u = some (s', r)) :
    ∃ W, s.week = some W ∧ ∀ p, s'.w.progress u = some p → p.week = W := by
  have h0 := h
  unfold claimBoostedYields at h
  split at h
  · rename_i hn
    exact updateEnergyAndProgress_progress (claimBoostedYields_none_spec hn h0).2
  · simp only [Option.bind_eq_bind, Option.bind_eq_some_iff, Option.pure_def, Option.some.injEq,
      Prod.mk.injEq] at h
    obtain ⟨W, hW, mem, _, ⟨g', c', rl⟩, hx, hs', _⟩ := h
    refine ⟨W, hW, ?_⟩
    have : s'.w = g' := by rw [← hs']
    rw [this]
    exact claimMulti_progress_week (boostedRewards_frame _ _) hx

/-- a boosted claim of a user whose progress is already at the current week pays nothing and
    leaves the boosted sub-state alone -/
theorem claimBoostedYields_same_week {s s' : St} {u r W : Nat}
    (h : claimBoostedYields s u = some (s', r)) (hW : s.week = some W)
    (hp : ∀ p, s.w.progress u = some p → p.week = W) : r = 0 ∧ s'.b = s.b := by
  have h0 := h
  unfold claimBoostedYields at h
  split at h
  · rename_i hc
    obtain ⟨hr, hu⟩ := claimBoostedYields_none_spec hc h0
    obtain ⟨g, rfl⟩ := updateEnergyAndProgress_spec hu
    exact ⟨hr, rfl⟩
  · simp only [Option.bind_eq_bind, Option.bind_eq_some_iff, Option.pure_def, Option.some.injEq,
      Prod.mk.injEq] at h
    obtain ⟨W', hW', mem, _, ⟨g', c', rl⟩, hx, hs', rfl⟩ := h
    rw [hW] at hW'; simp only [Option.some.injEq] at hW'; subst hW'
    obtain ⟨hr, hc'⟩ := claimMulti_same_week hx hp
    refine ⟨by rw [hr]; rfl, ?_⟩
    rw [← hs']
    exact hc'

/-- 6. **paid once** (C11): after a successful boosted claim of `u` (with or without a config), any
    later boosted claim of `u` in the same week — in any state `s2` that still has `u`'s progress
    entry as the first claim left it — pays nothing and leaves the boosted sub-state alone -/
theorem paid_once {s s1 s2 s3 : St} {u r1 r2 : Nat}
    (h1 : claimBoostedYields s u = some (s1, r1))
    (hprog : s2.w.progress u = s1.w.progress u) (hweek : s2.week = s.week)
    (h2 : claimBoostedYields s2 u = some (s3, r2)) : r2 = 0 ∧ s3.b = s2.b := by
  obtain ⟨W, hW, hp⟩ := claimBoostedYields_progress h1
  exact claimBoostedYields_same_week h2 (hweek.trans hW) (fun p hq => hp p (hprog ▸ hq))

/-- 7. the boosted claim reads the user's farm position only through `userTotal u` -/
theorem claimBoostedYields_userTotal (s : St) (u : Nat) (t : Nat → Nat) (ht : t u = s.userTotal u) :
    claimBoostedYields { s with userTotal := t } u =
      (claimBoostedYields s u).map (fun r => ({ r.1 with userTotal := t }, r.2)) := by
  unfold claimBoostedYields
  cases hc : s.b.cfg with
  | none =>
    simp only [updateEnergyAndProgress, St.week]
    cases Weekly.weekOf s.epoch s.firstWeekStart with
    | none => rfl
    | some W =>
      simp only [Option.bind_eq_bind, Option.bind_some]
      cases Weekly.updateEnergyAndProgress s.w u W (Energy.queried (s.energy u) s.epoch) with
      | none => rfl
      | some g => rfl
  | some cfg =>
    simp only [St.week, ht]
    cases Weekly.weekOf s.epoch s.firstWeekStart with
    | none => rfl
    | some W =>
      simp only [Option.bind_eq_bind, Option.bind_some]
      cases cfg.update W none with
      | none => rfl
      | some mem =>
        simp only [Option.bind_some]
        cases Weekly.claimMulti (boostedRewards mem (s.userTotal u)) s.w s.b u W
            (Energy.queried (s.energy u) s.epoch) with
        | none => rfl
        | some x => rfl

end Mx.Farm
