/-
  The backing invariant of the proxy-dex model and its preservation by every operation,
  for arbitrary callee responses.
-/
import MxModel.Lemmas.ProxyDexSpec

namespace Mx.ProxyDex

/-- Every reserve recorded in an outstanding wrapped token is covered by the proxy's real
    balance of the same token, per key (locked-token nonce, farm token, wrapped-LP nonce), and
    every record's reserve covers its outstanding amount pro rata. -/
structure Backed (s : St) : Prop where
  lk : ∀ κ, R s κ ≤ s.lk κ
  hf : ∀ g φ, F s g φ ≤ s.hf g φ
  hw : ∀ w, H s w ≤ heldOf s w
  pt : Pt s

theorem backed_init (now : Nat) : Backed (init now) := by
  refine ⟨?_, ?_, ?_, ?_, ?_⟩
  · intro κ; simp [R, init, remAt, remPLk, WLp.dummy, WFarm.dummy]
  · intro g φ; simp [F, init, remFAt, WFarm.dummy]
  · intro w; simp [H, init, remPW, WFarm.dummy]
  · intro r hr; simp [init] at hr; subst hr; simp [WOk, WLp.dummy]
  · intro q hq; simp [init] at hq; subst hq; simp [FOk, WFarm.dummy]

theorem takeW_backed {s s' : St} {w x p : Nat} {r : WLp} {o : Bool} (hb : Backed s)
    (h : takeW s w x o = some (s', r, p)) : Backed s' := by
  obtain ⟨_, hR, hL, hF, hH, hhf, _, hheld, _, hpt⟩ := takeW_delta h
  refine ⟨?_, ?_, ?_, hpt hb.pt⟩
  · intro κ; have := hR κ; have := hL κ; have := hb.lk κ; omega
  · intro g φ; rw [hF, hhf]; exact hb.hf g φ
  · intro v; rw [hH, hheld]; exact hb.hw v

/-- `Backed` only looks at the token tables and the two ledgers -/
theorem Backed.congr {s s' : St} (h1 : s'.wl = s.wl) (h2 : s'.wf = s.wf) (h3 : s'.lk = s.lk)
    (h4 : s'.hf = s.hf) (hb : Backed s) : Backed s' := by
  have eR : ∀ κ, R s' κ = R s κ := fun κ => by simp only [R, h1, h2]
  have eF : ∀ g φ, F s' g φ = F s g φ := fun g φ => by simp only [F, h2]
  have eH : ∀ v, H s' v = H s v := fun v => by simp only [H, h2]
  have eh : ∀ v, heldOf s' v = heldOf s v := fun v => by simp only [heldOf, h1]
  refine ⟨?_, ?_, ?_, ?_⟩
  · intro κ; rw [eR, h3]; exact hb.lk κ
  · intro g φ; rw [eF, h4]; exact hb.hf g φ
  · intro v; rw [eH, eh]; exact hb.hw v
  · unfold Pt; rw [h1, h2]; exact hb.pt

/-- more locked tokens in the proxy never hurt -/
theorem Backed.lk_mono {s s' : St} (h1 : s'.wl = s.wl) (h2 : s'.wf = s.wf)
    (h3 : ∀ κ, s.lk κ ≤ s'.lk κ) (h4 : s'.hf = s.hf) (hb : Backed s) : Backed s' := by
  have eR : ∀ κ, R s' κ = R s κ := fun κ => by simp only [R, h1, h2]
  have eF : ∀ g φ, F s' g φ = F s g φ := fun g φ => by simp only [F, h2]
  have eH : ∀ v, H s' v = H s v := fun v => by simp only [H, h2]
  have eh : ∀ v, heldOf s' v = heldOf s v := fun v => by simp only [heldOf, h1]
  refine ⟨?_, ?_, ?_, ?_⟩
  · intro κ; rw [eR]; exact Nat.le_trans (hb.lk κ) (h3 κ)
  · intro g φ; rw [eF, h4]; exact hb.hf g φ
  · intro v; rw [eH, eh]; exact hb.hw v
  · unfold Pt; rw [h1, h2]; exact hb.pt

theorem learn_backed {s : St} (t : LkTok) (hb : Backed s) : Backed (learn s t) :=
  Backed.congr (s := s) (s' := learn s t) rfl rfl rfl rfl hb

theorem learnOpt_backed {s : St} (t : Option LkTok) (hb : Backed s) : Backed (learnOpt s t) := by
  cases t with
  | none => exact hb
  | some t => exact learn_backed t hb

theorem burnLocked_backed {s : St} (k a : Nat) (hb : Backed s) : Backed (burnLocked s k a) :=
  Backed.congr (s := s) (s' := burnLocked s k a) rfl rfl rfl rfl hb

theorem addStray_backed {s : St} (l : List LkTok) (hb : Backed s) : Backed (addStray s l) := by
  induction l generalizing s with
  | nil => exact hb
  | cons t ts ih =>
    apply ih
    refine Backed.lk_mono (s := s) (s' := { learn s t with lk := s.lk.add t.k t.amt })
      rfl rfl ?_ rfl hb
    intro κ
    simp only [learn, Bag.add_apply]
    split <;> omega

theorem newW_backed {s : St} (total k locked : Nat) (u : Bool) (hb : Backed s) :
    Backed (newW s total k locked u).1 := by
  obtain ⟨_, _, hR, hL, hheld, hwf, hhf, _, hpt⟩ := newW_delta s total k locked u
  refine ⟨?_, ?_, ?_, hpt hb.pt⟩
  · intro κ; rw [hR, hL]; have := hb.lk κ; omega
  · intro g φ; simp only [F, hwf, hhf]; exact hb.hf g φ
  · intro v
    have e : H (newW s total k locked u).1 v = H s v := by simp only [H, hwf]
    rw [e, hheld]
    by_cases hv : v = s.wl.length
    · subst hv
      have h0 := hb.hw s.wl.length
      have : heldOf s s.wl.length = 0 := by
        unfold heldOf; rw [List.getElem?_eq_none (Nat.le_refl _)]
      simp only [if_true]; omega
    · simp only [hv, if_false]; exact hb.hw v

/-- locked tokens arrive together with the wrapped farm token that records them -/
theorem newF_locked_backed {s : St} (farm fn fa k a : Nat) (hb : Backed s) :
    Backed (newF { s with lk := s.lk.add k a } farm fn fa .locked k a).1 := by
  obtain ⟨_, hR, hH, hF, hhf, hwl, hlk, _, hpt⟩ :=
    newF_delta { s with lk := s.lk.add k a } farm fn fa .locked k a
  refine ⟨?_, ?_, ?_, hpt hb.pt⟩
  · intro κ
    rw [hR, hlk]
    have := hb.lk κ
    have e : R { s with lk := s.lk.add k a } κ = R s κ := rfl
    rw [e]
    simp only [Bag.add_apply, true_and]
    by_cases hk : k = κ
    · subst hk; simp; omega
    · simp [hk, Ne.symm hk]; omega
  · intro g φ; rw [hF, hhf]; have := hb.hf g φ
    have e : F { s with lk := s.lk.add k a } g φ = F s g φ := rfl
    rw [e]; simp only; omega
  · intro v; rw [hH]
    have e : H { s with lk := s.lk.add k a } v = H s v := rfl
    have e2 : heldOf (newF { s with lk := s.lk.add k a } farm fn fa .locked k a).1 v = heldOf s v := by
      simp only [heldOf, hwl]
    rw [e, e2]; simp; exact hb.hw v

/-- a wrapped LP token created for the proxy itself and the wrapped farm token recording it -/
theorem newW_newF_backed {s : St} (total k locked farm fn fa : Nat) (hb : Backed s) :
    let sw := newW s total k locked false
    Backed (newF sw.1 farm fn fa .wlp sw.2 total).1 := by
  intro sw
  have hbw : Backed sw.1 := newW_backed total k locked false hb
  obtain ⟨hn, _, _, _, hheld, _, _, _, _⟩ := newW_delta s total k locked false
  obtain ⟨_, hR, hH, hF, hhf, hwl, hlk, _, hpt⟩ := newF_delta sw.1 farm fn fa .wlp sw.2 total
  refine ⟨?_, ?_, ?_, hpt hbw.pt⟩
  · intro κ; rw [hR, hlk]; have := hbw.lk κ; simp; exact this
  · intro g φ; rw [hF, hhf]; have := hbw.hf g φ; omega
  · intro v; rw [hH]
    have e2 : heldOf (newF sw.1 farm fn fa .wlp sw.2 total).1 v = heldOf sw.1 v := by
      simp only [heldOf, hwl]
    rw [e2]
    have h0 := hbw.hw v
    by_cases hv : sw.2 = v
    · subst hv
      have h1 := hheld sw.2
      have h2 : H sw.1 sw.2 ≤ 0 := by
        have e : H sw.1 sw.2 = H s sw.2 := by simp only [H]; rfl
        have h3 := hb.hw sw.2
        have : heldOf s sw.2 = 0 := by
          unfold heldOf; rw [hn, List.getElem?_eq_none (Nat.le_refl _)]
        omega
      rw [if_pos hn] at h1
      simp only [and_self, if_true]
      rw [h1]; simp; omega
    · simp [hv]; exact h0

theorem heldOf_of_get {s : St} {w : Nat} {rw : WLp} (h : s.wl[w]? = some rw) :
    heldOf s w = rw.held := by
  unfold heldOf; rw [h]

theorem takeF0_backed {s s1 : St} {f x p : Nat} {r : WFarm} (hb : Backed s)
    (h : takeF0 s f x = some (s1, r, p)) : Backed s1 := by
  obtain ⟨hR, hH, hF, hhf, hwl, hlk, _, hpt⟩ := takeF0_delta h
  refine ⟨?_, ?_, ?_, hpt hb.pt⟩
  · intro κ; have := hR κ; have := hb.lk κ; rw [hlk]; omega
  · intro g φ; have := hF g φ; have := hhf g φ; have := hb.hf g φ; omega
  · intro v; have := hH v; have := hb.hw v
    have e : heldOf s1 v = heldOf s v := by simp only [heldOf, hwl]
    omega

/-- redeeming (part of) a wrapped farm token keeps everything backed, whatever happens to the
    proxy-farming part -/
theorem takeF_backed {s s' : St} {f x : Nat} {mode : Mode} {t : Taken} (hb : Backed s)
    (h : takeF s f x mode = some (s', t)) : Backed s' := by
  simp only [takeF, Option.bind_eq_bind, Option.bind_eq_some_iff, Option.pure_def,
    Option.some.injEq, Prod.mk.injEq] at h
  obtain ⟨⟨s1, r, p⟩, h0, ⟨s2, k, q⟩, hs, rfl, rfl⟩ := h
  dsimp only at hs
  have hb1 := takeF0_backed hb h0
  obtain ⟨hR, hH, hF, hhf, hwl, hlk, _, _⟩ := takeF0_delta h0
  by_cases hm : mode = .keep
  · subst hm
    obtain ⟨rfl, _, _⟩ := settle_keep hs
    exact hb1
  · cases hk : r.kind with
    | locked =>
      obtain ⟨hle, _, _, rfl⟩ := settle_locked hm hk hs
      refine ⟨?_, hb1.hf, hb1.hw, hb1.pt⟩
      intro κ
      have := hR κ; have := hb.lk κ
      have e : R { s1 with lk := fun i => if i = r.pn then s1.lk i - p else s1.lk i } κ = R s1 κ := rfl
      rw [e]; simp only [hlk, hk, true_and] at *
      by_cases h2 : r.pn = κ
      · subst h2; simp at *; omega
      · simp [h2, Ne.symm h2] at *; omega
    | wlp =>
      cases mode with
      | keep => exact absurd rfl hm
      | out =>
        obtain ⟨rw, hrw, hle, _, _, rfl⟩ := settle_wlp_out hk hs
        obtain ⟨_, hR2, hheld2, hpt2⟩ := setW_delta s1 r.pn rw
          { rw with held := rw.held - p, circ := rw.circ + p } hrw rfl
        refine ⟨?_, ?_, ?_, ?_⟩
        · intro κ; have := hR2 κ; have := hb1.lk κ
          show R _ κ ≤ s1.lk κ
          simp only at *; omega
        · exact hb1.hf
        · intro v
          have e : H (setW s1 r.pn { rw with held := rw.held - p, circ := rw.circ + p }) v = H s1 v := rfl
          rw [e, hheld2]
          by_cases hv : v = r.pn
          · subst hv
            have h1 := hH r.pn; have h2 := hb.hw r.pn
            have e3 : heldOf s1 r.pn = heldOf s r.pn := by simp only [heldOf, hwl]
            have e4 := heldOf_of_get hrw
            rw [if_pos rfl]
            rw [if_pos ⟨hk, rfl⟩] at h1
            show H s1 r.pn ≤ rw.held - p
            omega
          · have h3 := hb1.hw v
            rw [if_neg hv]; exact h3
        · apply hpt2 _ hb1.pt
          have h0 : WOk rw := hb1.pt.1 rw (List.mem_of_getElem? hrw)
          unfold WOk at *; simp only
          have : rw.circ + p + (rw.held - p) = rw.circ + rw.held := by omega
          rw [this]; exact h0
      | dissolve o =>
        obtain ⟨rw, hrw, hle, hq, hrem, hlkq, _, rfl⟩ := settle_wlp_dissolve hk hs
        let rw' : WLp := ⟨rw.total, rw.k, rw.locked, rw.circ, rw.held - p,
          if o then rw.orph + p else rw.orph, rw.rem - q⟩
        obtain ⟨_, hR2, hheld2, hpt2⟩ := setW_delta s1 r.pn rw rw' hrw rfl
        have hpm := part_mul_le hq
        refine ⟨?_, ?_, ?_, ?_⟩
        · intro κ; have h1 := hR2 κ; have h2 := hb1.lk κ
          show R (setW s1 r.pn rw') κ ≤ (if κ = rw.k then s1.lk κ - q else s1.lk κ)
          by_cases h3 : rw.k = κ
          · subst h3
            rw [if_pos rfl, if_pos rfl] at h1; rw [if_pos rfl]
            show R (setW s1 r.pn rw') rw.k ≤ s1.lk rw.k - q
            have : rw'.rem = rw.rem - q := rfl
            omega
          · rw [if_neg h3, if_neg h3] at h1; rw [if_neg (Ne.symm h3)]; omega
        · exact hb1.hf
        · intro v
          show H (setW s1 r.pn rw') v ≤ heldOf (setW s1 r.pn rw') v
          have e : ∀ rw', H (setW s1 r.pn rw') v = H s1 v := fun _ => rfl
          rw [e, hheld2]
          by_cases hv : v = r.pn
          · subst hv
            have h1 := hH r.pn; have h2 := hb.hw r.pn
            have e3 : heldOf s1 r.pn = heldOf s r.pn := by simp only [heldOf, hwl]
            have e4 := heldOf_of_get hrw
            rw [if_pos rfl]
            rw [if_pos ⟨hk, rfl⟩] at h1
            show H s1 r.pn ≤ rw.held - p
            omega
          · have h3 := hb1.hw v
            rw [if_neg hv]; exact h3
        · show Pt (setW s1 r.pn rw')
          apply hpt2 _ hb1.pt
          have h0 : WOk rw := hb1.pt.1 rw (List.mem_of_getElem? hrw)
          unfold WOk at *
          show rw.locked * (rw.circ + (rw.held - p)) ≤ (rw.rem - q) * rw.total
          have e1 : (rw.rem - q) * rw.total + q * rw.total = rw.rem * rw.total := by
            rw [← Nat.add_mul]; congr 1; omega
          have e2 : rw.locked * (rw.circ + (rw.held - p)) + rw.locked * p
              = rw.locked * (rw.circ + rw.held) := by
            rw [← Nat.mul_add]; congr 1; omega
          omega

theorem takeWs_backed {s s' : St} {l : List (Nat × Nat)} {t : Nat} (hb : Backed s)
    (h : takeWs s l = some (s', t)) : Backed s' := by
  induction l generalizing s t with
  | nil =>
    simp only [takeWs, Option.some.injEq, Prod.mk.injEq] at h
    obtain ⟨rfl, _⟩ := h; exact hb
  | cons a l ih =>
    obtain ⟨w, x⟩ := a
    simp only [takeWs, Option.bind_eq_bind, Option.bind_eq_some_iff, Option.pure_def,
      Option.some.injEq, Prod.mk.injEq] at h
    obtain ⟨⟨s1, r, p⟩, h1, ⟨s2, t2⟩, h2, rfl, _⟩ := h
    exact ih (takeW_backed hb h1) h2

theorem takeFs_backed {s s' : St} {farm : Nat} {kind : Kind} {l : List (Nat × Nat)} {t : Nat}
    (hb : Backed s) (h : takeFs s farm kind l = some (s', t)) : Backed s' := by
  induction l generalizing s t with
  | nil =>
    simp only [takeFs, Option.some.injEq, Prod.mk.injEq] at h
    obtain ⟨rfl, _⟩ := h; exact hb
  | cons a l ih =>
    obtain ⟨f, x⟩ := a
    simp only [takeFs, Option.bind_eq_bind, Option.bind_eq_some_iff, Option.pure_def,
      Option.some.injEq, Prod.mk.injEq, req_eq_some] at h
    obtain ⟨⟨s1, tk⟩, h1, _, _, ⟨s2, t2⟩, h2, rfl, _⟩ := h
    exact ih (takeF_backed hb h1) h2

/-- scalar bookkeeping (mint / burn counters, LP balance, clock) does not touch the backing -/
theorem Backed.scalars {s : St} (hb : Backed s) (now lp minted burnB burnL : Nat) (eDed : Int)
    (unl : Bag) :
    Backed { s with now := now, lp := lp, minted := minted, burnB := burnB, burnL := burnL,
                    eDed := eDed, unl := unl } :=
  Backed.congr (s := s) rfl rfl rfl rfl hb

end Mx.ProxyDex
