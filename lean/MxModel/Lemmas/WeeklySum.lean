/-
  Sums over the explicit user list (`Weekly.St.users`) and the share-sum bound.
  Core lemmas only (no `BigOperators`).
-/
import MxModel.Core.Weekly
import Mathlib.Tactic.Ring
import Mathlib.Tactic.Linarith

namespace Mx.Weekly

/-- `Σ_{u ∈ l} f u` -/
def usum (l : List Nat) (f : Nat → Nat) : Nat := (l.map f).sum

@[simp] theorem usum_nil (f : Nat → Nat) : usum [] f = 0 := rfl
@[simp] theorem usum_cons (a : Nat) (l : List Nat) (f : Nat → Nat) :
    usum (a :: l) f = f a + usum l f := by simp [usum]

theorem usum_append (l1 l2 : List Nat) (f : Nat → Nat) :
    usum (l1 ++ l2) f = usum l1 f + usum l2 f := by
  simp [usum, List.sum_append]

theorem usum_add (l : List Nat) (f g : Nat → Nat) :
    usum l (fun u => f u + g u) = usum l f + usum l g := by
  induction l with
  | nil => simp
  | cons a l ih => simp only [usum_cons, ih]; omega

theorem usum_mul (l : List Nat) (c : Nat) (f : Nat → Nat) :
    usum l (fun u => c * f u) = c * usum l f := by
  induction l with
  | nil => simp
  | cons a l ih => simp only [usum_cons, ih]; ring

theorem usum_congr {l : List Nat} {f g : Nat → Nat} (h : ∀ u ∈ l, f u = g u) :
    usum l f = usum l g := by
  induction l with
  | nil => simp
  | cons a l ih =>
    simp only [usum_cons]
    rw [h a (by simp), ih (fun u hu => h u (by simp [hu]))]

theorem usum_zero {l : List Nat} {f : Nat → Nat} (h : ∀ u ∈ l, f u = 0) : usum l f = 0 := by
  rw [usum_congr (g := fun _ => 0) h]
  induction l with
  | nil => simp
  | cons a l ih => simp only [usum_cons]; rw [ih (fun u hu => h u (by simp [hu]))]

theorem usum_le {l : List Nat} {f g : Nat → Nat} (h : ∀ u ∈ l, f u ≤ g u) :
    usum l f ≤ usum l g := by
  induction l with
  | nil => simp
  | cons a l ih =>
    simp only [usum_cons]
    have := h a (by simp)
    have := ih (fun u hu => h u (by simp [hu]))
    omega

theorem le_usum {l : List Nat} {f : Nat → Nat} {u : Nat} (hu : u ∈ l) : f u ≤ usum l f := by
  induction l with
  | nil => simp at hu
  | cons a l ih =>
    simp only [usum_cons]
    rcases List.mem_cons.mp hu with rfl | h
    · omega
    · have := ih h; omega

/-- changing the summand at one user `u0` of a duplicate-free list -/
theorem usum_update {l : List Nat} (hnd : l.Nodup) {u0 : Nat} (hu : u0 ∈ l) {f g : Nat → Nat}
    (h : ∀ u ∈ l, u ≠ u0 → g u = f u) : usum l g + f u0 = usum l f + g u0 := by
  induction l with
  | nil => simp at hu
  | cons a l ih =>
    simp only [usum_cons]
    have hnd' := (List.nodup_cons.mp hnd)
    rcases List.mem_cons.mp hu with rfl | hmem
    · have : usum l g = usum l f := usum_congr (fun u hu' => h u (by simp [hu']) (by
        rintro rfl; exact hnd'.1 hu'))
      omega
    · have ha : a ≠ u0 := by rintro rfl; exact hnd'.1 hmem
      have := h a (by simp) ha
      have := ih hnd'.2 hmem (fun u hu' hne => h u (by simp [hu']) hne)
      omega

/-! ### the share-sum bound -/

theorem share_le (total e E : Nat) (h : e ≤ E) : share total e E ≤ total := by
  unfold share
  by_cases hE : E = 0
  · subst hE; simp
  · have : total * e ≤ total * E := Nat.mul_le_mul_left _ h
    calc total * e / E ≤ total * E / E := Nat.div_le_div_right this
      _ = total := Nat.mul_div_cancel _ (by omega)

theorem div_add_div_le (a b E : Nat) : a / E + b / E ≤ (a + b) / E := by
  by_cases hE : E = 0
  · subst hE; simp
  · have hE' : 0 < E := by omega
    rw [Nat.le_div_iff_mul_le hE']
    have := Nat.div_mul_le_self a E
    have := Nat.div_mul_le_self b E
    rw [Nat.add_mul]
    omega

/-- the shares of several claimers add up to at most the share of their joint energy -/
theorem usum_share_le (l : List Nat) (total E : Nat) (e : Nat → Nat) :
    usum l (fun u => share total (e u) E) ≤ share total (usum l e) E := by
  induction l with
  | nil => simp [share]
  | cons a l ih =>
    simp only [usum_cons]
    unfold share at *
    have := div_add_div_le (total * e a) (total * usum l e) E
    rw [← Nat.mul_add] at this
    omega

/-- **week sum bound (arithmetic core)**: if the claimers' energies for a week sum to at most the
    week's total energy, their shares of any reward amount sum to at most that amount. -/
theorem usum_share_le_total (l : List Nat) (total E : Nat) (e : Nat → Nat)
    (h : usum l e ≤ E) : usum l (fun u => share total (e u) E) ≤ total :=
  Nat.le_trans (usum_share_le l total E e) (share_le total _ E h)

end Mx.Weekly
