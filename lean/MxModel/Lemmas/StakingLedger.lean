/-
  History-level ledgers of the farm-staking model (C12):

    A. sums over the SUCCESSFUL transactions of a history (`histSum`, `histSumI`) and the two exact
       ledgers they give: `virt` = net stake registered through the proxy endpoints,
       `capacity` = top-ups − withdrawals;
    B. the accounts outside the proxy set: `PV.direct` (position units held by non-proxies) and
       `held + direct = supply`;
    C. one unbond token over time: its attributes never change, its outstanding units never grow,
       an `unbondFarm` lowers them by exactly what it pays (`step_unbond_token`, `run_unbond_token`);
    D. unbond liveness (`unbond_ok`): the side condition `pay ≤ balance` of `unbondFarm` follows from
       the invariants.
  Property theorems: Props/C12Ledger.lean.
-/
import MxModel.Lemmas.StakingVirt

namespace Mx.Staking

open Mx.Weekly

/-! ## A. sums over the successful transactions of a history -/

/-- `Σ f op` over the transactions of the history that succeed (executed from `s`) -/
def histSum (f : Op → Nat) : St → List Op → Nat
  | _, [] => 0
  | s, op :: ops =>
    match step s op with
    | some r => f op + histSum f r.1 ops
    | none => histSum f s ops

/-- the same with integer summands -/
def histSumI (f : Op → Int) : St → List Op → Int
  | _, [] => 0
  | s, op :: ops =>
    match step s op with
    | some r => f op + histSumI f r.1 ops
    | none => histSumI f s ops

theorem run_cons_some {s s1 : St} {op : Op} {o : Out} (ops : List Op) (h : step s op = some (s1, o)) :
    run s (op :: ops) = run s1 ops := by
  simp only [run, List.foldl_cons, h]

theorem run_cons_none {s : St} {op : Op} (ops : List Op) (h : step s op = none) :
    run s (op :: ops) = run s ops := by
  simp only [run, List.foldl_cons, h]

/-- `virt` after a history = `virt` before + the net of the successful proxy operations -/
theorem run_virt (ops : List Op) (s : St) : (run s ops).virt = s.virt + histSumI virtDelta s ops := by
  induction ops generalizing s with
  | nil => simp [run, histSumI]
  | cons op ops ih =>
    cases hst : step s op with
    | none => rw [run_cons_none ops hst, ih]; simp only [histSumI, hst]
    | some r =>
      obtain ⟨s1, o⟩ := r
      rw [run_cons_some ops hst, ih, (step_virt hst).1]
      simp only [histSumI, hst]
      omega

/-- capacity after a history + Σ withdrawals = capacity before + Σ top-ups -/
theorem run_capacity (ops : List Op) (s : St) :
    (run s ops).capacity + histSum capDown s ops = s.capacity + histSum capUp s ops := by
  induction ops generalizing s with
  | nil => simp [run, histSum]
  | cons op ops ih =>
    cases hst : step s op with
    | none => rw [run_cons_none ops hst]; simp only [histSum, hst]; exact ih s
    | some r =>
      obtain ⟨s1, o⟩ := r
      rw [run_cons_some ops hst]
      simp only [histSum, hst]
      have := ih s1
      have := (step_virt hst).2.2
      omega

/-! ## B. the accounts outside the proxy set -/

/-- the distinct accounts of the world that do NOT belong to `P` -/
def PV.dacc (P : List Nat) (v : PV) : List Nat := v.accts.filter (fun a => !decide (a ∈ P))

/-- position units held by accounts outside `P`: the DIRECTLY staked principal -/
def PV.direct (P : List Nat) (v : PV) : Nat := wsum v.hold (v.dacc P) (v.nonce + 1) (posW v.md)

theorem usum_filter_split (l : List Nat) (q : Nat → Bool) (f : Nat → Nat) :
    usum (l.filter q) f + usum (l.filter (fun a => !q a)) f = usum l f := by
  induction l with
  | nil => rfl
  | cons a l ih =>
    by_cases hq : q a = true
    · rw [List.filter_cons_of_pos hq, List.filter_cons_of_neg (by simp [hq])]
      simp only [usum_cons]; omega
    · rw [List.filter_cons_of_neg hq, List.filter_cons_of_pos (by simp [hq])]
      simp only [usum_cons]; omega

/-- proxies and non-proxies together hold the whole supply -/
theorem PosOK.held_add_direct {v : PV} (hI : PosOK v) (P : List Nat) :
    v.held P + v.direct P = v.supply := by
  rw [hI.sup]
  unfold PV.held PV.direct wsum
  rw [← usum_add]
  apply usum_congr
  intro n _
  rw [← Nat.mul_add]
  congr 1
  exact usum_filter_split v.accts (fun a => decide (a ∈ P)) (fun a => v.hold a n)

/-- explicit list form of `PV.direct` -/
theorem direct_explicit (P : List Nat) (v : PV) :
    v.direct P =
      ((List.range (v.nonce + 1)).map fun n =>
        match v.md n with
        | some (.pos _) => ((v.accts.filter fun a => !decide (a ∈ P)).map fun a => v.hold a n).sum
        | _ => 0).sum := by
  unfold PV.direct PV.dacc
  exact wsum_posW_explicit _ _ _ _

/-- explicit list form of `PV.held` -/
theorem held_explicit (P : List Nat) (v : PV) :
    v.held P =
      ((List.range (v.nonce + 1)).map fun n =>
        match v.md n with
        | some (.pos _) => ((v.accts.filter fun a => decide (a ∈ P)).map fun a => v.hold a n).sum
        | _ => 0).sum := by
  unfold PV.held PV.pacc
  exact wsum_posW_explicit _ _ _ _

/-! ## C. one unbond token over time -/

theorem paidOf_single (p : Pay) (n : Nat) : paidOf [p] n = if p.1 = n then p.2 else 0 := by
  simp [paidOf]

/-- every transition keeps an existing unbond token's attributes and never raises its
    outstanding units -/
theorem PTrans.unbond_le {v v' : PV} (hI : PosOK v) (h : PTrans v v') {n e : Nat}
    (hu : unbondOf v.md n = some e) (hn : n ≤ v.nonce) :
    unbondOf v'.md n = some e ∧ n ≤ v'.nonce ∧ outst v'.hold v'.accts n ≤ outst v.hold v.accts n := by
  obtain ⟨inc, base, _, h⟩ := h
  have hne : n ≠ v.nonce + 1 := by omega
  rcases h with rfl | ⟨c, user, pays, h0, ut1, ut2, tok, supply2, paid, hc, hd, _, _, _, _, _, rfl⟩ |
    ⟨c, pay, h0, attrs, e', x, supply2, paid, hc, hd, _, _, _, rfl⟩ |
    ⟨c, pays, h0, hc, hd, _, rfl⟩ | ⟨src, dst, pay, h0, hs, hdst, hd, rfl⟩
  · exact ⟨hu, hn, Nat.le_refl _⟩
  · refine ⟨?_, Nat.le_succ_of_le hn, ?_⟩
    · show unbondOf (upd v.md (v.nonce + 1) (some (.pos tok))) n = some e
      rw [unbondOf_upd_other _ _ hne]; exact hu
    · show outst (upd2 h0 c (v.nonce + 1) tok.amount) v.accts n ≤ outst v.hold v.accts n
      rw [outst_mint hc hI.nodup (hI.fresh hd) n, if_neg hne]
      have := outst_debit hd hc hI.nodup n
      omega
  · refine ⟨?_, Nat.le_succ_of_le hn, ?_⟩
    · show unbondOf (upd v.md (v.nonce + 1) (some (.unbond e'))) n = some e
      rw [unbondOf_upd_other _ _ hne]; exact hu
    · show outst (upd2 h0 c (v.nonce + 1) x) v.accts n ≤ outst v.hold v.accts n
      rw [outst_mint hc hI.nodup (hI.fresh hd) n, if_neg hne]
      have := outst_debit hd hc hI.nodup n
      omega
  · refine ⟨hu, hn, ?_⟩
    show outst h0 v.accts n ≤ outst v.hold v.accts n
    have := outst_debit hd hc hI.nodup n
    omega
  · refine ⟨hu, hn, ?_⟩
    show outst (upd2 h0 dst pay.1 (h0 dst pay.1 + pay.2)) v.accts n ≤ outst v.hold v.accts n
    rw [outst_credit hdst hI.nodup n, ← outst_debit hd hs hI.nodup n, paidOf_single]
    by_cases hk : n = pay.1
    · subst hk; simp
    · rw [if_neg hk, if_neg (fun e => hk e.symm)]

/-- what an operation pays out for the unbond token `n` (when it succeeds) -/
def unbondPaidOf (n : Nat) : Op → Nat
  | .unbond _ p => if p.1 = n then p.2 else 0
  | _ => 0

/-- one transaction and one existing unbond token `n`: the token stays an unbond token with the
    same unlock epoch, and its outstanding units drop by at least what the transaction paid out
    for it (exactly that for `unbondFarm`; other operations pay nothing for it) -/
theorem step_unbond_token {s s' : St} {op : Op} {o : Out} (hI : PosInv s)
    (h : step s op = some (s', o)) {n e : Nat} (hu : unbondOf s.md n = some e) (hn : n ≤ s.nonce) :
    unbondOf s'.md n = some e ∧ n ≤ s'.nonce ∧
      outst s'.hold s'.accts.dedup n + unbondPaidOf n op ≤ outst s.hold s.accts.dedup n := by
  have hgen := PTrans.unbond_le hI (step_ptrans h) hu hn
  by_cases hop : ∃ c p, op = .unbond c p
  · obtain ⟨c, p, rfl⟩ := hop
    obtain ⟨hc, hcore⟩ := step_core h
    simp only [callerOk, Op.caller, decide_eq_true_eq] at hc
    simp only [stepCore] at hcore
    refine ⟨hgen.1, hgen.2.1, ?_⟩
    simp only [unbondFarm, Option.bind_eq_bind, Option.bind_eq_some_iff, req_eq_some,
      sub?_eq_some, Option.pure_def, Option.some.injEq, Prod.mk.injEq] at hcore
    obtain ⟨hold0, hd, _, _, unlock, _, _, _, bal1, _, rfl, _⟩ := hcore
    have hI' : PosOK (pv s) := hI
    have := outst_debit hd (List.mem_dedup.mpr hc) hI'.nodup n
    rw [paidOf_single] at this
    show outst hold0 s.accts.dedup n + (if p.1 = n then p.2 else 0) ≤ outst s.hold s.accts.dedup n
    omega
  · have hz : unbondPaidOf n op = 0 := by
      cases op <;> first | rfl | exact absurd ⟨_, _, rfl⟩ hop
    rw [hz]
    exact ⟨hgen.1, hgen.2.1, hgen.2.2⟩

/-- **an unbond token over a whole history**: everything ever paid out for it plus what is still
    outstanding never exceeds what was outstanding at the start -/
theorem run_unbond_token (ops : List Op) {s : St} (hI : PosInv s) {n e : Nat}
    (hu : unbondOf s.md n = some e) (hn : n ≤ s.nonce) :
    unbondOf (run s ops).md n = some e ∧
      outst (run s ops).hold s.accts.dedup n + histSum (unbondPaidOf n) s ops
        ≤ outst s.hold s.accts.dedup n := by
  induction ops generalizing s with
  | nil => exact ⟨hu, by simp [run, histSum]⟩
  | cons op ops ih =>
    cases hst : step s op with
    | none =>
      rw [run_cons_none ops hst]
      simp only [histSum, hst]
      exact ih hI hu hn
    | some r =>
      obtain ⟨s1, o⟩ := r
      rw [run_cons_some ops hst]
      simp only [histSum, hst]
      obtain ⟨h1, h2, h3⟩ := step_unbond_token hI hst hu hn
      obtain ⟨i1, i2⟩ := ih (step_posInv hI hst) h1 h2
      rw [step_accts hst] at i2 h3
      exact ⟨i1, by omega⟩

/-- the unbond token minted by a successful unstake: it exists, unlocks `minUnbondEpochs` later,
    and its outstanding units are exactly the amount the transaction reports -/
theorem unstakeCore_outst {s s' : St} {c orig : Nat} {pay : Pay} {x : Option Nat} {o : Out}
    (hI : PosInv s) (hc : c ∈ s.accts) (h : unstakeCore s c orig pay x = some (s', o)) :
    PosInv s' ∧ unbondOf s'.md o.a = some (s.epoch + s.minUnbond) ∧ o.a ≤ s'.nonce ∧
      outst s'.hold s'.accts.dedup o.a = o.b := by
  have hI' : PosOK (pv s) := hI
  have hP' : PosInv s' := PosOK.trans hI (unstakeCore_ptrans hc h)
  obtain ⟨u1, u2, _, u4, u5, _, _, _⟩ := unstakeCore_unbond h
  obtain ⟨inc, base, hold0, attrs, tok, e, _, hd, _, ht, _, e'⟩ := unstakeCore_pv h
  obtain ⟨_, _, t3, _⟩ := intoPart_spec ht
  have hacc : s'.accts = s.accts := congrArg PV.raw e'
  have hhold : s'.hold = upd2 hold0 c (s.nonce + 1) (x.getD tok.amount) := congrArg PV.hold e'
  refine ⟨hP', ?_, ?_, ?_⟩
  · rw [u4]; exact unbondOf_eq_some.mpr u2
  · rw [u4, u1]
  · have hfresh : ∀ a, hold0 a (s.nonce + 1) = 0 := hI'.fresh hd
    have hnd : s.accts.dedup.Nodup := hI'.nodup
    rw [u4, u5, hacc, hhold, outst_mint (List.mem_dedup.mpr hc) hnd hfresh (s.nonce + 1), if_pos rfl, t3]

/-! ## D. unbond liveness -/

/-- a holding of an unbond token is part of the outstanding unbond units -/
theorem hold_le_unbond_units {s : St} (hP : PosInv s) {c n e : Nat}
    (hm : s.md n = some (.unbond e)) (hne : s.hold c n ≠ 0) :
    s.hold c n ≤ wsum s.hold s.accts.dedup (s.nonce + 1) (unbW s.md) := by
  have hP' : PosOK (pv s) := hP
  obtain ⟨hc, hn⟩ := hP'.dom c n hne
  have h1 : s.hold c n ≤ outst s.hold s.accts.dedup n :=
    le_usum (f := fun a => s.hold a n) hc
  have h2 : unbW s.md n * outst s.hold s.accts.dedup n ≤
      wsum s.hold s.accts.dedup (s.nonce + 1) (unbW s.md) :=
    le_usum (f := fun k => unbW s.md k * outst s.hold s.accts.dedup k)
      (List.mem_range.mpr (show n < s.nonce + 1 by exact Nat.lt_succ_of_le hn))
  rw [unbW_some (unbondOf_eq_some.mpr hm), Nat.one_mul] at h2
  omega

/-- the balance covers the outstanding unbond units as soon as `virt ≤ supply` -/
theorem unbond_units_le_bal {s : St} (hInv : Inv s) (hU : UnbInv s) (hv : s.virt ≤ (s.supply : Int)) :
    (wsum s.hold s.accts.dedup (s.nonce + 1) (unbW s.md) : Int) ≤ s.bal := by
  have h1 := hInv.bal_eq
  have h2 := hInv.acc_le
  have h3 : s.unbondOut = ((wsum s.hold s.accts.dedup (s.nonce + 1) (unbW s.md) : Nat) : Int) := hU
  omega

/-- **unbond liveness**: in a state satisfying the invariants, on an active contract, the holder
    of `x` units of an unbond token whose unlock epoch has arrived unbonds successfully and is
    paid exactly `x`; the side condition `x ≤ balance` is a consequence -/
theorem unbond_ok {P : List Nat} {s : St} (hInv : Inv s) (hP : PosInv s) (hU : UnbInv s)
    (hV : VirtOK P s) (hact : s.active = true) {c n e x : Nat} (hm : s.md n = some (.unbond e))
    (he : e ≤ s.epoch) (hx : 0 < x) (hh : x ≤ s.hold c n) :
    x ≤ s.bal ∧
    step s (.unbond c (n, x)) =
      some ({ s with hold := upd2 s.hold c n (s.hold c n - x), bal := s.bal - x,
                     unbondOut := s.unbondOut - (x : Int) }, ⟨0, x, 0⟩) := by
  have hP' : PosOK (pv s) := hP
  have hne : s.hold c n ≠ 0 := by omega
  obtain ⟨hc, _⟩ := hP'.dom c n hne
  have hc' : c ∈ s.accts := List.mem_dedup.mp hc
  have hv : s.virt ≤ (s.supply : Int) := by
    have h1 : s.virt = ((pv s).held P : Nat) := hV
    have h2 : (pv s).held P ≤ s.supply := hP'.held_le P
    omega
  have h1 := hold_le_unbond_units hP hm hne
  have h2 := unbond_units_le_bal hInv hU hv
  have hbal : x ≤ s.bal := by omega
  refine ⟨hbal, ?_⟩
  have hco : callerOk s (.unbond c (n, x)) = true := by
    simp only [callerOk, Op.caller, decide_eq_true_eq]; exact hc'
  have hreq : req (callerOk s (.unbond c (n, x)) = true) = some () := (req_eq_some ()).2 hco
  simp only [step, hreq, Option.bind_eq_bind, Option.bind_some, stepCore]
  exact unbondFarm_iff.2 ⟨hx, hh, hact, ⟨e, hm, he⟩, hbal, rfl, rfl⟩

end Mx.Staking
