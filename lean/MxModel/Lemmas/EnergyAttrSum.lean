/-
  C08 with an explicit attribution ledger — the arithmetic layer.

  The attribution ledger of an account is a row `g : nonce → Int` (signed: a trusted proxy can make
  an account spend tokens whose energy was booked on somebody else, see Props/C08Attr).  This file
  has the two sums over a signed row, the notion "entry `e` tracks row `g`", and the fact that every
  primitive of energy.rs moves an entry by `d·(unlock − now)` / `d` for a signed amount `d`
  (`Moves`), independently of what the entry tracked before.
-/
import MxModel.Lemmas.EnergyInv

namespace Mx.Energy

/-- Σ_i g(k+i) over the nonces `k, k+1, …` -/
def sumTZ (g : Nat → Int) : Nat → List Nat → Int
  | _, [] => 0
  | k, _ :: es => g k + sumTZ g (k + 1) es

/-- Σ_i g(k+i)·(unlock_i − now) -/
def sumEZ (g : Nat → Int) (now : Nat) : Nat → List Nat → Int
  | _, [] => 0
  | k, e :: es => g k * ((e : Int) - (now : Int)) + sumEZ g now (k + 1) es

theorem sumTZ_add (g d : Nat → Int) (k : Nat) (ns : List Nat) :
    sumTZ (fun n => g n + d n) k ns = sumTZ g k ns + sumTZ d k ns := by
  induction ns generalizing k with
  | nil => simp [sumTZ]
  | cons x xs ih => simp only [sumTZ, ih (k + 1)]; ring

theorem sumEZ_add (g d : Nat → Int) (now k : Nat) (ns : List Nat) :
    sumEZ (fun n => g n + d n) now k ns = sumEZ g now k ns + sumEZ d now k ns := by
  induction ns generalizing k with
  | nil => simp [sumEZ]
  | cons x xs ih => simp only [sumEZ, ih (k + 1)]; ring

theorem sumTZ_zero (d : Nat → Int) (k : Nat) (ns : List Nat) (h : ∀ m, k ≤ m → d m = 0) :
    sumTZ d k ns = 0 := by
  induction ns generalizing k with
  | nil => rfl
  | cons x xs ih =>
    simp only [sumTZ]
    rw [h k (Nat.le_refl k), ih (k + 1) (fun m hm => h m (by omega))]
    simp

theorem sumEZ_zero (d : Nat → Int) (now k : Nat) (ns : List Nat) (h : ∀ m, k ≤ m → d m = 0) :
    sumEZ d now k ns = 0 := by
  induction ns generalizing k with
  | nil => rfl
  | cons x xs ih =>
    simp only [sumEZ]
    rw [h k (Nat.le_refl k), ih (k + 1) (fun m hm => h m (by omega))]
    simp

/-- a row that is zero except at the valid nonce `n` -/
theorem sumTZ_single (d : Nat → Int) (n k u : Nat) (ns : List Nat) (hk : k ≤ n)
    (hget : ns[n - k]? = some u) (h0 : ∀ m, m ≠ n → d m = 0) : sumTZ d k ns = d n := by
  induction ns generalizing k with
  | nil => simp at hget
  | cons x xs ih =>
    simp only [sumTZ]
    rcases Nat.eq_or_lt_of_le hk with heq | hlt
    · subst heq
      rw [sumTZ_zero d (k + 1) xs (fun m hm => h0 m (by omega))]
      simp
    · have h' : xs[n - (k + 1)]? = some u := by
        have : n - k = (n - (k + 1)) + 1 := by omega
        rw [this] at hget
        simpa using hget
      rw [h0 k (by omega), ih (k + 1) (by omega) h']
      simp

theorem sumEZ_single (d : Nat → Int) (now n k u : Nat) (ns : List Nat) (hk : k ≤ n)
    (hget : ns[n - k]? = some u) (h0 : ∀ m, m ≠ n → d m = 0) :
    sumEZ d now k ns = d n * ((u : Int) - (now : Int)) := by
  induction ns generalizing k with
  | nil => simp at hget
  | cons x xs ih =>
    simp only [sumEZ]
    rcases Nat.eq_or_lt_of_le hk with heq | hlt
    · subst heq
      rw [sumEZ_zero d now (k + 1) xs (fun m hm => h0 m (by omega))]
      have : x = u := by simpa using hget
      subst this
      simp
    · have h' : xs[n - (k + 1)]? = some u := by
        have : n - k = (n - (k + 1)) + 1 := by omega
        rw [this] at hget
        simpa using hget
      rw [h0 k (by omega), ih (k + 1) (by omega) h']
      simp

theorem sumTZ_append (g : Nat → Int) (k e : Nat) (ns : List Nat) :
    sumTZ g k (ns ++ [e]) = sumTZ g k ns + g (k + ns.length) := by
  induction ns generalizing k with
  | nil => simp [sumTZ]
  | cons x xs ih =>
    simp only [List.cons_append, sumTZ, ih (k + 1), List.length_cons]
    have : k + 1 + xs.length = k + (xs.length + 1) := by omega
    rw [this]; ring

theorem sumEZ_append (g : Nat → Int) (now k e : Nat) (ns : List Nat) :
    sumEZ g now k (ns ++ [e]) =
      sumEZ g now k ns + g (k + ns.length) * ((e : Int) - (now : Int)) := by
  induction ns generalizing k with
  | nil => simp [sumEZ]
  | cons x xs ih =>
    simp only [List.cons_append, sumEZ, ih (k + 1), List.length_cons]
    have : k + 1 + xs.length = k + (xs.length + 1) := by omega
    rw [this]; ring

/-- linear decay of a signed row -/
theorem sumEZ_shift (g : Nat → Int) (now d k : Nat) (ns : List Nat) :
    sumEZ g (now + d) k ns = sumEZ g now k ns - (d : Int) * sumTZ g k ns := by
  induction ns generalizing k with
  | nil => simp [sumEZ, sumTZ]
  | cons x xs ih =>
    simp only [sumEZ, sumTZ, ih (k + 1)]
    push_cast
    ring

/-- the sums over a row of natural numbers are the signed sums of its cast -/
theorem sumT_cast (f : Nat → Nat) (k : Nat) (ns : List Nat) :
    ((sumT f k ns : Nat) : Int) = sumTZ (fun n => (f n : Int)) k ns := by
  induction ns generalizing k with
  | nil => simp [sumT, sumTZ]
  | cons x xs ih => simp only [sumT, sumTZ, ← ih (k + 1)]; push_cast; ring

theorem sumE_cast (f : Nat → Nat) (now k : Nat) (ns : List Nat) :
    sumE f now k ns = sumEZ (fun n => (f n : Int)) now k ns := by
  induction ns generalizing k with
  | nil => simp [sumE, sumEZ]
  | cons x xs ih => simp only [sumE, sumEZ, ih (k + 1)]

/-- growing the nonce list by one nonce on which the row is zero changes neither sum -/
theorem sums_grow (g : Nat → Int) (now : Nat) {ns ns' : List Nat}
    (hn : ns' = ns ∨ ∃ u, ns' = ns ++ [u]) (h0 : g (ns.length + 1) = 0) :
    sumEZ g now 1 ns' = sumEZ g now 1 ns ∧ sumTZ g 1 ns' = sumTZ g 1 ns := by
  rcases hn with rfl | ⟨u, rfl⟩
  · exact ⟨rfl, rfl⟩
  · rw [sumEZ_append, sumTZ_append, Nat.add_comm 1, h0]
    simp

/-! ### an entry that tracks a signed row -/

/-- `e` (already depleted to `now`) is exactly the pair of sums of the signed row `g` -/
def TracksZ (e : Entry) (g : Nat → Int) (ns : List Nat) (now : Nat) : Prop :=
  e.E = sumEZ g now 1 ns ∧ (e.T : Int) = sumTZ g 1 ns ∧ e.last = now

/-- a `Nat` row is tracked in the old sense iff its cast is tracked in the signed sense -/
theorem tracksZ_cast {e : Entry} {f : Nat → Nat} {ns : List Nat} {now : Nat} :
    TracksZ e (fun n => (f n : Int)) ns now ↔ Tracks e f ns now := by
  unfold TracksZ Tracks
  rw [← sumE_cast, ← sumT_cast]
  constructor
  · rintro ⟨h1, h2, h3⟩; exact ⟨h1, by exact_mod_cast h2, h3⟩
  · rintro ⟨h1, h2, h3⟩; exact ⟨h1, by exact_mod_cast h2, h3⟩

/-- depleting a tracking entry to a later epoch keeps it tracking (linear decay) -/
theorem TracksZ.deplete {e : Entry} {g : Nat → Int} {ns : List Nat} {now now' : Nat}
    (h : TracksZ e g ns now) (hle : now ≤ now') : TracksZ (e.deplete now') g ns now' := by
  obtain ⟨hE, hT, hl⟩ := h
  obtain ⟨d, rfl⟩ := Nat.exists_eq_add_of_le hle
  unfold Entry.deplete
  split
  · rename_i heq
    have : d = 0 := by omega
    subst this
    exact ⟨hE, hT, hl⟩
  · rename_i hne
    refine ⟨?_, ?_, rfl⟩
    · rw [sumEZ_shift]
      split
      · rename_i hpos
        simp only [Entry.subtract, hl]
        have : ¬ now + d ≤ now := by omega
        simp only [this, if_false]
        rw [cast_mul_sub e.T (now + d) now (by omega), hE, hT]
        push_cast
        ring
      · rename_i hz
        have h0 : e.T = 0 := by omega
        simp only
        rw [hE, ← hT, h0]
        simp
    · split
      · simp only [Entry.subtract]; split <;> exact hT
      · exact hT

theorem TracksZ.congr {e : Entry} {g g' : Nat → Int} {ns : List Nat} {now : Nat}
    (h : TracksZ e g ns now) (hg : ∀ n, g' n = g n) : TracksZ e g' ns now := by
  have : g' = g := funext hg
  rw [this]; exact h

/-! ### how the primitives of energy.rs move an entry -/

/-- `e'` is `e` after booking the signed amount `d` of a token with unlock epoch `u` -/
def Moves (e e' : Entry) (d : Int) (u now : Nat) : Prop :=
  e'.E = e.E + d * ((u : Int) - (now : Int)) ∧ (e'.T : Int) = (e.T : Int) + d ∧ e'.last = e.last

theorem moves_addAfterLock (e : Entry) {amt u now : Nat} (hu : now ≤ u) :
    Moves e (e.addAfterLock amt u now) (amt : Int) u now := by
  refine ⟨?_, ?_, ?_⟩
  · simp only [Entry.addAfterLock, Entry.add]
    split
    · have : u = now := by omega
      subst this
      simp
    · rw [cast_mul_sub amt u now hu]
  · simp only [Entry.addAfterLock]; push_cast; ring
  · simp only [Entry.addAfterLock, Entry.add]
    split <;> rfl

theorem moves_addExpired (e : Entry) {amt u now : Nat} (hu : u ≤ now) :
    Moves e (e.addExpired amt u now) (amt : Int) u now := by
  refine ⟨?_, ?_, rfl⟩
  · simp only [Entry.addExpired]
    rw [cast_mul_sub amt now u hu]
    ring
  · simp only [Entry.addExpired]; push_cast; ring

theorem moves_restoreCancel (e : Entry) (amt u now : Nat) :
    Moves e (e.restoreCancel amt u now) (amt : Int) u now := by
  unfold Entry.restoreCancel
  split
  · rename_i hle; exact moves_addAfterLock e hle
  · rename_i hgt; exact moves_addExpired e (by omega)

theorem moves_addDest (e : Entry) (amt u now : Nat) :
    Moves e (e.addDest amt u now) (amt : Int) u now := by
  unfold Entry.addDest
  split
  · rename_i hlt; exact moves_addAfterLock e (by omega)
  · rename_i hge; exact moves_addExpired e (by omega)

theorem moves_refund {e e' : Entry} {amt u now : Nat} (hu : u ≤ now)
    (hr : e.refundAfterUnlock amt u now = some e') : Moves e e' (-(amt : Int)) u now := by
  simp only [Entry.refundAfterUnlock, Option.bind_eq_bind, Option.bind_eq_some_iff, sub?_eq_some,
    Option.pure_def, Option.some.injEq] at hr
  obtain ⟨t, ⟨hle, rfl⟩, rfl⟩ := hr
  refine ⟨?_, ?_, ?_⟩
  · simp only [Entry.add]
    split
    · have : u = now := by omega
      subst this
      simp
    · rw [cast_mul_sub amt now u hu]
      ring
  · simp only []
    rw [Int.ofNat_sub hle]; ring
  · simp only [Entry.add]
    split <;> rfl

theorem moves_early {e e' : Entry} {amt u now : Nat} (hu : now ≤ u)
    (hr : e.depleteAfterEarly amt u now = some e') : Moves e e' (-(amt : Int)) u now := by
  simp only [Entry.depleteAfterEarly, Option.bind_eq_bind, Option.bind_eq_some_iff, sub?_eq_some,
    Option.pure_def, Option.some.injEq] at hr
  obtain ⟨t, ⟨hle, rfl⟩, rfl⟩ := hr
  refine ⟨?_, ?_, ?_⟩
  · simp only [Entry.subtract]
    split
    · have : u = now := by omega
      subst this
      simp
    · rw [cast_mul_sub amt u now hu]
      ring
  · simp only []
    rw [Int.ofNat_sub hle]; ring
  · simp only [Entry.subtract]
    split <;> rfl

theorem moves_unlockAny {e e' : Entry} {amt u now : Nat}
    (hr : e.afterUnlockAny amt u now = some e') : Moves e e' (-(amt : Int)) u now := by
  unfold Entry.afterUnlockAny at hr
  split at hr
  · rename_i hlt; exact moves_refund (by omega) hr
  · rename_i hge; exact moves_early (by omega) hr

end Mx.Energy
