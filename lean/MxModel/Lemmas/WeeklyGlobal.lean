/-
  The global bookkeeping of weekly-rewards-splitting as a multiset of lots (DESIGN.md C10):
  relation between the per-user claim progress entries and the global totals / buckets, and
  its preservation by the weekly shift (`shiftOnce`, `shiftN`, `performWeeklyUpdate`).
-/
import MxModel.Lemmas.WeeklyLot
import MxModel.Lemmas.WeeklySum
import MxModel.Lemmas.WeeklyEnergy

namespace Mx.Weekly

/-- the lot a progress entry stands for in week `W` (an absent entry is an empty lot) -/
def lotAt (o : Option ClaimProgress) (W : Nat) : Lot :=
  match o with
  | some p => ⟨p.energy.getEnergyAmount, p.energy.totalLocked, W - p.week⟩
  | none => ⟨0, 0, W⟩

/-- well-formedness of the progress table w.r.t. the user list and the week `W` -/
structure PRel (prog : Nat → Option ClaimProgress) (users : List Nat) (W : Nat) : Prop where
  nodup : users.Nodup
  mem : ∀ u, prog u ≠ none → u ∈ users
  pos : ∀ u p, prog u = some p → 0 < p.energy.amount ∧ p.week ≤ W

/-- the totals `(tE, tT)` of week `W` and the buckets from `F` on are exactly the lots of the
    progress table, plus `orph` tokens of zero-energy orphan lots in the first bucket -/
structure LRel (prog : Nat → Option ClaimProgress) (users : List Nat) (F : Nat)
    (buckets : Nat → Bucket) (W tE tT orph : Nat) : Prop where
  energy : tE = usum users fun u => (lotAt (prog u) W).contrib
  tokens : tT = usum users (fun u => (lotAt (prog u) W).tok) + orph
  bTok : ∀ d, (buckets (F + d)).tokens =
    usum users (fun u => (lotAt (prog u) W).bTok d) + (if d = 0 then orph else 0)
  bSur : ∀ d, (buckets (F + d)).surplus = usum users (fun u => (lotAt (prog u) W).bSur d)

theorem PRel.mono {prog users W W'} (h : PRel prog users W) (hw : W ≤ W') : PRel prog users W' :=
  ⟨h.nodup, h.mem, fun u p hp => ⟨(h.pos u p hp).1, Nat.le_trans (h.pos u p hp).2 hw⟩⟩

theorem lotAt_succ {prog : Nat → Option ClaimProgress} {users W} (hP : PRel prog users W) (u : Nat) :
    lotAt (prog u) (W + 1) = (lotAt (prog u) W).next := by
  unfold lotAt Lot.next
  cases hp : prog u with
  | none => simp
  | some p =>
    have := (hP.pos u p hp).2
    simp only [Lot.mk.injEq, true_and]
    omega

theorem lotAt_ha {prog : Nat → Option ClaimProgress} {users W} (hP : PRel prog users W) (u : Nat) :
    (lotAt (prog u) W).T = 0 ∨ 0 < (lotAt (prog u) W).a := by
  unfold lotAt
  cases hp : prog u with
  | none => simp
  | some p =>
    have := (hP.pos u p hp).1
    right
    simp only [Energy.getEnergyAmount]
    omega

/-- ONE weekly shift keeps the lot relation, with every lot one week older; the orphans of the
    first bucket are gone. -/
theorem shiftOnce_LRel {prog : Nat → Option ClaimProgress} {users : List Nat} {g g' : St}
    {t t' : Totals} {W orph : Nat} (hP : PRel prog users W)
    (hL : LRel prog users g.firstBucketId g.buckets W t.energy t.tokens orph)
    (h : shiftOnce g t = some (g', t')) :
    LRel prog users g'.firstBucketId g'.buckets (W + 1) t'.energy t'.tokens 0 ∧
    g'.firstBucketId = g.firstBucketId + 1 ∧
    g'.progress = g.progress ∧ g'.users = g.users ∧ g'.totalEnergy = g.totalEnergy ∧
    g'.totalLocked = g.totalLocked ∧ g'.totalRewards = g.totalRewards ∧
    g'.lastGlobalUpdateWeek = g.lastGlobalUpdateWeek := by
  simp only [shiftOnce, Option.bind_eq_bind, Option.bind_eq_some_iff, sub?_eq_some,
    Option.pure_def, Option.some.injEq, Prod.mk.injEq] at h
  obtain ⟨tk, ⟨hle, rfl⟩, rfl, rfl⟩ := h
  have hb0 := hL.bTok 0
  have hs0 := hL.bSur 0
  simp only [Nat.add_zero, if_true] at hb0 hs0
  -- per-user shift facts, summed
  have htok : usum users (fun u => (lotAt (prog u) W).tok) =
      usum users (fun u => (lotAt (prog u) (W + 1)).tok) +
      usum users (fun u => (lotAt (prog u) W).bTok 0) := by
    rw [← usum_add]
    exact usum_congr (fun u _ => by rw [lotAt_succ hP u]; exact Lot.tok_shift _)
  have hcon : usum users (fun u => (lotAt (prog u) W).contrib) =
      usum users (fun u => (lotAt (prog u) (W + 1)).contrib) +
      7 * usum users (fun u => (lotAt (prog u) (W + 1)).tok) +
      usum users (fun u => (lotAt (prog u) W).bSur 0) := by
    rw [← usum_mul, ← usum_add, ← usum_add]
    exact usum_congr (fun u _ => by
      rw [lotAt_succ hP u]; exact Lot.contrib_shift _ (lotAt_ha hP u))
  have hE := hL.energy
  have hT := hL.tokens
  refine ⟨⟨?_, ?_, ?_, ?_⟩, rfl, rfl, rfl, rfl, rfl, rfl, rfl⟩
  · simp only [safeSub, EPOCHS_IN_WEEK]
    omega
  · simp only
    omega
  · intro d
    have hne : g.firstBucketId + 1 + d ≠ g.firstBucketId := by omega
    simp only [upd_other _ _ hne]
    have := hL.bTok (d + 1)
    rw [show g.firstBucketId + 1 + d = g.firstBucketId + (d + 1) by omega, this]
    have : usum users (fun u => (lotAt (prog u) W).bTok (d + 1)) =
        usum users (fun u => (lotAt (prog u) (W + 1)).bTok d) :=
      usum_congr (fun u _ => by rw [lotAt_succ hP u]; exact ((Lot.bucket_shift _ d).1).symm)
    rw [this]
    simp
  · intro d
    have hne : g.firstBucketId + 1 + d ≠ g.firstBucketId := by omega
    simp only [upd_other _ _ hne]
    have := hL.bSur (d + 1)
    rw [show g.firstBucketId + 1 + d = g.firstBucketId + (d + 1) by omega, this]
    exact usum_congr (fun u _ => by rw [lotAt_succ hP u]; exact ((Lot.bucket_shift _ d).2).symm)

/-- `n` weekly shifts -/
theorem shiftN_LRel {prog : Nat → Option ClaimProgress} {users : List Nat} :
    ∀ (n : Nat) {g g' : St} {t t' : Totals} {W orph : Nat}, PRel prog users W →
    LRel prog users g.firstBucketId g.buckets W t.energy t.tokens orph →
    shiftN n g t = some (g', t') →
    (∃ orph', LRel prog users g'.firstBucketId g'.buckets (W + n) t'.energy t'.tokens orph') ∧
    g'.progress = g.progress ∧ g'.users = g.users ∧ g'.totalEnergy = g.totalEnergy ∧
    g'.totalLocked = g.totalLocked ∧ g'.totalRewards = g.totalRewards ∧
    g'.lastGlobalUpdateWeek = g.lastGlobalUpdateWeek := by
  intro n
  induction n with
  | zero =>
    intro g g' t t' W orph _ hL h
    simp only [shiftN, Option.some.injEq, Prod.mk.injEq] at h
    obtain ⟨rfl, rfl⟩ := h
    exact ⟨⟨orph, hL⟩, rfl, rfl, rfl, rfl, rfl, rfl⟩
  | succ n ih =>
    intro g g' t t' W orph hP hL h
    simp only [shiftN, Option.bind_eq_some_iff] at h
    obtain ⟨⟨g1, t1⟩, h1, h2⟩ := h
    obtain ⟨hL1, _, e1, e2, e3, e4, e5, e6⟩ := shiftOnce_LRel hP hL h1
    obtain ⟨hL2, f1, f2, f3, f4, f5, f6⟩ := ih (hP.mono (Nat.le_succ W)) hL1 h2
    refine ⟨?_, f1.trans e1, f2.trans e2, f3.trans e3, f4.trans e4, f5.trans e5, f6.trans e6⟩
    obtain ⟨o, ho⟩ := hL2
    exact ⟨o, by rw [show W + (n + 1) = W + 1 + n by omega]; exact ho⟩

/-! ### the state invariant -/

/-- nothing has ever been recorded -/
structure Pristine (g : St) : Prop where
  lgw : g.lastGlobalUpdateWeek = 0
  noProgress : ∀ u, g.progress u = none
  noUsers : g.users = []
  energy : ∀ w, g.totalEnergy w = 0
  locked : ∀ w, g.totalLocked w = 0
  buckets : ∀ id, g.buckets id = Bucket.empty

/-- the global structure matches a progress table `prog` (which is `g.progress` between
    transactions, and the table with the caller's entry already replaced inside `claim_multi`) -/
structure GRel (prog : Nat → Option ClaimProgress) (users : List Nat) (g : St) (orph : Nat) : Prop where
  weekPos : 1 ≤ g.lastGlobalUpdateWeek
  p : PRel prog users g.lastGlobalUpdateWeek
  l : LRel prog users g.firstBucketId g.buckets g.lastGlobalUpdateWeek
        (g.totalEnergy g.lastGlobalUpdateWeek) (g.totalLocked g.lastGlobalUpdateWeek) orph
  fut : ∀ w, g.lastGlobalUpdateWeek < w → g.totalEnergy w = 0 ∧ g.totalLocked w = 0

/-- **the global energy invariant**: either nothing was ever recorded, or the totals of the last
    updated week and all buckets are exactly the lots of the recorded claim progress entries. -/
def GInv (g : St) : Prop := Pristine g ∨ ∃ orph, GRel g.progress g.users g orph

theorem Pristine.init : Pristine St.init :=
  ⟨rfl, fun _ => rfl, rfl, fun _ => rfl, fun _ => rfl, fun _ => rfl⟩

theorem LRel.of_empty {users : List Nat} {F : Nat} {buckets : Nat → Bucket} {W : Nat}
    (hb : ∀ id, buckets id = Bucket.empty) :
    LRel (fun _ => none) users F buckets W 0 0 0 := by
  have hz : ∀ (f : Lot → Nat), f ⟨0, 0, W⟩ = 0 → usum users (fun _ => f (lotAt none W)) = 0 :=
    fun f hf => usum_zero (fun _ _ => by simp [lotAt, hf])
  refine ⟨?_, ?_, ?_, ?_⟩
  · exact (hz Lot.contrib (by simp [Lot.contrib])).symm
  · rw [hz Lot.tok (by simp [Lot.tok, Lot.Live])]
  · intro d
    rw [hb, hz (fun l => l.bTok d) (by simp [Lot.bTok, Lot.Live])]
    simp [Bucket.empty]
  · intro d
    rw [hb, hz (fun l => l.bSur d) (by simp [Lot.bSur, Lot.Live])]
    simp [Bucket.empty]

/-- `perform_weekly_update` establishes the relation for the current week `W` (given that `W`
    is not in the past and weeks start at 1), leaving progress and users untouched. -/
theorem performWeeklyUpdate_GRel {g g1 : St} {W : Nat} (hW : 1 ≤ W)
    (hI : GInv g) (h : performWeeklyUpdate g W = some g1) :
    (∃ orph, GRel g.progress g.users g1 orph) ∧ g1.lastGlobalUpdateWeek = W ∧
    g1.progress = g.progress ∧ g1.users = g.users := by
  unfold performWeeklyUpdate at h
  split at h
  · -- same week
    rename_i hsame
    simp only [Option.some.injEq] at h
    subst h
    rcases hI with hp | hr
    · rw [hp.lgw] at hsame; omega
    · exact ⟨hr, hsame, rfl, rfl⟩
  split at h
  · -- first update ever
    rename_i _ hzero
    simp only [Option.some.injEq] at h
    subst h
    rcases hI with hp | ⟨o, hr⟩
    · refine ⟨⟨0, ?_⟩, rfl, rfl, rfl⟩
      have hprog : g.progress = fun _ => none := funext hp.noProgress
      refine ⟨hW, ⟨?_, ?_, ?_⟩, ?_, ?_⟩
      · rw [hp.noUsers]; exact List.nodup_nil
      · intro u hu; exact absurd (hp.noProgress u) hu
      · intro u p hu; rw [hp.noProgress u] at hu; cases hu
      · simp only [hp.energy, hp.locked]
        rw [hprog]
        exact LRel.of_empty hp.buckets
      · intro w _; exact ⟨hp.energy w, hp.locked w⟩
    · have := hr.weekPos; omega
  · -- a later week: shift
    rename_i hne hnz
    simp only [Option.bind_eq_bind, Option.bind_eq_some_iff, req_eq_some] at h
    obtain ⟨_, hle, ⟨g2, t2⟩, hs, h⟩ := h
    rcases hI with hp | ⟨o, hr⟩
    · exact absurd hp.lgw hnz
    have hL0 : LRel g.progress g.users
        ({ g with lastGlobalUpdateWeek := W,
                  totalLocked := upd g.totalLocked g.lastGlobalUpdateWeek 0 } : St).firstBucketId
        ({ g with lastGlobalUpdateWeek := W,
                  totalLocked := upd g.totalLocked g.lastGlobalUpdateWeek 0 } : St).buckets
        g.lastGlobalUpdateWeek
        (⟨g.totalLocked g.lastGlobalUpdateWeek, g.totalEnergy g.lastGlobalUpdateWeek⟩ : Totals).energy
        (⟨g.totalLocked g.lastGlobalUpdateWeek, g.totalEnergy g.lastGlobalUpdateWeek⟩ : Totals).tokens
        o := hr.l
    obtain ⟨⟨o', hL⟩, e1, e2, e3, e4, _, e6⟩ := shiftN_LRel _ hr.p hL0 hs
    have hWk : g.lastGlobalUpdateWeek + (W - g.lastGlobalUpdateWeek) = W := by omega
    rw [hWk] at hL
    simp only at e1 e2 e3 e4 e6
    have hlt : g.lastGlobalUpdateWeek < W := by omega
    have hP' : PRel g.progress g.users W := hr.p.mono hle
    split at h
    · rename_i hbig
      simp only [Option.pure_def, Option.some.injEq] at h
      subst h
      refine ⟨⟨o', ?_⟩, e6, e1, e2⟩
      have hne5 : W ≠ W - USER_MAX_CLAIM_WEEKS - 1 := by
        simp only [USER_MAX_CLAIM_WEEKS] at hbig ⊢; omega
      refine ⟨by simp only [e6]; exact hW, by simp only [e6]; exact hP', ?_, ?_⟩
      · simp only [e6, upd_other _ _ hne5, upd_same]
        exact hL
      · intro w hw
        simp only [e6] at hw
        have h1 : w ≠ W - USER_MAX_CLAIM_WEEKS - 1 := by
          simp only [USER_MAX_CLAIM_WEEKS]; omega
        have h2 : w ≠ W := by omega
        have h3 : w ≠ g.lastGlobalUpdateWeek := by omega
        simp only [upd_other _ _ h1, upd_other _ _ h2, e3, e4, upd_other _ _ h3]
        exact hr.fut w (by omega)
    · simp only [Option.pure_def, Option.some.injEq] at h
      subst h
      refine ⟨⟨o', ?_⟩, e6, e1, e2⟩
      refine ⟨by simp only [e6]; exact hW, by simp only [e6]; exact hP', ?_, ?_⟩
      · simp only [e6, upd_same]
        exact hL
      · intro w hw
        simp only [e6] at hw
        have h2 : w ≠ W := by omega
        have h3 : w ≠ g.lastGlobalUpdateWeek := by omega
        simp only [upd_other _ _ h2, e3, e4, upd_other _ _ h3]
        exact hr.fut w (by omega)

end Mx.Weekly
