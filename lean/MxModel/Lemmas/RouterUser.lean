/-
  Spec lemmas of the router's `EnableSwapByUserModule` (configEnableByUserParameters,
  add/removeCommonTokensForUserPairs, setSwapEnabledByUser) and of the simple-lock operations the
  router world contains, plus the frame they leave untouched.
-/
import MxModel.Lemmas.RouterSpec

namespace Mx.Router

/-! ### the locked-token ledger -/

theorem updL_apply (f : Addr → LTok → Nat) (a : Addr) (k : LTok) (v : Nat) (x : Addr) (y : LTok) :
    updL f a k v x y = if x = a ∧ y = k then v else f x y := rfl

theorem xfer_spec {l l1 : Addr → LTok → Nat} {src dst : Addr} {k : LTok} {amt : Nat}
    (h : xfer l src dst k amt = some l1) :
    amt ≤ l src k ∧
    l1 = updL (updL l src k (l src k - amt)) dst k
          (updL l src k (l src k - amt) dst k + amt) := by
  simp only [xfer, Option.bind_eq_bind, Option.bind_eq_some_iff, sub?_eq_some, Option.pure_def,
    Option.some.injEq] at h
  obtain ⟨b, ⟨hle, rfl⟩, rfl⟩ := h
  exact ⟨hle, rfl⟩

/-- a transfer of what the sender owns goes through -/
theorem xfer_ok (l : Addr → LTok → Nat) (src dst : Addr) (k : LTok) {amt : Nat}
    (h : amt ≤ l src k) : ∃ l1, xfer l src dst k amt = some l1 := by
  simp only [xfer, Option.bind_eq_bind, Option.bind_eq_some_iff, sub?_eq_some, Option.pure_def,
    Option.some.injEq]
  exact ⟨_, _, ⟨h, rfl⟩, rfl⟩

/-- after a transfer the receiver owns at least the amount -/
theorem xfer_dst_ge {l l1 : Addr → LTok → Nat} {src dst : Addr} {k : LTok} {amt : Nat}
    (h : xfer l src dst k amt = some l1) : amt ≤ l1 dst k := by
  obtain ⟨_, rfl⟩ := xfer_spec h
  simp only [updL_apply, and_self, if_true]
  exact Nat.le_add_left _ _

/-- sending an amount there and straight back restores every balance of every account -/
theorem xfer_back {l l1 l2 : Addr → LTok → Nat} {a b : Addr} {k : LTok} {amt : Nat}
    (h1 : xfer l a b k amt = some l1) (h2 : xfer l1 b a k amt = some l2) : l2 = l := by
  obtain ⟨hle, rfl⟩ := xfer_spec h1
  obtain ⟨_, rfl⟩ := xfer_spec h2
  funext x y
  by_cases hy : y = k
  · subst hy
    by_cases hab : a = b
    · subst hab
      by_cases hx : x = a
      · subst hx; simp [updL_apply]; omega
      · simp [updL_apply, hx]
    · have hba : b ≠ a := fun e => hab e.symm
      by_cases hx : x = a
      · subst hx; simp [updL_apply, hab, hba]; omega
      · by_cases hxb : x = b
        · subst hxb; simp [updL_apply, hab, hba]
        · simp [updL_apply, hx, hxb]
  · simp [updL_apply, hy]

/-! ### configuration endpoints -/

theorem configEnable_spec {s s' : St} {c : Addr} {common locked : Tok} {mv mp : Nat} {o : Out}
    (h : configEnable s c common locked mv mp = some (s', o)) :
    c = s.owner ∧ validTok common ∧ validTok locked ∧ common ∈ s.commonToks ∧
    s' = { s with enableCfg := upd s.enableCfg common (some ⟨locked, mv, mp⟩) } := by
  simp only [configEnable, Option.bind_eq_bind, Option.bind_eq_some_iff, req_eq_some,
    Option.pure_def, Option.some.injEq, Prod.mk.injEq] at h
  obtain ⟨_, h1, _, h2, _, h3, _, h4, rfl, _⟩ := h
  exact ⟨h1, h2, h3, h4, rfl⟩

theorem addCommon_spec {s s' : St} {c : Addr} {toks : List Tok} {o : Out}
    (h : addCommon s c toks = some (s', o)) :
    c = s.owner ∧ (∀ t ∈ toks, validTok t) ∧
    s' = { s with commonToks := toks.foldl setInsert s.commonToks } := by
  simp only [addCommon, Option.bind_eq_bind, Option.bind_eq_some_iff, req_eq_some,
    Option.pure_def, Option.some.injEq, Prod.mk.injEq] at h
  obtain ⟨_, h1, _, h2, rfl, _⟩ := h
  exact ⟨h1, h2, rfl⟩

theorem removeCommon_spec {s s' : St} {c : Addr} {toks : List Tok} {o : Out}
    (h : removeCommon s c toks = some (s', o)) :
    c = s.owner ∧ s' = { s with commonToks := toks.foldl setSwapRemove s.commonToks } := by
  simp only [removeCommon, Option.bind_eq_bind, Option.bind_eq_some_iff, req_eq_some,
    Option.pure_def, Option.some.injEq, Prod.mk.injEq] at h
  obtain ⟨_, h1, rfl, _⟩ := h
  exact ⟨h1, rfl⟩

/-! ### setSwapEnabledByUser -/

/-- how the router values LP tokens: in the first pool token if that is whitelisted, else in the
    second if that is, with the amounts of the pair's own `getTokensForGivenPosition` -/
theorem lpValue_spec {wl : List Tok} {p : PairRec} {amount : Nat} {cv : Tok × Nat}
    (h : lpValue wl p amount = some cv) :
    (p.t1 ∈ wl ∧ cv = (p.t1, (Mx.Pair.viewTokensForPosition p.st amount).1)) ∨
    (p.t1 ∉ wl ∧ p.t2 ∈ wl ∧ cv = (p.t2, (Mx.Pair.viewTokensForPosition p.st amount).2)) := by
  unfold lpValue at h
  simp only at h
  by_cases h1 : p.t1 ∈ wl
  · rw [if_pos h1] at h
    exact Or.inl ⟨h1, (Option.some.inj h).symm⟩
  · rw [if_neg h1] at h
    by_cases h2 : p.t2 ∈ wl
    · rw [if_pos h2] at h
      exact Or.inr ⟨h1, h2, (Option.some.inj h).symm⟩
    · rw [if_neg h2] at h
      cases h

/-- the pair state after `setSwapEnabledByUser`: `setFeePercents(USER_DEFINED_TOTAL_FEE_PERCENT,
    DEFAULT_SPECIAL_FEE_PERCENT)` then `resume()` -/
def enabledSt (st : Mx.Pair.St) : Mx.Pair.St :=
  { st with total := USER_TOTAL, special := DEFAULT_SPECIAL, status := .active }

theorem enableByUser_spec {s s' : St} {c a : Addr} {k : LTok} {amount : Nat} {o : Out}
    (h : enableByUser s c a k amount = some (s', o)) :
    0 < amount ∧ amount ≤ s.lbal c k ∧ s.active = true ∧
    checkIsPairSc s.pairMap s.pairs a = some () ∧
    ∃ p cv cfg, s.pairs a = some p ∧ p.st.status = .partialActive ∧ k.orig = a ∧
      lpValue s.commonToks p amount = some cv ∧ s.enableCfg cv.1 = some cfg ∧
      k.coll = cfg.lockedTok ∧ cfg.minValue ≤ cv.2 ∧
      cfg.minPeriod ≤ lockedEpochs s.epoch k.unlock ∧ p.st.adder = some c ∧
      o = { back := some (k, amount) } ∧
      s' = { s with pairs := setPairSt s.pairs a p (enabledSt p.st) } := by
  simp only [enableByUser, Option.bind_eq_bind, Option.bind_eq_some_iff, req_eq_some,
    Mx.Pair.cfg, Option.pure_def, Option.some.injEq, Prod.mk.injEq] at h
  obtain ⟨_, h0, l1, hl1, _, h1, u, hc, p, hp, _, h2, _, h3, cv, hcv, cfg, hcfg, _, h4, _, h5,
    _, h6, _, h7, st1, ⟨_, _, rfl⟩, st2, rfl, l2, hl2, rfl, rfl⟩ := h
  cases u
  have hback := xfer_back hl1 hl2
  subst hback
  exact ⟨h0, (xfer_spec hl1).1, h1, hc, p, cv, cfg, hp, h2, h3, hcv, hcfg, h4, h5, h6, h7, rfl, rfl⟩

/-- the guards are also sufficient: the router adds no failure of its own -/
theorem enableByUser_complete {s : St} {c a : Addr} {k : LTok} {amount : Nat} {p : PairRec}
    {cv : Tok × Nat} {cfg : EnableCfg}
    (h0 : 0 < amount) (hb : amount ≤ s.lbal c k) (h1 : s.active = true)
    (hc : checkIsPairSc s.pairMap s.pairs a = some ()) (hp : s.pairs a = some p)
    (h2 : p.st.status = .partialActive) (h3 : k.orig = a)
    (hcv : lpValue s.commonToks p amount = some cv) (hcfg : s.enableCfg cv.1 = some cfg)
    (h4 : k.coll = cfg.lockedTok) (h5 : cfg.minValue ≤ cv.2)
    (h6 : cfg.minPeriod ≤ lockedEpochs s.epoch k.unlock) (h7 : p.st.adder = some c) :
    ∃ r, enableByUser s c a k amount = some r := by
  obtain ⟨l1, hl1⟩ := xfer_ok s.lbal c s.self k hb
  obtain ⟨l2, hl2⟩ := xfer_ok l1 s.self c k (xfer_dst_ge hl1)
  have hfee : DEFAULT_SPECIAL ≤ USER_TOTAL ∧ USER_TOTAL ≤ Mx.Pair.MAXFEE := by decide
  simp only [enableByUser, Option.bind_eq_bind, Option.bind_eq_some_iff, req_eq_some,
    Mx.Pair.cfg, Option.pure_def, Option.some.injEq]
  exact ⟨_, ⟨(), h0, l1, hl1, (), h1, (), hc, p, hp, (), h2, (), h3, cv, hcv, cfg, hcfg, (), h4,
    (), h5, (), h6, (), h7, _, ⟨(), hfee, rfl⟩, _, rfl, l2, hl2, rfl⟩⟩

/-! ### simple-lock and the epoch -/

theorem lockTokens_spec {s s' : St} {u : Addr} {coll : Tok} {orig amount unlock : Nat} {o : Out}
    (h : lockTokens s u coll orig amount unlock = some (s', o)) :
    (coll = LOCK_A ∨ coll = LOCK_B) ∧ 0 < amount ∧ amount ≤ s.ubal u orig ∧
    ((unlock ≤ s.epoch ∧ s' = s ∧ o = { pays := [(orig, amount)] }) ∨
     (s.epoch < unlock ∧ o = { back := some (⟨coll, orig, unlock⟩, amount) } ∧
      s' = { s with ubal := upd2 s.ubal u orig (s.ubal u orig - amount),
                    lbal := updL s.lbal u ⟨coll, orig, unlock⟩
                              (s.lbal u ⟨coll, orig, unlock⟩ + amount),
                    lkeys := if (⟨coll, orig, unlock⟩ : LTok) ∈ s.lkeys then s.lkeys
                             else s.lkeys ++ [⟨coll, orig, unlock⟩] })) := by
  simp only [lockTokens, Option.bind_eq_bind, Option.bind_eq_some_iff, req_eq_some,
    sub?_eq_some] at h
  obtain ⟨_, h1, _, h2, b, ⟨h3, rfl⟩, h4⟩ := h
  refine ⟨h1, h2, h3, ?_⟩
  by_cases he : unlock ≤ s.epoch
  · rw [if_pos he] at h4
    simp only [Option.pure_def, Option.some.injEq, Prod.mk.injEq] at h4
    exact Or.inl ⟨he, h4.1.symm, h4.2.symm⟩
  · rw [if_neg he] at h4
    simp only [Option.pure_def, Option.some.injEq, Prod.mk.injEq] at h4
    exact Or.inr ⟨Nat.lt_of_not_le he, h4.2.symm, h4.1.symm⟩

theorem unlockTokens_spec {s s' : St} {u : Addr} {k : LTok} {amount : Nat} {o : Out}
    (h : unlockTokens s u k amount = some (s', o)) :
    0 < amount ∧ amount ≤ s.lbal u k ∧ k.unlock ≤ s.epoch ∧
    o = { pays := [(k.orig, amount)] } ∧
    s' = { s with lbal := updL s.lbal u k (s.lbal u k - amount),
                  ubal := upd2 s.ubal u k.orig (s.ubal u k.orig + amount) } := by
  simp only [unlockTokens, Option.bind_eq_bind, Option.bind_eq_some_iff, req_eq_some,
    sub?_eq_some, Option.pure_def, Option.some.injEq, Prod.mk.injEq] at h
  obtain ⟨_, h1, b, ⟨h2, rfl⟩, _, h3, rfl, rfl⟩ := h
  exact ⟨h1, h2, h3, rfl, rfl⟩

theorem advance_spec {s s' : St} {e : Nat} {o : Out} (h : advance s e = some (s', o)) :
    s.epoch ≤ e ∧ s' = { s with epoch := e } := by
  simp only [advance, Option.bind_eq_bind, Option.bind_eq_some_iff, req_eq_some,
    Option.pure_def, Option.some.injEq, Prod.mk.injEq] at h
  obtain ⟨_, h1, rfl, _⟩ := h
  exact ⟨h1, rfl⟩

/-! ### the frame -/

theorem configEnable_frame {s s' : St} {c : Addr} {common locked : Tok} {mv mp : Nat} {o : Out}
    (h : configEnable s c common locked mv mp = some (s', o)) : Frame s s' := by
  obtain ⟨_, _, _, _, rfl⟩ := configEnable_spec h
  exact ⟨rfl, rfl, rfl, rfl, rfl, fun _ => rfl, fun _ => rfl⟩

theorem addCommon_frame {s s' : St} {c : Addr} {toks : List Tok} {o : Out}
    (h : addCommon s c toks = some (s', o)) : Frame s s' := by
  obtain ⟨_, _, rfl⟩ := addCommon_spec h
  exact ⟨rfl, rfl, rfl, rfl, rfl, fun _ => rfl, fun _ => rfl⟩

theorem removeCommon_frame {s s' : St} {c : Addr} {toks : List Tok} {o : Out}
    (h : removeCommon s c toks = some (s', o)) : Frame s s' := by
  obtain ⟨_, rfl⟩ := removeCommon_spec h
  exact ⟨rfl, rfl, rfl, rfl, rfl, fun _ => rfl, fun _ => rfl⟩

theorem enableByUser_frame {s s' : St} {c a : Addr} {k : LTok} {amount : Nat} {o : Out}
    (h : enableByUser s c a k amount = some (s', o)) : Frame s s' := by
  obtain ⟨_, _, _, _, p, _, _, hp, _, _, _, _, _, _, _, _, _, rfl⟩ := enableByUser_spec h
  exact ⟨rfl, rfl, rfl, rfl, rfl, fun x => tokOf_setPairSt hp _ x, fun _ => rfl⟩

theorem lockTokens_frame {s s' : St} {u : Addr} {coll : Tok} {orig amount unlock : Nat} {o : Out}
    (h : lockTokens s u coll orig amount unlock = some (s', o)) : Frame s s' := by
  obtain ⟨_, _, _, h4⟩ := lockTokens_spec h
  rcases h4 with ⟨_, rfl, _⟩ | ⟨_, _, rfl⟩
  · exact ⟨rfl, rfl, rfl, rfl, rfl, fun _ => rfl, fun _ => rfl⟩
  · exact ⟨rfl, rfl, rfl, rfl, rfl, fun _ => rfl, fun _ => rfl⟩

theorem unlockTokens_frame {s s' : St} {u : Addr} {k : LTok} {amount : Nat} {o : Out}
    (h : unlockTokens s u k amount = some (s', o)) : Frame s s' := by
  obtain ⟨_, _, _, _, rfl⟩ := unlockTokens_spec h
  exact ⟨rfl, rfl, rfl, rfl, rfl, fun _ => rfl, fun _ => rfl⟩

theorem advance_frame {s s' : St} {e : Nat} {o : Out} (h : advance s e = some (s', o)) :
    Frame s s' := by
  obtain ⟨_, rfl⟩ := advance_spec h
  exact ⟨rfl, rfl, rfl, rfl, rfl, fun _ => rfl, fun _ => rfl⟩

end Mx.Router
