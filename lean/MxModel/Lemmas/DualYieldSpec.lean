/-
  Characterisation ("spec") lemmas of the metastaking-proxy model (Core/DualYield.lean):
  what a successful `part` / `release` / `releaseAll` / `stake` / `claim` / `unstake` / `xfer`
  implies.  Property theorems (Props/C15) are proved from these, never by unfolding `step`.
-/
import MxModel.Core.DualYield

namespace Mx.DualYield

/-! ### small facts about the maps -/

@[simp] theorem upd_same (m : Nat → Nat) (k v : Nat) : upd m k v k = v := by simp [upd]
theorem upd_other (m : Nat → Nat) {k i : Nat} (v : Nat) (h : i ≠ k) : upd m k v i = m i := by
  simp [upd, h]
theorem upd_apply (m : Nat → Nat) (k v i : Nat) : upd m k v i = if i = k then v else m i := rfl

@[simp] theorem upd2_same (m : Nat → Nat → Nat) (a b v : Nat) : upd2 m a b v a b = v := by
  simp [upd2]
theorem upd2_apply (m : Nat → Nat → Nat) (a b v i j : Nat) :
    upd2 m a b v i j = if i = a ∧ j = b then v else m i j := rfl

theorem through_eq (bal x : Nat) : through bal x = some bal := by
  simp [through, sub?]

/-! ### `into_part` -/

/-- **the part formula** (`DualYieldTokenAttributes::into_part`): paying the whole supply
    releases the whole LP-farm amount; paying `x` of `stA` releases `⌊lpA·x/stA⌋`, which must
    not be 0 (`rule_of_three_non_zero_result`). -/
theorem part_eq_some {t : Tok} {x p : Nat} :
    part t x = some p ↔
      (x = t.stA ∧ p = t.lpA) ∨ (x ≠ t.stA ∧ t.stA ≠ 0 ∧ p = t.lpA * x / t.stA ∧ p ≠ 0) := by
  unfold part
  split
  · rename_i h
    simp [h, eq_comm]
  · rename_i h
    simp only [Option.bind_eq_bind, Option.bind_eq_some_iff, req_eq_some, Option.pure_def,
      Option.some.injEq, exists_const]
    constructor
    · rintro ⟨h1, h2, rfl⟩
      exact Or.inr ⟨h, h1, rfl, h2⟩
    · rintro (⟨h1, _⟩ | ⟨_, h1, rfl, h2⟩)
      · exact absurd h1 h
      · exact ⟨h1, h2, rfl⟩

/-- a part never exceeds the proportional share: `p·stA ≤ lpA·x` -/
theorem part_mul_le {t : Tok} {x p : Nat} (h : part t x = some p) : p * t.stA ≤ t.lpA * x := by
  rcases part_eq_some.1 h with ⟨rfl, rfl⟩ | ⟨_, _, rfl, _⟩
  · exact Nat.le_refl _
  · exact Nat.div_mul_le_self _ _

/-! ### `release` -/

/-- the token table after paying `x` of nonce `d` -/
def relTok (t : Tok) (x p : Nat) : Tok := { t with out := t.out - x, rel := t.rel + p }

theorem release_spec {s s' : St} {u d x p : Nat} (h : release s u d x = some (s', p)) :
    ∃ t, d ≠ 0 ∧ s.toks[d - 1]? = some t ∧ x ≠ 0 ∧ x ≤ s.user u d ∧ part t x = some p ∧
      x ≤ t.out ∧ p ≤ s.holdLp t.lpN ∧ x ≤ s.holdSt t.stN ∧
      s' = { s with toks := s.toks.set (d - 1) (relTok t x p),
                    holdLp := upd s.holdLp t.lpN (s.holdLp t.lpN - p),
                    holdSt := upd s.holdSt t.stN (s.holdSt t.stN - x),
                    user := upd2 s.user u d (s.user u d - x) } := by
  simp only [release, Option.bind_eq_bind, Option.bind_eq_some_iff, req_eq_some, sub?_eq_some,
    Option.pure_def, Option.some.injEq, Prod.mk.injEq, exists_const] at h
  obtain ⟨hd, t, ht, hx, bal, ⟨hb, rfl⟩, p', hp, out', ⟨ho, rfl⟩, hl, ⟨hhl, rfl⟩, hs, ⟨hhs, rfl⟩,
    rfl, rfl⟩ := h
  exact ⟨t, hd, ht, hx, hb, hp, ho, hhl, hhs, rfl⟩

theorem release_pass {s s' : St} {u d x p : Nat} (h : release s u d x = some (s', p)) :
    s'.pass = s.pass := by
  obtain ⟨t, _, _, _, _, _, _, _, _, rfl⟩ := release_spec h
  rfl

theorem release_length {s s' : St} {u d x p : Nat} (h : release s u d x = some (s', p)) :
    s'.toks.length = s.toks.length := by
  obtain ⟨t, _, _, _, _, _, _, _, _, rfl⟩ := release_spec h
  simp

/-! ### `releaseAll` -/

theorem releaseAll_nil (s : St) (u : Nat) : releaseAll s u [] = some (s, 0, 0) := rfl

theorem releaseAll_cons {s : St} {u d x : Nat} {ms : List (Nat × Nat)} {q : St × Nat × Nat}
    (h : releaseAll s u ((d, x) :: ms) = some q) :
    ∃ s1 p q1, release s u d x = some (s1, p) ∧ releaseAll s1 u ms = some q1 ∧
      q = (q1.1, p + q1.2.1, x + q1.2.2) := by
  simp only [releaseAll, Option.bind_eq_bind, Option.bind_eq_some_iff, Option.pure_def,
    Option.some.injEq] at h
  obtain ⟨⟨s1, p⟩, h1, q1, h2, rfl⟩ := h
  exact ⟨s1, p, q1, h1, h2, rfl⟩

/-- an invariant of single releases is an invariant of the merge loop -/
theorem releaseAll_induct {P : St → Prop} (hP : ∀ s s' u d x p, P s → release s u d x = some (s', p) → P s')
    {u : Nat} : ∀ {ms : List (Nat × Nat)} {s : St} {q : St × Nat × Nat},
      P s → releaseAll s u ms = some q → P q.1
  | [], s, q, hs, h => by
      simp only [releaseAll, Option.some.injEq] at h
      subst h
      exact hs
  | (d, x) :: ms, s, q, hs, h => by
      obtain ⟨s1, p, q1, h1, h2, rfl⟩ := releaseAll_cons h
      exact (releaseAll_induct hP (hP _ _ _ _ _ _ hs h1) h2 : P q1.1)

theorem releaseAll_pass {s : St} {u : Nat} {ms : List (Nat × Nat)} {q : St × Nat × Nat}
    (h : releaseAll s u ms = some q) : q.1.pass = s.pass := by
  have := releaseAll_induct (P := fun s' => s'.pass = s.pass)
    (fun _ _ _ _ _ _ hs hr => (release_pass hr).trans hs) rfl h
  exact this

/-! ### `mint` -/

/-- the token a mint appends -/
def newTok (lpN lpA stN stA : Nat) : Tok := ⟨lpN, lpA, stN, stA, stA, 0⟩

theorem mint_fst (s : St) (u lpN lpA stN stA : Nat) :
    (mint s u lpN lpA stN stA).1 =
      { s with toks := s.toks ++ [newTok lpN lpA stN stA],
               holdLp := upd s.holdLp lpN (s.holdLp lpN + lpA),
               holdSt := upd s.holdSt stN (s.holdSt stN + stA),
               user := upd2 s.user u (s.toks.length + 1) (s.user u (s.toks.length + 1) + stA) } := rfl

theorem mint_snd (s : St) (u lpN lpA stN stA : Nat) :
    (mint s u lpN lpA stN stA).2 = s.toks.length + 1 := rfl

/-! ### the endpoints -/

/-- the LP-farm token a stake records: the payment itself, or the farm's merge result -/
def stakeLp (lpN a : Nat) (ms : List (Nat × Nat)) (r : StakeResp) : Nat × Nat :=
  (if ms.isEmpty then lpN else r.lpN, if ms.isEmpty then a else r.lpA)

theorem stake_spec {s s' : St} {c lpN a : Nat} {auth : Bool} {ms : List (Nat × Nat)}
    {r : StakeResp} {o : Out} (h : stake s c auth lpN a ms r = some (s', o)) :
    ∃ q, auth = true ∧ a ≠ 0 ∧ releaseAll s c ms = some q ∧ r.safe ≠ 0 ∧
      s' = (mint q.1 c (stakeLp lpN a ms r).1 (stakeLp lpN a ms r).2 r.stN r.stA).1 ∧
      o = { dyN := q.1.toks.length + 1, dyA := r.stA, o1 := r.boosted,
            o2 := if ms.isEmpty then 0 else r.lpBoosted, toStaking := r.safe,
            lpReleased := q.2.1, stReleased := q.2.2 } := by
  simp only [stake, through_eq, Option.bind_eq_bind, Option.bind_eq_some_iff, req_eq_some,
    Option.pure_def, Option.some.injEq, Prod.mk.injEq, exists_const] at h
  obtain ⟨ha, hz, q, hq, hsafe, ride, rfl, locked, rfl, rfl, rfl⟩ := h
  exact ⟨q, ha, hz, hq, hsafe, rfl, rfl⟩

theorem claim_spec {s s' : St} {c d x : Nat} {auth : Bool} {r : ClaimResp} {o : Out}
    (h : claim s c auth d x r = some (s', o)) :
    ∃ s1 p, auth = true ∧ release s c d x = some (s1, p) ∧ r.safe ≠ 0 ∧
      s' = (mint s1 c r.lpN r.lpA r.stN r.stA).1 ∧
      o = { dyN := s1.toks.length + 1, dyA := r.stA, o1 := r.lpRew, o2 := r.stRew,
            toStaking := r.safe, lpReleased := p, stReleased := x } := by
  simp only [claim, through_eq, Option.bind_eq_bind, Option.bind_eq_some_iff, req_eq_some,
    Option.pure_def, Option.some.injEq, Prod.mk.injEq, exists_const] at h
  obtain ⟨ha, ⟨s1, p⟩, hq, hsafe, locked, rfl, ride, rfl, rfl, rfl⟩ := h
  exact ⟨s1, p, ha, hq, hsafe, rfl, rfl⟩

theorem unstake_spec {s s' : St} {c d x : Nat} {r : UnstakeResp} {o : Out}
    (h : unstake s c d x r = some (s', o)) :
    ∃ s1 p, release s c d x = some (s1, p) ∧ s' = s1 ∧
      o = { o1 := r.other, o2 := r.lpRew, o3 := r.stRew, unN := r.unN, unA := r.unA,
            toStaking := r.stk, lpReleased := p, stReleased := x } := by
  simp only [unstake, through_eq, Option.bind_eq_bind, Option.bind_eq_some_iff,
    Option.pure_def, Option.some.injEq, Prod.mk.injEq] at h
  obtain ⟨⟨s1, p⟩, hq, lp, rfl, locked, rfl, ride1, rfl, other, rfl, ride, rfl, unbond, rfl, rfl, rfl⟩ := h
  exact ⟨s1, p, hq, rfl, rfl⟩

theorem xfer_spec {s s' : St} {u v d x : Nat} {o : Out} (h : xfer s u v d x = some (s', o)) :
    u ≠ v ∧ x ≠ 0 ∧ x ≤ s.user u d ∧ o = {} ∧
      s' = { s with user := upd2 (upd2 s.user u d (s.user u d - x)) v d (s.user v d + x) } := by
  simp only [xfer, Option.bind_eq_bind, Option.bind_eq_some_iff, req_eq_some, sub?_eq_some,
    Option.pure_def, Option.some.injEq, Prod.mk.injEq, exists_const] at h
  obtain ⟨huv, hx, bal, ⟨hb, rfl⟩, rfl, rfl⟩ := h
  exact ⟨huv, hx, hb, rfl, rfl⟩

end Mx.DualYield
