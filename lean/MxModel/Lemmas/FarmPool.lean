/-
  The boosted-POOL invariant of the farm model holds in every reachable state:
  every week's pool obeys `accum + remaining + paidW + collW = cutW` (life cycle of a week's
  boosted cut: accumulated → frozen into `remaining` → paid out / collected as undistributed),
  nothing is accumulated for future weeks, and the three ghost sums tie the per-week ghosts to the
  global counters: `Σ cutW + baseBudget = generated`, `Σ paidW = paidBoosted`, `Σ collW = undist`.

  Technique: the invariant is stated with a PENDING amount `d` (`PoolInvD s d`): inside an
  endpoint `claimBoostedYields` raises `Σ paidW` by `r` before `payReward`/`compoundMove` adds `r`
  to `paidBoosted`; `PoolInv s = PoolInvD s 0`.  Every helper is a `PoolInvD` transformer; helpers
  that do not touch the pool view (`poolView`) are handled by `PoolInvD.of_view`.
-/
import MxModel.Lemmas.FarmBoost
import MxModel.Lemmas.FarmSpec
import MxModel.Lemmas.FarmAcct
import MxModel.Lemmas.FarmArith

namespace Mx.Farm

open Mx.Weekly (upd Energy ClaimProgress)

/-! ### sums over the weeks `0 … W` -/

/-- `Σ_{w ≤ W} f w` -/
def weekSum (f : Nat → Nat) (W : Nat) : Nat := ((List.range (W + 1)).map f).sum

theorem weekSum_zero (f : Nat → Nat) : weekSum f 0 = f 0 := by simp [weekSum]

theorem weekSum_succ (f : Nat → Nat) (W : Nat) : weekSum f (W + 1) = weekSum f W + f (W + 1) := by
  unfold weekSum
  rw [List.range_succ, List.map_append, List.sum_append]
  simp

theorem weekSum_congr {f g : Nat → Nat} {W : Nat} (h : ∀ w, w ≤ W → f w = g w) :
    weekSum f W = weekSum g W := by
  induction W with
  | zero => rw [weekSum_zero, weekSum_zero, h 0 (Nat.le_refl _)]
  | succ W ih =>
    rw [weekSum_succ, weekSum_succ, h (W + 1) (Nat.le_refl _),
      ih (fun w hw => h w (Nat.le_succ_of_le hw))]

theorem weekSum_add (f g : Nat → Nat) (W : Nat) :
    weekSum (fun w => f w + g w) W = weekSum f W + weekSum g W := by
  induction W with
  | zero => simp only [weekSum_zero]
  | succ W ih => simp only [weekSum_succ, ih]; omega

/-- weeks beyond `W` that carry nothing do not count -/
theorem weekSum_extend {f : Nat → Nat} {W W' : Nat} (hz : ∀ w, W < w → f w = 0) (h : W ≤ W') :
    weekSum f W' = weekSum f W := by
  induction W' with
  | zero => rw [Nat.le_zero.mp h]
  | succ k ih =>
    by_cases hk : W = k + 1
    · rw [hk]
    · rw [weekSum_succ, hz (k + 1) (by omega), ih (by omega), Nat.add_zero]

theorem weekSum_upd_add (f : Nat → Nat) {k W : Nat} (x : Nat) (h : k ≤ W) :
    weekSum (upd f k (f k + x)) W = weekSum f W + x := by
  induction W with
  | zero =>
    have : k = 0 := by omega
    subst this
    rw [weekSum_zero, weekSum_zero, Weekly.upd_same]
  | succ W ih =>
    rw [weekSum_succ, weekSum_succ]
    by_cases hk : k = W + 1
    · subst hk
      rw [Weekly.upd_same, weekSum_congr (g := f) (fun w hw => Weekly.upd_other _ _ (by omega))]
      omega
    · rw [ih (by omega), Weekly.upd_other _ _ (fun hh => hk hh.symm)]
      omega

/-- a function that vanishes outside `[a, a+n) ⊆ [0, W]` -/
theorem weekSum_window (d : Nat → Nat) (a n W : Nat) (hz : ∀ w, (w < a ∨ a + n ≤ w) → d w = 0)
    (h : a + n ≤ W + 1) : weekSum d W = ((List.range n).map fun i => d (a + i)).sum := by
  have := sum_window d a n 0 (W + 1) hz (Nat.zero_le _) (by omega)
  simp only [Nat.zero_add] at this
  exact this

/-! ### the invariant -/

/-- the pool invariant with `d` boosted rewards claimed out of the weekly pools but not yet
    booked in `paidBoosted` (only non-zero in the middle of an endpoint) -/
structure PoolInvD (s : St) (d : Nat) : Prop where
  time : s.firstWeekStart ≤ s.epoch
  rem : RemInv s
  week : ∀ w, s.b.accum w + s.b.remaining w + s.b.paidW w + s.b.collW w = s.b.cutW w
  fut : ∀ W w, s.week = some W → W < w → s.b.cutW w = 0
  cut : ∀ W, s.week = some W → weekSum s.b.cutW W + s.baseBudget = s.generated
  paid : ∀ W, s.week = some W → weekSum s.b.paidW W = s.paidBoosted + d
  coll : ∀ W, s.week = some W → weekSum s.b.collW W = s.undist
  pct : s.pct ≤ MAXPCT

/-- **the boosted-pool invariant** -/
structure PoolInv (s : St) : Prop where
  /-- so `s.week = some W` always -/
  time : s.firstWeekStart ≤ s.epoch
  /-- a claimable or future week that is not frozen has no remaining pool -/
  rem : RemInv s
  /-- life cycle of each week's pool -/
  week : ∀ w, s.b.accum w + s.b.remaining w + s.b.paidW w + s.b.collW w = s.b.cutW w
  /-- nothing accumulated for future weeks -/
  fut : ∀ W w, s.week = some W → W < w → s.b.cutW w = 0
  cut : ∀ W, s.week = some W → weekSum s.b.cutW W + s.baseBudget = s.generated
  paid : ∀ W, s.week = some W → weekSum s.b.paidW W = s.paidBoosted
  coll : ∀ W, s.week = some W → weekSum s.b.collW W = s.undist
  pct : s.pct ≤ MAXPCT

theorem PoolInv.toD {s : St} (h : PoolInv s) : PoolInvD s 0 :=
  ⟨h.time, h.rem, h.week, h.fut, h.cut, h.paid, h.coll, h.pct⟩

theorem PoolInvD.toInv {s : St} (h : PoolInvD s 0) : PoolInv s :=
  ⟨h.time, h.rem, h.week, h.fut, h.cut, h.paid, h.coll, h.pct⟩

theorem week_eq_some {s : St} {W : Nat} :
    s.week = some W ↔ s.firstWeekStart ≤ s.epoch ∧ W = (s.epoch - s.firstWeekStart) / 7 + 1 := by
  unfold St.week Weekly.weekOf
  by_cases h : s.firstWeekStart ≤ s.epoch
  · simp [req, h, Weekly.EPOCHS_IN_WEEK, eq_comm]
  · simp [req, h]

theorem week_of_time {s : St} (h : s.firstWeekStart ≤ s.epoch) : ∃ W, s.week = some W :=
  ⟨_, week_eq_some.mpr ⟨h, rfl⟩⟩

/-- the part of the state the pool invariant reads -/
structure PoolView where
  b : BSt
  tr : Nat → List (Weekly.Tok × Nat)
  epoch : Nat
  fws : Nat
  pct : Nat
  generated : Nat
  baseBudget : Nat
  paidBoosted : Nat
  undist : Nat

def poolView (s : St) : PoolView :=
  ⟨s.b, s.w.totalRewards, s.epoch, s.firstWeekStart, s.pct, s.generated, s.baseBudget, s.paidBoosted,
   s.undist⟩

theorem PoolInvD.of_view {s s' : St} {d : Nat} (hI : PoolInvD s d) (h : poolView s' = poolView s) :
    PoolInvD s' d := by
  simp only [poolView, PoolView.mk.injEq] at h
  obtain ⟨hb, htr, he, hf, hp, hg, hbb, hpb, hu⟩ := h
  have hwk : s'.week = s.week := by unfold St.week; rw [he, hf]
  refine ⟨by rw [he, hf]; exact hI.time, ?_, by rw [hb]; exact hI.week, by rw [hb, hwk]; exact hI.fut,
    by rw [hb, hwk, hbb, hg]; exact hI.cut, by rw [hb, hwk, hpb]; exact hI.paid,
    by rw [hb, hwk, hu]; exact hI.coll, by rw [hp]; exact hI.pct⟩
  intro W w hW hw
  have := hI.rem W w (hwk ▸ hW) hw
  unfold RemOk at this ⊢
  rw [htr, hb]
  exact this

/-- one `bind` of a do-block -/
theorem bpeel {α β : Type} {x : Option α} {f : α → Option β} {b : β} (h : (x >>= f) = some b) :
    ∃ a, x = some a ∧ f a = some b := Option.bind_eq_some_iff.mp h

/-! ### helpers that do not touch the pool view -/

theorem takePayments_plv {l : List (Nat × Nat)} {s s' : St} {c : Nat}
    (h : takePayments s c l = some s') : poolView s' = poolView s := by
  obtain ⟨_, rfl⟩ := takePayments_spec l h; rfl
theorem checkAndUpdate_plv {l : List (Nat × Nat)} {s s' : St} {c : Nat}
    (h : checkAndUpdate s c l = some s') : poolView s' = poolView s := by
  obtain ⟨_, rfl⟩ := checkAndUpdate_spec l h; rfl
theorem createToken_plv {s s' : St} {d n : Nat} {a : Attr} (h : createToken s d a = some (s', n)) :
    poolView s' = poolView s := by
  obtain ⟨_, _, rfl⟩ := createToken_spec h; rfl
theorem removeFarming_plv {s s' : St} {a p : Nat} (h : removeFarming s a p = some s') :
    poolView s' = poolView s := by
  simp only [removeFarming, Option.bind_eq_bind, Option.bind_eq_some_iff, sub?_eq_some,
    Option.pure_def, Option.some.injEq] at h
  obtain ⟨_, _, rfl⟩ := h; rfl

/-! ### changes of `w` / of the non-pool part of `b` -/

/-- the weekly module state may change as long as `totalRewardsForWeek` is kept for every week
    but `W − 5` (which is what the weekly update clears) -/
theorem PoolInvD.of_w {s : St} {d : Nat} (hI : PoolInvD s d) (g : Weekly.St)
    (hg : ∀ W, s.week = some W → ∀ w, w + 5 ≠ W → g.totalRewards w = s.w.totalRewards w) :
    PoolInvD { s with w := g } d := by
  refine ⟨hI.time, ?_, hI.week, hI.fut, hI.cut, hI.paid, hI.coll, hI.pct⟩
  intro W w hW hw
  have hW' : s.week = some W := hW
  have := hI.rem W w hW' hw
  unfold RemOk at this ⊢
  show (g.totalRewards w).isEmpty → s.b.remaining w = 0
  rw [hg W hW' w (by omega)]
  exact this

/-- `farmSupplyWeek` and `cfg` are not part of the pool -/
theorem PoolInvD.of_b {s : St} {d : Nat} (hI : PoolInvD s d) (b' : BSt)
    (h1 : b'.accum = s.b.accum) (h2 : b'.remaining = s.b.remaining) (h3 : b'.paidW = s.b.paidW)
    (h4 : b'.collW = s.b.collW) (h5 : b'.cutW = s.b.cutW) : PoolInvD { s with b := b' } d := by
  refine ⟨hI.time, ?_, ?_, ?_, ?_, ?_, ?_, hI.pct⟩
  · intro W w hW hw
    have := hI.rem W w hW hw
    unfold RemOk at this ⊢
    show (s.w.totalRewards w).isEmpty → b'.remaining w = 0
    rw [h2]; exact this
  · intro w
    show b'.accum w + b'.remaining w + b'.paidW w + b'.collW w = b'.cutW w
    rw [h1, h2, h3, h4, h5]; exact hI.week w
  · intro W w hW hw
    show b'.cutW w = 0
    rw [h5]; exact hI.fut W w hW hw
  · intro W hW
    show weekSum b'.cutW W + s.baseBudget = s.generated
    rw [h5]; exact hI.cut W hW
  · intro W hW
    show weekSum b'.paidW W = s.paidBoosted + d
    rw [h3]; exact hI.paid W hW
  · intro W hW
    show weekSum b'.collW W = s.undist
    rw [h4]; exact hI.coll W hW

theorem setFarmSupplyWeek_poolInvD {s s' : St} {v d : Nat} (hI : PoolInvD s d)
    (h : setFarmSupplyWeek s v = some s') : PoolInvD s' d := by
  obtain ⟨W, _, rfl⟩ := setFarmSupplyWeek_spec h
  exact hI.of_b _ rfl rfl rfl rfl rfl

/-! ### paying -/

theorem payReward_poolInvD {s s' : St} {u base boosted d : Nat} (hI : PoolInvD s (d + boosted))
    (h : payReward s u base boosted = some s') : PoolInvD s' d := by
  obtain ⟨br, e, rfl, _⟩ := payReward_spec h
  refine ⟨hI.time, hI.rem, hI.week, hI.fut, hI.cut, ?_, hI.coll, hI.pct⟩
  intro W hW
  show weekSum s.b.paidW W = s.paidBoosted + boosted + d
  rw [hI.paid W hW]; omega

theorem compoundMove_poolInvD {s s' : St} {base boosted d : Nat} (hI : PoolInvD s (d + boosted))
    (h : compoundMove s base boosted = some s') : PoolInvD s' d := by
  simp only [compoundMove, Option.bind_eq_bind, Option.bind_eq_some_iff, sub?_eq_some,
    Option.pure_def, Option.some.injEq] at h
  obtain ⟨_, _, rfl⟩ := h
  refine ⟨hI.time, hI.rem, hI.week, hI.fut, hI.cut, ?_, hI.coll, hI.pct⟩
  intro W hW
  show weekSum s.b.paidW W = s.paidBoosted + boosted + d
  rw [hI.paid W hW]; omega

/-! ### reward generation -/

theorem generate_poolInvD {s s' : St} {c c' : Cache} {d : Nat} (hI : PoolInvD s d)
    (h : generate s c = some (s', c')) : PoolInvD s' d := by
  obtain ⟨b', rfl, hle, _, hb⟩ := generate_spec h
  generalize minted s = M at *
  generalize cutOf s = C at *
  rcases hb with ⟨hC, rfl⟩ | ⟨_, W, hW, rfl⟩
  · refine ⟨hI.time, hI.rem, hI.week, hI.fut, ?_, hI.paid, hI.coll, hI.pct⟩
    intro W hW
    show weekSum s.b.cutW W + (s.baseBudget + (M - C)) = s.generated + M
    have := hI.cut W hW
    omega
  · refine ⟨hI.time, ?_, ?_, ?_, ?_, hI.paid, hI.coll, hI.pct⟩
    · exact hI.rem
    · intro w
      show upd s.b.accum W (s.b.accum W + C) w + s.b.remaining w + s.b.paidW w + s.b.collW w =
        upd s.b.cutW W (s.b.cutW W + C) w
      have := hI.week w
      by_cases hw : w = W
      · subst hw; simp only [Weekly.upd_same]; omega
      · simp only [Weekly.upd_other _ _ hw]; exact this
    · intro W' w hW' hw
      have hW'' : s.week = some W' := hW'
      rw [hW] at hW''; simp only [Option.some.injEq] at hW''; subst hW''
      show upd s.b.cutW W (s.b.cutW W + C) w = 0
      rw [Weekly.upd_other _ _ (by omega)]
      exact hI.fut W w hW hw
    · intro W' hW'
      have hW'' : s.week = some W' := hW'
      rw [hW] at hW''; simp only [Option.some.injEq] at hW''; subst hW''
      show weekSum (upd s.b.cutW W (s.b.cutW W + C)) W + (s.baseBudget + (M - C)) = s.generated + M
      rw [weekSum_upd_add _ _ (Nat.le_refl _)]
      have := hI.cut W hW
      omega

/-! ### the boosted claim -/

theorem claimBoostedYields_poolInvD {s s' : St} {u r d : Nat} (hI : PoolInvD s d)
    (h : claimBoostedYields s u = some (s', r)) : PoolInvD s' (d + r) := by
  have e := claimBoostedYields_spec h
  obtain ⟨hrem', hpool⟩ := claimBoostedYields_remInv h hI.rem
  obtain ⟨W, hW⟩ := week_of_time hI.time
  obtain ⟨w', b', hs'⟩ := e.struct
  have hwk : s'.week = s.week := by rw [hs']; rfl
  have hep : s'.epoch = s.epoch := by rw [hs']
  have hfw : s'.firstWeekStart = s.firstWeekStart := by rw [hs']
  have hgen : s'.generated = s.generated := by rw [hs']
  have hbb : s'.baseBudget = s.baseBudget := by rw [hs']
  have hpb : s'.paidBoosted = s.paidBoosted := by rw [hs']
  have hun : s'.undist = s.undist := by rw [hs']
  have hpc : s'.pct = s.pct := by rw [hs']
  refine ⟨by rw [hep, hfw]; exact hI.time, hrem', ?_, ?_, ?_, ?_, ?_, by rw [hpc]; exact hI.pct⟩
  · intro w
    have := hpool.cons w
    have := hI.week w
    rw [hpool.cutW, hpool.collW]
    omega
  · intro W' w hW' hw
    rw [hpool.cutW]
    exact hI.fut W' w (hwk ▸ hW') hw
  · intro W' hW'
    rw [hpool.cutW, hbb, hgen]
    exact hI.cut W' (hwk ▸ hW')
  · intro W' hW'
    have hW'' : s.week = some W' := hwk ▸ hW'
    rw [hW] at hW''; simp only [Option.some.injEq] at hW''; subst hW''
    rw [hpb]
    have hsplit : weekSum s'.b.paidW W =
        weekSum s.b.paidW W + weekSum (fun w => s'.b.paidW w - s.b.paidW w) W := by
      rw [← weekSum_add]
      exact weekSum_congr (fun w _ => by have := hpool.mono w; omega)
    have hdelta : weekSum (fun w => s'.b.paidW w - s.b.paidW w) W = r := by
      rw [← weekSum_extend (W' := W + 4)
        (fun w hw => by rw [(e.outside W hW w (Or.inr (by omega))).2.2]; exact Nat.sub_self _)
        (by omega)]
      rw [weekSum_window _ (W - 4) 4 (W + 4)
        (fun w hw => by rw [(e.outside W hW w (by omega)).2.2]; exact Nat.sub_self _) (by omega)]
      exact (e.result W hW).symm
    rw [hsplit, hdelta, hI.paid W hW]
    omega
  · intro W' hW'
    rw [hpool.collW, hun]
    exact hI.coll W' (hwk ▸ hW')

theorem claimOnlyBoostedPayment_poolInvD {s s' : St} {u r d : Nat} (hI : PoolInvD s d)
    (h : claimOnlyBoostedPayment s u = some (s', r)) : PoolInvD s' (d + r) := by
  simp only [claimOnlyBoostedPayment, Option.bind_eq_bind, Option.bind_eq_some_iff, Option.pure_def] at h
  obtain ⟨⟨s1, r1⟩, h1, h⟩ := h
  have e1 := claimBoostedYields_poolInvD hI h1
  split at h
  · rename_i h0
    simp only [Option.some.injEq, Prod.mk.injEq] at h
    obtain ⟨rfl, rfl⟩ := h
    simp only at h0
    rw [h0] at e1
    exact e1
  · simp only [Option.bind_eq_some_iff, sub?_eq_some, Option.some.injEq, Prod.mk.injEq] at h
    obtain ⟨_, _, rfl, rfl⟩ := h
    exact e1.of_view rfl

/-! ### energy updates (only `w` changes; `totalRewards` kept but for week `W − 5`) -/

theorem weekly_updateEnergyAndProgress_totalRewards {g g' : Weekly.St} {user W : Nat} {cur : Energy}
    (h : Weekly.updateEnergyAndProgress g user W cur = some g') (w : Nat) (hw : w + 5 ≠ W) :
    g'.totalRewards w = g.totalRewards w := by
  simp only [Weekly.updateEnergyAndProgress, Option.bind_eq_bind, Option.bind_eq_some_iff,
    Option.pure_def, Option.some.injEq] at h
  obtain ⟨g1, h1, rfl⟩ := h
  exact updateUserEnergy_totalRewards h1 w hw

theorem weekly_updateEnergyForUser_totalRewards {g g' : Weekly.St} {user W : Nat} {cur : Energy}
    (h : Weekly.updateEnergyForUser g user W cur = some g') (w : Nat) (hw : w + 5 ≠ W) :
    g'.totalRewards w = g.totalRewards w := by
  unfold Weekly.updateEnergyForUser at h
  cases hq : g.progress user with
  | none =>
    simp only [hq] at h
    exact weekly_updateEnergyAndProgress_totalRewards h w hw
  | some p =>
    simp only [hq, Option.bind_eq_bind, Option.bind_eq_some_iff] at h
    obtain ⟨_, _, h2⟩ := h
    exact weekly_updateEnergyAndProgress_totalRewards h2 w hw

theorem weekly_clearUserEnergy_totalRewards {g g' : Weekly.St} {user W epoch rem minF : Nat}
    (h : Weekly.clearUserEnergy g user W epoch rem minF = some g') (w : Nat) (hw : w + 5 ≠ W) :
    g'.totalRewards w = g.totalRewards w := by
  unfold Weekly.clearUserEnergy at h
  split at h
  · simp only [Option.some.injEq] at h; subst h; rfl
  · simp only [Option.bind_eq_bind, Option.bind_eq_some_iff, Option.pure_def, Option.some.injEq] at h
    obtain ⟨g1, h1, rfl⟩ := h
    exact updateUserEnergy_totalRewards h1 w hw

theorem updateEnergyAndProgress_poolInvD {s s' : St} {u d : Nat} (hI : PoolInvD s d)
    (h : updateEnergyAndProgress s u = some s') : PoolInvD s' d := by
  simp only [updateEnergyAndProgress, Option.bind_eq_bind, Option.bind_eq_some_iff, Option.pure_def,
    Option.some.injEq] at h
  obtain ⟨W, hW, g, hg, rfl⟩ := h
  refine hI.of_w g (fun W' hW' w hw => ?_)
  rw [hW] at hW'; simp only [Option.some.injEq] at hW'; subst hW'
  exact weekly_updateEnergyAndProgress_totalRewards hg w hw

theorem updateEnergyForUser_poolInvD {s s' : St} {u d : Nat} (hI : PoolInvD s d)
    (h : updateEnergyForUser s u = some s') : PoolInvD s' d := by
  simp only [updateEnergyForUser, Option.bind_eq_bind, Option.bind_eq_some_iff, Option.pure_def,
    Option.some.injEq] at h
  obtain ⟨W, hW, g, hg, rfl⟩ := h
  refine hI.of_w g (fun W' hW' w hw => ?_)
  rw [hW] at hW'; simp only [Option.some.injEq] at hW'; subst hW'
  exact weekly_updateEnergyForUser_totalRewards hg w hw

theorem clearUserEnergyIfNeeded_poolInvD {s s' : St} {u d : Nat} (hI : PoolInvD s d)
    (h : clearUserEnergyIfNeeded s u = some s') : PoolInvD s' d := by
  unfold clearUserEnergyIfNeeded at h
  split at h
  · simp only [Option.some.injEq] at h; subst h; exact hI
  · simp only [Option.bind_eq_bind, Option.bind_eq_some_iff, Option.pure_def, Option.some.injEq] at h
    obtain ⟨W, hW, mem, _, g, hg, rfl⟩ := h
    refine hI.of_w g (fun W' hW' w hw => ?_)
    rw [hW] at hW'; simp only [Option.some.injEq] at hW'; subst hW'
    exact weekly_clearUserEnergy_totalRewards hg w hw

/-! ### admin: collecting the undistributed rewards, settling, time -/

theorem collectUndistributed_poolInvD {s s' : St} {caller d : Nat} (hI : PoolInvD s d)
    (h : collectUndistributed s caller = some s') : PoolInvD s' d := by
  simp only [collectUndistributed, Option.bind_eq_bind, Option.bind_eq_some_iff, Option.pure_def,
    req_eq_some] at h
  obtain ⟨_, _, W, hW, _, h5, h⟩ := h
  split at h
  · simp only [Option.some.injEq] at h; subst h; exact hI
  · rename_i hlt
    simp only [Option.some.injEq] at h
    subst h
    simp only [Weekly.USER_MAX_CLAIM_WEEKS] at h5 hlt ⊢
    obtain ⟨i1, i2, i3, _, _, i6, i7, i8⟩ :=
      collectWeeks_spec (W - (4 + 1) + 1 - (s.lastCollect + 1)) s.b s.undist (s.lastCollect + 1)
    generalize hn : W - (4 + 1) + 1 - (s.lastCollect + 1) = n at *
    generalize hf : s.lastCollect + 1 = first at *
    have hfn : first + n = W - 4 := by omega
    generalize collectWeeks s.b s.undist first n = R at *
    have hwk : ∀ W', s.week = some W' → W' = W := by
      intro W' hW'; rw [hW] at hW'; simp only [Option.some.injEq] at hW'; exact hW'.symm
    refine ⟨hI.time, ?_, ?_, ?_, ?_, ?_, ?_, hI.pct⟩
    · intro W' w hW' hw
      have := hwk W' hW'; subst this
      have := hI.rem W' w hW hw
      unfold RemOk at this ⊢
      show (s.w.totalRewards w).isEmpty → R.1.remaining w = 0
      rw [(i2 w (Or.inr (by omega))).1]
      exact this
    · intro w
      show R.1.accum w + R.1.remaining w + R.1.paidW w + R.1.collW w = R.1.cutW w
      rw [i3, i6, i7]
      have := hI.week w
      by_cases hw : first ≤ w ∧ w < first + n
      · obtain ⟨j1, j2⟩ := i1 w hw.1 hw.2
        rw [j1, j2]; omega
      · obtain ⟨j1, j2⟩ := i2 w (by omega)
        rw [j1, j2]; exact this
    · intro W' w hW' hw
      show R.1.cutW w = 0
      rw [i6]; exact hI.fut W' w hW' hw
    · intro W' hW'
      show weekSum R.1.cutW W' + s.baseBudget = s.generated
      rw [i6]; exact hI.cut W' hW'
    · intro W' hW'
      show weekSum R.1.paidW W' = s.paidBoosted + d
      rw [i7]; exact hI.paid W' hW'
    · intro W' hW'
      have := hwk W' hW'; subst this
      show weekSum R.1.collW W' = R.2
      have hsplit : weekSum R.1.collW W' = weekSum s.b.collW W' +
          weekSum (fun w => if first ≤ w ∧ w < first + n then s.b.remaining w else 0) W' := by
        rw [← weekSum_add]
        apply weekSum_congr
        intro w _
        by_cases hw : first ≤ w ∧ w < first + n
        · rw [(i1 w hw.1 hw.2).2, if_pos hw]
        · rw [(i2 w (by omega)).2, if_neg hw, Nat.add_zero]
      rw [hsplit, i8, hI.coll W' hW,
        weekSum_window _ first n W' (fun w hw => if_neg (by omega)) (by omega)]
      congr 2
      apply List.map_congr_left
      intro i hi
      have := List.mem_range.mp hi
      exact if_pos ⟨by omega, by omega⟩

theorem settle_poolInvD {s s' : St} {d : Nat} (hI : PoolInvD s d) (h : settle s = some s') :
    PoolInvD s' d := by
  simp only [settle, Option.bind_eq_bind, Option.bind_eq_some_iff, Option.pure_def,
    Option.some.injEq] at h
  obtain ⟨⟨s1, c1⟩, h1, rfl⟩ := h
  exact (generate_poolInvD hI h1).of_view rfl

/-- time only moves forward: a later week only extends the sums by empty weeks -/
theorem advance_poolInvD {s : St} {d : Nat} (hI : PoolInvD s d) (b e : Nat) (he : s.epoch ≤ e) :
    PoolInvD { s with block := b, epoch := e } d := by
  obtain ⟨W, hW⟩ := week_of_time hI.time
  have hWe := (week_eq_some.mp hW).2
  have htime := hI.time
  have hle : ∀ W', St.week { s with block := b, epoch := e } = some W' → W ≤ W' := by
    intro W' hW'
    have := (week_eq_some.mp hW').2
    dsimp only at this
    omega
  have hpz : ∀ w, W < w → s.b.paidW w = 0 ∧ s.b.collW w = 0 := by
    intro w hw
    have := hI.week w
    rw [hI.fut W w hW hw] at this
    omega
  refine ⟨Nat.le_trans hI.time he, ?_, hI.week, ?_, ?_, ?_, ?_, hI.pct⟩
  · intro W' w hW' hw
    have := hle W' hW'
    exact hI.rem W w hW (by omega)
  · intro W' w hW' hw
    have := hle W' hW'
    exact hI.fut W w hW (by omega)
  · intro W' hW'
    show weekSum s.b.cutW W' + s.baseBudget = s.generated
    rw [weekSum_extend (fun w hw => hI.fut W w hW hw) (hle W' hW')]
    exact hI.cut W hW
  · intro W' hW'
    show weekSum s.b.paidW W' = s.paidBoosted + d
    rw [weekSum_extend (fun w hw => (hpz w hw).1) (hle W' hW')]
    exact hI.paid W hW
  · intro W' hW'
    show weekSum s.b.collW W' = s.undist
    rw [weekSum_extend (fun w hw => (hpz w hw).2) (hle W' hW')]
    exact hI.coll W hW

/-! ### endpoints -/

theorem payRewardIf_poolInvD {s s' : St} {k : Kind} {u boosted d : Nat}
    (hI : PoolInvD s (d + (if s.kind = k then boosted else 0)))
    (h : payRewardIf s k u 0 boosted = some s') : PoolInvD s' d := by
  unfold payRewardIf at h
  split at h
  · rename_i hk
    rw [if_pos hk] at hI
    exact payReward_poolInvD hI h
  · rename_i hk
    rw [if_neg hk] at hI
    simp only [Option.some.injEq] at h
    subst h
    exact hI

theorem claimTail_poolInvD {s s' : St} {c : Bool} {u base boosted d : Nat}
    (hI : PoolInvD s (d + boosted)) (h : claimTail s c u base boosted = some s') : PoolInvD s' d := by
  unfold claimTail at h
  split at h
  · simp only [Option.bind_eq_some_iff] at h
    obtain ⟨s1, h1, h2⟩ := h
    exact updateEnergyAndProgress_poolInvD (compoundMove_poolInvD hI h1) h2
  · exact payReward_poolInvD hI h

theorem enterCore_poolInv {s s' : St} {caller orig tokenTo amt : Nat} {extra : List (Nat × Nat)}
    {o : Out} (hI : PoolInv s) (h : enterCore s caller orig tokenTo amt extra = some (s', o)) :
    PoolInv s' := by
  simp only [enterCore, Option.bind_eq_bind, Option.bind_eq_some_iff, req_eq_some, Option.pure_def,
    Option.some.injEq, Prod.mk.injEq] at h
  obtain ⟨_, _, s0, h0, ⟨s1, boosted⟩, h1, s1', h1', _, hact, s2, h2, ⟨s4, c1⟩, h4, merged, hm,
    ⟨s5, n⟩, h5, s6, h6, s8, h8, s9, h9, rfl, rfl⟩ := h
  have k0 : s0.kind = s.kind := takePayments_kind h0
  have k1 : s1.kind = s.kind := (claimOnlyBoostedPayment_kind h1).trans k0
  have k1' : s1'.kind = s.kind := (payRewardIf_kind h1').trans k1
  have k2 : s2.kind = s.kind := (checkAndUpdate_kind h2).trans k1'
  have k4 : s4.kind = s.kind := (generate_kind h4).trans k2
  have k5 : s5.kind = s.kind := (createToken_kind h5).trans k4
  have k6 : s6.kind = s.kind := (setFarmSupplyWeek_kind h6).trans k5
  have i0 : PoolInvD (addFarming s0 amt) 0 := (hI.toD.of_view (takePayments_plv h0)).of_view rfl
  have i1 := claimOnlyBoostedPayment_poolInvD i0 h1
  have hsplit : 0 + boosted =
      (0 + (if s.kind = .mint then boosted else 0)) + (if s1.kind = .noMint then boosted else 0) := by
    rw [k1]; cases s.kind <;> simp
  rw [hsplit] at i1
  have i1' := payRewardIf_poolInvD i1 h1'
  have i2 := i1'.of_view (checkAndUpdate_plv h2)
  have i3 : PoolInvD (increaseUser s2 orig amt) _ := i2.of_view rfl
  have i4 := generate_poolInvD i3 h4
  have i5 := i4.of_view (createToken_plv h5)
  have i6 := setFarmSupplyWeek_poolInvD i5 h6
  have i7 : PoolInvD (Cache.drop s6 { c1 with supply := c1.supply + amt }) _ := i6.of_view rfl
  have k7 : (Cache.drop s6 { c1 with supply := c1.supply + amt }).kind = s.kind := k6
  rw [← k7] at i7
  have i8 := payRewardIf_poolInvD i7 h8
  exact (updateEnergyAndProgress_poolInvD i8 h9).toInv

theorem claimCore_poolInv {s s' : St} {caller orig : Nat} {pays : List (Nat × Nat)} {cmp : Bool}
    {o : Out} (hI : PoolInv s) (h : claimCore s caller orig pays cmp = some (s', o)) : PoolInv s' := by
  unfold claimCore at h
  replace h := bpeel h; obtain ⟨⟨n1, a1⟩, hhead, h⟩ := h
  replace h := bpeel h; obtain ⟨s0, h0, h⟩ := h
  replace h := bpeel h; obtain ⟨_, _, h⟩ := h
  replace h := bpeel h; obtain ⟨_, _, h⟩ := h
  replace h := bpeel h; obtain ⟨at1, hat, h⟩ := h
  replace h := bpeel h; obtain ⟨⟨s1, c1⟩, h1, h⟩ := h
  replace h := bpeel h; obtain ⟨part, hpart, h⟩ := h
  replace h := bpeel h; obtain ⟨⟨s2, boosted⟩, h2, h⟩ := h
  replace h := bpeel h; obtain ⟨res, _, h⟩ := h
  replace h := bpeel h; obtain ⟨s3, h3, h⟩ := h
  replace h := bpeel h; obtain ⟨merged, hm, h⟩ := h
  replace h := bpeel h; obtain ⟨⟨s5, n⟩, h5, h⟩ := h
  replace h := bpeel h; obtain ⟨s6, h6, h⟩ := h
  replace h := bpeel h; obtain ⟨s8, h8, h⟩ := h
  simp only [Option.pure_def, Option.some.injEq, Prod.mk.injEq] at h
  obtain ⟨rfl, _⟩ := h
  have i0 := hI.toD.of_view (takePayments_plv h0)
  have i1 := generate_poolInvD i0 h1
  have i2 := claimBoostedYields_poolInvD i1 h2
  have i3 := i2.of_view (checkAndUpdate_plv h3)
  have i5 := createToken_plv h5
  dsimp only at i5 h6 h8
  have i5' : PoolInvD s5 (0 + boosted) := by
    refine i3.of_view (i5.trans ?_)
    cases cmp <;> rfl
  have i6 := setFarmSupplyWeek_poolInvD i5' h6
  exact (claimTail_poolInvD (s := Cache.drop s6 _) (i6.of_view rfl) h8).toInv

theorem exitFarm_poolInv {s s' : St} {caller : Nat} {opt : Option Nat} {n a : Nat} {o : Out}
    (hI : PoolInv s) (h : exitFarm s caller opt n a = some (s', o)) : PoolInv s' := by
  unfold exitFarm at h
  replace h := bpeel h; obtain ⟨orig, _, h⟩ := h
  replace h := bpeel h; obtain ⟨s0, h0, h⟩ := h
  replace h := bpeel h; obtain ⟨_, _, h⟩ := h
  replace h := bpeel h; obtain ⟨att, hat, h⟩ := h
  replace h := bpeel h; obtain ⟨⟨s1, c1⟩, h1, h⟩ := h
  replace h := bpeel h; obtain ⟨part, hpart, h⟩ := h
  replace h := bpeel h; obtain ⟨⟨s2, boosted⟩, h2, h⟩ := h
  replace h := bpeel h; obtain ⟨res, _, h⟩ := h
  replace h := bpeel h; obtain ⟨sup, hsup, h⟩ := h
  replace h := bpeel h; obtain ⟨s4, h4, h⟩ := h
  replace h := bpeel h; obtain ⟨pen, hpen, h⟩ := h
  replace h := bpeel h; obtain ⟨out, _, h⟩ := h
  replace h := bpeel h; obtain ⟨s6, h6, h⟩ := h
  replace h := bpeel h; obtain ⟨s7, h7, h⟩ := h
  replace h := bpeel h; obtain ⟨s8, h8, h⟩ := h
  simp only [Option.pure_def, Option.some.injEq, Prod.mk.injEq] at h
  obtain ⟨rfl, _⟩ := h
  have i0 := hI.toD.of_view (takePayments_plv h0)
  have i1 := generate_poolInvD i0 h1
  have i2 := claimBoostedYields_poolInvD i1 h2
  have i3 : PoolInvD (decreaseOwner s2 att.owner a) (0 + boosted) := i2.of_view rfl
  have i4 := setFarmSupplyWeek_poolInvD i3 h4
  have i5 : PoolInvD (Cache.drop s4 { reserve := res, rps := c1.rps, supply := sup }) (0 + boosted) :=
    i4.of_view rfl
  have i6 := i5.of_view (removeFarming_plv h6)
  have i7 := payReward_poolInvD i6 h7
  exact (clearUserEnergyIfNeeded_poolInvD i7 h8).toInv

theorem mergeFarmTokens_poolInv {s s' : St} {caller : Nat} {opt : Option Nat}
    {pays : List (Nat × Nat)} {o : Out} (hI : PoolInv s)
    (h : mergeFarmTokens s caller opt pays = some (s', o)) : PoolInv s' := by
  simp only [mergeFarmTokens, Option.bind_eq_bind, Option.bind_eq_some_iff, req_eq_some,
    Option.pure_def, Option.some.injEq, Prod.mk.injEq] at h
  obtain ⟨_, hact, orig, _, _, _, s0, h0, ⟨s1, boosted⟩, h1, s2, h2, merged, hm, ⟨s3, n⟩, h3, s4, h4,
    rfl, rfl⟩ := h
  have i0 := hI.toD.of_view (takePayments_plv h0)
  have i1 := claimOnlyBoostedPayment_poolInvD i0 h1
  have i3 := (i1.of_view (checkAndUpdate_plv h2)).of_view (createToken_plv h3)
  exact (payReward_poolInvD i3 h4).toInv

theorem claimBoostedRewards_poolInv {s s' : St} {caller : Nat} {optUser : Option Nat} {o : Out}
    (hI : PoolInv s) (h : claimBoostedRewards s caller optUser = some (s', o)) : PoolInv s' := by
  simp only [claimBoostedRewards, Option.bind_eq_bind, Option.bind_eq_some_iff, req_eq_some,
    Option.pure_def, Option.some.injEq, Prod.mk.injEq, sub?_eq_some] at h
  obtain ⟨_, _, _, _, _, hact, ⟨s1, c1⟩, h1, ⟨s2, boosted⟩, h2, res, ⟨hle, rfl⟩, s3, h3, s4, h4,
    rfl, rfl⟩ := h
  have i1 := generate_poolInvD hI.toD h1
  have i2 := claimBoostedYields_poolInvD i1 h2
  have i3 := setFarmSupplyWeek_poolInvD i2 h3
  exact ((payReward_poolInvD i3 h4).of_view (s' := Cache.drop s4 _) rfl).toInv

/-! ### every reachable state -/

theorem PoolInv.of_view {s s' : St} (hI : PoolInv s) (h : poolView s' = poolView s) : PoolInv s' :=
  (hI.toD.of_view h).toInv

theorem weekSum_const_zero (W : Nat) : weekSum (fun _ => 0) W = 0 :=
  sum_map_zero (fun _ _ => rfl)

theorem init_poolInv (kind : Kind) (sameTok : Bool) (dsc perBlock : Nat) (produce : Bool)
    (users : List Nat) (e0 : Nat) : PoolInv (init kind sameTok dsc perBlock produce users e0) :=
  ⟨Nat.le_refl _, fun _ _ _ _ _ => rfl, fun _ => rfl, fun _ _ _ _ => rfl,
   fun W _ => by show weekSum (fun _ => 0) W + 0 = 0; rw [weekSum_const_zero],
   fun W _ => weekSum_const_zero W, fun W _ => weekSum_const_zero W, Nat.zero_le _⟩

theorem step_poolInv {s s' : St} {op : Op} {o : Out} (hI : PoolInv s)
    (h : step s op = some (s', o)) : PoolInv s' := by
  cases op <;> simp only [step, known] at h
  case enter c oo a e =>
    split at h <;> [skip; exact absurd h (by simp)]
    simp only [enterFarm, Option.bind_eq_bind, Option.bind_eq_some_iff] at h
    obtain ⟨_, _, h⟩ := h
    exact enterCore_poolInv hI h
  case enterOB c u a e =>
    split at h <;> [skip; exact absurd h (by simp)]
    simp only [enterFarmOnBehalf, Option.bind_eq_bind, Option.bind_eq_some_iff] at h
    obtain ⟨_, _, _, _, h⟩ := h
    exact enterCore_poolInv hI h
  case claim c oo p =>
    split at h <;> [skip; exact absurd h (by simp)]
    simp only [claimRewards, Option.bind_eq_bind, Option.bind_eq_some_iff] at h
    obtain ⟨_, _, h⟩ := h
    exact claimCore_poolInv hI h
  case claimOB c p =>
    split at h <;> [skip; exact absurd h (by simp)]
    simp only [claimRewardsOnBehalf, Option.bind_eq_bind, Option.bind_eq_some_iff] at h
    obtain ⟨_, _, _, _, _, _, h⟩ := h
    exact claimCore_poolInv hI h
  case compound c oo p =>
    split at h <;> [skip; exact absurd h (by simp)]
    simp only [compoundRewards, Option.bind_eq_bind, Option.bind_eq_some_iff, req_eq_some] at h
    obtain ⟨_, _, _, _, h⟩ := h
    exact claimCore_poolInv hI h
  case exit c oo n a =>
    split at h <;> [skip; exact absurd h (by simp)]
    exact exitFarm_poolInv hI h
  case merge c oo p =>
    split at h <;> [skip; exact absurd h (by simp)]
    exact mergeFarmTokens_poolInv hI h
  case claimBoosted c u =>
    split at h <;> [skip; exact absurd h (by simp)]
    exact claimBoostedRewards_poolInv hI h
  case transfer a b n x =>
    split at h <;> [skip; exact absurd h (by simp)]
    split at h <;> [skip; exact absurd h (by simp)]
    simp only [noOut, Option.map_eq_some_iff, Prod.mk.injEq] at h
    obtain ⟨s1, h1, rfl, _⟩ := h
    simp only [transfer, Option.bind_eq_bind, Option.bind_eq_some_iff, req_eq_some, sub?_eq_some,
      Option.pure_def, Option.some.injEq] at h1
    obtain ⟨_, _, _, _, _, _, _, _, rfl⟩ := h1
    exact hI.of_view rfl
  case setEnergy u a l t =>
    simp only [Option.some.injEq, Prod.mk.injEq] at h
    obtain ⟨rfl, _⟩ := h
    exact hI.of_view rfl
  case updateEnergy u =>
    simp only [noOut, Option.map_eq_some_iff, Prod.mk.injEq] at h
    obtain ⟨s1, h1, rfl, _⟩ := h
    exact (updateEnergyForUser_poolInvD hI.toD h1).toInv
  case setPerBlock c x =>
    simp only [noOut, Option.map_eq_some_iff, Prod.mk.injEq] at h
    obtain ⟨s1, h1, rfl, _⟩ := h
    simp only [setPerBlock, Option.bind_eq_bind, Option.bind_eq_some_iff, Option.pure_def,
      Option.some.injEq] at h1
    obtain ⟨_, _, _, _, s2, h2, rfl⟩ := h1
    exact (settle_poolInvD hI.toD h2).toInv.of_view rfl
  case startProduce c =>
    simp only [noOut, Option.map_eq_some_iff, Prod.mk.injEq] at h
    obtain ⟨s1, h1, rfl, _⟩ := h
    simp only [startProduce, Option.bind_eq_bind, Option.bind_eq_some_iff, Option.pure_def,
      Option.some.injEq] at h1
    obtain ⟨_, _, _, _, _, _, rfl⟩ := h1
    exact hI.of_view rfl
  case endProduce c =>
    simp only [noOut, Option.map_eq_some_iff, Prod.mk.injEq] at h
    obtain ⟨s1, h1, rfl, _⟩ := h
    simp only [endProduce, Option.bind_eq_bind, Option.bind_eq_some_iff, Option.pure_def,
      Option.some.injEq] at h1
    obtain ⟨_, _, s2, h2, rfl⟩ := h1
    exact (settle_poolInvD hI.toD h2).toInv.of_view rfl
  case setPct c p =>
    simp only [noOut, Option.map_eq_some_iff, Prod.mk.injEq] at h
    obtain ⟨s1, h1, rfl, _⟩ := h
    simp only [setPct, Option.bind_eq_bind, Option.bind_eq_some_iff, Option.pure_def,
      Option.some.injEq, req_eq_some] at h1
    obtain ⟨_, _, _, hp, s2, h2, rfl⟩ := h1
    have i2 := settle_poolInvD hI.toD h2
    exact ⟨i2.time, i2.rem, i2.week, i2.fut, i2.cut, i2.paid, i2.coll, hp⟩
  case setFactors c f =>
    simp only [noOut, Option.map_eq_some_iff, Prod.mk.injEq] at h
    obtain ⟨s1, h1, rfl, _⟩ := h
    simp only [setFactors, Option.bind_eq_bind, Option.bind_eq_some_iff, Option.pure_def] at h1
    obtain ⟨_, _, _, _, _, _, W, _, h1⟩ := h1
    split at h1
    · simp only [Option.bind_eq_some_iff, Option.some.injEq] at h1
      obtain ⟨c', _, rfl⟩ := h1
      exact (hI.toD.of_b { s.b with cfg := some c' } rfl rfl rfl rfl rfl).toInv
    · simp only [Option.some.injEq] at h1
      subst h1
      exact (hI.toD.of_b { s.b with cfg := some (BCfg.new W f) } rfl rfl rfl rfl rfl).toInv
  case collect c =>
    simp only [noOut, Option.map_eq_some_iff, Prod.mk.injEq] at h
    obtain ⟨s1, h1, rfl, _⟩ := h
    exact (collectUndistributed_poolInvD hI.toD h1).toInv
  case pause c =>
    simp only [noOut, Option.map_eq_some_iff, Prod.mk.injEq] at h
    obtain ⟨s1, h1, rfl, _⟩ := h
    simp only [setActive, Option.bind_eq_bind, Option.bind_eq_some_iff, Option.pure_def,
      Option.some.injEq] at h1
    obtain ⟨_, _, rfl⟩ := h1
    exact hI.of_view rfl
  case resume c =>
    simp only [noOut, Option.map_eq_some_iff, Prod.mk.injEq] at h
    obtain ⟨s1, h1, rfl, _⟩ := h
    simp only [setActive, Option.bind_eq_bind, Option.bind_eq_some_iff, Option.pure_def,
      Option.some.injEq] at h1
    obtain ⟨_, _, rfl⟩ := h1
    exact hI.of_view rfl
  case setPenalty c p =>
    simp only [noOut, Option.map_eq_some_iff, Prod.mk.injEq] at h
    obtain ⟨s1, h1, rfl, _⟩ := h
    simp only [setPenalty, Option.bind_eq_bind, Option.bind_eq_some_iff, Option.pure_def,
      Option.some.injEq] at h1
    obtain ⟨_, _, _, _, rfl⟩ := h1
    exact hI.of_view rfl
  case setMinEpochs c n =>
    simp only [noOut, Option.map_eq_some_iff, Prod.mk.injEq] at h
    obtain ⟨s1, h1, rfl, _⟩ := h
    simp only [setMinEpochs, Option.bind_eq_bind, Option.bind_eq_some_iff, Option.pure_def,
      Option.some.injEq] at h1
    obtain ⟨_, _, _, _, rfl⟩ := h1
    exact hI.of_view rfl
  case hubWhitelist u a =>
    split at h
    · cases h
    · simp only [Option.some.injEq, Prod.mk.injEq] at h; obtain ⟨rfl, _⟩ := h; exact hI.of_view rfl
  case hubRemove u a =>
    split at h
    · simp only [Option.some.injEq, Prod.mk.injEq] at h; obtain ⟨rfl, _⟩ := h; exact hI.of_view rfl
    · cases h
  case hubBlacklist a =>
    simp only [Option.some.injEq, Prod.mk.injEq] at h; obtain ⟨rfl, _⟩ := h; exact hI.of_view rfl
  case scWhitelist a =>
    split at h
    · cases h
    · simp only [Option.some.injEq, Prod.mk.injEq] at h; obtain ⟨rfl, _⟩ := h; exact hI.of_view rfl
  case scUnwhitelist a =>
    split at h
    · simp only [Option.some.injEq, Prod.mk.injEq] at h; obtain ⟨rfl, _⟩ := h; exact hI.of_view rfl
    · cases h
  case advance b e =>
    split at h
    · rename_i hbe
      simp only [Option.some.injEq, Prod.mk.injEq] at h; obtain ⟨rfl, _⟩ := h
      exact (advance_poolInvD hI.toD b e hbe.2).toInv
    · cases h
  case bad => cases h

theorem run_poolInv (ops : List Op) {s : St} (hI : PoolInv s) : PoolInv (run s ops) := by
  induction ops generalizing s with
  | nil => exact hI
  | cons op rest ih =>
    simp only [run, List.foldl_cons]
    cases hs : step s op with
    | none => exact ih hI
    | some r => exact ih (step_poolInv hI (show step s op = some (r.1, r.2) from hs))

/-- every state reachable from a fresh deployment satisfies the pool invariant -/
theorem reachable_poolInv (kind : Kind) (sameTok : Bool) (dsc perBlock : Nat) (produce : Bool)
    (users : List Nat) (e0 : Nat) (ops : List Op) :
    PoolInv (run (init kind sameTok dsc perBlock produce users e0) ops) :=
  run_poolInv ops (init_poolInv kind sameTok dsc perBlock produce users e0)

/-- **where every generated reward is**: what still sits in the weekly pools (accumulated or
    frozen and not yet paid), what was collected as undistributed, what was paid as boosted
    rewards and the base share add up to everything ever generated -/
theorem pools_eq {s : St} (hI : PoolInv s) {W : Nat} (hW : s.week = some W) :
    weekSum (fun w => s.b.accum w + s.b.remaining w) W + s.undist + s.paidBoosted + s.baseBudget =
      s.generated := by
  have h1 : weekSum s.b.cutW W =
      weekSum (fun w => s.b.accum w + s.b.remaining w) W + weekSum s.b.paidW W +
        weekSum s.b.collW W := by
    rw [← weekSum_add, ← weekSum_add]
    exact weekSum_congr (fun w _ => (hI.week w).symm)
  have := hI.cut W hW
  rw [h1, hI.paid W hW, hI.coll W hW] at this
  omega

end Mx.Farm
