/-
  The reward index of the farm model (C06): which operations move `reward_per_share` /
  `last_reward_block_nonce`, by how much, and under which configuration.
  Technique as in FarmAcct.lean: a small VIEW of the relevant fields, one lemma per helper.
-/
import MxModel.Lemmas.FarmSpec

namespace Mx.Farm

open Mx.Weekly (upd Energy)

/-- the emission view: index, supply, schedule and configuration -/
structure RV where
  rps : Nat
  supply : Nat
  lastBlock : Nat
  block : Nat
  produce : Bool
  perBlock : Nat
  pct : Nat
  dsc : Nat
  deriving DecidableEq

def rv (s : St) : RV := ⟨s.rps, s.supply, s.lastBlock, s.block, s.produce, s.perBlock, s.pct, s.dsc⟩

/-- the base share of the emission a settlement at the current block distributes -/
def baseShare (s : St) : Nat := minted s - cutOf s

/-- the index increment of a settlement: `⌊base·dsc/supply⌋`, nothing at zero supply -/
def rpsIncr (s : St) : Nat := if s.supply = 0 then 0 else baseShare s * s.dsc / s.supply

theorem minted_congr {s t : St} (h : rv s = rv t) : minted s = minted t := by
  simp only [rv, RV.mk.injEq] at h
  obtain ⟨_, _, h3, h4, h5, h6, _, _⟩ := h
  simp only [minted, h3, h4, h5, h6]

theorem cutOf_congr {s t : St} (h : rv s = rv t) : cutOf s = cutOf t := by
  have hm := minted_congr h
  simp only [rv, RV.mk.injEq] at h
  obtain ⟨_, _, _, _, _, _, h7, _⟩ := h
  simp only [cutOf, hm, h7]

theorem rpsIncr_congr {s t : St} (h : rv s = rv t) : rpsIncr s = rpsIncr t := by
  have hm := minted_congr h
  have hc := cutOf_congr h
  simp only [rv, RV.mk.injEq] at h
  obtain ⟨_, h2, _, _, _, _, _, h8⟩ := h
  simp only [rpsIncr, baseShare, hm, hc, h2, h8]

/-- what a settlement does to the view -/
def settledRV (s : St) : RV :=
  ⟨s.rps + rpsIncr s, s.supply, (if s.lastBlock < s.block then s.block else s.lastBlock), s.block,
   s.produce, s.perBlock, s.pct, s.dsc⟩

/-! ### helpers on the view -/

theorem takePayments_rv {l : List (Nat × Nat)} {s s' : St} {c : Nat} (h : takePayments s c l = some s') :
    rv s' = rv s := by obtain ⟨_, rfl⟩ := takePayments_spec l h; rfl
theorem checkAndUpdate_rv {l : List (Nat × Nat)} {s s' : St} {c : Nat} (h : checkAndUpdate s c l = some s') :
    rv s' = rv s := by obtain ⟨_, rfl⟩ := checkAndUpdate_spec l h; rfl
theorem claimBoostedYields_rv {s s' : St} {u r : Nat} (h : claimBoostedYields s u = some (s', r)) :
    rv s' = rv s := by obtain ⟨_, _, rfl⟩ := claimBoostedYields_struct h; rfl
theorem setFarmSupplyWeek_rv {s s' : St} {v : Nat} (h : setFarmSupplyWeek s v = some s') :
    rv s' = rv s := by obtain ⟨_, _, rfl⟩ := setFarmSupplyWeek_spec h; rfl
theorem updateEnergyAndProgress_rv {s s' : St} {u : Nat} (h : updateEnergyAndProgress s u = some s') :
    rv s' = rv s := by obtain ⟨_, rfl⟩ := updateEnergyAndProgress_spec h; rfl
theorem createToken_rv {s s' : St} {d n : Nat} {a : Attr} (h : createToken s d a = some (s', n)) :
    rv s' = rv s := by obtain ⟨_, _, rfl⟩ := createToken_spec h; rfl
theorem payReward_rv {s s' : St} {u b bo : Nat} (h : payReward s u b bo = some s') :
    rv s' = rv s := by obtain ⟨_, _, rfl, _⟩ := payReward_spec h; rfl
theorem payRewardIf_rv {s s' : St} {k : Kind} {u b bo : Nat} (h : payRewardIf s k u b bo = some s') :
    rv s' = rv s := by
  unfold payRewardIf at h
  split at h
  · exact payReward_rv h
  · simp only [Option.some.injEq] at h; rw [← h]
theorem removeFarming_rv {s s' : St} {a p : Nat} (h : removeFarming s a p = some s') : rv s' = rv s := by
  simp only [removeFarming, Option.bind_eq_bind, Option.bind_eq_some_iff, sub?_eq_some, Option.pure_def,
    Option.some.injEq] at h
  obtain ⟨_, _, rfl⟩ := h; rfl
theorem compoundMove_rv {s s' : St} {b bo : Nat} (h : compoundMove s b bo = some s') : rv s' = rv s := by
  simp only [compoundMove, Option.bind_eq_bind, Option.bind_eq_some_iff, sub?_eq_some, Option.pure_def,
    Option.some.injEq] at h
  obtain ⟨_, _, rfl⟩ := h; rfl
theorem clearUserEnergyIfNeeded_rv {s s' : St} {u : Nat} (h : clearUserEnergyIfNeeded s u = some s') :
    rv s' = rv s := by
  unfold clearUserEnergyIfNeeded at h
  split at h
  · simp only [Option.some.injEq] at h; rw [← h]
  · simp only [Option.bind_eq_bind, Option.bind_eq_some_iff, Option.pure_def, Option.some.injEq] at h
    obtain ⟨_, _, _, _, _, _, rfl⟩ := h
    rfl
theorem claimTail_rv {s s' : St} {c : Bool} {u b bo : Nat} (h : claimTail s c u b bo = some s') :
    rv s' = rv s := by
  unfold claimTail at h
  split at h
  · simp only [Option.bind_eq_some_iff] at h
    obtain ⟨s1, h1, h2⟩ := h
    exact (updateEnergyAndProgress_rv h2).trans (compoundMove_rv h1)
  · exact payReward_rv h
theorem claimOnlyBoostedPayment_rv {s s' : St} {u r : Nat} (h : claimOnlyBoostedPayment s u = some (s', r)) :
    rv s' = rv s := by
  simp only [claimOnlyBoostedPayment, Option.bind_eq_bind, Option.bind_eq_some_iff, Option.pure_def] at h
  obtain ⟨⟨s1, r1⟩, h1, h⟩ := h
  have k1 := claimBoostedYields_rv h1
  split at h
  · simp only [Option.some.injEq, Prod.mk.injEq] at h
    obtain ⟨rfl, _⟩ := h; exact k1
  · simp only [Option.bind_eq_some_iff, sub?_eq_some, Option.some.injEq, Prod.mk.injEq] at h
    obtain ⟨_, _, rfl, _⟩ := h; exact k1

/-- `generate` on a cache read from a state with the same view: only `lastBlock` moves in the
    state, the cache carries the new index -/
theorem generate_rv {s s' : St} {c c' : Cache} (h : generate s c = some (s', c')) :
    rv s' = ⟨s.rps, s.supply, (if s.lastBlock < s.block then s.block else s.lastBlock), s.block,
             s.produce, s.perBlock, s.pct, s.dsc⟩ ∧
    c'.rps = c.rps + (if c.supply = 0 then 0 else baseShare s * s.dsc / c.supply) ∧
    c'.supply = c.supply := by
  obtain ⟨_, rfl, _, rfl, _⟩ := generate_spec h
  exact ⟨rfl, rfl, rfl⟩

/-- **settlement** = cache; generate; drop: the view becomes `settledRV` -/
theorem settle_rv {s s' : St} (h : settle s = some s') : rv s' = settledRV s := by
  simp only [settle, Option.bind_eq_bind, Option.bind_eq_some_iff, Option.pure_def, Option.some.injEq] at h
  obtain ⟨⟨s1, c1⟩, h1, rfl⟩ := h
  obtain ⟨e1, hr, hs⟩ := generate_rv h1
  simp only [rv, RV.mk.injEq] at e1
  obtain ⟨_, _, a3, a4, a5, a6, a7, a8⟩ := e1
  simp only [rv, settledRV, Cache.drop, Cache.read, RV.mk.injEq, rpsIncr] at hr hs ⊢
  exact ⟨hr, hs, a3, a4, a5, a6, a7, a8⟩

/-! ### the index never decreases; it only moves through settlements -/

theorem rpsIncr_settled_zero (s : St) (t : St) (h : rv t = settledRV s) : minted t = 0 := by
  simp only [rv, settledRV, RV.mk.injEq] at h
  obtain ⟨_, _, h3, h4, _⟩ := h
  unfold minted
  rw [h3, h4]
  have : ¬ ((if s.lastBlock < s.block then s.block else s.lastBlock) < s.block) := by
    split <;> omega
  simp only [this, if_false]

theorem intoPart_rps {a p : Attr} {x : Nat} (h : a.intoPart x = some p) : p.rps = a.rps ∧ p.amt = x := by
  unfold Attr.intoPart at h
  split at h
  · simp only [Option.some.injEq] at h; subst h; exact ⟨rfl, by omega⟩
  · simp only [Option.bind_eq_bind, Option.bind_eq_some_iff, req_eq_some, Option.pure_def,
      Option.some.injEq] at h
    obtain ⟨_, _, rfl⟩ := h
    exact ⟨rfl, rfl⟩

/-! ### endpoints on the view -/

theorem enterCore_rv {s s' : St} {caller orig tokenTo amt : Nat} {extra : List (Nat × Nat)} {o : Out}
    (h : enterCore s caller orig tokenTo amt extra = some (s', o)) :
    rv s' = { settledRV s with supply := s.supply + amt } := by
  simp only [enterCore, Option.bind_eq_bind, Option.bind_eq_some_iff, req_eq_some, Option.pure_def,
    Option.some.injEq, Prod.mk.injEq] at h
  obtain ⟨_, _, s0, h0, ⟨s1, boosted⟩, h1, s1', h1', _, hact, s2, h2, ⟨s4, c1⟩, h4, merged, hm,
    ⟨s5, n⟩, h5, s6, h6, s8, h8, s9, h9, rfl, rfl⟩ := h
  have e0 := takePayments_rv h0
  have e1 : rv s1 = rv s0 := (claimOnlyBoostedPayment_rv h1).trans rfl
  have e1' := payRewardIf_rv h1'
  have e2 := checkAndUpdate_rv h2
  obtain ⟨e4, hr, hs⟩ := generate_rv h4
  have e5 := createToken_rv h5
  have e6 := setFarmSupplyWeek_rv h6
  have e8 := payRewardIf_rv h8
  have e9 := updateEnergyAndProgress_rv h9
  have q : rv s1' = rv s := e1'.trans (e1.trans e0)
  have q2 : rv (increaseUser s2 orig amt) = rv s := e2.trans q
  have hb : baseShare (increaseUser s2 orig amt) = baseShare s := by
    unfold baseShare; rw [minted_congr q2, cutOf_congr q2]
  clear h0 h1 h2 h4 h5 h6 h8 h9 h1' hm
  rw [hb] at hr
  rw [e9, e8]
  simp only [rv, RV.mk.injEq, Cache.drop, Cache.read, increaseUser, settledRV, rpsIncr] at *
  obtain ⟨a1, a2, a3, a4, a5, a6, a7, a8⟩ := q
  obtain ⟨b1, b2, b3, b4, b5, b6, b7, b8⟩ := e2
  obtain ⟨c1', c2, c3, c4, c5, c6, c7, c8⟩ := e4
  obtain ⟨d1, d2, d3, d4, d5, d6, d7, d8⟩ := e5
  obtain ⟨f1, f2, f3, f4, f5, f6, f7, f8⟩ := e6
  refine ⟨?_, ?_, ?_, ?_, ?_, ?_, ?_, ?_⟩
  · rw [hr, a1, a2, b8, a8]
  · rw [hs, a2]
  · rw [f3, d3, c3, b3, b4, a3, a4]
  · rw [f4, d4, c4, b4, a4]
  · rw [f5, d5, c5, b5, a5]
  · rw [f6, d6, c6, b6, a6]
  · rw [f7, d7, c7, b7, a7]
  · rw [f8, d8, c8, b8, a8]

end Mx.Farm
