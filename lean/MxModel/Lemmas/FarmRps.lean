/-
  The reward index of the farm model (C06): which operations move `reward_per_share` /
  `last_reward_block_nonce`, by how much, and under which configuration.
  Technique as in FarmAcct.lean: a small VIEW of the relevant fields, one lemma per helper.
-/
import MxModel.Lemmas.FarmSpec

namespace Mx.Farm

open Mx.Weekly (upd Energy)

/-- the emission view: index, supply, schedule and configuration -/
structure RV where
  rps : Nat
  supply : Nat
  lastBlock : Nat
  block : Nat
  produce : Bool
  perBlock : Nat
  pct : Nat
  dsc : Nat
  deriving DecidableEq

def rv (s : St) : RV := ⟨s.rps, s.supply, s.lastBlock, s.block, s.produce, s.perBlock, s.pct, s.dsc⟩

/-- the base share of the emission a settlement at the current block distributes -/
def baseShare (s : St) : Nat := minted s - cutOf s

/-- the index increment of a settlement: `⌊base·dsc/supply⌋`, nothing at zero supply -/
def rpsIncr (s : St) : Nat := if s.supply = 0 then 0 else baseShare s * s.dsc / s.supply

theorem minted_congr {s t : St} (h : rv s = rv t) : minted s = minted t := by
  simp only [rv, RV.mk.injEq] at h
  obtain ⟨_, _, h3, h4, h5, h6, _, _⟩ := h
  simp only [minted, h3, h4, h5, h6]

theorem cutOf_congr {s t : St} (h : rv s = rv t) : cutOf s = cutOf t := by
  have hm := minted_congr h
  simp only [rv, RV.mk.injEq] at h
  obtain ⟨_, _, _, _, _, _, h7, _⟩ := h
  simp only [cutOf, hm, h7]

theorem rpsIncr_congr {s t : St} (h : rv s = rv t) : rpsIncr s = rpsIncr t := by
  have hm := minted_congr h
  have hc := cutOf_congr h
  simp only [rv, RV.mk.injEq] at h
  obtain ⟨_, h2, _, _, _, _, _, h8⟩ := h
  simp only [rpsIncr, baseShare, hm, hc, h2, h8]

/-- what a settlement does to the view -/
def settledRV (s : St) : RV :=
  ⟨s.rps + rpsIncr s, s.supply, (if s.lastBlock < s.block then s.block else s.lastBlock), s.block,
   s.produce, s.perBlock, s.pct, s.dsc⟩

/-! ### helpers on the view -/

theorem takePayments_rv {l : List (Nat × Nat)} {s s' : St} {c : Nat} (h : takePayments s c l = some s') :
    rv s' = rv s := by obtain ⟨_, rfl⟩ := takePayments_spec l h; rfl
theorem checkAndUpdate_rv {l : List (Nat × Nat)} {s s' : St} {c : Nat} (h : checkAndUpdate s c l = some s') :
    rv s' = rv s := by obtain ⟨_, rfl⟩ := checkAndUpdate_spec l h; rfl
theorem claimBoostedYields_rv {s s' : St} {u r : Nat} (h : claimBoostedYields s u = some (s', r)) :
    rv s' = rv s := by obtain ⟨_, _, rfl⟩ := claimBoostedYields_struct h; rfl
theorem setFarmSupplyWeek_rv {s s' : St} {v : Nat} (h : setFarmSupplyWeek s v = some s') :
    rv s' = rv s := by obtain ⟨_, _, rfl⟩ := setFarmSupplyWeek_spec h; rfl
theorem updateEnergyAndProgress_rv {s s' : St} {u : Nat} (h : updateEnergyAndProgress s u = some s') :
    rv s' = rv s := by obtain ⟨_, rfl⟩ := updateEnergyAndProgress_spec h; rfl
theorem createToken_rv {s s' : St} {d n : Nat} {a : Attr} (h : createToken s d a = some (s', n)) :
    rv s' = rv s := by obtain ⟨_, _, rfl⟩ := createToken_spec h; rfl
theorem payReward_rv {s s' : St} {u b bo : Nat} (h : payReward s u b bo = some s') :
    rv s' = rv s := by obtain ⟨_, _, rfl, _⟩ := payReward_spec h; rfl
theorem payRewardIf_rv {s s' : St} {k : Kind} {u b bo : Nat} (h : payRewardIf s k u b bo = some s') :
    rv s' = rv s := by
  unfold payRewardIf at h
  split at h
  · exact payReward_rv h
  · simp only [Option.some.injEq] at h; rw [← h]
theorem removeFarming_rv {s s' : St} {a p : Nat} (h : removeFarming s a p = some s') : rv s' = rv s := by
  simp only [removeFarming, Option.bind_eq_bind, Option.bind_eq_some_iff, sub?_eq_some, Option.pure_def,
    Option.some.injEq] at h
  obtain ⟨_, _, rfl⟩ := h; rfl
theorem compoundMove_rv {s s' : St} {b bo : Nat} (h : compoundMove s b bo = some s') : rv s' = rv s := by
  simp only [compoundMove, Option.bind_eq_bind, Option.bind_eq_some_iff, sub?_eq_some, Option.pure_def,
    Option.some.injEq] at h
  obtain ⟨_, _, rfl⟩ := h; rfl
theorem clearUserEnergyIfNeeded_rv {s s' : St} {u : Nat} (h : clearUserEnergyIfNeeded s u = some s') :
    rv s' = rv s := by
  unfold clearUserEnergyIfNeeded at h
  split at h
  · simp only [Option.some.injEq] at h; rw [← h]
  · simp only [Option.bind_eq_bind, Option.bind_eq_some_iff, Option.pure_def, Option.some.injEq] at h
    obtain ⟨_, _, _, _, _, _, rfl⟩ := h
    rfl
theorem claimTail_rv {s s' : St} {c : Bool} {u b bo : Nat} (h : claimTail s c u b bo = some s') :
    rv s' = rv s := by
  unfold claimTail at h
  split at h
  · simp only [Option.bind_eq_some_iff] at h
    obtain ⟨s1, h1, h2⟩ := h
    exact (updateEnergyAndProgress_rv h2).trans (compoundMove_rv h1)
  · exact payReward_rv h
theorem claimOnlyBoostedPayment_rv {s s' : St} {u r : Nat} (h : claimOnlyBoostedPayment s u = some (s', r)) :
    rv s' = rv s := by
  simp only [claimOnlyBoostedPayment, Option.bind_eq_bind, Option.bind_eq_some_iff, Option.pure_def] at h
  obtain ⟨⟨s1, r1⟩, h1, h⟩ := h
  have k1 := claimBoostedYields_rv h1
  split at h
  · simp only [Option.some.injEq, Prod.mk.injEq] at h
    obtain ⟨rfl, _⟩ := h; exact k1
  · simp only [Option.bind_eq_some_iff, sub?_eq_some, Option.some.injEq, Prod.mk.injEq] at h
    obtain ⟨_, _, rfl, _⟩ := h; exact k1

/-- `generate` on a cache read from a state with the same view: only `lastBlock` moves in the
    state, the cache carries the new index -/
theorem generate_rv {s s' : St} {c c' : Cache} (h : generate s c = some (s', c')) :
    rv s' = ⟨s.rps, s.supply, (if s.lastBlock < s.block then s.block else s.lastBlock), s.block,
             s.produce, s.perBlock, s.pct, s.dsc⟩ ∧
    c'.rps = c.rps + (if c.supply = 0 then 0 else baseShare s * s.dsc / c.supply) ∧
    c'.supply = c.supply := by
  obtain ⟨_, rfl, _, rfl, _⟩ := generate_spec h
  exact ⟨rfl, rfl, rfl⟩

/-- **settlement** = cache; generate; drop: the view becomes `settledRV` -/
theorem settle_rv {s s' : St} (h : settle s = some s') : rv s' = settledRV s := by
  simp only [settle, Option.bind_eq_bind, Option.bind_eq_some_iff, Option.pure_def, Option.some.injEq] at h
  obtain ⟨⟨s1, c1⟩, h1, rfl⟩ := h
  obtain ⟨e1, hr, hs⟩ := generate_rv h1
  simp only [rv, RV.mk.injEq] at e1
  obtain ⟨_, _, a3, a4, a5, a6, a7, a8⟩ := e1
  simp only [rv, settledRV, Cache.drop, Cache.read, RV.mk.injEq, rpsIncr] at hr hs ⊢
  exact ⟨hr, hs, a3, a4, a5, a6, a7, a8⟩

/-! ### the index never decreases; it only moves through settlements -/

theorem rpsIncr_settled_zero (s : St) (t : St) (h : rv t = settledRV s) : minted t = 0 := by
  simp only [rv, settledRV, RV.mk.injEq] at h
  obtain ⟨_, _, h3, h4, _⟩ := h
  unfold minted
  rw [h3, h4]
  have : ¬ ((if s.lastBlock < s.block then s.block else s.lastBlock) < s.block) := by
    split <;> omega
  simp only [this, if_false]

theorem intoPart_rps {a p : Attr} {x : Nat} (h : a.intoPart x = some p) : p.rps = a.rps ∧ p.amt = x := by
  unfold Attr.intoPart at h
  split at h
  · simp only [Option.some.injEq] at h; subst h; exact ⟨rfl, by omega⟩
  · simp only [Option.bind_eq_bind, Option.bind_eq_some_iff, req_eq_some, Option.pure_def,
      Option.some.injEq] at h
    obtain ⟨_, _, rfl⟩ := h
    exact ⟨rfl, rfl⟩

/-! ### endpoints on the view -/

theorem enterCore_rv {s s' : St} {caller orig tokenTo amt : Nat} {extra : List (Nat × Nat)} {o : Out}
    (h : enterCore s caller orig tokenTo amt extra = some (s', o)) :
    rv s' = { settledRV s with supply := s.supply + amt } := by
  simp only [enterCore, Option.bind_eq_bind, Option.bind_eq_some_iff, req_eq_some, Option.pure_def,
    Option.some.injEq, Prod.mk.injEq] at h
  obtain ⟨_, _, s0, h0, ⟨s1, boosted⟩, h1, s1', h1', _, hact, s2, h2, ⟨s4, c1⟩, h4, merged, hm,
    ⟨s5, n⟩, h5, s6, h6, s8, h8, s9, h9, rfl, rfl⟩ := h
  have e0 := takePayments_rv h0
  have e1 : rv s1 = rv s0 := (claimOnlyBoostedPayment_rv h1).trans rfl
  have e1' := payRewardIf_rv h1'
  have e2 := checkAndUpdate_rv h2
  obtain ⟨e4, hr, hs⟩ := generate_rv h4
  have e5 := createToken_rv h5
  have e6 := setFarmSupplyWeek_rv h6
  have e8 := payRewardIf_rv h8
  have e9 := updateEnergyAndProgress_rv h9
  have q : rv s1' = rv s := e1'.trans (e1.trans e0)
  have q2 : rv (increaseUser s2 orig amt) = rv s := e2.trans q
  have hb : baseShare (increaseUser s2 orig amt) = baseShare s := by
    unfold baseShare; rw [minted_congr q2, cutOf_congr q2]
  clear h0 h1 h2 h4 h5 h6 h8 h9 h1' hm
  rw [hb] at hr
  rw [e9, e8]
  simp only [rv, RV.mk.injEq, Cache.drop, Cache.read, increaseUser, settledRV, rpsIncr] at *
  obtain ⟨a1, a2, a3, a4, a5, a6, a7, a8⟩ := q
  obtain ⟨b1, b2, b3, b4, b5, b6, b7, b8⟩ := e2
  obtain ⟨c1', c2, c3, c4, c5, c6, c7, c8⟩ := e4
  obtain ⟨d1, d2, d3, d4, d5, d6, d7, d8⟩ := e5
  obtain ⟨f1, f2, f3, f4, f5, f6, f7, f8⟩ := e6
  refine ⟨?_, ?_, ?_, ?_, ?_, ?_, ?_, ?_⟩
  · simp only [hr, a1, a2, b8, a8]
  · simp only [hs, a2]
  · simp only [f3, d3, c3, b3, b4, a3, a4]
  · simp only [f4, d4, c4, b4, a4]
  · simp only [f5, d5, c5, b5, a5]
  · simp only [f6, d6, c6, b6, a6]
  · simp only [f7, d7, c7, b7, a7]
  · simp only [f8, d8, c8, b8, a8]

/-- claim / compound: a settlement, then the base reward is computed with the settled index -/
theorem claimCore_rv {s s' : St} {caller orig : Nat} {pays : List (Nat × Nat)} {cmp : Bool} {o : Out}
    (h : claimCore s caller orig pays cmp = some (s', o)) :
    ∃ n1 a1 att, pays.head? = some (n1, a1) ∧ s.attrs n1 = some att ∧
      o.base = baseReward s.dsc (s.rps + rpsIncr s) a1 att.rps ∧ o.rew = o.base + o.boosted ∧
      rv s' = { settledRV s with supply := if cmp then s.supply + o.rew else s.supply } := by
  simp only [claimCore, Option.bind_eq_bind, Option.bind_eq_some_iff, req_eq_some, Option.pure_def,
    Option.some.injEq, Prod.mk.injEq, sub?_eq_some] at h
  obtain ⟨⟨n1, a1⟩, hhead, s0, h0, _, hact, _, hsame, at1, hat, ⟨s1, c1⟩, h1, part, hpart, ⟨s2, boosted⟩, h2,
    res, ⟨hle, rfl⟩, s3, h3, merged, hm, ⟨s5, n⟩, h5, s6, h6, s8, h8, rfl, rfl⟩ := h
  have e0 := takePayments_rv h0
  obtain ⟨e1, hr, hs⟩ := generate_rv h1
  have e2 := claimBoostedYields_rv h2
  have e3 := checkAndUpdate_rv h3
  have e5 := createToken_rv h5
  have e6 := setFarmSupplyWeek_rv h6
  have e8 := claimTail_rv h8
  have hattr : s0.attrs = s.attrs := by obtain ⟨_, rfl⟩ := takePayments_spec _ h0; rfl
  obtain ⟨hprps, _⟩ := intoPart_rps hpart
  have hb : baseShare s0 = baseShare s := by unfold baseShare; rw [minted_congr e0, cutOf_congr e0]
  have e4 : rv (if cmp = true then increaseUser s3 orig
      (baseReward s1.dsc c1.rps a1 part.rps + boosted) else s3) = rv s3 := by cases cmp <;> rfl
  have q : rv s6 = rv s1 := e6.trans (e5.trans (e4.trans (e3.trans e2)))
  clear h0 h1 h2 h3 h5 h6 h8 hm hpart e2 e3 e5 e6 e4
  rw [hb] at hr
  dsimp only at e8 ⊢
  refine ⟨n1, a1, at1, hhead, hattr ▸ hat, ?_, rfl, ?_⟩
  · simp only [rv, RV.mk.injEq, Cache.read, rpsIncr] at e0 e1 hr hs
    obtain ⟨a1', a2, a3, a4, a5, a6, a7, a8⟩ := e0
    obtain ⟨b1, b2, b3, b4, b5, b6, b7, b8⟩ := e1
    simp only [hr, hprps, b8, a1', a2, a8, rpsIncr]
  · rw [e8]
    simp only [rv, RV.mk.injEq, Cache.drop, Cache.read, settledRV, rpsIncr] at e0 e1 hr hs q ⊢
    obtain ⟨a1', a2, a3, a4, a5, a6, a7, a8⟩ := e0
    obtain ⟨b1, b2, b3, b4, b5, b6, b7, b8⟩ := e1
    obtain ⟨c1', c2, c3, c4, c5, c6, c7, c8⟩ := q
    refine ⟨?_, ?_, ?_, ?_, ?_, ?_, ?_, ?_⟩
    · simp only [hr, a1', a2, a8]
    · cases cmp <;> simp only [hs, a2, hr, hprps, b8, a1', a8, if_true, if_false, Bool.false_eq_true]
    · simp only [c3, b3, a3, a4]
    · simp only [c4, b4, a4]
    · simp only [c5, b5, a5]
    · simp only [c6, b6, a6]
    · simp only [c7, b7, a7]
    · simp only [c8, b8, a8]

set_option maxHeartbeats 1000000 in
theorem exitFarm_rv {s s' : St} {caller : Nat} {opt : Option Nat} {n a : Nat} {o : Out}
    (h : exitFarm s caller opt n a = some (s', o)) :
    ∃ att, s.attrs n = some att ∧ a ≤ s.supply ∧
      o.base = baseReward s.dsc (s.rps + rpsIncr s) a att.rps ∧ o.rew = o.base + o.boosted ∧
      rv s' = { settledRV s with supply := s.supply - a } := by
  simp (config := { maxSteps := 1000000 }) only [exitFarm, Option.bind_eq_bind,
    Option.bind_eq_some_iff, req_eq_some, Option.pure_def,
    Option.some.injEq, Prod.mk.injEq, sub?_eq_some] at h
  obtain ⟨orig, _, s0, h0, _, hact, att, hat, ⟨s1, c1⟩, h1, part, hpart, ⟨s2, boosted⟩, h2,
    res, ⟨hle, rfl⟩, sup, ⟨hsup, rfl⟩, s4, h4, pen, hpen, out, _, s6, h6, s7, h7, s8, h8, rfl, rfl⟩ := h
  have e0 := takePayments_rv h0
  obtain ⟨e1, hr, hs⟩ := generate_rv h1
  have e2 := claimBoostedYields_rv h2
  have e4 := setFarmSupplyWeek_rv h4
  have e6 := removeFarming_rv h6
  have e7 := payReward_rv h7
  have e8 := clearUserEnergyIfNeeded_rv h8
  have hattr : s0.attrs = s.attrs := by obtain ⟨_, rfl⟩ := takePayments_spec _ h0; rfl
  obtain ⟨hprps, hpamt⟩ := intoPart_rps hpart
  have hb : baseShare s0 = baseShare s := by unfold baseShare; rw [minted_congr e0, cutOf_congr e0]
  have q : rv s4 = rv s1 := e4.trans e2
  have q8 : rv s8 = rv (Cache.drop s4 ⟨c1.reserve - (baseReward s1.dsc c1.rps a part.rps + boosted), c1.rps,
      c1.supply - part.amt⟩) := e8.trans (e7.trans e6)
  clear h0 h1 h2 h4 h6 h7 h8 hpart hpen e2 e4 e6 e7 e8
  rw [hb] at hr
  dsimp only at hsup ⊢
  simp only [rv, RV.mk.injEq, Cache.read, rpsIncr] at e0 e1 hr hs
  obtain ⟨a1', a2, a3, a4, a5, a6, a7, a8⟩ := e0
  obtain ⟨b1, b2, b3, b4, b5, b6, b7, b8⟩ := e1
  refine ⟨att, hattr ▸ hat, by omega, ?_, rfl, ?_⟩
  · simp only [hr, hprps, b8, a1', a2, a8, rpsIncr]
  · rw [q8]
    simp only [rv, RV.mk.injEq, Cache.drop, settledRV, rpsIncr] at q ⊢
    obtain ⟨c1', c2, c3, c4, c5, c6, c7, c8⟩ := q
    refine ⟨?_, ?_, ?_, ?_, ?_, ?_, ?_, ?_⟩
    · simp only [hr, a1', a2, a8]
    · simp only [hs, a2, hpamt]
    · simp only [c3, b3, a3, a4]
    · simp only [c4, b4, a4]
    · simp only [c5, b5, a5]
    · simp only [c6, b6, a6]
    · simp only [c7, b7, a7]
    · simp only [c8, b8, a8]

theorem mergeFarmTokens_rv {s s' : St} {caller : Nat} {opt : Option Nat} {pays : List (Nat × Nat)} {o : Out}
    (h : mergeFarmTokens s caller opt pays = some (s', o)) : rv s' = rv s := by
  simp only [mergeFarmTokens, Option.bind_eq_bind, Option.bind_eq_some_iff, req_eq_some, Option.pure_def,
    Option.some.injEq, Prod.mk.injEq] at h
  obtain ⟨_, hact, orig, _, _, _, s0, h0, ⟨s1, boosted⟩, h1, s2, h2, merged, hm, ⟨s3, n⟩, h3, s4, h4, rfl, rfl⟩ := h
  exact (payReward_rv h4).trans ((createToken_rv h3).trans ((checkAndUpdate_rv h2).trans
    ((claimOnlyBoostedPayment_rv h1).trans (takePayments_rv h0))))

theorem claimBoostedRewards_rv {s s' : St} {caller : Nat} {optUser : Option Nat} {o : Out}
    (h : claimBoostedRewards s caller optUser = some (s', o)) : rv s' = settledRV s := by
  simp only [claimBoostedRewards, Option.bind_eq_bind, Option.bind_eq_some_iff, req_eq_some, Option.pure_def,
    Option.some.injEq, Prod.mk.injEq, sub?_eq_some] at h
  obtain ⟨_, _, _, _, _, hact, ⟨s1, c1⟩, h1, ⟨s2, boosted⟩, h2, res, ⟨hle, rfl⟩, s3, h3, s4, h4, rfl, rfl⟩ := h
  obtain ⟨e1, hr, hs⟩ := generate_rv h1
  have q : rv s4 = rv s1 := (payReward_rv h4).trans ((setFarmSupplyWeek_rv h3).trans (claimBoostedYields_rv h2))
  clear h1 h2 h3 h4
  simp only [rv, RV.mk.injEq, Cache.drop, Cache.read, settledRV, rpsIncr] at e1 hr hs q ⊢
  obtain ⟨b1, b2, b3, b4, b5, b6, b7, b8⟩ := e1
  obtain ⟨c1', c2, c3, c4, c5, c6, c7, c8⟩ := q
  exact ⟨hr, hs, by simp only [c3, b3], by simp only [c4, b4], by simp only [c5, b5],
    by simp only [c6, b6], by simp only [c7, b7], by simp only [c8, b8]⟩

/-! ### admin endpoints settle under the OLD configuration first (C06 `admin_settles_first`) -/

theorem setPerBlock_rv {s s' : St} {c x : Nat} (h : setPerBlock s c x = some s') :
    x ≠ 0 ∧ rv s' = { settledRV s with perBlock := x } := by
  simp only [setPerBlock, Option.bind_eq_bind, Option.bind_eq_some_iff, req_eq_some, Option.pure_def,
    Option.some.injEq] at h
  obtain ⟨_, _, _, hx, s1, h1, rfl⟩ := h
  have e := settle_rv h1
  refine ⟨hx, ?_⟩
  simp only [rv, settledRV, RV.mk.injEq] at e ⊢
  obtain ⟨a1, a2, a3, a4, a5, a6, a7, a8⟩ := e
  exact ⟨a1, a2, a3, a4, a5, trivial, a7, a8⟩

theorem endProduce_rv {s s' : St} {c : Nat} (h : endProduce s c = some s') :
    rv s' = { settledRV s with produce := false } := by
  simp only [endProduce, Option.bind_eq_bind, Option.bind_eq_some_iff, req_eq_some, Option.pure_def,
    Option.some.injEq] at h
  obtain ⟨_, _, s1, h1, rfl⟩ := h
  have e := settle_rv h1
  simp only [rv, settledRV, RV.mk.injEq] at e ⊢
  obtain ⟨a1, a2, a3, a4, a5, a6, a7, a8⟩ := e
  exact ⟨a1, a2, a3, a4, trivial, a6, a7, a8⟩

theorem setPct_rv {s s' : St} {c p : Nat} (h : setPct s c p = some s') :
    p ≤ MAXPCT ∧ rv s' = { settledRV s with pct := p } := by
  simp only [setPct, Option.bind_eq_bind, Option.bind_eq_some_iff, req_eq_some, Option.pure_def,
    Option.some.injEq] at h
  obtain ⟨_, _, _, hp, s1, h1, rfl⟩ := h
  have e := settle_rv h1
  refine ⟨hp, ?_⟩
  simp only [rv, settledRV, RV.mk.injEq] at e ⊢
  obtain ⟨a1, a2, a3, a4, a5, a6, a7, a8⟩ := e
  exact ⟨a1, a2, a3, a4, a5, a6, trivial, a8⟩

theorem startProduce_rv {s s' : St} {c : Nat} (h : startProduce s c = some s') :
    s.perBlock ≠ 0 ∧ s.produce = false ∧
    rv s' = { rv s with produce := true, lastBlock := s.block } := by
  simp only [startProduce, Option.bind_eq_bind, Option.bind_eq_some_iff, req_eq_some, Option.pure_def,
    Option.some.injEq] at h
  obtain ⟨_, _, _, hp, _, hn, rfl⟩ := h
  refine ⟨hp, by simpa using hn, rfl⟩

/-! ### every operation: the index stays, or moves by exactly one settlement -/

/-- what an operation can do to the index and the last reward block -/
inductive RpsMove (s s' : St) : Prop
  | same (h1 : s'.rps = s.rps) (h2 : s'.lastBlock = s.lastBlock)
  | settled (h1 : s'.rps = s.rps + rpsIncr s)
      (h2 : s'.lastBlock = if s.lastBlock < s.block then s.block else s.lastBlock)
  | started (h1 : s'.rps = s.rps) (h2 : s'.lastBlock = s.block)

theorem RpsMove.of_rv {s s' : St} (h : rv s' = rv s) : RpsMove s s' :=
  .same (congrArg RV.rps h) (congrArg RV.lastBlock h)

theorem step_rpsMove {s s' : St} {op : Op} {o : Out} (h : step s op = some (s', o)) : RpsMove s s' := by
  cases op <;> simp only [step, known] at h
  case enter c oo a e =>
    split at h <;> [skip; exact absurd h (by simp)]
    simp only [enterFarm, Option.bind_eq_bind, Option.bind_eq_some_iff] at h
    obtain ⟨_, _, h⟩ := h
    have e := enterCore_rv h
    exact .settled (congrArg RV.rps e) (congrArg RV.lastBlock e)
  case enterOB c u a e =>
    split at h <;> [skip; exact absurd h (by simp)]
    simp only [enterFarmOnBehalf, Option.bind_eq_bind, Option.bind_eq_some_iff] at h
    obtain ⟨_, _, _, _, h⟩ := h
    have e := enterCore_rv h
    exact .settled (congrArg RV.rps e) (congrArg RV.lastBlock e)
  case claim c oo p =>
    split at h <;> [skip; exact absurd h (by simp)]
    simp only [claimRewards, Option.bind_eq_bind, Option.bind_eq_some_iff] at h
    obtain ⟨_, _, h⟩ := h
    obtain ⟨_, _, _, _, _, _, _, e⟩ := claimCore_rv h
    exact .settled (congrArg RV.rps e) (congrArg RV.lastBlock e)
  case claimOB c p =>
    split at h <;> [skip; exact absurd h (by simp)]
    simp only [claimRewardsOnBehalf, Option.bind_eq_bind, Option.bind_eq_some_iff] at h
    obtain ⟨_, _, _, _, _, _, h⟩ := h
    obtain ⟨_, _, _, _, _, _, _, e⟩ := claimCore_rv h
    exact .settled (congrArg RV.rps e) (congrArg RV.lastBlock e)
  case compound c oo p =>
    split at h <;> [skip; exact absurd h (by simp)]
    simp only [compoundRewards, Option.bind_eq_bind, Option.bind_eq_some_iff, req_eq_some] at h
    obtain ⟨_, hk, _, _, h⟩ := h
    obtain ⟨_, _, _, _, _, _, _, e⟩ := claimCore_rv h
    exact .settled (congrArg RV.rps e) (congrArg RV.lastBlock e)
  case exit c oo n a =>
    split at h <;> [skip; exact absurd h (by simp)]
    obtain ⟨_, _, _, _, _, e⟩ := exitFarm_rv h
    exact .settled (congrArg RV.rps e) (congrArg RV.lastBlock e)
  case merge c oo p =>
    split at h <;> [skip; exact absurd h (by simp)]
    exact .of_rv (mergeFarmTokens_rv h)
  case claimBoosted c u =>
    split at h <;> [skip; exact absurd h (by simp)]
    have e := claimBoostedRewards_rv h
    exact .settled (congrArg RV.rps e) (congrArg RV.lastBlock e)
  case transfer a b n x =>
    split at h <;> [skip; exact absurd h (by simp)]
    split at h <;> [skip; exact absurd h (by simp)]
    simp only [noOut, Option.map_eq_some_iff, Prod.mk.injEq] at h
    obtain ⟨s1, h1, rfl, _⟩ := h
    simp only [transfer, Option.bind_eq_bind, Option.bind_eq_some_iff, req_eq_some, sub?_eq_some,
      Option.pure_def, Option.some.injEq] at h1
    obtain ⟨_, _, _, _, _, _, _, _, rfl⟩ := h1
    exact .of_rv rfl
  case setEnergy u a l t =>
    simp only [Option.some.injEq, Prod.mk.injEq] at h
    obtain ⟨rfl, _⟩ := h
    exact .of_rv rfl
  case updateEnergy u =>
    simp only [noOut, Option.map_eq_some_iff, Prod.mk.injEq] at h
    obtain ⟨s1, h1, rfl, _⟩ := h
    simp only [updateEnergyForUser, Option.bind_eq_bind, Option.bind_eq_some_iff, Option.pure_def,
      Option.some.injEq] at h1
    obtain ⟨_, _, _, _, rfl⟩ := h1
    exact .of_rv rfl
  case setPerBlock c x =>
    simp only [noOut, Option.map_eq_some_iff, Prod.mk.injEq] at h
    obtain ⟨s1, h1, rfl, _⟩ := h
    obtain ⟨_, e⟩ := setPerBlock_rv h1
    exact .settled (congrArg RV.rps e) (congrArg RV.lastBlock e)
  case startProduce c =>
    simp only [noOut, Option.map_eq_some_iff, Prod.mk.injEq] at h
    obtain ⟨s1, h1, rfl, _⟩ := h
    obtain ⟨_, _, e⟩ := startProduce_rv h1
    exact .started (congrArg RV.rps e) (congrArg RV.lastBlock e)
  case endProduce c =>
    simp only [noOut, Option.map_eq_some_iff, Prod.mk.injEq] at h
    obtain ⟨s1, h1, rfl, _⟩ := h
    have e := endProduce_rv h1
    exact .settled (congrArg RV.rps e) (congrArg RV.lastBlock e)
  case setPct c p =>
    simp only [noOut, Option.map_eq_some_iff, Prod.mk.injEq] at h
    obtain ⟨s1, h1, rfl, _⟩ := h
    obtain ⟨_, e⟩ := setPct_rv h1
    exact .settled (congrArg RV.rps e) (congrArg RV.lastBlock e)
  case setFactors c f =>
    simp only [noOut, Option.map_eq_some_iff, Prod.mk.injEq] at h
    obtain ⟨s1, h1, rfl, _⟩ := h
    simp only [setFactors, Option.bind_eq_bind, Option.bind_eq_some_iff, Option.pure_def] at h1
    obtain ⟨_, _, _, _, _, _, W, _, h1⟩ := h1
    split at h1
    · simp only [Option.bind_eq_some_iff, Option.some.injEq] at h1
      obtain ⟨_, _, rfl⟩ := h1
      exact .of_rv rfl
    · simp only [Option.some.injEq] at h1
      subst h1
      exact .of_rv rfl
  case collect c =>
    simp only [noOut, Option.map_eq_some_iff, Prod.mk.injEq] at h
    obtain ⟨s1, h1, rfl, _⟩ := h
    simp only [collectUndistributed, Option.bind_eq_bind, Option.bind_eq_some_iff, Option.pure_def,
      req_eq_some] at h1
    obtain ⟨_, _, W, _, _, _, h1⟩ := h1
    split at h1 <;> simp only [Option.some.injEq] at h1 <;> subst h1 <;> exact .of_rv rfl
  case pause c =>
    simp only [noOut, Option.map_eq_some_iff, Prod.mk.injEq] at h
    obtain ⟨s1, h1, rfl, _⟩ := h
    simp only [setActive, Option.bind_eq_bind, Option.bind_eq_some_iff, Option.pure_def,
      Option.some.injEq] at h1
    obtain ⟨_, _, rfl⟩ := h1
    exact .of_rv rfl
  case resume c =>
    simp only [noOut, Option.map_eq_some_iff, Prod.mk.injEq] at h
    obtain ⟨s1, h1, rfl, _⟩ := h
    simp only [setActive, Option.bind_eq_bind, Option.bind_eq_some_iff, Option.pure_def,
      Option.some.injEq] at h1
    obtain ⟨_, _, rfl⟩ := h1
    exact .of_rv rfl
  case setPenalty c p =>
    simp only [noOut, Option.map_eq_some_iff, Prod.mk.injEq] at h
    obtain ⟨s1, h1, rfl, _⟩ := h
    simp only [setPenalty, Option.bind_eq_bind, Option.bind_eq_some_iff, Option.pure_def,
      Option.some.injEq] at h1
    obtain ⟨_, _, _, _, rfl⟩ := h1
    exact .of_rv rfl
  case setMinEpochs c n =>
    simp only [noOut, Option.map_eq_some_iff, Prod.mk.injEq] at h
    obtain ⟨s1, h1, rfl, _⟩ := h
    simp only [setMinEpochs, Option.bind_eq_bind, Option.bind_eq_some_iff, Option.pure_def,
      Option.some.injEq] at h1
    obtain ⟨_, _, _, _, rfl⟩ := h1
    exact .of_rv rfl
  case hubWhitelist u a =>
    split at h
    · cases h
    · simp only [Option.some.injEq, Prod.mk.injEq] at h; obtain ⟨rfl, _⟩ := h; exact .of_rv rfl
  case hubRemove u a =>
    split at h
    · simp only [Option.some.injEq, Prod.mk.injEq] at h; obtain ⟨rfl, _⟩ := h; exact .of_rv rfl
    · cases h
  case hubBlacklist a =>
    simp only [Option.some.injEq, Prod.mk.injEq] at h; obtain ⟨rfl, _⟩ := h; exact .of_rv rfl
  case scWhitelist a =>
    split at h
    · cases h
    · simp only [Option.some.injEq, Prod.mk.injEq] at h; obtain ⟨rfl, _⟩ := h; exact .of_rv rfl
  case scUnwhitelist a =>
    split at h
    · simp only [Option.some.injEq, Prod.mk.injEq] at h; obtain ⟨rfl, _⟩ := h; exact .of_rv rfl
    · cases h
  case advance b e =>
    split at h
    · simp only [Option.some.injEq, Prod.mk.injEq] at h; obtain ⟨rfl, _⟩ := h; exact .same rfl rfl
    · cases h
  case bad => cases h

theorem step_rps_mono {s s' : St} {op : Op} {o : Out} (h : step s op = some (s', o)) : s.rps ≤ s'.rps := by
  rcases step_rpsMove h with ⟨h1, _⟩ | ⟨h1, _⟩ | ⟨h1, _⟩ <;> omega

theorem run_rps_mono (ops : List Op) (s : St) : s.rps ≤ (run s ops).rps := by
  induction ops generalizing s with
  | nil => exact Nat.le_refl _
  | cons op rest ih =>
    simp only [run, List.foldl_cons]
    cases hs : step s op with
    | none => exact ih s
    | some r =>
      exact Nat.le_trans (step_rps_mono (show step s op = some (r.1, r.2) from hs)) (ih r.1)

/-! ### the position created by a plain `enterFarm` carries the settled index (C06 `no_retro_entry`) -/

theorem attrs_payRewardIf {s s' : St} {k : Kind} {u b bo : Nat} (h : payRewardIf s k u b bo = some s') :
    s'.attrs = s.attrs := by
  unfold payRewardIf at h
  split at h
  · obtain ⟨_, _, rfl, _⟩ := payReward_spec h; rfl
  · simp only [Option.some.injEq] at h; rw [← h]

theorem enterCore_token {s s' : St} {caller orig dst amt : Nat} {o : Out}
    (h : enterCore s caller orig dst amt [] = some (s', o)) :
    ∃ a, s'.attrs o.nonce = some a ∧ a.rps = s'.rps ∧ a.amt = amt ∧ a.comp = 0 ∧ a.owner = orig ∧
      o.amt = amt := by
  have hrv := enterCore_rv h
  simp only [enterCore, Option.bind_eq_bind, Option.bind_eq_some_iff, req_eq_some, Option.pure_def,
    Option.some.injEq, Prod.mk.injEq] at h
  obtain ⟨_, _, s0, h0, ⟨s1, boosted⟩, h1, s1', h1', _, hact, s2, h2, ⟨s4, c1⟩, h4, merged, hm,
    ⟨s5, n⟩, h5, s6, h6, s8, h8, s9, h9, rfl, rfl⟩ := h
  simp only [mergeParts, Option.some.injEq] at hm
  obtain ⟨_, hn, e5⟩ := createToken_spec h5
  have a5 : s5.attrs n = some merged := by rw [e5, hn]; simp
  have a6 : s6.attrs = s5.attrs := by obtain ⟨_, _, rfl⟩ := setFarmSupplyWeek_spec h6; rfl
  have a8 : s8.attrs = s6.attrs := (attrs_payRewardIf h8).trans rfl
  have a9 : s9.attrs = s8.attrs := by obtain ⟨_, rfl⟩ := updateEnergyAndProgress_spec h9; rfl
  have r9 : s9.rps = c1.rps := by
    have q := (updateEnergyAndProgress_rv h9).trans (payRewardIf_rv h8)
    exact congrArg RV.rps q
  refine ⟨merged, ?_, ?_, ?_, ?_, ?_, ?_⟩
  · show s9.attrs n = some merged
    rw [a9, a8, a6]; exact a5
  · rw [r9, ← hm]
  · rw [← hm]
  · rw [← hm]
  · rw [← hm]
  · show merged.amt = amt
    rw [← hm]

end Mx.Farm
