/-
  Spec lemmas of the router endpoints (`op s args = some (s', o) → guards ∧ o = … ∧ s' = …`)
  and the frame each operation leaves untouched.
-/
import MxModel.Lemmas.RouterMulti

namespace Mx.Router

/-! ### token ids reported by the pair contracts are never rewritten -/

theorem tokOf_upd_keep {w : Pairs} {a : Addr} {p : PairRec} (p' : PairRec) (hw : w a = some p)
    (h1 : p'.t1 = p.t1) (h2 : p'.t2 = p.t2) (x : Addr) :
    tokOf (upd w a (some p')) x = tokOf w x := by
  unfold tokOf
  by_cases hx : x = a
  · subst hx; simp [hw, h1, h2]
  · simp [upd_other _ _ hx]

theorem tokOf_setPairSt {w : Pairs} {a : Addr} {p : PairRec} (hw : w a = some p)
    (st : Mx.Pair.St) (x : Addr) : tokOf (setPairSt w a p st) x = tokOf w x :=
  tokOf_upd_keep { p with st := st } hw rfl rfl x

theorem setPairSt_other (w : Pairs) {a x : Addr} (p : PairRec) (st : Mx.Pair.St) (h : x ≠ a) :
    setPairSt w a p st x = w x := by
  simp [setPairSt, upd_other _ _ h]

/-! ### what a hop is in the composed world -/

/-- a successful hop: the address passed `check_is_pair_sc`, and the effect is exactly the
    pair's own fixed-input / fixed-output swap on that pair's state; no other pair moves -/
theorem pairResp_spec {m : Reg} {w w' : Pairs} {h : Hop} {tok : Tok} {amt out resid : Nat}
    (hr : pairResp m w h tok amt = some (w', out, resid)) :
    checkIsPairSc m w h.pair = some () ∧
    ∃ p d, w h.pair = some p ∧ dirOf p tok h.tokOut = some d ∧
      ((h.kind = .fixedIn ∧ ∃ st' o, Mx.Pair.swapIn p.st d amt h.amt = some (st', o) ∧
          out = o.v1 ∧ resid = 0 ∧ w' = setPairSt w h.pair p st') ∨
       (h.kind = .fixedOut ∧ ∃ st' o, Mx.Pair.swapOut p.st d amt h.amt = some (st', o) ∧
          out = o.v1 ∧ resid = o.v3 ∧ w' = setPairSt w h.pair p st')) := by
  simp only [pairResp, Option.bind_eq_bind, Option.bind_eq_some_iff] at hr
  obtain ⟨u, hc, p, hp, d, hd, hk⟩ := hr
  cases u
  refine ⟨hc, p, d, hp, hd, ?_⟩
  cases hkind : h.kind with
  | fixedIn =>
    simp only [hkind, Option.bind_eq_some_iff, Option.pure_def,
      Option.some.injEq, Prod.mk.injEq] at hk
    obtain ⟨r, hr, rfl, rfl, rfl⟩ := hk
    exact Or.inl ⟨rfl, r.1, r.2, hr, rfl, rfl, rfl⟩
  | fixedOut =>
    simp only [hkind, Option.bind_eq_some_iff, Option.pure_def,
      Option.some.injEq, Prod.mk.injEq] at hk
    obtain ⟨r, hr, rfl, rfl, rfl⟩ := hk
    exact Or.inr ⟨rfl, r.1, r.2, hr, rfl, rfl, rfl⟩
  | bad => simp [hkind] at hk

theorem pairResp_tok {m : Reg} {w w' : Pairs} {h : Hop} {tok : Tok} {amt out resid : Nat}
    (hr : pairResp m w h tok amt = some (w', out, resid)) (x : Addr) :
    tokOf w' x = tokOf w x := by
  obtain ⟨_, p, d, hp, _, hk⟩ := pairResp_spec hr
  rcases hk with ⟨_, st', o, _, _, _, rfl⟩ | ⟨_, st', o, _, _, _, rfl⟩
  · exact tokOf_setPairSt hp st' x
  · exact tokOf_setPairSt hp st' x

theorem hopTrace_tok {m : Reg} (hops : List Hop) {w w' : Pairs} {tok : Tok} {amt : Nat}
    {rs : List (Nat × Nat)} (h : hopTrace (pairResp m) hops w tok amt = some (w', rs)) (x : Addr) :
    tokOf w' x = tokOf w x := by
  induction hops generalizing w tok amt rs with
  | nil =>
    simp only [hopTrace, Option.some.injEq, Prod.mk.injEq] at h
    rw [← h.1]
  | cons g hs ih =>
    simp only [hopTrace, Option.bind_eq_bind, Option.bind_eq_some_iff, Option.pure_def,
      Option.some.injEq, Prod.mk.injEq] at h
    obtain ⟨r, hr, t, ht, rfl, rfl⟩ := h
    obtain ⟨w1, out, resid⟩ := r
    rw [ih (by simpa using ht)]
    exact pairResp_tok hr x

/-- every hop of a successful chain went through an address `check_is_pair_sc` accepts (in the
    world as it was before the call: the check only reads token ids, which never change) -/
theorem hopTrace_registered {m : Reg} (hops : List Hop) {w w' : Pairs} {tok : Tok} {amt : Nat}
    {rs : List (Nat × Nat)} (h : hopTrace (pairResp m) hops w tok amt = some (w', rs)) :
    ∀ g ∈ hops, checkIsPairSc m w g.pair = some () := by
  induction hops generalizing w tok amt rs with
  | nil => intro g hg; cases hg
  | cons g0 hs ih =>
    simp only [hopTrace, Option.bind_eq_bind, Option.bind_eq_some_iff, Option.pure_def,
      Option.some.injEq, Prod.mk.injEq] at h
    obtain ⟨r, hr, t, ht, rfl, rfl⟩ := h
    obtain ⟨w1, out, resid⟩ := r
    intro g hg
    rcases List.mem_cons.mp hg with hg | hg
    · subst hg; exact (pairResp_spec hr).1
    · have := ih (by simpa using ht) g hg
      rw [← this]
      exact (checkIsPairSc_congr (pairResp_tok hr g.pair)).symm

/-- a pair that is not a hop of the chain is not touched -/
theorem hopTrace_untouched {m : Reg} (hops : List Hop) {w w' : Pairs} {tok : Tok} {amt : Nat}
    {rs : List (Nat × Nat)} (h : hopTrace (pairResp m) hops w tok amt = some (w', rs))
    {x : Addr} (hx : ∀ g ∈ hops, g.pair ≠ x) : w' x = w x := by
  induction hops generalizing w tok amt rs with
  | nil =>
    simp only [hopTrace, Option.some.injEq, Prod.mk.injEq] at h
    rw [← h.1]
  | cons g0 hs ih =>
    simp only [hopTrace, Option.bind_eq_bind, Option.bind_eq_some_iff, Option.pure_def,
      Option.some.injEq, Prod.mk.injEq] at h
    obtain ⟨r, hr, t, ht, rfl, rfl⟩ := h
    obtain ⟨w1, out, resid⟩ := r
    rw [ih (by simpa using ht) (fun g hg => hx g (List.mem_cons_of_mem _ hg))]
    obtain ⟨_, p, d, hp, _, hk⟩ := pairResp_spec hr
    have hne : x ≠ g0.pair := fun e => hx g0 List.mem_cons_self e.symm
    rcases hk with ⟨_, st', o, _, _, _, rfl⟩ | ⟨_, st', o, _, _, _, rfl⟩
    · exact setPairSt_other w p st' hne
    · exact setPairSt_other w p st' hne

/-! ### endpoint specs -/

theorem feePercents_owner {fees : Option (Nat × Nat)} {f : Nat × Nat}
    (h : feePercents true fees = some f) : fees = some f ∧ f.2 ≤ f.1 ∧ f.1 < MAX_TOTAL := by
  unfold feePercents at h
  simp only [if_true] at h
  cases fees with
  | none => cases h
  | some g =>
    simp only at h
    split at h
    · rename_i hg
      simp only [Option.some.injEq] at h
      subst h
      exact ⟨rfl, hg.1, hg.2⟩
    · cases h

theorem feePercents_other {fees : Option (Nat × Nat)} {f : Nat × Nat}
    (h : feePercents false fees = some f) : f = (DEFAULT_TOTAL, DEFAULT_SPECIAL) := by
  unfold feePercents at h
  simpa using h.symm

theorem createPair_spec {s s' : St} {c : Addr} {t1 t2 : Tok} {adder : Addr}
    {fees : Option (Nat × Nat)} {o : Out} (h : createPair s c t1 t2 adder fees = some (s', o)) :
    ∃ fp : Nat × Nat,
      s.active = true ∧ (c = s.owner ∨ s.creationEnabled = true) ∧ t1 ≠ t2 ∧ validTok t1 ∧
      validTok t2 ∧ getPair s.pairMap t1 t2 = 0 ∧
      feePercents (decide (c = s.owner)) fees = some fp ∧ s.templateSet = true ∧
      fp.2 ≤ fp.1 ∧ fp.1 ≤ Mx.Pair.MAXFEE ∧
      o = { addr := s.nextAddr } ∧
      s' = { s with pairMap := s.pairMap ++ [((t1, t2), s.nextAddr)],
                    pairs := upd s.pairs s.nextAddr (some (newPair t1 t2 fp.1 fp.2 adder)),
                    addrs := s.addrs ++ [s.nextAddr],
                    nextAddr := s.nextAddr + 1,
                    tmpOwners := tmpInsert s.tmpOwners s.nextAddr (c, s.block),
                    noLp := if s.bareNext then s.noLp ++ [s.nextAddr] else s.noLp } := by
  simp only [createPair, Option.bind_eq_bind, Option.bind_eq_some_iff, req_eq_some,
    Option.pure_def, Option.some.injEq, Prod.mk.injEq] at h
  obtain ⟨_, h1, _, h2, _, h3, _, h4, _, h5, _, h6, fp, h7, _, h8, _, h9, rfl, rfl⟩ := h
  exact ⟨fp, h1, h2, h3, h4, h5, h6, h7, h8, h9.1, h9.2, rfl, rfl⟩

/-- the registry after `removePair(t1, t2)` -/
def removed (m : Reg) (t1 t2 : Tok) : Reg :=
  if (lookup m (t1, t2)).getD 0 ≠ 0 then erase m (t1, t2) else erase (erase m (t1, t2)) (t2, t1)

theorem removed_sublist (m : Reg) (t1 t2 : Tok) : (removed m t1 t2).Sublist m := by
  unfold removed
  split
  · exact erase_sublist _ _
  · exact (erase_sublist _ _).trans (erase_sublist _ _)

theorem removePair_spec {s s' : St} {c : Addr} {t1 t2 : Tok} {o : Out}
    (h : removePair s c t1 t2 = some (s', o)) :
    c = s.owner ∧ s.active = true ∧ t1 ≠ t2 ∧ validTok t1 ∧ validTok t2 ∧
    getPair s.pairMap t1 t2 ≠ 0 ∧ o = { addr := getPair s.pairMap t1 t2 } ∧
    s' = { s with pairMap := removed s.pairMap t1 t2 } := by
  simp only [removePair, Option.bind_eq_bind, Option.bind_eq_some_iff, req_eq_some] at h
  obtain ⟨_, h1, _, h2, _, h3, _, h4, _, h5, _, h6, h7⟩ := h
  refine ⟨h1, h2, h3, h4, h5, h6, ?_⟩
  have hne : (t2, t1) ≠ (t1, t2) := by
    intro e; simp only [Prod.mk.injEq] at e; exact h3 e.2
  by_cases ha : (lookup s.pairMap (t1, t2)).getD 0 ≠ 0
  · simp only [ha, if_true, Option.pure_def, Option.some.injEq, Prod.mk.injEq, ne_eq,
      not_false_eq_true] at h7
    obtain ⟨rfl, rfl⟩ := h7
    constructor
    · have : getPair s.pairMap t1 t2 = (lookup s.pairMap (t1, t2)).getD 0 := by
        unfold getPair; simp only; rw [if_neg ha]
      rw [this]
    · simp [removed, ha]
  · have ha' : (lookup s.pairMap (t1, t2)).getD 0 = 0 := by
      simpa using ha
    simp only [ha', ne_eq, not_true_eq_false, if_false, Option.pure_def, Option.some.injEq,
      Prod.mk.injEq] at h7
    obtain ⟨rfl, rfl⟩ := h7
    constructor
    · have : getPair s.pairMap t1 t2 = (lookup s.pairMap (t2, t1)).getD 0 := by
        unfold getPair; simp only; rw [if_pos ha']
      rw [this, lookup_erase_other _ hne]
    · simp [removed, ha']

/-- the pair state after the router's `pause` / `resume` reached it -/
def withStatus (st : Mx.Pair.St) (on : Bool) : Mx.Pair.St :=
  { st with status := if on then .active else .inactive }

theorem setState_spec {s s' : St} {c a : Addr} {on : Bool} {o : Out}
    (h : setState s c a on = some (s', o)) :
    c = s.owner ∧
    ((a = s.self ∧ s' = { s with active := on }) ∨
     (a ≠ s.self ∧ checkIsPairSc s.pairMap s.pairs a = some () ∧ ∃ p, s.pairs a = some p ∧
        s' = { s with pairs := setPairSt s.pairs a p (withStatus p.st on) })) := by
  simp only [setState, Option.bind_eq_bind, Option.bind_eq_some_iff, req_eq_some] at h
  obtain ⟨_, h1, h2⟩ := h
  refine ⟨h1, ?_⟩
  by_cases ha : a = s.self
  · simp only [ha, if_true, Option.pure_def, Option.some.injEq, Prod.mk.injEq] at h2
    exact Or.inl ⟨ha, h2.1.symm⟩
  · simp only [ha, if_false, Option.bind_eq_some_iff, Mx.Pair.cfg,
      Option.pure_def, Option.some.injEq, Prod.mk.injEq] at h2
    obtain ⟨u, hc, p, hp, st, rfl, rfl, _⟩ := h2
    cases u
    exact Or.inr ⟨ha, hc, p, hp, rfl⟩

/-- a pair after `setFeeOn` added a destination asking for `tok` -/
def withDest (p : PairRec) (tok : Tok) : PairRec :=
  { p with st := { p.st with dests := p.st.dests ++ [wantOf p tok] },
           destToks := p.destToks ++ [tok] }

/-- a pair after `setFeeOff` removed its `i`-th destination -/
def withoutDest (p : PairRec) (i : Nat) : PairRec :=
  { p with st := { p.st with dests := p.st.dests.eraseIdx i },
           destToks := p.destToks.eraseIdx i }

theorem setFeeOn_spec {s s' : St} {c a : Addr} {tok : Tok} {o : Out}
    (h : setFeeOn s c a tok = some (s', o)) :
    c = s.owner ∧ s.active = true ∧ checkIsPairSc s.pairMap s.pairs a = some () ∧
    ∃ p, s.pairs a = some p ∧
      s' = { s with pairs := upd s.pairs a (some (withDest p tok)) } := by
  simp only [setFeeOn, Option.bind_eq_bind, Option.bind_eq_some_iff, req_eq_some, Mx.Pair.cfg,
    Option.pure_def, Option.some.injEq, Prod.mk.injEq] at h
  obtain ⟨_, h1, _, h2, u, hc, p, hp, st, rfl, rfl, _⟩ := h
  cases u
  exact ⟨h1, h2, hc, p, hp, rfl⟩

theorem setFeeOff_spec {s s' : St} {c a : Addr} {i : Nat} {tok : Tok} {o : Out}
    (h : setFeeOff s c a i tok = some (s', o)) :
    c = s.owner ∧ s.active = true ∧ checkIsPairSc s.pairMap s.pairs a = some () ∧
    ∃ p, s.pairs a = some p ∧ p.destToks[i]? = some tok ∧ i < p.st.dests.length ∧
      s' = { s with pairs := upd s.pairs a (some (withoutDest p i)) } := by
  simp only [setFeeOff, Option.bind_eq_bind, Option.bind_eq_some_iff, req_eq_some, Mx.Pair.cfg,
    Option.pure_def, Option.some.injEq, Prod.mk.injEq] at h
  obtain ⟨_, h1, _, h2, u, hc, p, hp, _, _, _, h4, st, ⟨_, h5, rfl⟩, rfl, _⟩ := h
  cases u
  exact ⟨h1, h2, hc, p, hp, h4, h5, rfl⟩

theorem multiPairSwap_spec {s s' : St} {c : Addr} {tokIn : Tok} {amount : Nat} {hops : List Hop}
    {o : Out} (h : multiPairSwap s c tokIn amount hops = some (s', o)) :
    ∃ r : MultiRes Pairs,
      s.active = true ∧
      multiG (pairResp s.pairMap) s.pairs s.rbal (s.ubal c) tokIn amount hops = some r ∧
      o = { pays := r.pays } ∧
      s' = { s with pairs := r.w, rbal := r.rb, ubal := upd s.ubal c r.cb } := by
  simp only [multiPairSwap, Option.bind_eq_bind, Option.bind_eq_some_iff, req_eq_some,
    Option.pure_def, Option.some.injEq, Prod.mk.injEq] at h
  obtain ⟨_, h1, r, hr, rfl, rfl⟩ := h
  exact ⟨r, h1, hr, rfl, rfl⟩

/-! ### the frame -/

/-- what every operation other than `createPair` / `removePair` leaves alone -/
structure Frame (s s' : St) : Prop where
  owner : s'.owner = s.owner
  self : s'.self = s.self
  pairMap : s'.pairMap = s.pairMap
  nextAddr : s'.nextAddr = s.nextAddr
  addrs : s'.addrs = s.addrs
  tok : ∀ a, tokOf s'.pairs a = tokOf s.pairs a
  rbal : ∀ t, s'.rbal t = s.rbal t

theorem frame_of_pairs {s : St} {w : Pairs} (ub : Addr → Nat → Nat)
    (h : ∀ a, tokOf w a = tokOf s.pairs a) : Frame s { s with pairs := w, ubal := ub } :=
  ⟨rfl, rfl, rfl, rfl, rfl, h, fun _ => rfl⟩

theorem setState_frame {s s' : St} {c a : Addr} {on : Bool} {o : Out}
    (h : setState s c a on = some (s', o)) : Frame s s' := by
  obtain ⟨_, h2⟩ := setState_spec h
  rcases h2 with ⟨_, rfl⟩ | ⟨_, _, p, hp, rfl⟩
  · exact ⟨rfl, rfl, rfl, rfl, rfl, fun _ => rfl, fun _ => rfl⟩
  · exact ⟨rfl, rfl, rfl, rfl, rfl, fun x => tokOf_setPairSt hp _ x, fun _ => rfl⟩

theorem setFeeOn_frame {s s' : St} {c a : Addr} {tok : Tok} {o : Out}
    (h : setFeeOn s c a tok = some (s', o)) : Frame s s' := by
  obtain ⟨_, _, _, p, hp, rfl⟩ := setFeeOn_spec h
  exact ⟨rfl, rfl, rfl, rfl, rfl, fun x => tokOf_upd_keep (withDest p tok) hp rfl rfl x, fun _ => rfl⟩

theorem setFeeOff_frame {s s' : St} {c a : Addr} {i : Nat} {tok : Tok} {o : Out}
    (h : setFeeOff s c a i tok = some (s', o)) : Frame s s' := by
  obtain ⟨_, _, _, p, hp, _, _, rfl⟩ := setFeeOff_spec h
  exact ⟨rfl, rfl, rfl, rfl, rfl, fun x => tokOf_upd_keep (withoutDest p i) hp rfl rfl x, fun _ => rfl⟩

theorem multiPairSwap_frame {s s' : St} {c : Addr} {tokIn : Tok} {amount : Nat}
    {hops : List Hop} {o : Out} (h : multiPairSwap s c tokIn amount hops = some (s', o)) :
    Frame s s' := by
  obtain ⟨r, _, hr, _, rfl⟩ := multiPairSwap_spec h
  obtain ⟨rs, _, _, _, htr, _, hrb, _⟩ := multiG_spec hr
  exact ⟨rfl, rfl, rfl, rfl, rfl, fun x => hopTrace_tok hops htr x, hrb⟩

theorem addInitial_frame {s s' : St} {u a : Addr} {a1 a2 : Nat} {o : Out}
    (h : addInitial s u a a1 a2 = some (s', o)) : Frame s s' := by
  simp only [addInitial, Option.bind_eq_bind, Option.bind_eq_some_iff, Option.pure_def,
    Option.some.injEq, Prod.mk.injEq] at h
  obtain ⟨p, hp, _, _, _, _, r, _, rfl, _⟩ := h
  exact frame_of_pairs _ (fun x => tokOf_setPairSt hp _ x)

theorem addLiq_frame {s s' : St} {u a : Addr} {a1 a2 m1 m2 : Nat} {o : Out}
    (h : addLiq s u a a1 a2 m1 m2 = some (s', o)) : Frame s s' := by
  simp only [addLiq, Option.bind_eq_bind, Option.bind_eq_some_iff, Option.pure_def,
    Option.some.injEq, Prod.mk.injEq] at h
  obtain ⟨p, hp, _, _, r, _, _, _, _, _, rfl, _⟩ := h
  exact frame_of_pairs _ (fun x => tokOf_setPairSt hp _ x)

theorem removeLiq_frame {s s' : St} {u a : Addr} {lp m1 m2 : Nat} {o : Out}
    (h : removeLiq s u a lp m1 m2 = some (s', o)) : Frame s s' := by
  simp only [removeLiq, Option.bind_eq_bind, Option.bind_eq_some_iff, Option.pure_def,
    Option.some.injEq, Prod.mk.injEq] at h
  obtain ⟨p, hp, _, _, r, _, rfl, _⟩ := h
  exact frame_of_pairs _ (fun x => tokOf_setPairSt hp _ x)

theorem swapIn_frame {s s' : St} {u a : Addr} {ti : Tok} {x : Nat} {to : Tok} {m : Nat} {o : Out}
    (h : swapIn s u a ti x to m = some (s', o)) : Frame s s' := by
  simp only [swapIn, Option.bind_eq_bind, Option.bind_eq_some_iff, Option.pure_def,
    Option.some.injEq, Prod.mk.injEq] at h
  obtain ⟨p, hp, _, _, _, _, r, _, rfl, _⟩ := h
  exact frame_of_pairs _ (fun x => tokOf_setPairSt hp _ x)

theorem swapOut_frame {s s' : St} {u a : Addr} {ti : Tok} {mx : Nat} {to : Tok} {out : Nat}
    {o : Out} (h : swapOut s u a ti mx to out = some (s', o)) : Frame s s' := by
  simp only [swapOut, Option.bind_eq_bind, Option.bind_eq_some_iff, Option.pure_def,
    Option.some.injEq, Prod.mk.injEq] at h
  obtain ⟨p, hp, _, _, _, _, r, _, rfl, _⟩ := h
  exact frame_of_pairs _ (fun x => tokOf_setPairSt hp _ x)

end Mx.Router
