/-
  Success ("ok") lemmas of the pair endpoints — the converse of the spec lemmas of
  Lemmas/PairSpec.lean: an explicit list of guards under which `swapIn` / `swapOut` /
  `removeLiq` go through, with the exact result.  Used by Props/C20Pair2 (quote ⇒ execution
  for every fee configuration).

  Also: `FeeOK` (`special ≤ total ≤ MAXFEE`, what `setFeePercents` enforces) as an invariant
  of every history, and the arithmetic facts that discharge the K check and the `fee ≤ input`
  subtraction of a swap from it.
-/
import MxModel.Lemmas.PairK

namespace Mx.Pair

theorem req_ok {c : Prop} [Decidable c] (h : c) : req c = some () := (req_eq_some ()).2 h

theorem sub?_ok {a b : Nat} (h : b ≤ a) : sub? a b = some (a - b) := by
  simp [sub?, h]

/-! ### the fee bounds `setFeePercents` enforces -/

/-- `special_fee_percent ≤ total_fee_percent ≤ MAX_FEE_PERCENTAGE` -/
def FeeOK (s : St) : Prop := s.special ≤ s.total ∧ s.total ≤ MAXFEE

theorem FeeOK.of_same {s s' : St} (h : FeeOK s) (h1 : s'.total = s.total) (h2 : s'.special = s.special) :
    FeeOK s' := by
  unfold FeeOK at *; rw [h1, h2]; exact h

/-- every successful operation leaves the fee percentages alone, except `setFeePercents`, which
    checks the bounds -/
theorem step_total_special {s s' : St} {op : Op} {o : Out} (h : step s op = some (s', o)) :
    (s'.total = s.total ∧ s'.special = s.special) ∨ (s'.special ≤ s'.total ∧ s'.total ≤ MAXFEE) := by
  cases op <;> simp only [step] at h
  case addInitial =>
    obtain ⟨_, _, _, _, _, _, _, rfl⟩ := addInitial_spec h
    exact Or.inl ⟨rfl, rfl⟩
  case addLiq a1 a2 m1 m2 =>
    by_cases hS : s.S = 0
    · obtain ⟨_, _, _, _, _, _, rfl⟩ := addLiq_first_spec hS h
      exact Or.inl ⟨rfl, rfl⟩
    · obtain ⟨o1, o2, _, _, _, _, _, _, _, _, _, _, _, rfl⟩ := addLiq_spec hS h
      exact Or.inl ⟨rfl, rfl⟩
  case removeLiq =>
    obtain ⟨_, _, _, _, _, _, _, _, _, _, _, _, _, _, _, rfl⟩ := removeLiq_spec h
    exact Or.inl ⟨rfl, rfl⟩
  case swapIn d a m =>
    obtain ⟨s3, spent, _, _, _, _, _, _, _, _, _, _, _, h12, _, rfl⟩ := swapIn_spec h
    have e := h12.same
    left
    cases d <;>
      simpa [swapMid, St.touch, St.setR, St.setBal] using ⟨e.2.2.2.2.1, e.2.2.2.2.2.1⟩
  case swapOut d mx out =>
    obtain ⟨s3, spent, _, _, _, _, _, _, _, _, _, _, _, h12, _, rfl⟩ := swapOut_spec h
    have e := h12.same
    left
    cases d <;>
      simpa [swapMid, St.touch, St.setR, St.setBal] using ⟨e.2.2.2.2.1, e.2.2.2.2.2.1⟩
  case swapNoFee c d a =>
    obtain ⟨_, _, _, _, _, _, _, _, rfl⟩ := swapNoFee_spec h
    left
    cases d <;> exact ⟨rfl, rfl⟩
  case buyback =>
    obtain ⟨s2, _, _, _, _, _, _, _, _, _, r1, r2⟩ := buyback_spec h
    have e1 := r1.same
    have e2 := r2.same
    left
    exact ⟨e2.2.2.2.2.1.trans e1.2.2.2.2.1, e2.2.2.2.2.2.1.trans e1.2.2.2.2.2.1⟩
  case cfg op =>
    simp only [Option.map_eq_some_iff, Prod.mk.injEq] at h
    obtain ⟨s1, h1, rfl, _⟩ := h
    cases op <;>
      simp only [cfg, Option.bind_eq_bind, Option.bind_eq_some_iff, req_eq_some,
        Option.pure_def, Option.some.injEq] at h1
    case setFee => obtain ⟨_, hb, rfl⟩ := h1; exact Or.inr hb
    case addDest => subst h1; exact Or.inl ⟨rfl, rfl⟩
    case removeDest => obtain ⟨_, _, rfl⟩ := h1; exact Or.inl ⟨rfl, rfl⟩
    case setCollector => obtain ⟨_, _, rfl⟩ := h1; exact Or.inl ⟨rfl, rfl⟩
    case setState => subst h1; exact Or.inl ⟨rfl, rfl⟩
    case whitelist => obtain ⟨_, _, rfl⟩ := h1; exact Or.inl ⟨rfl, rfl⟩
    case removeWhitelist => obtain ⟨_, _, rfl⟩ := h1; exact Or.inl ⟨rfl, rfl⟩
    case setTrusted f x =>
      cases f <;> simp only [cfg, Option.pure_def, Option.some.injEq] at h1 <;> subst h1 <;>
        exact Or.inl ⟨rfl, rfl⟩
  case advance =>
    split at h
    · simp only [Option.some.injEq, Prod.mk.injEq] at h
      obtain ⟨rfl, _⟩ := h
      exact Or.inl ⟨rfl, rfl⟩
    · simp at h
  case lock =>
    simp only [Option.map_eq_some_iff, Prod.mk.injEq] at h
    obtain ⟨s1, h1, rfl, _⟩ := h
    obtain ⟨_, dl, ul, sc, rfl⟩ := lockCfg_spec h1
    exact Or.inl ⟨rfl, rfl⟩
  case epoch =>
    split at h
    · simp only [Option.some.injEq, Prod.mk.injEq] at h
      obtain ⟨rfl, _⟩ := h
      exact Or.inl ⟨rfl, rfl⟩
    · simp at h

theorem step_feeOK {s s' : St} {op : Op} {o : Out} (hf : FeeOK s) (h : step s op = some (s', o)) :
    FeeOK s' := by
  rcases step_total_special h with ⟨e1, e2⟩ | hb
  · exact hf.of_same e1 e2
  · exact hb

theorem run_feeOK (ops : List Op) {s : St} (hf : FeeOK s) : FeeOK (run s ops) := by
  induction ops generalizing s with
  | nil => simpa [run] using hf
  | cons op ops ih =>
    simp only [run, List.foldl_cons]
    cases hst : step s op with
    | none => exact ih hf
    | some r =>
      obtain ⟨s1, o⟩ := r
      exact ih (step_feeOK hf hst)

theorem feeOK_init {t sp : Nat} (ad : Option Nat) (cap : Nat) (h : sp ≤ t ∧ t ≤ MAXFEE) :
    FeeOK (init t sp ad cap) := h

/-! ### what `FeeOK` gives a swap: `fee ≤ input`, `fee·M ≤ input·total`, hence the K check -/

theorem swapFee_bound {s : St} (hf : FeeOK s) (x : Nat) :
    swapFee s x ≤ x ∧ swapFee s x * M ≤ x * s.total := by
  have hM : M = 100000 := rfl
  have hX : MAXFEE = 5000 := rfl
  obtain ⟨h1, h2⟩ := hf
  unfold swapFee
  split
  · unfold specialFee
    have hd := Nat.div_mul_le_self (x * s.special) M
    have hle : x * s.special ≤ x * s.total := Nat.mul_le_mul_left _ h1
    refine ⟨?_, Nat.le_trans hd hle⟩
    apply Nat.div_le_of_le_mul
    have : x * s.special ≤ x * M := Nat.mul_le_mul_left _ (by omega)
    rw [Nat.mul_comm M x]
    exact this
  · exact ⟨Nat.zero_le _, by simp⟩

/-- the K check of a fixed-input swap can never fail under the fee bounds -/
theorem swapIn_kcheck {s : St} (hf : FeeOK s) (d : Dir) (a : Nat)
    (ho : amountOut s.total a (s.rin d) (s.rout d) ≤ s.rout d) :
    s.r1 * s.r2 ≤
      (swapMid s d a (swapFee s a) (amountOut s.total a (s.rin d) (s.rout d))).r1 *
      (swapMid s d a (swapFee s a) (amountOut s.total a (s.rin d) (s.rout d))).r2 := by
  have hM : M = 100000 := rfl
  have hX : MAXFEE = 5000 := rfl
  have hb := swapFee_bound hf a
  have hk := swapIn_k s.total a (s.rin d) (s.rout d) (swapFee s a) (by have := hf.2; omega) hb.2 ho
  rw [k_of_dir] at hk
  have e := k_of_dir (swapMid s d a (swapFee s a) (amountOut s.total a (s.rin d) (s.rout d))) d
  rw [swapMid_rin, swapMid_rout] at e
  rw [← e]
  exact hk

/-- the K check of a fixed-output swap can never fail under the fee bounds -/
theorem swapOut_kcheck {s : St} (hf : FeeOK s) (d : Dir) (out : Nat) (ho : out < s.rout d) :
    s.r1 * s.r2 ≤
      (swapMid s d (amountIn s.total out (s.rin d) (s.rout d))
        (swapFee s (amountIn s.total out (s.rin d) (s.rout d))) out).r1 *
      (swapMid s d (amountIn s.total out (s.rin d) (s.rout d))
        (swapFee s (amountIn s.total out (s.rin d) (s.rout d))) out).r2 := by
  have hM : M = 100000 := rfl
  have hX : MAXFEE = 5000 := rfl
  have hb := swapFee_bound hf (amountIn s.total out (s.rin d) (s.rout d))
  have hk := swapOut_k s.total out (s.rin d) (s.rout d)
    (swapFee s (amountIn s.total out (s.rin d) (s.rout d))) (by have := hf.2; omega) ho hb.2
  rw [k_of_dir] at hk
  have e := k_of_dir (swapMid s d (amountIn s.total out (s.rin d) (s.rout d))
        (swapFee s (amountIn s.total out (s.rin d) (s.rout d))) out) d
  rw [swapMid_rin, swapMid_rout] at e
  rw [← e]
  exact hk

/-- after fee routing the pair still holds the output of the swap: the balance guard of the
    final transfer follows from the backing invariant -/
theorem swap_out_covered {s s3 : St} {d : Dir} {charged fee out spent : Nat} (hi : Inv s)
    (hout : out ≤ s.rout d) (hrel : FeeRel d (swapMid s d charged fee out) s3 spent) :
    out ≤ s3.balOut d := by
  have h1 := hrel.outSide
  rw [swapMid_balOut, swapMid_rout] at h1
  have hb : s.rout d ≤ s.balOut d := by
    cases d
    · exact hi.back2
    · exact hi.back1
  omega

/-! ### success lemmas -/

/-- the final result of a swap whose fee routing ended in `s3` -/
def swapEnd (s s3 : St) (d : Dir) (out : Nat) : St :=
  (s3.addSlkOut d (if s.locksOut then out else 0)).setBal d (s3.balIn d) (s3.balOut d - out)

/-- `swapTokensFixedInput` succeeds under this explicit list of guards, with this result -/
theorem swapIn_ok {s s3 : St} {d : Dir} {a minOut : Nat}
    (hmin : 0 < minOut) (ha : 0 < a) (hact : s.status = .active)
    (hle : minOut ≤ amountOut s.total a (s.rin d) (s.rout d))
    (hlt : amountOut s.total a (s.rin d) (s.rout d) < s.rout d)
    (hne : amountOut s.total a (s.rin d) (s.rout d) ≠ 0)
    (hfee : swapFee s a ≤ a)
    (hk : s.r1 * s.r2 ≤
      (swapMid s d a (swapFee s a) (amountOut s.total a (s.rin d) (s.rout d))).r1 *
      (swapMid s d a (swapFee s a) (amountOut s.total a (s.rin d) (s.rout d))).r2)
    (hsend : (swapMid s d a (swapFee s a) (amountOut s.total a (s.rin d) (s.rout d))).sendFee d
      (swapFee s a) = some s3)
    (hlock : s.lockOn = true → s.lockSc = .simpleLock)
    (hbal : amountOut s.total a (s.rin d) (s.rout d) ≤ s3.balOut d) :
    swapIn s d a minOut =
      some (swapEnd s s3 d (amountOut s.total a (s.rin d) (s.rout d)),
            ⟨amountOut s.total a (s.rin d) (s.rout d), 0, 0, s.locksOut⟩) := by
  obtain ⟨spent, _, hrel⟩ := sendFee_spec hsend
  have hlo : s3.lockOn = s.lockOn := hrel.same.lockOn.trans (swapMid_lockOn s d _ _ _)
  have hls : s3.lockSc = s.lockSc := hrel.same.lockSc.trans (swapMid_lockSc s d _ _ _)
  have hlk : s3.locksOut = s.locksOut := hrel.same.locksOut.trans (swapMid_locksOut s d _ _ _)
  have hL := lockOut_ok s3 d (amountOut s.total a (s.rin d) (s.rout d))
    (by rw [hlo, hls]; exact hlock)
  rw [hlk] at hL
  have hk' : s.r1 * s.r2 ≤
      (s.touch.setR d (s.rin d + (a - swapFee s a))
        (s.rout d - amountOut s.total a (s.rin d) (s.rout d))).r1 *
      (s.touch.setR d (s.rin d + (a - swapFee s a))
        (s.rout d - amountOut s.total a (s.rin d) (s.rout d))).r2 := by
    cases d <;> simpa [swapMid, St.setR, St.setBal, St.touch] using hk
  have hmro : minOut < s.rout d := by omega
  unfold swapIn
  simp only [Option.bind_eq_bind, Option.pure_def]
  rw [req_ok hmin, Option.bind_some, req_ok ha, Option.bind_some, req_ok hact, Option.bind_some,
    req_ok hmro, Option.bind_some, req_ok hle, Option.bind_some, req_ok hlt, Option.bind_some,
    req_ok hne, Option.bind_some]
  show (sub? a (swapFee s a)).bind _ = _
  rw [sub?_ok hfee, Option.bind_some, req_ok hk', Option.bind_some]
  show ((swapMid s d a (swapFee s a) (amountOut s.total a (s.rin d) (s.rout d))).sendFee d
    (swapFee s a)).bind _ = _
  rw [hsend, Option.bind_some, hL, Option.bind_some]
  simp only [St.debitOut, Option.bind_eq_bind, Option.pure_def, addSlkOut_balOut, addSlkOut_balIn]
  rw [sub?_ok hbal, Option.bind_some, Option.bind_some]
  rfl

/-- `swapTokensFixedOutput` succeeds under this explicit list of guards, with this result -/
theorem swapOut_ok {s s3 : St} {d : Dir} {maxIn out : Nat}
    (hout : 0 < out) (hmax : 0 < maxIn) (hact : s.status = .active) (hlt : out < s.rout d)
    (hden : (s.rout d - out) * (M - s.total) ≠ 0)
    (hle : amountIn s.total out (s.rin d) (s.rout d) ≤ maxIn)
    (hfee : swapFee s (amountIn s.total out (s.rin d) (s.rout d)) ≤
      amountIn s.total out (s.rin d) (s.rout d))
    (hk : s.r1 * s.r2 ≤
      (swapMid s d (amountIn s.total out (s.rin d) (s.rout d))
        (swapFee s (amountIn s.total out (s.rin d) (s.rout d))) out).r1 *
      (swapMid s d (amountIn s.total out (s.rin d) (s.rout d))
        (swapFee s (amountIn s.total out (s.rin d) (s.rout d))) out).r2)
    (hsend : (swapMid s d (amountIn s.total out (s.rin d) (s.rout d))
        (swapFee s (amountIn s.total out (s.rin d) (s.rout d))) out).sendFee d
      (swapFee s (amountIn s.total out (s.rin d) (s.rout d))) = some s3)
    (hlock : s.lockOn = true → s.lockSc = .simpleLock)
    (hbal : out ≤ s3.balOut d) :
    swapOut s d maxIn out =
      some (swapEnd s s3 d out,
            ⟨out, amountIn s.total out (s.rin d) (s.rout d),
             maxIn - amountIn s.total out (s.rin d) (s.rout d), s.locksOut⟩) := by
  obtain ⟨spent, _, hrel⟩ := sendFee_spec hsend
  have hlo : s3.lockOn = s.lockOn := hrel.same.lockOn.trans (swapMid_lockOn s d _ _ _)
  have hls : s3.lockSc = s.lockSc := hrel.same.lockSc.trans (swapMid_lockSc s d _ _ _)
  have hlk : s3.locksOut = s.locksOut := hrel.same.locksOut.trans (swapMid_locksOut s d _ _ _)
  have hL := lockOut_ok s3 d out (by rw [hlo, hls]; exact hlock)
  rw [hlk] at hL
  have hne : amountIn s.total out (s.rin d) (s.rout d) ≠ 0 := by
    unfold amountIn; exact Nat.succ_ne_zero _
  have hk' : s.r1 * s.r2 ≤
      (s.touch.setR d (s.rin d + (amountIn s.total out (s.rin d) (s.rout d) -
          swapFee s (amountIn s.total out (s.rin d) (s.rout d)))) (s.rout d - out)).r1 *
      (s.touch.setR d (s.rin d + (amountIn s.total out (s.rin d) (s.rout d) -
          swapFee s (amountIn s.total out (s.rin d) (s.rout d)))) (s.rout d - out)).r2 := by
    cases d <;> simpa [swapMid, St.setR, St.setBal, St.touch] using hk
  unfold swapOut
  simp only [Option.bind_eq_bind, Option.pure_def]
  rw [req_ok hout, Option.bind_some, req_ok hmax, Option.bind_some, req_ok hact, Option.bind_some,
    req_ok hlt, Option.bind_some, req_ok hden, Option.bind_some, req_ok hle, Option.bind_some,
    req_ok hne, Option.bind_some]
  show (sub? (amountIn s.total out (s.rin d) (s.rout d))
    (swapFee s (amountIn s.total out (s.rin d) (s.rout d)))).bind _ = _
  rw [sub?_ok hfee, Option.bind_some, req_ok hk', Option.bind_some]
  show ((swapMid s d (amountIn s.total out (s.rin d) (s.rout d))
        (swapFee s (amountIn s.total out (s.rin d) (s.rout d))) out).sendFee d
      (swapFee s (amountIn s.total out (s.rin d) (s.rout d)))).bind _ = _
  rw [hsend, Option.bind_some, hL, Option.bind_some]
  simp only [St.debitOut, Option.bind_eq_bind, Option.pure_def, addSlkOut_balOut, addSlkOut_balIn]
  rw [sub?_ok hbal, Option.bind_some, Option.bind_some]
  rfl

/-- `removeLiquidity` succeeds under this explicit list of guards, with this result -/
theorem removeLiq_ok {s : St} {lp m1 m2 : Nat} (hi : Inv s)
    (hm1 : 0 < m1) (hm2 : 0 < m2) (hst : s.status = .active ∨ s.status = .partialActive)
    (hlp : 0 < lp) (hS : lp + MINLIQ ≤ s.S)
    (h1 : m1 ≤ lp * s.r1 / s.S) (h2 : m2 ≤ lp * s.r2 / s.S) :
    removeLiq s lp m1 m2 =
      some ({ s.touch with S := s.S - lp, r1 := s.r1 - lp * s.r1 / s.S, r2 := s.r2 - lp * s.r2 / s.S,
                           lpCirc := s.lpCirc - lp, bal1 := s.bal1 - lp * s.r1 / s.S,
                           bal2 := s.bal2 - lp * s.r2 / s.S },
            ⟨lp * s.r1 / s.S, lp * s.r2 / s.S, 0, false⟩) := by
  have hM : MINLIQ = 1000 := rfl
  have hSpos : 0 < s.S := by omega
  obtain ⟨hr1, hr2, _⟩ := hi.pos hSpos
  have lt1 : lp * s.r1 / s.S < s.r1 := by
    rw [Nat.div_lt_iff_lt_mul hSpos, Nat.mul_comm lp]
    exact Nat.mul_lt_mul_of_pos_left (by omega) hr1
  have lt2 : lp * s.r2 / s.S < s.r2 := by
    rw [Nat.div_lt_iff_lt_mul hSpos, Nat.mul_comm lp]
    exact Nat.mul_lt_mul_of_pos_left (by omega) hr2
  have p1 : 0 < lp * s.r1 / s.S := by omega
  have p2 : 0 < lp * s.r2 / s.S := by omega
  have hrem : amountsRemoved s lp m1 m2 = some (lp * s.r1 / s.S, lp * s.r2 / s.S) := by
    unfold amountsRemoved
    simp only [Option.bind_eq_bind, Option.pure_def]
    rw [req_ok hS, Option.bind_some, req_ok p1, Option.bind_some, req_ok h1, Option.bind_some,
      req_ok lt1, Option.bind_some, req_ok p2, Option.bind_some, req_ok h2, Option.bind_some,
      req_ok lt2, Option.bind_some]
  have hk : (s.r1 - lp * s.r1 / s.S) * (s.r2 - lp * s.r2 / s.S) ≤ s.r1 * s.r2 :=
    Nat.mul_le_mul (Nat.sub_le _ _) (Nat.sub_le _ _)
  have hc : lp ≤ s.lpCirc := by have := hi.supply; omega
  have hb1 : lp * s.r1 / s.S ≤ s.bal1 := by have := hi.back1; omega
  have hb2 : lp * s.r2 / s.S ≤ s.bal2 := by have := hi.back2; omega
  unfold removeLiq
  simp only [Option.bind_eq_bind, Option.pure_def]
  rw [req_ok (And.intro hm1 hm2), Option.bind_some, req_ok hst, Option.bind_some, req_ok hlp,
    Option.bind_some, hrem, Option.bind_some]
  simp only []
  rw [req_ok hk, Option.bind_some, sub?_ok hc, Option.bind_some, sub?_ok hb1, Option.bind_some,
    sub?_ok hb2, Option.bind_some]

end Mx.Pair

namespace Mx.Pair

/-- the fee-routing step of a fixed-output swap, kept as an equation -/
theorem swapOut_sendFee {s s' : St} {d : Dir} {maxIn out : Nat} {o : Out}
    (h : swapOut s d maxIn out = some (s', o)) :
    ∃ s3, (swapMid s d o.v2 (swapFee s o.v2) out).sendFee d (swapFee s o.v2) = some s3 ∧
      s' = swapEnd s s3 d out := by
  simp only [swapOut, Option.bind_eq_bind, Option.bind_eq_some_iff, req_eq_some, sub?_eq_some,
    St.debitOut, Option.pure_def, Option.some.injEq, Prod.mk.injEq] at h
  obtain ⟨_, h1, _, h2, _, h3, _, h4, _, h5, _, h6, _, h7, aAfter, ⟨h8, rfl⟩, _, h9, s3, h10,
    ⟨s4, lk⟩, hlk, s5, ⟨b, ⟨h11, rfl⟩, rfl⟩, rfl, rfl⟩ := h
  obtain ⟨hl, _, rfl⟩ := lockOut_spec hlk
  obtain ⟨spent, _, hrel⟩ := sendFee_spec h10
  have hlo : s3.locksOut = s.locksOut :=
    hrel.same.locksOut.trans (swapMid_locksOut s d _ _ _)
  refine ⟨s3, h10, ?_⟩
  rw [addSlkOut_balIn, addSlkOut_balOut]
  subst hl
  rw [hlo]
  rfl

/-- the fixed-input twin in terms of `swapEnd` -/
theorem swapIn_sendFee' {s s' : St} {d : Dir} {a minOut : Nat} {o : Out}
    (h : swapIn s d a minOut = some (s', o)) :
    ∃ s3, (swapMid s d a (swapFee s a) o.v1).sendFee d (swapFee s a) = some s3 ∧
      s' = swapEnd s s3 d o.v1 := by
  obtain ⟨s3, h1, h2⟩ := swapIn_sendFee h
  obtain ⟨_, _, _, _, _, _, ho, _⟩ := swapIn_spec h
  refine ⟨s3, h1, ?_⟩
  rw [h2, ho]
  rfl

end Mx.Pair
