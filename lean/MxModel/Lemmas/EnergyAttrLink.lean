/-
  C08 with an explicit attribution ledger — the token-movement layer.

  `Link s s2 h e e2`: between the states `s` and `s2` (same epoch, same nonce list, same stored
  entries) the balance row of the holder `h` changed by the signed row `dRow s s2 h`, no other
  ordinary account's row changed, and the entry `e` became `e2` by being moved by exactly the
  time-weighted sum / the sum of that row change.  Every multi-payment loop of the energy world is
  such a link for the paying / receiving account — whatever the entry tracked before.
-/
import MxModel.Lemmas.EnergyAttrSum
import MxModel.Lemmas.EnergySpec

namespace Mx.Energy

/-- the four contracts that hold locked tokens which are nobody's: the factory (the residual
    unit of every nonce), token-unstake (unbonding), lkmex-transfer (pending transfers) and the
    wrapper (wrapped tokens) -/
def IsEsc (a : Nat) : Prop := a = FACTORY ∨ a = UNSTAKE ∨ a = TRANSFER ∨ a = WRAPPER

instance : DecidablePred IsEsc := fun a => by unfold IsEsc; exact inferInstance

/-- every balance row (of any account, contracts included) is zero outside the nonce range -/
def DomAll (s : St) : Prop := ∀ a n, (n = 0 ∨ s.nonces.length < n) → s.bal a n = 0

/-- signed change of the balance row of `h` between two states -/
def dRow (s s2 : St) (h : Nat) : Nat → Int := fun n => (s2.bal h n : Int) - (s.bal h n : Int)

structure Link (s s2 : St) (h : Nat) (e e2 : Entry) : Prop where
  epoch : s2.epoch = s.epoch
  nonces : s2.nonces = s.nonces
  energy : s2.energy = s.energy
  other : ∀ x, x ≠ h → ¬ IsEsc x → s2.bal x = s.bal x
  dom : DomAll s → DomAll s2
  last : e2.last = e.last
  E : e2.E = e.E + sumEZ (dRow s s2 h) s.epoch 1 s.nonces
  T : (e2.T : Int) = (e.T : Int) + sumTZ (dRow s s2 h) 1 s.nonces

theorem IsNonce.in_range {ns : List Nat} {n u m : Nat} (h : IsNonce ns n u)
    (hm : m = 0 ∨ ns.length < m) : m ≠ n := by
  have := h.le_length
  have := h.1
  omega

theorem Link.refl (s : St) (h : Nat) (e : Entry) : Link s s h e e := by
  refine ⟨rfl, rfl, rfl, fun _ _ _ => rfl, fun hd => hd, rfl, ?_, ?_⟩
  · rw [sumEZ_zero _ _ _ _ (fun m _ => by simp [dRow])]; simp
  · rw [sumTZ_zero _ _ _ (fun m _ => by simp [dRow])]; simp

theorem Link.trans {s s1 s2 : St} {h : Nat} {e e1 e2 : Entry}
    (a : Link s s1 h e e1) (b : Link s1 s2 h e1 e2) : Link s s2 h e e2 := by
  have hrow : dRow s s2 h = fun n => dRow s s1 h n + dRow s1 s2 h n := by
    funext n; simp only [dRow]; ring
  refine ⟨b.epoch.trans a.epoch, b.nonces.trans a.nonces, b.energy.trans a.energy,
    fun x hx he => (b.other x hx he).trans (a.other x hx he), fun hd => b.dom (a.dom hd),
    b.last.trans a.last, ?_, ?_⟩
  · rw [hrow, sumEZ_add, b.E, a.E, a.epoch, a.nonces]; ring
  · rw [hrow, sumTZ_add, b.T, a.T, a.nonces]; ring

/-- the last state may differ in fields C08 does not look at -/
theorem Link.same {s s2 s3 : St} {h : Nat} {e e2 : Entry} (a : Link s s2 h e e2)
    (hep : s3.epoch = s2.epoch) (hns : s3.nonces = s2.nonces) (hen : s3.energy = s2.energy)
    (hb : s3.bal = s2.bal) : Link s s3 h e e2 := by
  have hrow : dRow s s3 h = dRow s s2 h := by unfold dRow; rw [hb]
  refine ⟨hep.trans a.epoch, hns.trans a.nonces, hen.trans a.energy, ?_, ?_, a.last, ?_, ?_⟩
  · intro x hx he; rw [hb]; exact a.other x hx he
  · intro hd x m hm
    rw [hb]; rw [hns] at hm
    exact a.dom hd x m hm
  · rw [hrow]; exact a.E
  · rw [hrow]; exact a.T

/-- one booked movement on the row of `h` at the valid nonce `n` -/
theorem link_move {s s1 : St} {h n u : Nat} {e e1 : Entry} {d : Int}
    (hep : s1.epoch = s.epoch) (hns : s1.nonces = s.nonces) (hen : s1.energy = s.energy)
    (hrow : ∀ m, m ≠ n → s1.bal h m = s.bal h m) (hd : (s1.bal h n : Int) = (s.bal h n : Int) + d)
    (hother : ∀ x, x ≠ h → ¬ IsEsc x → s1.bal x = s.bal x)
    (hdom : DomAll s → DomAll s1)
    (hN : IsNonce s.nonces n u) (hm : Moves e e1 d u s.epoch) : Link s s1 h e e1 := by
  obtain ⟨m1, m2, m3⟩ := hm
  obtain ⟨h1, hget⟩ := hN
  have h0 : ∀ m, m ≠ n → dRow s s1 h m = 0 := by
    intro m hm; simp [dRow, hrow m hm]
  have hdn : dRow s s1 h n = d := by
    simp only [dRow]; rw [hd]; ring
  refine ⟨hep, hns, hen, hother, hdom, m3, ?_, ?_⟩
  · rw [sumEZ_single _ s.epoch n 1 u s.nonces h1 hget h0, hdn]; exact m1
  · rw [sumTZ_single _ n 1 u s.nonces h1 hget h0, hdn]; exact m2

/-- a movement that does not touch the row of `h` (an escrow contract's side of a transfer) -/
theorem link_frame {s s1 : St} {h : Nat} (e : Entry)
    (hep : s1.epoch = s.epoch) (hns : s1.nonces = s.nonces) (hen : s1.energy = s.energy)
    (hrow : s1.bal h = s.bal h) (hother : ∀ x, x ≠ h → ¬ IsEsc x → s1.bal x = s.bal x)
    (hdom : DomAll s → DomAll s1) : Link s s1 h e e := by
  refine ⟨hep, hns, hen, hother, hdom, rfl, ?_, ?_⟩
  · rw [sumEZ_zero _ _ _ _ (fun m _ => by simp [dRow, hrow])]; simp
  · rw [sumTZ_zero _ _ _ (fun m _ => by simp [dRow, hrow])]; simp

/-! ### debit / credit -/

theorem debit_bal {s s1 : St} {a n amt : Nat} (h : s.debit a n amt = some s1) :
    amt ≤ s.bal a n ∧ s1.epoch = s.epoch ∧ s1.nonces = s.nonces ∧ s1.energy = s.energy ∧
    s1.bal a n + amt = s.bal a n ∧ (∀ m, m ≠ n → s1.bal a m = s.bal a m) ∧
    (∀ x, x ≠ a → s1.bal x = s.bal x) ∧ (DomAll s → DomAll s1) := by
  obtain ⟨hle, rfl⟩ := debit_spec h
  refine ⟨hle, rfl, rfl, rfl, ?_, ?_, ?_, ?_⟩
  · show upd2 s.bal a n (s.bal a n - amt) a n + amt = _
    rw [upd2_same, upd_same]; omega
  · intro m hm
    show upd2 s.bal a n (s.bal a n - amt) a m = _
    rw [upd2_same, upd_other _ _ hm]
  · intro x hx; exact upd2_other _ _ _ hx
  · intro hd x m hm
    show upd2 s.bal a n (s.bal a n - amt) x m = 0
    by_cases hx : x = a
    · subst hx
      rw [upd2_same]
      by_cases hmn : m = n
      · subst hmn
        rw [upd_same, hd x m hm]; omega
      · rw [upd_other _ _ hmn]; exact hd x m hm
    · rw [upd2_other _ _ _ hx]; exact hd x m hm

/-- a state whose balances are those of `s0` with `amt` credited to `(a, n)` -/
theorem credit_facts {s0 X : St} {a n amt u : Nat} (hns : X.nonces = s0.nonces)
    (hb : X.bal = upd2 s0.bal a n (s0.bal a n + amt)) (hN : IsNonce s0.nonces n u) :
    X.bal a n = s0.bal a n + amt ∧ (∀ m, m ≠ n → X.bal a m = s0.bal a m) ∧
    (∀ x, x ≠ a → X.bal x = s0.bal x) ∧ (DomAll s0 → DomAll X) := by
  refine ⟨?_, ?_, ?_, ?_⟩
  · rw [hb, upd2_same, upd_same]
  · intro m hm; rw [hb, upd2_same, upd_other _ _ hm]
  · intro x hx; rw [hb, upd2_other _ _ _ hx]
  · intro hd x m hm
    rw [hns] at hm
    rw [hb]
    by_cases hx : x = a
    · subst hx
      rw [upd2_same, upd_other _ _ (hN.in_range hm)]; exact hd x m hm
    · rw [upd2_other _ _ _ hx]; exact hd x m hm

/-- the holder pays `amt` of nonce `n` and its entry is moved by `−amt` -/
theorem link_debit {s s1 : St} {h n amt u : Nat} {e e1 : Entry}
    (hdeb : s.debit h n amt = some s1) (hu : s.unlockOf n = some u)
    (hm : Moves e e1 (-(amt : Int)) u s.epoch) : Link s s1 h e e1 := by
  obtain ⟨_, a1, a2, a3, a4, a5, a6, a7⟩ := debit_bal hdeb
  refine link_move a1 a2 a3 a5 ?_ (fun x hx _ => a6 x hx) a7 (unlockOf_isNonce hu) hm
  have : (s.bal h n : Int) = (s1.bal h n : Int) + (amt : Int) := by exact_mod_cast a4.symm
  rw [this]; ring

/-- somebody else (`x ≠ h`, an escrow contract) pays -/
theorem link_debit_other {s s1 : St} {h x n amt : Nat} (e : Entry)
    (hdeb : s.debit x n amt = some s1) (hx : x ≠ h) (hesc : IsEsc x) : Link s s1 h e e := by
  obtain ⟨_, a1, a2, a3, _, _, a6, a7⟩ := debit_bal hdeb
  refine link_frame e a1 a2 a3 (a6 h (Ne.symm hx)) (fun y _ hy => a6 y ?_) a7
  intro hyx; subst hyx; exact hy hesc

/-- the holder receives `amt` of nonce `n` and its entry is moved by `+amt` -/
theorem link_credit {s0 X : St} {h n amt u : Nat} {e e1 : Entry}
    (hep : X.epoch = s0.epoch) (hns : X.nonces = s0.nonces) (hen : X.energy = s0.energy)
    (hb : X.bal = upd2 s0.bal h n (s0.bal h n + amt)) (hu : s0.unlockOf n = some u)
    (hm : Moves e e1 (amt : Int) u s0.epoch) : Link s0 X h e e1 := by
  obtain ⟨c1, c2, c3, c4⟩ := credit_facts hns hb (unlockOf_isNonce hu)
  refine link_move hep hns hen c2 ?_ (fun x hx _ => c3 x hx) c4 (unlockOf_isNonce hu) hm
  rw [c1]; push_cast; ring

/-- somebody else (`x ≠ h`, an escrow contract) receives -/
theorem link_credit_other {s0 X : St} {h x n amt u : Nat} (e : Entry)
    (hep : X.epoch = s0.epoch) (hns : X.nonces = s0.nonces) (hen : X.energy = s0.energy)
    (hb : X.bal = upd2 s0.bal x n (s0.bal x n + amt)) (hu : s0.unlockOf n = some u)
    (hx : x ≠ h) (hesc : IsEsc x) : Link s0 X h e e := by
  obtain ⟨_, _, c3, c4⟩ := credit_facts hns hb (unlockOf_isNonce hu)
  refine link_frame e hep hns hen (c3 h (Ne.symm hx)) (fun y _ hy => c3 y ?_) c4
  intro hyx; subst hyx; exact hy hesc

/-! ### the loops -/

theorem unlockPays_link {c : Nat} (ps : List (Nat × Nat)) {s s2 : St} {e e2 : Entry} {tot : Nat}
    (h : unlockPays s c e ps = some (s2, e2, tot)) : Link s s2 c e e2 := by
  induction ps generalizing s e tot with
  | nil =>
    simp only [unlockPays, Option.some.injEq, Prod.mk.injEq] at h
    obtain ⟨rfl, rfl, _⟩ := h
    exact Link.refl _ _ _
  | cons p ps ih =>
    obtain ⟨n, amt⟩ := p
    simp only [unlockPays, Option.bind_eq_bind, Option.bind_eq_some_iff, req_eq_some,
      Option.pure_def, Option.some.injEq, Prod.mk.injEq] at h
    obtain ⟨u, hu, s1, hdeb, _, hle, _, _, e1, hr, ⟨s2', e2', tot'⟩, hrec, rfl, rfl, _⟩ := h
    have l1 := link_debit hdeb hu (moves_refund hle hr)
    have hrec' : unlockPays s1 c e1 ps = some (s2', e2', tot') := hrec
    exact l1.trans (ih hrec')

theorem mergePays_link {c : Nat} (ps : List (Nat × Nat)) {s s2 : St} {e e2 : Entry}
    {accE accW accE' accW' : Nat}
    (h : mergePays s c e accE accW ps = some (s2, e2, accE', accW')) : Link s s2 c e e2 := by
  induction ps generalizing s e accE accW with
  | nil =>
    simp only [mergePays, Option.some.injEq, Prod.mk.injEq] at h
    obtain ⟨rfl, rfl, _⟩ := h
    exact Link.refl _ _ _
  | cons p ps ih =>
    obtain ⟨n, amt⟩ := p
    simp only [mergePays, Option.bind_eq_bind, Option.bind_eq_some_iff, req_eq_some] at h
    obtain ⟨u, hu, s1, hdeb, _, _, e1, hr, _, _, hrec⟩ := h
    exact (link_debit hdeb hu (moves_unlockAny hr)).trans (ih hrec)

theorem deductPays_link {esc c : Nat} (hesc : IsEsc esc) (hc : esc ≠ c) (ps : List (Nat × Nat))
    {s s2 : St} {e e2 : Entry}
    (h : deductPays s esc c e ps = some (s2, e2)) : Link s s2 c e e2 := by
  induction ps generalizing s e with
  | nil =>
    simp only [deductPays, Option.some.injEq, Prod.mk.injEq] at h
    obtain ⟨rfl, rfl⟩ := h
    exact Link.refl _ _ _
  | cons p ps ih =>
    obtain ⟨n, amt⟩ := p
    simp only [deductPays, Option.bind_eq_bind, Option.bind_eq_some_iff, req_eq_some] at h
    obtain ⟨u, hu, s1, hdeb, _, hlt, e1, hr, hrec⟩ := h
    have l1 := link_debit hdeb hu (moves_early (Nat.le_of_lt hlt) hr)
    have hu1 : s1.unlockOf n = some u := by
      unfold St.unlockOf at hu ⊢; rw [l1.nonces]; exact hu
    have l2 : Link s1 (s1.credit esc n amt) c e1 e1 :=
      link_credit_other e1 rfl rfl rfl rfl hu1 hc hesc
    exact (l1.trans l2).trans (ih hrec)

theorem addPays_link {esc c : Nat} (hesc : IsEsc esc) (hc : esc ≠ c) (ps : List (Nat × Nat))
    {s s2 : St} {e e2 : Entry}
    (h : addPays s esc c e ps = some (s2, e2)) : Link s s2 c e e2 := by
  induction ps generalizing s e with
  | nil =>
    simp only [addPays, Option.some.injEq, Prod.mk.injEq] at h
    obtain ⟨rfl, rfl⟩ := h
    exact Link.refl _ _ _
  | cons p ps ih =>
    obtain ⟨n, amt⟩ := p
    simp only [addPays, Option.bind_eq_bind, Option.bind_eq_some_iff] at h
    obtain ⟨u, hu, s1, hdeb, hrec⟩ := h
    have l1 : Link s s1 c e e := link_debit_other e hdeb hc hesc
    have hu1 : s1.unlockOf n = some u := by
      unfold St.unlockOf at hu ⊢; rw [l1.nonces]; exact hu
    have hm : Moves e (e.addDest amt u s.epoch) (amt : Int) u s1.epoch := by
      rw [l1.epoch]; exact moves_addDest e amt u s.epoch
    have l2 : Link s1 (s1.credit c n amt) c e (e.addDest amt u s.epoch) :=
      link_credit rfl rfl rfl rfl hu1 hm
    exact (l1.trans l2).trans (ih hrec)

theorem cancelEntries_link {c : Nat} (hc : UNSTAKE ≠ c) (qs : List UEntry) {s s2 : St} {e e2 : Entry}
    (h : cancelEntries s c e qs = some (s2, e2)) : Link s s2 c e e2 := by
  induction qs generalizing s e with
  | nil =>
    simp only [cancelEntries, Option.some.injEq, Prod.mk.injEq] at h
    obtain ⟨rfl, rfl⟩ := h
    exact Link.refl _ _ _
  | cons q qs ih =>
    simp only [cancelEntries, Option.bind_eq_bind, Option.bind_eq_some_iff, sub?_eq_some] at h
    obtain ⟨u, hu, s1, hdeb, b, _, bs, _, pen, _, pp, _, hrec⟩ := h
    have hesc : IsEsc UNSTAKE := Or.inr (Or.inl rfl)
    have l1 : Link s s1 c e e := link_debit_other e hdeb hc hesc
    have hu1 : s1.unlockOf q.nonce = some u := by
      unfold St.unlockOf at hu ⊢; rw [l1.nonces]; exact hu
    have hm : Moves e (e.restoreCancel q.locked u s.epoch) (q.locked : Int) u s1.epoch := by
      rw [l1.epoch]; exact moves_restoreCancel e q.locked u s.epoch
    generalize hX : ({ s1 with base := upd s1.base UNSTAKE b, baseSupply := bs,
                               burnCancel := s1.burnCancel + q.unlocked,
                               circ := s1.circ + q.locked, pendingPenalty := pp }.credit c q.nonce q.locked) = X at hrec
    have l2 : Link s1 X c e (e.restoreCancel q.locked u s.epoch) := by
      subst hX
      exact link_credit rfl rfl rfl rfl hu1 hm
    exact (l1.trans l2).trans (ih hrec)

/-- `claimUnlockedTokens`' loop only burns tokens held by token-unstake -/
theorem claimEntries_frameZ (qs : List UEntry) {s s2 : St} {paid : Nat}
    (h : claimEntries s qs = some (s2, paid)) :
    s2.epoch = s.epoch ∧ s2.nonces = s.nonces ∧ s2.energy = s.energy ∧
    (∀ x, x ≠ UNSTAKE → s2.bal x = s.bal x) ∧ (DomAll s → DomAll s2) := by
  induction qs generalizing s paid with
  | nil =>
    simp only [claimEntries, Option.some.injEq, Prod.mk.injEq] at h
    obtain ⟨rfl, _⟩ := h
    exact ⟨rfl, rfl, rfl, fun _ _ => rfl, fun hd => hd⟩
  | cons q qs ih =>
    simp only [claimEntries, Option.bind_eq_bind, Option.bind_eq_some_iff, sub?_eq_some,
      Option.pure_def, Option.some.injEq, Prod.mk.injEq] at h
    obtain ⟨s1, hdeb, pen, _, b, _, pp, _, ⟨s2', paid'⟩, hrec, rfl, _⟩ := h
    obtain ⟨_, d1, d2, d3, _, _, d6, d7⟩ := debit_bal hdeb
    obtain ⟨a1, a2, a3, a4, a5⟩ := ih hrec
    exact ⟨a1.trans d1, a2.trans d2, a3.trans d3, fun x hx => (a4 x hx).trans (d6 x hx),
      fun hd => a5 (d7 hd)⟩

end Mx.Energy
