/-
  What the redeeming operations of the proxy-dex model hand out and destroy
  (characterisation lemmas used by Props/C16).
-/
import MxModel.Lemmas.ProxyDexOps

namespace Mx.ProxyDex

/-- `removeLiquidityProxy`: outputs and ledger movements in terms of the recorded part `p` and
    the base asset `rb` paid by the pool -/
theorem removeLiq_spec {s s' : St} {w x rb ro : Nat} {o : Out}
    (h : removeLiq s w x rb ro = some (s', o)) :
    ∃ r p, s.wl[w]? = some r ∧ part r.locked r.total x = some p ∧ 0 < x ∧ x ≤ r.circ ∧ x ≤ s.lp ∧
      o.locked.1 = r.k ∧ o.locked.2 = min rb p ∧ o.base = rb - p ∧ o.other = ro ∧
      o.burned.2 = p - rb ∧ (o.burned.2 ≠ 0 → o.burned.1 = r.k) ∧
      o.eDed = ((p - rb : Nat) : Int) * ((s.unl r.k : Int) - (s.now : Int)) ∧
      o.wOut = (0, 0) ∧ o.fOut = (0, 0) ∧
      s'.minted = s.minted ∧ s'.burnB = s.burnB + min rb p ∧ s'.burnL = s.burnL + (p - rb) ∧
      s'.eDed = s.eDed + o.eDed ∧ s'.lp + x = s.lp ∧ s'.lk r.k + p = s.lk r.k := by
  simp only [removeLiq, Option.bind_eq_bind, Option.bind_eq_some_iff, sub?_eq_some,
    Option.pure_def] at h
  obtain ⟨⟨s1, r, p⟩, h1, lp, ⟨hlp, rfl⟩, h⟩ := h
  obtain ⟨hr, hx, hc, hp, hrem, hlk, rfl⟩ := takeW_spec h1
  dsimp only at h hlp
  have hlk' : (if r.k = r.k then s.lk r.k - p else s.lk r.k) + p = s.lk r.k := by
    rw [if_pos rfl]; omega
  have hlp' : s.lp - x + x = s.lp := by
    have : x ≤ s.lp := hlp
    omega
  refine ⟨r, p, hr, hp, hx, hc, hlp, ?_⟩
  split at h
  · rename_i hgt
    simp only [Option.some.injEq, Prod.mk.injEq] at h
    obtain ⟨rfl, rfl⟩ := h
    have e1 : min rb p = p := by omega
    have e2 : p - rb = 0 := by omega
    refine ⟨rfl, e1.symm, rfl, rfl, e2.symm, fun h => absurd rfl h, ?_, rfl, rfl, rfl, ?_, ?_,
      ?_, hlp', hlk'⟩
    · rw [e2]; simp
    · show s.burnB + p = s.burnB + min rb p; rw [e1]
    · show s.burnL = s.burnL + (p - rb); rw [e2]; rfl
    · show s.eDed = s.eDed + 0; simp
  · rename_i hle
    simp only [Option.some.injEq, Prod.mk.injEq] at h
    obtain ⟨rfl, rfl⟩ := h
    have e1 : min rb p = rb := by omega
    have hlk2 : s.lk r.k - p + p = s.lk r.k := by omega
    by_cases he : p - rb = 0
    · simp only [he, if_true]
      refine ⟨?_, ?_, ?_, ?_, ?_, ?_, ?_, ?_, ?_, ?_, ?_, ?_, ?_, ?_, ?_⟩ <;>
        first
        | trivial
        | rfl
        | exact hlp'
        | exact hlk'
        | exact hlk2
        | omega
        | (dsimp only [setW, burnLocked]; omega)
        | simp
    · simp only [he, if_false]
      refine ⟨?_, ?_, ?_, ?_, ?_, ?_, ?_, ?_, ?_, ?_, ?_, ?_, ?_, ?_, ?_⟩ <;>
        first
        | trivial
        | rfl
        | exact hlp'
        | exact hlk'
        | exact hlk2
        | omega
        | (dsimp only [setW, burnLocked]; omega)
        | simp

/-- redeeming a wrapped farm token whose proxy-farming token is a locked token -/
theorem takeF_locked_spec {s s1 : St} {f x : Nat} {mode : Mode} {t : Taken} {r : WFarm}
    (h : takeF s f x mode = some (s1, t)) (hm : mode ≠ .keep) (hr : s.wf[f]? = some r)
    (hk : r.kind = .locked) :
    t.r = r ∧ part r.pa r.fa x = some t.p ∧ 0 < x ∧ x ≤ r.circ ∧ t.k = r.pn ∧ t.q = t.p ∧
    s1.lk r.pn + t.p = s.lk r.pn ∧
    s1.minted = s.minted ∧ s1.burnB = s.burnB ∧ s1.burnL = s.burnL ∧ s1.eDed = s.eDed ∧
    s1.unl = s.unl ∧ s1.now = s.now ∧ s1.lp = s.lp ∧ s1.wl = s.wl := by
  simp only [takeF, Option.bind_eq_bind, Option.bind_eq_some_iff, Option.pure_def,
    Option.some.injEq, Prod.mk.injEq] at h
  obtain ⟨⟨s0, r0, p⟩, h0, ⟨s2, k, q⟩, hs, rfl, rfl⟩ := h
  dsimp only at hs
  obtain ⟨hr0, hx, hc, hp, _, _, _, rfl⟩ := takeF0_spec h0
  rw [hr] at hr0
  simp only [Option.some.injEq] at hr0
  subst hr0
  obtain ⟨hle, rfl, rfl, rfl⟩ := settle_locked hm hk hs
  refine ⟨rfl, hp, hx, hc, rfl, rfl, ?_, rfl, rfl, rfl, rfl, rfl, rfl, rfl, rfl⟩
  show (if r.pn = r.pn then s.lk r.pn - q else s.lk r.pn) + q = s.lk r.pn
  rw [if_pos rfl]
  have : q ≤ s.lk r.pn := hle
  omega

/-- `exitFarmProxy` of a position entered with locked tokens: what comes back, what is burned -/
theorem exitFarm_locked_spec {s s' : St} {farm f x farming : Nat} {rew : Option LkTok} {o : Out}
    {r : WFarm} (h : exitFarm s farm f x farming rew = some (s', o)) (hr : s.wf[f]? = some r)
    (hk : r.kind = .locked) :
    ∃ p, part r.pa r.fa x = some p ∧ farming ≤ x ∧ x - farming ≤ p ∧
      o.locked = (r.pn, p - (x - farming)) ∧ o.burned.2 = x - farming ∧
      (o.burned.2 ≠ 0 → o.burned.1 = r.pn) ∧
      o.eDed = ((x - farming : Nat) : Int) * ((s.unl r.pn : Int) - (s.now : Int)) ∧
      o.base = 0 ∧ o.wOut = (0, 0) ∧
      s'.minted = s.minted ∧ s'.burnB = s.burnB + (if farmIsBase r.farm = true then farming else 0) ∧
      s'.burnL = s.burnL + (x - farming) ∧ s'.eDed = s.eDed + o.eDed ∧
      s'.lk r.pn + p = s.lk r.pn := by
  simp only [exitFarm, Option.bind_eq_bind, Option.bind_eq_some_iff, req_eq_some,
    Option.pure_def] at h
  obtain ⟨_, hfx, ⟨s1, t⟩, h1, h⟩ := h
  have hm : (if x = farming then Mode.out else Mode.dissolve true) ≠ .keep := by
    split <;> simp
  obtain ⟨rfl, hp, _, _, _, _, hlk, hmi, hbb, hbl, hed, hunl, hnow, _, _⟩ :=
    takeF_locked_spec h1 hm hr hk
  dsimp only at h
  refine ⟨t.p, hp, hfx, ?_⟩
  have key : ∀ (sa : St), sa.lk = s1.lk → (learnOpt sa rew).lk t.r.pn + t.p = s.lk t.r.pn := by
    intro sa hsa; cases rew <;> simp only [learnOpt, learn, hsa] <;> exact hlk
  split at h
  · rename_i hxf
    rw [hk] at h
    simp only [Option.some.injEq, Prod.mk.injEq] at h
    obtain ⟨rfl, rfl⟩ := h
    have e0 : x - farming = 0 := by omega
    refine ⟨by omega, ?_, e0.symm, fun h => absurd rfl h, ?_, rfl, rfl, ?_, ?_, ?_, ?_, ?_⟩
    · rw [e0]; rfl
    · rw [e0]; simp
    · cases rew <;> (simp only [learnOpt, learn]; split <;> exact hmi)
    · cases rew <;> (simp only [learnOpt, learn]; split <;> simp [hbb])
    · rw [e0]; cases rew <;> (simp only [learnOpt, learn]; split <;> simp [hbl])
    · cases rew <;> (simp only [learnOpt, learn]; split <;> simp [hed])
    · apply key; split <;> rfl
  · rename_i hxf
    simp only [Option.bind_eq_bind, Option.bind_eq_some_iff, sub?_eq_some] at h
    obtain ⟨remaining, ⟨hpen, rfl⟩, h⟩ := h
    rw [hk] at h
    simp only [Option.some.injEq, Prod.mk.injEq] at h
    obtain ⟨rfl, rfl⟩ := h
    refine ⟨hpen, rfl, rfl, fun _ => rfl, ?_, rfl, rfl, ?_, ?_, ?_, ?_, ?_⟩
    · simp only [energyOf]; split <;> simp [hunl, hnow]
    · cases rew <;> (simp only [learnOpt, learn, burnLocked]; split <;> exact hmi)
    · cases rew <;> (simp only [learnOpt, learn, burnLocked]; split <;> simp [hbb])
    · cases rew <;> (simp only [learnOpt, learn, burnLocked]; split <;> simp [hbl])
    · cases rew <;> (simp only [learnOpt, learn, burnLocked, energyOf]; split <;> simp [hed, hunl, hnow])
    · apply key; simp only [burnLocked]; split <;> rfl

/-- `exitFarmProxy` of a position entered with wrapped LP tokens: without penalty the wrapped LP
    part comes back as it is; with a penalty it is replaced by a NEW wrapped LP token over the
    remaining amount that records the same locked nonce and the pro-rata locked amount of the
    remainder, the difference being burned as locked tokens (with the energy deduction) -/
theorem exitFarm_wlp_spec {s s' : St} {farm f x farming : Nat} {rew : Option LkTok} {o : Out}
    {r : WFarm} (h : exitFarm s farm f x farming rew = some (s', o)) (hr : s.wf[f]? = some r)
    (hk : r.kind = .wlp) :
    ∃ p rw, part r.pa r.fa x = some p ∧ s.wl[r.pn]? = some rw ∧ farming ≤ x ∧
      o.locked = (0, 0) ∧ o.base = 0 ∧
      (x = farming → o.wOut = (r.pn, p) ∧ o.burned = (0, 0) ∧ o.eDed = 0) ∧
      (x ≠ farming → ∃ qO qN, part rw.locked rw.total p = some qO ∧ x - farming ≤ p ∧
          part rw.locked rw.total (p - (x - farming)) = some qN ∧ qN ≤ qO ∧
          o.wOut = (s.wl.length, p - (x - farming)) ∧ o.burned.2 = qO - qN ∧
          (o.burned.2 ≠ 0 → o.burned.1 = rw.k) ∧
          o.eDed = ((qO - qN : Nat) : Int) * ((s.unl rw.k : Int) - (s.now : Int)) ∧
          s'.wl[s.wl.length]? = some ⟨p - (x - farming), rw.k, qN, p - (x - farming), 0, 0, qN⟩) := by
  simp only [exitFarm, takeF, Option.bind_eq_bind, Option.bind_eq_some_iff, req_eq_some,
    Option.pure_def, Option.some.injEq, Prod.mk.injEq] at h
  obtain ⟨_, hfx, ⟨s1, t⟩, ⟨⟨s0, r0, p⟩, h0, ⟨s2, k, q⟩, hs, rfl, rfl⟩, h⟩ := h
  dsimp only at hs h
  obtain ⟨hr0, _, _, hp, _, _, _, hs0⟩ := takeF0_spec h0
  rw [hr] at hr0
  simp only [Option.some.injEq] at hr0
  subst hr0
  have hwl0 : s0.wl = s.wl := by rw [hs0]; rfl
  have hunl0 : s0.unl = s.unl ∧ s0.now = s.now := by rw [hs0]; exact ⟨rfl, rfl⟩
  split at h
  · rename_i hxf
    rw [if_pos hxf] at hs
    obtain ⟨rw, hrw, _, _, _, _⟩ := settle_wlp_out hk hs
    rw [hwl0] at hrw
    rw [hk] at h
    simp only [Option.some.injEq, Prod.mk.injEq] at h
    obtain ⟨_, rfl⟩ := h
    exact ⟨p, rw, hp, hrw, hfx, rfl, rfl, fun _ => ⟨rfl, rfl, rfl⟩, fun h' => absurd hxf h'⟩
  · rename_i hxf
    rw [if_neg hxf] at hs
    obtain ⟨rw, hrw, _, hq, _, _, rfl, hs2⟩ := settle_wlp_dissolve hk hs
    rw [hwl0] at hrw
    simp only [Option.bind_eq_bind, Option.bind_eq_some_iff, sub?_eq_some] at h
    obtain ⟨remaining, ⟨hpen, rfl⟩, h⟩ := h
    rw [hk] at h
    simp only [Option.bind_eq_bind, Option.bind_eq_some_iff, sub?_eq_some, Option.pure_def,
      Option.some.injEq, Prod.mk.injEq] at h
    obtain ⟨rw', hrw', qN, hqN, extra, ⟨hle, rfl⟩, rfl, rfl⟩ := h
    rw [hrw] at hrw'
    simp only [Option.some.injEq] at hrw'
    subst hrw'
    refine ⟨p, rw, hp, hrw, hfx, rfl, rfl, fun h' => absurd h' hxf, fun _ => ?_⟩
    have hlen : s2.wl.length = s.wl.length := by
      rw [hs2]; simp only [setW, List.length_set]; rw [hwl0]
    refine ⟨q, qN, hq, hpen, hqN, hle, ?_, rfl, fun _ => rfl, ?_, ?_⟩
    · show ((newW _ _ _ _ _).2, _) = _
      simp only [newW]
      congr 1
      split <;> (split <;> simp only [burnLocked, hlen])
    · have hu : s2.unl = s.unl ∧ s2.now = s.now := by
        rw [hs2]; exact ⟨hunl0.1, hunl0.2⟩
      by_cases he : q - qN = 0
      · simp only [he, if_true]; simp
      · simp only [he, if_false, energyOf]
        split <;> simp [hu.1, hu.2]
    · have : ∀ (sa : St), sa.wl = s2.wl →
          (learnOpt (newW sa (p - (x - farming)) rw.k qN true).1 rew).wl[s.wl.length]? =
            some ⟨p - (x - farming), rw.k, qN, p - (x - farming), 0, 0, qN⟩ := by
        intro sa hsa
        have e : (learnOpt (newW sa (p - (x - farming)) rw.k qN true).1 rew).wl
            = sa.wl ++ [⟨p - (x - farming), rw.k, qN, p - (x - farming), 0, 0, qN⟩] := by
          cases rew <;> simp [learnOpt, learn, newW]
        rw [e, hsa, ← hlen]
        simp [List.getElem?_append_right (Nat.le_refl _)]
      apply this
      split <;> (split <;> simp only [burnLocked])

/-- `addLiquidityProxy` without merging -/
theorem addLiq_plain_spec {s s' : St} {k la oa lp ul uo : Nat} {mk : Option LkTok} {o : Out}
    (h : addLiq s k la oa [] lp ul uo mk = some (s', o)) :
    0 < la ∧ ul ≤ la ∧ uo ≤ oa ∧ o.wOut = (s.wl.length, lp) ∧ o.locked = (k, la - ul) ∧
    o.other = oa - uo ∧ o.base = 0 ∧ o.burned = (0, 0) ∧
    s'.wl = s.wl ++ [⟨lp, k, ul, lp, 0, 0, ul⟩] ∧ s'.wf = s.wf ∧
    s'.minted = s.minted + la ∧ s'.burnB = s.burnB + (la - ul) ∧ s'.burnL = s.burnL ∧
    s'.eDed = s.eDed ∧ s'.lp = s.lp + lp ∧ s'.lk = s.lk.add k ul ∧ s'.unl = s.unl ∧
    s'.now = s.now := by
  simp only [addLiq, Option.bind_eq_bind, Option.bind_eq_some_iff, req_eq_some, sub?_eq_some,
    Option.pure_def, Option.some.injEq, Prod.mk.injEq] at h
  obtain ⟨_, ⟨hla, _⟩, lb, ⟨hul, rfl⟩, ob, ⟨huo, rfl⟩, rfl, rfl⟩ := h
  exact ⟨hla, hul, huo, rfl, rfl, rfl, rfl, rfl, rfl, rfl, rfl, rfl, rfl, rfl, rfl, rfl, rfl, rfl⟩

/-- `enterFarmProxy` with locked tokens, without merging -/
theorem enterL_plain_spec {s s' : St} {farm k a : Nat} {ft : Nat × Nat} {rew : Option LkTok}
    {m : Option ((Nat × Nat) × LkTok)} {stray : List LkTok} {o : Out}
    (h : enterL s farm k a [] ft rew m stray = some (s', o)) :
    0 < a ∧ o.fOut = (s.wf.length, ft.2) ∧ o.base = 0 ∧ o.locked = (0, 0) ∧ o.burned = (0, 0) ∧
    s'.wf = s.wf ++ [⟨farm, ft.1, ft.2, .locked, k, a, ft.2, ft.2, a⟩] ∧ s'.wl = s.wl ∧
    s'.minted = s.minted + a ∧ s'.burnB = s.burnB ∧ s'.burnL = s.burnL ∧ s'.eDed = s.eDed ∧
    s'.now = s.now ∧ s'.lk = s.lk.add k a := by
  simp only [enterL, Option.bind_eq_bind, Option.bind_eq_some_iff, req_eq_some,
    Option.pure_def, Option.some.injEq, Prod.mk.injEq] at h
  obtain ⟨_, ha, rfl, rfl⟩ := h
  refine ⟨ha, ?_, rfl, rfl, rfl, ?_, ?_, ?_, ?_, ?_, ?_, ?_, ?_⟩ <;> cases rew <;> rfl

/-- the base asset never leaves through any operation but `removeLiquidityProxy` -/
theorem base_zero_of_ne_removeLiq {s s' : St} {op : Op} {o : Out} (h : step s op = some (s', o))
    (hne : ∀ w x rb ro, op ≠ .removeLiq w x rb ro) : o.base = 0 := by
  cases op with
  | removeLiq w x rb ro => exact absurd rfl (hne w x rb ro)
  | lock t => simp only [step, Option.some.injEq, Prod.mk.injEq] at h; obtain ⟨_, rfl⟩ := h; rfl
  | advance e => simp only [step, Option.some.injEq, Prod.mk.injEq] at h; obtain ⟨_, rfl⟩ := h; rfl
  | noop => simp only [step, Option.some.injEq, Prod.mk.injEq] at h; obtain ⟨_, rfl⟩ := h; rfl
  | addLiq k la oa merge lp ul uo mk =>
    simp only [step, addLiq, Option.bind_eq_bind, Option.bind_eq_some_iff, Option.pure_def] at h
    obtain ⟨_, _, lb, _, ob, _, h⟩ := h
    cases merge with
    | nil => simp only [Option.some.injEq, Prod.mk.injEq] at h; obtain ⟨_, rfl⟩ := h; rfl
    | cons a l =>
      simp only [Option.bind_eq_bind, Option.bind_eq_some_iff, Option.pure_def,
        Option.some.injEq, Prod.mk.injEq] at h
      obtain ⟨t, _, _, _, ⟨s1, sx⟩, _, _, rfl⟩ := h; rfl
  | enterL farm k a merge ft rew m stray =>
    simp only [step, enterL, Option.bind_eq_bind, Option.bind_eq_some_iff, Option.pure_def] at h
    obtain ⟨_, _, h⟩ := h
    cases merge with
    | nil => simp only [Option.some.injEq, Prod.mk.injEq] at h; obtain ⟨_, rfl⟩ := h; rfl
    | cons a l =>
      simp only [Option.bind_eq_bind, Option.bind_eq_some_iff, Option.pure_def,
        Option.some.injEq, Prod.mk.injEq] at h
      obtain ⟨⟨mf, t⟩, _, ⟨s1, sp⟩, _, _, rfl⟩ := h; rfl
  | enterW farm w a merge ft rew m stray =>
    simp only [step, enterW, Option.bind_eq_bind, Option.bind_eq_some_iff, Option.pure_def] at h
    obtain ⟨r, _, _, _, c, _, q, _, lp, _, h⟩ := h
    cases merge with
    | nil => simp only [Option.some.injEq, Prod.mk.injEq] at h; obtain ⟨_, rfl⟩ := h; rfl
    | cons a l =>
      simp only [Option.bind_eq_bind, Option.bind_eq_some_iff, Option.pure_def,
        Option.some.injEq, Prod.mk.injEq] at h
      obtain ⟨⟨mf, t⟩, _, ⟨s0, r0, q0⟩, _, ⟨s1, sp⟩, _, _, rfl⟩ := h; rfl
  | exitFarm farm f x farming rew =>
    simp only [step, exitFarm, Option.bind_eq_bind, Option.bind_eq_some_iff, Option.pure_def] at h
    obtain ⟨_, _, ⟨s1, t⟩, _, h⟩ := h
    dsimp only at h
    split at h
    · split at h <;>
        (simp only [Option.some.injEq, Prod.mk.injEq] at h; obtain ⟨_, rfl⟩ := h; rfl)
    · simp only [Option.bind_eq_bind, Option.bind_eq_some_iff] at h
      obtain ⟨remaining, _, h⟩ := h
      split at h
      · simp only [Option.some.injEq, Prod.mk.injEq] at h; obtain ⟨_, rfl⟩ := h; rfl
      · simp only [Option.bind_eq_bind, Option.bind_eq_some_iff, Option.pure_def,
          Option.some.injEq, Prod.mk.injEq] at h
        obtain ⟨rw, _, qN, _, extra, _, _, rfl⟩ := h; rfl
  | claim farm f x ft rew =>
    simp only [step, claim, Option.bind_eq_bind, Option.bind_eq_some_iff, Option.pure_def,
      Option.some.injEq, Prod.mk.injEq] at h
    obtain ⟨⟨s1, t⟩, _, _, rfl⟩ := h; rfl
  | mergeLp l t =>
    simp only [step, mergeLp, Option.bind_eq_bind, Option.bind_eq_some_iff, Option.pure_def,
      Option.some.injEq, Prod.mk.injEq] at h
    obtain ⟨_, _, ⟨s1, sx⟩, _, _, rfl⟩ := h; rfl
  | mergeFarm farm l mf t rew stray =>
    simp only [step, mergeFarm, mergeFarmCore, Option.bind_eq_bind, Option.bind_eq_some_iff,
      Option.pure_def, Option.some.injEq, Prod.mk.injEq] at h
    obtain ⟨⟨s0, o0⟩, ⟨_, _, ⟨f0, x0⟩, _, r0, _, ⟨s1, sp⟩, _, h⟩, _, rfl⟩ := h
    dsimp only at h
    split at h <;>
      (simp only [Option.some.injEq, Prod.mk.injEq] at h; obtain ⟨_, rfl⟩ := h; rfl)
  | incLp w x t =>
    simp only [step, incLp, Option.bind_eq_bind, Option.bind_eq_some_iff, Option.pure_def,
      Option.some.injEq, Prod.mk.injEq] at h
    obtain ⟨⟨s1, r, p⟩, _, _, rfl⟩ := h; rfl
  | incFarm f x t =>
    simp only [step, incFarm, Option.bind_eq_bind, Option.bind_eq_some_iff, Option.pure_def] at h
    obtain ⟨⟨s1, tk⟩, _, h⟩ := h
    dsimp only at h
    split at h <;>
      (simp only [Option.some.injEq, Prod.mk.injEq] at h; obtain ⟨_, rfl⟩ := h; rfl)

end Mx.ProxyDex
