/-
  C09: the base-asset supply counter of the energy world IS the sum of the base-asset balances
  (users, callers, token-unstake) — preserved by every operation, hence by every history.
  `sumN f N` = Σ_{a < N} f a; `N` bounds the addresses that can ever receive base tokens.
-/
import MxModel.Lemmas.EnergySupply

namespace Mx.Energy

def sumN (f : Nat → Nat) : Nat → Nat
  | 0 => 0
  | N + 1 => sumN f N + f N

theorem sumN_congr {f f' : Nat → Nat} (N : Nat) (h : ∀ a, a < N → f' a = f a) :
    sumN f' N = sumN f N := by
  induction N with
  | zero => rfl
  | succ N ih =>
    simp only [sumN]
    rw [ih (fun a ha => h a (by omega)), h N (by omega)]

/-- one balance goes up by `d` -/
theorem sumN_pt_add {f f' : Nat → Nat} {k N d : Nat} (hk : k < N) (hat : f' k = f k + d)
    (hoth : ∀ a, a ≠ k → f' a = f a) : sumN f' N = sumN f N + d := by
  induction N with
  | zero => omega
  | succ N ih =>
    simp only [sumN]
    rcases Nat.eq_or_lt_of_le (Nat.le_of_lt_succ hk) with heq | hlt
    · subst heq
      rw [sumN_congr k (fun a ha => hoth a (by omega)), hat]; omega
    · rw [ih hlt, hoth N (by omega)]; omega

/-- one balance goes down by `d` -/
theorem sumN_pt_sub {f f' : Nat → Nat} {k N d : Nat} (hk : k < N) (hat : f' k + d = f k)
    (hoth : ∀ a, a ≠ k → f' a = f a) : sumN f' N + d = sumN f N :=
  (sumN_pt_add hk hat.symm (fun a ha => (hoth a ha).symm)).symm

/-- the supply counter is the sum of the balances, and nobody beyond `N` holds base tokens -/
structure BaseInv (s : St) (N B : Nat) : Prop where
  sum : s.baseSupply = sumN s.base N
  out : ∀ a, N ≤ a → s.base a = 0
  binit : s.baseInit = B

theorem SameGhost.init_eq {s s1 : St} (g : SameGhost s s1) : s1.baseInit = s.baseInit := g.1

theorem SameGhost.base_eq {s s1 : St} (g : SameGhost s s1) : s1.base = s.base :=
  g.2.2.2.2.2.2.2.2.2.2.2.1

theorem SameGhost.supply_eq {s s1 : St} (g : SameGhost s s1) : s1.baseSupply = s.baseSupply :=
  g.2.1

theorem binv_same {s s' : St} {N B : Nat} (hi : BaseInv s N B) (hb : s'.base = s.base)
    (hs : s'.baseSupply = s.baseSupply) (h0 : s'.baseInit = s.baseInit) : BaseInv s' N B :=
  ⟨by rw [hb, hs]; exact hi.sum, fun a ha => by rw [hb]; exact hi.out a ha, h0.trans hi.binit⟩

/-- `d` base tokens are minted to `k` (on top of a state `s1` with the balances of `s`) -/
theorem binv_mint {s s1 s' : St} {N B k d : Nat} (hi : BaseInv s N B) (hk : k < N)
    (gb : s1.base = s.base) (gs : s1.baseSupply = s.baseSupply) (g0 : s1.baseInit = s.baseInit)
    (hb : s'.base = upd s1.base k (s1.base k + d)) (hs : s'.baseSupply = s1.baseSupply + d)
    (h0 : s'.baseInit = s1.baseInit) :
    BaseInv s' N B := by
  have h1 : sumN s'.base N = sumN s.base N + d := by
    refine sumN_pt_add hk ?_ ?_
    · rw [hb, upd_same, gb]
    · intro a ha; rw [hb, upd_other _ _ ha, gb]
  refine ⟨by rw [hs, gs, h1, hi.sum], fun a ha => ?_, (h0.trans g0).trans hi.binit⟩
  rw [hb, upd_other _ _ (by omega), gb]; exact hi.out a ha

/-- who can be paid base tokens by an operation: the caller of `unlockTokens` and of
    `claimUnlockedTokens` (early unlock pays token-unstake) -/
def Op.PayeeBelow (N : Nat) : Op → Prop
  | .unlock c _ => c < N
  | .claim c => c < N
  | _ => True

instance (N : Nat) (op : Op) : Decidable (op.PayeeBelow N) := by
  cases op <;> simp only [Op.PayeeBelow] <;> exact inferInstance

theorem cancelEntries_base (qs : List UEntry) {s s2 : St} {c : Nat} {e e2 : Entry}
    (h : cancelEntries s c e qs = some (s2, e2)) :
    s2.base UNSTAKE + (qs.map (·.unlocked)).sum = s.base UNSTAKE ∧
    ∀ a, a ≠ UNSTAKE → s2.base a = s.base a := by
  induction qs generalizing s e with
  | nil =>
    simp only [cancelEntries, Option.some.injEq, Prod.mk.injEq] at h
    obtain ⟨rfl, _⟩ := h
    simp
  | cons q qs ih =>
    simp only [cancelEntries, Option.bind_eq_bind, Option.bind_eq_some_iff, sub?_eq_some] at h
    obtain ⟨u, _, s1, hdeb, b, ⟨hb, rfl⟩, bs, ⟨hbs, rfl⟩, pen, ⟨hpen, rfl⟩, pp, ⟨hpp, rfl⟩, hrec⟩ := h
    obtain ⟨_, rfl⟩ := debit_spec hdeb
    obtain ⟨a1, a2⟩ := ih hrec
    simp only [St.credit] at a1 a2 hb
    rw [upd_same] at a1
    refine ⟨?_, ?_⟩
    · simp only [List.map_cons, List.sum_cons]; omega
    · intro a ha; rw [a2 a ha, upd_other _ _ ha]

theorem step_binv {s s' : St} {op : Op} {o : Out} {N B : Nat} (hi : BaseInv s N B) (hU : UNSTAKE < N)
    (hw : op.PayeeBelow N) (h : step s op = some (s', o)) : BaseInv s' N B := by
  cases op <;> simp only [step] at h
  case lock c amt ep d =>
    obtain ⟨_, _, _, _, hpos, h6, h7, _, rfl⟩ := lockTokens_spec h
    have hc : c < N := by
      by_cases hc : c < N
      · exact hc
      · have := hi.out c (by omega); omega
    have h1 : sumN (upd s.base c (s.base c - amt)) N + amt = sumN s.base N :=
      sumN_pt_sub hc (by rw [upd_same]; omega) (fun a ha => upd_other _ _ ha)
    refine ⟨?_, fun a ha => ?_, ?_⟩
    · show s.baseSupply - amt = sumN (upd s.base c (s.base c - amt)) N
      have := hi.sum; omega
    · show upd s.base c (s.base c - amt) a = 0
      rw [upd_other _ _ (by omega)]; exact hi.out a ha
    · show (s.ensureNonce (lockUnlock s ep)).baseInit = B
      rw [(ensureNonce_ghost s _).init_eq]; exact hi.binit
  case extend c n amt epochs dest =>
    simp only [extendLock, Option.bind_eq_bind, Option.bind_eq_some_iff, req_eq_some,
      Option.pure_def, Option.some.injEq, Prod.mk.injEq] at h
    obtain ⟨_, _, _, _, _, _, _, _, _, _, old, _, s0, hdeb, _, _, e0, _, _, _, rfl, _⟩ := h
    have g := (debit_ghost hdeb).trans (ensureNonce_ghost s0 (startOfMonth (s.epoch + epochs)))
    exact binv_same hi g.base_eq g.supply_eq g.init_eq
  case unlock c ps =>
    simp only [unlockTokens, Option.bind_eq_bind, Option.bind_eq_some_iff, req_eq_some, sub?_eq_some,
      Option.pure_def, Option.some.injEq, Prod.mk.injEq] at h
    obtain ⟨_, _, _, _, ⟨s1, e, tot⟩, hp, circ, _, rfl, _⟩ := h
    have g := (unlockPays_ghost _ hp).1
    exact binv_mint hi hw g.base_eq g.supply_eq g.init_eq rfl rfl rfl
  case merge c orig ps =>
    cases ps with
    | nil => simp [mergeTokens] at h
    | cons p rest =>
      obtain ⟨n1, a1⟩ := p
      simp only [mergeTokens, Option.bind_eq_bind, Option.bind_eq_some_iff, req_eq_some,
        Option.pure_def, Option.some.injEq, Prod.mk.injEq] at h
      obtain ⟨_, _, _, _, _, _, u1, _, s1, hdeb, _, _, e1, _, ⟨s2, e2, accE, accW⟩, hp, _, _, _, _,
        rfl, _⟩ := h
      have g := ((debit_ghost hdeb).trans (mergePays_ghost rest hp).1).trans
        (ensureNonce_ghost s2 (upperEstimate s.opts s.epoch accE))
      exact binv_same hi g.base_eq g.supply_eq g.init_eq
  case unlockEarly c n amt =>
    simp only [unlockEarly, Option.bind_eq_bind, Option.bind_eq_some_iff, req_eq_some, sub?_eq_some,
      Option.pure_def, Option.some.injEq, Prod.mk.injEq] at h
    obtain ⟨_, _, u, _, s1, hdeb, _, _, e, _, pen, _, _, _, _, _, circ, _, rfl, _⟩ := h
    exact binv_mint (s1 := s) hi hU rfl rfl rfl rfl rfl (debit_ghost hdeb).init_eq
  case reduce c n amt epochs =>
    simp only [reduceLock, Option.bind_eq_bind, Option.bind_eq_some_iff, req_eq_some, sub?_eq_some,
      Option.pure_def, Option.some.injEq, Prod.mk.injEq] at h
    obtain ⟨_, _, _, _, _, _, u, _, s1, hdeb, _, _, newEp, _, _, _, e, _, pen, _, _, _, _, _, _, _,
      circ, _, rfl, _⟩ := h
    have g := (debit_ghost hdeb).trans (ensureNonce_ghost s1 (s.epoch + newEp))
    exact binv_same hi g.base_eq g.supply_eq g.init_eq
  case lockVirtual c amt epochs d ea =>
    simp only [lockVirtual, Option.bind_eq_bind, Option.bind_eq_some_iff, req_eq_some,
      Option.pure_def, Option.some.injEq, Prod.mk.injEq] at h
    obtain ⟨_, _, _, _, _, _, _, _, _, _, _, _, rfl, _⟩ := h
    have g := ensureNonce_ghost s (startOfMonth (s.epoch + epochs))
    exact binv_same hi g.base_eq g.supply_eq g.init_eq
  case claim c =>
    simp only [claimUnlocked, Option.bind_eq_bind, Option.bind_eq_some_iff, req_eq_some,
      Option.pure_def, Option.some.injEq, Prod.mk.injEq] at h
    obtain ⟨_, _, ⟨s1, paid⟩, hp, rfl, _⟩ := h
    obtain ⟨a0, a2, _, _, _, _, _, _, _, _, _, _, _, a14, a15, _⟩ := claimEntries_supply _ hp
    have hc : c < N := hw
    have h1 : sumN s1.base N + paid = sumN s.base N := sumN_pt_sub hU a14 a15
    have h2 : sumN (upd s1.base c (s1.base c + paid)) N = sumN s1.base N + paid :=
      sumN_pt_add hc (by rw [upd_same]) (fun a ha => upd_other _ _ ha)
    refine ⟨?_, fun a ha => ?_, ?_⟩
    · show s1.baseSupply = sumN (upd s1.base c (s1.base c + paid)) N
      rw [h2, h1, a2]; exact hi.sum
    · show upd s1.base c (s1.base c + paid) a = 0
      rw [upd_other _ _ (by omega), a15 a (by omega)]; exact hi.out a ha
    · show s1.baseInit = B
      rw [a0]; exact hi.binit
  case cancel c =>
    simp only [cancelUnbond, Option.bind_eq_bind, Option.bind_eq_some_iff, req_eq_some,
      Option.pure_def, Option.some.injEq, Prod.mk.injEq] at h
    obtain ⟨_, _, ⟨s1, e⟩, hp, _, _, rfl, _⟩ := h
    obtain ⟨_, a0, _, _, _, _, _, _, a8, _⟩ := cancelEntries_supply _ hp
    obtain ⟨b1, b2⟩ := cancelEntries_base _ hp
    have h1 := sumN_pt_sub hU b1 b2
    refine ⟨?_, fun a ha => ?_, ?_⟩
    · show s1.baseSupply = sumN s1.base N
      have := hi.sum; omega
    · show s1.base a = 0
      rw [b2 a (by omega)]; exact hi.out a ha
    · show s1.baseInit = B
      rw [a0]; exact hi.binit
  case lockFunds c r ps =>
    simp only [lockFunds, Option.bind_eq_bind, Option.bind_eq_some_iff, req_eq_some,
      Option.pure_def, Option.some.injEq, Prod.mk.injEq] at h
    obtain ⟨_, _, _, _, ⟨s1, e⟩, hp, _, _, rfl, _⟩ := h
    have g := deductPays_ghost _ hp
    exact binv_same hi g.base_eq g.supply_eq g.init_eq
  case withdraw c sd =>
    simp only [withdraw, Option.bind_eq_bind, Option.bind_eq_some_iff, req_eq_some,
      Option.pure_def, Option.some.injEq, Prod.mk.injEq] at h
    obtain ⟨_, _, x, _, _, _, ⟨s1, e⟩, hp, _, _, rfl, _⟩ := h
    have g := addPays_ghost _ hp
    exact binv_same hi g.base_eq g.supply_eq g.init_eq
  case cancelTransfer sd r =>
    simp only [cancelTransfer, Option.bind_eq_bind, Option.bind_eq_some_iff, req_eq_some,
      Option.pure_def, Option.some.injEq, Prod.mk.injEq] at h
    obtain ⟨x, _, ⟨s1, e⟩, hp, _, _, rfl, _⟩ := h
    have g := addPays_ghost _ hp
    exact binv_same hi g.base_eq g.supply_eq g.init_eq
  case wrap c n amt =>
    simp only [wrap, Option.bind_eq_bind, Option.bind_eq_some_iff, req_eq_some,
      Option.pure_def, Option.some.injEq, Prod.mk.injEq] at h
    obtain ⟨⟨s1, e⟩, hp, _, _, rfl, _⟩ := h
    have g := (deductPays_ghost _ hp).trans (ensureWNonce_ghost s1 n)
    exact binv_same hi g.base_eq g.supply_eq g.init_eq
  case unwrap c wn amt =>
    simp only [unwrap, Option.bind_eq_bind, Option.bind_eq_some_iff, req_eq_some, sub?_eq_some,
      Option.pure_def, Option.some.injEq, Prod.mk.injEq] at h
    obtain ⟨n, _, wb, _, ⟨s1, e⟩, hp, _, _, rfl, _⟩ := h
    have g := addPays_ghost _ hp
    exact binv_same hi g.base_eq g.supply_eq g.init_eq
  case xferWrapped c dst wn amt =>
    simp only [xferWrapped, Option.bind_eq_bind, Option.bind_eq_some_iff, req_eq_some, sub?_eq_some,
      Option.pure_def, Option.some.injEq, Prod.mk.injEq] at h
    obtain ⟨_, _, _, _, wb, _, rfl, _⟩ := h
    exact binv_same hi rfl rfl rfl
  case cfg op =>
    simp only [Option.map_eq_some_iff, Prod.mk.injEq] at h
    obtain ⟨s1, h1, rfl, _⟩ := h
    obtain ⟨g, _⟩ := cfg_ghost h1
    exact binv_same hi g.base_eq g.supply_eq g.init_eq
  case advance e =>
    split at h
    · simp only [Option.some.injEq, Prod.mk.injEq] at h
      obtain ⟨rfl, _⟩ := h
      exact binv_same hi rfl rfl rfl
    · simp at h

/-- Σ of the initial balances: `users` accounts with `funds` each -/
theorem sumN_init (u f N : Nat) :
    sumN (fun a => if 1 ≤ a ∧ a ≤ u then f else 0) N = min u (N - 1) * f := by
  induction N with
  | zero => simp [sumN]
  | succ N ih =>
    simp only [sumN, ih]
    by_cases h1 : 1 ≤ N ∧ N ≤ u
    · simp only [h1, and_self, if_true]
      obtain ⟨k, rfl⟩ : ∃ k, N = k + 1 := ⟨N - 1, by omega⟩
      have e1 : min u (k + 1 - 1) = k := by omega
      have e2 : min u (k + 1 + 1 - 1) = k + 1 := by omega
      rw [e1, e2, Nat.succ_mul]
    · simp only [h1, if_false, Nat.add_zero]
      have : min u (N - 1) = min u (N + 1 - 1) := by omega
      rw [this]

theorem init_binv (c : Cfg) {N : Nat} (hN : c.users < N) :
    BaseInv (init c) N (c.users * c.funds) := by
  refine ⟨?_, fun a ha => ?_, rfl⟩
  · show c.users * c.funds = sumN (fun a => if 1 ≤ a ∧ a ≤ c.users then c.funds else 0) N
    rw [sumN_init]
    have : min c.users (N - 1) = c.users := by omega
    rw [this]
  · show (if 1 ≤ a ∧ a ≤ c.users then c.funds else 0) = 0
    have : ¬ (1 ≤ a ∧ a ≤ c.users) := by omega
    simp [this]

theorem run_binv (ops : List Op) {s : St} {N B : Nat} (hi : BaseInv s N B) (hU : UNSTAKE < N)
    (hw : ∀ op ∈ ops, op.PayeeBelow N) : BaseInv (run s ops) N B := by
  induction ops generalizing s with
  | nil => simpa [run] using hi
  | cons op ops ih =>
    simp only [run, List.foldl_cons]
    have hw' : ∀ o ∈ ops, o.PayeeBelow N := fun o ho => hw o (by simp [ho])
    cases hst : step s op with
    | none => exact ih hi hw'
    | some r =>
      obtain ⟨s1, o⟩ := r
      exact ih (step_binv hi hU (hw op (by simp)) hst) hw'

end Mx.Energy
