/-
  Fees collector: the denominator of a closed week.  `closeSum w s ops acc` walks the history and
  remembers Σ_participants (recorded energy decayed to `w`) as it was in the LAST state in which `w`
  was the running global week (`lastGlobalUpdateWeek = w`); the stored `totalEnergyForWeek(w)` is
  that value for as long as the week is claimable.
-/
import MxModel.Lemmas.FeesDeposit

namespace Mx.Fees

open Mx.Weekly

/-- Σ of the recorded energies decayed to week `w`, taken in the last state of the history
    (started in `s`) in which `w` was the last globally updated week; `acc` if there is none -/
def closeSum (w : Nat) : St → List Op → Nat → Nat
  | s, [], acc => closeAcc s.w acc w
  | s, op :: ops, acc => closeSum w (next s op) ops (closeAcc s.w acc w)

theorem claimCore_EStep {s s' : St} {orig : Nat} {o : Out} (hI : GInv s.w)
    (h : claimCore s orig = some (s', o)) : EStep s.w s'.w := by
  obtain ⟨W, r, hW, hc, _⟩ := claimCore_spec h
  exact claimMulti_EStep feesRewards_frame (weekOf_pos hW) hI hc

theorem next_EStep {s : St} (hI : GInv s.w) (op : Op) : EStep s.w (next s op).w := by
  cases hs : step s op with
  | none => rw [next_of_none hs]; exact EStep.refl _
  | some r =>
    rw [next_of_some hs]
    have hs' : step s op = some (r.1, r.2) := by rw [hs]
    cases hcu : claimUser op with
    | some u => exact claimCore_EStep hI (step_of_claimUser hcu hs')
    | none =>
      by_cases hue : ∃ u, op = .updateEnergy u
      · obtain ⟨u, rfl⟩ := hue
        obtain ⟨W, g, hW, hg, hr⟩ := step_updateEnergy hs'
        rw [hr]
        exact updateEnergyForUser_EStep (weekOf_pos hW) hI hg
      · have hne : ∀ u, op ≠ .updateEnergy u := fun u hu => hue ⟨u, hu⟩
        rw [(step_other hcu hne hs').1]
        exact EStep.refl _

/-- **denominator of a closed week, generalised for the induction** -/
theorem closeSum_exact_from (w : Nat) (ops : List Op) : ∀ {s : St} {acc : Nat},
    AllInv s → CloseInv s.w acc w →
    (run s ops).w.totalEnergy w = closeSum w s ops acc ∨
      ((run s ops).w.totalEnergy w = 0 ∧ w + 4 < (run s ops).w.lastGlobalUpdateWeek) := by
  induction ops with
  | nil => intro s acc hI hC; exact hC.read hI.w.1
  | cons op ops ih =>
    intro s acc hI hC
    rw [run_cons]
    simp only [closeSum]
    exact ih (next_AllInv hI op) (hC.step hI.w.1 (next_EStep hI.w.1 op))

theorem init_CloseInv (epoch lockEpochs : Nat) (known : List Tok) (contracts whitelist : List Nat)
    (w : Nat) : CloseInv (init epoch lockEpochs known contracts whitelist).w 0 w :=
  ⟨fun _ => rfl, fun h => absurd h (Nat.not_lt_zero _)⟩

end Mx.Fees
