/-
  C13 helpers, part 7: `get_price_observation` is exact in all four cases; weighted amounts;
  the price views; the query guards.
-/
import MxModel.Lemmas.SafePriceBin
import MxModel.Lemmas.SafePriceInv

namespace Mx.SafePrice
open Mx Mx.Pair

/-- the observation the contract WOULD hold for round `q` had it recorded every round:
    the oldest retained one plus the start-of-round reserves of every round since -/
def ideal (log : Log) (old : Obs) (q : Nat) : Obs :=
  ⟨old.acc1 + rsum (l1 log) old.round q, old.acc2 + rsum (l2 log) old.round q,
   old.accS + rsum (lS log) old.round q, old.w + (q - old.round), q⟩

theorem Tele.eq_ideal {log : Log} {old o : Obs} (h : Tele log old o) :
    o = ideal log old o.round := by
  obtain ⟨_, hw, h1, h2, hS, _⟩ := h
  cases o
  simp only [ideal] at *
  simp [*]

theorem nth_mem {p : SP} {i : Nat} (h1 : 1 ≤ i) (h2 : i ≤ p.obs.length) : nth p i ∈ p.obs := by
  rw [nth_eq_getElem h1 h2]
  exact List.getElem_mem _

/-- **extrapolation**: simulating an observation after the newest one from the current
    reserves telescopes, provided every round since started with those reserves -/
theorem next_tele {log : Log} {last : Obs} {q r1 r2 S : Nat} (hr0 : last.round ≠ 0)
    (hq : last.round < q) (hpos : 0 < r1 ∧ 0 < r2 ∧ 0 < S)
    (hcur : ∀ k, last.round < k → k ≤ q → log k = ⟨r1, r2, S⟩) :
    Tele log last (last.next q r1 r2 S) := by
  have c1 : rsum (l1 log) last.round q = (q - last.round) * r1 :=
    rsum_const _ (fun k a b => by simp only [l1, hcur k a b])
  have c2 : rsum (l2 log) last.round q = (q - last.round) * r2 :=
    rsum_const _ (fun k a b => by simp only [l2, hcur k a b])
  have c3 : rsum (lS log) last.round q = (q - last.round) * S :=
    rsum_const _ (fun k a b => by simp only [lS, hcur k a b])
  refine ⟨?_, ?_, ?_, ?_, ?_, fun k a b => ?_⟩ <;>
    simp only [Obs.next, hr0, if_false] at *
  · omega
  · rw [c1]
  · rw [c2]
  · rw [c3]
  · rw [hcur k a b]; exact hpos

/-- **interpolation is exact**: between two observations recorded one right after the other
    the contract's weighted mean of the two accumulators IS the accumulator of round `q` -/
theorem interp_tele {log : Log} {L R : Obs} (h : Link log L R) {q : Nat} (h1 : L.round < q)
    (h2 : q < R.round) : ∃ o, interp L R q = some o ∧ o.round = q ∧ Tele log L o := by
  have hc := h.const
  obtain ⟨g1, g2, g3⟩ := h
  obtain ⟨_, _, _, f1, f2, f3⟩ := g3 R.round g1 (Nat.le_refl _)
  have c1 : rsum (l1 log) L.round q = (q - L.round) * (log R.round).r1 :=
    rsum_const _ (fun k a b => (hc k a (by omega)).1)
  have c2 : rsum (l2 log) L.round q = (q - L.round) * (log R.round).r2 :=
    rsum_const _ (fun k a b => (hc k a (by omega)).2.1)
  have c3 : rsum (lS log) L.round q = (q - L.round) * (log R.round).S :=
    rsum_const _ (fun k a b => (hc k a (by omega)).2.2)
  unfold interp
  rw [sub?_of_le (by omega), sub?_of_le (by omega)]
  simp only [Option.bind_eq_bind, Option.bind_some]
  rw [req_of (by omega), sub?_of_le (by omega)]
  simp only [Option.bind_some, Option.pure_def]
  refine ⟨_, rfl, rfl, ?_⟩
  refine ⟨by simp only []; omega, by simp only []; omega, ?_, ?_, ?_, fun k a b => ?_⟩
  · simp only []
    rw [f1, interp_kernel _ _ _ _ _ h1 h2, c1]
  · simp only []
    rw [f2, interp_kernel _ _ _ _ _ h1 h2, c2]
  · simp only []
    rw [f3, interp_kernel _ _ _ _ _ h1 h2, c3]
  · simp only [] at b
    obtain ⟨p1, p2, p3, _⟩ := g3 k a (by omega)
    exact ⟨p1, p2, p3⟩

/-- **lookup is exact** in all four cases (newest / after the newest / stored / between two
    stored observations, including across the wrap seam): for every round inside the retained
    range the view returns the ideal observation of that round -/
theorem lookup_exact {g : G} (hi : RingInv g) {old : Obs} (hold : oldest g.s.sp = some old)
    {q : Nat} (h1 : old.round ≤ q) (h2 : q ≤ g.s.round) :
    lookup g.s q = some (ideal g.log old q) := by
  obtain ⟨hpair, hshape, hlinked, hbnd, hacc, hlast, hlive, hcur⟩ := hi
  obtain ⟨hne, io, io1, io2, hpos0, hold', hio⟩ := oldest_spec hshape hold
  have hc1 := hshape.curPos hne
  have hc2 := hshape.curLe
  have hlastn := last_nth hshape hne
  have htele : ∀ i, 1 ≤ i → i ≤ g.s.sp.obs.length → Tele g.log old (nth g.s.sp i) := by
    intro i i1 i2
    rw [hold']
    by_cases hp : pos g.s.sp i = 0
    · rw [nth_eq_of_pos hc2 i1 i2 io1 io2 (by omega)]; exact Tele.refl _ _
    · exact (ring_tele hc2 hlinked io1 io2 i1 i2 (by omega)).1
  have hlastT := htele g.s.sp.cur hc1 hc2
  rw [← hlastn] at hlastT
  have hold1 : 1 ≤ old.round := by
    rw [hold']; exact (hbnd _ (nth_mem io1 io2)).1
  unfold lookup
  rw [req_of hne, get?_some hc1 hc2, ← hlastn]
  simp only [Option.bind_eq_bind, Option.bind_some, Option.pure_def]
  by_cases e1 : g.s.sp.last.round = q
  · rw [if_pos e1, ← e1]
    exact congrArg some hlastT.eq_ideal
  · rw [if_neg e1]
    by_cases e2 : g.s.sp.last.round < q
    · rw [if_pos e2, req_of h2]
      simp only [Option.bind_some]
      have hr0 : g.s.sp.last.round ≠ 0 := by
        have := (hbnd _ (last_mem hshape hne)).1; omega
      have ht := hlastT.trans (next_tele hr0 e2 (hlive hne)
        (fun k a b => hcur hne k a (by omega)))
      exact congrArg some ht.eq_ideal
    · rw [if_neg e2]
      obtain ⟨o, si, hbs, hres⟩ := binSearch_spec hshape (sorted_of_linked hlinked) hold h1
        (by omega : q < g.s.sp.last.round)
      rw [hbs]
      simp only [Option.bind_some]
      rcases hres with ⟨r1, r2, r3, r4⟩ | ⟨r1, iL, iR, a1, a2, b1, b2, hp, hl, hr, hn⟩
      · rw [if_pos (by omega)]
        have := (htele si r3 r4).eq_ideal
        rw [← r1, r2] at this
        exact congrArg some this
      · rw [r1, if_neg (by simp [Obs.zero])]
        unfold interpolate
        rw [hn]
        simp only [Option.bind_eq_bind, Option.bind_some]
        obtain ⟨o', ho1, ho2, ho3⟩ := interp_tele (ring_link hc2 hlinked a1 a2 b1 b2 hp) hl hr
        rw [ho1]
        have := ((htele iL a1 a2).trans ho3).eq_ideal
        rw [ho2] at this
        exact congrArg some this

end Mx.SafePrice
