/-
  Registry lemmas for the router model: `lookup` / `erase` / `getPair`, the uniqueness
  predicates, and `check_is_pair_sc`.
-/
import MxModel.Core.Router

namespace Mx.Router

/-! ### point updates -/

@[simp] theorem upd_same {β : Type} (f : Nat → β) (k : Nat) (v : β) : upd f k v k = v := by
  simp [upd]

theorem upd_other {β : Type} (f : Nat → β) {k x : Nat} (v : β) (h : x ≠ k) : upd f k v x = f x := by
  simp [upd, h]

theorem upd_apply {β : Type} (f : Nat → β) (k x : Nat) (v : β) :
    upd f k v x = if x = k then v else f x := rfl

/-! ### lookup / erase -/

theorem lookup_some_mem {m : Reg} {k : Tok × Tok} {a : Addr} (h : lookup m k = some a) :
    (k, a) ∈ m := by
  induction m with
  | nil => simp [lookup] at h
  | cons e m ih =>
    obtain ⟨k', a'⟩ := e
    simp only [lookup] at h
    split at h
    · rename_i hk
      simp only [Option.some.injEq] at h
      subst hk; subst h
      exact List.mem_cons_self
    · exact List.mem_cons_of_mem _ (ih h)

theorem lookup_none_iff {m : Reg} {k : Tok × Tok} : lookup m k = none ↔ ∀ e ∈ m, e.1 ≠ k := by
  induction m with
  | nil => simp [lookup]
  | cons e m ih =>
    obtain ⟨k', a'⟩ := e
    simp only [lookup]
    split
    · rename_i hk
      simp [hk]
    · rename_i hk
      simp [ih, hk]

theorem lookup_append (m : Reg) (k k' : Tok × Tok) (a : Addr) :
    lookup (m ++ [(k', a)]) k =
      match lookup m k with
      | some x => some x
      | none => if k' = k then some a else none := by
  induction m with
  | nil => simp [lookup]
  | cons e m ih =>
    obtain ⟨k2, a2⟩ := e
    simp only [List.cons_append, lookup]
    split
    · rfl
    · exact ih

theorem mem_erase {m : Reg} {k : Tok × Tok} {e : (Tok × Tok) × Addr} :
    e ∈ erase m k ↔ e ∈ m ∧ e.1 ≠ k := by
  induction m with
  | nil => simp [erase]
  | cons f m ih =>
    obtain ⟨k', a'⟩ := f
    simp only [erase]
    split
    · rename_i hk
      subst hk
      rw [ih]
      constructor
      · rintro ⟨h1, h2⟩; exact ⟨List.mem_cons_of_mem _ h1, h2⟩
      · rintro ⟨h1, h2⟩
        rcases List.mem_cons.mp h1 with h | h
        · subst h; exact absurd rfl h2
        · exact ⟨h, h2⟩
    · rename_i hk
      simp only [List.mem_cons, ih]
      constructor
      · rintro (h | ⟨h1, h2⟩)
        · subst h; exact ⟨Or.inl rfl, hk⟩
        · exact ⟨Or.inr h1, h2⟩
      · rintro ⟨h | h, h2⟩
        · exact Or.inl h
        · exact Or.inr ⟨h, h2⟩

theorem erase_sublist (m : Reg) (k : Tok × Tok) : (erase m k).Sublist m := by
  induction m with
  | nil => simp [erase]
  | cons f m ih =>
    obtain ⟨k', a'⟩ := f
    simp only [erase]
    split
    · exact List.Sublist.cons _ ih
    · exact List.Sublist.cons_cons _ ih

theorem lookup_erase_self (m : Reg) (k : Tok × Tok) : lookup (erase m k) k = none := by
  rw [lookup_none_iff]
  intro e he
  exact (mem_erase.mp he).2

theorem lookup_erase_other (m : Reg) {k k' : Tok × Tok} (h : k' ≠ k) :
    lookup (erase m k) k' = lookup m k' := by
  induction m with
  | nil => simp [erase]
  | cons f m ih =>
    obtain ⟨k2, a2⟩ := f
    simp only [erase]
    split
    · rename_i hk
      subst hk
      simp only [lookup]
      rw [if_neg (Ne.symm h)]
      exact ih
    · simp only [lookup]
      split
      · rfl
      · exact ih

/-! ### uniqueness predicates -/

/-- two registry keys name the same unordered token pair -/
def sameUnordered (k k' : Tok × Tok) : Prop := k = k' ∨ k = (k'.2, k'.1)

instance (k k' : Tok × Tok) : Decidable (sameUnordered k k') := by
  unfold sameUnordered; exact inferInstance

theorem sameUnordered_symm {k k' : Tok × Tok} (h : sameUnordered k k') : sameUnordered k' k := by
  obtain ⟨a, b⟩ := k
  obtain ⟨c, d⟩ := k'
  rcases h with h | h
  · exact Or.inl h.symm
  · simp only [Prod.mk.injEq] at h
    exact Or.inr (by simp [h.1, h.2])

/-- at most one registry entry per unordered token pair -/
def Uniq (m : Reg) : Prop := m.Pairwise (fun e f => ¬ sameUnordered e.1 f.1)

/-- no two registry entries share an address -/
def AddrUniq (m : Reg) : Prop := m.Pairwise (fun e f => e.2 ≠ f.2)

theorem pairwise_mem_mem {α : Type} {R : α → α → Prop} {l : List α} (h : l.Pairwise R)
    (hs : ∀ a b, R a b → R b a) {e f : α} (he : e ∈ l) (hf : f ∈ l) (hne : e ≠ f) : R e f := by
  induction l with
  | nil => cases he
  | cons x l ih =>
    rw [List.pairwise_cons] at h
    rcases List.mem_cons.mp he with he1 | he1
    · rcases List.mem_cons.mp hf with hf1 | hf1
      · exact absurd (he1.trans hf1.symm) hne
      · rw [he1]; exact h.1 _ hf1
    · rcases List.mem_cons.mp hf with hf1 | hf1
      · rw [hf1]; exact hs _ _ (h.1 _ he1)
      · exact ih h.2 he1 hf1

/-- with `Uniq`, two entries whose keys name the same unordered pair are the same entry -/
theorem Uniq.eq_of_same {m : Reg} (h : Uniq m) {e f : (Tok × Tok) × Addr} (he : e ∈ m)
    (hf : f ∈ m) (hs : sameUnordered e.1 f.1) : e = f := by
  by_cases hne : e = f
  · exact hne
  · exact absurd hs (pairwise_mem_mem h (fun a b hab hba => hab (sameUnordered_symm hba)) he hf hne)

theorem Uniq.lookup_iff {m : Reg} (h : Uniq m) {k : Tok × Tok} {a : Addr} :
    lookup m k = some a ↔ (k, a) ∈ m := by
  constructor
  · exact lookup_some_mem
  · intro hm
    cases hl : lookup m k with
    | none => exact absurd rfl (lookup_none_iff.mp hl _ hm)
    | some x =>
      have := h.eq_of_same (lookup_some_mem hl) hm (Or.inl rfl)
      simp only [Prod.mk.injEq, true_and] at this
      rw [this]

theorem Uniq.sublist {m m' : Reg} (h : Uniq m) (hs : m'.Sublist m) : Uniq m' :=
  List.Pairwise.sublist hs h

theorem AddrUniq.sublist {m m' : Reg} (h : AddrUniq m) (hs : m'.Sublist m) : AddrUniq m' :=
  List.Pairwise.sublist hs h

/-! ### getPair -/

/-- all stored addresses are non-zero -/
def NonZero (m : Reg) : Prop := ∀ e ∈ m, e.2 ≠ 0

theorem getPair_eq_zero_iff {m : Reg} (hz : NonZero m) {a b : Tok} :
    getPair m a b = 0 ↔ lookup m (a, b) = none ∧ lookup m (b, a) = none := by
  unfold getPair
  cases h1 : lookup m (a, b) with
  | some x =>
    have hx : x ≠ 0 := hz _ (lookup_some_mem h1)
    simp [hx]
  | none =>
    cases h2 : lookup m (b, a) with
    | some y =>
      have hy : y ≠ 0 := hz _ (lookup_some_mem h2)
      simp [hy]
    | none => simp

/-- `getPair` does not depend on the order of its arguments once the registry has at most
    one entry per unordered pair -/
theorem getPair_comm {m : Reg} (hu : Uniq m) (hz : NonZero m) (a b : Tok) :
    getPair m a b = getPair m b a := by
  unfold getPair
  cases h1 : lookup m (a, b) with
  | none =>
    cases h2 : lookup m (b, a) with
    | none => simp
    | some y =>
      have hy : y ≠ 0 := hz _ (lookup_some_mem h2)
      simp [hy]
  | some x =>
    have hx : x ≠ 0 := hz _ (lookup_some_mem h1)
    cases h2 : lookup m (b, a) with
    | none => simp [hx]
    | some y =>
      have hy : y ≠ 0 := hz _ (lookup_some_mem h2)
      have := hu.eq_of_same (lookup_some_mem h1) (lookup_some_mem h2) (Or.inr rfl)
      simp only [Prod.mk.injEq] at this
      simp [hy, this.2]

/-- under `Uniq`, `getPair` returns the address of the unique entry naming the unordered pair -/
theorem getPair_eq_of_mem {m : Reg} (hu : Uniq m) (hz : NonZero m) {k : Tok × Tok} {x : Addr}
    (hm : (k, x) ∈ m) : getPair m k.1 k.2 = x := by
  have h1 : lookup m (k.1, k.2) = some x := hu.lookup_iff.mpr hm
  have hx : x ≠ 0 := hz _ hm
  unfold getPair
  simp [h1, hx]

/-! ### check_is_pair_sc -/

/-- the token ids an address reports (none for an account that is not a pair contract) -/
def tokOf (w : Pairs) (a : Addr) : Option (Tok × Tok) := (w a).map fun p => (p.t1, p.t2)

theorem checkIsPairSc_iff {m : Reg} {w : Pairs} {a : Addr} :
    checkIsPairSc m w a = some () ↔
      ∃ k, tokOf w a = some k ∧
        (lookup m k = some a ∨ (lookup m k = none ∧ lookup m (k.2, k.1) = some a)) := by
  unfold checkIsPairSc tokOf
  cases hw : w a with
  | none => simp
  | some p =>
    simp only [Option.bind_eq_bind, Option.bind_some, Option.map_some, Option.some.injEq,
      exists_eq_left']
    cases h1 : lookup m (p.t1, p.t2) with
    | some x =>
      simp only [Option.bind_some, req_eq_some]
      constructor
      · intro h; exact Or.inl (by rw [h])
      · rintro (h | ⟨h, _⟩)
        · exact Option.some.inj h
        · cases h
    | none =>
      cases h2 : lookup m (p.t2, p.t1) with
      | some y =>
        simp only [Option.bind_some, req_eq_some]
        constructor
        · intro h; exact Or.inr ⟨trivial, by rw [h]⟩
        · rintro (h | ⟨_, h⟩)
          · cases h
          · exact Option.some.inj h
      | none => simp

/-- `check_is_pair_sc` only looks at the registry and at the token ids the address reports -/
theorem checkIsPairSc_congr {m : Reg} {w w' : Pairs} {a : Addr} (h : tokOf w' a = tokOf w a) :
    checkIsPairSc m w' a = checkIsPairSc m w a := by
  have key : ∀ (w1 w2 : Pairs), tokOf w1 a = tokOf w2 a →
      checkIsPairSc m w1 a = some () → checkIsPairSc m w2 a = some () := by
    intro w1 w2 h12 hc
    rw [checkIsPairSc_iff] at hc ⊢
    rw [← h12]; exact hc
  cases h1 : checkIsPairSc m w' a with
  | some u =>
    cases u
    exact (key w' w h h1).symm
  | none =>
    cases h2 : checkIsPairSc m w a with
    | none => rfl
    | some u =>
      cases u
      rw [key w w' h.symm h2] at h1
      cases h1

end Mx.Router
