/-
  Every operation of the energy world preserves the C08 invariant (`step_inv`), hence every
  history does (`run_inv`).
-/
import MxModel.Lemmas.EnergyLoops

namespace Mx.Energy

/-- which operations the invariant is about: user-facing calls are made by user accounts, and
    the two "on behalf of" arguments that only whitelisted contracts may use (`mergeTokens`'s
    original caller, `lockVirtual`'s energy address) name the account that receives the tokens —
    the contract is trusted to pass on what it holds for that account. -/
def Op.WF : Op → Prop
  | .lock c _ _ d => c < SCBASE ∧ d < SCBASE
  | .extend c _ _ _ _ => c < SCBASE
  | .unlock c _ => c < SCBASE
  | .merge c orig _ => c < SCBASE ∧ (orig = 0 ∨ orig = c)
  | .unlockEarly c _ _ => c < SCBASE
  | .reduce c _ _ _ => c < SCBASE
  | .lockVirtual _ _ _ d ea => d < SCBASE ∧ ea = d
  | .claim _ => True
  | .cancel c => c < SCBASE
  | .lockFunds c _ _ => c < SCBASE
  | .withdraw c _ => c < SCBASE
  | .cancelTransfer sd _ => sd < SCBASE
  | .wrap c _ _ => c < SCBASE
  | .unwrap c _ _ => c < SCBASE
  | .xferWrapped _ _ _ _ => True
  | .cfg _ => True
  | .advance _ => True

/-- closing lemma for operations that only move existing tokens of the user `a` -/
theorem inv_of_frame_set {s s1 s' : St} {a : Nat} {e1 : Entry} (hi : Inv s) (ha : a < SCBASE)
    (hF : Frame s s1 a) (ht : Tracks e1 (s1.bal a) s.nonces s.epoch) (hd : Dom s1 a)
    (hep : s'.epoch = s1.epoch) (hn : s'.nonces = s1.nonces)
    (hen : s'.energy = updO s1.energy a (some e1)) (hb : s'.bal = s1.bal) : Inv s' := by
  obtain ⟨f1, f2, f3, f4⟩ := hF
  refine inv_user_update hi ha (e' := e1) (hep.trans f1) (Or.inl (hn.trans f2)) ?_ ?_ ?_ ?_ ?_
  · intro x hx; rw [hen, updO_other _ _ hx, f3]
  · intro x hx hxa; rw [hb]; exact f4 x hx hxa
  · rw [hen, updO_same]
  · rw [hb, hn, f2]; exact ht
  · intro n hn'; rw [hb]; rw [hn] at hn'; exact hd n hn'

/-- closing lemma for operations that finally mint `amt` at unlock epoch `u` to the user `a` -/
theorem inv_of_frame_mint {s s1 s' : St} {a : Nat} {e1 : Entry} (hi : Inv s) (ha : a < SCBASE)
    (hF : Frame s s1 a) (ht : Tracks e1 (s1.bal a) s.nonces s.epoch) (hd : Dom s1 a)
    (u amt : Nat) (hu : s.epoch ≤ u)
    (hep : s'.epoch = s.epoch) (hn : s'.nonces = (s1.ensureNonce u).nonces)
    (hen : s'.energy = updO s1.energy a (some (e1.addAfterLock amt u s.epoch)))
    (hb : s'.bal = upd2 (s1.ensureNonce u).bal a (s1.nonceFor u)
            ((s1.ensureNonce u).bal a (s1.nonceFor u) + amt)) : Inv s' := by
  obtain ⟨f1, f2, f3, f4⟩ := hF
  have hN := ensureNonce_isNonce s1 u
  have hns := ensureNonce_nonces s1 u
  rw [f2] at hns
  have hns' : s'.nonces = s.nonces ∨ ∃ x, s'.nonces = s.nonces ++ [x] := by
    rw [hn]
    rcases hns with h | h
    · exact Or.inl h
    · exact Or.inr ⟨_, h⟩
  have hlen : s.nonces.length ≤ s'.nonces.length := by
    rcases hns' with h | ⟨x, h⟩ <;> (rw [h]; try simp)
  have hba := ensureNonce_bal s1 u ha
  have hd' : Dom s1 a := hd
  refine inv_user_update hi ha (e' := e1.addAfterLock amt u s.epoch) hep hns' ?_ ?_ ?_ ?_ ?_
  · intro x hx; rw [hen, updO_other _ _ hx, f3]
  · intro x hx hxa
    rw [hb, upd2_other _ _ _ hxa, ensureNonce_bal s1 u hx]
    exact f4 x hx hxa
  · rw [hen, updO_same]
  · rw [hb, upd2_same, hba, hn]
    have h0 : s1.bal a (s.nonces.length + 1) = 0 := by
      have := hd (s.nonces.length + 1)
      rw [f2] at this
      exact this (Or.inr (by omega))
    have hx : (s1.ensureNonce u).nonces = s.nonces ∨ ∃ x, (s1.ensureNonce u).nonces = s.nonces ++ [x] := by
      rcases hns with h | h
      · exact Or.inl h
      · exact Or.inr ⟨_, h⟩
    exact (tracks_of_nonces ht hx h0).addAfterLock hN hu amt
  · rw [hb, upd2_same, hba, hn]
    refine dom_upd hN (fun m hm => hd m ?_)
    rw [f2]
    rw [← hn] at hm
    omega

theorem extendLock_inv {s s' : St} {c n amt epochs dest : Nat} {o : Out} (hi : Inv s)
    (hc : c < SCBASE) (h : extendLock s c n amt epochs dest = some (s', o)) : Inv s' := by
  simp only [extendLock, Option.bind_eq_bind, Option.bind_eq_some_iff, req_eq_some,
    Option.pure_def, Option.some.injEq, Prod.mk.injEq] at h
  obtain ⟨_, _, _, _, _, _, _, hlt, _, _, old, hu, s0, hdeb, _, _, e0, hr, _, _, rfl, _⟩ := h
  have hN := unlockOf_isNonce hu
  obtain ⟨hamt, hf, hrow⟩ := debit_frame hdeb
  have ht : Tracks e0 (s0.bal c) s.nonces s.epoch := by
    rw [hrow]; exact (hi.track c hc).unlockAny hN hamt hr
  have hd : Dom s0 c := by
    intro m hm; rw [hrow]; rw [hf.2.1] at hm
    exact dom_upd hN (fun k hk => hi.dom c k hc hk) m hm
  refine inv_of_frame_mint hi hc hf ht hd (startOfMonth (s.epoch + epochs)) amt (Nat.le_of_lt hlt)
    (by simp [hf.1]) rfl ?_ rfl
  simp [hf.2.2.1]

theorem unlockTokens_inv {s s' : St} {c : Nat} {ps : List (Nat × Nat)} {o : Out} (hi : Inv s)
    (hc : c < SCBASE) (h : unlockTokens s c ps = some (s', o)) : Inv s' := by
  simp only [unlockTokens, Option.bind_eq_bind, Option.bind_eq_some_iff, req_eq_some, sub?_eq_some,
    Option.pure_def, Option.some.injEq, Prod.mk.injEq] at h
  obtain ⟨_, _, _, _, ⟨s1, e, tot⟩, hp, circ, _, rfl, _⟩ := h
  obtain ⟨hF, ht, hd⟩ := unlockPays_inv ps hp (hi.track c hc) (fun m hm => hi.dom c m hc hm)
  exact inv_of_frame_set hi hc hF ht hd rfl rfl rfl rfl

theorem mergeTokens_inv {s s' : St} {c orig : Nat} {ps : List (Nat × Nat)} {o : Out} (hi : Inv s)
    (hc : c < SCBASE) (ho : orig = 0 ∨ orig = c) (h : mergeTokens s c orig ps = some (s', o)) :
    Inv s' := by
  cases ps with
  | nil => simp [mergeTokens] at h
  | cons p rest =>
    obtain ⟨n1, a1⟩ := p
    have hoc : (if orig = 0 then c else orig) = c := by
      rcases ho with h0 | h0 <;> simp [h0]
    simp only [mergeTokens, hoc, Option.bind_eq_bind, Option.bind_eq_some_iff, req_eq_some,
      Option.pure_def, Option.some.injEq, Prod.mk.injEq] at h
    obtain ⟨_, _, _, _, _, _, u1, hu, s1, hdeb, _, _, e1, hr, ⟨s2, e2, accE, accW⟩, hp, _, _, _, hlt,
      rfl, _⟩ := h
    have hN := unlockOf_isNonce hu
    obtain ⟨hamt, hf, hrow⟩ := debit_frame hdeb
    have ht1 : Tracks e1 (s1.bal c) s1.nonces s1.epoch := by
      rw [hrow, hf.1, hf.2.1]; exact (hi.track c hc).unlockAny hN hamt hr
    have hd1 : Dom s1 c := by
      intro m hm; rw [hrow]; rw [hf.2.1] at hm
      exact dom_upd hN (fun k hk => hi.dom c k hc hk) m hm
    obtain ⟨hF2, ht2, hd2⟩ := mergePays_inv rest hp ht1 hd1
    rw [hf.1, hf.2.1] at ht2
    have hF := hf.trans hF2
    refine inv_of_frame_mint hi hc hF ht2 hd2 (upperEstimate s.opts s.epoch accE) accW (Nat.le_of_lt hlt)
      (by simp [hF.1]) rfl ?_ rfl
    simp [hF.2.2.1]

theorem unlockEarly_inv {s s' : St} {c n amt : Nat} {o : Out} (hi : Inv s)
    (hc : c < SCBASE) (h : unlockEarly s c n amt = some (s', o)) : Inv s' := by
  simp only [unlockEarly, Option.bind_eq_bind, Option.bind_eq_some_iff, req_eq_some, sub?_eq_some,
    Option.pure_def, Option.some.injEq, Prod.mk.injEq] at h
  obtain ⟨_, _, u, hu, s1, hdeb, _, hlt, e, hr, pen, _, _, _, _, _, circ, _, rfl, _⟩ := h
  have hN := unlockOf_isNonce hu
  obtain ⟨hamt, hf, hrow⟩ := debit_frame hdeb
  have hU : SCBASE ≤ UNSTAKE := by decide
  obtain ⟨hcf, hcrow⟩ := credit_sc_frame s1 (a := c) n amt hU
  have hF := hf.trans hcf
  have hrow' : (s1.credit UNSTAKE n amt).bal c = upd (s.bal c) n (s.bal c n - amt) := by
    rw [hcrow hc, hrow]
  have ht : Tracks e ((s1.credit UNSTAKE n amt).bal c) s.nonces s.epoch := by
    rw [hrow']; exact (hi.track c hc).early hN (Nat.le_of_lt hlt) hamt hr
  have hd : Dom (s1.credit UNSTAKE n amt) c := by
    intro m hm; rw [hrow']; rw [hF.2.1] at hm
    exact dom_upd hN (fun k hk => hi.dom c k hc hk) m hm
  exact inv_of_frame_set hi hc hF ht hd rfl rfl rfl rfl

theorem reduceLock_inv {s s' : St} {c n amt epochs : Nat} {o : Out} (hi : Inv s)
    (hc : c < SCBASE) (h : reduceLock s c n amt epochs = some (s', o)) : Inv s' := by
  simp only [reduceLock, Option.bind_eq_bind, Option.bind_eq_some_iff, req_eq_some, sub?_eq_some,
    Option.pure_def, Option.some.injEq, Prod.mk.injEq] at h
  obtain ⟨_, _, _, _, _, _, u, hu, s1, hdeb, _, hlt, newEp, _, _, _, e, hr, pen, _, _, _, _, _, _, hnew,
    circ, _, rfl, _⟩ := h
  have hN := unlockOf_isNonce hu
  obtain ⟨hamt, hf, hrow⟩ := debit_frame hdeb
  have ht : Tracks e (s1.bal c) s.nonces s.epoch := by
    rw [hrow]; exact (hi.track c hc).early hN (Nat.le_of_lt hlt) hamt hr
  have hd : Dom s1 c := by
    intro m hm; rw [hrow]; rw [hf.2.1] at hm
    exact dom_upd hN (fun k hk => hi.dom c k hc hk) m hm
  refine inv_of_frame_mint hi hc hf ht hd (s.epoch + newEp) (amt - pen) (Nat.le_of_lt hnew)
    (by simp [hf.1]) rfl ?_ rfl
  simp [hf.2.2.1]

theorem lockVirtual_inv {s s' : St} {c amt epochs d : Nat} {o : Out} (hi : Inv s)
    (hd : d < SCBASE) (h : lockVirtual s c amt epochs d d = some (s', o)) : Inv s' := by
  simp only [lockVirtual, Option.bind_eq_bind, Option.bind_eq_some_iff, req_eq_some,
    Option.pure_def, Option.some.injEq, Prod.mk.injEq] at h
  obtain ⟨_, _, _, _, _, _, _, _, _, _, _, hlt, rfl, _⟩ := h
  exact inv_of_frame_mint hi hd (Frame.refl s d) (hi.track d hd) (fun m hm => hi.dom d m hd hm)
    (startOfMonth (s.epoch + epochs)) amt (Nat.le_of_lt hlt) (by simp) rfl (by simp) rfl

theorem claimUnlocked_inv {s s' : St} {c : Nat} {o : Out} (hi : Inv s)
    (h : claimUnlocked s c = some (s', o)) : Inv s' := by
  simp only [claimUnlocked, Option.bind_eq_bind, Option.bind_eq_some_iff, req_eq_some,
    Option.pure_def, Option.some.injEq, Prod.mk.injEq] at h
  obtain ⟨_, _, ⟨s1, paid⟩, hp, rfl, _⟩ := h
  obtain ⟨a1, a2, a3, a4⟩ := claimEntries_frame _ hp
  exact inv_frame hi a1 (Or.inl a2) a3 a4

theorem cancelUnbond_inv {s s' : St} {c : Nat} {o : Out} (hi : Inv s)
    (hc : c < SCBASE) (h : cancelUnbond s c = some (s', o)) : Inv s' := by
  simp only [cancelUnbond, Option.bind_eq_bind, Option.bind_eq_some_iff, req_eq_some,
    Option.pure_def, Option.some.injEq, Prod.mk.injEq] at h
  obtain ⟨_, _, ⟨s1, e⟩, hp, _, _, rfl, _⟩ := h
  obtain ⟨hF, ht, hd⟩ := cancelEntries_inv hc _ hp (hi.track c hc) (fun m hm => hi.dom c m hc hm)
  exact inv_of_frame_set hi hc hF ht hd rfl rfl rfl rfl

theorem lockFunds_inv {s s' : St} {c recv : Nat} {ps : List (Nat × Nat)} {o : Out} (hi : Inv s)
    (hc : c < SCBASE) (h : lockFunds s c recv ps = some (s', o)) : Inv s' := by
  simp only [lockFunds, Option.bind_eq_bind, Option.bind_eq_some_iff, req_eq_some,
    Option.pure_def, Option.some.injEq, Prod.mk.injEq] at h
  obtain ⟨_, _, _, _, ⟨s1, e⟩, hp, _, _, rfl, _⟩ := h
  obtain ⟨hF, ht, hd⟩ := deductPays_inv (by decide : SCBASE ≤ TRANSFER) hc ps hp (hi.track c hc)
    (fun m hm => hi.dom c m hc hm)
  exact inv_of_frame_set hi hc hF ht hd rfl rfl rfl rfl

theorem withdraw_inv {s s' : St} {c sender : Nat} {o : Out} (hi : Inv s)
    (hc : c < SCBASE) (h : withdraw s c sender = some (s', o)) : Inv s' := by
  simp only [withdraw, Option.bind_eq_bind, Option.bind_eq_some_iff, req_eq_some,
    Option.pure_def, Option.some.injEq, Prod.mk.injEq] at h
  obtain ⟨_, _, x, _, _, _, ⟨s1, e⟩, hp, _, _, rfl, _⟩ := h
  obtain ⟨hF, ht, hd⟩ := addPays_inv (by decide : SCBASE ≤ TRANSFER) hc x.funds hp (hi.track c hc)
    (fun m hm => hi.dom c m hc hm)
  exact inv_of_frame_set hi hc hF ht hd rfl rfl rfl rfl

theorem cancelTransfer_inv {s s' : St} {sender recv : Nat} {o : Out} (hi : Inv s)
    (hc : sender < SCBASE) (h : cancelTransfer s sender recv = some (s', o)) : Inv s' := by
  simp only [cancelTransfer, Option.bind_eq_bind, Option.bind_eq_some_iff, req_eq_some,
    Option.pure_def, Option.some.injEq, Prod.mk.injEq] at h
  obtain ⟨x, _, ⟨s1, e⟩, hp, _, _, rfl, _⟩ := h
  obtain ⟨hF, ht, hd⟩ := addPays_inv (by decide : SCBASE ≤ TRANSFER) hc x.funds hp
    (hi.track sender hc) (fun m hm => hi.dom sender m hc hm)
  exact inv_of_frame_set hi hc hF ht hd rfl rfl rfl rfl

theorem ensureWNonce_frame (s : St) (n : Nat) :
    (s.ensureWNonce n).epoch = s.epoch ∧ (s.ensureWNonce n).nonces = s.nonces ∧
    (s.ensureWNonce n).energy = s.energy ∧ (s.ensureWNonce n).bal = s.bal := by
  unfold St.ensureWNonce; split <;> exact ⟨rfl, rfl, rfl, rfl⟩

theorem wrap_inv {s s' : St} {c n amt : Nat} {o : Out} (hi : Inv s)
    (hc : c < SCBASE) (h : wrap s c n amt = some (s', o)) : Inv s' := by
  simp only [wrap, Option.bind_eq_bind, Option.bind_eq_some_iff, req_eq_some,
    Option.pure_def, Option.some.injEq, Prod.mk.injEq] at h
  obtain ⟨⟨s1, e⟩, hp, _, _, rfl, _⟩ := h
  obtain ⟨hF, ht, hd⟩ := deductPays_inv (by decide : SCBASE ≤ WRAPPER) hc _ hp (hi.track c hc)
    (fun m hm => hi.dom c m hc hm)
  obtain ⟨w1, w2, w3, w4⟩ := ensureWNonce_frame s1 n
  exact inv_of_frame_set hi hc hF ht hd (by simp [w1]) (by simp [w2]) (by simp [w3]) (by simp [w4])

theorem unwrap_inv {s s' : St} {c wn amt : Nat} {o : Out} (hi : Inv s)
    (hc : c < SCBASE) (h : unwrap s c wn amt = some (s', o)) : Inv s' := by
  simp only [unwrap, Option.bind_eq_bind, Option.bind_eq_some_iff, req_eq_some, sub?_eq_some,
    Option.pure_def, Option.some.injEq, Prod.mk.injEq] at h
  obtain ⟨n, _, wb, _, ⟨s1, e⟩, hp, _, _, rfl, _⟩ := h
  obtain ⟨hF, ht, hd⟩ := addPays_inv (by decide : SCBASE ≤ WRAPPER) hc _ hp (hi.track c hc)
    (fun m hm => hi.dom c m hc hm)
  exact inv_of_frame_set hi hc hF ht hd rfl rfl rfl rfl

theorem cfg_frame {s s' : St} {o : CfgOp} (h : cfg s o = some s') :
    s'.epoch = s.epoch ∧ s'.nonces = s.nonces ∧ s'.energy = s.energy ∧ s'.bal = s.bal := by
  cases o <;>
    simp only [cfg, Option.bind_eq_bind, Option.bind_eq_some_iff, req_eq_some, Option.pure_def,
      Option.some.injEq] at h
  case addOptions => obtain ⟨_, _, _, _, _, _, _, _, _, _, rfl⟩ := h; exact ⟨rfl, rfl, rfl, rfl⟩
  case setBurnPct => obtain ⟨_, _, rfl⟩ := h; exact ⟨rfl, rfl, rfl, rfl⟩
  case pause => subst h; exact ⟨rfl, rfl, rfl, rfl⟩
  case whitelist => obtain ⟨_, _, rfl⟩ := h; exact ⟨rfl, rfl, rfl, rfl⟩
  case unwhitelist => obtain ⟨_, _, rfl⟩ := h; exact ⟨rfl, rfl, rfl, rfl⟩

/-- depleting in two steps is depleting once -/
theorem deplete_deplete (x : Entry) {a b : Nat} (h1 : x.last ≤ a) (h2 : a ≤ b) :
    (x.deplete a).deplete b = x.deplete b := by
  obtain ⟨E, l, T⟩ := x
  simp only at h1
  by_cases hla : l = a
  · subst hla; simp [Entry.deplete]
  · by_cases hab : a = b
    · subst hab; simp [Entry.deplete, hla]
    · have hlb : l ≠ b := by omega
      by_cases hT : 0 < T
      · have c1 : ¬ a ≤ l := by omega
        have c2 : ¬ b ≤ a := by omega
        have c3 : ¬ b ≤ l := by omega
        simp only [Entry.deplete, hla, hab, hlb, hT, if_true, if_false, Entry.subtract, c1, c2, c3,
          Entry.mk.injEq, and_true]
        rw [cast_mul_sub T a l h1, cast_mul_sub T b a h2, cast_mul_sub T b l (by omega)]
        ring
      · simp [Entry.deplete, hla, hab, hlb, hT]
/-- `epoch advance`: every entry decays linearly, exactly as the sums do -/
theorem advance_inv {s : St} {e : Nat} (hi : Inv s) (hle : s.epoch ≤ e) : Inv { s with epoch := e } := by
  refine ⟨?_, ?_, ?_, ?_⟩
  · intro a ha
    have ht := hi.track a ha
    show Tracks (St.view { s with epoch := e } a) (s.bal a) s.nonces e
    unfold St.view
    show Tracks (match s.energy a with | some x => x.deplete e | none => Entry.zero e) _ _ _
    cases hea : s.energy a with
    | none =>
      simp only
      have hv : s.view a = Entry.zero s.epoch := by simp [St.view, hea]
      rw [hv] at ht
      have := ht.deplete hle
      have hz : (Entry.zero s.epoch).deplete e = Entry.zero e := by
        unfold Entry.deplete Entry.zero
        by_cases h : s.epoch = e <;> simp [h]
      rw [hz] at this
      exact this
    | some x =>
      simp only
      have hv : s.view a = x.deplete s.epoch := by simp [St.view, hea]
      rw [hv] at ht
      have hl := hi.last a x hea
      have h2 := ht.deplete hle
      have : (x.deplete s.epoch).deplete e = x.deplete e := deplete_deplete x hl hle
      rw [this] at h2
      exact h2
  · intro a x hx
    exact Nat.le_trans (hi.last a x hx) hle
  · exact hi.dom
  · exact hi.sc

theorem step_inv {s s' : St} {op : Op} {o : Out} (hi : Inv s) (hw : op.WF)
    (h : step s op = some (s', o)) : Inv s' := by
  cases op <;> simp only [step] at h
  case lock c amt ep d =>
    refine lockTokens_inv hi ?_ h
    obtain ⟨h1, h2⟩ := hw
    split <;> assumption
  case extend => exact extendLock_inv hi hw h
  case unlock => exact unlockTokens_inv hi hw h
  case merge => exact mergeTokens_inv hi hw.1 hw.2 h
  case unlockEarly => exact unlockEarly_inv hi hw h
  case reduce => exact reduceLock_inv hi hw h
  case lockVirtual c amt ep d ea =>
    obtain ⟨h1, rfl⟩ := hw
    exact lockVirtual_inv hi h1 h
  case claim => exact claimUnlocked_inv hi h
  case cancel => exact cancelUnbond_inv hi hw h
  case lockFunds => exact lockFunds_inv hi hw h
  case withdraw => exact withdraw_inv hi hw h
  case cancelTransfer => exact cancelTransfer_inv hi hw h
  case wrap => exact wrap_inv hi hw h
  case unwrap => exact unwrap_inv hi hw h
  case xferWrapped =>
    simp only [xferWrapped, Option.bind_eq_bind, Option.bind_eq_some_iff, req_eq_some, sub?_eq_some,
      Option.pure_def, Option.some.injEq, Prod.mk.injEq] at h
    obtain ⟨_, _, _, _, wb, _, rfl, _⟩ := h
    exact inv_frame hi rfl (Or.inl rfl) rfl (fun _ _ => rfl)
  case cfg op =>
    simp only [Option.map_eq_some_iff, Prod.mk.injEq] at h
    obtain ⟨s1, h1, rfl, _⟩ := h
    obtain ⟨a1, a2, a3, a4⟩ := cfg_frame h1
    exact inv_frame hi a1 (Or.inl a2) a3 (fun x _ => by rw [a4])
  case advance e =>
    split at h
    · rename_i hle
      simp only [Option.some.injEq, Prod.mk.injEq] at h
      obtain ⟨rfl, _⟩ := h
      exact advance_inv hi hle
    · simp at h

theorem init_inv (c : Cfg) : Inv (init c) := by
  refine ⟨?_, ?_, ?_, ?_⟩
  · intro a _
    exact ⟨rfl, rfl, rfl⟩
  · intro a e he; simp [init] at he
  · intro a n _ _; rfl
  · intro a _; rfl

theorem run_inv (ops : List Op) {s : St} (hi : Inv s) (hw : ∀ op ∈ ops, op.WF) : Inv (run s ops) := by
  induction ops generalizing s with
  | nil => simpa [run] using hi
  | cons op ops ih =>
    simp only [run, List.foldl_cons]
    have hw' : ∀ o ∈ ops, o.WF := fun o ho => hw o (by simp [ho])
    cases hst : step s op with
    | none => exact ih hi hw'
    | some r =>
      obtain ⟨s1, o⟩ := r
      exact ih (step_inv hi (hw op (by simp)) hst) hw'

end Mx.Energy
