/-
  Spec lemmas for the base-reward clauses (C06, staking side): the reward index only grows and by
  exactly `⌊base·dsc/supply⌋`; nothing accrues within a block that was already settled; what a
  claim / unstake / compound pays; what attributes a new position gets; admin endpoints settle
  under the OLD configuration first.
-/
import MxModel.Lemmas.StakingGate

namespace Mx.Staking

open Mx.Weekly

/-! ### parts of a position -/

theorem intoPart_spec {t t' : Attrs} {x : Nat} (h : t.intoPart x = some t') :
    t'.rps = t.rps ∧ t'.owner = t.owner ∧ t'.amount = x ∧
    t'.compounded = (if x = t.amount then t.compounded else t.compounded * x / t.amount) := by
  unfold Attrs.intoPart at h
  split at h
  · rename_i hx
    simp only [Option.some.injEq] at h
    subst h
    exact ⟨rfl, rfl, hx.symm, by simp [hx]⟩
  · rename_i hx
    simp only [Option.bind_eq_bind, Option.bind_eq_some_iff, req_eq_some, Option.pure_def,
      Option.some.injEq] at h
    obtain ⟨_, _, rfl⟩ := h
    exact ⟨rfl, rfl, rfl, by simp [hx]⟩

/-! ### the index -/

/-- nothing is accrued in a block that was already settled -/
theorem genTot_eq_zero_of_settled {s : St} (h : s.block ≤ s.lastBlock) : genTot s = 0 := by
  simp [genTot, genTotOf, mintOf, h]

theorem rpsInc_zero (dsc supply : Nat) : rpsInc dsc 0 supply = 0 := by
  unfold rpsInc; split <;> simp

/-- one transaction: the index never decreases and moves by `⌊base·dsc/supply⌋` of one accrual
    under the pre-state configuration (nothing at zero supply), or not at all -/
theorem eff_rps {s s' : St} (h : Eff s s') :
    s.rps ≤ s'.rps ∧ s'.dsc = s.dsc ∧
    (s'.rps = s.rps ∨
     s'.rps = s.rps + rpsInc s.dsc (genTot s - genCut s (genTot s)) s.supply) := by
  obtain ⟨tot, cut, inc, pb, pbo, up, down, hgen, _, _, _, _, _, _, _, _, _, _, _, _, _, e11, e12, _⟩ := h
  refine ⟨by omega, e12, ?_⟩
  rcases hgen with ⟨_, _, rfl, _⟩ | ⟨_, rfl, rfl, rfl, _⟩
  · left; omega
  · right; exact e11

/-- in a block that was already settled no transaction moves the index or accrues anything -/
theorem eff_settled_block {s s' : St} (h : Eff s s') (hb : s.block ≤ s.lastBlock) :
    s'.rps = s.rps ∧ s'.accumulated = s.accumulated := by
  obtain ⟨tot, cut, inc, pb, pbo, up, down, hgen, hcut, e1, _, _, _, _, _, _, _, _, _, _, _, e11, _, _⟩ := h
  have h0 := genTot_eq_zero_of_settled hb
  rcases hgen with ⟨rfl, _, rfl, _⟩ | ⟨_, rfl, rfl, rfl, _⟩
  · omega
  · rw [h0] at hcut e1 e11
    have : genCut s 0 = 0 := by omega
    rw [this, rpsInc_zero] at e11
    omega

/-- after a transaction that accrued (`generate` ran) the last reward block is the current block -/
theorem eff_lastBlock {s s' : St} (h : Eff s s') (hl : s.lastBlock ≤ s.block) :
    s'.lastBlock = s.lastBlock ∨ s'.lastBlock = s.block := by
  obtain ⟨tot, cut, inc, pb, pbo, up, down, hgen, _⟩ := h
  rcases hgen with ⟨_, _, _, h | h⟩ | ⟨_, _, _, _, h⟩
  · exact Or.inl h
  · exact Or.inr h
  · right; omega

/-! ### what claim / unstake / compound pay -/

theorem claimBase_reward {s : St} {c orig : Nat} {pays : List Pay} {m : ClaimMid}
    (h : claimBase s c orig pays = some m) :
    ∃ p first tok r, pays.head? = some p ∧ posOf s.md p.1 = some first ∧ first.intoPart p.2 = some tok ∧
      claimBoostedYields (genSt s) orig ((genSt s).userTotal orig) = some r ∧ m.boosted = r.2.2 ∧
      m.w1 = r.1 ∧ m.b1 = r.2.1 ∧
      m.base = baseReward (genCache s s.cache) s.dsc p.2 tok ∧
      mergeParts s.md ⟨(genCache s s.cache).rps, tok.compounded, tok.amount, orig⟩ pays.tail = some m.merged ∧
      m.s1 = genSt s ∧ m.c1 = genCache s s.cache := by
  simp only [claimBase, Option.bind_eq_bind, Option.bind_eq_some_iff, req_eq_some,
    Option.pure_def, Option.some.injEq] at h
  obtain ⟨hold0, _, _, _, p, hp, first, hf, ⟨s1, c1⟩, hg, tok, ht, r, hr, ut1, _, merged, hm, rfl⟩ := h
  obtain ⟨ha, hc, rfl, rfl⟩ := generate_spec hg
  exact ⟨p, first, tok, r, hp, hf, ht, hr, rfl, rfl, rfl, rfl, hm, rfl, rfl⟩

/-- `claimRewards` (all variants): the reward is the base formula on the part sent, evaluated at
    the index AFTER settling, plus the boosted rewards of the original caller; the new position
    carries the current index -/
theorem claimCore_reward {s s' : St} {c orig : Nat} {pays : List Pay} {nv : Option Nat} {o : Out}
    (h : claimCore s c orig pays nv = some (s', o)) :
    ∃ p first tok r merged, pays.head? = some p ∧ posOf s.md p.1 = some first ∧
      first.intoPart p.2 = some tok ∧
      claimBoostedYields (genSt s) orig ((genSt s).userTotal orig) = some r ∧
      o.c = (if tok.rps < s'.rps then p.2 * (s'.rps - tok.rps) / s'.dsc else 0) + r.2.2 ∧
      s'.paidBase = s.paidBase + (if tok.rps < s'.rps then p.2 * (s'.rps - tok.rps) / s'.dsc else 0) ∧
      s'.paidBoosted = s.paidBoosted + r.2.2 ∧
      mergeParts s.md ⟨s'.rps, tok.compounded, tok.amount, orig⟩ pays.tail = some merged ∧
      s'.md (s.nonce + 1) = some (.pos { merged with amount := nv.getD merged.amount }) ∧
      s'.nonce = s.nonce + 1 ∧ o.a = s.nonce + 1 ∧ o.b = nv.getD merged.amount ∧
      s'.hold c (s.nonce + 1) = nv.getD merged.amount := by
  simp only [claimCore, Option.bind_eq_bind, Option.bind_eq_some_iff] at h
  obtain ⟨m, hm, h⟩ := h
  obtain ⟨p, first, tok, r, hp, hf, ht, hr, hbo, _, _, hb, hmerged, e1, e2⟩ := claimBase_reward hm
  simp only [claimFinish, Option.bind_eq_bind, Option.bind_eq_some_iff, req_eq_some,
    sub?_eq_some, Option.pure_def, Option.some.injEq, Prod.mk.injEq] at h
  obtain ⟨res1, _, sup1, _, ut2, _, _, _, w2, _, bal1, _, rfl, rfl⟩ := h
  refine ⟨p, first, tok, r, m.merged, hp, hf, ht, hr, ?_, ?_, ?_, ?_, ?_, ?_, ?_, ?_, ?_⟩
  · simp only [hb, hbo, e1, e2, baseReward, genSt_dsc]
  · simp only [hb, e1, e2, baseReward, genSt_dsc, genSt_paidBase]
  · simp only [hbo, e1, genSt_paidBoosted]
  · simp only [e2]; exact hmerged
  · simp only [e1, genSt_md, genSt_nonce, upd_same]
  · simp only [e1, genSt_nonce]
  · simp only [e1, genSt_nonce]
  · rfl
  · simp only [e1, genSt_nonce, upd2]; simp

/-- `unstakeFarm` (both variants): same reward formula on the part taken out -/
theorem unstakeCore_reward {s s' : St} {c orig : Nat} {pay : Pay} {x : Option Nat} {o : Out}
    (h : unstakeCore s c orig pay x = some (s', o)) :
    ∃ attrs tok r, posOf s.md pay.1 = some attrs ∧ attrs.intoPart pay.2 = some tok ∧
      claimBoostedYields (genSt s) orig ((genSt s).userTotal orig) = some r ∧
      o.c = (if tok.rps < s'.rps then pay.2 * (s'.rps - tok.rps) / s'.dsc else 0) + r.2.2 ∧
      s'.paidBase = s.paidBase + (if tok.rps < s'.rps then pay.2 * (s'.rps - tok.rps) / s'.dsc else 0) := by
  cases x <;>
  · simp only [unstakeCore, Option.bind_eq_bind, Option.bind_eq_some_iff, req_eq_some,
      sub?_eq_some, Option.pure_def, Option.some.injEq, Prod.mk.injEq] at h
    obtain ⟨_, _, hold0, _, _, _, attrs, ha', ⟨s1, c1⟩, hg, tok, htok, r, hr, res1, _,
      sup1, _, w2, _, bal1, _, rfl, rfl⟩ := h
    obtain ⟨ha, hc, rfl, rfl⟩ := generate_spec hg
    exact ⟨attrs, tok, r, ha', htok, hr, by simp only [baseReward, genSt_dsc],
      by simp only [baseReward, genSt_dsc, genSt_paidBase]⟩

/-- `compoundRewards`: the same reward, added to the position instead of being paid -/
theorem compound_reward {s s' : St} {c : Nat} {pays : List Pay} {o : Out}
    (h : compound s c pays = some (s', o)) :
    ∃ p first tok r, pays.head? = some p ∧ posOf s.md p.1 = some first ∧
      first.intoPart p.2 = some tok ∧
      claimBoostedYields (genSt s) c ((genSt s).userTotal c) = some r ∧
      o.c = (if tok.rps < s'.rps then p.2 * (s'.rps - tok.rps) / s'.dsc else 0) + r.2.2 ∧
      s'.paidBase = s.paidBase + (if tok.rps < s'.rps then p.2 * (s'.rps - tok.rps) / s'.dsc else 0) ∧
      s'.supply = s.supply + o.c := by
  simp only [compound, Option.bind_eq_bind, Option.bind_eq_some_iff, req_eq_some,
    sub?_eq_some, Option.pure_def, Option.some.injEq, Prod.mk.injEq] at h
  obtain ⟨hold0, _, _, _, p, hp, first, hf, ⟨s1, c1⟩, hg, tok, ht, r, hr, res1, _, ut1, _,
    merged, _, rfl, rfl⟩ := h
  obtain ⟨ha, hc, rfl, rfl⟩ := generate_spec hg
  exact ⟨p, first, tok, r, hp, hf, ht, hr, by simp only [baseReward, genSt_dsc],
    by simp only [baseReward, genSt_dsc, genSt_paidBase],
    by simp only [baseReward, genCache_supply, St.cache]⟩

/-- a new position created by `stakeFarm` without merging starts at the index AFTER settling,
    with no compounded rewards, the staked amount and the original caller as owner -/
theorem stakeCore_new_position {s s' : St} {c orig amount : Nat} {v : Bool} {o : Out}
    (h : stakeCore s c orig amount v [] = some (s', o)) :
    s'.md (s.nonce + 1) = some (.pos ⟨s'.rps, 0, amount, orig⟩) ∧ o.a = s.nonce + 1 ∧
    o.b = amount ∧ s'.hold c (s.nonce + 1) = amount ∧ s'.supply = s.supply + amount ∧
    s'.lastBlock = max s.lastBlock s.block := by
  cases v <;>
  · simp only [stakeCore, Option.bind_eq_bind, Option.bind_eq_some_iff, req_eq_some,
      sub?_eq_some, Option.pure_def, Option.some.injEq, Prod.mk.injEq, mergeParts, debit,
      checkAndUpdate] at h
    obtain ⟨_, _, hold0, rfl, r, _, res1, _, _, _, ut1, rfl, ⟨s3, c3⟩, hg, merged, rfl, w2, _,
      bal1, _, rfl, rfl⟩ := h
    obtain ⟨ha, hc, rfl, rfl⟩ := generate_spec hg
    simp only [genSt_md, genSt_nonce, upd_same, genCache_supply, St.cache, upd2, genSt_lastBlock]
    simp

/-! ### admin endpoints settle first -/

theorem settleThen_eq {s s' : St} {f : St → St} {o : Out} (h : settleThen s f = some (s', o)) :
    s.accumulated ≤ s.capacity ∧ s' = f ((genSt s).flush (genCache s s.cache)) := by
  simp only [settleThen, Option.bind_eq_bind, Option.bind_eq_some_iff,
    Option.pure_def, Option.some.injEq, Prod.mk.injEq] at h
  obtain ⟨⟨s1, c1⟩, hg, rfl, _⟩ := h
  obtain ⟨ha, hc, rfl, rfl⟩ := generate_spec hg
  exact ⟨ha, rfl⟩

end Mx.Staking
