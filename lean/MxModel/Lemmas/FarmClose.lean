/-
  Farm (dex/farm, farm-with-locked-rewards): the DENOMINATOR of a closed week at run level.
  The farm's `totalEnergyForWeek` is the shared weekly module's; `Weekly.EStep` / `CloseInv`
  (Lemmas/WeeklyClose.lean) are instantiated for `Farm.step`:

    * `step_EStep`  every successful operation moves `lastGlobalUpdateWeek` forward only and keeps the
                    total energy of every week other than the (new) global week — or clears week
                    `lastGlobalUpdateWeek − 5`;
    * `closeSum`    (function of the history) Σ over all participants of their recorded energy decayed
                    to `w`, in the last state of the history in which `w` was the running global week;
    * `closeSum_exact_from`  `totalEnergyForWeek(w) = closeSum w …` unless cleared (5 weeks later).

  An endpoint touches the weekly module up to twice (boosted claim, then `update_energy_and_progress`
  / `clear_user_energy`), both in the same week `W`; `EStep` composes because the first touch leaves
  `lastGlobalUpdateWeek = W` (`EStep.trans_same`, the `EQ` bookkeeping below).
-/
import MxModel.Lemmas.FarmLogAmtOps

namespace Mx.Weekly

theorem EStep.trans_same {g g' g'' : St} (h1 : EStep g g') (h2 : EStep g' g'')
    (e : g''.lastGlobalUpdateWeek = g'.lastGlobalUpdateWeek) : EStep g g'' := by
  refine ⟨Nat.le_trans h1.mono h2.mono, fun w hw => ?_⟩
  have hw' : w ≠ g'.lastGlobalUpdateWeek := by rw [← e]; exact hw
  rcases h2.frame w hw with e2 | ⟨e2, e5⟩
  · rcases h1.frame w hw' with e1 | ⟨e1, e5⟩
    · left; rw [e2, e1]
    · right; exact ⟨by rw [e2, e1], by rw [e]; exact e5⟩
  · right; exact ⟨e2, e5⟩

theorem updateEnergyAndProgress_lgw {g g' : St} {user W : Nat} {cur : Energy} (hW : 1 ≤ W)
    (hI : GInv g) (h : updateEnergyAndProgress g user W cur = some g') :
    g'.lastGlobalUpdateWeek = W := by
  simp only [updateEnergyAndProgress, Option.bind_eq_bind, Option.bind_eq_some_iff, Option.pure_def,
    Option.some.injEq] at h
  obtain ⟨g1, h1, rfl⟩ := h
  exact (updateUser_GRel hW hI h1).2.1

theorem updateEnergyForUser_lgw {g g' : St} {user W : Nat} {cur : Energy} (hW : 1 ≤ W)
    (hI : GInv g) (h : updateEnergyForUser g user W cur = some g') :
    g'.lastGlobalUpdateWeek = W := by
  unfold updateEnergyForUser at h
  cases hq : g.progress user with
  | none =>
    simp only [hq, Option.bind_eq_bind, Option.pure_def, Option.bind_some] at h
    exact updateEnergyAndProgress_lgw hW hI h
  | some p =>
    simp only [hq, Option.bind_eq_bind, Option.bind_eq_some_iff] at h
    obtain ⟨_, _, h2⟩ := h
    exact updateEnergyAndProgress_lgw hW hI h2

theorem clearUserEnergy_lgw {g g' : St} {user W epoch remaining minFarm : Nat} (hW : 1 ≤ W)
    (hI : GInv g) (h : clearUserEnergy g user W epoch remaining minFarm = some g') :
    g' = g ∨ g'.lastGlobalUpdateWeek = W := by
  unfold clearUserEnergy at h
  split at h
  · simp only [Option.some.injEq] at h; exact Or.inl h.symm
  · simp only [Option.bind_eq_bind, Option.bind_eq_some_iff, Option.pure_def,
      Option.some.injEq] at h
    obtain ⟨g1, h1, rfl⟩ := h
    exact Or.inr (updateUser_GRel hW hI h1).2.1

theorem claimMulti_lgw {σ : Type} {rw : RewardFn σ} (hrw : RwFrame rw) {g g' : St} {c c' : σ}
    {user W : Nat} {cur : Energy} {r : List (Tok × Nat)} (hW : 1 ≤ W) (hI : GInv g)
    (h : claimMulti rw g c user W cur = some (g', c', r)) : g'.lastGlobalUpdateWeek = W := by
  obtain ⟨g1, a, h1, _, ha, rfl, _, _⟩ := claimMulti_spec h
  obtain ⟨fr, _⟩ := claimLoop_frame hrw _ ha
  simp only at fr
  show a.g.lastGlobalUpdateWeek = W
  rw [fr.lgw]
  exact (updateUser_GRel hW hI h1).2.1

end Mx.Weekly

namespace Mx.Farm

open Mx.Weekly (upd Energy ClaimProgress EStep)

/-! ### bookkeeping inside one endpoint -/

/-- inside an endpoint started with weekly state `g0`: the invariant holds, the energy totals moved
    by an `EStep`, and either the weekly module is untouched so far or it was touched in the
    current week (so a further touch in the same week composes) -/
structure EQ (g0 : Weekly.St) (s : St) : Prop where
  inv : WInv s
  est : EStep g0 s.w
  at_ : s.w = g0 ∨ ∃ W, s.week = some W ∧ s.w.lastGlobalUpdateWeek = W

theorem EQ.start {s : St} (hI : WInv s) : EQ s.w s := ⟨hI, EStep.refl _, Or.inl rfl⟩

theorem EQ.of_w {g0 : Weekly.St} {s s' : St} (h : EQ g0 s) (e : s'.w = s.w) (k : s'.week = s.week) :
    EQ g0 s' := by
  refine ⟨h.inv.of_w e, by rw [e]; exact h.est, ?_⟩
  rw [e, k]; exact h.at_

theorem EQ.keep {g0 : Weekly.St} {s s' : St} (h : EQ g0 s) (e : s'.w = s.w) (k : Keep s s') :
    EQ g0 s' := h.of_w e k.week

theorem EQ.touch {g0 : Weekly.St} {s s' : St} {W : Nat} (h : EQ g0 s) (hW : s.week = some W)
    (hI' : WInv s') (k : s'.week = s.week) (hE : EStep s.w s'.w)
    (hl : s'.w.lastGlobalUpdateWeek = W) : EQ g0 s' := by
  refine ⟨hI', ?_, Or.inr ⟨W, by rw [k]; exact hW, hl⟩⟩
  rcases h.at_ with e | ⟨W', hW', hl'⟩
  · rw [← e]; exact hE
  · have : W' = W := by rw [hW] at hW'; simp only [Option.some.injEq] at hW'; exact hW'.symm
    subst this
    exact h.est.trans_same hE (hl.trans hl'.symm)

/-! ### the four helpers that touch the weekly module -/

theorem updateEnergyAndProgress_eq {g0 : Weekly.St} {s s' : St} {u : Nat} (q : EQ g0 s)
    (h : updateEnergyAndProgress s u = some s') : EQ g0 s' := by
  have hI' := updateEnergyAndProgress_winv q.inv h
  simp only [updateEnergyAndProgress, Option.bind_eq_bind, Option.bind_eq_some_iff, Option.pure_def,
    Option.some.injEq] at h
  obtain ⟨W, hW, g, hg, rfl⟩ := h
  have hp := week_pos hW
  exact q.touch hW hI' rfl (Weekly.updateEnergyAndProgress_EStep hp q.inv.1 hg)
    (Weekly.updateEnergyAndProgress_lgw hp q.inv.1 hg)

theorem updateEnergyForUser_eq {g0 : Weekly.St} {s s' : St} {u : Nat} (q : EQ g0 s)
    (h : updateEnergyForUser s u = some s') : EQ g0 s' := by
  have hI' := updateEnergyForUser_winv q.inv h
  simp only [updateEnergyForUser, Option.bind_eq_bind, Option.bind_eq_some_iff, Option.pure_def,
    Option.some.injEq] at h
  obtain ⟨W, hW, g, hg, rfl⟩ := h
  have hp := week_pos hW
  exact q.touch hW hI' rfl (Weekly.updateEnergyForUser_EStep hp q.inv.1 hg)
    (Weekly.updateEnergyForUser_lgw hp q.inv.1 hg)

theorem claimBoostedYields_eq {g0 : Weekly.St} {s s' : St} {u r : Nat} (q : EQ g0 s)
    (h : claimBoostedYields s u = some (s', r)) : EQ g0 s' := by
  have hI' := claimBoostedYields_winv q.inv h
  have h0 := h
  unfold claimBoostedYields at h
  split at h
  · rename_i hc
    exact updateEnergyAndProgress_eq q (claimBoostedYields_none_spec hc h0).2
  · simp only [Option.bind_eq_bind, Option.bind_eq_some_iff, Option.pure_def, Option.some.injEq,
      Prod.mk.injEq] at h
    obtain ⟨W, hW, mem, _, ⟨g', c', rl⟩, hx, rfl, _⟩ := h
    have hp := week_pos hW
    exact q.touch hW hI' rfl (Weekly.claimMulti_EStep (boostedRewards_frame _ _) hp q.inv.1 hx)
      (Weekly.claimMulti_lgw (boostedRewards_frame _ _) hp q.inv.1 hx)

theorem clearUserEnergyIfNeeded_eq {g0 : Weekly.St} {s s' : St} {u : Nat} (q : EQ g0 s)
    (h : clearUserEnergyIfNeeded s u = some s') : EQ g0 s' := by
  have hI' := clearUserEnergyIfNeeded_winv q.inv h
  unfold clearUserEnergyIfNeeded at h
  split at h
  · simp only [Option.some.injEq] at h; subst h; exact q
  · simp only [Option.bind_eq_bind, Option.bind_eq_some_iff, Option.pure_def, Option.some.injEq] at h
    obtain ⟨W, hW, mem, _, g, hg, rfl⟩ := h
    have hp := week_pos hW
    rcases Weekly.clearUserEnergy_lgw hp q.inv.1 hg with e | hl
    · exact q.of_w e rfl
    · exact q.touch hW hI' rfl (Weekly.clearUserEnergy_EStep hp q.inv.1 hg) hl

theorem claimOnlyBoostedPayment_eq {g0 : Weekly.St} {s s' : St} {u r : Nat} (q : EQ g0 s)
    (h : claimOnlyBoostedPayment s u = some (s', r)) : EQ g0 s' := by
  simp only [claimOnlyBoostedPayment, Option.bind_eq_bind, Option.bind_eq_some_iff, Option.pure_def] at h
  obtain ⟨⟨s1, r1⟩, h1, h⟩ := h
  have k1 := claimBoostedYields_eq q h1
  split at h
  · simp only [Option.some.injEq, Prod.mk.injEq] at h
    obtain ⟨rfl, _⟩ := h; exact k1
  · simp only [Option.bind_eq_some_iff, sub?_eq_some, Option.some.injEq, Prod.mk.injEq] at h
    obtain ⟨_, _, rfl, _⟩ := h; exact k1.of_w rfl rfl

theorem claimTail_eq {g0 : Weekly.St} {s s' : St} {c : Bool} {u b bo : Nat} (q : EQ g0 s)
    (h : claimTail s c u b bo = some s') : EQ g0 s' := by
  unfold claimTail at h
  split at h
  · simp only [Option.bind_eq_some_iff] at h
    obtain ⟨s1, h1, h2⟩ := h
    exact updateEnergyAndProgress_eq (q.of_w (compoundMove_w h1) (week_of_pmv (compoundMove_pmv h1))) h2
  · exact q.of_w (payReward_w h) (week_of_pmv (payReward_pmv h))

/-! ### endpoints -/

theorem enterCore_eq {s s' : St} {caller orig tokenTo amt : Nat} {extra : List (Nat × Nat)} {o : Out}
    (hI : WInv s) (h : enterCore s caller orig tokenTo amt extra = some (s', o)) : EQ s.w s' := by
  simp only [enterCore, Option.bind_eq_bind, Option.bind_eq_some_iff, req_eq_some, Option.pure_def,
    Option.some.injEq, Prod.mk.injEq] at h
  obtain ⟨_, _, s0, h0, ⟨s1, boosted⟩, h1, s1', h1', _, hact, s2, h2, ⟨s4, c1⟩, h4, merged, hm,
    ⟨s5, n⟩, h5, s6, h6, s8, h8, s9, h9, rfl, rfl⟩ := h
  have q0' : EQ s.w s0 := (EQ.start hI).of_w (takePayments_w h0) (week_of_pmv (takePayments_pmv h0))
  have q0 : EQ s.w (addFarming s0 amt) := q0'.of_w rfl rfl
  have q1 := claimOnlyBoostedPayment_eq q0 h1
  have q1' := q1.of_w (payRewardIf_w h1') (week_of_pmv (payRewardIf_pmv h1'))
  have q2 := q1'.keep (checkAndUpdate_w h2) (checkAndUpdate_keep h2)
  have q3 : EQ s.w (increaseUser s2 orig amt) := q2.of_w rfl rfl
  have q4 : EQ s.w s4 := q3.of_w (generate_w h4) (week_of_pmv (generate_pmv h4))
  have q5 := q4.of_w (createToken_w h5) (week_of_pmv (createToken_pmv h5))
  have q6 := q5.keep (setFarmSupplyWeek_w h6) (setFarmSupplyWeek_keep h6)
  have q7 : EQ s.w (Cache.drop s6 { c1 with supply := c1.supply + amt }) := q6.of_w rfl rfl
  have q8 : EQ s.w s8 := q7.of_w (payRewardIf_w h8) (week_of_pmv (payRewardIf_pmv h8))
  exact updateEnergyAndProgress_eq q8 h9

theorem claimCore_eq {s s' : St} {caller orig : Nat} {pays : List (Nat × Nat)} {cmp : Bool} {o : Out}
    (hI : WInv s) (h : claimCore s caller orig pays cmp = some (s', o)) : EQ s.w s' := by
  unfold claimCore at h
  replace h := bpeel h; obtain ⟨⟨n1, a1⟩, hhead, h⟩ := h
  replace h := bpeel h; obtain ⟨s0, h0, h⟩ := h
  replace h := bpeel h; obtain ⟨_, _, h⟩ := h
  replace h := bpeel h; obtain ⟨_, _, h⟩ := h
  replace h := bpeel h; obtain ⟨at1, hat, h⟩ := h
  replace h := bpeel h; obtain ⟨⟨s1, c1⟩, h1, h⟩ := h
  replace h := bpeel h; obtain ⟨part, hpart, h⟩ := h
  replace h := bpeel h; obtain ⟨⟨s2, boosted⟩, h2, h⟩ := h
  replace h := bpeel h; obtain ⟨res, _, h⟩ := h
  replace h := bpeel h; obtain ⟨s3, h3, h⟩ := h
  replace h := bpeel h; obtain ⟨merged, hm, h⟩ := h
  replace h := bpeel h; obtain ⟨⟨s5, n⟩, h5, h⟩ := h
  replace h := bpeel h; obtain ⟨s6, h6, h⟩ := h
  replace h := bpeel h; obtain ⟨s8, h8, h⟩ := h
  simp only [Option.pure_def, Option.some.injEq, Prod.mk.injEq] at h
  obtain ⟨rfl, _⟩ := h
  have q0 := (EQ.start hI).of_w (takePayments_w h0) (week_of_pmv (takePayments_pmv h0))
  have q1 := q0.of_w (generate_w h1) (week_of_pmv (generate_pmv h1))
  have q2 := claimBoostedYields_eq q1 h2
  have q3 := q2.keep (checkAndUpdate_w h3) (checkAndUpdate_keep h3)
  have q5 : EQ s.w s5 := by
    cases cmp
    · exact q3.of_w (createToken_w h5) (week_of_pmv (createToken_pmv h5))
    · have q4 : EQ s.w (increaseUser s3 orig (baseReward s1.dsc c1.rps a1 part.rps + boosted)) :=
        q3.of_w rfl rfl
      exact q4.of_w (createToken_w h5) (week_of_pmv (createToken_pmv h5))
  have q6 := q5.keep (setFarmSupplyWeek_w h6) (setFarmSupplyWeek_keep h6)
  have q7 : EQ s.w (Cache.drop s6 { c1 with reserve := res, supply := if cmp = true then
      c1.supply + (baseReward s1.dsc c1.rps a1 part.rps + boosted) else c1.supply }) := q6.of_w rfl rfl
  exact claimTail_eq q7 h8

theorem exitFarm_eq {s s' : St} {caller : Nat} {opt : Option Nat} {n a : Nat} {o : Out}
    (hI : WInv s) (h : exitFarm s caller opt n a = some (s', o)) : EQ s.w s' := by
  unfold exitFarm at h
  replace h := bpeel h; obtain ⟨orig, _, h⟩ := h
  replace h := bpeel h; obtain ⟨s0, h0, h⟩ := h
  replace h := bpeel h; obtain ⟨_, _, h⟩ := h
  replace h := bpeel h; obtain ⟨att, hat, h⟩ := h
  replace h := bpeel h; obtain ⟨⟨s1, c1⟩, h1, h⟩ := h
  replace h := bpeel h; obtain ⟨part, hpart, h⟩ := h
  replace h := bpeel h; obtain ⟨⟨s2, boosted⟩, h2, h⟩ := h
  replace h := bpeel h; obtain ⟨res, _, h⟩ := h
  replace h := bpeel h; obtain ⟨sup, hsup, h⟩ := h
  replace h := bpeel h; obtain ⟨s4, h4, h⟩ := h
  replace h := bpeel h; obtain ⟨pen, hpen, h⟩ := h
  replace h := bpeel h; obtain ⟨out, _, h⟩ := h
  replace h := bpeel h; obtain ⟨s6, h6, h⟩ := h
  replace h := bpeel h; obtain ⟨s7, h7, h⟩ := h
  replace h := bpeel h; obtain ⟨s8, h8, h⟩ := h
  simp only [Option.pure_def, Option.some.injEq, Prod.mk.injEq] at h
  obtain ⟨rfl, _⟩ := h
  have q0 := (EQ.start hI).of_w (takePayments_w h0) (week_of_pmv (takePayments_pmv h0))
  have q1 := q0.of_w (generate_w h1) (week_of_pmv (generate_pmv h1))
  have q2 := claimBoostedYields_eq q1 h2
  have q3 : EQ s.w (decreaseOwner s2 att.owner a) := q2.of_w rfl rfl
  have q4 : EQ s.w s4 := q3.keep (setFarmSupplyWeek_w h4) (setFarmSupplyWeek_keep h4)
  have q5 : EQ s.w (Cache.drop s4 { c1 with reserve := res, supply := sup }) := q4.of_w rfl rfl
  have q6 : EQ s.w s6 := q5.of_w (removeFarming_w h6) (week_of_pmv (removeFarming_pmv h6))
  have q7 := q6.of_w (payReward_w h7) (week_of_pmv (payReward_pmv h7))
  exact clearUserEnergyIfNeeded_eq q7 h8

theorem mergeFarmTokens_eq {s s' : St} {caller : Nat} {opt : Option Nat} {pays : List (Nat × Nat)}
    {o : Out} (hI : WInv s) (h : mergeFarmTokens s caller opt pays = some (s', o)) : EQ s.w s' := by
  simp only [mergeFarmTokens, Option.bind_eq_bind, Option.bind_eq_some_iff, req_eq_some, Option.pure_def,
    Option.some.injEq, Prod.mk.injEq] at h
  obtain ⟨_, hact, orig, _, _, _, s0, h0, ⟨s1, boosted⟩, h1, s2, h2, merged, hm, ⟨s3, n⟩, h3, s4, h4, rfl, rfl⟩ := h
  have q0 := (EQ.start hI).of_w (takePayments_w h0) (week_of_pmv (takePayments_pmv h0))
  have q1 := claimOnlyBoostedPayment_eq q0 h1
  have q2 := q1.keep (checkAndUpdate_w h2) (checkAndUpdate_keep h2)
  have q3 := q2.of_w (createToken_w h3) (week_of_pmv (createToken_pmv h3))
  exact q3.of_w (payReward_w h4) (week_of_pmv (payReward_pmv h4))

theorem claimBoostedRewards_eq {s s' : St} {caller : Nat} {optUser : Option Nat} {o : Out}
    (hI : WInv s) (h : claimBoostedRewards s caller optUser = some (s', o)) : EQ s.w s' := by
  simp only [claimBoostedRewards, Option.bind_eq_bind, Option.bind_eq_some_iff, req_eq_some, Option.pure_def,
    Option.some.injEq, Prod.mk.injEq, sub?_eq_some] at h
  obtain ⟨_, _, _, _, _, hact, ⟨s1, c1⟩, h1, ⟨s2, boosted⟩, h2, res, ⟨hle, rfl⟩, s3, h3, s4, h4, rfl, rfl⟩ := h
  have q1 := (EQ.start hI).of_w (generate_w h1) (week_of_pmv (generate_pmv h1))
  have q2 := claimBoostedYields_eq q1 h2
  have q3 := q2.keep (setFarmSupplyWeek_w h3) (setFarmSupplyWeek_keep h3)
  have q4 := q3.of_w (payReward_w h4) (week_of_pmv (payReward_pmv h4))
  have q5 : EQ s.w (Cache.drop s4 { c1 with reserve := c1.reserve - boosted }) := q4.of_w rfl rfl
  exact q5

/-! ### one operation -/

theorem EQ.of_same {s s' : St} (hI' : WInv s') (e : s'.w = s.w) : EQ s.w s' :=
  ⟨hI', by rw [e]; exact EStep.refl _, Or.inl e⟩

/-- every successful operation, seen from the embedded weekly module: an `EStep`, and the module is
    either untouched or was touched in the (post-state's) current week -/
theorem step_EQ {s s' : St} {op : Op} {o : Out} (hI : WInv s) (h : step s op = some (s', o)) :
    EQ s.w s' := by
  have hI' := step_winv hI h
  cases op <;> simp only [step, known] at h
  case enter c oo a e =>
    split at h <;> [skip; exact absurd h (by simp)]
    simp only [enterFarm, Option.bind_eq_bind, Option.bind_eq_some_iff] at h
    obtain ⟨_, _, h⟩ := h
    exact enterCore_eq hI h
  case enterOB c u a e =>
    split at h <;> [skip; exact absurd h (by simp)]
    simp only [enterFarmOnBehalf, Option.bind_eq_bind, Option.bind_eq_some_iff] at h
    obtain ⟨_, _, _, _, h⟩ := h
    exact enterCore_eq hI h
  case claim c oo p =>
    split at h <;> [skip; exact absurd h (by simp)]
    simp only [claimRewards, Option.bind_eq_bind, Option.bind_eq_some_iff] at h
    obtain ⟨_, _, h⟩ := h
    exact claimCore_eq hI h
  case claimOB c p =>
    split at h <;> [skip; exact absurd h (by simp)]
    simp only [claimRewardsOnBehalf, Option.bind_eq_bind, Option.bind_eq_some_iff] at h
    obtain ⟨_, _, _, _, _, _, h⟩ := h
    exact claimCore_eq hI h
  case compound c oo p =>
    split at h <;> [skip; exact absurd h (by simp)]
    simp only [compoundRewards, Option.bind_eq_bind, Option.bind_eq_some_iff, req_eq_some] at h
    obtain ⟨_, hk, _, _, h⟩ := h
    exact claimCore_eq hI h
  case exit c oo n a =>
    split at h <;> [skip; exact absurd h (by simp)]
    exact exitFarm_eq hI h
  case merge c oo p =>
    split at h <;> [skip; exact absurd h (by simp)]
    exact mergeFarmTokens_eq hI h
  case claimBoosted c u =>
    split at h <;> [skip; exact absurd h (by simp)]
    exact claimBoostedRewards_eq hI h
  case transfer a b n x =>
    split at h <;> [skip; exact absurd h (by simp)]
    split at h <;> [skip; exact absurd h (by simp)]
    simp only [noOut, Option.map_eq_some_iff, Prod.mk.injEq] at h
    obtain ⟨s1, h1, rfl, _⟩ := h
    simp only [transfer, Option.bind_eq_bind, Option.bind_eq_some_iff, req_eq_some, sub?_eq_some,
      Option.pure_def, Option.some.injEq] at h1
    obtain ⟨_, _, _, _, _, _, _, _, rfl⟩ := h1
    exact EQ.of_same hI' rfl
  case setEnergy u a l t =>
    simp only [Option.some.injEq, Prod.mk.injEq] at h
    obtain ⟨rfl, _⟩ := h
    exact EQ.of_same hI' rfl
  case updateEnergy u =>
    simp only [noOut, Option.map_eq_some_iff, Prod.mk.injEq] at h
    obtain ⟨s1, h1, rfl, _⟩ := h
    exact updateEnergyForUser_eq (EQ.start hI) h1
  case setPerBlock c x =>
    simp only [noOut, Option.map_eq_some_iff, Prod.mk.injEq] at h
    obtain ⟨s1, h1, rfl, _⟩ := h
    simp only [setPerBlock, Option.bind_eq_bind, Option.bind_eq_some_iff, Option.pure_def,
      Option.some.injEq] at h1
    obtain ⟨_, _, _, _, s2, h2, rfl⟩ := h1
    exact EQ.of_same hI' (settle_w h2 : s2.w = s.w)
  case startProduce c =>
    simp only [noOut, Option.map_eq_some_iff, Prod.mk.injEq] at h
    obtain ⟨s1, h1, rfl, _⟩ := h
    simp only [startProduce, Option.bind_eq_bind, Option.bind_eq_some_iff, Option.pure_def,
      Option.some.injEq] at h1
    obtain ⟨_, _, _, _, _, _, rfl⟩ := h1
    exact EQ.of_same hI' rfl
  case endProduce c =>
    simp only [noOut, Option.map_eq_some_iff, Prod.mk.injEq] at h
    obtain ⟨s1, h1, rfl, _⟩ := h
    simp only [endProduce, Option.bind_eq_bind, Option.bind_eq_some_iff, Option.pure_def,
      Option.some.injEq] at h1
    obtain ⟨_, _, s2, h2, rfl⟩ := h1
    exact EQ.of_same hI' (settle_w h2 : s2.w = s.w)
  case setPct c p =>
    simp only [noOut, Option.map_eq_some_iff, Prod.mk.injEq] at h
    obtain ⟨s1, h1, rfl, _⟩ := h
    simp only [setPct, Option.bind_eq_bind, Option.bind_eq_some_iff, Option.pure_def,
      Option.some.injEq] at h1
    obtain ⟨_, _, _, _, s2, h2, rfl⟩ := h1
    exact EQ.of_same hI' (settle_w h2 : s2.w = s.w)
  case setFactors c f =>
    simp only [noOut, Option.map_eq_some_iff, Prod.mk.injEq] at h
    obtain ⟨s1, h1, rfl, _⟩ := h
    simp only [setFactors, Option.bind_eq_bind, Option.bind_eq_some_iff, Option.pure_def] at h1
    obtain ⟨_, _, _, _, _, _, W, _, h1⟩ := h1
    split at h1
    · simp only [Option.bind_eq_some_iff, Option.some.injEq] at h1
      obtain ⟨_, _, rfl⟩ := h1
      exact EQ.of_same hI' rfl
    · simp only [Option.some.injEq] at h1
      subst h1
      exact EQ.of_same hI' rfl
  case collect c =>
    simp only [noOut, Option.map_eq_some_iff, Prod.mk.injEq] at h
    obtain ⟨s1, h1, rfl, _⟩ := h
    simp only [collectUndistributed, Option.bind_eq_bind, Option.bind_eq_some_iff, Option.pure_def,
      req_eq_some] at h1
    obtain ⟨_, _, W, _, _, _, h1⟩ := h1
    split at h1 <;> simp only [Option.some.injEq] at h1 <;> subst h1 <;> exact EQ.of_same hI' rfl
  case pause c =>
    simp only [noOut, Option.map_eq_some_iff, Prod.mk.injEq] at h
    obtain ⟨s1, h1, rfl, _⟩ := h
    simp only [setActive, Option.bind_eq_bind, Option.bind_eq_some_iff, Option.pure_def,
      Option.some.injEq] at h1
    obtain ⟨_, _, rfl⟩ := h1
    exact EQ.of_same hI' rfl
  case resume c =>
    simp only [noOut, Option.map_eq_some_iff, Prod.mk.injEq] at h
    obtain ⟨s1, h1, rfl, _⟩ := h
    simp only [setActive, Option.bind_eq_bind, Option.bind_eq_some_iff, Option.pure_def,
      Option.some.injEq] at h1
    obtain ⟨_, _, rfl⟩ := h1
    exact EQ.of_same hI' rfl
  case setPenalty c p =>
    simp only [noOut, Option.map_eq_some_iff, Prod.mk.injEq] at h
    obtain ⟨s1, h1, rfl, _⟩ := h
    simp only [setPenalty, Option.bind_eq_bind, Option.bind_eq_some_iff, Option.pure_def,
      Option.some.injEq] at h1
    obtain ⟨_, _, _, _, rfl⟩ := h1
    exact EQ.of_same hI' rfl
  case setMinEpochs c n =>
    simp only [noOut, Option.map_eq_some_iff, Prod.mk.injEq] at h
    obtain ⟨s1, h1, rfl, _⟩ := h
    simp only [setMinEpochs, Option.bind_eq_bind, Option.bind_eq_some_iff, Option.pure_def,
      Option.some.injEq] at h1
    obtain ⟨_, _, _, _, rfl⟩ := h1
    exact EQ.of_same hI' rfl
  case hubWhitelist u a =>
    split at h
    · cases h
    · simp only [Option.some.injEq, Prod.mk.injEq] at h; obtain ⟨rfl, _⟩ := h; exact EQ.of_same hI' rfl
  case hubRemove u a =>
    split at h
    · simp only [Option.some.injEq, Prod.mk.injEq] at h; obtain ⟨rfl, _⟩ := h; exact EQ.of_same hI' rfl
    · cases h
  case hubBlacklist a =>
    simp only [Option.some.injEq, Prod.mk.injEq] at h; obtain ⟨rfl, _⟩ := h; exact EQ.of_same hI' rfl
  case scWhitelist a =>
    split at h
    · cases h
    · simp only [Option.some.injEq, Prod.mk.injEq] at h; obtain ⟨rfl, _⟩ := h; exact EQ.of_same hI' rfl
  case scUnwhitelist a =>
    split at h
    · simp only [Option.some.injEq, Prod.mk.injEq] at h; obtain ⟨rfl, _⟩ := h; exact EQ.of_same hI' rfl
    · cases h
  case advance b e =>
    split at h
    · simp only [Option.some.injEq, Prod.mk.injEq] at h; obtain ⟨rfl, _⟩ := h; exact EQ.of_same hI' rfl
    · cases h
  case bad => cases h

/-- **every successful operation is an `EStep`** of the embedded weekly module: the last globally
    updated week moves forward only; the total energy of every week other than the new global week
    is kept — or it is week `lastGlobalUpdateWeek − 5` and cleared -/
theorem step_EStep {s s' : St} {op : Op} {o : Out} (hI : WInv s) (h : step s op = some (s', o)) :
    EStep s.w s'.w := (step_EQ hI h).est

/-- no operation changes the total energy of a claimable week: with `W` the current week after
    the operation, `totalEnergyForWeek(w)` is untouched for `W − 4 ≤ w < W` -/
theorem step_energy_window {s s' : St} {op : Op} {o : Out} (hI : WInv s) (h : step s op = some (s', o))
    {W : Nat} (hW : s'.week = some W) (w : Nat) (h1 : w < W) (h2 : W ≤ w + 4) :
    s'.w.totalEnergy w = s.w.totalEnergy w := by
  have q := step_EQ hI h
  rcases q.at_ with e | ⟨W', hW', hl⟩
  · rw [e]
  · have : W' = W := by rw [hW] at hW'; simp only [Option.some.injEq] at hW'; exact hW'.symm
    subst this
    rcases q.est.frame w (by omega) with e | ⟨_, e5⟩
    · exact e
    · omega

/-- the denominator a logged payment was computed with is not moved by the paying operation -/
theorem stepLog_energy_kept {s : St} (hI : WInv s) {op : Op} {e : Entry} (he : e ∈ stepLog s op) :
    (next s op).w.totalEnergy e.week = s.w.totalEnergy e.week := by
  obtain ⟨u, r, _, hs, hm⟩ := stepLog_cases he
  obtain ⟨_, h4, hlt, _⟩ := stepLog_window he
  have hne := (mem_entriesOf hm).2.2.1
  have hs' : step s op = some (r.1, r.2) := by rw [hs]
  rw [next_of_some hs]
  obtain ⟨_, _, hq | ⟨u', W, hW, eff, _⟩⟩ := step_eff hs'
  · exact absurd (congrFun hq.1 e.week) hne
  · have hWc := week_curWeek hW
    have hW' : r.1.week = some W := by rw [eff.week]; exact hW
    exact step_energy_window hI hs' hW' e.week (by omega) (by omega)

/-! ### over histories -/

theorem next_EStep {s : St} (hI : WInv s) (op : Op) : EStep s.w (next s op).w := by
  cases hs : step s op with
  | none => rw [next_of_none hs]; exact EStep.refl _
  | some r => rw [next_of_some hs]; exact step_EStep (o := r.2) hI (by rw [hs])

theorem next_winv {s : St} (hI : WInv s) (op : Op) : WInv (next s op) := by
  cases hs : step s op with
  | none => rw [next_of_none hs]; exact hI
  | some r => rw [next_of_some hs]; exact step_winv (o := r.2) hI (by rw [hs])

/-- Σ of the recorded energies decayed to week `w`, taken in the last state of the history
    (started in `s`) in which `w` was the last globally updated week; `acc` if there is none -/
def closeSum (w : Nat) : St → List Op → Nat → Nat
  | s, [], acc => Weekly.closeAcc s.w acc w
  | s, op :: ops, acc => closeSum w (next s op) ops (Weekly.closeAcc s.w acc w)

/-- **denominator of a closed week, generalised for the induction** -/
theorem closeSum_exact_from (w : Nat) (ops : List Op) : ∀ {s : St} {acc : Nat},
    WInv s → Weekly.CloseInv s.w acc w →
    (run s ops).w.totalEnergy w = closeSum w s ops acc ∨
      ((run s ops).w.totalEnergy w = 0 ∧ w + 4 < (run s ops).w.lastGlobalUpdateWeek) := by
  induction ops with
  | nil => intro s acc hI hC; exact hC.read hI.1
  | cons op ops ih =>
    intro s acc hI hC
    rw [run_cons]
    simp only [closeSum]
    exact ih (next_winv hI op) (hC.step hI.1 (next_EStep hI op))

theorem init_CloseInv (kind : Kind) (sameTok : Bool) (dsc perBlock : Nat) (produce : Bool)
    (users : List Nat) (e0 : Nat) (w : Nat) :
    Weekly.CloseInv (init kind sameTok dsc perBlock produce users e0).w 0 w :=
  ⟨fun _ => rfl, fun h => absurd h (Nat.not_lt_zero _)⟩

end Mx.Farm
