/-
  Payment FLOW of every operation of the farm model, stated on the farm's own counters
  (`paid`, `balFarming`, `penaltyBurned`) and the operation's `Out` record — the facts the wallet
  ledger (`Core/FarmLedger.lean`) needs: what `moveF` hands to the accounts is exactly what the farm
  books as paid / received.
  Technique of Lemmas/FarmAcct.lean: every helper is characterised on a small VIEW `fv s`, endpoint
  proofs chain those view equations by rewriting.
-/
import MxModel.Core.FarmLedger
import MxModel.Lemmas.FarmSameTok
import MxModel.Lemmas.AccessModelsFarm

namespace Mx.FarmLedger
open Mx.Farm
open Mx.Weekly (upd Energy)

/-- flow view of the farm state -/
structure FV where
  paid : Nat
  balFarming : Nat
  burned : Nat
  users : List Nat

def fv (s : St) : FV := ⟨s.paid, s.balFarming, s.penaltyBurned, s.users⟩

def FV.pay (v : FV) (x : Nat) : FV := { v with paid := v.paid + x }
def FV.addF (v : FV) (x : Nat) : FV := { v with balFarming := v.balFarming + x }
def FV.remF (v : FV) (x p : Nat) : FV := { v with balFarming := v.balFarming - x, burned := v.burned + p }

theorem FV.pay_zero (v : FV) : v.pay 0 = v := rfl

/-! ### helpers -/

theorem takePayments_fv {l : List (Nat × Nat)} {s s' : St} {c : Nat} (h : takePayments s c l = some s') :
    fv s' = fv s := by obtain ⟨_, rfl⟩ := takePayments_spec l h; rfl
theorem checkAndUpdate_fv {l : List (Nat × Nat)} {s s' : St} {c : Nat} (h : checkAndUpdate s c l = some s') :
    fv s' = fv s := by obtain ⟨_, rfl⟩ := checkAndUpdate_spec l h; rfl
theorem claimBoostedYields_fv {s s' : St} {u r : Nat} (h : claimBoostedYields s u = some (s', r)) :
    fv s' = fv s := by obtain ⟨_, _, rfl⟩ := claimBoostedYields_struct h; rfl
theorem setFarmSupplyWeek_fv {s s' : St} {v : Nat} (h : setFarmSupplyWeek s v = some s') :
    fv s' = fv s := by obtain ⟨_, _, rfl⟩ := setFarmSupplyWeek_spec h; rfl
theorem updateEnergyAndProgress_fv {s s' : St} {u : Nat} (h : updateEnergyAndProgress s u = some s') :
    fv s' = fv s := by obtain ⟨_, rfl⟩ := updateEnergyAndProgress_spec h; rfl
theorem createToken_fv {s s' : St} {d n : Nat} {a : Attr} (h : createToken s d a = some (s', n)) :
    fv s' = fv s := by obtain ⟨_, _, rfl⟩ := createToken_spec h; rfl
theorem generate_fv {s s' : St} {c c' : Cache} (h : generate s c = some (s', c')) :
    fv s' = fv s := by obtain ⟨_, rfl, _⟩ := generate_spec h; rfl

theorem payReward_fv {s s' : St} {u base boosted : Nat} (h : payReward s u base boosted = some s') :
    fv s' = (fv s).pay (base + boosted) := by
  obtain ⟨_, _, rfl, _⟩ := payReward_spec h; rfl

theorem payRewardIf_fv {s s' : St} {k : Kind} {u boosted : Nat} (h : payRewardIf s k u 0 boosted = some s') :
    fv s' = (fv s).pay (if s.kind = k then boosted else 0) := by
  unfold payRewardIf at h
  split at h
  · rename_i hk
    rw [payReward_fv h, Nat.zero_add, if_pos hk]
  · rename_i hk
    simp only [Option.some.injEq] at h
    subst h; rw [if_neg hk]; rfl

theorem claimOnlyBoostedPayment_fv {s s' : St} {u r : Nat} (h : claimOnlyBoostedPayment s u = some (s', r)) :
    fv s' = fv s := by
  simp only [claimOnlyBoostedPayment, Option.bind_eq_bind, Option.bind_eq_some_iff, Option.pure_def] at h
  obtain ⟨⟨s1, r1⟩, h1, h⟩ := h
  have e1 := claimBoostedYields_fv h1
  split at h
  · simp only [Option.some.injEq, Prod.mk.injEq] at h
    obtain ⟨rfl, _⟩ := h; exact e1
  · simp only [Option.bind_eq_some_iff, sub?_eq_some, Option.some.injEq, Prod.mk.injEq] at h
    obtain ⟨_, _, rfl, _⟩ := h; exact e1

theorem removeFarming_fv {s s' : St} {a p : Nat} (h : removeFarming s a p = some s') :
    a ≤ s.balFarming ∧ fv s' = (fv s).remF a p := by
  simp only [removeFarming, Option.bind_eq_bind, Option.bind_eq_some_iff, sub?_eq_some, Option.pure_def,
    Option.some.injEq] at h
  obtain ⟨_, ⟨hle, rfl⟩, rfl⟩ := h
  exact ⟨hle, rfl⟩

theorem compoundMove_fv {s s' : St} {b bo : Nat} (h : compoundMove s b bo = some s') :
    fv s' = ((fv s).pay (b + bo)).addF (b + bo) := by
  simp only [compoundMove, Option.bind_eq_bind, Option.bind_eq_some_iff, sub?_eq_some, Option.pure_def,
    Option.some.injEq] at h
  obtain ⟨_, ⟨_, rfl⟩, rfl⟩ := h
  rfl

theorem clearUserEnergyIfNeeded_fv {s s' : St} {u : Nat} (h : clearUserEnergyIfNeeded s u = some s') :
    fv s' = fv s := by
  unfold clearUserEnergyIfNeeded at h
  split at h
  · simp only [Option.some.injEq] at h; rw [← h]
  · simp only [Option.bind_eq_bind, Option.bind_eq_some_iff, Option.pure_def, Option.some.injEq] at h
    obtain ⟨_, _, _, _, _, _, rfl⟩ := h
    rfl

theorem claimTail_fv {s s' : St} {c : Bool} {u b bo : Nat} (h : claimTail s c u b bo = some s') :
    fv s' = if c then ((fv s).pay (b + bo)).addF (b + bo) else (fv s).pay (b + bo) := by
  unfold claimTail at h
  split at h
  · rename_i hc
    simp only [Option.bind_eq_some_iff] at h
    obtain ⟨s1, h1, h2⟩ := h
    rw [updateEnergyAndProgress_fv h2, compoundMove_fv h1, if_pos hc]
  · rename_i hc
    rw [payReward_fv h, if_neg hc]

theorem settle_fv {s s' : St} (h : settle s = some s') : fv s' = fv s := by
  simp only [settle, Option.bind_eq_bind, Option.bind_eq_some_iff, Option.pure_def, Option.some.injEq] at h
  obtain ⟨⟨s1, c1⟩, h1, rfl⟩ := h
  exact (generate_fv h1 : fv s1 = fv s)

/-! ### endpoints -/

theorem enterCore_fv {s s' : St} {caller orig tokenTo amt : Nat} {extra : List (Nat × Nat)} {o : Out}
    (h : enterCore s caller orig tokenTo amt extra = some (s', o)) :
    fv s' = ((fv s).addF amt).pay o.rew := by
  simp only [enterCore, Option.bind_eq_bind, Option.bind_eq_some_iff, req_eq_some, Option.pure_def,
    Option.some.injEq, Prod.mk.injEq] at h
  obtain ⟨_, _, s0, h0, ⟨s1, boosted⟩, h1, s1', h1', _, hact, s2, h2, ⟨s4, c1⟩, h4, merged, hm,
    ⟨s5, n⟩, h5, s6, h6, s8, h8, s9, h9, rfl, rfl⟩ := h
  have e0 := takePayments_fv h0
  have e1 := claimOnlyBoostedPayment_fv h1
  have e1' := payRewardIf_fv h1'
  have e2 := checkAndUpdate_fv h2
  have e4 := generate_fv h4
  have e5 := createToken_fv h5
  have e6 := setFarmSupplyWeek_fv h6
  have e8 := payRewardIf_fv h8
  have e9 := updateEnergyAndProgress_fv h9
  have k0 : s0.kind = s.kind := takePayments_kind h0
  have k1 : s1.kind = s.kind := (claimOnlyBoostedPayment_kind h1).trans k0
  have k1' : s1'.kind = s.kind := (payRewardIf_kind h1').trans k1
  have k2 : s2.kind = s.kind := (checkAndUpdate_kind h2).trans k1'
  have k4 : s4.kind = s.kind := (generate_kind h4).trans k2
  have k5 : s5.kind = s.kind := (createToken_kind h5).trans k4
  have k6 : s6.kind = s.kind := (setFarmSupplyWeek_kind h6).trans k5
  have k7 : (Cache.drop s6 { reserve := c1.reserve, rps := c1.rps, supply := c1.supply + amt }).kind = s.kind := k6
  have f7 : fv (Cache.drop s6 { reserve := c1.reserve, rps := c1.rps, supply := c1.supply + amt }) = fv s6 := rfl
  have f3 : fv (increaseUser s2 orig amt) = fv s2 := rfl
  have f0 : fv (addFarming s0 amt) = (fv s0).addF amt := rfl
  rw [k1] at e1'
  rw [k7] at e8
  rw [e9, e8, f7, e6, e5, e4, f3, e2, e1', e1, f0, e0]
  cases hk : s.kind <;> simp [FV.pay, FV.addF]

theorem claimCore_fv {s s' : St} {caller orig : Nat} {pays : List (Nat × Nat)} {cmp : Bool} {o : Out}
    (h : claimCore s caller orig pays cmp = some (s', o)) :
    (fv s' = if cmp then ((fv s).pay o.rew).addF o.rew else (fv s).pay o.rew) ∧
    (cmp = true → s.sameTok = true) := by
  simp only [claimCore, Option.bind_eq_bind, Option.bind_eq_some_iff, req_eq_some, Option.pure_def,
    Option.some.injEq, Prod.mk.injEq, sub?_eq_some] at h
  obtain ⟨⟨n1, a1⟩, _, s0, h0, _, hact, _, hsame, at1, hat, ⟨s1, c1⟩, h1, part, hpart, ⟨s2, boosted⟩, h2,
    res, ⟨hle, rfl⟩, s3, h3, merged, hm, ⟨s5, n⟩, h5, s6, h6, s8, h8, rfl, rfl⟩ := h
  have e0 := takePayments_fv h0
  have e1 := generate_fv h1
  have e2 := claimBoostedYields_fv h2
  have e3 := checkAndUpdate_fv h3
  have e5 := createToken_fv h5
  have e6 := setFarmSupplyWeek_fv h6
  have e8 := claimTail_fv h8
  refine ⟨?_, fun hc => (hsame hc).symm ▸ (takePayments_sameTok h0) ▸ rfl⟩
  generalize baseReward s1.dsc c1.rps a1 part.rps = B at *
  have e4 : fv (if cmp = true then increaseUser s3 orig (B + boosted) else s3) = fv s3 := by
    cases cmp <;> rfl
  rw [e4] at e5
  have f7 : fv (Cache.drop s6 ⟨c1.reserve - (B + boosted), c1.rps,
      if cmp = true then c1.supply + (B + boosted) else c1.supply⟩) = fv s6 := rfl
  rw [f7, e6, e5, e3, e2, e1, e0] at e8
  exact e8

theorem exitFarm_fv {s s' : St} {caller : Nat} {opt : Option Nat} {n a : Nat} {o : Out}
    (h : exitFarm s caller opt n a = some (s', o)) :
    ∃ X P, X ≤ s.balFarming ∧ P + o.farming = X ∧ fv s' = ((fv s).remF X P).pay o.rew := by
  simp (config := { maxSteps := 1000000 }) only [exitFarm, Option.bind_eq_bind, Option.bind_eq_some_iff, req_eq_some, Option.pure_def,
    Option.some.injEq, Prod.mk.injEq, sub?_eq_some] at h
  obtain ⟨orig, _, s0, h0, _, hact, att, hat, ⟨s1, c1⟩, h1, part, hpart, ⟨s2, boosted⟩, h2,
    res, ⟨hle, rfl⟩, sup, ⟨hsup, rfl⟩, s4, h4, pen, hpen, out, ⟨hpo, rfl⟩, s6, h6, s7, h7, s8, h8, rfl, rfl⟩ := h
  have e0 := takePayments_fv h0
  have e1 := generate_fv h1
  have e2 := claimBoostedYields_fv h2
  have e4 := setFarmSupplyWeek_fv h4
  obtain ⟨hle6, e6⟩ := removeFarming_fv h6
  have e7 := payReward_fv h7
  have e8 := clearUserEnergyIfNeeded_fv h8
  have f3 : fv (decreaseOwner s2 att.owner a) = fv s2 := rfl
  have f5 : ∀ c : Cache, fv (Cache.drop s4 c) = fv s4 := fun _ => rfl
  have hb : (Cache.drop s4 ⟨c1.reserve - (baseReward s1.dsc c1.rps a part.rps + boosted), c1.rps,
      c1.supply - part.amt⟩).balFarming = s.balFarming := by
    have : (fv s4).balFarming = (fv s).balFarming := by rw [e4, f3, e2, e1, e0]
    exact this
  refine ⟨part.amt, pen, ?_, Nat.add_sub_of_le hpo, ?_⟩
  · rw [← hb]; exact hle6
  · rw [e8, e7, e6, f5, e4, f3, e2, e1, e0]

theorem mergeFarmTokens_fv {s s' : St} {caller : Nat} {opt : Option Nat} {pays : List (Nat × Nat)} {o : Out}
    (h : mergeFarmTokens s caller opt pays = some (s', o)) : fv s' = (fv s).pay o.rew := by
  simp only [mergeFarmTokens, Option.bind_eq_bind, Option.bind_eq_some_iff, req_eq_some, Option.pure_def,
    Option.some.injEq, Prod.mk.injEq] at h
  obtain ⟨_, hact, orig, _, _, _, s0, h0, ⟨s1, boosted⟩, h1, s2, h2, merged, hm, ⟨s3, n⟩, h3, s4, h4, rfl, rfl⟩ := h
  rw [payReward_fv h4, createToken_fv h3, checkAndUpdate_fv h2, claimOnlyBoostedPayment_fv h1,
    takePayments_fv h0, Nat.zero_add]

theorem claimBoostedRewards_fv {s s' : St} {caller : Nat} {optUser : Option Nat} {o : Out}
    (h : claimBoostedRewards s caller optUser = some (s', o)) : fv s' = (fv s).pay o.rew := by
  simp only [claimBoostedRewards, Option.bind_eq_bind, Option.bind_eq_some_iff, req_eq_some, Option.pure_def,
    Option.some.injEq, Prod.mk.injEq, sub?_eq_some] at h
  obtain ⟨_, _, _, _, _, hact, ⟨s1, c1⟩, h1, ⟨s2, boosted⟩, h2, res, ⟨hle, rfl⟩, s3, h3, s4, h4, rfl, rfl⟩ := h
  have f5 : ∀ c : Cache, fv (Cache.drop s4 c) = fv s4 := fun _ => rfl
  rw [f5, payReward_fv h4, setFarmSupplyWeek_fv h3, claimBoostedYields_fv h2, generate_fv h1, Nat.zero_add]

/-! ### every operation -/

/-- what a compound adds to the principal without any transfer -/
def compAmt : Op → Out → Nat
  | .compound _ _ _, o => o.rew
  | _, _ => 0

/-- the flow of one successful operation, in the vocabulary of `moveF` -/
structure Flow (s s' : St) (op : Op) (o : Out) : Prop where
  users : s'.users = s.users
  /-- the farm books as paid exactly what `moveF` hands out (plus what a compound keeps inside) -/
  paid : s'.paid = s.paid + (moveF s op o).rew + compAmt op o
  burned : s.penaltyBurned ≤ s'.penaltyBurned
  /-- farming tokens: in − out − burned = growth of the farm's farming balance -/
  farming : s'.balFarming + (moveF s op o).getFarming + (s'.penaltyBurned - s.penaltyBurned)
      = s.balFarming + (moveF s op o).payFarming + compAmt op o
  /-- farming tokens only move between the farm and the caller, an account of the world -/
  payer : (moveF s op o).payer ∈ s.users ∨ ((moveF s op o).payFarming = 0 ∧ (moveF s op o).getFarming = 0)
  /-- a compound needs farming token = reward token in a minting farm -/
  comp : compAmt op o ≠ 0 → sameCol s = true

theorem Flow.of_same {s s' : St} {op : Op} {o : Out} (h : fv s' = fv s)
    (hm : moveF s op o = {}) (hc : compAmt op o = 0) : Flow s s' op o := by
  simp only [fv, FV.mk.injEq] at h
  obtain ⟨a1, a2, a3, a4⟩ := h
  refine ⟨a4, ?_, by omega, ?_, Or.inr ?_, fun hh => absurd hc hh⟩
  · rw [hm, hc]; exact a1
  · rw [hm, hc, a2, a3]; simp
  · rw [hm]; exact ⟨rfl, rfl⟩

theorem Flow.of_pay {s s' : St} {op : Op} {o : Out} {c : Nat} (hc : c ∈ s.users)
    (h : fv s' = (fv s).pay o.rew)
    (hm : (moveF s op o).rew = o.rew ∧ (moveF s op o).payFarming = 0 ∧ (moveF s op o).getFarming = 0)
    (hcomp : compAmt op o = 0) : Flow s s' op o := by
  simp only [fv, FV.pay, FV.mk.injEq] at h
  obtain ⟨a1, a2, a3, a4⟩ := h
  obtain ⟨m1, m2, m3⟩ := hm
  refine ⟨a4, ?_, by omega, ?_, Or.inr ⟨m2, m3⟩, fun hh => absurd hcomp hh⟩
  · rw [m1, hcomp]; exact a1
  · rw [m2, m3, hcomp, a2, a3]; simp

theorem step_flow {s s' : St} {op : Op} {o : Out} (h : step s op = some (s', o)) : Flow s s' op o := by
  cases op <;> simp only [step, known] at h
  case enter c oo a e =>
    split at h <;> [skip; exact absurd h (by simp)]
    rename_i hc
    simp only [enterFarm, Option.bind_eq_bind, Option.bind_eq_some_iff] at h
    obtain ⟨_, _, h⟩ := h
    have e := enterCore_fv h
    simp only [fv, FV.pay, FV.addF, FV.mk.injEq] at e
    obtain ⟨a1, a2, a3, a4⟩ := e
    exact ⟨a4, by simp only [moveF, compAmt]; omega, by omega, by simp only [moveF, compAmt]; omega,
      Or.inl hc, fun hh => absurd rfl hh⟩
  case enterOB c u a e =>
    split at h <;> [skip; exact absurd h (by simp)]
    rename_i hc
    simp only [enterFarmOnBehalf, Option.bind_eq_bind, Option.bind_eq_some_iff] at h
    obtain ⟨_, _, _, _, h⟩ := h
    have e := enterCore_fv h
    simp only [fv, FV.pay, FV.addF, FV.mk.injEq] at e
    obtain ⟨a1, a2, a3, a4⟩ := e
    exact ⟨a4, by simp only [moveF, compAmt]; omega, by omega, by simp only [moveF, compAmt]; omega,
      Or.inl hc, fun hh => absurd rfl hh⟩
  case claim c oo p =>
    split at h <;> [skip; exact absurd h (by simp)]
    rename_i hc
    simp only [claimRewards, Option.bind_eq_bind, Option.bind_eq_some_iff] at h
    obtain ⟨_, _, h⟩ := h
    have e := (claimCore_fv h).1
    simp only [Bool.false_eq_true, if_false] at e
    exact Flow.of_pay hc e ⟨rfl, rfl, rfl⟩ rfl
  case claimOB c p =>
    split at h <;> [skip; exact absurd h (by simp)]
    rename_i hc
    simp only [claimRewardsOnBehalf, Option.bind_eq_bind, Option.bind_eq_some_iff] at h
    obtain ⟨_, _, _, _, _, _, h⟩ := h
    have e := (claimCore_fv h).1
    simp only [Bool.false_eq_true, if_false] at e
    exact Flow.of_pay hc e ⟨rfl, rfl, rfl⟩ rfl
  case compound c oo p =>
    split at h <;> [skip; exact absurd h (by simp)]
    rename_i hc
    simp only [compoundRewards, Option.bind_eq_bind, Option.bind_eq_some_iff, req_eq_some] at h
    obtain ⟨_, hk, _, _, h⟩ := h
    obtain ⟨e, hs⟩ := claimCore_fv h
    simp only [if_true, fv, FV.pay, FV.addF, FV.mk.injEq] at e
    obtain ⟨a1, a2, a3, a4⟩ := e
    refine ⟨a4, by simp only [moveF, compAmt]; omega, by omega, by simp only [moveF, compAmt]; omega,
      Or.inl hc, fun _ => ?_⟩
    simp [sameCol, hs rfl, hk]
  case exit c oo n a =>
    split at h <;> [skip; exact absurd h (by simp)]
    rename_i hc
    obtain ⟨X, P, hX, hP, e⟩ := exitFarm_fv h
    simp only [fv, FV.pay, FV.remF, FV.mk.injEq] at e
    obtain ⟨a1, a2, a3, a4⟩ := e
    exact ⟨a4, by simp only [moveF, compAmt]; omega, by omega, by simp only [moveF, compAmt]; omega,
      Or.inl hc, fun hh => absurd rfl hh⟩
  case merge c oo p =>
    split at h <;> [skip; exact absurd h (by simp)]
    rename_i hc
    exact Flow.of_pay hc (mergeFarmTokens_fv h) ⟨rfl, rfl, rfl⟩ rfl
  case claimBoosted c u =>
    split at h <;> [skip; exact absurd h (by simp)]
    rename_i hc
    exact Flow.of_pay hc (claimBoostedRewards_fv h) ⟨rfl, rfl, rfl⟩ rfl
  case transfer a b n x =>
    split at h <;> [skip; exact absurd h (by simp)]
    split at h <;> [skip; exact absurd h (by simp)]
    simp only [noOut, Option.map_eq_some_iff, Prod.mk.injEq] at h
    obtain ⟨s1, h1, rfl, _⟩ := h
    simp only [transfer, Option.bind_eq_bind, Option.bind_eq_some_iff, req_eq_some, sub?_eq_some,
      Option.pure_def, Option.some.injEq] at h1
    obtain ⟨_, _, _, _, _, _, _, _, rfl⟩ := h1
    exact Flow.of_same rfl rfl rfl
  case setEnergy u a l t =>
    simp only [Option.some.injEq, Prod.mk.injEq] at h
    obtain ⟨rfl, _⟩ := h
    exact Flow.of_same rfl rfl rfl
  case updateEnergy u =>
    simp only [noOut, Option.map_eq_some_iff, Prod.mk.injEq] at h
    obtain ⟨s1, h1, rfl, _⟩ := h
    simp only [updateEnergyForUser, Option.bind_eq_bind, Option.bind_eq_some_iff, Option.pure_def,
      Option.some.injEq] at h1
    obtain ⟨_, _, _, _, rfl⟩ := h1
    exact Flow.of_same rfl rfl rfl
  case setPerBlock c x =>
    simp only [noOut, Option.map_eq_some_iff, Prod.mk.injEq] at h
    obtain ⟨s1, h1, rfl, _⟩ := h
    simp only [setPerBlock, Option.bind_eq_bind, Option.bind_eq_some_iff, Option.pure_def,
      Option.some.injEq] at h1
    obtain ⟨_, _, _, _, s2, h2, rfl⟩ := h1
    exact Flow.of_same (Eq.trans (b := fv s2) rfl (settle_fv h2)) rfl rfl
  case startProduce c =>
    simp only [noOut, Option.map_eq_some_iff, Prod.mk.injEq] at h
    obtain ⟨s1, h1, rfl, _⟩ := h
    simp only [startProduce, Option.bind_eq_bind, Option.bind_eq_some_iff, Option.pure_def,
      Option.some.injEq] at h1
    obtain ⟨_, _, _, _, _, _, rfl⟩ := h1
    exact Flow.of_same rfl rfl rfl
  case endProduce c =>
    simp only [noOut, Option.map_eq_some_iff, Prod.mk.injEq] at h
    obtain ⟨s1, h1, rfl, _⟩ := h
    simp only [endProduce, Option.bind_eq_bind, Option.bind_eq_some_iff, Option.pure_def,
      Option.some.injEq] at h1
    obtain ⟨_, _, s2, h2, rfl⟩ := h1
    exact Flow.of_same (Eq.trans (b := fv s2) rfl (settle_fv h2)) rfl rfl
  case setPct c p =>
    simp only [noOut, Option.map_eq_some_iff, Prod.mk.injEq] at h
    obtain ⟨s1, h1, rfl, _⟩ := h
    simp only [setPct, Option.bind_eq_bind, Option.bind_eq_some_iff, Option.pure_def,
      Option.some.injEq] at h1
    obtain ⟨_, _, _, _, s2, h2, rfl⟩ := h1
    exact Flow.of_same (Eq.trans (b := fv s2) rfl (settle_fv h2)) rfl rfl
  case setFactors c f =>
    simp only [noOut, Option.map_eq_some_iff, Prod.mk.injEq] at h
    obtain ⟨s1, h1, rfl, _⟩ := h
    simp only [setFactors, Option.bind_eq_bind, Option.bind_eq_some_iff, Option.pure_def] at h1
    obtain ⟨_, _, _, _, _, _, W, _, h1⟩ := h1
    split at h1
    · simp only [Option.bind_eq_some_iff, Option.some.injEq] at h1
      obtain ⟨_, _, rfl⟩ := h1
      exact Flow.of_same rfl rfl rfl
    · simp only [Option.some.injEq] at h1
      subst h1
      exact Flow.of_same rfl rfl rfl
  case collect c =>
    simp only [noOut, Option.map_eq_some_iff, Prod.mk.injEq] at h
    obtain ⟨s1, h1, rfl, _⟩ := h
    simp only [collectUndistributed, Option.bind_eq_bind, Option.bind_eq_some_iff, Option.pure_def,
      req_eq_some] at h1
    obtain ⟨_, _, W, _, _, _, h1⟩ := h1
    split at h1 <;> simp only [Option.some.injEq] at h1 <;> subst h1 <;> exact Flow.of_same rfl rfl rfl
  case pause c =>
    simp only [noOut, Option.map_eq_some_iff, Prod.mk.injEq] at h
    obtain ⟨s1, h1, rfl, _⟩ := h
    simp only [setActive, Option.bind_eq_bind, Option.bind_eq_some_iff, Option.pure_def,
      Option.some.injEq] at h1
    obtain ⟨_, _, rfl⟩ := h1
    exact Flow.of_same rfl rfl rfl
  case resume c =>
    simp only [noOut, Option.map_eq_some_iff, Prod.mk.injEq] at h
    obtain ⟨s1, h1, rfl, _⟩ := h
    simp only [setActive, Option.bind_eq_bind, Option.bind_eq_some_iff, Option.pure_def,
      Option.some.injEq] at h1
    obtain ⟨_, _, rfl⟩ := h1
    exact Flow.of_same rfl rfl rfl
  case setPenalty c p =>
    simp only [noOut, Option.map_eq_some_iff, Prod.mk.injEq] at h
    obtain ⟨s1, h1, rfl, _⟩ := h
    simp only [setPenalty, Option.bind_eq_bind, Option.bind_eq_some_iff, Option.pure_def,
      Option.some.injEq] at h1
    obtain ⟨_, _, _, _, rfl⟩ := h1
    exact Flow.of_same rfl rfl rfl
  case setMinEpochs c n =>
    simp only [noOut, Option.map_eq_some_iff, Prod.mk.injEq] at h
    obtain ⟨s1, h1, rfl, _⟩ := h
    simp only [setMinEpochs, Option.bind_eq_bind, Option.bind_eq_some_iff, Option.pure_def,
      Option.some.injEq] at h1
    obtain ⟨_, _, _, _, rfl⟩ := h1
    exact Flow.of_same rfl rfl rfl
  case hubWhitelist u a =>
    split at h
    · cases h
    · simp only [Option.some.injEq, Prod.mk.injEq] at h; obtain ⟨rfl, _⟩ := h; exact Flow.of_same rfl rfl rfl
  case hubRemove u a =>
    split at h
    · simp only [Option.some.injEq, Prod.mk.injEq] at h; obtain ⟨rfl, _⟩ := h; exact Flow.of_same rfl rfl rfl
    · cases h
  case hubBlacklist a =>
    simp only [Option.some.injEq, Prod.mk.injEq] at h; obtain ⟨rfl, _⟩ := h; exact Flow.of_same rfl rfl rfl
  case scWhitelist a =>
    split at h
    · cases h
    · simp only [Option.some.injEq, Prod.mk.injEq] at h; obtain ⟨rfl, _⟩ := h; exact Flow.of_same rfl rfl rfl
  case scUnwhitelist a =>
    split at h
    · simp only [Option.some.injEq, Prod.mk.injEq] at h; obtain ⟨rfl, _⟩ := h; exact Flow.of_same rfl rfl rfl
    · cases h
  case advance b e =>
    split at h
    · simp only [Option.some.injEq, Prod.mk.injEq] at h; obtain ⟨rfl, _⟩ := h; exact Flow.of_same rfl rfl rfl
    · cases h
  case bad => cases h

/-- the deployment constants the wallet columns depend on never change -/
theorem step_sameCol {s s' : St} {op : Op} {o : Out} (h : step s op = some (s', o)) :
    sameCol s' = sameCol s := by
  simp only [sameCol, step_sameTok h, step_kind h]

end Mx.FarmLedger
