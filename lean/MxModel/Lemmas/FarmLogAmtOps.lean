/-
  Farm: every endpoint / every operation books exactly what is due (`AmtEff`, Lemmas/FarmLogAmt.lean):
  `step_amt` — for a successful operation whose boosted claim runs for `u` (`claimUser s op = some u`)
  and EVERY week `w`:  paidW' w = paidW w + duePay s u w (frozen pool of w after the operation),
  all inputs of `duePay` (position, recorded supply, energies, factors) read in the state BEFORE the
  operation.  `stepLog_amount` reads it off for the entries of the paid log.
-/
import MxModel.Lemmas.FarmLogAmt

namespace Mx.Farm

open Mx.Weekly (upd Energy ClaimProgress)

theorem week_of_pmv {s s' : St} (e : pmv s' = pmv s) : s'.week = s.week := (Keep.of_pmv e).week

/-! ### the endpoints -/

theorem enterCore_amt {s s' : St} {caller orig tokenTo amt : Nat} {extra : List (Nat × Nat)} {o : Out}
    (h : enterCore s caller orig tokenTo amt extra = some (s', o)) : AmtEff s s' orig := by
  simp only [enterCore, Option.bind_eq_bind, Option.bind_eq_some_iff, req_eq_some, Option.pure_def,
    Option.some.injEq, Prod.mk.injEq] at h
  obtain ⟨_, _, s0, h0, ⟨s1, boosted⟩, h1, s1', h1', _, hact, s2, h2, ⟨s4, c1⟩, h4, merged, hm,
    ⟨s5, n⟩, h5, s6, h6, s8, h8, s9, h9, rfl, rfl⟩ := h
  have e0 : pmv (addFarming s0 amt) = pmv s := (takePayments_pmv h0 : pmv s0 = pmv s)
  obtain ⟨eff, hwk⟩ := claimOnlyBoostedPayment_amt h1
  have eff1 : AmtEff s s1 orig := eff.frame_left e0
  have hwk1 : s1.week = s.week := hwk.trans (week_of_pmv e0)
  have k1 : Keep s1 s1' := Keep.of_pmv (payRewardIf_pmv h1')
  have k2 : Keep s1' s2 := checkAndUpdate_keep h2
  have k3 : Keep s2 (increaseUser s2 orig amt) := ⟨rfl, rfl, fun _ _ _ _ => rfl⟩
  have k4 : Keep (increaseUser s2 orig amt) s4 := Keep.of_pmv (generate_pmv h4)
  have k5 : Keep s4 s5 := Keep.of_pmv (createToken_pmv h5)
  have k6 : Keep s5 s6 := setFarmSupplyWeek_keep h6
  have k7 : Keep s6 (Cache.drop s6 { c1 with supply := c1.supply + amt }) := ⟨rfl, rfl, fun _ _ _ _ => rfl⟩
  have k8 : Keep (Cache.drop s6 { c1 with supply := c1.supply + amt }) s8 :=
    Keep.of_pmv (payRewardIf_pmv h8)
  have k9 : Keep s8 s9 := updateEnergyAndProgress_keep h9
  exact eff1.keep hwk1
    (k1.trans (k2.trans (k3.trans (k4.trans (k5.trans (k6.trans (k7.trans (k8.trans k9))))))))

theorem claimCore_amt {s s' : St} {caller orig : Nat} {pays : List (Nat × Nat)} {cmp : Bool} {o : Out}
    (h : claimCore s caller orig pays cmp = some (s', o)) : AmtEff s s' orig := by
  unfold claimCore at h
  replace h := bpeel h; obtain ⟨⟨n1, a1⟩, hhead, h⟩ := h
  replace h := bpeel h; obtain ⟨s0, h0, h⟩ := h
  replace h := bpeel h; obtain ⟨_, _, h⟩ := h
  replace h := bpeel h; obtain ⟨_, _, h⟩ := h
  replace h := bpeel h; obtain ⟨at1, hat, h⟩ := h
  replace h := bpeel h; obtain ⟨⟨s1, c1⟩, h1, h⟩ := h
  replace h := bpeel h; obtain ⟨part, hpart, h⟩ := h
  replace h := bpeel h; obtain ⟨⟨s2, boosted⟩, h2, h⟩ := h
  replace h := bpeel h; obtain ⟨res, _, h⟩ := h
  replace h := bpeel h; obtain ⟨s3, h3, h⟩ := h
  replace h := bpeel h; obtain ⟨merged, hm, h⟩ := h
  replace h := bpeel h; obtain ⟨⟨s5, n⟩, h5, h⟩ := h
  replace h := bpeel h; obtain ⟨s6, h6, h⟩ := h
  replace h := bpeel h; obtain ⟨s8, h8, h⟩ := h
  simp only [Option.pure_def, Option.some.injEq, Prod.mk.injEq] at h
  obtain ⟨rfl, _⟩ := h
  have e01 : pmv s1 = pmv s := (generate_pmv h1).trans (takePayments_pmv h0)
  have eff2 : AmtEff s s2 orig := (claimBoostedYields_amt h2).frame_left e01
  have hwk2 : s2.week = s.week := (claimBoostedYields_week h2).trans (week_of_pmv e01)
  have k3 : Keep s2 s3 := checkAndUpdate_keep h3
  have k5 : Keep s3 s5 := by
    cases cmp
    · exact Keep.of_pmv (createToken_pmv h5)
    · have k4 : Keep s3 (increaseUser s3 orig (baseReward s1.dsc c1.rps a1 part.rps + boosted)) :=
        ⟨rfl, rfl, fun _ _ _ _ => rfl⟩
      exact k4.trans (Keep.of_pmv (createToken_pmv h5))
  have k6 : Keep s5 s6 := setFarmSupplyWeek_keep h6
  have k8 := claimTail_keep h8
  have k7 : Keep s6 (Cache.drop s6 { c1 with reserve := res, supply := if cmp = true then
      c1.supply + (baseReward s1.dsc c1.rps a1 part.rps + boosted) else c1.supply }) :=
    ⟨rfl, rfl, fun _ _ _ _ => rfl⟩
  exact eff2.keep hwk2 (k3.trans (k5.trans (k6.trans (k7.trans k8))))

theorem exitFarm_amt {s s' : St} {caller : Nat} {opt : Option Nat} {n a : Nat} {o : Out}
    (h : exitFarm s caller opt n a = some (s', o)) :
    ∃ orig, origCaller s caller opt = some orig ∧ AmtEff s s' orig := by
  unfold exitFarm at h
  replace h := bpeel h; obtain ⟨orig, horig, h⟩ := h
  replace h := bpeel h; obtain ⟨s0, h0, h⟩ := h
  replace h := bpeel h; obtain ⟨_, _, h⟩ := h
  replace h := bpeel h; obtain ⟨att, hat, h⟩ := h
  replace h := bpeel h; obtain ⟨⟨s1, c1⟩, h1, h⟩ := h
  replace h := bpeel h; obtain ⟨part, hpart, h⟩ := h
  replace h := bpeel h; obtain ⟨⟨s2, boosted⟩, h2, h⟩ := h
  replace h := bpeel h; obtain ⟨res, _, h⟩ := h
  replace h := bpeel h; obtain ⟨sup, hsup, h⟩ := h
  replace h := bpeel h; obtain ⟨s4, h4, h⟩ := h
  replace h := bpeel h; obtain ⟨pen, hpen, h⟩ := h
  replace h := bpeel h; obtain ⟨out, _, h⟩ := h
  replace h := bpeel h; obtain ⟨s6, h6, h⟩ := h
  replace h := bpeel h; obtain ⟨s7, h7, h⟩ := h
  replace h := bpeel h; obtain ⟨s8, h8, h⟩ := h
  simp only [Option.pure_def, Option.some.injEq, Prod.mk.injEq] at h
  obtain ⟨rfl, _⟩ := h
  have e01 : pmv s1 = pmv s := (generate_pmv h1).trans (takePayments_pmv h0)
  have eff2 : AmtEff s s2 orig := (claimBoostedYields_amt h2).frame_left e01
  have hwk2 : s2.week = s.week := (claimBoostedYields_week h2).trans (week_of_pmv e01)
  have k3 : Keep s2 (decreaseOwner s2 att.owner a) := ⟨rfl, rfl, fun _ _ _ _ => rfl⟩
  have k4 : Keep (decreaseOwner s2 att.owner a) s4 := setFarmSupplyWeek_keep h4
  have k5 : Keep s4 (Cache.drop s4 { c1 with reserve := res, supply := sup }) :=
    ⟨rfl, rfl, fun _ _ _ _ => rfl⟩
  have k6 : Keep (Cache.drop s4 { c1 with reserve := res, supply := sup }) s6 :=
    Keep.of_pmv (removeFarming_pmv h6)
  have k7 : Keep s6 s7 := Keep.of_pmv (payReward_pmv h7)
  have k8 : Keep s7 s8 := clearUserEnergyIfNeeded_keep h8
  exact ⟨orig, horig, eff2.keep hwk2 (k3.trans (k4.trans (k5.trans (k6.trans (k7.trans k8)))))⟩

theorem mergeFarmTokens_amt {s s' : St} {caller : Nat} {opt : Option Nat} {pays : List (Nat × Nat)}
    {o : Out} (h : mergeFarmTokens s caller opt pays = some (s', o)) :
    ∃ orig, origCaller s caller opt = some orig ∧ AmtEff s s' orig := by
  simp only [mergeFarmTokens, Option.bind_eq_bind, Option.bind_eq_some_iff, req_eq_some, Option.pure_def,
    Option.some.injEq, Prod.mk.injEq] at h
  obtain ⟨_, hact, orig, horig, _, _, s0, h0, ⟨s1, boosted⟩, h1, s2, h2, merged, hm, ⟨s3, n⟩, h3, s4, h4, rfl, rfl⟩ := h
  have e0 : pmv s0 = pmv s := takePayments_pmv h0
  obtain ⟨eff, hwk⟩ := claimOnlyBoostedPayment_amt h1
  have k2 : Keep s1 s2 := checkAndUpdate_keep h2
  have k3 : Keep s2 s3 := Keep.of_pmv (createToken_pmv h3)
  have k4 : Keep s3 s4 := Keep.of_pmv (payReward_pmv h4)
  exact ⟨orig, horig, (eff.frame_left e0).keep (hwk.trans (week_of_pmv e0)) (k2.trans (k3.trans k4))⟩

theorem claimBoostedRewards_amt {s s' : St} {caller : Nat} {optUser : Option Nat} {o : Out}
    (h : claimBoostedRewards s caller optUser = some (s', o)) : AmtEff s s' (optUser.getD caller) := by
  simp only [claimBoostedRewards, Option.bind_eq_bind, Option.bind_eq_some_iff, req_eq_some, Option.pure_def,
    Option.some.injEq, Prod.mk.injEq, sub?_eq_some] at h
  obtain ⟨_, _, _, _, _, hact, ⟨s1, c1⟩, h1, ⟨s2, boosted⟩, h2, res, ⟨hle, rfl⟩, s3, h3, s4, h4, rfl, rfl⟩ := h
  have e1 : pmv s1 = pmv s := generate_pmv h1
  have eff2 : AmtEff s s2 (optUser.getD caller) := (claimBoostedYields_amt h2).frame_left e1
  have hwk2 : s2.week = s.week := (claimBoostedYields_week h2).trans (week_of_pmv e1)
  have k3 : Keep s2 s3 := setFarmSupplyWeek_keep h3
  have k4 : Keep s3 s4 := Keep.of_pmv (payReward_pmv h4)
  have k5 : Keep s4 (Cache.drop s4 { c1 with reserve := c1.reserve - boosted }) :=
    ⟨rfl, rfl, fun _ _ _ _ => rfl⟩
  exact eff2.keep hwk2 (k3.trans (k4.trans k5))

/-! ### one operation -/

/-- **every operation books exactly what is due**: a successful operation whose boosted claim
    runs for `u` raises `paidW w`, for EVERY week `w`, by `duePay s u w R_w` — the formula on the
    pre-state's cells and the week's frozen pool -/
theorem step_amt {s s' : St} {op : Op} {o : Out} {u : Nat} (h : step s op = some (s', o))
    (hu : claimUser s op = some u) : AmtEff s s' u := by
  cases op
  case enter c oo a e =>
    simp only [step, known] at h
    split at h <;> [skip; exact absurd h (by simp)]
    simp only [enterFarm, Option.bind_eq_bind, Option.bind_eq_some_iff] at h
    obtain ⟨orig, horig, h⟩ := h
    have : orig = u := by
      have : some orig = some u := horig.symm.trans hu
      simpa using this
    subst this
    exact enterCore_amt h
  case enterOB c u' a e =>
    simp only [step, known] at h
    split at h <;> [skip; exact absurd h (by simp)]
    simp only [enterFarmOnBehalf, Option.bind_eq_bind, Option.bind_eq_some_iff] at h
    obtain ⟨_, _, _, _, h⟩ := h
    have : u' = u := by simpa [claimUser] using hu
    subst this
    exact enterCore_amt h
  case claim c oo p =>
    simp only [step, known] at h
    split at h <;> [skip; exact absurd h (by simp)]
    simp only [claimRewards, Option.bind_eq_bind, Option.bind_eq_some_iff] at h
    obtain ⟨orig, horig, h⟩ := h
    have : orig = u := by
      have : some orig = some u := horig.symm.trans hu
      simpa using this
    subst this
    exact claimCore_amt h
  case claimOB c p =>
    simp only [step, known] at h
    split at h <;> [skip; exact absurd h (by simp)]
    simp only [claimRewardsOnBehalf, Option.bind_eq_bind, Option.bind_eq_some_iff] at h
    obtain ⟨_, _, user, huser, _, _, h⟩ := h
    have : user = u := by
      have : some user = some u := huser.symm.trans hu
      simpa using this
    subst this
    exact claimCore_amt h
  case compound c oo p =>
    simp only [step, known] at h
    split at h <;> [skip; exact absurd h (by simp)]
    simp only [compoundRewards, Option.bind_eq_bind, Option.bind_eq_some_iff, req_eq_some] at h
    obtain ⟨_, hk, orig, horig, h⟩ := h
    have : orig = u := by
      have : some orig = some u := horig.symm.trans hu
      simpa using this
    subst this
    exact claimCore_amt h
  case exit c oo n a =>
    simp only [step, known] at h
    split at h <;> [skip; exact absurd h (by simp)]
    obtain ⟨orig, horig, eff⟩ := exitFarm_amt h
    have : orig = u := by
      have : some orig = some u := horig.symm.trans hu
      simpa using this
    subst this
    exact eff
  case merge c oo p =>
    simp only [step, known] at h
    split at h <;> [skip; exact absurd h (by simp)]
    obtain ⟨orig, horig, eff⟩ := mergeFarmTokens_amt h
    have : orig = u := by
      have : some orig = some u := horig.symm.trans hu
      simpa using this
    subst this
    exact eff
  case claimBoosted c u' =>
    simp only [step, known] at h
    split at h <;> [skip; exact absurd h (by simp)]
    have : u'.getD c = u := by simpa [claimUser] using hu
    subst this
    exact claimBoostedRewards_amt h
  all_goals exact absurd hu (by simp [claimUser])

/-- an operation without claim user leaves the boosted ledger alone -/
theorem step_paid_of_no_claimUser {s s' : St} {op : Op} {o : Out} (h : step s op = some (s', o))
    (hu : claimUser s op = none) : s'.b.paidW = s.b.paidW := by
  obtain ⟨_, _, hq | ⟨u, W, _, _, hcu⟩⟩ := step_eff h
  · exact hq.1
  · funext w
    by_cases hne : s'.b.paidW w = s.b.paidW w
    · exact hne
    · have := hcu w hne
      rw [hu] at this
      cases this

/-! ### the entries of the paid log -/

/-- **the amount of a log entry is the formula**: the entry's amount is `duePay` of its user and week
    in the state before the operation, on the week's frozen pool after it; hence (`payOf_pos`) it is
    `boostedAmount` with non-zero denominators and the user at or above the week's minima -/
theorem stepLog_amount {s : St} {op : Op} {e : Entry} (h : e ∈ stepLog s op) :
    e.amount = duePay s e.user e.week (rOf ((next s op).w.totalRewards e.week)) := by
  obtain ⟨u, r, hu, hs, hm⟩ := stepLog_cases h
  obtain ⟨heu, _, _, hamt⟩ := mem_entriesOf hm
  subst heu
  have := step_amt (s' := r.1) (o := r.2) (by rw [hs]) hu e.week
  rw [next_of_some hs, hamt, this]
  omega

/-- conversely nothing is logged for a week for which nothing is due: **below the minima (or
    without total energy / recorded supply, or outside the window) there is no entry** -/
theorem stepLog_none_of_duePay_zero {s : St} {op : Op} {u w : Nat} (hu : claimUser s op = some u)
    (hz : duePay s u w (rOf ((next s op).w.totalRewards w)) = 0) :
    ∀ e ∈ stepLog s op, e.week ≠ w := by
  intro e he hw
  have h1 := stepLog_amount he
  have h2 := stepLog_pos he
  have h3 := (stepLog_window he).1
  rw [hu] at h3
  simp only [Option.some.injEq] at h3
  rw [← h3, hw, hz] at h1
  omega

/-! ### reading `duePay` -/

/-- a positive `duePay`: the week is inside the claim window, at or after the user's stored
    progress, the factors exist, no denominator is zero, the user is at or above both minima, and the
    value is `boostedAmount` -/
theorem duePay_pos {s : St} {u w R : Nat} (h : duePay s u w R ≠ 0) :
    ∃ W p fa, s.week = some W ∧ s.w.progress u = some p ∧ p.week ≤ w ∧ w < W ∧ W ≤ w + 4 ∧
      factorsInForce s w = some fa ∧ s.w.totalEnergy w ≠ 0 ∧ s.b.farmSupplyWeek w ≠ 0 ∧
      fa.minE ≤ entryE p w ∧ fa.minF ≤ s.userTotal u ∧
      duePay s u w R = boostedAmount fa R (s.userTotal u) (s.b.farmSupplyWeek w) (entryE p w)
        (s.w.totalEnergy w) := by
  unfold duePay at h ⊢
  cases hW : s.week with
  | none => rw [hW] at h; exact absurd rfl h
  | some W =>
    cases hp : s.w.progress u with
    | none => rw [hW, hp] at h; exact absurd rfl h
    | some p =>
      rw [hW, hp] at h
      simp only at h ⊢
      by_cases hc : p.week ≤ w ∧ w < W ∧ W ≤ w + 4
      · rw [if_pos hc] at h ⊢
        obtain ⟨fa, hfa, hE, hF, hme, hmf, heq⟩ := payOf_pos h
        exact ⟨W, p, fa, rfl, rfl, hc.1, hc.2.1, hc.2.2, hfa, hE, hF, hme, hmf, heq⟩
      · rw [if_neg hc] at h; exact absurd rfl h

/-- nothing is due without total energy, without recorded farm supply, or below a minimum -/
theorem duePay_zero_of_below {s : St} {u w R : Nat} {fa : Factors} {p : ClaimProgress}
    (hfa : factorsInForce s w = some fa) (hp : s.w.progress u = some p)
    (hb : s.w.totalEnergy w = 0 ∨ s.b.farmSupplyWeek w = 0 ∨ entryE p w < fa.minE ∨
      s.userTotal u < fa.minF) : duePay s u w R = 0 := by
  apply Classical.byContradiction
  intro hne
  obtain ⟨_, p', fa', _, hp', _, _, _, hfa', hE, hF, hme, hmf, _⟩ := duePay_pos hne
  rw [hfa] at hfa'; rw [hp] at hp'
  simp only [Option.some.injEq] at hfa' hp'
  subst hfa'; subst hp'
  rcases hb with hb | hb | hb | hb
  · exact hE hb
  · exact hF hb
  · omega
  · omega

theorem rOf_pos {l : List (Weekly.Tok × Nat)} (h : rOf l ≠ 0) : ∃ tok R, l = [(tok, R)] := by
  match l, h with
  | [], h => exact absurd rfl h
  | [(t, R)], _ => exact ⟨t, R, rfl⟩
  | _ :: _ :: _, h => exact absurd rfl h

theorem boostedAmount_R_pos {fa : Factors} {R f F e E : Nat} (h : boostedAmount fa R f F e E ≠ 0) :
    R ≠ 0 := by
  intro hR; subst hR; exact h (boostedAmount_zero fa f F e E)

/-! ### the factors in force, seen from the stored ring -/

/-- with a well-formed stored ring (invariant `PM`, Lemmas/FarmWeekPaid.lean) the factors in force
    for a week of the claim window are the ring's entry for that week (`facAt` / `BCfg.facFor`):
    shifting the ring to the current week does not change them -/
theorem factorsInForce_facAt {s : St} {W w : Nat} (hP : PM s W) (h1 : w < W) (h2 : W < w + 5) :
    factorsInForce s w = facAt s.b.cfg w := by
  have hWk : s.week = some W := hP.week
  unfold factorsInForce facAt
  cases hc : s.b.cfg with
  | none => rfl
  | some cfg =>
    obtain ⟨hWF, hL, _⟩ := hP.wf cfg hc
    have hup : ∃ mem, cfg.update W none = some mem := by
      obtain ⟨L, f0, f1, f2, f3, f4, rfl⟩ := hWF.exists_ring
      simp only at hL
      simp only [BCfg.update, req, hL, if_true, Option.bind_eq_bind, Option.bind_some, Option.pure_def]
      split <;> exact ⟨_, rfl⟩
    obtain ⟨mem, hmem⟩ := hup
    simp only [hWk, hmem, Option.bind_some]
    exact (facFor_update hWF hmem h1 h2).1

end Mx.Farm
