/-
  C11 on the farm-staking model, history level: a (user, week) boosted reward is paid at most once,
  and a week's leftover is collected at most once (helpers for Props/C11StakingOnce.lean).

  No new ghost field: everything is read off `b.paid`, `b.remaining`, `lastCollectWeek`,
  `undistributed` and the claim progress of the weekly module.

    * the reward hook / the claim loop / `claim_multi` / `claim_boosted_yields_rewards` write the
      pool cells (`paid`, `remaining`, `collected`) of week `k` only when `k` is in the claimer's
      claim window: `progress(user).week ≤ k < current week ≤ k + 4` (`claimBoostedYields_other`);
    * every endpoint is classified (`Fx`): a boosted claim of ONE user (`claimerOf`), the
      undistributed collection, or an operation that leaves the pools alone;
    * the history-level counters `debits` / `crossings` and their bounds.
-/
import MxModel.Lemmas.StakingWeekPos
import MxModel.Lemmas.StakingPool

namespace Mx.Staking

open Mx.Weekly

/-! ## the pool cells of one week -/

/-- the three pool cells of week `k` agree in `b'` and `b` -/
def PoolEq (b' b : B) (k : Nat) : Prop :=
  b'.paid k = b.paid k ∧ b'.remaining k = b.remaining k ∧ b'.collected k = b.collected k

theorem PoolEq.refl (b : B) (k : Nat) : PoolEq b b k := ⟨rfl, rfl, rfl⟩

theorem PoolEq.trans {a b c : B} {k : Nat} (h1 : PoolEq a b k) (h2 : PoolEq b c k) : PoolEq a c k :=
  ⟨h1.1.trans h2.1, h1.2.1.trans h2.2.1, h1.2.2.trans h2.2.2⟩

theorem PoolEq.congr {b1 b2 b1' b2' : B} {k : Nat} (h : PoolEq b1 b2 k)
    (p1 : b1'.paid = b1.paid) (r1 : b1'.remaining = b1.remaining) (c1 : b1'.collected = b1.collected)
    (p2 : b2'.paid = b2.paid) (r2 : b2'.remaining = b2.remaining) (c2 : b2'.collected = b2.collected) :
    PoolEq b1' b2' k := by
  unfold PoolEq
  rw [p1, r1, c1, p2, r2, c2]; exact h

theorem upd_upd {α : Type} (f : Nat → α) (k : Nat) (a b : α) : upd (upd f k a) k b = upd f k b := by
  funext x
  by_cases hx : x = k
  · subst hx; rw [upd_same, upd_same]
  · rw [upd_other _ _ hx, upd_other _ _ hx, upd_other _ _ hx]

/-- freezing the pool of `week` touches no other week -/
theorem collectAndGet_other (c' : BCfg) (g : Weekly.St) (b : B) (week : Nat) {k : Nat} (hk : k ≠ week) :
    PoolEq (collectAndGet (collectBoosted c') g b week).2.1 b k := by
  unfold collectAndGet
  split
  · simp only [collectBoosted]
    exact ⟨rfl, upd_other _ _ hk, upd_other _ _ hk⟩
  · exact PoolEq.refl _ _

/-- the reward hook for `week` touches no other week's pool -/
theorem boostedRewards_other {c' : BCfg} {f : Nat} {g g' : Weekly.St} {b b' : B}
    {week e E : Nat} {r : List (Tok × Nat)}
    (h : boostedRewards c' f g b week e E = some (g', b', r)) {k : Nat} (hk : k ≠ week) :
    PoolEq b' b k := by
  obtain ⟨_, ⟨_, hp, hoth, _⟩ | ⟨x, R, fac, _, _, _, _, _, _, _, _, _, _, _, _, hrem, hpaid, hcoll⟩⟩ :=
    boostedRewards_spec h
  · exact ⟨congrFun hp k, (hoth k hk).1, (hoth k hk).2⟩
  · obtain ⟨_, e2, e3⟩ := collectAndGet_other c' g b week hk
    refine ⟨?_, ?_, ?_⟩
    · rw [hpaid, upd_other _ _ hk]
    · rw [hrem, upd_other _ _ hk]; exact e2
    · rw [hcoll]; exact e3

/-- the hook never lowers `paid` -/
theorem boostedRewards_paid_mono {c' : BCfg} {f : Nat} {g g' : Weekly.St} {b b' : B}
    {week e E : Nat} {r : List (Tok × Nat)}
    (h : boostedRewards c' f g b week e E = some (g', b', r)) (k : Nat) : b.paid k ≤ b'.paid k := by
  obtain ⟨_, ⟨_, hp, _, _⟩ | ⟨x, R, fac, _, _, _, _, _, _, _, _, _, _, _, _, _, hpaid, _⟩⟩ :=
    boostedRewards_spec h
  · rw [hp]
  · rw [hpaid]
    by_cases hk : k = week
    · subst hk; rw [upd_same]; omega
    · rw [upd_other _ _ hk]

/-- **the claim loop over `n` weeks starting at `a.p.week` writes only the pools of those weeks** -/
theorem claimLoop_other (c' : BCfg) (f : Nat) : ∀ (n : Nat) {a a' : ClaimAcc B},
    claimLoop (boostedRewards c' f) n a = some a' →
    ∀ k, (k < a.p.week ∨ a.p.week + n ≤ k) → PoolEq a'.c a.c k := by
  intro n
  induction n with
  | zero =>
    intro a a' h k _
    simp only [claimLoop, Option.some.injEq] at h
    subst h; exact PoolEq.refl _ _
  | succ n ih =>
    intro a a' h k hk
    simp only [claimLoop, Option.bind_eq_some_iff] at h
    obtain ⟨a1, h1, h2⟩ := h
    obtain ⟨r, hr, hp, _⟩ := claimSingle_spec h1
    have e1 : PoolEq a1.c a.c k := boostedRewards_other hr (by omega)
    have hw : a1.p.week = a.p.week + 1 := by rw [hp]; rfl
    have e2 := ih h2 k (by rw [hw]; omega)
    exact e2.trans e1

/-- week `k` is in the claim window of a user whose stored progress is `prog`, in week `W`:
    there IS a stored progress, it has not passed `k`, `k` is a completed week, and it is one of
    the last four -/
def InWindow (prog : Option ClaimProgress) (W k : Nat) : Prop :=
  ∃ p, prog = some p ∧ p.week ≤ k ∧ k < W ∧ W ≤ k + 4

/-- **`claim_multi` writes only pools of weeks in the user's claim window** -/
theorem claimMulti_other {c' : BCfg} {f : Nat} {g g' : Weekly.St} {b b' : B} {user W : Nat}
    {cur : Energy} {r : List (Tok × Nat)}
    (h : claimMulti (boostedRewards c' f) g b user W cur = some (g', b', r)) {k : Nat}
    (hk : ¬ InWindow (g.progress user) W k) : PoolEq b' b k := by
  obtain ⟨g1, a, _, hle, ha, _, rfl, _⟩ := claimMulti_spec h
  refine claimLoop_other c' f _ ha k ?_
  obtain ⟨w1, w2, w3⟩ := loop_window _ W hle
  show k < (loopStart (startProgress (g.progress user) cur W) W).week ∨
    (loopStart (startProgress (g.progress user) cur W) W).week +
      loopLen (startProgress (g.progress user) cur W) W ≤ k
  cases hq : g.progress user with
  | none =>
    rw [hq] at w1 w3
    have : (startProgress none cur W).week = W := rfl
    omega
  | some p =>
    rw [hq] at w1 w2 w3 hk
    have : (startProgress (some p) cur W).week = p.week := rfl
    have hk' : ¬(p.week ≤ k ∧ k < W ∧ W ≤ k + 4) := fun h' => hk ⟨p, rfl, h'⟩
    omega

/-- `paid` never decreases along the loop -/
theorem claimMulti_paid_mono {c' : BCfg} {f : Nat} {g g' : Weekly.St} {b b' : B} {user W : Nat}
    {cur : Energy} {r : List (Tok × Nat)}
    (h : claimMulti (boostedRewards c' f) g b user W cur = some (g', b', r)) (k : Nat) :
    b.paid k ≤ b'.paid k :=
  claimMulti_pres (fun x => b.paid k ≤ x.paid k)
    (fun _ _ _ _ _ _ _ _ h' hp => Nat.le_trans hp (boostedRewards_paid_mono h' k)) h (Nat.le_refl _)

/-- **the boosted claim of `u` writes only pools of weeks in `u`'s claim window** (with or without
    a boosted-yields configuration) -/
theorem claimBoostedYields_other {s : St} {u f : Nat} {r : Weekly.St × B × Nat}
    (h : claimBoostedYields s u f = some r) {k : Nat}
    (hk : ¬ InWindow (s.w.progress u) s.week k) : PoolEq r.2.1 s.b k := by
  have h0 := h
  unfold claimBoostedYields at h
  split at h
  · rename_i hc
    rw [(claimBoostedYields_none_spec hc h0).1]; exact PoolEq.refl _ _
  · simp only [Option.bind_eq_bind, Option.bind_eq_some_iff, Option.pure_def, Option.some.injEq] at h
    obtain ⟨c', _, r', hr, rfl⟩ := h
    exact claimMulti_other hr hk

theorem claimBoostedYields_paid_mono {s : St} {u f : Nat} {r : Weekly.St × B × Nat}
    (h : claimBoostedYields s u f = some r) (k : Nat) : s.b.paid k ≤ r.2.1.paid k := by
  have h0 := h
  unfold claimBoostedYields at h
  split at h
  · rename_i hc
    rw [(claimBoostedYields_none_spec hc h0).1]
  · simp only [Option.bind_eq_bind, Option.bind_eq_some_iff, Option.pure_def, Option.some.injEq] at h
    obtain ⟨c', _, r', hr, rfl⟩ := h
    exact claimMulti_paid_mono hr k

/-! ## endpoints that run the boosted claim of one user -/

/-- what an endpoint that runs `claim_boosted_yields_rewards(u)` does to the cells C11 talks about:
    pools outside `u`'s claim window untouched, only `u`'s progress moves (to the current week, or
    cleared), the collection marker, the undistributed total and the clock stay. -/
structure ClaimFx (s s' : St) (u : Nat) : Prop where
  pools : ∀ k, ¬ InWindow (s.w.progress u) s.week k → PoolEq s'.b s.b k
  mono : ∀ k, s.b.paid k ≤ s'.b.paid k
  prog : ∃ o, (∀ p, o = some p → p.week = s.week) ∧ s'.w.progress = upd s.w.progress u o
  lcw : s'.lastCollectWeek = s.lastCollectWeek
  und : s'.undistributed = s.undistributed
  ep : s'.epoch = s.epoch
  fw : s'.firstWeek = s.firstWeek

theorem stakeCore_fx {s s' : St} {c orig amount : Nat} {v : Bool} {adds : List Pay} {o : Out}
    (h : stakeCore s c orig amount v adds = some (s', o)) : ClaimFx s s' orig := by
  cases v <;>
  · simp only [stakeCore, Option.bind_eq_bind, Option.bind_eq_some_iff, req_eq_some,
      sub?_eq_some, Option.pure_def, Option.some.injEq, Prod.mk.injEq] at h
    obtain ⟨_, _, hold0, hd, r, hr, res1, _, _, _, ut1, hk, ⟨s3, c3⟩, hg, merged, hm, w2, hw2,
      bal1, _, rfl, _⟩ := h
    obtain ⟨_, _, rfl, rfl⟩ := generate_spec hg
    obtain ⟨o1, ho1, hp1, _, _⟩ := claimBoostedYields_move hr
    obtain ⟨hp2, _⟩ := Farm.weekly_updateEnergyAndProgress_move hw2
    simp only [genSt_w, genSt_week] at hp2
    refine ⟨fun k hk' => (claimBoostedYields_other hr hk').congr rfl rfl rfl rfl rfl rfl,
      fun k => claimBoostedYields_paid_mono hr k,
      ⟨newOf (Energy.queried (s.energy orig) s.epoch) s.week, newOf_week, ?_⟩, rfl, rfl, rfl, rfl⟩
    show w2.progress = _
    rw [hp2]
    show upd r.1.progress orig _ = _
    rw [hp1, upd_upd]
    rfl

theorem claimCore_fx {s s' : St} {c orig : Nat} {pays : List Pay} {nv : Option Nat} {o : Out}
    (h : claimCore s c orig pays nv = some (s', o)) : ClaimFx s s' orig := by
  simp only [claimCore, Option.bind_eq_bind, Option.bind_eq_some_iff] at h
  obtain ⟨m, hm, h⟩ := h
  obtain ⟨_, _, _, r, _, _, _, hr, _, hw1, hb1, _, _, hs1, _⟩ := claimBase_reward hm
  simp only [claimFinish, Option.bind_eq_bind, Option.bind_eq_some_iff, req_eq_some,
    sub?_eq_some, Option.pure_def, Option.some.injEq, Prod.mk.injEq] at h
  obtain ⟨res1, _, sup1, _, ut2, _, _, _, w2, hw2, bal1, _, rfl, _⟩ := h
  obtain ⟨o1, ho1, hp1, _, _⟩ := claimBoostedYields_move hr
  obtain ⟨hp2, _⟩ := Farm.weekly_updateEnergyAndProgress_move hw2
  simp only [genSt_w, genSt_week] at hp1 ho1
  rw [hs1, hw1] at hp2
  simp only [genSt_week] at hp2
  refine ⟨fun k hk' => ?_, fun k => ?_,
    ⟨newOf (Energy.queried (s.energy orig) s.epoch) s.week, newOf_week, ?_⟩, ?_, ?_, ?_, ?_⟩
  · have := claimBoostedYields_other hr (k := k) hk'
    rw [← hb1] at this
    exact this.congr rfl rfl rfl rfl rfl rfl
  · have := claimBoostedYields_paid_mono hr k
    rw [← hb1] at this
    exact this
  · show w2.progress = _
    rw [hp2, hp1, upd_upd]
    rfl
  · show m.s1.lastCollectWeek = _
    rw [hs1]; rfl
  · show m.s1.undistributed = _
    rw [hs1]; rfl
  · show m.s1.epoch = _
    rw [hs1]; rfl
  · show m.s1.firstWeek = _
    rw [hs1]; rfl

theorem compound_fx {s s' : St} {c : Nat} {pays : List Pay} {o : Out}
    (h : compound s c pays = some (s', o)) : ClaimFx s s' c := by
  simp only [compound, Option.bind_eq_bind, Option.bind_eq_some_iff, req_eq_some,
    sub?_eq_some, Option.pure_def, Option.some.injEq, Prod.mk.injEq] at h
  obtain ⟨hold0, _, _, _, p, _, first, _, ⟨s1, c1⟩, hg, tok, _, r, hr, res1, _, ut1, _,
    merged, _, rfl, _⟩ := h
  obtain ⟨_, _, rfl, rfl⟩ := generate_spec hg
  obtain ⟨o1, ho1, hp1, _, _⟩ := claimBoostedYields_move hr
  simp only [genSt_w, genSt_week] at hp1 ho1
  exact ⟨fun k hk' => (claimBoostedYields_other hr hk').congr rfl rfl rfl rfl rfl rfl,
    fun k => claimBoostedYields_paid_mono hr k, ⟨o1, ho1, hp1⟩, rfl, rfl, rfl, rfl⟩

theorem unstakeCore_fx {s s' : St} {c orig : Nat} {pay : Pay} {x : Option Nat} {o : Out}
    (h : unstakeCore s c orig pay x = some (s', o)) : ClaimFx s s' orig := by
  cases x <;>
  · simp only [unstakeCore, Option.bind_eq_bind, Option.bind_eq_some_iff, req_eq_some,
      sub?_eq_some, Option.pure_def, Option.some.injEq, Prod.mk.injEq] at h
    obtain ⟨_, _, hold0, _, _, _, attrs, _, ⟨s1, c1⟩, hg, tok, _, r, hr, res1, _,
      sup1, _, w2, hw2, bal1, _, rfl, _⟩ := h
    obtain ⟨_, _, rfl, rfl⟩ := generate_spec hg
    obtain ⟨o1, ho1, hp1, _, _⟩ := claimBoostedYields_move hr
    simp only [genSt_w, genSt_week] at hp1 ho1
    refine ⟨fun k hk' => (claimBoostedYields_other hr hk').congr rfl rfl rfl rfl rfl rfl,
      fun k => claimBoostedYields_paid_mono hr k, ?_, rfl, rfl, rfl, rfl⟩
    rcases clearEnergyIfNeeded_move hw2 with ⟨hp2, _⟩ | ⟨hp2, _⟩
    · exact ⟨o1, ho1, (by show w2.progress = _; rw [hp2, hp1])⟩
    · exact ⟨none, fun p hp => (by cases hp), (by show w2.progress = _; rw [hp2, hp1, upd_upd])⟩

theorem mergeTokens_fx {s s' : St} {c : Nat} {pays : List Pay} {o : Out}
    (h : mergeTokens s c pays = some (s', o)) : ClaimFx s s' c := by
  simp only [mergeTokens, Option.bind_eq_bind, Option.bind_eq_some_iff, req_eq_some,
    sub?_eq_some, Option.pure_def, Option.some.injEq, Prod.mk.injEq] at h
  obtain ⟨hold0, _, _, _, r, hr, res1, _, p, _, ut1, _, first, _, part, _, merged, _,
    bal1, _, rfl, _⟩ := h
  obtain ⟨o1, ho1, hp1, _, _⟩ := claimBoostedYields_move hr
  exact ⟨fun k hk' => claimBoostedYields_other hr hk',
    fun k => claimBoostedYields_paid_mono hr k, ⟨o1, ho1, hp1⟩, rfl, rfl, rfl, rfl⟩

theorem claimBoostedRewards_fx {s s' : St} {c : Nat} {u : Option Nat} {o : Out}
    (h : claimBoostedRewards s c u = some (s', o)) : ClaimFx s s' c := by
  simp only [claimBoostedRewards, Option.bind_eq_bind, Option.bind_eq_some_iff, req_eq_some,
    sub?_eq_some, Option.pure_def, Option.some.injEq, Prod.mk.injEq] at h
  obtain ⟨_, _, _, _, _, _, ⟨s1, c1⟩, hg, r, hr, res1, _, bal1, _, rfl, _⟩ := h
  obtain ⟨_, _, rfl, rfl⟩ := generate_spec hg
  obtain ⟨o1, ho1, hp1, _, _⟩ := claimBoostedYields_move hr
  simp only [genSt_w, genSt_week] at hp1 ho1
  exact ⟨fun k hk' => (claimBoostedYields_other hr hk').congr rfl rfl rfl rfl rfl rfl,
    fun k => claimBoostedYields_paid_mono hr k, ⟨o1, ho1, hp1⟩, rfl, rfl, rfl, rfl⟩

/-! ## every operation, classified -/

/-- the user whose boosted claim the operation performs (`none`: the operation runs no boosted
    claim that is kept — `calc` is a VM query whose state `step` discards) -/
def claimerOf (s : St) : Op → Option Nat
  | .stake c orig _ _ => some (orig.getD c)
  | .stakeProxy _ orig _ _ => some orig
  | .stakeBehalf _ user _ _ => some user
  | .claim c orig _ => some (orig.getD c)
  | .claimNew _ orig _ _ => some orig
  | .claimBehalf _ pays => claimOwner s.md pays
  | .compound c _ => some c
  | .unstake c orig _ => some (orig.getD c)
  | .unstakeProxy _ orig _ _ => some orig
  | .merge c _ => some c
  | .claimBoosted c _ => some c
  | _ => none

/-- an operation that leaves the pools, the collection marker and the undistributed total alone;
    time may pass; at most one user's progress moves to the current week -/
structure QuietFx (s s' : St) : Prop where
  paid : s'.b.paid = s.b.paid
  rem : s'.b.remaining = s.b.remaining
  coll : s'.b.collected = s.b.collected
  lcw : s'.lastCollectWeek = s.lastCollectWeek
  und : s'.undistributed = s.undistributed
  ep : s.epoch ≤ s'.epoch
  fw : s'.firstWeek = s.firstWeek
  prog : s'.w.progress = s.w.progress ∨
    ∃ u o, (∀ p, o = some p → p.week = s.week) ∧ s'.w.progress = upd s.w.progress u o

/-- the undistributed collection: the weekly module and the clock are untouched -/
structure CollectFx (s s' : St) : Prop where
  spec : ∃ o, collectUndistributed s = some (s', o)
  w : s'.w = s.w
  ep : s'.epoch = s.epoch
  fw : s'.firstWeek = s.firstWeek

inductive Fx (s : St) (op : Op) (s' : St) : Prop
  | claim (u : Nat) (hc : claimerOf s op = some u) (h : ClaimFx s s' u)
  | collect (hop : op = .collectUndistributed) (h : CollectFx s s')
  | quiet (hc : claimerOf s op = none) (h : QuietFx s s')

theorem QuietFx.refl (s : St) : QuietFx s s :=
  ⟨rfl, rfl, rfl, rfl, rfl, Nat.le_refl _, rfl, Or.inl rfl⟩

theorem settleThen_quiet {s s' : St} {f : St → St} {o : Out}
    (hf : ∀ t, QuietFx t (f t)) (h : settleThen s f = some (s', o)) : QuietFx s s' := by
  obtain ⟨_, rfl⟩ := settleThen_eq h
  have q := hf ((genSt s).flush (genCache s s.cache))
  exact ⟨q.paid, q.rem, q.coll, q.lcw, q.und, q.ep, q.fw, q.prog⟩

theorem updateEnergy_quiet {s s' : St} {u : Nat} {o : Out}
    (h : updateEnergy s u = some (s', o)) : QuietFx s s' := by
  simp only [updateEnergy, Option.bind_eq_bind, Option.bind_eq_some_iff, Option.pure_def,
    Option.some.injEq, Prod.mk.injEq] at h
  obtain ⟨g, hg, rfl, _⟩ := h
  have hg2 : updateEnergyAndProgress s.w u s.week (Energy.queried (s.energy u) s.epoch) = some g := by
    unfold updateEnergyForUser at hg
    cases hq : s.w.progress u with
    | none =>
      simp only [hq, Option.bind_eq_bind, Option.pure_def, Option.bind_some] at hg
      exact hg
    | some p =>
      simp only [hq, Option.bind_eq_bind, Option.bind_eq_some_iff] at hg
      obtain ⟨_, _, h2⟩ := hg
      exact h2
  obtain ⟨hp, _⟩ := Farm.weekly_updateEnergyAndProgress_move hg2
  exact ⟨rfl, rfl, rfl, rfl, rfl, Nat.le_refl _, rfl, Or.inr ⟨u, _, newOf_week, hp⟩⟩

theorem collectUndistributed_fx {s s' : St} {o : Out}
    (h : collectUndistributed s = some (s', o)) : CollectFx s s' := by
  refine ⟨⟨o, h⟩, ?_, ?_, ?_⟩ <;>
  · simp only [collectUndistributed, Option.bind_eq_bind, Option.bind_eq_some_iff, req_eq_some] at h
    obtain ⟨_, _, h⟩ := h
    split at h <;> simp only [Option.pure_def, Option.some.injEq, Prod.mk.injEq] at h <;>
      obtain ⟨rfl, _⟩ := h <;> rfl

/-- the frame of a quiet operation whose new state is a record update of untouched cells -/
local macro "quiet_rfl" : term => `(⟨rfl, rfl, rfl, rfl, rfl, Nat.le_refl _, rfl, Or.inl rfl⟩)

/-- **every successful operation is a boosted claim of its `claimerOf`, the undistributed
    collection, or leaves the pools alone** -/
theorem stepCore_fx {s s' : St} {op : Op} {o : Out} (h : stepCore s op = some (s', o)) : Fx s op s' := by
  cases op <;> simp only [stepCore] at h
  case stake c orig a adds =>
    cases orig <;> simp only [stakeFarm, Option.bind_eq_bind, Option.bind_eq_some_iff] at h
    · exact .claim c rfl (stakeCore_fx h)
    · obtain ⟨_, _, h⟩ := h; exact .claim _ rfl (stakeCore_fx h)
  case stakeProxy c orig a adds =>
    simp only [stakeProxy, Option.bind_eq_bind, Option.bind_eq_some_iff] at h
    obtain ⟨_, _, h⟩ := h; exact .claim orig rfl (stakeCore_fx h)
  case stakeBehalf c u a adds =>
    simp only [stakeOnBehalf, Option.bind_eq_bind, Option.bind_eq_some_iff] at h
    obtain ⟨_, _, _, _, h⟩ := h; exact .claim u rfl (stakeCore_fx h)
  case claim c orig p =>
    cases orig <;> simp only [claimRewards, Option.bind_eq_bind, Option.bind_eq_some_iff] at h
    · exact .claim c rfl (claimCore_fx h)
    · obtain ⟨_, _, h⟩ := h; exact .claim _ rfl (claimCore_fx h)
  case claimNew c orig nv p =>
    simp only [claimNewValue, Option.bind_eq_bind, Option.bind_eq_some_iff] at h
    obtain ⟨_, _, h⟩ := h; exact .claim orig rfl (claimCore_fx h)
  case claimBehalf c ps =>
    simp only [claimOnBehalf, Option.bind_eq_bind, Option.bind_eq_some_iff] at h
    obtain ⟨user, hu, _, _, h⟩ := h; exact .claim user hu (claimCore_fx h)
  case compound c ps => exact .claim c rfl (compound_fx h)
  case unstake c orig p =>
    cases orig <;> simp only [unstakeFarm, Option.bind_eq_bind, Option.bind_eq_some_iff] at h
    · exact .claim c rfl (unstakeCore_fx h)
    · obtain ⟨_, _, h⟩ := h; exact .claim _ rfl (unstakeCore_fx h)
  case unstakeProxy c orig x p =>
    simp only [unstakeProxy, Option.bind_eq_bind, Option.bind_eq_some_iff] at h
    obtain ⟨_, _, h⟩ := h; exact .claim orig rfl (unstakeCore_fx h)
  case unbond c p =>
    obtain ⟨_, _, _, _, _, _, rfl⟩ := unbondFarm_iff.1 h
    exact .quiet rfl quiet_rfl
  case merge c ps => exact .claim c rfl (mergeTokens_fx h)
  case claimBoosted c u => exact .claim c rfl (claimBoostedRewards_fx h)
  case «calc» q a t =>
    simp only [Option.map_eq_some_iff, Prod.mk.injEq] at h
    obtain ⟨_, _, rfl, _⟩ := h
    exact .quiet rfl quiet_rfl
  case transfer a b p =>
    simp only [transfer, Option.bind_eq_bind, Option.bind_eq_some_iff, req_eq_some,
      Option.pure_def, Option.some.injEq, Prod.mk.injEq] at h
    obtain ⟨_, _, hold0, _, rfl, _⟩ := h
    exact .quiet rfl quiet_rfl
  case setEnergy u a l =>
    simp only [Option.some.injEq, Prod.mk.injEq] at h
    obtain ⟨rfl, _⟩ := h
    exact .quiet rfl quiet_rfl
  case updateEnergy u => exact .quiet rfl (updateEnergy_quiet h)
  case topUp x =>
    simp only [topUp, Option.bind_eq_bind, Option.bind_eq_some_iff, req_eq_some,
      Option.pure_def, Option.some.injEq, Prod.mk.injEq] at h
    obtain ⟨_, _, rfl, _⟩ := h
    exact .quiet rfl quiet_rfl
  case withdraw x =>
    simp only [withdraw, Option.bind_eq_bind, Option.bind_eq_some_iff, req_eq_some,
      sub?_eq_some, Option.pure_def, Option.some.injEq, Prod.mk.injEq] at h
    obtain ⟨⟨s1, c1⟩, hg, rem, _, _, _, cap, _, bal1, _, rfl, _⟩ := h
    obtain ⟨_, _, rfl, rfl⟩ := generate_spec hg
    exact .quiet rfl ⟨rfl, rfl, rfl, rfl, rfl, Nat.le_refl _, rfl, Or.inl rfl⟩
  case setMaxApr x =>
    simp only [setMaxApr, Option.bind_eq_bind, Option.bind_eq_some_iff] at h
    obtain ⟨_, _, h⟩ := h
    exact .quiet rfl (settleThen_quiet (f := fun t => { t with maxApr := x }) (fun t => quiet_rfl) h)
  case setPerBlock x =>
    simp only [setPerBlock, Option.bind_eq_bind, Option.bind_eq_some_iff] at h
    obtain ⟨_, _, h⟩ := h
    exact .quiet rfl (settleThen_quiet (f := fun t => { t with perBlock := x }) (fun t => quiet_rfl) h)
  case startProduce =>
    simp only [startProduce, Option.bind_eq_bind, Option.bind_eq_some_iff, req_eq_some,
      Option.pure_def, Option.some.injEq, Prod.mk.injEq] at h
    obtain ⟨_, _, _, _, rfl, _⟩ := h
    exact .quiet rfl quiet_rfl
  case endProduce =>
    exact .quiet rfl (settleThen_quiet (f := fun t => { t with produce := false }) (fun t => quiet_rfl) h)
  case setMinUnbond e =>
    simp only [setMinUnbond, Option.bind_eq_bind, Option.bind_eq_some_iff, req_eq_some,
      Option.pure_def, Option.some.injEq, Prod.mk.injEq] at h
    obtain ⟨_, _, rfl, _⟩ := h
    exact .quiet rfl quiet_rfl
  case setBoostedPct p =>
    simp only [setBoostedPct, Option.bind_eq_bind, Option.bind_eq_some_iff, req_eq_some] at h
    obtain ⟨_, _, h⟩ := h
    exact .quiet rfl (settleThen_quiet (f := fun t => { t with boostedPct := p }) (fun t => quiet_rfl) h)
  case setFactors x =>
    simp only [setFactors, Option.bind_eq_bind, Option.bind_eq_some_iff, req_eq_some,
      Option.pure_def, Option.some.injEq, Prod.mk.injEq] at h
    obtain ⟨_, _, _, _, c, _, rfl, _⟩ := h
    exact .quiet rfl quiet_rfl
  case collectUndistributed => exact .collect rfl (collectUndistributed_fx h)
  case pause =>
    simp only [Option.some.injEq, Prod.mk.injEq] at h
    obtain ⟨rfl, _⟩ := h
    exact .quiet rfl quiet_rfl
  case resume =>
    simp only [Option.some.injEq, Prod.mk.injEq] at h
    obtain ⟨rfl, _⟩ := h
    exact .quiet rfl quiet_rfl
  case hubWhitelist u a =>
    simp only [Option.bind_eq_bind, Option.bind_eq_some_iff, req_eq_some,
      Option.pure_def, Option.some.injEq, Prod.mk.injEq] at h
    obtain ⟨_, _, rfl, _⟩ := h
    exact .quiet rfl quiet_rfl
  case hubRemove u a =>
    simp only [Option.bind_eq_bind, Option.bind_eq_some_iff, req_eq_some,
      Option.pure_def, Option.some.injEq, Prod.mk.injEq] at h
    obtain ⟨_, _, rfl, _⟩ := h
    exact .quiet rfl quiet_rfl
  case advance b e =>
    simp only [Option.some.injEq, Prod.mk.injEq] at h
    obtain ⟨rfl, _⟩ := h
    exact .quiet rfl ⟨rfl, rfl, rfl, rfl, rfl, Nat.le_add_right _ _, rfl, Or.inl rfl⟩

theorem step_fx {s s' : St} {op : Op} {o : Out} (h : step s op = some (s', o)) : Fx s op s' := by
  simp only [step, Option.bind_eq_bind, Option.bind_eq_some_iff] at h
  obtain ⟨_, _, h⟩ := h
  exact stepCore_fx h

/-! ## consequences for one step -/

theorem week_mono {s s' : St} (hf : s'.firstWeek = s.firstWeek) (he : s.epoch ≤ s'.epoch) :
    s.week ≤ s'.week := by
  simp only [St.week, EPOCHS_IN_WEEK, hf]
  omega

theorem week_eq {s s' : St} (hf : s'.firstWeek = s.firstWeek) (he : s'.epoch = s.epoch) :
    s'.week = s.week := by
  simp only [St.week, hf, he]

theorem Fx.week_le {s s' : St} {op : Op} (h : Fx s op s') : s.week ≤ s'.week := by
  cases h with
  | claim u _ h => exact Nat.le_of_eq (week_eq h.fw h.ep).symm
  | collect _ h => exact Nat.le_of_eq (week_eq h.fw h.ep).symm
  | quiet _ h => exact week_mono h.fw h.ep

/-- every user's progress is untouched, cleared, or moved to the current week -/
theorem Fx.progress {s s' : St} {op : Op} (h : Fx s op s') (v : Nat) :
    s'.w.progress v = s.w.progress v ∨ s'.w.progress v = none ∨
      ∃ p, s'.w.progress v = some p ∧ p.week = s.week := by
  have key : ∀ u o, (∀ p, o = some p → p.week = s.week) → s'.w.progress = upd s.w.progress u o →
      s'.w.progress v = s.w.progress v ∨ s'.w.progress v = none ∨
        ∃ p, s'.w.progress v = some p ∧ p.week = s.week := by
    intro u o ho hp
    rw [hp]
    by_cases hv : v = u
    · subst hv
      rw [upd_same]
      cases o with
      | none => exact Or.inr (Or.inl rfl)
      | some p => exact Or.inr (Or.inr ⟨p, rfl, ho p rfl⟩)
    · rw [upd_other _ _ hv]; exact Or.inl rfl
  cases h with
  | claim u _ h => obtain ⟨o, ho, hp⟩ := h.prog; exact key u o ho hp
  | collect _ h => rw [h.w]; exact Or.inl rfl
  | quiet _ h =>
    rcases h.prog with hp | ⟨u, o, ho, hp⟩
    · rw [hp]; exact Or.inl rfl
    · exact key u o ho hp

/-- **gating of a pool debit**: if a successful operation changes `paid(w)` then it runs the boosted
    claim of a user `u` whose stored progress has not passed `w`, `w` is a completed week among the
    last four, and afterwards `u`'s progress is cleared or at the current week (> `w`) -/
theorem Fx.paid_gate {s s' : St} {op : Op} (h : Fx s op s') {w : Nat} (hne : s'.b.paid w ≠ s.b.paid w) :
    ∃ u p, claimerOf s op = some u ∧ s.w.progress u = some p ∧ p.week ≤ w ∧ w < s.week ∧
      s.week ≤ w + 4 ∧ s.b.paid w < s'.b.paid w ∧ s'.week = s.week ∧
      (s'.w.progress u = none ∨ ∃ p', s'.w.progress u = some p' ∧ p'.week = s.week) := by
  cases h with
  | claim u hc h =>
    by_cases hin : InWindow (s.w.progress u) s.week w
    · obtain ⟨p, hp, h1, h2, h3⟩ := hin
      obtain ⟨o, ho, hpr⟩ := h.prog
      refine ⟨u, p, hc, hp, h1, h2, h3, ?_, week_eq h.fw h.ep, ?_⟩
      · have := h.mono w; omega
      · rw [hpr, upd_same]
        cases o with
        | none => exact Or.inl rfl
        | some p' => exact Or.inr ⟨p', rfl, ho p' rfl⟩
    · exact absurd (h.pools w hin).1 hne
  | collect _ h =>
    obtain ⟨o, hs⟩ := h.spec
    obtain ⟨_, ⟨_, rfl⟩ | ⟨_, _, _, _, hp, _⟩⟩ := collectUndistributed_spec hs
    · exact absurd rfl hne
    · exact absurd (congrFun hp w) hne
  | quiet _ h => exact absurd (congrFun h.paid w) hne

/-! ## (A) a (user, week) pool debit happens at most once in a history -/

/-- the state after one operation of a history (a failed transaction changes nothing) -/
def next (s : St) (op : Op) : St :=
  match step s op with
  | some r => r.1
  | none => s

theorem run_cons (s : St) (op : Op) (ops : List Op) : run s (op :: ops) = run (next s op) ops := rfl

/-- 1 if the operation succeeds, runs the boosted claim of `u`, and changes `paid(w)` -/
def debitStep (s : St) (op : Op) (u w : Nat) : Nat :=
  match step s op with
  | some r => if claimerOf s op = some u ∧ r.1.b.paid w ≠ s.b.paid w then 1 else 0
  | none => 0

/-- the number of operations of the history `ops` (run from `s`) that debit the pool of week `w`
    through a boosted claim of user `u` -/
def debits : St → List Op → Nat → Nat → Nat
  | _, [], _, _ => 0
  | s, op :: ops, u, w => debitStep s op u w + debits (next s op) ops u w

/-- week `w` is closed for user `u`: it is over and `u`'s stored progress (if any) is beyond it -/
def Closed (s : St) (u w : Nat) : Prop :=
  w < s.week ∧ ∀ p, s.w.progress u = some p → w < p.week

theorem closed_next {s : St} {u w : Nat} (h : Closed s u w) (op : Op) : Closed (next s op) u w := by
  unfold next
  cases hs : step s op with
  | none => exact h
  | some r =>
    have fx := step_fx (s := s) (s' := r.1) (o := r.2) hs
    refine ⟨Nat.lt_of_lt_of_le h.1 fx.week_le, fun p hp => ?_⟩
    change r.1.w.progress u = some p at hp
    rcases fx.progress u with e | e | ⟨p', e, hw⟩
    · rw [e] at hp; exact h.2 p hp
    · rw [e] at hp; cases hp
    · rw [e] at hp; cases hp; rw [hw]; exact h.1

theorem closed_debitStep {s : St} {u w : Nat} (h : Closed s u w) (op : Op) : debitStep s op u w = 0 := by
  unfold debitStep
  cases hs : step s op with
  | none => rfl
  | some r =>
    have fx := step_fx (s := s) (s' := r.1) (o := r.2) hs
    show (if claimerOf s op = some u ∧ r.1.b.paid w ≠ s.b.paid w then 1 else 0) = 0
    rw [if_neg]
    rintro ⟨hc, hne⟩
    obtain ⟨u', p, hc', hp, hle, _⟩ := fx.paid_gate hne
    rw [hc] at hc'
    cases hc'
    have := h.2 p hp
    omega

theorem closed_debits {u w : Nat} : ∀ (ops : List Op) {s : St}, Closed s u w → debits s ops u w = 0
  | [], _, _ => rfl
  | op :: ops, s, h => by
    show debitStep s op u w + debits (next s op) ops u w = 0
    rw [closed_debitStep h op, closed_debits ops (closed_next h op)]

/-- a debit of `(u, w)` closes the week for `u` -/
theorem debitStep_closes {s : St} {op : Op} {u w : Nat} (h : debitStep s op u w ≠ 0) :
    Closed (next s op) u w := by
  unfold debitStep at h
  unfold next
  cases hs : step s op with
  | none => rw [hs] at h; exact absurd rfl h
  | some r =>
    rw [hs] at h
    have fx := step_fx (s := s) (s' := r.1) (o := r.2) hs
    have hc : claimerOf s op = some u ∧ r.1.b.paid w ≠ s.b.paid w := by
      by_contra hn
      simp only [hn, if_false] at h
      exact h rfl
    obtain ⟨u', p, hc', hp, hle, hlt, _, _, hwk, hafter⟩ := fx.paid_gate hc.2
    rw [hc.1] at hc'
    cases hc'
    refine ⟨by show w < r.1.week; rw [hwk]; exact hlt, fun q hq => ?_⟩
    change r.1.w.progress u = some q at hq
    rcases hafter with e | ⟨p', e, hw⟩
    · rw [e] at hq; cases hq
    · rw [e] at hq; cases hq; rw [hw]; exact hlt

theorem debitStep_le_one (s : St) (op : Op) (u w : Nat) : debitStep s op u w ≤ 1 := by
  unfold debitStep
  split
  · split <;> omega
  · omega

/-- **paid at most once**: from ANY state, along ANY history, at most one operation debits the pool
    of week `w` through a boosted claim of user `u` -/
theorem debits_le_one (u w : Nat) : ∀ (ops : List Op) (s : St), debits s ops u w ≤ 1
  | [], _ => Nat.zero_le _
  | op :: ops, s => by
    show debitStep s op u w + debits (next s op) ops u w ≤ 1
    by_cases h0 : debitStep s op u w = 0
    · rw [h0, Nat.zero_add]; exact debits_le_one u w ops _
    · rw [closed_debits ops (debitStep_closes h0)]
      exact debitStep_le_one s op u w

/-- after an operation that runs `u`'s boosted claim every week before the current one is closed
    for `u` -/
theorem Fx.claimer_closes {s s' : St} {op : Op} (h : Fx s op s') {u : Nat}
    (hu : claimerOf s op = some u) {w : Nat} (hw : w < s.week) : Closed s' u w := by
  cases h with
  | claim u' hc h =>
    rw [hu] at hc
    cases hc
    obtain ⟨o, ho, hp⟩ := h.prog
    refine ⟨by rw [week_eq h.fw h.ep]; exact hw, fun p hq => ?_⟩
    rw [hp, upd_same] at hq
    rw [ho p hq]; exact hw
  | collect hop _ => rw [hop] at hu; cases hu
  | quiet hc _ => rw [hu] at hc; cases hc

/-! ## (B) the undistributed collection -/

/-- the collection marker is 0 (nothing collected yet) or at least five weeks behind, and every
    collected week's pool is empty -/
structure CollInv (s : St) : Prop where
  marker : s.lastCollectWeek = 0 ∨ s.lastCollectWeek + 5 ≤ s.week
  zero : ∀ w, 1 ≤ w → w ≤ s.lastCollectWeek → s.b.remaining w = 0

theorem collInv_init (epoch block dsc maxApr minUnbond perBlock : Nat) (accts wl : List Nat) :
    CollInv (init epoch block dsc maxApr minUnbond perBlock accts wl) :=
  ⟨Or.inl rfl, fun _ _ _ => rfl⟩

/-- a collected week (`1 ≤ w ≤ lastCollectWeek`) is outside every claim window: no operation
    writes its pool again -/
theorem Fx.collected_frozen {s s' : St} {op : Op} (h : Fx s op s') (hI : CollInv s) {w : Nat}
    (h1 : 1 ≤ w) (h2 : w ≤ s.lastCollectWeek) :
    s'.b.paid w = s.b.paid w ∧ s'.b.remaining w = s.b.remaining w ∧ s'.b.collected w = s.b.collected w := by
  have hm : s.lastCollectWeek + 5 ≤ s.week := by
    rcases hI.marker with h0 | h0
    · omega
    · exact h0
  cases h with
  | claim u _ h =>
    apply h.pools w
    rintro ⟨p, _, _, _, h5⟩
    omega
  | collect _ h =>
    obtain ⟨o, hs⟩ := h.spec
    obtain ⟨_, ⟨_, rfl⟩ | ⟨_, _, hr, _, hp, hc, _⟩⟩ := collectUndistributed_spec hs
    · exact ⟨rfl, rfl, rfl⟩
    · refine ⟨congrFun hp w, ?_, congrFun hc w⟩
      rw [hr w, if_neg (by omega)]
  | quiet _ h => exact ⟨congrFun h.paid w, congrFun h.rem w, congrFun h.coll w⟩

theorem Fx.collInv {s s' : St} {op : Op} (h : Fx s op s') (hI : CollInv s) : CollInv s' := by
  have hwk := h.week_le
  have hfr := fun w h1 h2 => (h.collected_frozen hI (w := w) h1 h2).2.1
  cases h with
  | claim u _ h =>
    refine ⟨by rw [h.lcw]; rcases hI.marker with h0 | h0 <;> [exact Or.inl h0; exact Or.inr (by omega)], ?_⟩
    intro w h1 h2
    rw [h.lcw] at h2
    rw [hfr w h1 h2]; exact hI.zero w h1 h2
  | collect _ h =>
    obtain ⟨o, hs⟩ := h.spec
    obtain ⟨h5, ⟨_, rfl⟩ | ⟨hlt, hl, hr, _, _, _, _, hw⟩⟩ := collectUndistributed_spec hs
    · exact hI
    · refine ⟨Or.inr (by rw [hl, hw]; omega), ?_⟩
      intro w h1 h2
      rw [hl] at h2
      rw [hr w]
      by_cases hk : s.lastCollectWeek + 1 ≤ w ∧ w ≤ s.week - 5
      · rw [if_pos hk]
      · rw [if_neg hk]; exact hI.zero w h1 (by omega)
  | quiet _ h =>
    refine ⟨by rw [h.lcw]; rcases hI.marker with h0 | h0 <;> [exact Or.inl h0; exact Or.inr (by omega)], ?_⟩
    intro w h1 h2
    rw [h.lcw] at h2
    rw [hfr w h1 h2]; exact hI.zero w h1 h2

theorem collInv_next {s : St} (hI : CollInv s) (op : Op) : CollInv (next s op) := by
  unfold next
  cases hs : step s op with
  | none => exact hI
  | some r => exact (step_fx (s := s) (s' := r.1) (o := r.2) hs).collInv hI

theorem run_collInv : ∀ (ops : List Op) {s : St}, CollInv s → CollInv (run s ops)
  | [], _, h => h
  | op :: ops, s, h => by rw [run_cons]; exact run_collInv ops (collInv_next h op)

/-- what one step does to the marker and the undistributed total (no invariant needed) -/
theorem Fx.marker {s s' : St} {op : Op} (h : Fx s op s') :
    s.lastCollectWeek ≤ s'.lastCollectWeek ∧
    (op ≠ .collectUndistributed →
      s'.lastCollectWeek = s.lastCollectWeek ∧ s'.undistributed = s.undistributed) ∧
    s'.undistributed = s.undistributed +
      ((List.range (s'.lastCollectWeek - s.lastCollectWeek)).map
        fun i => s.b.remaining (s.lastCollectWeek + 1 + i)).sum ∧
    (∀ k, s.lastCollectWeek < k → k ≤ s'.lastCollectWeek → s'.b.remaining k = 0 ∧ k + 5 ≤ s.week) ∧
    (op = .collectUndistributed → ∀ k, ¬(s.lastCollectWeek < k ∧ k ≤ s'.lastCollectWeek) →
      s'.b.remaining k = s.b.remaining k) ∧
    (op = .collectUndistributed → s'.b.paid = s.b.paid ∧ s'.b.collected = s.b.collected) := by
  have same : s'.lastCollectWeek = s.lastCollectWeek → s'.undistributed = s.undistributed →
      s'.undistributed = s.undistributed +
        ((List.range (s'.lastCollectWeek - s.lastCollectWeek)).map
          fun i => s.b.remaining (s.lastCollectWeek + 1 + i)).sum := by
    intro e1 e2
    rw [e1, e2, Nat.sub_self]; rfl
  cases h with
  | claim u hc h =>
    refine ⟨Nat.le_of_eq h.lcw.symm, fun _ => ⟨h.lcw, h.und⟩, same h.lcw h.und, ?_, ?_, ?_⟩
    · intro k h1 h2; rw [h.lcw] at h2; omega
    · intro hop; rw [hop] at hc; cases hc
    · intro hop; rw [hop] at hc; cases hc
  | collect hop h =>
    obtain ⟨o, hs⟩ := h.spec
    obtain ⟨h5, ⟨_, rfl⟩ | ⟨hlt, hl, hr, hu, hp, hc, _, hw⟩⟩ := collectUndistributed_spec hs
    · refine ⟨Nat.le_refl _, fun _ => ⟨rfl, rfl⟩, same rfl rfl, ?_, fun _ _ _ => rfl, fun _ => ⟨rfl, rfl⟩⟩
      intro k h1 h2; omega
    · refine ⟨by omega, fun hne => absurd hop hne, by rw [hl]; exact hu, ?_, ?_, fun _ => ⟨hp, hc⟩⟩
      · intro k h1 h2
        rw [hl] at h2
        rw [hr k, if_pos (by omega)]
        exact ⟨rfl, by omega⟩
      · intro _ k hk
        rw [hl] at hk
        rw [hr k, if_neg (by omega)]
  | quiet _ h =>
    refine ⟨Nat.le_of_eq h.lcw.symm, fun _ => ⟨h.lcw, h.und⟩, same h.lcw h.und, ?_, ?_, ?_⟩
    · intro k h1 h2; rw [h.lcw] at h2; omega
    · intro _ k _; exact congrFun h.rem k
    · intro _; exact ⟨h.paid, h.coll⟩

/-- a collected week stays as it is along every history -/
theorem run_collected_frozen {w : Nat} (h1 : 1 ≤ w) : ∀ (ops : List Op) {s : St}, CollInv s →
    w ≤ s.lastCollectWeek →
    (run s ops).b.paid w = s.b.paid w ∧ (run s ops).b.remaining w = 0 ∧
      (run s ops).b.collected w = s.b.collected w ∧ w ≤ (run s ops).lastCollectWeek
  | [], s, hI, h2 => ⟨rfl, hI.zero w h1 h2, rfl, h2⟩
  | op :: ops, s, hI, h2 => by
    rw [run_cons]
    have hn : (next s op).b.paid w = s.b.paid w ∧ (next s op).b.collected w = s.b.collected w ∧
        s.lastCollectWeek ≤ (next s op).lastCollectWeek := by
      unfold next
      cases hs : step s op with
      | none => exact ⟨rfl, rfl, Nat.le_refl _⟩
      | some r =>
        have fx := step_fx (s := s) (s' := r.1) (o := r.2) hs
        obtain ⟨e1, _, e3⟩ := fx.collected_frozen hI h1 h2
        exact ⟨e1, e3, fx.marker.1⟩
    obtain ⟨a1, a2, a3, a4⟩ := run_collected_frozen h1 ops (collInv_next hI op) (Nat.le_trans h2 hn.2.2)
    exact ⟨a1.trans hn.1, a2, a3.trans hn.2.1, a4⟩

/-- 1 if the operation succeeds and moves the collection marker across week `w` -/
def crossStep (s : St) (op : Op) (w : Nat) : Nat :=
  match step s op with
  | some r => if s.lastCollectWeek < w ∧ w ≤ r.1.lastCollectWeek then 1 else 0
  | none => 0

/-- the number of operations of the history at which week `w` is collected -/
def crossings : St → List Op → Nat → Nat
  | _, [], _ => 0
  | s, op :: ops, w => crossStep s op w + crossings (next s op) ops w

theorem next_marker_le (s : St) (op : Op) : s.lastCollectWeek ≤ (next s op).lastCollectWeek := by
  unfold next
  cases hs : step s op with
  | none => exact Nat.le_refl _
  | some r => exact (step_fx (s := s) (s' := r.1) (o := r.2) hs).marker.1

theorem crossings_zero {w : Nat} : ∀ (ops : List Op) {s : St}, w ≤ s.lastCollectWeek →
    crossings s ops w = 0
  | [], _, _ => rfl
  | op :: ops, s, h => by
    show crossStep s op w + crossings (next s op) ops w = 0
    rw [crossings_zero ops (Nat.le_trans h (next_marker_le s op))]
    unfold crossStep
    split
    · rw [if_neg (by omega)]
    · rfl

/-- **collected at most once**: from ANY state, along ANY history, the collection marker crosses a
    given week at most once -/
theorem crossings_le_one (w : Nat) : ∀ (ops : List Op) (s : St), crossings s ops w ≤ 1
  | [], _ => Nat.zero_le _
  | op :: ops, s => by
    show crossStep s op w + crossings (next s op) ops w ≤ 1
    unfold crossStep
    cases hs : step s op with
    | none =>
      have := crossings_le_one w ops (next s op)
      simpa using this
    | some r =>
      by_cases hc : s.lastCollectWeek < w ∧ w ≤ r.1.lastCollectWeek
      · have hn : next s op = r.1 := by unfold next; rw [hs]
        rw [hn, crossings_zero ops hc.2]
        simp only [hc, and_self, if_true]
        exact Nat.le_refl _
      · simp only [hc, if_false, Nat.zero_add]
        exact crossings_le_one w ops _

/-! ## (C) the boosted claim inside stake / claim / unstake uses the position BEFORE the operation -/

/-- `stakeFarm*`: the boosted part is the boosted claim of `orig` in the ENTRY state with the total
    position recorded BEFORE the stake (whatever is staked, by whom, with which extra tokens) -/
theorem stakeCore_boosted {s s' : St} {c orig amount : Nat} {v : Bool} {adds : List Pay} {o : Out}
    (h : stakeCore s c orig amount v adds = some (s', o)) :
    ∃ r, claimBoostedYields s orig (s.userTotal orig) = some r ∧ o.c = r.2.2 ∧
      s'.b.paid = r.2.1.paid ∧ s'.b.remaining = r.2.1.remaining ∧ s'.b.collected = r.2.1.collected ∧
      s'.paidBoosted = s.paidBoosted + r.2.2 := by
  cases v <;>
  · simp only [stakeCore, Option.bind_eq_bind, Option.bind_eq_some_iff, req_eq_some,
      sub?_eq_some, Option.pure_def, Option.some.injEq, Prod.mk.injEq] at h
    obtain ⟨_, _, hold0, hd, r, hr, res1, _, _, _, ut1, hk, ⟨s3, c3⟩, hg, merged, hm, w2, hw2,
      bal1, _, rfl, rfl⟩ := h
    obtain ⟨_, _, rfl, rfl⟩ := generate_spec hg
    exact ⟨r, hr, rfl, rfl, rfl, rfl, rfl⟩

/-- `claimRewards*` (also with a new farming amount): the boosted part is the boosted claim of
    `orig` after settling, with the total position recorded BEFORE the operation -/
theorem claimCore_boosted {s s' : St} {c orig : Nat} {pays : List Pay} {nv : Option Nat} {o : Out}
    (h : claimCore s c orig pays nv = some (s', o)) :
    ∃ r, claimBoostedYields (genSt s) orig (s.userTotal orig) = some r ∧
      s'.b.paid = r.2.1.paid ∧ s'.b.remaining = r.2.1.remaining ∧ s'.b.collected = r.2.1.collected ∧
      s'.paidBoosted = s.paidBoosted + r.2.2 := by
  simp only [claimCore, Option.bind_eq_bind, Option.bind_eq_some_iff] at h
  obtain ⟨m, hm, h⟩ := h
  obtain ⟨_, _, _, r, _, _, _, hr, hbo, _, hb1, _, _, hs1, _⟩ := claimBase_reward hm
  simp only [claimFinish, Option.bind_eq_bind, Option.bind_eq_some_iff, req_eq_some,
    sub?_eq_some, Option.pure_def, Option.some.injEq, Prod.mk.injEq] at h
  obtain ⟨res1, _, sup1, _, ut2, _, _, _, w2, hw2, bal1, _, rfl, _⟩ := h
  refine ⟨r, hr, ?_, ?_, ?_, ?_⟩
  · show m.b1.paid = _; rw [hb1]
  · show m.b1.remaining = _; rw [hb1]
  · show m.b1.collected = _; rw [hb1]
  · show m.s1.paidBoosted + m.boosted = _; rw [hs1, hbo]; rfl

/-- `unstakeFarm*`: the boosted part is the boosted claim of `orig` after settling, with the total
    position recorded BEFORE the unstaked amount is removed -/
theorem unstakeCore_boosted {s s' : St} {c orig : Nat} {pay : Pay} {x : Option Nat} {o : Out}
    (h : unstakeCore s c orig pay x = some (s', o)) :
    ∃ r, claimBoostedYields (genSt s) orig (s.userTotal orig) = some r ∧
      s'.b.paid = r.2.1.paid ∧ s'.b.remaining = r.2.1.remaining ∧ s'.b.collected = r.2.1.collected ∧
      s'.paidBoosted = s.paidBoosted + r.2.2 := by
  cases x <;>
  · simp only [unstakeCore, Option.bind_eq_bind, Option.bind_eq_some_iff, req_eq_some,
      sub?_eq_some, Option.pure_def, Option.some.injEq, Prod.mk.injEq] at h
    obtain ⟨_, _, hold0, _, _, _, attrs, _, ⟨s1, c1⟩, hg, tok, _, r, hr, res1, _,
      sup1, _, w2, hw2, bal1, _, rfl, _⟩ := h
    obtain ⟨_, _, rfl, rfl⟩ := generate_spec hg
    exact ⟨r, hr, rfl, rfl, rfl, rfl⟩

end Mx.Staking
